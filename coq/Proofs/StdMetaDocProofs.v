(* Proofs relating the documented forms of Model/StdMetaDoc.v to the model of
   /repo/src/metadata.rs in Model/StdMeta.v (statements are collected in
   Properties/C13.v). *)
From Coq Require Import String Ascii Qpower.
From CL Require Import Base.StrLemmas Model.StdMeta Model.StdMetaDoc Proofs.StdMetaProofs.
Open Scope N_scope.

Local Notation print_nat := Doc.print_nat.
Local Notation digits_fuel := Doc.digits_fuel.

(* ------------------------------------------------------------------ digits *)

Ltac gdm n := generalize dependent (n mod 10); generalize dependent (n / 10); intros.

Lemma is_digit_range c : is_digit c = true <-> 48 <= c <= 57.
Proof.
  unfold is_digit. rewrite andb_true_iff, !N.leb_le. tauto.
Qed.

Lemma is_digit_mod n : is_digit (48 + n mod 10) = true.
Proof.
  apply is_digit_range. pose proof (N.mod_lt n 10 ltac:(lia)) as H.
  generalize dependent (n mod 10). intros. lia.
Qed.

Lemma digit_not c x : is_digit c = true -> (x < 48 \/ 57 < x) -> (c =? x) = false.
Proof. intros H K. apply is_digit_range in H. apply N.eqb_neq. lia. Qed.

Lemma digits_val_app a x y :
  digits_val a (x ++ y)
  = match digits_val a x with Some b => digits_val b y | None => None end.
Proof.
  revert a. induction x as [|c x IH]; intro a; cbn [app digits_val]; [reflexivity|].
  destruct (is_digit c); [apply IH|reflexivity].
Qed.

Lemma digits_fuel_acc f : forall n acc, digits_fuel f n acc = digits_fuel f n [] ++ acc.
Proof.
  induction f as [|f IH]; intros n acc; cbn [Doc.digits_fuel]; [reflexivity|].
  destruct (n / 10 =? 0); [reflexivity|].
  rewrite IH. rewrite (IH _ [_]). rewrite <- app_assoc. reflexivity.
Qed.

Lemma log2_div10 n : n / 10 <> 0 -> N.log2 (n / 10) < N.log2 n.
Proof.
  intro H. pose proof (N.mul_div_le n 10 ltac:(lia)) as L.
  assert (D : N.log2 (2 * (n / 10)) = N.succ (N.log2 (n / 10))).
  { apply N.log2_double. generalize dependent (n / 10). intros. lia. }
  assert (M : N.log2 (2 * (n / 10)) <= N.log2 n).
  { apply N.log2_le_mono. generalize dependent (n / 10). intros. lia. }
  rewrite D in M. generalize dependent (N.log2 (n / 10)). generalize dependent (N.log2 n).
  intros. lia.
Qed.

Lemma digits_fuel_indep f1 : forall f2 n,
  (N.to_nat (N.log2 n) < f1)%nat -> (N.to_nat (N.log2 n) < f2)%nat ->
  digits_fuel f1 n [] = digits_fuel f2 n [].
Proof.
  induction f1 as [|f1 IH]; intros f2 n H1 H2; [lia|].
  destruct f2 as [|f2]; [lia|]. cbn [Doc.digits_fuel].
  destruct (n / 10 =? 0) eqn:E; [reflexivity|].
  apply N.eqb_neq in E. pose proof (log2_div10 n E).
  rewrite (digits_fuel_acc f1), (digits_fuel_acc f2). f_equal. apply IH; lia.
Qed.

(* the defining equations of the canonical numeral *)
Lemma print_nat_small n : n < 10 -> print_nat n = [48 + n].
Proof.
  intro H. unfold Doc.print_nat. cbn [Doc.digits_fuel].
  rewrite (N.div_small n 10 H), (N.mod_small n 10 H). reflexivity.
Qed.

Lemma print_nat_step n : 10 <= n -> print_nat n = print_nat (n / 10) ++ [48 + n mod 10].
Proof.
  intro H. unfold Doc.print_nat at 1. cbn [Doc.digits_fuel].
  destruct (n / 10 =? 0) eqn:E.
  - apply N.eqb_eq in E. pose proof (N.mod_lt n 10 ltac:(lia)). pose proof (N.div_mod' n 10).
    gdm n. lia.
  - apply N.eqb_neq in E. pose proof (log2_div10 n E).
    rewrite digits_fuel_acc. f_equal. unfold Doc.print_nat. apply digits_fuel_indep; lia.
Qed.

Lemma digits_fuel_digits f : forall n, forallb is_digit (digits_fuel f n []) = true.
Proof.
  induction f as [|f IH]; intro n; cbn [Doc.digits_fuel]; [reflexivity|].
  destruct (n / 10 =? 0).
  - cbn [forallb]. rewrite is_digit_mod. reflexivity.
  - rewrite digits_fuel_acc, forallb_app, IH. cbn [forallb]. rewrite is_digit_mod. reflexivity.
Qed.

Lemma print_nat_digits n : forallb is_digit (print_nat n) = true.
Proof. apply digits_fuel_digits. Qed.

Lemma print_nat_nonempty n : print_nat n <> [].
Proof.
  unfold Doc.print_nat. cbn [Doc.digits_fuel]. destruct (n / 10 =? 0); [discriminate|].
  rewrite digits_fuel_acc. intro H. apply app_eq_nil in H as [_ H]. discriminate.
Qed.

Lemma digits_val_fuel f : forall n, (N.to_nat (N.log2 n) < f)%nat ->
  digits_val 0 (digits_fuel f n []) = Some n.
Proof.
  induction f as [|f IH]; intros n H; [lia|]. cbn [Doc.digits_fuel].
  pose proof (N.div_mod' n 10) as DM.
  destruct (n / 10 =? 0) eqn:E.
  - apply N.eqb_eq in E. cbn [digits_val]. rewrite is_digit_mod. f_equal. clear H IH. gdm n. lia.
  - apply N.eqb_neq in E. pose proof (log2_div10 n E).
    rewrite digits_fuel_acc, digits_val_app, IH by lia.
    cbn [digits_val]. rewrite is_digit_mod. f_equal. clear H H0 IH. gdm n. lia.
Qed.

Lemma digits_val_print n : digits_val 0 (print_nat n) = Some n.
Proof. apply digits_val_fuel. lia. Qed.

Lemma parse_u32_digits d :
  d <> [] -> forallb is_digit d = true ->
  parse_u32 d = match digits_val 0 d with
                | Some n => if n <? two32 then Some n else None
                | None => None
                end.
Proof.
  destruct d as [|c r]; [congruence|]. intros _ H. cbn [forallb] in H.
  apply andb_true_iff in H as [H _]. unfold parse_u32.
  rewrite (digit_not c 43 H) by lia. reflexivity.
Qed.

(* 1. the digit-string round trip *)
Lemma parse_u32_print n : n < two32 -> parse_u32 (print_nat n) = Some n.
Proof.
  intro H. rewrite parse_u32_digits by (apply print_nat_nonempty || apply print_nat_digits).
  rewrite digits_val_print. apply N.ltb_lt in H. rewrite H. reflexivity.
Qed.

Lemma parse_u32_print_big n : two32 <= n -> parse_u32 (print_nat n) = None.
Proof.
  intro H. rewrite parse_u32_digits by (apply print_nat_nonempty || apply print_nat_digits).
  rewrite digits_val_print. apply N.ltb_ge in H. rewrite H. reflexivity.
Qed.

(* ------------------------------------------------------------------ slices *)

Lemma drop_while_all p s : drop_while p s = [] -> forallb p s = true.
Proof.
  induction s as [|c r IH]; cbn [drop_while forallb]; [reflexivity|].
  destruct (p c); [exact IH|discriminate].
Qed.

Lemma drop_while_head p s c r : drop_while p s = c :: r -> p c = false.
Proof.
  induction s as [|x s IH]; cbn [drop_while]; [discriminate|].
  destruct (p x) eqn:E; [exact IH|]. intro H. inversion H; subst. exact E.
Qed.

Lemma forallb_rev {A} (p : A -> bool) l : forallb p (rev l) = forallb p l.
Proof.
  induction l as [|x l IH]; [reflexivity|]. cbn [rev forallb].
  rewrite forallb_app, IH. cbn [forallb]. rewrite andb_true_r. apply andb_comm.
Qed.

Lemma trim_nil s : trim s = [] -> forallb uni_ws s = true.
Proof.
  unfold trim, trim_end, trim_start. intro H.
  assert (K : drop_while uni_ws (rev (drop_while uni_ws s)) = []).
  { destruct (drop_while uni_ws (rev (drop_while uni_ws s))); [reflexivity|].
    cbn [rev] in H. apply app_eq_nil in H as [_ H]. discriminate. }
  apply drop_while_all in K. rewrite forallb_rev in K.
  destruct (drop_while uni_ws s) as [|c r] eqn:E; [apply drop_while_all, E|].
  apply drop_while_head in E. cbn [forallb] in K. rewrite E in K. discriminate.
Qed.

Lemma trim_nonempty s c : In c s -> uni_ws c = false -> trim s <> [].
Proof.
  intros I W H. apply trim_nil in H. rewrite forallb_forall in H. rewrite (H c I) in W. discriminate.
Qed.

Lemma digit_not_ws c : is_digit c = true -> uni_ws c = false.
Proof.
  intro H. apply is_digit_range in H. unfold uni_ws.
  repeat match goal with |- context [?a =? ?b] => replace (a =? b) with false by (symmetry; apply N.eqb_neq; lia) end.
  replace (c <=? 13) with false by (symmetry; apply N.leb_gt; lia).
  replace (8192 <=? c) with false by (symmetry; apply N.leb_gt; lia).
  rewrite !andb_false_r. reflexivity.
Qed.

Lemma digit_not_hm c : is_digit c = true -> is_hm c = false.
Proof.
  intro H. unfold is_hm. rewrite (digit_not c 104 H), (digit_not c 109 H) by lia. reflexivity.
Qed.

Lemma last_is_snoc d x y : last_is (d ++ [x]) y = (x =? y).
Proof. unfold last_is. rewrite rev_app_distr. reflexivity. Qed.

Lemma last_is_digits d y : forallb is_digit d = true -> (y < 48 \/ 57 < y) -> last_is d y = false.
Proof.
  intros H K. unfold last_is. destruct (rev d) as [|x r] eqn:E; [reflexivity|].
  rewrite <- forallb_rev, E in H. cbn [forallb] in H. apply andb_true_iff in H as [H _].
  apply digit_not; assumption.
Qed.

Lemma split_incl_sep p d : forall cur x r,
  forallb (fun c => negb (p c)) d = true -> p x = true ->
  split_incl p cur (d ++ x :: r) = (rev cur ++ d ++ [x]) :: split_incl p [] r.
Proof.
  induction d as [|c d IH]; intros cur x r H X; cbn [app split_incl].
  - rewrite X. cbn [rev]. reflexivity.
  - cbn [forallb] in H. apply andb_true_iff in H as [C H]. apply negb_true_iff in C. rewrite C.
    rewrite IH by assumption. cbn [rev]. rewrite <- app_assoc. reflexivity.
Qed.

Lemma split_incl_nosep p d : forall cur,
  forallb (fun c => negb (p c)) d = true ->
  split_incl p cur d = match rev cur ++ d with [] => [] | w => [w] end.
Proof.
  induction d as [|c d IH]; intros cur H; cbn [split_incl].
  - rewrite app_nil_r. destruct cur as [|a cur]; [reflexivity|].
    destruct (rev (a :: cur)) eqn:E; [|reflexivity].
    apply (f_equal (@List.length N)) in E. rewrite rev_length in E. discriminate.
  - cbn [forallb] in H. apply andb_true_iff in H as [C H]. apply negb_true_iff in C. rewrite C.
    rewrite IH by assumption. cbn [rev]. rewrite <- app_assoc. reflexivity.
Qed.

Lemma digits_no_hm d : forallb is_digit d = true -> forallb (fun c => negb (is_hm c)) d = true.
Proof.
  rewrite !forallb_forall. intros H c I. rewrite digit_not_hm; [reflexivity|]. apply H, I.
Qed.

Lemma parse_common_nonempty c s :
  s <> [] -> parse_common c s = common_loop c (split_incl is_hm [] s) 0 false.
Proof. destruct s; [congruence|reflexivity]. Qed.

Lemma snoc_nonempty {A} (l : list A) x : l ++ [x] <> [].
Proof. intro H. apply app_eq_nil in H as [_ H]. discriminate. Qed.

(* ------------------------------------------------------------------ 2. the compact form *)

Local Notation pn_digits := print_nat_digits.

Lemma parse_u32_print_case n :
  parse_u32 (print_nat n) = if n <? two32 then Some n else None.
Proof.
  destruct (N.ltb_spec n two32); [apply parse_u32_print|apply parse_u32_print_big]; assumption.
Qed.

Lemma parse_common_hm c x :
  fix_hm c = true ->
  parse_common c (Doc.print_hm x)
  = Done (if Doc.hm_minutes x <? two32 then Some (Doc.hm_minutes x) else None).
Proof.
  intro F. destruct x as [h|m|h m]; cbn [Doc.print_hm Doc.hm_minutes].
  - rewrite parse_common_nonempty by apply snoc_nonempty.
    rewrite (split_incl_sep is_hm (print_nat h) [] 104 []) by (reflexivity || apply digits_no_hm, pn_digits).
    cbn [rev app split_incl common_loop]. rewrite last_is_snoc, removelast_last, F.
    cbn [N.eqb Pos.eqb negb andb]. rewrite parse_u32_print_case.
    unfold two32 in *. destruct (N.ltb_spec h 4294967296).
    + rewrite N.add_0_l. replace (h * 60) with (60 * h) by lia.
      destruct (N.ltb_spec (60 * h) 4294967296); reflexivity.
    + destruct (N.ltb_spec (60 * h) 4294967296); try lia; reflexivity.
  - rewrite parse_common_nonempty by apply snoc_nonempty.
    rewrite (split_incl_sep is_hm (print_nat m) [] 109 []) by (reflexivity || apply digits_no_hm, pn_digits).
    cbn [rev app split_incl common_loop]. rewrite !last_is_snoc, removelast_last, F.
    cbn [N.eqb Pos.eqb negb andb]. rewrite parse_u32_print_case.
    unfold two32 in *.
    destruct (N.ltb_spec m 4294967296) as [L|L]; [rewrite N.add_0_l; apply N.ltb_lt in L; rewrite L|]; reflexivity.
  - rewrite parse_common_nonempty.
    2:{ destruct (print_nat h) eqn:E; [apply print_nat_nonempty in E; contradiction|discriminate]. }
    change ([104] ++ print_nat m ++ [109]) with (104 :: print_nat m ++ [109]).
    rewrite (split_incl_sep is_hm (print_nat h) [] 104) by (reflexivity || apply digits_no_hm, pn_digits).
    rewrite (split_incl_sep is_hm (print_nat m) [] 109 []) by (reflexivity || apply digits_no_hm, pn_digits).
    cbn [rev app split_incl common_loop]. rewrite !last_is_snoc, !removelast_last, F.
    cbn [N.eqb Pos.eqb negb andb]. rewrite !parse_u32_print_case.
    unfold two32 in *. destruct (N.ltb_spec h 4294967296).
    + rewrite N.add_0_l. replace (h * 60) with (60 * h) by lia.
      destruct (N.ltb_spec (60 * h) 4294967296); cbn [andb].
      * destruct (N.ltb_spec m 4294967296).
        -- destruct (N.ltb_spec (60 * h + m) 4294967296); reflexivity.
        -- destruct (N.ltb_spec (60 * h + m) 4294967296); try lia; reflexivity.
      * destruct (N.ltb_spec (60 * h + m) 4294967296); try lia; reflexivity.
    + destruct (N.ltb_spec (60 * h + m) 4294967296); try lia; reflexivity.
Qed.

Lemma print_hm_trim x : trim (Doc.print_hm x) <> [].
Proof.
  assert (K : forall n r, trim (print_nat n ++ r) <> []).
  { intros n r. destruct (print_nat n) as [|d ds] eqn:E; [apply print_nat_nonempty in E; contradiction|].
    pose proof (print_nat_digits n) as D. rewrite E in D. cbn [forallb] in D.
    apply andb_true_iff in D as [D _]. apply (trim_nonempty _ d); [left; reflexivity|apply digit_not_ws, D]. }
  destruct x; cbn [Doc.print_hm]; apply K.
Qed.

Lemma parse_time_hm pf c cv x :
  fix_hm c = true ->
  Doc.hm_minutes x < two32 ->
  parse_time pf c cv (Doc.print_hm x) = Done (Some (Doc.hm_minutes x)).
Proof.
  intros F R. unfold parse_time.
  assert (T : (if fix_blank c then trim (Doc.print_hm x) else Doc.print_hm x) <> []).
  { destruct (fix_blank c); [apply print_hm_trim|].
    intro H. pose proof (print_hm_trim x) as K. rewrite H in K. apply K. reflexivity. }
  destruct (if fix_blank c then trim (Doc.print_hm x) else Doc.print_hm x); [congruence|].
  rewrite parse_common_hm by assumption. apply N.ltb_lt in R. rewrite R. reflexivity.
Qed.

(* ------------------------------------------------------------------ rounding and the cast *)

Lemma round_comp q q' : (q == q')%Q -> Doc.round q = Doc.round q'.
Proof. intro H. unfold Doc.round. rewrite H. reflexivity. Qed.

Lemma round_inject z : Doc.round (inject_Z z) = z.
Proof.
  unfold Doc.round, Qfloor, Qplus, inject_Z. cbn [Qnum Qden].
  symmetry. apply (Z.div_unique _ 2 z 1); lia.
Qed.

Lemma qround_nonneg q : (0 <= q)%Q -> qround q = Doc.round q.
Proof. intro H. unfold qround. apply Qle_bool_iff in H. rewrite H. reflexivity. Qed.

Lemma cast_checked_nonneg q :
  (0 <= q)%Q ->
  cast_checked (FFin q)
  = if (Doc.round q <=? Z.of_N u32_max)%Z then Some (Z.to_N (Doc.round q)) else None.
Proof.
  intro H. unfold cast_checked. rewrite (qround_nonneg q H).
  apply Qle_bool_iff in H. rewrite H. reflexivity.
Qed.

Lemma cast_checked_nat q n :
  (q == inject_Z (Z.of_N n))%Q -> n < two32 -> cast_checked (FFin q) = Some n.
Proof.
  intros E R. rewrite cast_checked_nonneg.
  - rewrite (round_comp _ _ E), round_inject.
    unfold two32, u32_max in *. destruct (Z.leb_spec (Z.of_N n) (Z.of_N 4294967295)); [|lia].
    rewrite N2Z.id. reflexivity.
  - rewrite E. change 0%Q with (inject_Z 0). rewrite <- Zle_Qle. lia.
Qed.

(* what a theorem needs of the float reader on one numeral *)
Definition pf_reads (pf : str -> option fval) (s : str) (q : Q) : Prop :=
  exists q', pf s = Some (FFin q') /\ (q' == q)%Q.

(* ------------------------------------------------------------------ 3. a plain number of minutes *)

Lemma take_while_all p s : forallb p s = true -> take_while p s = s.
Proof.
  induction s as [|c r IH]; cbn [take_while forallb]; [reflexivity|].
  destruct (p c); [|discriminate]. intro H. rewrite IH by exact H. reflexivity.
Qed.

Lemma drop_while_all_nil p s : forallb p s = true -> drop_while p s = [].
Proof.
  induction s as [|c r IH]; cbn [drop_while forallb]; [reflexivity|].
  destruct (p c); [exact IH|discriminate].
Qed.

Lemma split_ws_nows d : forall cur,
  forallb (fun c => negb (uni_ws c)) d = true ->
  split_ws cur d = match rev cur ++ d with [] => [] | w => [w] end.
Proof.
  induction d as [|c d IH]; intros cur H; cbn [split_ws].
  - rewrite app_nil_r. destruct cur as [|a cur]; [reflexivity|].
    destruct (rev (a :: cur)) eqn:E; [|reflexivity].
    apply (f_equal (@List.length N)) in E. rewrite rev_length in E. discriminate.
  - cbn [forallb] in H. apply andb_true_iff in H as [C H]. apply negb_true_iff in C. rewrite C.
    rewrite IH by assumption. cbn [rev]. rewrite <- app_assoc. reflexivity.
Qed.

Lemma digits_no_ws d : forallb is_digit d = true -> forallb (fun c => negb (uni_ws c)) d = true.
Proof.
  rewrite !forallb_forall. intros H c I. rewrite digit_not_ws; [reflexivity|]. apply H, I.
Qed.

Lemma digits_num_char d : forallb is_digit d = true -> forallb num_char d = true.
Proof.
  rewrite !forallb_forall. intros H c I. unfold num_char. rewrite (H c I). reflexivity.
Qed.

Lemma parse_common_digits c d :
  d <> [] -> forallb is_digit d = true -> parse_common c d = Done None.
Proof.
  intros NE D. rewrite parse_common_nonempty by assumption.
  rewrite split_incl_nosep by (apply digits_no_hm, D). cbn [rev app].
  destruct d as [|x r] eqn:E; [congruence|]. rewrite <- E in *. cbn [common_loop].
  rewrite !last_is_digits by (assumption || lia). reflexivity.
Qed.

Lemma units_digits pf c cv d :
  d <> [] -> forallb is_digit d = true -> parse_with_units pf c cv d = None.
Proof.
  intros NE D. unfold parse_with_units, units_total.
  rewrite split_ws_nows by (apply digits_no_ws, D). cbn [rev app].
  destruct d as [|x r] eqn:E; [congruence|]. rewrite <- E in *.
  cbn [List.length units_loop].
  rewrite drop_while_all_nil by (apply digits_num_char, D). reflexivity.
Qed.

Lemma digits_trim d : d <> [] -> forallb is_digit d = true -> trim d <> [].
Proof.
  intros NE D. destruct d as [|x r]; [congruence|]. cbn [forallb] in D.
  apply andb_true_iff in D as [D _]. apply (trim_nonempty _ x); [left; reflexivity|apply digit_not_ws, D].
Qed.

Lemma parse_time_minutes pf c cv n :
  fix_cast c = true -> n < two32 ->
  pf_reads pf (print_nat n) (inject_Z (Z.of_N n)) ->
  parse_time pf c cv (print_nat n) = Done (Some n).
Proof.
  intros F R (q & P & E). unfold parse_time.
  pose proof (print_nat_nonempty n) as NE. pose proof (print_nat_digits n) as D.
  assert (T : (if fix_blank c then trim (print_nat n) else print_nat n) <> []).
  { destruct (fix_blank c); [apply digits_trim|]; assumption. }
  destruct (if fix_blank c then trim (print_nat n) else print_nat n); [congruence|].
  rewrite parse_common_digits by assumption. cbn [obind].
  rewrite units_digits by assumption. rewrite P. unfold finish_cast. rewrite F.
  rewrite (cast_checked_nat q n E R). reflexivity.
Qed.

(* the model's own float reader reads canonical numerals exactly *)
Lemma span_digits_all d : forallb is_digit d = true -> span_digits d = (d, []).
Proof.
  induction d as [|c r IH]; cbn [span_digits forallb]; [reflexivity|].
  destruct (is_digit c); [|discriminate]. intro H. rewrite IH by exact H. reflexivity.
Qed.

Lemma digits_val_fold d : forall a, forallb is_digit d = true ->
  digits_val a d = Some (fold_left (fun a c => a * 10 + (c - 48)) d a).
Proof.
  induction d as [|c r IH]; intros a; cbn [digits_val forallb fold_left]; [reflexivity|].
  destruct (is_digit c); [|discriminate]. apply IH.
Qed.

Lemma dec_val_print n : dec_val (print_nat n) = n.
Proof.
  pose proof (digits_val_fold (print_nat n) 0 (print_nat_digits n)) as H.
  rewrite digits_val_print in H. unfold dec_val. congruence.
Qed.

Definition two64 : N := 18446744073709551616.

Lemma f64_big : (inject_Z (Z.of_N two64) <= f64_overflow)%Q.
Proof. vm_compute. discriminate. Qed.

Lemma parse_number_nat n :
  n < two64 -> exists q, parse_number (print_nat n) = Some (FFin q) /\ (q == inject_Z (Z.of_N n))%Q.
Proof.
  intro R. pose proof (dec_val_print n) as DV. pose proof (print_nat_digits n) as D.
  destruct (print_nat n) as [|c r] eqn:E; [apply print_nat_nonempty in E; contradiction|].
  unfold parse_number. rewrite (span_digits_all _ D). cbv beta iota. cbn [app].
  rewrite app_nil_r, DV.
  destruct (n =? 0) eqn:Z.
  - apply N.eqb_eq in Z. exists 0%Q. split; [reflexivity|]. rewrite Z. reflexivity.
  - change (0 - Z.of_nat (List.length (@nil N)))%Z with 0%Z. change (400 <? 0)%Z with false. cbv iota.
    destruct (Z.ltb_spec (0 + Z.of_nat (List.length (c :: r))) (-400)); [lia|]. cbv zeta.
    change (pow10 0) with 1%Q.
    destruct (Qle_bool f64_overflow (inject_Z (Z.of_N n) * 1)%Q) eqn:B.
    + exfalso. apply Qle_bool_iff in B. rewrite Qmult_1_r in B.
      apply (Qlt_not_le (inject_Z (Z.of_N n)) f64_overflow); [|exact B].
      apply Qlt_le_trans with (inject_Z (Z.of_N two64)); [|exact f64_big].
      rewrite <- Zlt_Qlt. lia.
    + eexists. split; [reflexivity|]. apply Qmult_1_r.
Qed.

Lemma parse_f64_nat n :
  n < two64 -> pf_reads parse_f64 (print_nat n) (inject_Z (Z.of_N n)).
Proof.
  intro R. destruct (parse_number_nat n R) as (q & P & E). exists q. split; [|exact E].
  pose proof (print_nat_digits n) as D.
  destruct (print_nat n) as [|c r] eqn:K; [apply print_nat_nonempty in K; contradiction|].
  cbn [forallb] in D. apply andb_true_iff in D as [D _].
  unfold parse_f64. rewrite (digit_not c 45 D), (digit_not c 43 D) by lia.
  rewrite P. reflexivity.
Qed.

(* ------------------------------------------------------------------ 5. only the compact form is
   accepted by the compact reader, and never with a wrong number *)

Lemma digits_val_digits d : forall a n, digits_val a d = Some n -> forallb is_digit d = true.
Proof.
  induction d as [|c r IH]; intros a n; cbn [digits_val forallb]; [reflexivity|].
  destruct (is_digit c); [apply IH|discriminate].
Qed.

Lemma repeat_snoc {A} (a : A) n : repeat a n ++ [a] = a :: repeat a n.
Proof. induction n as [|n IH]; [reflexivity|]. cbn [repeat app]. rewrite IH. reflexivity. Qed.

(* a non-empty digit string is leading zeros followed by the canonical numeral of its value *)
Lemma digits_decompose d :
  d <> [] -> forallb is_digit d = true ->
  exists z v, digits_val 0 d = Some v /\ d = repeat 48 z ++ print_nat v.
Proof.
  induction d as [|c d' IH] using rev_ind; [congruence|]. intros _ D.
  rewrite forallb_app in D. apply andb_true_iff in D as [D' C]. cbn [forallb] in C.
  rewrite andb_true_r in C. pose proof C as CR. apply is_digit_range in CR.
  rewrite digits_val_app.
  destruct d' as [|x d''] eqn:E.
  - exists O, (c - 48). cbn [digits_val app repeat]. rewrite C. split; [reflexivity|].
    rewrite print_nat_small by lia. f_equal. lia.
  - rewrite <- E in *. destruct IH as (z & v' & V & SP); [subst; discriminate|exact D'|].
    rewrite V. cbn [digits_val]. rewrite C.
    destruct (N.eq_dec v' 0) as [Z|NZ].
    + subst v'. exists (S z), (c - 48). split; [reflexivity|].
      rewrite SP, !print_nat_small by lia. change [48 + 0] with [48]. rewrite repeat_snoc.
      cbn [repeat app]. do 3 f_equal. lia.
    + exists z, (v' * 10 + (c - 48)). split; [reflexivity|].
      assert (Q : (v' * 10 + (c - 48)) / 10 = v') by (symmetry; apply (N.div_unique _ 10 v' (c - 48)); lia).
      assert (R : (v' * 10 + (c - 48)) mod 10 = c - 48) by (symmetry; apply (N.mod_unique _ 10 v' (c - 48)); lia).
      rewrite (print_nat_step (v' * 10 + (c - 48))) by lia. rewrite Q, R, SP, <- app_assoc.
      do 3 f_equal. lia.
Qed.

Lemma parse_u32_numeral a h : parse_u32 a = Some h -> Doc.numeral a h /\ h < two32.
Proof.
  unfold parse_u32.
  set (body := match a with c :: r => if c =? 43 then r else a | [] => a end).
  assert (AB : exists plus : bool, a = (if plus then [43] else []) ++ body).
  { subst body. destruct a as [|c r]; [exists false; reflexivity|].
    destruct (c =? 43) eqn:E; [apply N.eqb_eq in E; subst; exists true|exists false]; reflexivity. }
  clearbody body. destruct AB as (plus & ->).
  destruct body as [|x b] eqn:E; [discriminate|]. rewrite <- E.
  assert (NE : body <> []) by (subst; discriminate). clear E.
  destruct (digits_val 0 body) as [n|] eqn:V; [|discriminate].
  destruct (N.ltb_spec n two32) as [LT|]; [|discriminate]. intro HH. inversion HH; subst n.
  split; [|assumption].
  destruct (digits_decompose body NE (digits_val_digits _ _ _ V)) as (z & v & V' & SP).
  rewrite V in V'. inversion V'; subst v. exists plus, z. rewrite SP at 1. reflexivity.
Qed.

Lemma last_is_split p y : last_is p y = true -> p = removelast p ++ [y].
Proof.
  unfold last_is. destruct (rev p) as [|x l] eqn:E; [discriminate|].
  intro H. apply N.eqb_eq in H. subst x.
  assert (P : p = rev l ++ [y]) by (rewrite <- (rev_involutive p), E; reflexivity).
  rewrite P at 2. rewrite removelast_last. exact P.
Qed.

Lemma split_incl_concat p s : forall cur, concat (split_incl p cur s) = rev cur ++ s.
Proof.
  induction s as [|c s IH]; intro cur; cbn [split_incl].
  - rewrite app_nil_r. destruct cur; [reflexivity|]. cbn [concat]. apply app_nil_r.
  - destruct (p c); cbn [concat]; rewrite IH; cbn [rev]; rewrite <- app_assoc; reflexivity.
Qed.

Lemma common_loop_found c pieces t n :
  fix_hm c = true ->
  common_loop c pieces t true = Done (Some n) ->
  (pieces = [] /\ n = t)
  \/ exists b m, pieces = [b ++ [109]] /\ parse_u32 b = Some m /\ n = t + m /\ n < two32.
Proof.
  intros F H. destruct pieces as [|p rest]; cbn [common_loop] in H.
  - left. split; [reflexivity|congruence].
  - right. rewrite andb_false_r, F in H.
    destruct (last_is p 109) eqn:L; [|discriminate].
    destruct (parse_u32 (removelast p)) as [m|] eqn:P; [|discriminate].
    destruct (N.ltb_spec (t + m) two32); [|discriminate].
    destruct rest; [|discriminate]. inversion H; subst n.
    exists (removelast p), m. rewrite <- (last_is_split p 109 L). auto.
Qed.

Lemma common_loop_start c pieces n :
  fix_hm c = true ->
  common_loop c pieces 0 false = Done (Some n) ->
  (pieces = [] /\ n = 0)
  \/ (exists a h rest, pieces = (a ++ [104]) :: rest /\ parse_u32 a = Some h /\ h * 60 < two32
                       /\ common_loop c rest (h * 60) true = Done (Some n))
  \/ exists b m, pieces = [b ++ [109]] /\ parse_u32 b = Some m /\ n = m /\ n < two32.
Proof.
  intros F H. destruct pieces as [|p rest]; cbn [common_loop] in H.
  - left. split; [reflexivity|congruence].
  - right. rewrite andb_true_r, F in H. destruct (last_is p 104) eqn:L4.
    + left. destruct (parse_u32 (removelast p)) as [h|] eqn:P; [|discriminate].
      rewrite N.add_0_l in H.
      destruct (N.ltb_spec (h * 60) two32); [|discriminate]. cbn [andb] in H.
      exists (removelast p), h, rest. rewrite <- (last_is_split p 104 L4). auto.
    + right. destruct (last_is p 109) eqn:L; [|discriminate].
      destruct (parse_u32 (removelast p)) as [m|] eqn:P; [|discriminate].
      rewrite N.add_0_l in H.
      destruct (N.ltb_spec m two32); [|discriminate].
      destruct rest; [|discriminate]. inversion H; subst n.
      exists (removelast p), m. rewrite <- (last_is_split p 109 L). auto.
Qed.

Lemma parse_common_accepts c s n :
  fix_hm c = true ->
  parse_common c s = Done (Some n) ->
  exists x, Doc.hm_spelled x s /\ n = Doc.hm_minutes x /\ n < two32.
Proof.
  intros F H. destruct s as [|c0 s0] eqn:E; [discriminate|]. rewrite <- E in *.
  assert (NE : s <> []) by (subst; discriminate). clear E.
  rewrite parse_common_nonempty in H by exact NE.
  pose proof (split_incl_concat is_hm s []) as T. cbn [rev app] in T.
  destruct (common_loop_start c _ n F H) as [(P & _)|[(a & h & rest & P & PA & R & K)|(b & m & P & PB & -> & R)]].
  - rewrite P in T. cbn [concat] in T. congruence.
  - rewrite P in T. cbn [concat] in T.
    destruct (parse_u32_numeral a h PA) as (NA & _).
    destruct (common_loop_found c rest _ n F K) as [(-> & ->)|(b & m & -> & PB & -> & R')].
    + exists (Doc.H h). cbn [Doc.hm_spelled Doc.hm_minutes]. cbn [concat] in T. rewrite app_nil_r in T.
      split; [exists a; split; [exact NA|congruence]|]. split; [lia|exact R].
    + destruct (parse_u32_numeral b m PB) as (NB & _).
      exists (Doc.HandM h m). cbn [Doc.hm_spelled Doc.hm_minutes]. cbn [concat] in T. rewrite app_nil_r in T.
      split; [exists a, b; split; [exact NA|split; [exact NB|]]|].
      * rewrite <- T, <- app_assoc. reflexivity.
      * split; [lia|exact R'].
  - rewrite P in T. cbn [concat] in T. rewrite app_nil_r in T.
    destruct (parse_u32_numeral b m PB) as (NB & _).
    exists (Doc.M m). cbn [Doc.hm_spelled Doc.hm_minutes].
    split; [exists b; split; [exact NB|congruence]|]. split; [reflexivity|exact R].
Qed.

(* the characters of an accepted compact form *)
Definition hm_char (x : N) : bool := is_digit x || (x =? 43) || is_hm x.

(* ------------------------------------------------------------------ 4. number-unit pairs *)

(* the converter (or the hard-coded table when it is empty) reads one [k] as [r] minutes *)
Definition unit_means (cv : conv) (k : str) (r : Q) : Prop :=
  forall q, exists q', to_minutes cv (FFin q) k = Some (FFin q') /\ (q' == q * r)%Q.

(* a unit that is also a compact-form suffix means the same there: `2h`, `90m`; and no key
   looks like `h30m` *)
Definition compact_compat (per : str -> Q) (k : str) : Prop :=
  hm_shaped k = false /\ (k = k_h -> (per k == 60 # 1)%Q) /\ (k = k_m -> (per k == 1)%Q).

Definition pair_ok pf cv (per : str -> Q) (p : Doc.num * str) : Prop :=
  Doc.num_ok (fst p) = true /\ Doc.key_ok (snd p) = true
  /\ pf_reads pf (Doc.print_num (fst p)) (Doc.num_value (fst p))
  /\ unit_means cv (snd p) (per (snd p)) /\ (0 <= per (snd p))%Q
  /\ compact_compat per (snd p).

Definition nows (w : str) : Prop := forallb (fun c => negb (uni_ws c)) w = true.

Lemma split_ws_word w : forall cur r, nows w -> split_ws cur (w ++ r) = split_ws (rev w ++ cur) r.
Proof.
  unfold nows. induction w as [|c w IH]; intros cur r H; [reflexivity|].
  cbn [forallb] in H. apply andb_true_iff in H as [C H]. apply negb_true_iff in C.
  cbn [app split_ws]. rewrite C, IH by exact H. cbn [rev]. rewrite <- app_assoc. reflexivity.
Qed.

Lemma split_ws_blank0 b : forall r, Doc.blank b = true -> split_ws [] (b ++ r) = split_ws [] r.
Proof.
  unfold Doc.blank. induction b as [|c b IH]; intros r H; [reflexivity|].
  cbn [forallb] in H. apply andb_true_iff in H as [C H].
  cbn [app split_ws]. rewrite C. apply IH, H.
Qed.

Lemma split_ws_blank b cur r :
  Doc.blank b = true -> b <> [] -> cur <> [] ->
  split_ws cur (b ++ r) = rev cur :: split_ws [] r.
Proof.
  intros H NB NC. destruct b as [|c b]; [congruence|]. unfold Doc.blank in H. cbn [forallb] in H.
  apply andb_true_iff in H as [C H]. cbn [app split_ws]. rewrite C.
  destruct cur; [congruence|]. f_equal. apply split_ws_blank0, H.
Qed.

Lemma split_ws_token w b r :
  nows w -> w <> [] -> Doc.blank b = true -> b <> [] ->
  split_ws [] (w ++ b ++ r) = w :: split_ws [] r.
Proof.
  intros W NW B NB. rewrite split_ws_word by exact W. rewrite app_nil_r.
  rewrite split_ws_blank; [rewrite rev_involutive; reflexivity|exact B|exact NB|].
  intro E. apply (f_equal (@rev N)) in E. rewrite rev_involutive in E. cbn [rev] in E. congruence.
Qed.

Lemma split_ws_last w : nows w -> w <> [] -> split_ws [] w = [w].
Proof.
  intros W NW. rewrite split_ws_nows by exact W. cbn [rev app]. destruct w; [congruence|reflexivity].
Qed.

Lemma nows_app a b : nows a -> nows b -> nows (a ++ b).
Proof. unfold nows. intros A B. rewrite forallb_app, A, B. reflexivity. Qed.

(* the numeral of a decimal number *)
Lemma frac_digits ds :
  forallb (fun d => d <? 10) ds = true -> forallb is_digit (map (fun d => 48 + d) ds) = true.
Proof.
  induction ds as [|d r IH]; cbn [forallb map]; [reflexivity|]. intro H.
  apply andb_true_iff in H as [D H]. rewrite IH by exact H. apply N.ltb_lt in D.
  rewrite andb_true_r. apply is_digit_range. lia.
Qed.

Lemma print_num_shape x :
  Doc.num_ok x = true ->
  exists d ds, Doc.print_num x = d :: ds /\ is_digit d = true /\ forallb num_char (d :: ds) = true.
Proof.
  intro OK. unfold Doc.print_num, Doc.num_ok in *. destruct x as [i fr]. cbn [fst snd] in *.
  pose proof (print_nat_digits i) as D.
  destruct (print_nat i) as [|d ds] eqn:E; [apply print_nat_nonempty in E; contradiction|].
  pose proof D as D0. cbn [forallb] in D0. apply andb_true_iff in D0 as [D0 _].
  destruct fr as [|f fr'].
  - exists d, ds. rewrite app_nil_r. split; [reflexivity|]. split; [exact D0|apply digits_num_char, D].
  - exists d, (ds ++ 46 :: map (fun d => 48 + d) (f :: fr')).
    split; [reflexivity|]. split; [exact D0|]. rewrite app_comm_cons, forallb_app.
    rewrite (digits_num_char _ D). cbn [forallb andb]. change (num_char 46) with true. cbn [andb].
    apply (digits_num_char (map (fun d => 48 + d) (f :: fr'))), frac_digits, OK.
Qed.

Lemma num_char_not_ws c : num_char c = true -> uni_ws c = false.
Proof.
  unfold num_char. intro H. apply orb_true_iff in H as [H|H]; [apply digit_not_ws, H|].
  apply N.eqb_eq in H. subst c. reflexivity.
Qed.

Lemma num_chars_nows w : forallb num_char w = true -> nows w.
Proof.
  unfold nows. rewrite !forallb_forall. intros H c I. rewrite num_char_not_ws; [reflexivity|]. apply H, I.
Qed.

Lemma key_shape k :
  Doc.key_ok k = true -> exists x r, k = x :: r /\ num_char x = false /\ nows k.
Proof.
  unfold Doc.key_ok. destruct k as [|x r]; [discriminate|]. intro H.
  apply andb_true_iff in H as [A B]. exists x, r. split; [reflexivity|].
  split; [apply negb_true_iff in A; exact A|].
  apply negb_true_iff in B. unfold nows. apply forallb_forall. intros c I.
  destruct (uni_ws c) eqn:W; [|reflexivity].
  assert (existsb uni_ws (x :: r) = true) by (apply existsb_exists; exists c; auto). congruence.
Qed.

Lemma take_while_stop p a x r :
  forallb p a = true -> p x = false -> take_while p (a ++ x :: r) = a.
Proof.
  induction a as [|c a IH]; cbn [forallb app take_while]; intros H X.
  - rewrite X. reflexivity.
  - apply andb_true_iff in H as [C H]. rewrite C, IH by assumption. reflexivity.
Qed.

Lemma drop_while_stop p a x r :
  forallb p a = true -> p x = false -> drop_while p (a ++ x :: r) = x :: r.
Proof.
  induction a as [|c a IH]; cbn [forallb app drop_while]; intros H X.
  - rewrite X. reflexivity.
  - apply andb_true_iff in H as [C H]. rewrite C. apply IH; assumption.
Qed.

(* the words of a printed pair list *)
Definition gap_of (t : Doc.tape) : str := match t with gs :: _ => fst gs | [] => [32] end.
Definition sep_of (t : Doc.tape) : str := match t with gs :: _ => snd gs | [] => [32] end.

Definition pair_words (p : Doc.num * str) (gap : str) : list str :=
  match gap with
  | [] => [Doc.print_num (fst p) ++ snd p]
  | _ => [Doc.print_num (fst p); snd p]
  end.

Fixpoint words (ps : list (Doc.num * str)) (t : Doc.tape) : list str :=
  match ps with
  | [] => []
  | p :: r => pair_words p (gap_of t) ++ words r (tl t)
  end.

Lemma words_cons p r t : words (p :: r) t = pair_words p (gap_of t) ++ words r (tl t).
Proof. reflexivity. Qed.

Lemma print_pairs_cons p r t :
  Doc.print_pairs (p :: r) t
  = Doc.print_num (fst p) ++ gap_of t ++ snd p
    ++ match r with [] => [] | _ => sep_of t ++ Doc.print_pairs r (tl t) end.
Proof. reflexivity. Qed.

Lemma tape_head_ok t :
  Doc.tape_ok t = true ->
  Doc.blank (gap_of t) = true /\ Doc.blank (sep_of t) = true /\ sep_of t <> []
  /\ Doc.tape_ok (tl t) = true.
Proof.
  destruct t as [|[g s] t]; cbn [Doc.tape_ok forallb fst snd tl gap_of sep_of].
  - intros _. repeat split; discriminate.
  - intro H. apply andb_true_iff in H as [H T]. apply andb_true_iff in H as [H S].
    apply andb_true_iff in H as [G B]. repeat split; try assumption.
    destruct s; [discriminate|discriminate].
Qed.

Lemma split_ws_pairs pf cv per ps : forall t,
  Forall (pair_ok pf cv per) ps -> Doc.tape_ok t = true ->
  split_ws [] (Doc.print_pairs ps t) = words ps t.
Proof.
  induction ps as [|p r IH]; intros t F T; [reflexivity|].
  inversion F as [|? ? (NOK & KOK & _) F']; subst.
  destruct (tape_head_ok t T) as (G & S & SN & T').
  rewrite words_cons, print_pairs_cons.
  generalize dependent (sep_of t). generalize dependent (gap_of t). intros gap G sep S SN.
  destruct (print_num_shape _ NOK) as (d & ds & PN & _ & NC).
  destruct (key_shape _ KOK) as (x & kr & KE & _ & KW).
  assert (NW : nows (Doc.print_num (fst p))) by (rewrite PN; apply num_chars_nows, NC).
  assert (NN : Doc.print_num (fst p) <> []) by (rewrite PN; discriminate).
  assert (KN : snd p <> []) by (rewrite KE; discriminate).
  assert (TAIL : forall w, nows w -> w <> [] ->
            split_ws [] (w ++ match r with [] => [] | _ => sep ++ Doc.print_pairs r (tl t) end)
            = w :: words r (tl t)).
  { intros w W WN. destruct r as [|p' r'] eqn:R.
    - rewrite app_nil_r. apply split_ws_last; assumption.
    - rewrite <- R in *. rewrite split_ws_token by assumption. f_equal. apply IH; assumption. }
  unfold pair_words. destruct gap as [|g0 gr] eqn:GE.
  - cbn [app]. rewrite app_assoc. rewrite TAIL.
    + reflexivity.
    + apply nows_app; assumption.
    + intro E. apply app_eq_nil in E as [E _]. congruence.
  - rewrite <- GE in *.
    rewrite split_ws_token; [|assumption|assumption|assumption|rewrite GE; discriminate].
    rewrite TAIL by assumption. reflexivity.
Qed.

Lemma pairs_minutes_cons per p r :
  Doc.pairs_minutes per (p :: r)
  = (Doc.num_value (fst p) * per (snd p) + Doc.pairs_minutes per r)%Q.
Proof. reflexivity. Qed.

Lemma units_loop_words pf cv per ps : forall t fuel acc,
  Forall (pair_ok pf cv per) ps -> Doc.tape_ok t = true ->
  (List.length (words ps t) < fuel)%nat ->
  exists q, units_loop pf cv fuel (words ps t) (FFin acc) = Some (FFin q)
            /\ (q == acc + Doc.pairs_minutes per ps)%Q.
Proof.
  induction ps as [|p r IH]; intros t fuel acc F T L.
  - destruct fuel as [|f]; [cbn in L; lia|]. exists acc. split; [reflexivity|].
    cbn [Doc.pairs_minutes fold_right]. ring.
  - inversion F as [|? ? (NOK & KOK & (q1 & P & E) & UM & _) F']; subst.
    destruct (tape_head_ok t T) as (G & _ & _ & T').
    destruct (print_num_shape _ NOK) as (d & ds & PN & _ & NC).
    destruct (key_shape _ KOK) as (x & kr & KE & KX & _).
    destruct (UM q1) as (q' & TM & EQ).
    rewrite words_cons in *. destruct fuel as [|f]; [lia|].
    unfold pair_words in *. destruct (gap_of t) as [|g0 gr].
    + cbn [app List.length] in L. destruct (IH (tl t) f (acc + q')%Q F' T' ltac:(lia)) as (q & U & QE).
      exists q. split.
      * cbn [app units_loop]. rewrite KE.
        rewrite (take_while_stop num_char _ x kr), (drop_while_stop num_char _ x kr)
          by (assumption || (rewrite PN; exact NC)).
        rewrite P. rewrite <- KE, TM. cbn [fadd]. exact U.
      * rewrite QE, EQ, E, pairs_minutes_cons. ring.
    + cbn [app List.length] in L. destruct (IH (tl t) f (acc + q')%Q F' T' ltac:(lia)) as (q & U & QE).
      exists q. split.
      * cbn [app units_loop].
        rewrite drop_while_all_nil by (rewrite PN; exact NC).
        rewrite P, TM. cbn [fadd]. exact U.
      * rewrite QE, EQ, E, pairs_minutes_cons. ring.
Qed.

Lemma Qplus_nonneg a b : (0 <= a -> 0 <= b -> 0 <= a + b)%Q.
Proof. intros A B. pose proof (Qplus_le_compat 0 a 0 b A B) as H. rewrite Qplus_0_l in H. exact H. Qed.

Lemma inject_N_nonneg n : (0 <= inject_Z (Z.of_N n))%Q.
Proof. change 0%Q with (inject_Z 0). rewrite <- Zle_Qle. lia. Qed.

Lemma frac_value_nonneg ds : (0 <= Doc.frac_value ds)%Q.
Proof.
  induction ds as [|d r IH]; cbn [Doc.frac_value]; [apply Qle_refl|].
  apply Qmult_le_0_compat; [apply Qplus_nonneg; [apply inject_N_nonneg|exact IH]|].
  apply Qinv_le_0_compat. discriminate.
Qed.

Lemma num_value_nonneg x : (0 <= Doc.num_value x)%Q.
Proof. apply Qplus_nonneg; [apply inject_N_nonneg|apply frac_value_nonneg]. Qed.

Lemma pairs_minutes_nonneg pf cv per ps :
  Forall (pair_ok pf cv per) ps -> (0 <= Doc.pairs_minutes per ps)%Q.
Proof.
  induction 1 as [|p r (_ & _ & _ & _ & NN & _) _ IH]; [apply Qle_refl|].
  rewrite pairs_minutes_cons. apply Qplus_nonneg; [|exact IH].
  apply Qmult_le_0_compat; [apply num_value_nonneg|exact NN].
Qed.

(* the documented value of a total of minutes, when a u32 can hold it *)
Definition minutes_result (q : Q) : option N :=
  if (Doc.round q <=? Z.of_N u32_max)%Z then Some (Z.to_N (Doc.round q)) else None.

Lemma parse_with_units_pairs pf c cv per ps t :
  fix_cast c = true ->
  Forall (pair_ok pf cv per) ps -> Doc.tape_ok t = true ->
  parse_with_units pf c cv (Doc.print_pairs ps t) = minutes_result (Doc.pairs_minutes per ps).
Proof.
  intros FC F T. unfold parse_with_units, units_total.
  rewrite (split_ws_pairs pf cv per) by assumption.
  destruct (units_loop_words pf cv per ps t (S (List.length (words ps t))) 0%Q F T ltac:(lia))
    as (q & U & E).
  rewrite U. unfold finish_cast. rewrite FC. rewrite Qplus_0_l in E.
  pose proof (pairs_minutes_nonneg pf cv per ps F) as NN.
  rewrite cast_checked_nonneg by (rewrite E; exact NN).
  unfold minutes_result. rewrite (round_comp _ _ E). reflexivity.
Qed.

(* --- the compact reader on a printed pair list: declines, or agrees *)

Lemma forallb_repeat {A} (p : A -> bool) a n : p a = true -> forallb p (repeat a n) = true.
Proof. intro H. induction n as [|n IH]; [reflexivity|]. cbn [repeat forallb]. rewrite H, IH. reflexivity. Qed.

Lemma digit_hm_char c : is_digit c = true -> hm_char c = true.
Proof. intro H. unfold hm_char. rewrite H. reflexivity. Qed.

Lemma digits_hm_char d : forallb is_digit d = true -> forallb hm_char d = true.
Proof. rewrite !forallb_forall. intros H c I. apply digit_hm_char, H, I. Qed.

Lemma numeral_cases a n :
  Doc.numeral a n ->
  (exists a', a = 43 :: a') \/ (forallb is_digit a = true /\ digits_val 0 a = Some n).
Proof.
  intros (plus & z & ->). destruct plus; [left; eexists; reflexivity|right]. cbn [app].
  split.
  - rewrite forallb_app, print_nat_digits, forallb_repeat; reflexivity.
  - induction z as [|z IH]; [apply digits_val_print|]. cbn [repeat app digits_val].
    change (is_digit 48) with true. cbv iota. exact IH.
Qed.

Lemma numeral_first b m :
  Doc.numeral b m -> exists y b', b = y :: b' /\ is_digit y || (y =? 43) = true.
Proof.
  intros (plus & z & ->). destruct plus; [exists 43; eexists; split; reflexivity|].
  cbn [app]. destruct z as [|z]; [|exists 48; eexists; split; reflexivity].
  cbn [repeat app]. pose proof (print_nat_digits m) as D.
  destruct (print_nat m) as [|y r] eqn:E; [apply print_nat_nonempty in E; contradiction|].
  cbn [forallb] in D. apply andb_true_iff in D as [D _]. exists y, r. rewrite D. split; reflexivity.
Qed.

Lemma numeral_chars a n : Doc.numeral a n -> forallb hm_char a = true.
Proof.
  intros (plus & z & ->). rewrite !forallb_app.
  rewrite (digits_hm_char _ (print_nat_digits n)), forallb_repeat by reflexivity.
  destruct plus; reflexivity.
Qed.

Lemma hm_spelled_chars x s : Doc.hm_spelled x s -> forallb hm_char s = true.
Proof.
  destruct x as [h|m|h m]; cbn [Doc.hm_spelled].
  - intros (a & NA & ->). rewrite forallb_app, (numeral_chars _ _ NA). reflexivity.
  - intros (b & NB & ->). rewrite forallb_app, (numeral_chars _ _ NB). reflexivity.
  - intros (a & b & NA & NB & ->).
    rewrite !forallb_app, (numeral_chars _ _ NA), (numeral_chars _ _ NB). reflexivity.
Qed.

Lemma hm_char_not_ws c : hm_char c = true -> uni_ws c = false.
Proof.
  unfold hm_char, is_hm. intro H.
  repeat (apply orb_true_iff in H as [H|H]); try (apply N.eqb_eq in H; subst c; reflexivity).
  apply digit_not_ws, H.
Qed.

Lemma blank_hm b : Doc.blank b = true -> forallb hm_char b = true -> b = [].
Proof.
  destruct b as [|c b]; [reflexivity|]. unfold Doc.blank. cbn [forallb]. intros B H.
  apply andb_true_iff in B as [B _]. apply andb_true_iff in H as [H _].
  apply hm_char_not_ws in H. congruence.
Qed.

Lemma digit_prefix_unique d1 : forall d2 x1 x2 r1 r2,
  forallb is_digit d1 = true -> forallb is_digit d2 = true ->
  is_digit x1 = false -> is_digit x2 = false ->
  d1 ++ x1 :: r1 = d2 ++ x2 :: r2 -> d1 = d2 /\ x1 :: r1 = x2 :: r2.
Proof.
  induction d1 as [|c d1 IH]; intros d2 x1 x2 r1 r2 D1 D2 X1 X2 E.
  - destruct d2 as [|c2 d2]; [split; [reflexivity|exact E]|].
    cbn [app] in E. inversion E; subst. cbn [forallb] in D2. apply andb_true_iff in D2 as [D2 _]. congruence.
  - cbn [forallb] in D1. apply andb_true_iff in D1 as [C D1].
    destruct d2 as [|c2 d2]; cbn [app] in E; inversion E; subst; [congruence|].
    cbn [forallb] in D2. apply andb_true_iff in D2 as [_ D2].
    destruct (IH d2 x1 x2 r1 r2 D1 D2 X1 X2 H1) as (-> & K). split; [reflexivity|exact K].
Qed.

Lemma minutes_result_nat q n :
  (q == inject_Z (Z.of_N n))%Q -> n < two32 -> minutes_result q = Some n.
Proof.
  intros E R. unfold minutes_result. rewrite (round_comp _ _ E), round_inject.
  unfold two32, u32_max in *. destruct (Z.leb_spec (Z.of_N n) (Z.of_N 4294967295)); [|lia].
  rewrite N2Z.id. reflexivity.
Qed.

Lemma single_pair_minutes per i k :
  (Doc.pairs_minutes per [((i, []), k)] == inject_Z (Z.of_N i) * per k)%Q.
Proof.
  rewrite pairs_minutes_cons. unfold Doc.num_value. cbn [fst snd Doc.frac_value Doc.pairs_minutes fold_right].
  ring.
Qed.

Lemma parse_common_pairs pf c cv per ps t n :
  fix_hm c = true -> ps <> [] ->
  Forall (pair_ok pf cv per) ps -> Doc.tape_ok t = true ->
  parse_common c (Doc.print_pairs ps t) = Done (Some n) ->
  minutes_result (Doc.pairs_minutes per ps) = Some n.
Proof.
  intros FH NE F T H.
  destruct (parse_common_accepts c _ n FH H) as (x & SP & -> & R).
  pose proof (hm_spelled_chars _ _ SP) as CH.
  destruct ps as [|p r]; [congruence|]. clear NE H.
  inversion F as [|? ? (NOK & KOK & _ & _ & _ & (SH & PH & PM)) F']; subst.
  destruct (tape_head_ok t T) as (G & S & SN & _).
  rewrite print_pairs_cons in *. rewrite !forallb_app in CH.
  apply andb_true_iff in CH as [CN CH]. apply andb_true_iff in CH as [CG CH].
  apply andb_true_iff in CH as [CK CT].
  destruct r as [|p' r'].
  2:{ rewrite forallb_app in CT. apply andb_true_iff in CT as [CS _].
      apply (blank_hm _ S) in CS. contradiction. }
  apply (blank_hm _ G) in CG. rewrite CG in SP. clear CT S SN G CG F F'.
  destruct p as [[i fr] k]. cbn [fst snd] in *. unfold Doc.print_num in *. cbn [fst snd] in *.
  destruct fr as [|f fr'].
  2:{ rewrite forallb_app in CN. apply andb_true_iff in CN as [_ CN]. cbn [forallb] in CN.
      change (hm_char 46) with false in CN. discriminate. }
  rewrite !app_nil_r in SP. cbn [app] in SP. clear CN.
  destruct (key_shape _ KOK) as (kx & kr & -> & KX & _).
  assert (KD : is_digit kx = false).
  { unfold num_char in KX. apply orb_false_iff in KX as [KX _]. exact KX. }
  pose proof (print_nat_digits i) as DI.
  assert (PLUS : forall a' w, print_nat i ++ kx :: kr <> (43 :: a') ++ w).
  { intros a' w E. destruct (print_nat i) as [|d ds] eqn:PI; [apply print_nat_nonempty in PI; contradiction|].
    cbn [app] in E. inversion E; subst. cbn [forallb] in DI. apply andb_true_iff in DI as [DI _].
    discriminate. }
  assert (VAL : forall a v, forallb is_digit a = true -> digits_val 0 a = Some v -> print_nat i = a -> i = v).
  { intros a v _ V E. rewrite <- E, digits_val_print in V. congruence. }
  destruct x as [h|m|h m]; cbn [Doc.hm_spelled Doc.hm_minutes] in *.
  - destruct SP as (a & NA & E).
    destruct (numeral_cases a h NA) as [(a' & ->)|(DA & VA)]; [apply PLUS in E; contradiction|].
    destruct (digit_prefix_unique (print_nat i) a kx 104 kr [] DI DA KD eq_refl E) as (EA & EK).
    apply (VAL a h DA VA) in EA. subst i. inversion EK; subst.
    apply minutes_result_nat; [|exact R].
    rewrite single_pair_minutes, (PH eq_refl), N2Z.inj_mul, inject_Z_mult.
    change (inject_Z (Z.of_N 60)) with (60 # 1)%Q. ring.
  - destruct SP as (b & NB & E).
    destruct (numeral_cases b m NB) as [(a' & ->)|(DA & VA)]; [apply PLUS in E; contradiction|].
    destruct (digit_prefix_unique (print_nat i) b kx 109 kr [] DI DA KD eq_refl E) as (EA & EK).
    apply (VAL b m DA VA) in EA. subst i. inversion EK; subst.
    apply minutes_result_nat; [|exact R].
    rewrite single_pair_minutes, (PM eq_refl). ring.
  - destruct SP as (a & b & NA & NB & E).
    change ([104] ++ b ++ [109]) with (104 :: b ++ [109]) in E.
    destruct (numeral_cases a h NA) as [(a' & ->)|(DA & VA)]; [apply PLUS in E; contradiction|].
    destruct (digit_prefix_unique (print_nat i) a kx 104 kr (b ++ [109]) DI DA KD eq_refl E) as (EA & EK).
    inversion EK; subst.
    destruct (numeral_first b m NB) as (y & b' & -> & Y).
    exfalso. cbn [app hm_shaped] in SH. rewrite Y in SH. discriminate.
Qed.

Lemma print_pairs_trim pf cv per ps t :
  ps <> [] -> Forall (pair_ok pf cv per) ps -> trim (Doc.print_pairs ps t) <> [].
Proof.
  intros NE F. destruct ps as [|p r]; [congruence|].
  inversion F as [|? ? (NOK & _) _]; subst. rewrite print_pairs_cons.
  destruct (print_num_shape _ NOK) as (d & ds & -> & D & _).
  apply (trim_nonempty _ d); [left; reflexivity|apply digit_not_ws, D].
Qed.

(* 4. number-unit pairs read as the rounded total, for any float reader that reads the
   numerals and any converter that gives the units their meaning *)
Lemma parse_time_pairs pf c cv per ps t n :
  fix_hm c = true -> fix_cast c = true ->
  ps <> [] -> Forall (pair_ok pf cv per) ps -> Doc.tape_ok t = true ->
  minutes_result (Doc.pairs_minutes per ps) = Some n ->
  parse_time pf c cv (Doc.print_pairs ps t) = Done (Some n).
Proof.
  intros FH FC NE F T V. unfold parse_time.
  pose proof (print_pairs_trim pf cv per ps t NE F) as TR.
  assert (TR' : (if fix_blank c then trim (Doc.print_pairs ps t) else Doc.print_pairs ps t) <> []).
  { destruct (fix_blank c); [exact TR|]. intro E. rewrite E in TR. apply TR. reflexivity. }
  destruct (if fix_blank c then trim (Doc.print_pairs ps t) else Doc.print_pairs ps t); [congruence|].
  destruct (parse_common_total c (Doc.print_pairs ps t) FH) as [r0 PC]. rewrite PC. cbn [obind].
  destruct r0 as [m|].
  - rewrite (parse_common_pairs pf c cv per ps t m FH NE F T PC) in V. congruence.
  - rewrite (parse_with_units_pairs pf c cv per ps t FC F T), V. reflexivity.
Qed.

(* --- the hard-coded table of the empty converter *)

Lemma per_default_eq k :
  Doc.per_default k
  = if mem_str k hard_s then Some (1 # 60)%Q
    else if mem_str k hard_m then Some 1%Q
    else if mem_str k hard_h then Some (60 # 1)%Q
    else if mem_str k hard_d then Some (1440 # 1)%Q else None.
Proof. reflexivity. Qed.

Lemma mem_str_In k l : mem_str k l = true -> In k l.
Proof.
  induction l as [|x l IH]; cbn [mem_str]; [discriminate|]. intro H.
  apply orb_true_iff in H as [H|H]; [left; apply str_eqb_eq, H|right; apply IH, H].
Qed.

Definition hard_keys : list str := hard_s ++ hard_m ++ hard_h ++ hard_d.

Lemma per_default_keys k : Doc.per_default k <> None -> In k hard_keys.
Proof.
  rewrite per_default_eq. unfold hard_keys. intro H. rewrite !in_app_iff.
  destruct (mem_str k hard_s) eqn:A; [left; apply mem_str_In, A|].
  destruct (mem_str k hard_m) eqn:B; [right; left; apply mem_str_In, B|].
  destruct (mem_str k hard_h) eqn:C; [right; right; left; apply mem_str_In, C|].
  destruct (mem_str k hard_d) eqn:D; [right; right; right; apply mem_str_In, D|congruence].
Qed.

Lemma unit_means_hard k : Doc.per_default k <> None -> unit_means [] k (Doc.per_hard k).
Proof.
  intros H q. unfold Doc.per_hard. rewrite per_default_eq in *.
  unfold to_minutes, hard_coded_time_units.
  destruct (mem_str k hard_s); [eexists; split; [reflexivity|cbn [faffine]; unfold Qdiv; change (/ 60)%Q with (1 # 60)%Q; ring]|].
  destruct (mem_str k hard_m); [eexists; split; [reflexivity|ring]|].
  destruct (mem_str k hard_h); [eexists; split; [reflexivity|cbn [faffine]; unfold Qdiv; change (/ 1)%Q with 1%Q; ring]|].
  destruct (mem_str k hard_d); [eexists; split; [reflexivity|cbn [faffine]; unfold Qdiv; change (/ 1)%Q with 1%Q; ring]|].
  congruence.
Qed.

Lemma hard_key_facts k :
  In k hard_keys ->
  Doc.key_ok k = true /\ (0 <= Doc.per_hard k)%Q /\ compact_compat Doc.per_hard k.
Proof.
  unfold hard_keys, hard_s, hard_m, hard_h, hard_d. cbn [app In]. intro H.
  repeat (destruct H as [<-|H]; [vm_compute; repeat split; congruence|]). contradiction.
Qed.

Lemma pair_ok_hard pf p :
  Doc.num_ok (fst p) = true -> Doc.per_default (snd p) <> None ->
  pf_reads pf (Doc.print_num (fst p)) (Doc.num_value (fst p)) ->
  pair_ok pf [] Doc.per_hard p.
Proof.
  intros NOK K P. destruct (hard_key_facts _ (per_default_keys _ K)) as (KO & NN & CC).
  repeat split; try assumption; try apply CC. apply unit_means_hard, K.
Qed.

(* --- a converter's own time units *)

Lemma find_unit_from_nth cv : forall i0 k i u,
  find_unit_from i0 cv k = Some (i, u) -> i0 <= i /\ nth_error cv (N.to_nat (i - i0)) = Some u.
Proof.
  induction cv as [|u0 r IH]; intros i0 k i u; cbn [find_unit_from]; [discriminate|].
  destruct (mem_str k (u_keys u0)).
  - intro H. inversion H; subst. rewrite N.sub_diag. split; [lia|reflexivity].
  - intro H. apply IH in H as (L & H). split; [lia|].
    replace (N.to_nat (i - i0)) with (S (N.to_nat (i - (i0 + 1)))) by lia. exact H.
Qed.

Lemma find_unit_nth cv k i u : find_unit cv k = Some (i, u) -> nth_error cv (N.to_nat i) = Some u.
Proof. intro H. apply find_unit_from_nth in H as (_ & H). rewrite N.sub_0_r in H. exact H. Qed.

Definition minute_unit (cv : conv) : option (N * tunit) :=
  or_else (find_unit cv k_min) (or_else (find_unit cv k_minute)
          (or_else (find_unit cv k_minutes) (find_unit cv k_m))).

Lemma minute_unit_nth cv i u : minute_unit cv = Some (i, u) -> nth_error cv (N.to_nat i) = Some u.
Proof.
  unfold minute_unit, or_else.
  destruct (find_unit cv k_min) as [[]|] eqn:A; [intro H; inversion H; subst; apply (find_unit_nth _ _ _ _ A)|].
  destruct (find_unit cv k_minute) as [[]|] eqn:B; [intro H; inversion H; subst; apply (find_unit_nth _ _ _ _ B)|].
  destruct (find_unit cv k_minutes) as [[]|] eqn:C; [intro H; inversion H; subst; apply (find_unit_nth _ _ _ _ C)|].
  apply find_unit_nth.
Qed.

(* a key of a Time unit of ratio r, in a converter whose minute unit has ratio r0 and neither
   has an offset, means r / r0 minutes *)
Lemma unit_means_dynamic cv k mi mu ui uu :
  cv <> [] ->
  minute_unit cv = Some (mi, mu) -> u_time mu = true ->
  find_unit cv k = Some (ui, uu) -> u_time uu = true ->
  (u_diff uu == 0)%Q -> (u_diff mu == 0)%Q -> ~ (u_ratio mu == 0)%Q ->
  unit_means cv k (u_ratio uu / u_ratio mu).
Proof.
  intros NE MU TM FU TU DU DM RM q.
  pose proof (minute_unit_nth _ _ _ MU) as NM. pose proof (find_unit_nth _ _ _ _ FU) as NU.
  unfold to_minutes. destruct cv as [|u0 cv']; [congruence|].
  unfold dynamic_time_units. fold (minute_unit (u0 :: cv')). rewrite MU, TM, FU, TU. cbn [negb].
  destruct (ui =? mi) eqn:E.
  - apply N.eqb_eq in E. subst ui. assert (uu = mu) by congruence. subst uu.
    eexists. split; [reflexivity|]. field. exact RM.
  - eexists. split; [reflexivity|]. cbn [faffine]. rewrite DU, DM. field. exact RM.
Qed.

(* --- all documented duration forms together *)

Lemma minutes_result_inject n :
  minutes_result (inject_Z (Z.of_N n)) = if n <? two32 then Some n else None.
Proof.
  unfold minutes_result. rewrite round_inject. unfold two32, u32_max.
  destruct (Z.leb_spec (Z.of_N n) (Z.of_N 4294967295)); destruct (N.ltb_spec n 4294967296); try lia.
  - rewrite N2Z.id. reflexivity.
  - reflexivity.
Qed.

Definition form_ok pf cv (per : str -> Q) (f : Doc.form) : Prop :=
  match f with
  | Doc.Minutes n => pf_reads pf (print_nat n) (inject_Z (Z.of_N n))
  | Doc.HM _ => True
  | Doc.Pairs ps => ps <> [] /\ Forall (pair_ok pf cv per) ps
  end.

Lemma parse_time_form pf c cv per f t n :
  fix_hm c = true -> fix_cast c = true ->
  form_ok pf cv per f -> Doc.tape_ok t = true ->
  minutes_result (Doc.minutes per f) = Some n ->
  parse_time pf c cv (Doc.print_form f t) = Done (Some n).
Proof.
  intros FH FC OK T V. destruct f as [m|x|ps]; cbn [Doc.minutes Doc.print_form form_ok] in *.
  - rewrite minutes_result_inject in V. destruct (N.ltb_spec m two32); [|discriminate].
    inversion V; subst. apply parse_time_minutes; assumption.
  - rewrite minutes_result_inject in V. destruct (N.ltb_spec (Doc.hm_minutes x) two32); [|discriminate].
    inversion V; subst. apply parse_time_hm; assumption.
  - destruct OK as (NE & F). apply (parse_time_pairs pf c cv per); assumption.
Qed.

(* ------------------------------------------------------------------ 6. locale *)

Lemma letter_facts a : Doc.ascii_letter a = true -> utf8_len a = 1 /\ (a =? 95) = false /\ is_ascii_alpha a = true.
Proof.
  intro H. split; [|split; [|exact H]].
  - unfold utf8_len. replace (a <? 128) with true; [reflexivity|]. symmetry. apply N.ltb_lt.
    unfold Doc.ascii_letter in H. apply orb_true_iff in H as [H|H]; apply andb_true_iff in H as [_ H];
      apply N.leb_le in H; lia.
  - apply N.eqb_neq. unfold Doc.ascii_letter in H.
    apply orb_true_iff in H as [H|H]; apply andb_true_iff in H as [H1 H2];
      apply N.leb_le in H1; apply N.leb_le in H2; lia.
Qed.

Lemma locale_part_ok_iff s :
  locale_part_ok s = true
  <-> exists a b, s = [a; b] /\ Doc.ascii_letter a = true /\ Doc.ascii_letter b = true.
Proof.
  unfold locale_part_ok. split.
  - intro H. apply andb_true_iff in H as [L A]. apply N.eqb_eq in L.
    destruct s as [|a [|b [|c r]]]; cbn [blen forallb_n] in *.
    + discriminate.
    + apply andb_true_iff in A as [A _]. destruct (letter_facts a A) as (U & _). rewrite U in L. discriminate.
    + apply andb_true_iff in A as [A B]. apply andb_true_iff in B as [B _]. exists a, b. auto.
    + apply andb_true_iff in A as [A B]. apply andb_true_iff in B as [B C]. apply andb_true_iff in C as [C _].
      destruct (letter_facts a A) as (U1 & _). destruct (letter_facts b B) as (U2 & _).
      destruct (letter_facts c C) as (U3 & _). rewrite U1, U2, U3 in L.
      generalize dependent (blen r). intros. lia.
  - intros (a & b & -> & A & B). destruct (letter_facts a A) as (U1 & _ & A'). destruct (letter_facts b B) as (U2 & _ & B').
    cbn [blen forallb_n]. rewrite U1, U2, A', B'. reflexivity.
Qed.

Lemma split_once_spec d s : forall pre a b,
  split_once d pre s = Some (a, b) -> rev pre ++ s = a ++ d :: b.
Proof.
  induction s as [|c r IH]; intros pre a b; cbn [split_once]; [discriminate|].
  destruct (c =? d) eqn:E.
  - apply N.eqb_eq in E. subst c. intro H. inversion H; subst. reflexivity.
  - intro H. apply IH in H. cbn [rev] in H. rewrite <- app_assoc in H. exact H.
Qed.

Lemma locale_iff s l d : value_as_locale (YStr s) = Some (l, d) <-> Doc.locale s l d.
Proof.
  unfold value_as_locale, as_str. cbn [untag]. split.
  - destruct (split_once 95 [] s) as [[lang dial]|] eqn:E.
    + destruct (locale_part_ok lang) eqn:L1; [|discriminate].
      destruct (locale_part_ok dial) eqn:L2; [|discriminate]. cbn [andb]. intro H. inversion H; subst.
      apply split_once_spec in E. cbn [rev app] in E.
      apply locale_part_ok_iff in L1 as (a & b & -> & A & B).
      apply locale_part_ok_iff in L2 as (c & e & -> & C & D). subst s. constructor; assumption.
    + destruct (locale_part_ok s) eqn:L; [|discriminate]. intro H. inversion H; subst.
      apply locale_part_ok_iff in L as (a & b & -> & A & B). constructor; assumption.
  - intro H. inversion H as [a b A B|a b c e A B C D]; subst.
    + destruct (letter_facts a A) as (_ & NA & _). destruct (letter_facts b B) as (_ & NB & _).
      cbn [split_once]. rewrite NA, NB.
      replace (locale_part_ok [a; b]) with true; [reflexivity|].
      symmetry. apply locale_part_ok_iff. exists a, b. auto.
    + destruct (letter_facts a A) as (_ & NA & _). destruct (letter_facts b B) as (_ & NB & _).
      cbn [split_once]. rewrite NA, NB. change (95 =? 95) with true. cbv iota. cbn [rev app].
      replace (locale_part_ok [a; b]) with true by (symmetry; apply locale_part_ok_iff; exists a, b; auto).
      replace (locale_part_ok [c; e]) with true by (symmetry; apply locale_part_ok_iff; exists c, e; auto).
      reflexivity.
Qed.

Lemma locale_non_string v : as_str v = None -> value_as_locale v = None.
Proof. unfold value_as_locale. intros ->. reflexivity. Qed.

(* ------------------------------------------------------------------ 6. tags *)

Lemma mem_str_iff k l : mem_str k l = true <-> In k l.
Proof.
  split; [apply mem_str_In|]. induction l as [|x l IH]; cbn [mem_str In]; [contradiction|].
  intros [->|H]; [rewrite str_eqb_refl; reflexivity|]. rewrite IH by exact H. apply orb_true_r.
Qed.

Lemma dedup_in l : forall seen x,
  In x (dedup_nonempty seen l) <-> x <> [] /\ In x l /\ ~ In x seen.
Proof.
  induction l as [|t r IH]; intros seen x; cbn [dedup_nonempty In]; [tauto|].
  destruct t as [|c t'].
  - rewrite IH. split; [tauto|]. intros (A & [B|B] & C); [congruence|tauto].
  - destruct (mem_str (c :: t') seen) eqn:M.
    + apply mem_str_iff in M. rewrite IH. split; [tauto|]. intros (A & [B|B] & C); [subst; tauto|tauto].
    + assert (NM : ~ In (c :: t') seen) by (intro K; apply mem_str_iff in K; congruence).
      cbn [In]. rewrite IH. cbn [In]. split.
      * intros [<-|(A & B & C)]; [split; [discriminate|tauto]|tauto].
      * intros (A & [B|B] & C); [left; exact B|].
        destruct (list_eq_dec N.eq_dec (c :: t') x) as [E|E]; [left; exact E|right; tauto].
Qed.

Lemma dedup_nodup l : forall seen, NoDup (dedup_nonempty seen l).
Proof.
  induction l as [|t r IH]; intro seen; cbn [dedup_nonempty]; [constructor|].
  destruct t as [|c t']; [apply IH|]. destruct (mem_str (c :: t') seen); [apply IH|].
  constructor; [|apply IH]. rewrite dedup_in. cbn [In]. tauto.
Qed.

Lemma dedup_subseq l : forall seen, Doc.subseq (dedup_nonempty seen l) l.
Proof.
  induction l as [|t r IH]; intro seen; cbn [dedup_nonempty]; [constructor|].
  destruct t as [|c t']; [constructor; apply IH|].
  destruct (mem_str (c :: t') seen); constructor; apply IH.
Qed.

Lemma tags_of_dedup entries : Doc.tags_of entries (dedup_nonempty [] entries).
Proof.
  split; [apply dedup_nodup|]. split; [rewrite dedup_in; tauto|].
  split; [intro x; rewrite dedup_in; cbn [In]; tauto|apply dedup_subseq].
Qed.

Lemma split_on_nosep d p : forall cur, ~ In d p -> split_on d cur p = [rev cur ++ p].
Proof.
  induction p as [|c p IH]; intros cur H; cbn [split_on]; [rewrite app_nil_r; reflexivity|].
  destruct (c =? d) eqn:E; [apply N.eqb_eq in E; subst; exfalso; apply H; left; reflexivity|].
  rewrite IH by (intro K; apply H; right; exact K). cbn [rev]. rewrite <- app_assoc. reflexivity.
Qed.

Lemma split_on_sep d p : forall cur r,
  ~ In d p -> split_on d cur (p ++ d :: r) = (rev cur ++ p) :: split_on d [] r.
Proof.
  induction p as [|c p IH]; intros cur r H; cbn [app split_on].
  - rewrite N.eqb_refl, app_nil_r. reflexivity.
  - destruct (c =? d) eqn:E; [apply N.eqb_eq in E; subst; exfalso; apply H; left; reflexivity|].
    rewrite IH by (intro K; apply H; right; exact K). cbn [rev]. rewrite <- app_assoc. reflexivity.
Qed.

Lemma split_on_join d pieces :
  pieces <> [] -> Doc.no_sep d pieces -> split_on d [] (Doc.join d pieces) = pieces.
Proof.
  induction pieces as [|p r IH]; [congruence|]. intros _ NS.
  assert (NP : ~ In d p) by (apply NS; left; reflexivity).
  destruct r as [|q r'].
  - cbn [Doc.join]. apply split_on_nosep, NP.
  - change (Doc.join d (p :: q :: r')) with (p ++ d :: Doc.join d (q :: r')).
    rewrite split_on_sep by exact NP. cbn [rev app]. f_equal.
    apply IH; [discriminate|]. intros x I. apply NS. right. exact I.
Qed.

Lemma tags_string pieces :
  pieces <> [] -> Doc.no_sep 44 pieces ->
  exists l, value_as_tags (YStr (Doc.join 44 pieces)) = Some l /\ Doc.tags_of (map trim pieces) l.
Proof.
  intros NE NS. unfold value_as_tags, as_str. cbn [untag].
  rewrite split_on_join by assumption. eexists. split; [reflexivity|apply tags_of_dedup].
Qed.

Lemma all_some_strs entries : all_some (map as_str_like (map YStr entries)) = Some entries.
Proof.
  induction entries as [|e r IH]; [reflexivity|]. cbn [map all_some].
  change (as_str_like (YStr e)) with (Some e). cbv iota. rewrite IH. reflexivity.
Qed.

Lemma tags_list entries :
  exists l, value_as_tags (YSeq (map YStr entries)) = Some l /\ Doc.tags_of entries l.
Proof.
  unfold value_as_tags, as_str, as_sequence. cbn [untag]. rewrite all_some_strs.
  eexists. split; [reflexivity|apply tags_of_dedup].
Qed.

Lemma tags_any v l : value_as_tags v = Some l -> NoDup l /\ ~ In [] l.
Proof.
  unfold value_as_tags.
  destruct (match as_str v with
            | Some s => Some (map trim (split_on 44 [] s))
            | None => match as_sequence v with
                      | Some seq => all_some (map as_str_like seq)
                      | None => None
                      end
            end) as [e|]; [|discriminate].
  intro H. inversion H; subst. split; [apply dedup_nodup|]. rewrite dedup_in. tauto.
Qed.

(* ------------------------------------------------------------------ 6. servings *)

Lemma mem_n_iff x l : mem_n x l = true <-> In x l.
Proof.
  induction l as [|y l IH]; cbn [mem_n In]; [split; [discriminate|contradiction]|].
  rewrite orb_true_iff, N.eqb_eq, IH. split; intros [H|H]; auto.
Qed.

Lemma has_dup_false_iff l : has_dup l = false <-> NoDup l.
Proof.
  induction l as [|x l IH]; cbn [has_dup]; [split; [constructor|reflexivity]|].
  rewrite orb_false_iff, IH. split.
  - intros (M & D). constructor; [|exact D]. intro I. apply mem_n_iff in I. congruence.
  - intro H. inversion H; subst. split; [|assumption].
    destruct (mem_n x l) eqn:M; [apply mem_n_iff in M; contradiction|reflexivity].
Qed.

Lemma servings_finish ns : Doc.servings ns (if has_dup ns then None else Some ns).
Proof.
  destruct (has_dup ns) eqn:D; [right|left]; split; try reflexivity.
  - intro N. apply has_dup_false_iff in N. congruence.
  - apply has_dup_false_iff, D.
Qed.

Lemma servings_any v l : value_as_servings v = Some l -> NoDup l.
Proof.
  unfold value_as_servings.
  destruct (match as_u32 v with
            | Some n => Some [n]
            | None => match as_str v with
                      | Some s => all_some (map (fun e => extract_value (trim e)) (split_on 124 [] s))
                      | None => match as_sequence v with
                                | Some seq => all_some (map serving_entry seq)
                                | None => None
                                end
                      end
            end) as [l'|]; [|discriminate].
  destruct (has_dup l') eqn:D; [discriminate|]. intro H. inversion H; subst. apply has_dup_false_iff, D.
Qed.

Lemma servings_number v n : as_u32 v = Some n -> value_as_servings v = Some [n].
Proof. intro H. unfold value_as_servings. rewrite H. reflexivity. Qed.

Lemma servings_list ns :
  Forall (fun n => n < two32) ns ->
  value_as_servings (YSeq (map (fun n => YNum (Some n) (print_nat n)) ns))
  = if has_dup ns then None else Some ns.
Proof.
  intro F. unfold value_as_servings, as_u32, as_u64, as_str, as_sequence. cbn [untag].
  assert (A : all_some (map serving_entry (map (fun n => YNum (Some n) (print_nat n)) ns)) = Some ns).
  { induction F as [|n r L _ IH]; [reflexivity|]. cbn [map all_some].
    unfold serving_entry at 1, as_u32, as_u64. cbn [untag]. apply N.ltb_lt in L. rewrite L, IH. reflexivity. }
  rewrite A. reflexivity.
Qed.

Lemma take_drop_while p l : l = take_while p l ++ drop_while p l.
Proof.
  induction l as [|c l IH]; cbn [take_while drop_while]; [reflexivity|].
  destruct (p c); [cbn [app]; f_equal; exact IH|reflexivity].
Qed.

Lemma trim_end_prefix y : exists w, y = trim_end y ++ w.
Proof.
  unfold trim_end. exists (rev (take_while uni_ws (rev y))).
  rewrite <- rev_app_distr, <- take_drop_while, rev_involutive. reflexivity.
Qed.

Lemma drop_while_app p a b :
  drop_while p (a ++ b) = match drop_while p a with [] => drop_while p b | r => r ++ b end.
Proof.
  induction a as [|c a IH]; cbn [app drop_while]; [reflexivity|].
  destruct (p c); [exact IH|reflexivity].
Qed.

Lemma trim_end_keep D y x D' :
  rev D = x :: D' -> uni_ws x = false -> trim_end (D ++ y) = D ++ trim_end y.
Proof.
  intros R X. unfold trim_end. rewrite rev_app_distr, drop_while_app.
  destruct (drop_while uni_ws (rev y)) as [|c r].
  - rewrite R. cbn [drop_while]. rewrite X, <- R, rev_involutive, app_nil_r. reflexivity.
  - rewrite rev_app_distr, rev_involutive. reflexivity.
Qed.

Lemma alnum_not_ws c : is_ascii_alnum c = true -> uni_ws c = false.
Proof.
  intro H. assert (R : 48 <= c <= 122).
  { unfold is_ascii_alnum, is_digit, is_ascii_alpha in H.
    repeat (apply orb_true_iff in H as [H|H]); apply andb_true_iff in H as [H1 H2];
      apply N.leb_le in H1; apply N.leb_le in H2; lia. }
  unfold uni_ws.
  repeat match goal with |- context [?a =? ?b] => replace (a =? b) with false by (symmetry; apply N.eqb_neq; lia) end.
  replace (c <=? 13) with false by (symmetry; apply N.leb_gt; lia).
  replace (8192 <=? c) with false by (symmetry; apply N.leb_gt; lia).
  rewrite !andb_false_r. reflexivity.
Qed.

Lemma doc_alnum c : Doc.ascii_alnum c = is_ascii_alnum c.
Proof. unfold Doc.ascii_alnum, is_ascii_alnum, is_digit, is_ascii_alpha. rewrite orb_assoc. reflexivity. Qed.

Lemma digits_alnum d : forallb is_digit d = true -> forallb is_ascii_alnum d = true.
Proof.
  rewrite !forallb_forall. intros H c I. unfold is_ascii_alnum. rewrite (H c I). reflexivity.
Qed.

(* one documented entry of a servings string gives its number *)
Lemma extract_serving pad1 n text pad2 :
  Doc.blank pad1 = true -> Doc.blank pad2 = true -> n < two32 -> Doc.text_ok text = true ->
  extract_value (trim (Doc.print_serving pad1 n text pad2)) = Some n.
Proof.
  intros B1 B2 R TX. unfold Doc.print_serving, trim, trim_start.
  pose proof (print_nat_digits n) as D. pose proof (parse_u32_print n R) as P.
  assert (RV : exists x D', rev (print_nat n) = x :: D' /\ uni_ws x = false).
  { destruct (rev (print_nat n)) as [|x D'] eqn:E.
    - apply (f_equal (@rev N)) in E. rewrite rev_involutive in E. apply print_nat_nonempty in E. contradiction.
    - exists x, D'. split; [reflexivity|]. rewrite <- forallb_rev, E in D. cbn [forallb] in D.
      apply andb_true_iff in D as [D _]. apply digit_not_ws, D. }
  destruct RV as (x & D' & RV & XW).
  destruct (print_nat n) as [|d ds] eqn:E; [apply print_nat_nonempty in E; contradiction|].
  assert (DW : uni_ws d = false).
  { cbn [forallb] in D. apply andb_true_iff in D as [D0 _]. apply digit_not_ws, D0. }
  cbn [app]. rewrite (drop_while_stop uni_ws pad1 d _ B1 DW).
  change (d :: ds ++ text ++ pad2) with ((d :: ds) ++ text ++ pad2).
  rewrite (trim_end_keep _ _ x D' RV XW). unfold extract_value.
  destruct (trim_end_prefix (text ++ pad2)) as (w & W).
  destruct (trim_end (text ++ pad2)) as [|c z].
  - rewrite app_nil_r, take_while_all by (apply digits_alnum, D). exact P.
  - assert (CA : is_ascii_alnum c = false).
    { destruct text as [|t0 text'].
      - cbn [app] in W. destruct pad2 as [|p0 pad2']; [discriminate|]. inversion W; subst.
        unfold Doc.blank in B2. cbn [forallb] in B2. apply andb_true_iff in B2 as [B2 _].
        destruct (is_ascii_alnum c) eqn:A; [apply alnum_not_ws in A; congruence|reflexivity].
      - cbn [app] in W. inversion W; subst. cbn [Doc.text_ok] in TX. rewrite doc_alnum in TX.
        apply negb_true_iff in TX. exact TX. }
    rewrite (take_while_stop is_ascii_alnum _ c z (digits_alnum _ D) CA). exact P.
Qed.

Definition sv_entry := (str * N * str * str)%type.
Definition sv_print (e : sv_entry) : str :=
  match e with (p1, n, tx, p2) => Doc.print_serving p1 n tx p2 end.
Definition sv_num (e : sv_entry) : N := match e with (_, n, _, _) => n end.
Definition sv_ok (e : sv_entry) : Prop :=
  match e with
  | (p1, n, tx, p2) => Doc.blank p1 = true /\ Doc.blank p2 = true /\ n < two32 /\ Doc.text_ok tx = true
  end.

Lemma servings_string es :
  es <> [] -> Forall sv_ok es -> Doc.no_sep 124 (map sv_print es) ->
  value_as_servings (YStr (Doc.join 124 (map sv_print es)))
  = if has_dup (map sv_num es) then None else Some (map sv_num es).
Proof.
  intros NE F NS. unfold value_as_servings, as_u32, as_u64, as_str. cbn [untag].
  rewrite split_on_join; [|destruct es; [congruence|discriminate]|exact NS].
  assert (A : all_some (map (fun e => extract_value (trim e)) (map sv_print es)) = Some (map sv_num es)).
  { clear NE NS. induction F as [|e r OK _ IH]; [reflexivity|]. cbn [map all_some].
    destruct e as [[[p1 n] tx] p2]. destruct OK as (B1 & B2 & R & TX).
    cbn [sv_print sv_num]. rewrite (extract_serving p1 n tx p2 B1 B2 R TX), IH. reflexivity. }
  rewrite A. reflexivity.
Qed.

(* ------------------------------------------------------------------ 6. name and URL *)

Lemma split_once_first d a : forall pre b,
  ~ In d a -> split_once d pre (a ++ d :: b) = Some (rev pre ++ a, b).
Proof.
  induction a as [|c a IH]; intros pre b H; cbn [app split_once].
  - rewrite N.eqb_refl, app_nil_r. reflexivity.
  - destruct (c =? d) eqn:E; [apply N.eqb_eq in E; subst; exfalso; apply H; left; reflexivity|].
    rewrite IH by (intro K; apply H; right; exact K). cbn [rev]. rewrite <- app_assoc. reflexivity.
Qed.

(* a string that does not end in `>` (ASCII blanks aside): a URL if it is one, else a name *)
Lemma nu_parse_plain alpha c s :
  last_is (trim_ascii_end s) 62 = false ->
  nu_parse alpha c s = if is_url alpha s then nu_new None (Some s) else nu_new (Some s) None.
Proof. intro H. unfold nu_parse. rewrite H. reflexivity. Qed.

(* `Name <Url>`: name and URL when the URL is valid; else everything is read as a plain string *)
Lemma nu_parse_bracket alpha c name url pad :
  fix_url c = true ->
  ~ In 60 name -> existsb_n is_angle url = false -> forallb ascii_ws pad = true ->
  let s := Doc.print_bracket name url pad in
  nu_parse alpha c s
  = if is_url alpha (trim url) then nu_new (Some name) (Some url)
    else if is_url alpha s then nu_new None (Some s) else nu_new (Some s) None.
Proof.
  intros FU NN NA PD s. unfold nu_parse.
  assert (T : trim_ascii_end s = (name ++ 60 :: url) ++ [62]).
  { unfold trim_ascii_end, s, Doc.print_bracket.
    assert (E : name ++ [60] ++ url ++ [62] ++ pad = ((name ++ 60 :: url) ++ [62]) ++ pad)
      by (rewrite <- !app_assoc; reflexivity).
    rewrite E, rev_app_distr, (rev_app_distr (name ++ 60 :: url) [62]). cbn [rev app].
    rewrite (drop_while_stop ascii_ws (rev pad) 62) by (rewrite ?forallb_rev; (exact PD || reflexivity)).
    cbn [rev]. rewrite rev_involutive. reflexivity. }
  fold s. rewrite T, last_is_snoc, removelast_last. change (62 =? 62) with true. cbv iota.
  rewrite (split_once_first 60 name [] url NN). cbn [rev app]. rewrite FU, NA. cbn [negb andb].
  destruct (is_url alpha (trim url)); reflexivity.
Qed.

(* ------------------------------------------------------------------ the URL grammar *)

Lemma starts_with_sep s : starts_with [58; 47; 47] s = true -> s = [58; 47; 47] ++ skipn 3 s.
Proof.
  destruct s as [|a [|b [|c r]]]; cbn [starts_with]; try discriminate;
    rewrite ?andb_false_r; try discriminate.
  intro H. apply andb_true_iff in H as [A H]. apply andb_true_iff in H as [B H].
  apply andb_true_iff in H as [C _]. apply N.eqb_eq in A, B, C. subst. reflexivity.
Qed.

Lemma split_once_sep_spec s : forall pre a b,
  split_once_sep pre s = Some (a, b) -> rev pre ++ s = a ++ [58; 47; 47] ++ b.
Proof.
  induction s as [|c r IH]; intros pre a b; cbn [split_once_sep]; [discriminate|].
  destruct (starts_with [58; 47; 47] (c :: r)) eqn:E.
  - intro H. inversion H; subst. rewrite (starts_with_sep _ E) at 1. reflexivity.
  - intro H. apply IH in H. cbn [rev] in H. rewrite <- app_assoc in H. exact H.
Qed.

Lemma split_once_sep_first a : forall pre b,
  ~ In 58 a -> split_once_sep pre (a ++ 58 :: 47 :: 47 :: b) = Some (rev pre ++ a, b).
Proof.
  induction a as [|c a IH]; intros pre b H.
  - cbn [app split_once_sep starts_with N.eqb Pos.eqb andb skipn]. rewrite app_nil_r. reflexivity.
  - cbn [app split_once_sep starts_with].
    replace (58 =? c) with false by (symmetry; apply N.eqb_neq; intro E; apply H; left; auto).
    cbn [andb]. rewrite IH by (intro K; apply H; right; exact K).
    cbn [rev]. rewrite <- app_assoc. reflexivity.
Qed.

Lemma split_once_full d s : forall pre a b,
  split_once d pre s = Some (a, b) -> exists a', a = rev pre ++ a' /\ ~ In d a' /\ s = a' ++ d :: b.
Proof.
  induction s as [|c r IH]; intros pre a b; cbn [split_once]; [discriminate|].
  destruct (c =? d) eqn:E.
  - apply N.eqb_eq in E. subst c. intro H. inversion H; subst. exists []. rewrite app_nil_r.
    split; [reflexivity|]. split; [intros []|reflexivity].
  - intro H. apply IH in H as (a' & -> & NI & ->). exists (c :: a'). cbn [rev]. rewrite <- app_assoc.
    split; [reflexivity|]. split; [|reflexivity]. intros [K|K]; [apply N.eqb_neq in E; congruence|contradiction].
Qed.

Lemma split_once_none d s : forall pre, split_once d pre s = None <-> ~ In d s.
Proof.
  induction s as [|c r IH]; intro pre; cbn [split_once In]; [split; [intros _ []|reflexivity]|].
  destruct (c =? d) eqn:E.
  - apply N.eqb_eq in E. split; [discriminate|]. intro H. exfalso. apply H. left. exact E.
  - apply N.eqb_neq in E. rewrite IH. tauto.
Qed.

Lemma forallb_n_eq p s : forallb_n p s = forallb p s.
Proof. induction s as [|c r IH]; [reflexivity|]. cbn [forallb_n forallb]. rewrite IH. reflexivity. Qed.

Lemma existsb_n_false p s : existsb_n p s = false <-> forallb (fun c => negb (p c)) s = true.
Proof.
  induction s as [|c r IH]; cbn [existsb_n forallb]; [tauto|].
  rewrite orb_false_iff, andb_true_iff, negb_true_iff, IH. tauto.
Qed.

Lemma forallb_notin (p : N -> bool) x s : forallb p s = true -> p x = false -> ~ In x s.
Proof. intros H X I. rewrite forallb_forall in H. rewrite (H x I) in X. discriminate. Qed.

(* the URL test of the code is the documented URL shape; [alpha 58 = false]: a colon is not
   alphabetic (true of char::is_alphabetic) *)
Lemma is_url_iff alpha s : alpha 58 = false -> (is_url alpha s = true <-> Doc.valid_url alpha s).
Proof.
  intro A58. unfold is_url. split.
  - destruct (split_once_sep [] s) as [[scheme rest]|] eqn:E; [|discriminate].
    apply split_once_sep_spec in E. cbn [rev app] in E.
    destruct rest as [|r0 rest'] eqn:R; [discriminate|]. rewrite <- R in *.
    assert (RN : rest <> []) by (subst; discriminate). clear R.
    destruct (forallb_n alpha scheme) eqn:SA; [|discriminate]. cbn [negb]. rewrite forallb_n_eq in SA.
    destruct (split_once 47 [] rest) as [[h tl]|] eqn:SP.
    + apply split_once_full in SP as (h' & -> & NI & RE). cbn [rev app] in *.
      destruct h' as [|h0 h1] eqn:HE; [discriminate|]. rewrite <- HE in *.
      intro W. apply negb_true_iff, existsb_n_false in W.
      exists scheme, h', (47 :: tl). subst rest. repeat split; try assumption.
      * apply (forallb_notin alpha); assumption.
      * subst; discriminate.
      * right. eexists. reflexivity.
    + apply split_once_none in SP.
      destruct rest as [|h0 h1] eqn:HE; [discriminate|]. rewrite <- HE in *.
      intro W. apply negb_true_iff, existsb_n_false in W.
      exists scheme, rest, []. rewrite app_nil_r. repeat split; try assumption.
      * apply (forallb_notin alpha); assumption.
      * left. reflexivity.
  - intros (scheme & host & rest & -> & SA & N58 & HN & N47 & W & RS).
    cbn [app]. rewrite (split_once_sep_first scheme [] (host ++ rest) N58). cbn [rev app].
    destruct (host ++ rest) as [|x y] eqn:HR.
    { apply app_eq_nil in HR as [HR _]. contradiction. }
    rewrite <- HR. rewrite forallb_n_eq, SA. cbn [negb].
    apply existsb_n_false in W.
    destruct RS as [->|(r & ->)].
    + rewrite app_nil_r. apply (split_once_none 47 host []) in N47. rewrite N47.
      destruct host; [contradiction|]. rewrite W. reflexivity.
    + rewrite (split_once_first 47 host [] r N47). cbn [rev app].
      destruct host; [contradiction|]. rewrite W. reflexivity.
Qed.

(* ------------------------------------------------------------------ trimming *)

Lemma take_while_forall p s : forallb p (take_while p s) = true.
Proof.
  induction s as [|c r IH]; cbn [take_while]; [reflexivity|].
  destruct (p c) eqn:E; [cbn [forallb]; rewrite E, IH|]; reflexivity.
Qed.

Lemma trim_trimmed s : Doc.trimmed s (trim s).
Proof.
  unfold Doc.trimmed, trim, trim_start.
  set (m := drop_while uni_ws s).
  exists (take_while uni_ws s), (rev (take_while uni_ws (rev m))).
  assert (M : m = trim_end m ++ rev (take_while uni_ws (rev m))).
  { unfold trim_end. rewrite <- rev_app_distr, <- take_drop_while, rev_involutive. reflexivity. }
  split; [rewrite <- M; apply take_drop_while|].
  split; [apply take_while_forall|].
  split; [unfold Doc.blank; rewrite forallb_rev; apply take_while_forall|].
  split.
  - destruct (trim_end m) as [|c t] eqn:E; [exact I|].
    try rewrite E in M. cbn [app] in M. unfold m in M. apply drop_while_head in M. exact M.
  - unfold trim_end. rewrite rev_involutive.
    destruct (drop_while uni_ws (rev m)) as [|c t] eqn:E; [exact I|]. apply drop_while_head in E. exact E.
Qed.

Lemma trim_end_blank b : Doc.blank b = true -> trim_end b = [].
Proof.
  intro B. unfold trim_end. rewrite drop_while_all_nil; [reflexivity|]. rewrite forallb_rev. exact B.
Qed.

Lemma trimmed_unique s t : Doc.trimmed s t -> t = trim s.
Proof.
  intros (a & b & -> & A & B & F & L). unfold trim, trim_start.
  destruct t as [|c t'].
  - cbn [app]. rewrite drop_while_all_nil; [reflexivity|].
    unfold Doc.blank in *. rewrite forallb_app, A, B. reflexivity.
  - cbn [app]. rewrite (drop_while_stop uni_ws a c _ A F).
    destruct (rev (c :: t')) as [|x D'] eqn:R.
    { apply (f_equal (@rev N)) in R. rewrite rev_involutive in R. discriminate. }
    change (c :: t' ++ b) with ((c :: t') ++ b).
    rewrite (trim_end_keep _ _ x D' R L), (trim_end_blank b B), app_nil_r. reflexivity.
Qed.

Lemma cleaned_filter s o : Doc.cleaned s o <-> o = nu_filter (Some s).
Proof.
  unfold Doc.cleaned, nu_filter. split.
  - intros (t & T & ->). apply trimmed_unique in T. subst t. destruct (trim s); reflexivity.
  - intros ->. exists (trim s). split; [apply trim_trimmed|]. destruct (trim s); reflexivity.
Qed.

(* ------------------------------------------------------------------ name and URL, all strings *)

Lemma trim_ascii_end_prefix s :
  exists w, s = trim_ascii_end s ++ w /\ forallb ascii_ws w = true.
Proof.
  unfold trim_ascii_end. exists (rev (take_while ascii_ws (rev s))). split.
  - rewrite <- rev_app_distr, <- take_drop_while, rev_involutive. reflexivity.
  - rewrite forallb_rev. apply take_while_forall.
Qed.

Lemma no_angle_iff url : existsb_n is_angle url = false <-> Doc.no_angle url.
Proof.
  unfold Doc.no_angle. induction url as [|c r IH]; cbn [existsb_n In]; [tauto|].
  rewrite orb_false_iff, IH. unfold is_angle. rewrite orb_false_iff, !N.eqb_neq.
  split; [intros ((A & B) & C & D); split; intros [K|K]; auto|].
  intros (A & B). repeat split; auto.
Qed.

(* what the bracket branch of NameAndUrl::parse finds *)
Definition model_bracket alpha (s : str) : option (str * str) :=
  let t := trim_ascii_end s in
  if last_is t 62 then
    match split_once 60 [] (removelast t) with
    | Some (name, url) =>
      if negb (existsb_n is_angle url) && is_url alpha (trim url) then Some (name, url) else None
    | None => None
    end
  else None.

Lemma nu_parse_model alpha c s :
  fix_url c = true ->
  nu_parse alpha c s
  = match model_bracket alpha s with
    | Some (name, url) => nu_new (Some name) (Some url)
    | None => if is_url alpha s then nu_new None (Some s) else nu_new (Some s) None
    end.
Proof.
  intro F. unfold nu_parse, model_bracket. rewrite F.
  destruct (last_is (trim_ascii_end s) 62); [|reflexivity].
  destruct (split_once 60 [] (removelast (trim_ascii_end s))) as [[name url]|]; [|reflexivity].
  destruct (negb (existsb_n is_angle url) && is_url alpha (trim url)); reflexivity.
Qed.

Lemma model_bracket_iff alpha s name url :
  alpha 58 = false ->
  (model_bracket alpha s = Some (name, url) <-> Doc.bracket_form alpha s name url).
Proof.
  intro A58. unfold model_bracket. split.
  - destruct (trim_ascii_end_prefix s) as (w & SW & W).
    destruct (last_is (trim_ascii_end s) 62) eqn:L; [|discriminate].
    apply last_is_split in L.
    destruct (split_once 60 [] (removelast (trim_ascii_end s))) as [[nm ur]|] eqn:SP; [|discriminate].
    destruct (existsb_n is_angle ur) eqn:AN; [discriminate|]. cbn [negb andb].
    destruct (is_url alpha (trim ur)) eqn:U; [|discriminate]. intro H. inversion H; subst nm ur.
    apply split_once_full in SP as (n' & -> & NI & RE). cbn [rev app] in *.
    exists w, (trim url). split; [|split; [exact NI|split; [apply no_angle_iff, AN|split; [exact W|split;
      [apply trim_trimmed|apply (is_url_iff alpha _ A58), U]]]]].
    rewrite SW at 1. rewrite L, RE. unfold Doc.print_bracket. rewrite <- !app_assoc. reflexivity.
  - intros (pad & u & -> & NI & NA & PD & TR & VU).
    assert (T : trim_ascii_end (Doc.print_bracket name url pad) = (name ++ 60 :: url) ++ [62]).
    { unfold trim_ascii_end, Doc.print_bracket.
      assert (E : name ++ [60] ++ url ++ [62] ++ pad = ((name ++ 60 :: url) ++ [62]) ++ pad)
        by (rewrite <- !app_assoc; reflexivity).
      rewrite E, rev_app_distr, (rev_app_distr (name ++ 60 :: url) [62]). cbn [rev app].
      rewrite (drop_while_stop ascii_ws (rev pad) 62) by (rewrite ?forallb_rev; (exact PD || reflexivity)).
      cbn [rev]. rewrite rev_involutive. reflexivity. }
    rewrite T, last_is_snoc, removelast_last. change (62 =? 62) with true. cbv iota.
    rewrite (split_once_first 60 name [] url NI). cbn [rev app].
    apply no_angle_iff in NA. rewrite NA. cbn [negb andb].
    apply trimmed_unique in TR. subst u. apply (is_url_iff alpha _ A58) in VU. rewrite VU. reflexivity.
Qed.

(* NameAndUrl::parse is the documented reading, for every string *)
Lemma nu_parse_iff alpha c s n u :
  fix_url c = true -> alpha 58 = false ->
  (nu_parse alpha c s = (n, u) <-> Doc.name_url alpha s n u).
Proof.
  intros F A58. rewrite (nu_parse_model alpha c s F). unfold nu_new. split.
  - destruct (model_bracket alpha s) as [[name url]|] eqn:MB.
    + intro H. inversion H; subst. apply (model_bracket_iff alpha s name url A58) in MB.
      apply (Doc.nu_both alpha s name url); [exact MB|apply cleaned_filter; reflexivity|apply cleaned_filter; reflexivity].
    + assert (NB : forall name url, ~ Doc.bracket_form alpha s name url).
      { intros name url B. apply (model_bracket_iff alpha s name url A58) in B. congruence. }
      destruct (is_url alpha s) eqn:U; intro H; inversion H; subst.
      * apply Doc.nu_url; [exact NB|apply (is_url_iff alpha s A58), U|apply cleaned_filter; reflexivity].
      * apply Doc.nu_name; [exact NB| |apply cleaned_filter; reflexivity].
        intro V. apply (is_url_iff alpha s A58) in V. congruence.
  - intro H. inversion H as [name url n' u' B CN CU|u' NB V CU|n' NB V CN]; subst.
    + apply (model_bracket_iff alpha s name url A58) in B. rewrite B.
      apply cleaned_filter in CN, CU. subst. reflexivity.
    + destruct (model_bracket alpha s) as [[name url]|] eqn:MB.
      { apply (model_bracket_iff alpha s name url A58) in MB. apply NB in MB. contradiction. }
      apply (is_url_iff alpha s A58) in V. rewrite V. apply cleaned_filter in CU. subst. reflexivity.
    + destruct (model_bracket alpha s) as [[name url]|] eqn:MB.
      { apply (model_bracket_iff alpha s name url A58) in MB. apply NB in MB. contradiction. }
      destruct (is_url alpha s) eqn:U; [apply (is_url_iff alpha s A58) in U; contradiction|].
      apply cleaned_filter in CN. subst. reflexivity.
Qed.

(* ------------------------------------------------------------------ accepted => documented: the
   unit reader and the float fallback, for every string *)

Lemma ws_words_blank c s l : uni_ws c = true -> Doc.ws_words s l -> Doc.ws_words (c :: s) l.
Proof.
  intros C H. inversion H as [b B|b w rest l' B WN W R T]; subst.
  - apply Doc.ww_nil. unfold Doc.blank in *. cbn [forallb]. rewrite C, B. reflexivity.
  - change (c :: b ++ w ++ rest) with ((c :: b) ++ w ++ rest). apply Doc.ww_cons; try assumption.
    unfold Doc.blank in *. cbn [forallb]. rewrite C, B. reflexivity.
Qed.

Lemma ws_words_single w : w <> [] -> nows w -> Doc.ws_words w [w].
Proof.
  intros NE NW.
  pose proof (Doc.ww_cons [] w [] [] eq_refl NE NW I (Doc.ww_nil [] eq_refl)) as K.
  cbn [app] in K. rewrite app_nil_r in K. exact K.
Qed.

Lemma split_ws_words_gen s : forall cur,
  nows (rev cur) -> Doc.ws_words (rev cur ++ s) (split_ws cur s).
Proof.
  induction s as [|c r IH]; intros cur NW; cbn [split_ws].
  - rewrite app_nil_r. destruct cur as [|a cur'] eqn:E.
    + apply (Doc.ww_nil []). reflexivity.
    + rewrite <- E in *. apply ws_words_single; [|exact NW].
      intro K. apply (f_equal (@rev N)) in K. rewrite rev_involutive in K. subst. discriminate.
  - destruct (uni_ws c) eqn:C.
    + pose proof (IH [] ltac:(reflexivity)) as T. cbn [rev app] in T.
      destruct cur as [|a cur'] eqn:E.
      * cbn [rev app]. apply ws_words_blank; assumption.
      * rewrite <- E in *. change (rev cur ++ c :: r) with ([] ++ rev cur ++ c :: r).
        apply Doc.ww_cons; try reflexivity; [|exact NW|exact C|apply ws_words_blank; assumption].
        intro K. apply (f_equal (@rev N)) in K. rewrite rev_involutive in K. subst. discriminate.
    + assert (NW' : nows (rev (c :: cur))).
      { cbn [rev]. apply nows_app; [exact NW|]. unfold nows. cbn [forallb]. rewrite C. reflexivity. }
      pose proof (IH (c :: cur) NW') as T. cbn [rev] in T. rewrite <- app_assoc in T. exact T.
Qed.

Lemma split_ws_words s : Doc.ws_words s (split_ws [] s).
Proof. apply (split_ws_words_gen s []). reflexivity. Qed.

Lemma doc_num_char c : Doc.num_char c = num_char c.
Proof. reflexivity. Qed.

(* one number-unit pair as the code read it: the texts, what the float reader and the unit
   conversion answered *)
Definition item := (str * str * fval * fval)%type.
Definition item_texts (i : item) : str * str := match i with (n, u, _, _) => (n, u) end.
Definition item_mins (i : item) : fval := match i with (_, _, _, m) => m end.
Definition item_read pf cv (i : item) : Prop :=
  match i with (n, u, v, m) => pf n = Some v /\ to_minutes cv v u = Some m end.

Lemma units_loop_inv pf cv fuel : forall parts tot total,
  units_loop pf cv fuel parts tot = Some total ->
  exists items, Doc.grouped parts (map item_texts items) /\ Forall (item_read pf cv) items
                /\ total = fold_left fadd (map item_mins items) tot.
Proof.
  induction fuel as [|f IH]; intros parts tot total H; cbn [units_loop] in H; [discriminate|].
  destruct parts as [|part rest].
  - inversion H; subst. exists []. split; [constructor|]. split; [constructor|reflexivity].
  - destruct (drop_while num_char part) as [|x u] eqn:DW.
    + destruct rest as [|next rest'']; [discriminate|].
      destruct (pf part) as [v|] eqn:P; [|discriminate].
      destruct (to_minutes cv v next) as [m|] eqn:TM; [|discriminate].
      apply IH in H as (items & G & F & ->).
      exists ((part, next, v, m) :: items). cbn [map item_texts item_mins fold_left].
      split; [apply Doc.g_separate; [apply drop_while_all, DW|exact G]|].
      split; [constructor; [split; assumption|exact F]|reflexivity].
    + destruct (pf (take_while num_char part)) as [v|] eqn:P; [|discriminate].
      destruct (to_minutes cv v (x :: u)) as [m|] eqn:TM; [|discriminate].
      apply IH in H as (items & G & F & ->).
      exists ((take_while num_char part, x :: u, v, m) :: items). cbn [map item_texts item_mins fold_left].
      split.
      * rewrite (take_drop_while num_char part) at 1. rewrite DW.
        apply Doc.g_attached; [apply take_while_forall|apply drop_while_head in DW; exact DW|exact G].
      * split; [constructor; [split; assumption|exact F]|reflexivity].
Qed.

Definition is_fin (v : fval) : bool := match v with FFin _ => true | _ => false end.

Lemma fadd_fin a b : is_fin (fadd a b) = true -> is_fin a = true /\ is_fin b = true.
Proof. destruct a as [| |p], b as [| |q]; cbn; try discriminate; try (destruct (Bool.eqb neg neg0); discriminate); auto. Qed.

Lemma fold_fadd_fin ms : forall tot,
  is_fin (fold_left fadd ms tot) = true -> is_fin tot = true /\ Forall (fun m => is_fin m = true) ms.
Proof.
  induction ms as [|m r IH]; intros tot H; cbn [fold_left] in H; [split; [exact H|constructor]|].
  apply IH in H as (H & F). apply fadd_fin in H as (A & B). split; [exact A|constructor; assumption].
Qed.

Definition fin_val (v : fval) : Q := match v with FFin q => q | _ => 0%Q end.
Definition qsum (l : list Q) : Q := fold_right Qplus 0%Q l.

Lemma fold_fadd_sum ms : forall a,
  Forall (fun m => is_fin m = true) ms ->
  exists q, fold_left fadd ms (FFin a) = FFin q /\ (q == a + qsum (map fin_val ms))%Q.
Proof.
  induction ms as [|m r IH]; intros a F; cbn [fold_left map qsum fold_right].
  - exists a. split; [reflexivity|ring].
  - inversion F as [|? ? M F']; subst. destruct m as [| |b]; try discriminate. cbn [fadd fin_val].
    destruct (IH (a + b)%Q F') as (q & E & Q). exists q. split; [exact E|]. rewrite Q. unfold qsum. ring.
Qed.

Lemma faffine_fin d1 r1 r2 d2 v m :
  faffine d1 r1 r2 d2 v = FFin m -> exists q, v = FFin q /\ m = ((q + d1) * r1 / r2 - d2)%Q.
Proof. destruct v; cbn [faffine]; try discriminate. intro H. inversion H. eexists. split; reflexivity. Qed.

Lemma to_minutes_fin cv v u m : to_minutes cv v u = Some (FFin m) -> exists q, v = FFin q.
Proof.
  unfold to_minutes. destruct cv as [|u0 cv'].
  - unfold hard_coded_time_units.
    repeat match goal with |- context [if ?b then _ else _] => destruct b end; intro HH; inversion HH as [E];
      try (apply faffine_fin in E as (q & -> & _)); eauto.
  - unfold dynamic_time_units.
    repeat match goal with
           | |- context [match ?e with Some _ => _ | None => _ end] => destruct e as [[]|]
           | |- context [if ?b then _ else _] => destruct b
           end; intro HH; inversion HH as [E]; try (apply faffine_fin in E as (q & -> & _)); eauto.
Qed.

Lemma cast_checked_inv v n :
  cast_checked v = Some n ->
  exists q, v = FFin q /\ (0 <= q)%Q /\ (Doc.round q <= Z.of_N u32_max)%Z /\ n = Z.to_N (Doc.round q).
Proof.
  destruct v as [| |q]; cbn [cast_checked]; try discriminate.
  destruct (Qle_bool 0 q) eqn:P; [|discriminate]. apply Qle_bool_iff in P.
  rewrite (qround_nonneg q P). cbn [andb].
  destruct (Z.leb_spec (Doc.round q) (Z.of_N u32_max)) as [LE|]; [|discriminate].
  intro HH. inversion HH. exists q. auto.
Qed.

(* the reading of a string as number-unit pairs *)
Definition units_reading pf cv (s : str) (n : N) : Prop :=
  exists ws (items : list item) q,
    Doc.ws_words s ws /\ Doc.grouped ws (map item_texts items)
    /\ Forall (fun i => item_read pf cv i /\ exists v m, i = (fst (item_texts i), snd (item_texts i), FFin v, FFin m)) items
    /\ (q == qsum (map (fun i => fin_val (item_mins i)) items))%Q
    /\ (0 <= q)%Q /\ (Doc.round q <= Z.of_N u32_max)%Z /\ n = Z.to_N (Doc.round q).

Lemma parse_with_units_inv pf c cv s n :
  fix_cast c = true -> parse_with_units pf c cv s = Some n -> units_reading pf cv s n.
Proof.
  intros FC H. unfold parse_with_units, units_total in H.
  destruct (units_loop pf cv (S (List.length (split_ws [] s))) (split_ws [] s) (FFin 0)) as [total|] eqn:U; [|discriminate].
  unfold finish_cast in H. rewrite FC in H.
  apply cast_checked_inv in H as (q & -> & P & R & ->).
  apply units_loop_inv in U as (items & G & F & T).
  assert (FIN : is_fin (fold_left fadd (map item_mins items) (FFin 0)) = true) by (rewrite <- T; reflexivity).
  apply fold_fadd_fin in FIN as (_ & FM).
  destruct (fold_fadd_sum _ 0%Q FM) as (q' & E & Q). rewrite E in T. inversion T; subst q'.
  exists (split_ws [] s), items, q. split; [apply split_ws_words|]. split; [exact G|].
  split; [|split; [rewrite Q, map_map; ring|auto]].
  rewrite Forall_forall in *. intros i I. split; [apply F, I|].
  assert (MI : is_fin (item_mins i) = true) by (apply FM, in_map, I).
  destruct i as [[[nt ut] v] m]. cbn [item_mins item_texts fst snd] in *.
  destruct m as [| |mq]; try discriminate.
  destruct (F _ I) as (_ & TM). apply to_minutes_fin in TM as (vq & ->). eauto.
Qed.

Definition float_reading (pf : str -> option fval) (s : str) (n : N) : Prop :=
  exists v, pf s = Some (FFin v) /\ (0 <= v)%Q /\ (Doc.round v <= Z.of_N u32_max)%Z
            /\ n = Z.to_N (Doc.round v).

Definition compact_reading (s : str) (n : N) : Prop :=
  exists x, Doc.hm_spelled x s /\ n = Doc.hm_minutes x.

(* "never a wrapped or otherwise wrong number": whatever string is read as a duration, the
   number is that of one of the three documented readings, and fits a u32 *)
Lemma parse_time_inv pf c cv s n :
  fix_hm c = true -> fix_cast c = true ->
  parse_time pf c cv s = Done (Some n) ->
  (compact_reading s n \/ units_reading pf cv s n \/ float_reading pf s n) /\ n < two32.
Proof.
  intros FH FC H. unfold parse_time in H.
  destruct (if fix_blank c then trim s else s); [discriminate|].
  destruct (parse_common_total c s FH) as [r PC]. rewrite PC in H. cbn [obind] in H.
  assert (BOUND : forall q, (Doc.round q <= Z.of_N u32_max)%Z -> Z.to_N (Doc.round q) < two32).
  { intros q L. unfold u32_max, two32 in *. lia. }
  destruct r as [m|].
  - inversion H; subst m. destruct (parse_common_accepts c s n FH PC) as (x & SP & E & R).
    split; [left; exists x; auto|exact R].
  - destruct (parse_with_units pf c cv s) as [m|] eqn:PU.
    + inversion H; subst m. pose proof (parse_with_units_inv pf c cv s n FC PU) as UR.
      split; [right; left; exact UR|].
      destruct UR as (ws & items & q & _ & _ & _ & _ & _ & L & ->). apply BOUND, L.
    + destruct (pf s) as [v|] eqn:P; [|discriminate]. unfold finish_cast in H. rewrite FC in H.
      inversion H as [CC]. apply cast_checked_inv in CC as (q & -> & NN & L & ->).
      split; [right; right; exists q; auto|apply BOUND, L].
Qed.

(* --- what a unit means when the conversion answered *)

Lemma to_minutes_hard_inv v u m :
  to_minutes [] (FFin v) u = Some (FFin m) -> exists r, Doc.per_default u = Some r /\ (m == v * r)%Q.
Proof.
  unfold to_minutes, hard_coded_time_units. rewrite per_default_eq.
  destruct (mem_str u hard_s); [intro H; inversion H; eexists; split; [reflexivity|unfold Qdiv; change (/ 60)%Q with (1 # 60)%Q; ring]|].
  destruct (mem_str u hard_m); [intro H; inversion H; eexists; split; [reflexivity|ring]|].
  destruct (mem_str u hard_h); [intro H; inversion H; eexists; split; [reflexivity|unfold Qdiv; change (/ 1)%Q with 1%Q; ring]|].
  destruct (mem_str u hard_d); [intro H; inversion H; eexists; split; [reflexivity|unfold Qdiv; change (/ 1)%Q with 1%Q; ring]|].
  discriminate.
Qed.

Lemma to_minutes_dynamic_inv cv v u m :
  cv <> [] -> to_minutes cv (FFin v) u = Some (FFin m) ->
  exists mi mu ui uu,
    minute_unit cv = Some (mi, mu) /\ u_time mu = true /\ find_unit cv u = Some (ui, uu) /\ u_time uu = true
    /\ m = if ui =? mi then v else ((v + u_diff uu) * u_ratio uu / u_ratio mu - u_diff mu)%Q.
Proof.
  intro NE. unfold to_minutes. destruct cv as [|u0 cv']; [congruence|].
  unfold dynamic_time_units. fold (minute_unit (u0 :: cv')).
  destruct (minute_unit (u0 :: cv')) as [[mi mu]|]; [|discriminate].
  destruct (u_time mu) eqn:TM; [|discriminate]. cbn [negb].
  destruct (find_unit (u0 :: cv') u) as [[ui uu]|]; [|discriminate].
  destruct (u_time uu) eqn:TU; [|discriminate]. cbn [negb].
  intro H. exists mi, mu, ui, uu. repeat split; try assumption; try reflexivity.
  destruct (ui =? mi); inversion H; reflexivity.
Qed.

(* ------------------------------------------------------------------ servings: every entry *)

Lemma ws_not_alnum c : uni_ws c = true -> is_ascii_alnum c = false.
Proof. intro W. destruct (is_ascii_alnum c) eqn:A; [apply alnum_not_ws in A; congruence|reflexivity]. Qed.

Lemma text_ok_head rest : Doc.text_ok rest = true <-> match rest with [] => True | c :: _ => is_ascii_alnum c = false end.
Proof.
  destruct rest as [|c r]; cbn [Doc.text_ok]; [tauto|]. rewrite doc_alnum, negb_true_iff. tauto.
Qed.

Lemma digits_val_zeros z d : digits_val 0 (repeat 48 z ++ d) = digits_val 0 d.
Proof.
  induction z as [|z IH]; [reflexivity|]. cbn [repeat app digits_val].
  change (is_digit 48) with true. cbv iota. exact IH.
Qed.

Lemma extract_iff s n : extract_value s = Some n <-> Doc.leading s n.
Proof.
  unfold extract_value, Doc.leading. split.
  - intro H. pose proof (take_drop_while is_ascii_alnum s) as SD.
    pose proof (take_while_forall is_ascii_alnum s) as AL.
    set (a := take_while is_ascii_alnum s) in *.
    destruct (parse_u32_numeral a n H) as (NA & R).
    destruct (numeral_cases a n NA) as [(a' & E)|(DA & VA)].
    { rewrite E in AL. cbn [forallb] in AL. discriminate. }
    assert (NE : a <> []) by (intro E; rewrite E in H; discriminate).
    destruct (digits_decompose a NE DA) as (z & v & V & E). rewrite VA in V. inversion V; subst v.
    exists z, (drop_while is_ascii_alnum s). split; [rewrite SD at 1; rewrite E, <- app_assoc; reflexivity|].
    split; [exact R|]. apply text_ok_head.
    destruct (drop_while is_ascii_alnum s) as [|c r] eqn:DW; [exact I|apply drop_while_head in DW; exact DW].
  - intros (z & rest & -> & R & TX). apply text_ok_head in TX.
    assert (D : forallb is_digit (repeat 48 z ++ print_nat n) = true)
      by (rewrite forallb_app, print_nat_digits, forallb_repeat; reflexivity).
    assert (TW : take_while is_ascii_alnum (repeat 48 z ++ print_nat n ++ rest) = repeat 48 z ++ print_nat n).
    { rewrite app_assoc. destruct rest as [|c r].
      - rewrite app_nil_r. apply take_while_all, digits_alnum, D.
      - apply take_while_stop; [apply digits_alnum, D|exact TX]. }
    rewrite TW, parse_u32_digits; [|intro E; apply app_eq_nil in E as [_ E]; apply print_nat_nonempty in E; exact E|exact D].
    rewrite digits_val_zeros, digits_val_print. apply N.ltb_lt in R. unfold two32. rewrite R. reflexivity.
Qed.

Lemma extract_trim_iff e n : extract_value (trim e) = Some n <-> Doc.leading_padded e n.
Proof.
  rewrite extract_iff. unfold Doc.leading_padded. split.
  - intros (z & rest & E & R & TX). destruct (trim_trimmed e) as (a & b & EE & A & B & _ & _).
    exists a, (trim e ++ b). split; [exact EE|]. split; [exact A|].
    exists z, (rest ++ b). rewrite E, <- !app_assoc. split; [reflexivity|]. split; [exact R|].
    apply text_ok_head. apply text_ok_head in TX. destruct rest as [|c r]; [|exact TX].
    destruct b as [|c r]; [exact I|]. unfold Doc.blank in B. cbn [forallb] in B.
    apply andb_true_iff in B as [B _]. apply ws_not_alnum, B.
  - intros (pad & e' & -> & P & z & rest & -> & R & TX).
    set (D := repeat 48 z ++ print_nat n).
    assert (DD : forallb is_digit D = true) by (unfold D; rewrite forallb_app, print_nat_digits, forallb_repeat; reflexivity).
    assert (DN : D <> []) by (unfold D; intro E; apply app_eq_nil in E as [_ E]; apply print_nat_nonempty in E; exact E).
    destruct D as [|d ds] eqn:DE; [congruence|].
    assert (DW : uni_ws d = false).
    { cbn [forallb] in DD. apply andb_true_iff in DD as [D0 _]. apply digit_not_ws, D0. }
    destruct (rev (d :: ds)) as [|x D'] eqn:RV.
    { apply (f_equal (@rev N)) in RV. rewrite rev_involutive in RV. discriminate. }
    assert (XW : uni_ws x = false).
    { rewrite <- forallb_rev, RV in DD. cbn [forallb] in DD. apply andb_true_iff in DD as [D0 _]. apply digit_not_ws, D0. }
    assert (TR : trim (pad ++ repeat 48 z ++ print_nat n ++ rest) = (d :: ds) ++ trim_end rest).
    { rewrite (app_assoc (repeat 48 z)). fold D. rewrite DE. unfold trim, trim_start. cbn [app].
      rewrite (drop_while_stop uni_ws pad d _ P DW). change (d :: ds ++ rest) with ((d :: ds) ++ rest).
      apply (trim_end_keep _ _ x D' RV XW). }
    rewrite TR, <- DE. unfold D. exists z, (trim_end rest). rewrite <- app_assoc.
    split; [reflexivity|]. split; [exact R|].
    apply text_ok_head. apply text_ok_head in TX. destruct (trim_end_prefix rest) as (w & W).
    destruct (trim_end rest) as [|c r]; [exact I|]. rewrite W in TX. exact TX.
Qed.

Lemma all_some_Forall2 {A B} (f : A -> option B) l : forall r,
  all_some (map f l) = Some r <-> Forall2 (fun a b => f a = Some b) l r.
Proof.
  induction l as [|a l IH]; intro r; cbn [map all_some].
  - split; [intro H; inversion H; constructor|intro H; inversion H; reflexivity].
  - destruct (f a) as [b|] eqn:E.
    + destruct (all_some (map f l)) as [r'|] eqn:AS.
      * split; [intro H; inversion H; subst; constructor; [exact E|apply IH; reflexivity]|].
        intro H. inversion H; subst. apply IH in H4. inversion H4; subst. congruence.
      * split; [discriminate|]. intro H. inversion H; subst. apply IH in H4. discriminate.
    + split; [discriminate|]. intro H. inversion H; subst. congruence.
Qed.

Lemma all_some_none {A B} (f : A -> option B) l :
  all_some (map f l) = None <-> exists a, In a l /\ f a = None.
Proof.
  induction l as [|a l IH]; cbn [map all_some In].
  - split; [discriminate|intros (a & [] & _)].
  - destruct (f a) as [b|] eqn:E.
    + destruct (all_some (map f l)) as [r'|] eqn:AS.
      * split; [discriminate|]. intros (x & [<-|I] & N); [congruence|].
        destruct IH as [_ IH]. specialize (IH (ex_intro _ x (conj I N))). discriminate.
      * split; [|reflexivity]. intros _. destruct IH as [IH _]. destruct (IH eq_refl) as (x & I & N).
        exists x. auto.
    + split; [|reflexivity]. intros _. exists a. auto.
Qed.

Lemma Forall2_In_l {A B} (R : A -> B -> Prop) l l' a :
  Forall2 R l l' -> In a l -> exists b, R a b.
Proof.
  induction 1 as [|x y l l' Rxy _ IH]; intros I; [contradiction|].
  destruct I as [<-|I]; [exists y; exact Rxy|apply IH, I].
Qed.

Lemma Forall2_imp {A B} (R1 R2 : A -> B -> Prop) l l' :
  (forall a b, R1 a b -> R2 a b) -> Forall2 R1 l l' -> Forall2 R2 l l'.
Proof. intros H F. induction F; constructor; auto. Qed.

Section ServFinish.
Context {A : Type} (f : A -> option N) (P : A -> N -> Prop).
Hypothesis HP : forall a n, f a = Some n <-> P a n.

Definition serv_finish (es : list A) : option (list N) :=
  match all_some (map f es) with
  | Some l' => if has_dup l' then None else Some l'
  | None => None
  end.

Lemma all_some_P es l : all_some (map f es) = Some l <-> Forall2 P es l.
Proof.
  rewrite all_some_Forall2. split; apply Forall2_imp; intros a b; apply HP.
Qed.

Lemma serv_some es l : serv_finish es = Some l <-> Forall2 P es l /\ NoDup l.
Proof.
  unfold serv_finish. destruct (all_some (map f es)) as [l'|] eqn:AS.
  - apply all_some_P in AS. destruct (has_dup l') eqn:D.
    + split; [discriminate|]. intros (F & ND). apply all_some_P in F, AS. rewrite F in AS. inversion AS; subst.
      apply has_dup_false_iff in ND. congruence.
    + apply has_dup_false_iff in D. split.
      * intro H. inversion H; subst. auto.
      * intros (F & _). apply all_some_P in F, AS. congruence.
  - split; [discriminate|]. intros (F & _). apply all_some_P in F. congruence.
Qed.

Lemma serv_none es :
  serv_finish es = None
  <-> (exists e, In e es /\ forall n, ~ P e n) \/ (exists l, Forall2 P es l /\ ~ NoDup l).
Proof.
  unfold serv_finish. destruct (all_some (map f es)) as [l'|] eqn:AS.
  - pose proof AS as F. apply all_some_P in F. destruct (has_dup l') eqn:D.
    + split; [|reflexivity]. intros _. right. exists l'. split; [exact F|].
      intro ND. apply has_dup_false_iff in ND. congruence.
    + split; [discriminate|]. intros [(e & I & NP)|(l & F' & ND)].
      * destruct (Forall2_In_l _ _ _ _ F I) as (b & Pb). apply NP in Pb. contradiction.
      * apply all_some_P in F'. rewrite F' in AS. inversion AS; subst. apply has_dup_false_iff in D. contradiction.
  - split; [|reflexivity]. intros _. left. apply all_some_none in AS as (a & I & N).
    exists a. split; [exact I|]. intros n Pn. apply HP in Pn. congruence.
Qed.
End ServFinish.

Lemma servings_string_eq pieces :
  pieces <> [] -> Doc.no_sep 124 pieces ->
  value_as_servings (YStr (Doc.join 124 pieces)) = serv_finish (fun e => extract_value (trim e)) pieces.
Proof.
  intros NE NS. unfold value_as_servings, serv_finish, as_u32, as_u64, as_str. cbn [untag].
  rewrite split_on_join by assumption. reflexivity.
Qed.

Definition entry_reads (e : yaml) (n : N) : Prop :=
  as_u32 e = Some n \/ (as_u32 e = None /\ exists s, as_str e = Some s /\ Doc.leading s n).

Lemma serving_entry_iff e n : serving_entry e = Some n <-> entry_reads e n.
Proof.
  unfold serving_entry, entry_reads. destruct (as_u32 e) as [m|].
  - split; [intro H; left; exact H|]. intros [H|(H & _)]; [exact H|discriminate].
  - destruct (as_str e) as [s|].
    + rewrite extract_iff. split; [intro H; right; split; [reflexivity|exists s; auto]|].
      intros [H|(_ & s' & E & L)]; [discriminate|]. inversion E; subst. exact L.
    + split; [discriminate|]. intros [H|(_ & s' & E & _)]; discriminate.
Qed.

Lemma servings_list_eq seq : value_as_servings (YSeq seq) = serv_finish serving_entry seq.
Proof. reflexivity. Qed.

(* ------------------------------------------------------------------ the model's float reader on the
   number texts of the unit reader (digits and points): exact *)

Lemma span_digits_eq s : span_digits s = (take_while is_digit s, drop_while is_digit s).
Proof.
  induction s as [|c r IH]; cbn [span_digits take_while drop_while]; [reflexivity|].
  destruct (is_digit c); [rewrite IH|]; reflexivity.
Qed.

Definition step10 (a c : N) : N := a * 10 + (c - 48).

Lemma pow10_succ n : (pow10 (0 - Z.of_nat (S n)) == pow10 (0 - Z.of_nat n) * (1 # 10))%Q.
Proof.
  unfold pow10. replace (0 - Z.of_nat (S n))%Z with ((0 - Z.of_nat n) + (-1))%Z by lia.
  rewrite Qpower_plus by discriminate. reflexivity.
Qed.

Lemma frac_fold fp : forall a,
  (inject_Z (Z.of_N (fold_left step10 fp a)) * pow10 (0 - Z.of_nat (List.length fp))
   == inject_Z (Z.of_N a) + Doc.frac_value (map (fun c => (c - 48)%N) fp))%Q.
Proof.
  induction fp as [|d r IH]; intro a; cbn [fold_left List.length map Doc.frac_value].
  - change (pow10 (0 - Z.of_nat 0)) with 1%Q. ring.
  - rewrite pow10_succ, Qmult_assoc, IH. unfold step10 at 1.
    rewrite N2Z.inj_add, N2Z.inj_mul, inject_Z_plus, inject_Z_mult.
    change (inject_Z (Z.of_N 10)) with (10 # 1)%Q. field.
Qed.

Lemma dec_val_app ip fp : dec_val (ip ++ fp) = fold_left step10 fp (dec_val ip).
Proof. unfold dec_val. rewrite fold_left_app. reflexivity. Qed.

(* parse_number after the digits, the point and the digits, when nothing follows *)
Definition pn_tail (ip fp : str) : option fval :=
  let mant := dec_val (ip ++ fp) in
  let sc := (0 - Z.of_nat (List.length fp))%Z in
  if mant =? 0 then Some (FFin 0)
  else if (400 <? sc)%Z then Some (FInf false)
  else if (sc + Z.of_nat (List.length (ip ++ fp)) <? -400)%Z then Some (FFin 0)
  else let q := (inject_Z (Z.of_N mant) * pow10 sc)%Q in
       Some (if Qle_bool f64_overflow q then FInf false else FFin q).

Lemma pn_tail_spec ip fp v :
  pn_tail ip fp = Some (FFin v) ->
  (v == inject_Z (Z.of_N (Doc.digits_value ip)) + Doc.frac_value (map (fun c => (c - 48)%N) fp))%Q.
Proof.
  unfold pn_tail. pose proof (frac_fold fp (dec_val ip)) as FF. rewrite <- dec_val_app in FF.
  change (Doc.digits_value ip) with (dec_val ip).
  destruct (dec_val (ip ++ fp) =? 0) eqn:Z.
  - apply N.eqb_eq in Z. rewrite Z in FF. intro H. inversion H. rewrite <- FF. ring.
  - destruct (400 <? 0 - Z.of_nat (List.length fp))%Z; [discriminate|].
    destruct (0 - Z.of_nat (List.length fp) + Z.of_nat (List.length (ip ++ fp)) <? -400)%Z eqn:U.
    + apply Z.ltb_lt in U. rewrite app_length in U. lia.
    + cbv zeta.
      destruct (Qle_bool f64_overflow (inject_Z (Z.of_N (dec_val (ip ++ fp))) * pow10 (0 - Z.of_nat (List.length fp)))%Q);
        [discriminate|]. intro H. inversion H. exact FF.
Qed.

Lemma num_char_nondigit c : num_char c = true -> is_digit c = false -> c = 46.
Proof. unfold num_char. intros H D. rewrite D in H. apply N.eqb_eq in H. exact H. Qed.

Lemma parse_number_decimal s v :
  forallb num_char s = true -> parse_number s = Some (FFin v) -> Doc.decimal s v.
Proof.
  intros NC. unfold parse_number. rewrite span_digits_eq.
  pose proof (take_drop_while is_digit s) as SD. pose proof (take_while_forall is_digit s) as DI.
  set (ip := take_while is_digit s) in *.
  destruct (drop_while is_digit s) as [|c r] eqn:R1.
  - rewrite app_nil_r in SD. intro H.
    assert (T : pn_tail ip [] = Some (FFin v)).
    { destruct (ip ++ []) eqn:E; [discriminate|]. rewrite <- E in H. exact H. }
    exists ip, []. split; [left; auto|]. split; [exact DI|]. split; [reflexivity|].
    split; [destruct (ip ++ []) eqn:E; [discriminate|discriminate]|apply pn_tail_spec, T].
  - assert (C : c = 46).
    { apply num_char_nondigit; [|apply drop_while_head in R1; exact R1].
      rewrite SD, forallb_app in NC. apply andb_true_iff in NC as [_ NC]. cbn [forallb] in NC.
      apply andb_true_iff in NC as [NC _]. exact NC. }
    subst c. change (46 =? 46) with true. cbv iota. rewrite span_digits_eq.
    pose proof (take_drop_while is_digit r) as SR. pose proof (take_while_forall is_digit r) as DF.
    set (fp := take_while is_digit r) in *.
    destruct (drop_while is_digit r) as [|c2 r2] eqn:R2.
    + rewrite app_nil_r in SR. intro H.
      assert (T : pn_tail ip fp = Some (FFin v) /\ ip ++ fp <> []).
      { destruct (ip ++ fp) eqn:E; [discriminate|]. rewrite <- E in H. split; [exact H|discriminate]. }
      exists ip, fp. split; [right; rewrite SD, <- SR; reflexivity|]. split; [exact DI|]. split; [exact DF|].
      split; [apply T|apply pn_tail_spec, T].
    + assert (C2 : c2 = 46).
      { apply num_char_nondigit; [|apply drop_while_head in R2; exact R2].
        rewrite SD, forallb_app in NC. apply andb_true_iff in NC as [_ NC]. cbn [forallb] in NC.
        apply andb_true_iff in NC as [_ NC]. rewrite SR, forallb_app in NC.
        apply andb_true_iff in NC as [_ NC]. cbn [forallb] in NC. apply andb_true_iff in NC as [NC _]. exact NC. }
      subst c2. change (lower 46 =? 101) with false. cbv iota.
      destruct (ip ++ fp); discriminate.
Qed.

Lemma parse_f64_decimal s v :
  forallb num_char s = true -> parse_f64 s = Some (FFin v) -> Doc.decimal s v.
Proof.
  intros NC. unfold parse_f64. destruct s as [|c r] eqn:E; [discriminate|]. rewrite <- E in *.
  assert (C : (c =? 45) = false /\ (c =? 43) = false).
  { rewrite E in NC. cbn [forallb] in NC. apply andb_true_iff in NC as [NC _]. unfold num_char in NC.
    apply orb_true_iff in NC as [D|D].
    - split; apply digit_not; (exact D || lia).
    - apply N.eqb_eq in D. subst c. split; reflexivity. }
  destruct C as (C1 & C2). rewrite C1, C2.
  destruct s as [|c' r'] eqn:E'; [discriminate|]. rewrite <- E' in *.
  destruct (parse_number s) as [w|] eqn:P.
  - cbn [fneg]. intro H. inversion H; subst w. apply parse_number_decimal; assumption.
  - destruct (str_eqb (map lower s) s_nan); [discriminate|].
    destruct (str_eqb (map lower s) s_inf || str_eqb (map lower s) s_infinity); discriminate.
Qed.
