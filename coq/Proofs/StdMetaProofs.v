(* Proofs about Model/StdMeta.v (statements are collected in Properties/C13.v). *)
From Coq Require Import String Ascii.
From CL Require Import Base.StrLemmas Model.StdMeta.
Open Scope N_scope.

(* string literals as lists of code points (ASCII only; proofs and examples) *)
Definition lit (s : string) : str := map N_of_ascii (list_ascii_of_string s).

Definition no_alpha (x : N) : bool := is_ascii_alpha x.

(* ------------------------------------------------------------------ witnesses
   of the defects of the code as found (cfg_old), debug and release builds *)

Lemma hm_mul_overflow_debug :
  parse_time parse_f64 (cfg_old true) [] (lit "99999999h") = Panic site_hm_mul.
Proof. vm_compute. reflexivity. Qed.

Lemma hm_mul_overflow_release :
  parse_time parse_f64 (cfg_old false) [] (lit "99999999h") = Done (Some 1705032644).
Proof. vm_compute. reflexivity. Qed.

Lemma hm_add_overflow_debug :
  parse_time parse_f64 (cfg_old true) [] (lit "71582788h16m") = Panic site_hm_add.
Proof. vm_compute. reflexivity. Qed.

Lemma hm_add_overflow_release :
  parse_time parse_f64 (cfg_old false) [] (lit "71582788h16m") = Done (Some 0).
Proof. vm_compute. reflexivity. Qed.

Lemma cast_negative : parse_time parse_f64 (cfg_old true) [] (lit "-5") = Done (Some 0).
Proof. vm_compute. reflexivity. Qed.
Lemma cast_nan : parse_time parse_f64 (cfg_old true) [] (lit "nan") = Done (Some 0).
Proof. vm_compute. reflexivity. Qed.
Lemma cast_inf : parse_time parse_f64 (cfg_old true) [] (lit "inf") = Done (Some u32_max).
Proof. vm_compute. reflexivity. Qed.
Lemma cast_1e10 : parse_time parse_f64 (cfg_old true) [] (lit "1e10") = Done (Some u32_max).
Proof. vm_compute. reflexivity. Qed.
Lemma cast_units : parse_time parse_f64 (cfg_old true) [] (lit "99999999999 h") = Done (Some u32_max).
Proof. vm_compute. reflexivity. Qed.

Lemma total_overflow_debug :
  total (cfg_old true) (TComposed (Some 4294967295) (Some 1)) = Panic site_total_sum.
Proof. vm_compute. reflexivity. Qed.
Lemma total_overflow_release :
  total (cfg_old false) (TComposed (Some 4294967295) (Some 1)) = Done 0.
Proof. vm_compute. reflexivity. Qed.

Lemma url_not_validated :
  nu_parse is_ascii_alpha (cfg_old true) (lit "Rachel <foo>") = (Some (lit "Rachel"), Some (lit "foo")).
Proof. vm_compute. reflexivity. Qed.

Lemma blank_is_zero : parse_time parse_f64 (cfg_old true) [] (lit " ") = Done (Some 0).
Proof. vm_compute. reflexivity. Qed.

(* ------------------------------------------------------------------ no panic
   once the arithmetic is checked *)

Ltac walk H :=
  repeat match type of H with
  | (if ?b then _ else _) = _ => destruct b eqn:?
  | (match ?e with _ => _ end) = _ => destruct e eqn:?
  end.

Lemma common_loop_total c pieces tot hf :
  fix_hm c = true -> exists r, common_loop c pieces tot hf = Done r.
Proof.
  intro F. revert tot hf. induction pieces as [|p rest IH]; intros tot hf; cbn [common_loop].
  - eauto.
  - rewrite F.
    destruct (last_is p 104 && negb hf).
    + destruct (parse_u32 (removelast p)); [|eauto].
      destruct ((n * 60 <? two32) && (tot + n * 60 <? two32)); [apply IH|eauto].
    + destruct (last_is p 109); [|eauto].
      destruct (parse_u32 (removelast p)); [|eauto].
      destruct (tot + n <? two32); [|eauto]. destruct rest; eauto.
Qed.

Lemma parse_common_total c s : fix_hm c = true -> exists r, parse_common c s = Done r.
Proof. intro F. unfold parse_common. destruct s; [eauto|]. apply common_loop_total, F. Qed.

Lemma parse_time_total pf c cv s : fix_hm c = true -> exists r, parse_time pf c cv s = Done r.
Proof.
  intro F. unfold parse_time. destruct (if fix_blank c then trim s else s); [eauto|].
  destruct (parse_common_total c s F) as [r ->]. cbn [obind].
  destruct r; [eauto|]. destruct (parse_with_units pf c cv s); [eauto|].
  destruct (pf s); eauto.
Qed.

Lemma value_as_minutes_total pf c cv v :
  fix_hm c = true -> exists r, value_as_minutes pf c cv v = Done r.
Proof.
  intro F. unfold value_as_minutes. destruct (as_str v).
  - destruct (parse_time_total pf c cv s F) as [r ->]. cbn [obind]. eauto.
  - destruct (as_u32 v); eauto.
Qed.

Lemma opt_minutes_total pf c cv o :
  fix_hm c = true -> exists r, opt_minutes pf c cv o = Done r.
Proof.
  intro F. unfold opt_minutes. destruct o; [|eauto].
  destruct (value_as_minutes_total pf c cv y F) as [r ->]. cbn [obind]. eauto.
Qed.

Lemma value_as_time_total pf c cv v :
  fix_hm c = true -> exists r, value_as_time pf c cv v = Done r.
Proof.
  intro F. unfold value_as_time.
  destruct (value_as_minutes_total pf c cv v F) as [r ->]. cbn [obind].
  destruct r; eauto. destruct (as_mapping v); [|eauto].
  destruct (opt_minutes_total pf c cv (map_get l k_prep) F) as [p ->]. cbn [obind].
  destruct p; eauto.
  destruct (opt_minutes_total pf c cv (map_get l k_cook) F) as [k ->]. cbn [obind].
  destruct k; eauto.
Qed.

Lemma total_new c t : fix_total c = true -> exists n, total c t = Done n.
Proof. intro F. unfold total. destruct t; [eauto|]. rewrite F. eauto. Qed.

(* RecipeTime::total after the repair: the sum when it fits, else u32::MAX *)
Lemma total_spec c p k :
  fix_total c = true ->
  let a := match p with Some x => x | None => 0 end in
  let b := match k with Some x => x | None => 0 end in
  total c (TComposed p k) = Done (N.min (a + b) u32_max).
Proof.
  intros F a b. unfold total. rewrite F. fold a b. f_equal.
  unfold two32, u32_max. destruct (a + b <? 4294967296) eqn:E.
  - apply N.ltb_lt in E. lia.
  - apply N.ltb_ge in E. lia.
Qed.

(* ------------------------------------------------------------------ the parse-time
   check refuses exactly what the accessor refuses *)

(* the accessor a user of the key calls, as "returns nothing" *)
Definition accessor_none pf alpha c (k : stdkey) cv v : Prop :=
  match k with
  | KServings => value_as_servings v = None
  | KTags => value_as_tags v = None
  | KTime => as_time pf c cv v = Done None
  | KPrepTime | KCookTime => as_minutes pf c cv v = Done None
  | KTitle | KDescription => as_str v = None
  | KLocale => value_as_locale v = None
  | KAuthor | KSource => as_name_and_url alpha c v = None
  | _ => False
  end.

Lemma negb_is_some_none {A} (o : option A) : negb (is_some o) = true <-> o = None.
Proof. destruct o; cbn; split; congruence. Qed.

Lemma warning_iff_none pf alpha c k cv v :
  fix_hm c = true ->
  exists w r, check_std_entry pf alpha c k cv v = Done (w, r)
              /\ (w = true <-> accessor_none pf alpha c k cv v)
              /\ (r <> None -> k = KServings /\ w = false /\ r = value_as_servings v).
Proof.
  intro F. destruct k; cbn [check_std_entry accessor_none];
    try (eexists _, _; split; [reflexivity|]; split; [apply negb_is_some_none | congruence]);
    try (eexists _, _; split; [reflexivity|]; split; [split; [discriminate|tauto] | congruence]).
  - (* time *)
    unfold as_time, omap. destruct (value_as_time_total pf c cv v F) as [r ->]. cbn [obind].
    eexists _, _; split; [reflexivity|]. split; [|congruence].
    rewrite negb_is_some_none. split; congruence.
  - unfold as_minutes, omap. destruct (value_as_minutes_total pf c cv v F) as [r ->]. cbn [obind].
    eexists _, _; split; [reflexivity|]. split; [|congruence].
    rewrite negb_is_some_none. split; congruence.
  - unfold as_minutes, omap. destruct (value_as_minutes_total pf c cv v F) as [r ->]. cbn [obind].
    eexists _, _; split; [reflexivity|]. split; [|congruence].
    rewrite negb_is_some_none. split; congruence.
  - (* servings *)
    eexists _, _; split; [reflexivity|]. split; [apply negb_is_some_none|].
    intros H. repeat split. destruct (value_as_servings v); [reflexivity|congruence].
Qed.
