(* C02: parser half and analysis half put together.  For a source of the class [core_doc] the
   event stream is the same under any two extension words (Proofs/C02Wide.v); if the bridged
   stream (Model/EventBridge.v) is quiet, analysing it gives the same recipe, validity and
   output flag under any two extension records (Proofs/C02AnalyseInv.v). *)
From CL Require Import Base.StrLemmas Model.Parser Model.EventBridge Proofs.C02Invariance Proofs.C02Wide.
From CL Require Model.Analysis Proofs.C02AnalyseInv.

Theorem pipeline_invariant
    (U : N -> ucls) (cfg : pcfg) (e1 e2 : N) (s : str) (evs : list pevent)
    (ci_key : str -> str) (yaml_ok : str -> bool) (find_iq : str -> option (str * str))
    (unit_class : str -> N) (input : str) (acfg : CL.Model.Analysis.acfg) (x1 x2 : CL.Model.Analysis.aext) :
  core_doc U cfg s = true ->
  events U (with_ext cfg e1) s = Done evs ->
  forallb (CL.Proofs.C02AnalyseInv.quiet_event find_iq unit_class) (abstract_events evs) = true ->
  events U (with_ext cfg e2) s = Done evs
  /\ CL.Model.Analysis.analyse ci_key yaml_ok find_iq unit_class input x1 acfg (abstract_events evs)
     = CL.Model.Analysis.analyse ci_key yaml_ok find_iq unit_class input x2 acfg (abstract_events evs).
Proof.
  intros Hc He Hq. split.
  - rewrite <- (events_invariant U cfg e1 e2 s Hc). exact He.
  - apply CL.Proofs.C02AnalyseInv.analyse_quiet. exact Hq.
Qed.

(* the extension record the analysis pass reads off an extension word (event_consumer.rs 352,
   518, 639, 988) *)
Definition aext_of (e : N) : CL.Model.Analysis.aext :=
  {| CL.Model.Analysis.x_modes := ext_has e X_MODES;
     CL.Model.Analysis.x_inline := ext_has e X_INLINE_QUANTITIES;
     CL.Model.Analysis.x_advanced := ext_has e X_ADVANCED_UNITS |}.

(* the part of quietness that depends on the converter (an oracle): step texts without a
   number+known-unit phrase, timers with a number and a time unit *)
Definition oracle_quiet (find_iq : str -> option (str * str)) (unit_class : str -> N)
    (evs : list CL.Model.Events.event) : bool :=
  forallb (fun e => match e with
                    | CL.Model.Events.EText _ | CL.Model.Events.ETimer _ =>
                        CL.Proofs.C02AnalyseInv.quiet_event find_iq unit_class e
                    | _ => true
                    end) evs.
