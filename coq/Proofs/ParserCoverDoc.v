(* Coverage of a whole document (C05): the block splitter hands every content token of the
   cooklang part to some block (what it drops is white space, comments and line ends), every
   block covers its non-blank content tokens (Proofs/ParserCoverBlock.v), so every such token
   of the cooklang part of the input lies inside the span of an event of [events]. *)
From CL Require Import Base.StrLemmas Model.Lexer Model.CommentMask Model.Parser
  Proofs.LexerProofs Proofs.ParserSeg Proofs.ParserSplit Proofs.ParserFM
  Proofs.ParserCover Proofs.ParserCoverFrame Proofs.ParserCoverBlock.

(* ------------------------------------------------------------------ the splitter keeps content *)

Lemma empty_tok_no_content k : is_empty_tok k = true -> content_kind k = false.
Proof. destruct k; try discriminate; reflexivity. Qed.

Lemma line_is_empty_no_content l t :
  line_is_empty l = true -> In t l -> content_kind (kind t) = false.
Proof.
  intros H Hi. unfold line_is_empty in H. rewrite forallb_forall in H. apply empty_tok_no_content, H, Hi.
Qed.

Lemma more_lines_content fuel : forall ts m r,
  more_lines fuel ts = (m, r) -> forall t, In t ts -> content_kind (kind t) = true -> In t m \/ In t r.
Proof.
  induction fuel as [|f IH]; intros ts m r H t Hi Hc; cbn [more_lines] in H.
  - injection H as <- <-. right. exact Hi.
  - destruct (is_single_line_marker ts); [injection H as <- <-; right; exact Hi|].
    destruct ts as [|t0 ts0] eqn:Ets; [destruct Hi|]. rewrite <- Ets in *.
    destruct (pull_line ts) as [l r0] eqn:El. pose proof (pull_line_app _ _ _ El) as Ea.
    rewrite Ea in Hi. apply in_app_or in Hi as [Hi|Hi].
    + destruct (line_is_empty l) eqn:Ee.
      * rewrite (line_is_empty_no_content _ _ Ee Hi) in Hc. discriminate.
      * destruct (more_lines f r0) as [m' r']. injection H as <- <-. left. apply in_or_app. left. exact Hi.
    + destruct (line_is_empty l).
      * injection H as <- <-. right. exact Hi.
      * destruct (more_lines f r0) as [m' r'] eqn:Em. injection H as <- <-.
        destruct (IH _ _ _ Em t Hi Hc) as [A|A]; [left; apply in_or_app; right; exact A|right; exact A].
Qed.

Lemma strip_keeps rl t : In t rl -> kind t <> KNewline -> In t (strip_trailing_newlines rl).
Proof.
  induction rl as [|u rl IH]; intros Hi Hk; [destruct Hi|]. cbn [strip_trailing_newlines].
  destruct (tk_eqb (kind u) KNewline) eqn:E; [|exact Hi].
  destruct Hi as [->|Hi]; [apply tk_eqb_true in E; contradiction|apply IH; assumption].
Qed.

Lemma strip_rev_keeps x t : In t x -> kind t <> KNewline -> In t (rev (strip_trailing_newlines (rev x))).
Proof. intros Hi Hk. apply -> in_rev. apply strip_keeps; [apply -> in_rev; exact Hi|exact Hk]. Qed.

Lemma content_not_newline t : content_kind (kind t) = true -> kind t <> KNewline.
Proof. intros H E. rewrite E in H. discriminate. Qed.

Theorem next_block_content fuel : forall ts blk r,
  next_block fuel ts = Some (blk, r) ->
  forall t, In t ts -> content_kind (kind t) = true -> In t blk \/ In t r.
Proof.
  induction fuel as [|f IH]; intros ts blk r H t Hi Hc; cbn [next_block] in H; [discriminate|].
  destruct ts as [|t0 ts0] eqn:Ets; [discriminate|]. rewrite <- Ets in *.
  destruct (pull_line ts) as [l r0] eqn:El. pose proof (pull_line_app _ _ _ El) as Ea.
  destruct (line_is_empty l) eqn:Ee.
  - rewrite Ea in Hi. apply in_app_or in Hi as [Hi|Hi].
    + rewrite (line_is_empty_no_content _ _ Ee Hi) in Hc. discriminate.
    + eapply IH; eassumption.
  - cbv zeta in H.
    destruct (if is_single_line_marker l then ([], r0) else more_lines (S (length r0)) r0) as [m r'] eqn:Em.
    destruct (rev (strip_trailing_newlines (rev (l ++ m)))) as [|b0 br] eqn:Eb; [discriminate|].
    injection H as <- <-. rewrite <- Eb.
    assert (Hlm : In t (l ++ m) \/ In t r').
    { rewrite Ea in Hi. apply in_app_or in Hi as [Hi|Hi]; [left; apply in_or_app; left; exact Hi|].
      destruct (is_single_line_marker l).
      - injection Em as <- <-. right. exact Hi.
      - destruct (more_lines_content _ _ _ _ Em t Hi Hc) as [A|A]; [left; apply in_or_app; right; exact A|right; exact A]. }
    destruct Hlm as [A|A]; [left|right; exact A].
    apply strip_rev_keeps; [exact A|apply content_not_newline; exact Hc].
Qed.

Lemma line_not_empty_witness l : line_is_empty l = false -> exists x, In x l /\ kind x <> KNewline.
Proof.
  induction l as [|u l IH]; intro H; [discriminate|]. unfold line_is_empty in *. cbn [forallb] in H.
  destruct (is_empty_tok (kind u)) eqn:E.
  - destruct (IH H) as (x & A & B). exists x. split; [right; exact A|exact B].
  - exists u. split; [left; reflexivity|]. intro Hk. rewrite Hk in E. discriminate.
Qed.

Theorem next_block_none fuel : forall ts,
  (length ts < fuel)%nat -> next_block fuel ts = None ->
  forall t, In t ts -> content_kind (kind t) = false.
Proof.
  induction fuel as [|f IH]; intros ts Hl H t Hi; [lia|]. cbn [next_block] in H.
  destruct ts as [|t0 ts0] eqn:Ets; [destruct Hi|]. rewrite <- Ets in *.
  assert (Hne : ts <> []) by (rewrite Ets; discriminate).
  destruct (pull_line ts) as [l r0] eqn:El. pose proof (pull_line_app _ _ _ El) as Ea.
  pose proof (pull_line_length _ _ _ El Hne) as Hlen.
  destruct (line_is_empty l) eqn:Ee.
  - rewrite Ea in Hi. apply in_app_or in Hi as [Hi|Hi].
    + eapply line_is_empty_no_content; eassumption.
    + eapply (IH r0); [lia|exact H|exact Hi].
  - exfalso. cbv zeta in H.
    destruct (if is_single_line_marker l then ([], r0) else more_lines (S (length r0)) r0) as [m r'] eqn:Em.
    destruct (line_not_empty_witness _ Ee) as (x & Hx & Hk).
    assert (Hin : In x (rev (strip_trailing_newlines (rev (l ++ m))))).
    { apply strip_rev_keeps; [apply in_or_app; left; exact Hx|exact Hk]. }
    destruct (rev (strip_trailing_newlines (rev (l ++ m)))); [destruct Hin|discriminate].
Qed.

(* ------------------------------------------------------------------ all blocks *)

Section Doc.
  Variable src : str.
  Variable cfg : pcfg.

  Theorem blocks_loop_cov fuel : forall ts off en old evs evs',
    seg src off ts en -> blocks_loop cfg fuel ts old evs = Done evs' ->
    (exists es, evs' = es ++ evs) /\ forall t, In t ts -> good t -> covered evs' t.
  Proof.
    induction fuel as [|f IH]; intros ts off en old evs evs' Hs H; cbn [blocks_loop] in H; [discriminate|].
    destruct (next_block (S (length ts)) ts) as [[blk r]|] eqn:En.
    - destruct (run_block blk evs (parse_block cfg old)) as [evs1|] eqn:Er; cbn [obind] in H; [|discriminate].
      destruct (next_block_seg src _ _ _ _ _ _ Hs En) as (_ & _ & (a & b & Hb) & (c & Hr)).
      destruct (run_block_cov src cfg _ _ _ _ _ _ Hb Er) as ((es1 & E1) & C1).
      destruct (IH _ _ _ _ _ _ Hr H) as ((es2 & E2) & C2).
      split; [exists (es2 ++ es1); rewrite E2, E1, app_assoc; reflexivity|].
      intros t Hi Hg. destruct (next_block_content _ _ _ _ En t Hi (good_content _ Hg)) as [A|A].
      + eapply covered_mono; [|apply C1; assumption]. intros e He. rewrite E2. apply in_or_app. right. exact He.
      + apply C2; assumption.
    - injection H as <-. split; [exists []; reflexivity|].
      intros t Hi Hg. pose proof (next_block_none _ _ (Nat.lt_succ_diag_r _) En t Hi) as Hc.
      rewrite (good_content _ Hg) in Hc. discriminate.
  Qed.
End Doc.

(* ------------------------------------------------------------------ the document *)

(* the tokens of the cooklang part of the input: after the front matter if there is one,
   at their byte offsets in the whole input *)
Definition cook_tokens (U : N -> ucls) (cfg : pcfg) (s : str) : option (list tok) :=
  match parse_frontmatter cfg s with
  | Some fm => lex_at U (cook_text fm) (cook_off fm)
  | None => lex_at U s 0
  end.

Lemma covered_rev evs t : covered evs t -> covered (rev evs) t.
Proof. apply covered_mono. intros e He. apply -> in_rev. exact He. Qed.

Theorem events_cover (U : N -> ucls) (cfg : pcfg) (s : str) evs ts :
  events U cfg s = Done evs -> cook_tokens U cfg s = Some ts ->
  forall t, In t ts -> good t -> covered evs t.
Proof.
  unfold events, cook_tokens. intros H Ht t Hi Hg.
  destruct (parse_frontmatter cfg s) as [fm|] eqn:Ef.
  - rewrite Ht in H. destruct (blocks_loop _ _ _ _ _) as [evs0|] eqn:Eb; cbn [obind] in H; [|discriminate].
    injection H as <-. apply covered_rev.
    destruct (parse_frontmatter_located _ _ _ Ef) as ((pre & Es & Hp) & _).
    pose proof (lex_at_seg U _ _ _ pre Ht Hp) as Hs. rewrite <- Es in Hs.
    destruct (blocks_loop_cov s cfg _ _ _ _ _ _ _ Hs Eb) as (_ & C). apply C; assumption.
  - rewrite Ht in H. destruct (blocks_loop _ _ _ _ _) as [evs0|] eqn:Eb; cbn [obind] in H; [|discriminate].
    injection H as <-. apply covered_rev.
    pose proof (lex_at_seg U _ _ _ [] Ht eq_refl) as Hs. cbn [app] in Hs.
    destruct (blocks_loop_cov s cfg _ _ _ _ _ _ _ Hs Eb) as (_ & C). apply C; assumption.
Qed.

(* the front matter event is there and spans the YAML text *)
Theorem events_yaml (U : N -> ucls) (cfg : pcfg) (s : str) evs fm :
  events U cfg s = Done evs -> parse_frontmatter cfg s = Some fm ->
  In (EvYaml (text_from_str (yaml_text fm) (yaml_off fm))) evs.
Proof.
  unfold events. intros H Ef. rewrite Ef in H.
  destruct (lex_at U (cook_text fm) (cook_off fm)) as [ts|] eqn:Et; [|discriminate].
  destruct (blocks_loop _ _ _ _ _) as [evs0|] eqn:Eb; cbn [obind] in H; [|discriminate].
  injection H as <-. apply -> in_rev.
  destruct (parse_frontmatter_located _ _ _ Ef) as ((pre & Es & Hp) & _).
  pose proof (lex_at_seg U _ _ _ pre Et Hp) as Hs. rewrite <- Es in Hs.
  destruct (blocks_loop_cov s cfg _ _ _ _ _ _ _ Hs Eb) as ((es & E) & _).
  rewrite E. apply in_or_app. right. left. reflexivity.
Qed.
