(* Property C17: the link between the lexer-level edit theorems (Proofs/EditProofs.v) and the
   parser-level ones (Proofs/EditParserProofs.v); the hypotheses on the character
   classification for the classification dumped from the implementation (Gen/CharClass.v,
   regenerated on every run); the fence test of the front matter. *)
From CL Require Import Base.StrLemmas Model.Lexer Model.PText Model.CommentMask Model.Parser Model.Edits
  Proofs.LexerProofs Proofs.MaskProofs Proofs.MaskGen Proofs.EditProofs Proofs.EditParserProofs Gen.CharClass.

(* ---------------------------------------------------------------- tsim *)
Lemma tsim_refl ts : tsim ts ts.
Proof. induction ts as [|t r IH]; [constructor | apply tsim_same; [reflexivity | reflexivity | exact IH]]. Qed.

Lemma tsim_shift n ts : tsim ts (shift n ts).
Proof. induction ts as [|t r IH]; [constructor | apply tsim_same; [reflexivity | reflexivity | exact IH]]. Qed.

Lemma tsim_app a a' b b' : tsim a a' -> tsim b b' -> tsim (a ++ b) (a' ++ b').
Proof.
  intros H1 H2. induction H1; cbn [app];
    [exact H2 | apply tsim_same | apply tsim_newline | apply tsim_comment_l | apply tsim_comment_r]; assumption.
Qed.

(* the tokens of a CRLF-converted source are [tsim] to the tokens of the source *)
Lemma crlf_rel_tsim ts ts' : Forall2 crlf_tok_rel ts ts' -> tsim ts ts'.
Proof.
  induction 1 as [|t t' r r' [Hk Hs] _ IH]; [constructor|].
  destruct (kind t) eqn:K;
    try (apply tsim_same; [congruence | symmetry; exact Hs | exact IH]).
  - apply tsim_newline; [exact K | congruence | exact IH].
  - apply tsim_comment_l; [rewrite K; reflexivity|]. apply tsim_comment_r; [rewrite Hk; reflexivity | exact IH].
  - apply tsim_comment_l; [rewrite K; reflexivity|]. apply tsim_comment_r; [rewrite Hk; reflexivity | exact IH].
Qed.

Lemma crlf_rel_nonempty ts ts' :
  Forall2 crlf_tok_rel ts ts' -> Forall (fun t => tstr t <> []) ts -> Forall (fun t => tstr t <> []) ts'.
Proof.
  induction 1 as [|t t' r r' [Hk Hs] _ IH]; intro F; [constructor|].
  inversion F; subst. constructor; [|apply IH; assumption].
  destruct (kind t); try (rewrite Hs; assumption).
  - destruct Hs as [-> | ->]; discriminate.
  - destruct Hs as [-> | ->]; [assumption|]. destruct (tstr t); discriminate.
  - rewrite Hs. destruct (tstr t) as [|x y]; [congruence|]. unfold crlf. cbn [crlf_from].
    destruct ((x =? 10) && negb false); discriminate.
Qed.

Lemma crlf_rel_newline_ok ts ts' : Forall2 crlf_tok_rel ts ts' -> Forall newline_ok ts'.
Proof.
  induction 1 as [|t t' r r' [Hk Hs] _ IH]; constructor; [|exact IH].
  intro K. rewrite Hk in K. rewrite K in Hs. destruct Hs as [-> | ->]; [right | left]; reflexivity.
Qed.

(* a comment token inserted between two token lists *)
Lemma tsim_insert_comment ta tb cm n : is_comment (kind cm) = true -> tsim (ta ++ tb) (ta ++ [cm] ++ shift n tb).
Proof.
  intro H. apply tsim_app; [apply tsim_refl|]. cbn [app]. apply tsim_comment_r; [exact H | apply tsim_shift].
Qed.

(* ---------------------------------------------------------------- the dumped classification *)
Lemma gen_eol_breaks : forall c, (c =? 10) || (c =? 13) = true -> is_word_char U c = false /\ is_lex_ws U c = false.
Proof.
  intros c H. apply orb_true_iff in H as [H|H]; apply N.eqb_eq in H; subst; vm_compute; split; reflexivity.
Qed.

Lemma gen_blank_ws : is_lex_ws U 32 = true /\ is_word_char U 32 = false.
Proof. vm_compute. split; reflexivity. Qed.

(* ---------------------------------------------------------------- the front matter fence *)
Lemma trim_end_ws_blank w : forallb uni_ws w = true -> trim_end_ws w = [].
Proof.
  induction w as [|c r IH]; intro H; [reflexivity|]. cbn [forallb] in H. apply andb_true_iff in H as [H1 H2].
  cbn [trim_end_ws]. rewrite (IH H2), H1. reflexivity.
Qed.

Lemma trim_end_ws_app_blank l w : forallb uni_ws w = true -> trim_end_ws (l ++ w) = trim_end_ws l.
Proof.
  intro H. induction l as [|c r IH]; [cbn [app]; rewrite (trim_end_ws_blank _ H); reflexivity|].
  cbn [app trim_end_ws]. rewrite IH. reflexivity.
Qed.

(* blanks, tabs, CR, LF after the three dashes do not matter *)
Lemma fence_blind l w : forallb uni_ws w = true -> is_fence (l ++ w) = is_fence l.
Proof. intro H. unfold is_fence. rewrite (trim_end_ws_app_blank _ _ H). reflexivity. Qed.

(* ---------------------------------------------------------------- newline tokens of the lexer *)
Lemma lex_one_newline_str V c r t rest : lex_one V c r = (KNewline, t, rest) -> t = [10] \/ t = [13; 10].
Proof.
  unfold lex_one. intro H.
  destruct (c =? 92). { destruct r; inversion H. }
  destruct (c =? 62). { destruct (next_is 62 r); inversion H. }
  destruct (c =? 45). { destruct (next_is 45 r); [destruct (span_while _ r)|]; inversion H. }
  destruct ((c =? 91) && next_is 45 r). { destruct (block_body (tl r)); inversion H. }
  destruct (c =? 10) eqn:E10. { inversion H; subst. apply N.eqb_eq in E10. subst. left; reflexivity. }
  destruct ((c =? 13) && next_is 10 r) eqn:E.
  { inversion H; subst. apply andb_true_iff in E as [E _]. apply N.eqb_eq in E. subst. right; reflexivity. }
  destruct (is_digit c). { destruct (span_while is_digit r) as [a b]. destruct a; [|destruct (c =? 48)]; inversion H. }
  destruct (single_kind c) eqn:Ek. { inversion H; subst. apply single_kind_not in Ek. destruct Ek. }
  destruct (is_lex_ws V c). { destruct (span_while _ r); inversion H. }
  destruct (u_punct (V c)); [inversion H|]. destruct (span_while _ r); inversion H.
Qed.

Lemma lex_fuel_newline_ok V fuel : forall s off ts, lex_fuel V fuel s off = Some ts -> Forall newline_ok ts.
Proof.
  induction fuel as [|f IH]; intros s off ts H.
  - destruct s; cbn in H; [inversion H; constructor | discriminate].
  - destruct s as [|c r]; cbn [lex_fuel] in H; [inversion H; constructor|].
    destruct (lex_one V c r) as [[k t] rest] eqn:E.
    destruct (lex_fuel V f rest (off + blen t)) as [ts'|] eqn:E'; [|discriminate].
    inversion H; subst. constructor; [|eapply IH; exact E'].
    intro K. cbn [kind tstr] in *. subst k. eapply lex_one_newline_str. exact E.
Qed.

Lemma lex_newline_ok V s off ts : lex_at V s off = Some ts -> Forall newline_ok ts.
Proof. apply lex_fuel_newline_ok. Qed.

Lemma lex_nonempty V s off ts : lex_at V s off = Some ts -> Forall (fun t => tstr t <> []) ts.
Proof. apply lex_fuel_nonempty. Qed.
