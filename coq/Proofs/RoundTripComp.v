(* Round trips of components (C01, part 2): the three component parsers on printed components. *)
From CL Require Import Base.StrLemmas Model.Lexer Model.Parser Proofs.LexerProofs Proofs.ParserGates.
From CL Require Import Model.Printer Proofs.RoundTrip.

(* ---------------------------------------------------------------- primitives on states *)
Lemma consume_hit k t R al dn ev :
  kind t = k -> consume k (St al dn (t :: R) ev) = Done (Some t, St al (t :: dn) R ev).
Proof.
  intro H. unfold consume, bind, at_kind, peek_of. cbn [b_rest St]. rewrite H, tk_eqb_refl.
  unfold bump_any, bind, next_token. cbn [b_rest b_all b_done b_evs St]. reflexivity.
Qed.

Lemma consume_miss k s : tk_eqb (peek_of s) k = false -> consume k s = Done (None, s).
Proof. intro H. unfold consume, bind, at_kind. rewrite H. reflexivity. Qed.

Lemma until_none f A al dn ev :
  forallb (fun x => negb (f (kind x))) A = true -> until f (St al dn A ev) = Done (None, St al dn A ev).
Proof. intro H. unfold until. cbn [b_rest St]. rewrite (position_none f A H). reflexivity. Qed.

(* the first `{`, `@`, `#` or `~` of a token list *)
Fixpoint first_mo (ts : list tok) : tkind :=
  match ts with
  | [] => KEof
  | t :: r => if is_marker_or_open (kind t) then kind t else first_mo r
  end.

Lemma until_mo_split ts :
  first_mo ts = KEof /\ forallb (fun x => negb (is_marker_or_open (kind x))) ts = true \/
  exists A t B, ts = A ++ t :: B /\ forallb (fun x => negb (is_marker_or_open (kind x))) A = true /\
                is_marker_or_open (kind t) = true /\ first_mo ts = kind t.
Proof.
  induction ts as [|t r IH]; [left; split; reflexivity|]. cbn [first_mo forallb].
  destruct (is_marker_or_open (kind t)) eqn:E.
  - right. exists [], t, r. repeat split; auto.
  - destruct IH as [[H1 H2] | (A & t' & B & -> & HA & Ht & Hf)].
    + left. split; [exact H1|exact H2].
    + right. exists (t :: A), t', B. cbn [forallb app]. rewrite E, HA. repeat split; auto.
Qed.

(* comp_body, single-word form: the braces attempt gives up, the word tokens are the name *)
Lemma comp_body_single W x R al dn ev :
  W <> [] -> forallb (fun t => is_single_word_tok (kind t)) W = true ->
  is_single_word_tok (kind x) = false ->
  first_mo (x :: R) <> KOpenBrace ->
  comp_body (St al dn (W ++ x :: R) ev)
  = Done (Some {| bd_name := W; bd_close := None; bd_qty := None |}, St al (rev W ++ dn) (x :: R) ev).
Proof.
  intros HW Hs Hx Hmo. unfold comp_body. unfold bind at 1.
  assert (HWm : forallb (fun t => negb (is_marker_or_open (kind t))) W = true).
  { eapply forallb_impl; [|exact Hs]. intros t Ht. cbv beta in Ht. destruct (kind t); try discriminate Ht; reflexivity. }
  match goal with |- match ?e with _ => _ end = _ =>
    assert (Hfirst : e = Done (None, St al dn (W ++ x :: R) ev)) end.
  { unfold with_recover, obindM at 1, bind at 1.
    destruct (until_mo_split (x :: R)) as [[_ Hall] | (A & t & B & EA & HA & Ht & Hf)].
    - rewrite until_none by (rewrite forallb_app, HWm, Hall; reflexivity). reflexivity.
    - rewrite EA. rewrite app_assoc.
      rewrite (until_stop is_marker_or_open (W ++ A) t B al dn ev) by (rewrite ?forallb_app, ?HWm, ?HA; auto).
      unfold obindM at 1, bind at 1. rewrite consume_miss.
      + reflexivity.
      + unfold peek_of. cbn [b_rest St]. rewrite <- Hf.
        destruct (tk_eqb (first_mo (x :: R)) KOpenBrace) eqn:E; [|reflexivity].
        apply tk_eqb_eq in E. contradiction. }
  rewrite Hfirst. unfold with_recover, bind at 1.
  rewrite (consume_while_stop is_single_word_tok W x R al dn ev Hs Hx).
  destruct W as [|w W']; [contradiction|]. reflexivity.
Qed.

Lemma comp_body_single_end W al dn ev :
  W <> [] -> forallb (fun t => is_single_word_tok (kind t)) W = true ->
  comp_body (St al dn W ev)
  = Done (Some {| bd_name := W; bd_close := None; bd_qty := None |}, St al (rev W ++ dn) [] ev).
Proof.
  intros HW Hs. unfold comp_body. unfold bind at 1.
  assert (HWm : forallb (fun t => negb (is_marker_or_open (kind t))) W = true).
  { eapply forallb_impl; [|exact Hs]. intros t Ht. cbv beta in Ht. destruct (kind t); try discriminate Ht; reflexivity. }
  match goal with |- match ?e with _ => _ end = _ =>
    assert (Hfirst : e = Done (None, St al dn W ev)) end.
  { unfold with_recover, obindM at 1, bind at 1. rewrite (until_none _ _ _ _ _ HWm). reflexivity. }
  rewrite Hfirst. unfold with_recover, bind at 1. rewrite (consume_while_all is_single_word_tok W al dn ev Hs).
  destruct W as [|w W']; [contradiction|]. reflexivity.
Qed.

(* note present *)
Lemma note_present cfg op NT cp R al dn ev t :
  kind op = KOpenParen -> forallb (fun x => negb (tk_eqb (kind x) KCloseParen)) NT = true ->
  kind cp = KCloseParen -> text_of cfg (tend op) NT = Done t ->
  note cfg (St al dn (op :: NT ++ cp :: R) ev) = Done (Some t, St al (cp :: rev NT ++ op :: dn) R ev).
Proof.
  intros Hop HN Hcp Ht. unfold note, with_recover, obindM at 1, bind at 1.
  rewrite (consume_hit KOpenParen op _ al dn ev Hop).
  unfold bind at 1, current_offset, obindM, bind at 1.
  rewrite (until_stop (fun k => tk_eqb k KCloseParen) NT cp R al (op :: dn) ev HN) by (rewrite Hcp; reflexivity).
  unfold bind, bump, bind, bump_any, bind, next_token. cbn [b_rest b_all b_done b_evs St]. unfold ret at 1 2.
  rewrite Hcp. cbn [tk_eqb tkind_beq]. unfold textM, lift, current_offset_of. cbn [b_done St]. rewrite Ht. reflexivity.
Qed.

Lemma check_note_absent cfg s :
  tk_eqb (peek_of s) KOpenParen = false -> check_note cfg s = Done (tt, s).
Proof.
  intro H. unfold check_note, bind at 1, with_recover, obindM at 1, bind at 1. rewrite (consume_miss _ _ H).
  unfold ret. destruct s; reflexivity.
Qed.

(* parse_alias *)
Lemma parse_alias_bar cfg NM bar AL off s tn ta :
  has cfg X_COMPONENT_ALIAS = true ->
  forallb (fun x => negb (tk_eqb (kind x) KOr)) NM = true -> kind bar = KOr ->
  forallb (fun x => negb (tk_eqb (kind x) KOr)) AL = true ->
  text_of cfg (tend bar) AL = Done ta -> is_text_empty ta = false ->
  text_of cfg off NM = Done tn ->
  parse_alias cfg (NM ++ bar :: AL) off s = Done ((tn, Some ta), s).
Proof.
  intros Hx HN Hb HA Hta Hem Htn. unfold parse_alias. rewrite Hx.
  rewrite (position_split (fun k => tk_eqb k KOr) NM bar AL HN) by (rewrite Hb; reflexivity).
  rewrite firstn_length_app.
  assert (Hsk : skipn (length NM) (NM ++ bar :: AL) = bar :: AL).
  { clear. induction NM; cbn; auto. }
  rewrite Hsk. unfold bind at 1, textM, lift. rewrite Hta.
  rewrite (forallb_negb_existsb (fun t => tk_eqb (kind t) KOr) AL HA), Hem.
  unfold bind, ret. rewrite Htn. reflexivity.
Qed.

Lemma parse_alias_plain cfg NM off s tn :
  (has cfg X_COMPONENT_ALIAS = false \/ forallb (fun x => negb (tk_eqb (kind x) KOr)) NM = true) ->
  text_of cfg off NM = Done tn ->
  parse_alias cfg NM off s = Done ((tn, None), s).
Proof.
  intros H Htn. assert (E : parse_alias cfg NM off = bind (textM cfg off NM) (fun nt => ret (nt, None))).
  { destruct H as [H|H]; [apply alias_off; exact H|apply alias_untriggered, position_none; exact H]. }
  rewrite E. unfold bind, textM, lift, ret. rewrite Htn. reflexivity.
Qed.

Lemma cur_after p : forall off al dn R ev, p <> [] ->
  current_offset_of (St al (rev (place off p) ++ dn) R ev) = off + blen (unlex p).
Proof.
  induction p as [|t p0 _] using rev_ind; intros off al dn R ev H; [contradiction|].
  rewrite place_app. cbn [place]. rewrite rev_unit. cbn [app]. unfold current_offset_of. cbn [b_done St].
  unfold tend. cbn [tstart tstr]. rewrite unlex_app, blen_app.
  change (unlex [t]) with (snd t ++ []). rewrite app_nil_r. lia.
Qed.


Lemma cur_after' p o1 al dn R ev :
  current_offset_of (St al dn [] []) = o1 ->
  current_offset_of (St al (rev (place o1 p) ++ dn) R ev) = o1 + blen (unlex p).
Proof.
  intro H. destruct p as [|t p].
  - cbn [place rev app]. unfold unlex; cbn [map concat blen]. rewrite N.add_0_r. exact H.
  - apply cur_after. discriminate.
Qed.


(* ---------------------------------------------------------------- the three component parsers,
   assembled from the readings of their parts *)
Section Assemble.
  Variable cfg : pcfg.

  Definition qty_part (bd : body) (s : bp) (qres : option quantity) (sepo : option (option span)) : Prop :=
    match bd_qty bd with
    | Some qts => exists q' sep, qres = Some q' /\ sepo = Some sep /\ parse_quantity cfg qts s = Done ((q', sep), s)
    | None => qres = None /\ sepo = None
    end.

  Lemma ingredient_assemble at_ X al dn ev mts dn1 X1 bd dn2 X2 nt dn3 X3 name alias m msp inter qres sepo :
    kind at_ = KAt ->
    modifiers cfg (St al (at_ :: dn) X ev) = Done (mts, St al dn1 X1 ev) ->
    comp_body (St al dn1 X1 ev) = Done (Some bd, St al dn2 X2 ev) ->
    note cfg (St al dn2 X2 ev) = Done (nt, St al dn3 X3 ev) ->
    (forall s, parse_alias cfg (bd_name bd) (current_offset_of (St al dn1 X1 ev)) s = Done ((name, alias), s)) ->
    is_text_empty name = false ->
    (forall s, parse_modifiers cfg mts (current_offset_of (St al (at_ :: dn) X ev)) s = Done ((m, msp, inter), s)) ->
    qty_part bd (St al dn3 X3 ev) qres sepo ->
    exists sp,
      ingredient_p cfg (St al dn (at_ :: X) ev)
      = Done (Some (EvIngredient {| i_mods := m; i_mods_span := msp; i_inter := inter; i_name := name;
                                    i_alias := alias; i_qty := qres; i_note := nt; i_span := sp |}),
              St al dn3 X3 ev).
  Proof.
    intros Hat Hmod Hbody Hnote Halias Hname Hpm Hq.
    unfold ingredient_p, obindM, bind, current_offset.
    rewrite (consume_hit KAt at_ X al dn ev Hat). rewrite Hmod, Hbody, Hnote, Halias.
    unfold check_empty_name. rewrite Hname. unfold ret at 1. rewrite Hpm.
    unfold qty_part in Hq. destruct (bd_qty bd).
    - destruct Hq as (q' & sep & -> & _ & Hpq). rewrite Hpq. unfold ret. eexists. reflexivity.
    - destruct Hq as [-> _]. unfold ret. eexists. reflexivity.
  Qed.

  Lemma cookware_assemble h X al dn ev mts dn1 X1 bd dn2 X2 nt dn3 X3 name alias m msp qres sepo :
    kind h = KHash ->
    modifiers cfg (St al (h :: dn) X ev) = Done (mts, St al dn1 X1 ev) ->
    comp_body (St al dn1 X1 ev) = Done (Some bd, St al dn2 X2 ev) ->
    note cfg (St al dn2 X2 ev) = Done (nt, St al dn3 X3 ev) ->
    (forall s, parse_alias cfg (bd_name bd) (current_offset_of (St al dn1 X1 ev)) s = Done ((name, alias), s)) ->
    is_text_empty name = false ->
    (forall s, parse_modifiers cfg mts (current_offset_of (St al (h :: dn) X ev)) s = Done ((m, msp, None), s)) ->
    N.land m M_RECIPE =? M_RECIPE = false ->
    qty_part bd (St al dn3 X3 ev) qres sepo ->
    (match qres with Some q => q_unit q = None | None => True end) ->
    exists sp,
      cookware_p cfg (St al dn (h :: X) ev)
      = Done (Some (EvCookware {| c_mods := m; c_mods_span := msp; c_name := name; c_alias := alias;
                                  c_qty := option_map (fun q => (q_val q, q_span q)) qres; c_note := nt;
                                  c_span := sp |}),
              St al dn3 X3 ev).
  Proof.
    intros Hh Hmod Hbody Hnote Halias Hname Hpm Hrec Hq Hun.
    unfold cookware_p, obindM, bind, current_offset.
    rewrite (consume_hit KHash h X al dn ev Hh). rewrite Hmod, Hbody, Hnote, Halias.
    unfold check_empty_name. rewrite Hname. unfold ret at 1.
    unfold qty_part in Hq. destruct (bd_qty bd).
    - destruct Hq as (q' & sep & -> & _ & Hpq). rewrite Hpq. cbn [option_map] in *. rewrite Hun.
      unfold ret at 1 2. rewrite Hpm. unfold ret at 1. rewrite Hrec. unfold ret. eexists. reflexivity.
    - destruct Hq as [-> _]. unfold ret at 1. rewrite Hpm. unfold ret at 1. rewrite Hrec. unfold ret. eexists. reflexivity.
  Qed.

  (* timers: no modifiers, no alias bar, no note *)
  Lemma timer_assemble t X al dn ev bd dn2 X2 name qres sepo :
    kind t = KTilde ->
    modifiers cfg (St al (t :: dn) X ev) = Done ([], St al (t :: dn) X ev) ->
    comp_body (St al (t :: dn) X ev) = Done (Some bd, St al dn2 X2 ev) ->
    (has cfg X_COMPONENT_ALIAS = false \/ position (fun k => tk_eqb k KOr) (bd_name bd) = None) ->
    tk_eqb (peek_of (St al dn2 X2 ev)) KOpenParen = false ->
    text_of cfg (current_offset_of (St al (t :: dn) X ev)) (bd_name bd) = Done name ->
    qty_part bd (St al dn2 X2 ev) qres sepo ->
    (match qres with Some q => q_unit q <> None | None => has cfg X_TIMER_REQUIRES_TIME = false /\ is_text_empty name = false end) ->
    exists sp,
      timer_p cfg (St al dn (t :: X) ev)
      = Done (Some (EvTimer {| t_name := if is_text_empty name then None else Some name; t_qty := qres; t_span := sp |}),
              St al dn2 X2 ev).
  Proof.
    intros Ht Hmod Hbody Hal Hnote Hname Hq Hun.
    unfold timer_p, obindM, bind, current_offset.
    rewrite (consume_hit KTilde t X al dn ev Ht). rewrite Hmod, Hbody. unfold ret at 1.
    assert (Halias : (if has cfg X_COMPONENT_ALIAS
                      then match position (fun k => tk_eqb k KOr) (bd_name bd) with
                           | Some sepi => match skipn sepi (bd_name bd) with
                                          | sep :: _ => error D_ALIAS_NOT_ALLOWED [(tstart sep, tend (last (bd_name bd) sep))]
                                          | [] => ret tt
                                          end
                           | None => ret tt
                           end
                      else ret tt) = ret tt).
    { destruct Hal as [Hal|Hal]; rewrite Hal; [reflexivity|]. destruct (has cfg X_COMPONENT_ALIAS); reflexivity. }
    rewrite Halias. unfold ret at 1. rewrite (check_note_absent cfg _ Hnote).
    unfold textM, lift. rewrite Hname.
    unfold qty_part in Hq. destruct (bd_qty bd).
    - destruct Hq as (q' & sep & -> & _ & Hpq). rewrite Hpq.
      destruct (q_unit q') eqn:Eu; [|contradiction]. unfold ret.
      destruct (is_text_empty name); eexists; reflexivity.
    - destruct Hq as [-> _]. destruct Hun as [Hrt Hne]. unfold ret at 1. rewrite Hrt, Hne. unfold ret. eexists. reflexivity.
  Qed.
End Assemble.

(* ---------------------------------------------------------------- printed parts are read back *)
Lemma qty_wf_value cfg q tp : qty_wf cfg q tp = true -> value_wf cfg (has_unit q) (qs_val q) tp = true.
Proof.
  intro W. unfold qty_wf in W.
  apply andb_true_iff in W as [W _]. apply andb_true_iff in W as [W Wunit].
  apply andb_true_iff in W as [W Wval]. apply andb_true_iff in W as [W Wend].
  apply andb_true_iff in W as [W Wap]. apply andb_true_iff in W as [W Wtrail].
  apply andb_true_iff in W as [W Wad]. apply andb_true_iff in W as [W Wbd].
  unfold value_wf. destruct (qs_val q); [exact Wval | | exact Wval]. rewrite Wval, Wbd, Wad. reflexivity.
Qed.

Lemma existsb_nonblock_qty cfg q tp off :
  qty_wf cfg q tp = true ->
  existsb (fun t => negb (is_ws_block (kind t))) (place off (print_qty q tp)) = true.
Proof.
  intro W. rewrite (place_existsb (fun k => negb (is_ws_block k))).
  pose proof (qty_wf_value cfg q tp W) as Wv.
  destruct (print_value_head cfg _ _ _ Wv) as (t0 & r0 & Eh & Hb & _).
  unfold print_qty. rewrite !existsb_app. rewrite Eh. cbn [existsb].
  unfold blank_p in Hb. assert (H : is_ws_block (fst t0) = false) by (destruct (fst t0); try discriminate; reflexivity).
  rewrite H. cbn [negb orb]. rewrite !orb_true_r. reflexivity.
Qed.

Lemma no_kinds_forallb ks p (f : tkind -> bool) :
  (forall k, existsb (tk_eqb k) ks = false -> f k = true) ->
  no_kinds ks p = true -> forallb (fun t => f (fst t)) p = true.
Proof.
  intros Hf. apply forallb_impl. intros x Hx. apply Hf. destruct (existsb (tk_eqb (fst x)) ks); [discriminate|reflexivity].
Qed.

Lemma first_mo_place p : forall o, first_mo (place o p) = first_mo_p p.
Proof. induction p as [|t p IH]; intro o; cbn [place first_mo first_mo_p kind]; [reflexivity|]. rewrite IH. reflexivity. Qed.

Lemma place_head_kind p o : match place o p with t :: _ => kind t | [] => KEof end = head_kind p.
Proof. destruct p; reflexivity. Qed.

Lemma place_unlex_rev a b o dn :
  rev (place (o + blen (unlex a)) b) ++ rev (place o a) ++ dn = rev (place o (a ++ b)) ++ dn.
Proof. rewrite place_app, rev_app_distr, <- app_assoc. reflexivity. Qed.

Section Parts.
  Variable cfg : pcfg.
  Hypothesis Hstrict : p_strict_escape cfg = false.

  Lemma ctext_parts p :
    ctext_ok p = true ->
    forallb shape_ok p = true /\
    (forall o, forallb (fun x => negb (is_marker_or_open (kind x))) (place o p) = true).
  Proof.
    unfold ctext_ok. intro H. apply andb_true_iff in H as [H1 H2]. split; [exact H1|]. intro o.
    rewrite (place_forallb (fun k => negb (is_marker_or_open k))).
    apply (no_kinds_forallb [KOpenBrace; KAt; KHash; KTilde] p (fun k => negb (is_marker_or_open k))); [|exact H2].
    intros k Hk. destruct k; try reflexivity; discriminate.
  Qed.

  Lemma no_kind_place k0 p o :
    no_kinds [k0] p = true -> forallb (fun x => negb (tk_eqb (kind x) k0)) (place o p) = true.
  Proof.
    intro H. rewrite (place_forallb (fun k => negb (tk_eqb k k0))).
    apply (no_kinds_forallb [k0] p (fun k => negb (tk_eqb k k0))); [|exact H]. intros k Hk. cbn [existsb] in Hk. rewrite orb_false_r in Hk.
    rewrite Hk. reflexivity.
  Qed.

  (* the name (and alias) *)
  Lemma alias_reads c o :
    ctext_ok (cs_name c) = true ->
    match cs_alias c with
    | Some a => has cfg X_COMPONENT_ALIAS && no_kinds [KOr] (cs_name c) && no_kinds [KOr] a && ctext_ok a &&
                negb (str_blank (toks_text a)) = true
    | None => negb (has cfg X_COMPONENT_ALIAS) || no_kinds [KOr] (cs_name c) = true
    end ->
    exists tn ta,
      (forall s, parse_alias cfg (place o (print_cname c)) o s = Done ((tn, ta), s)) /\
      text_trimmed tn = clean (toks_text (cs_name c)) /\
      is_text_empty tn = str_blank (toks_text (cs_name c)) /\
      option_map text_trimmed ta = option_map (fun a => clean (toks_text a)) (cs_alias c).
  Proof.
    intros Hn Ha. destruct (ctext_parts _ Hn) as [Hnsh _].
    destruct (text_reads cfg Hstrict (cs_name c) o Hnsh) as (tn & Etn & Hem & Htr).
    unfold print_cname. destruct (cs_alias c) as [a|].
    - apply andb_true_iff in Ha as [Ha Hab]. apply andb_true_iff in Ha as [Ha Hac].
      apply andb_true_iff in Ha as [Ha Hao]. apply andb_true_iff in Ha as [Hx Hno].
      destruct (ctext_parts _ Hac) as [Hash _].
      rewrite place_app. cbn [place fst snd bar_p].
      set (bar := {| kind := KOr; tstr := [124]; tstart := o + blen (unlex (cs_name c)) |}).
      destruct (text_reads cfg Hstrict a (tend bar) Hash) as (ta & Eta & Hema & Htra).
      exists tn, (Some ta). split; [|split; [exact Htr|split; [exact Hem|cbn [option_map]; rewrite Htra; reflexivity]]].
      intro s. apply parse_alias_bar; auto.
      + apply no_kind_place. exact Hno.
      + apply no_kind_place. exact Hao.
      + rewrite Hema. apply negb_true. exact Hab.
    - rewrite app_nil_r. exists tn, None. split; [|split; [exact Htr|split; [exact Hem|reflexivity]]].
      intro s. apply parse_alias_plain; [|exact Etn].
      apply orb_true_iff in Ha as [Ha|Ha]; [left; apply negb_true; exact Ha|right; apply no_kind_place; exact Ha].
  Qed.

  (* the note *)
  Lemma note_reads c KT o al dn ev :
    match cs_note c with
    | Some n => ctext_ok n && no_kinds [KCloseParen] n = true
    | None => tk_eqb (match KT with t :: _ => kind t | [] => KEof end) KOpenParen = false
    end ->
    exists nt,
      note cfg (St al dn (place o (print_cnote c) ++ KT) ev)
      = Done (nt, St al (rev (place o (print_cnote c)) ++ dn) KT ev) /\
      option_map text_trimmed nt = option_map (fun n => clean (toks_text n)) (cs_note c).
  Proof.
    intro H. unfold print_cnote. destruct (cs_note c) as [n|].
    - apply andb_true_iff in H as [Hn Hnc]. destruct (ctext_parts _ Hn) as [Hsh _].
      change (place o (op_p :: n ++ [cp_p])) with
        ({| kind := KOpenParen; tstr := [40]; tstart := o |} :: place (o + blen [40]) (n ++ [cp_p])).
      rewrite place_app. cbn [place fst snd cp_p].
      set (OP := {| kind := KOpenParen; tstr := [40]; tstart := o |}).
      set (CP := {| kind := KCloseParen; tstr := [41]; tstart := _ |}).
      destruct (text_reads cfg Hstrict n (tend OP) Hsh) as (t & Et & _ & Htr).
      exists (Some t). split; [|cbn [option_map]; rewrite Htr; reflexivity].
      cbn [app]. rewrite <- app_assoc. cbn [app].
      rewrite (note_present cfg OP (place (o + blen [40]) n) CP _ al dn ev t eq_refl); [| |reflexivity|exact Et].
      + cbn [rev]. rewrite rev_app_distr. cbn [rev app]. rewrite <- !app_assoc. reflexivity.
      + apply no_kind_place. exact Hnc.
    - cbn [app place rev]. exists None. split; [|reflexivity]. apply note_absent. unfold peek_of. cbn [b_rest St]. exact H.
  Qed.
End Parts.

Section Body.
  Variable cfg : pcfg.

  Lemma cname_no_mo c o :
    ctext_ok (cs_name c) = true ->
    match cs_alias c with Some a => ctext_ok a = true | None => True end ->
    forallb (fun x => negb (is_marker_or_open (kind x))) (place o (print_cname c)) = true.
  Proof.
    intros Hn Ha. unfold print_cname. rewrite place_app, forallb_app.
    destruct (ctext_parts _ Hn) as [_ H1]. rewrite H1. destruct (cs_alias c) as [a|]; [|reflexivity].
    cbn [place forallb kind fst bar_p is_marker_or_open negb andb]. destruct (ctext_parts _ Ha) as [_ H2]. apply H2.
  Qed.

  Lemma body_reads c REST o al dn ev :
    ctext_ok (cs_name c) = true ->
    match cs_alias c with Some a => ctext_ok a = true | None => True end ->
    match cs_body c with
    | BQty q tp => qty_wf cfg q tp = true /\ no_kinds [KCloseBrace] (print_qty q tp) = true
    | BEmpty inner => forallb (fun t => is_ws_block (fst t) && shape_ok t) inner = true
    | BWord => forallb (fun t => is_single_word_tok (fst t)) (cs_name c) = true /\ cs_name c <> [] /\
               cs_alias c = None /\
               match REST with [] => True | x :: _ => is_single_word_tok (kind x) = false end /\
               first_mo REST <> KOpenBrace
    end ->
    let o2 := o + blen (unlex (print_cname c)) in
    exists bd,
      comp_body (St al dn (place o (print_cname c) ++ place o2 (print_cbody (cs_body c)) ++ REST) ev)
      = Done (Some bd, St al (rev (place o2 (print_cbody (cs_body c))) ++ rev (place o (print_cname c)) ++ dn) REST ev) /\
      bd_name bd = place o (print_cname c) /\
      bd_qty bd = match cs_body c with
                  | BQty q tp => Some (place (o2 + blen [123]) (print_qty q tp))
                  | _ => None
                  end.
  Proof.
    intros Hn Ha Hb o2. pose proof (cname_no_mo c o Hn Ha) as Hmo.
    destruct (cs_body c) as [q tp | inner |]; cbn [print_cbody].
    - destruct Hb as [Wq Hnc].
      change (place o2 (ob_p :: print_qty q tp ++ [cb_p])) with
        ({| kind := KOpenBrace; tstr := [123]; tstart := o2 |} :: place (o2 + blen [123]) (print_qty q tp ++ [cb_p])).
      rewrite place_app. cbn [place fst snd cb_p]. cbn [app]. rewrite <- app_assoc. cbn [app].
      rewrite comp_body_braces; try reflexivity; try assumption.
      + rewrite (existsb_nonblock_qty cfg q tp _ Wq). eexists. split; [apply f_equal; apply f_equal2; [reflexivity|]|split; reflexivity].
        unfold St. f_equal. cbn [rev]. rewrite rev_app_distr. cbn [rev app]. rewrite <- !app_assoc. reflexivity.
      + apply no_kind_place. exact Hnc.
    - change (place o2 (ob_p :: inner ++ [cb_p])) with
        ({| kind := KOpenBrace; tstr := [123]; tstart := o2 |} :: place (o2 + blen [123]) (inner ++ [cb_p])).
      rewrite place_app. cbn [place fst snd cb_p]. cbn [app]. rewrite <- app_assoc. cbn [app].
      assert (Hws : forallb (fun t => is_ws_block (fst t)) inner = true).
      { eapply forallb_impl; [|exact Hb]. intros x Hx. apply andb_true_iff in Hx as [Hx _]. exact Hx. }
      rewrite comp_body_braces; try reflexivity; try assumption.
      + rewrite (place_existsb (fun k => negb (is_ws_block k))).
        rewrite (forallb_negb_existsb (fun t => negb (is_ws_block (fst t))) inner).
        2:{ eapply forallb_impl; [|exact Hws]. intros x Hx. rewrite Hx. reflexivity. }
        eexists. split; [apply f_equal; apply f_equal2; [reflexivity|]|split; reflexivity].
        unfold St. f_equal. cbn [rev]. rewrite rev_app_distr. cbn [rev app]. rewrite <- !app_assoc. reflexivity.
      + rewrite (place_forallb (fun k => negb (tk_eqb k KCloseBrace))).
        eapply forallb_impl; [|exact Hws]. intros x Hx. cbv beta in Hx. destruct (fst x); try discriminate Hx; reflexivity.
    - destruct Hb as (Hsw & Hne & Hal & Hx & Hfm). cbn [place app rev].
      unfold print_cname in *. rewrite Hal in *. rewrite app_nil_r in *.
      assert (HW : place o (cs_name c) <> []) by (destruct (cs_name c); [contradiction|discriminate]).
      assert (Hs : forallb (fun t => is_single_word_tok (kind t)) (place o (cs_name c)) = true)
        by (rewrite (place_forallb is_single_word_tok); exact Hsw).
      destruct REST as [|x R].
      + rewrite app_nil_r, (comp_body_single_end _ al dn ev HW Hs). eexists. split; [reflexivity|split; reflexivity].
      + rewrite (comp_body_single _ x R al dn ev HW Hs Hx Hfm). eexists. split; [reflexivity|split; reflexivity].
  Qed.
End Body.

(* ---------------------------------------------------------------- modifiers *)
Definition bn (b : bool) (w : N) : N := if b then w else 0.
Definition enc (u : tkind -> bool) : N :=
  bn (u KAt) M_RECIPE + bn (u KAnd) M_REF + bn (u KMinus) M_HIDDEN + bn (u KQuestion) M_OPT + bn (u KPlus) M_NEW.

Lemma enc_ext u v : (forall k, is_modifier_k k = true -> u k = v k) -> enc u = enc v.
Proof. intro H. unfold enc. rewrite !H by reflexivity. reflexivity. Qed.

Lemma land_enc k u : is_modifier_k k = true -> (N.land (enc u) (kind_bit k) =? kind_bit k) = u k.
Proof.
  intro Hk. destruct k; try discriminate; unfold enc, kind_bit; cbn [mod_bit];
    destruct (u KAt), (u KAnd), (u KMinus), (u KQuestion), (u KPlus); reflexivity.
Qed.

Lemma lor_enc k u : is_modifier_k k = true -> N.lor (enc u) (kind_bit k) = enc (fun k' => tk_eqb k' k || u k').
Proof.
  intro Hk. destruct k; try discriminate; unfold enc, kind_bit; cbn [mod_bit tk_eqb tkind_beq orb];
    destruct (u KAt), (u KAnd), (u KMinus), (u KQuestion), (u KPlus); reflexivity.
Qed.

Lemma mod_bit_kind k : is_modifier_k k = true -> mod_bit k = Some (kind_bit k).
Proof. destruct k; try discriminate; reflexivity. Qed.

Lemma filter_wsb B o : wsb_ok B = true -> filter (fun t => negb (is_ws_block (kind t))) (place o B) = [].
Proof.
  revert o. induction B as [|t B IH]; intros o H; [reflexivity|]. cbn [wsb_ok forallb] in H.
  apply andb_true_iff in H as [H1 H2]. apply andb_true_iff in H1 as [H1 _].
  cbn [place filter kind]. rewrite H1. cbn [negb]. apply IH. exact H2.
Qed.

Lemma wsb_noclose B o : wsb_ok B = true -> forallb (fun x => negb (tk_eqb (kind x) KCloseParen)) (place o B) = true.
Proof.
  intro H. rewrite (place_forallb (fun k => negb (tk_eqb k KCloseParen))). eapply forallb_impl; [|exact H].
  intros x Hx. apply andb_true_iff in Hx as [Hx _]. destruct (fst x); try discriminate; reflexivity.
Qed.

(* the data between the parentheses *)
Definition inter_inner (i : ispec) : list ptok :=
  is_b1 i ++ (if is_sec i then (KEq, [61]) :: is_b2 i else []) ++
  (if is_rel i then (KTilde, [126]) :: is_b3 i else []) ++ (KInt, is_val i) :: is_b4 i.

Lemma print_inter_inner i : print_inter i = (KOpenParen, [40]) :: inter_inner i ++ [(KCloseParen, [41])].
Proof.
  unfold print_inter, inter_inner. cbn [app]. f_equal. rewrite <- !app_assoc.
  destruct (is_sec i), (is_rel i); cbn [app]; rewrite <- ?app_assoc; cbn [app]; reflexivity.
Qed.

Definition ispec_ok (i : ispec) : bool :=
  wsb_ok (is_b1 i) && wsb_ok (is_b2 i) && wsb_ok (is_b3 i) && wsb_ok (is_b4 i) && (digits_val (is_val i) <=? i16_max).

Lemma inner_noclose i o : ispec_ok i = true ->
  forallb (fun x => negb (tk_eqb (kind x) KCloseParen)) (place o (inter_inner i)) = true.
Proof.
  unfold ispec_ok. intro H. apply andb_true_iff in H as [H _]. apply andb_true_iff in H as [H H4].
  apply andb_true_iff in H as [H H3]. apply andb_true_iff in H as [H1 H2].
  unfold inter_inner. rewrite !place_app, !forallb_app, (wsb_noclose _ _ H1).
  destruct (is_sec i), (is_rel i); cbn [place forallb kind fst app andb]; rewrite ?place_app, ?forallb_app;
    cbn [place forallb kind fst app andb tk_eqb tkind_beq negb]; rewrite ?(wsb_noclose _ _ H2), ?(wsb_noclose _ _ H3), ?(wsb_noclose _ _ H4); reflexivity.
Qed.

Definition erase_t (F : list tok) : list ptok := map (fun t => (kind t, tstr t)) F.

Lemma inner_filter i o : ispec_ok i = true ->
  erase_t (filter (fun t => negb (is_ws_block (kind t))) (place o (inter_inner i)))
  = (if is_sec i then [(KEq, [61])] else []) ++ (if is_rel i then [(KTilde, [126])] else []) ++ [(KInt, is_val i)].
Proof.
  unfold ispec_ok. intro H. apply andb_true_iff in H as [H _]. apply andb_true_iff in H as [H H4].
  apply andb_true_iff in H as [H H3]. apply andb_true_iff in H as [H1 H2].
  unfold inter_inner. rewrite place_app, filter_app, (filter_wsb _ _ H1). cbn [app].
  destruct (is_sec i), (is_rel i); cbn [app place filter kind fst snd is_ws_block negb];
    rewrite ?place_app, ?filter_app; cbn [app place filter kind fst snd is_ws_block negb];
    rewrite ?place_app, ?filter_app, ?(filter_wsb _ _ H2), ?(filter_wsb _ _ H3), ?(filter_wsb _ _ H4); cbn [app place filter kind fst snd is_ws_block negb];
    rewrite ?(filter_wsb _ _ H2), ?(filter_wsb _ _ H3), ?(filter_wsb _ _ H4); cbn [app];
    reflexivity.
Qed.

Lemma firstn_succ_app {A} (l : list A) c r : firstn (S (length l)) (l ++ c :: r) = l ++ [c].
Proof. induction l as [|x l IH]; [reflexivity|]. cbn [length app]. cbn [firstn]. f_equal. exact IH. Qed.

Lemma parse_inter_print i o REST :
  ispec_ok i = true ->
  exists d,
    (forall s, parse_inter (place o (print_inter i) ++ REST) s = Done ((Some d, REST), s)) /\
    (im_relative d, im_section d, im_val d) = (is_rel i, is_sec i, digits_val (is_val i)).
Proof.
  intro Hok. rewrite print_inter_inner.
  change (place o ((KOpenParen, [40]) :: inter_inner i ++ [(KCloseParen, [41])]))
    with ({| kind := KOpenParen; tstr := [40]; tstart := o |} :: place (o + blen [40]) (inter_inner i ++ [(KCloseParen, [41])])).
  rewrite place_app. cbn [place fst snd].
  set (OP := {| kind := KOpenParen; tstr := [40]; tstart := o |}).
  set (IN := place (o + blen [40]) (inter_inner i)).
  set (CP := {| kind := KCloseParen; tstr := [41]; tstart := _ |}).
  cbn [app]. rewrite <- app_assoc. cbn [app]. unfold parse_inter. cbn [kind OP tk_eqb tkind_beq negb].
  assert (Hpos : position (fun k => tk_eqb k KCloseParen) (OP :: IN ++ CP :: REST) = Some (S (length IN))).
  { cbn [position kind OP tk_eqb tkind_beq].
    rewrite (position_split (fun k => tk_eqb k KCloseParen) IN CP REST (inner_noclose i _ Hok) eq_refl). reflexivity. }
  rewrite Hpos.
  assert (Hsl : firstn (S (S (length IN))) (OP :: IN ++ CP :: REST) = OP :: IN ++ [CP]).
  { change (firstn (S (S (length IN))) (OP :: IN ++ CP :: REST)) with (OP :: firstn (S (length IN)) (IN ++ CP :: REST)).
    rewrite firstn_succ_app. reflexivity. }
  assert (Hsk : skipn (S (S (length IN))) (OP :: IN ++ CP :: REST) = REST).
  { cbn [skipn]. apply skipn_length_app. }
  rewrite Hsl, Hsk. cbn [tl]. replace (S (length IN) - 1)%nat with (length IN) by lia. rewrite firstn_length_app.
  pose proof (inner_filter i (o + blen [40]) Hok) as Hf. fold IN in Hf.
  assert (Hv : digits_val (is_val i) <=? i16_max = true).
  { unfold ispec_ok in Hok. apply andb_true_iff in Hok as [_ H]. exact H. }
  unfold erase_t in Hf.
  destruct (is_sec i), (is_rel i); cbn [app] in Hf;
    destruct (filter (fun t => negb (is_ws_block (kind t))) IN) as [|a [|b [|c [|d F]]]]; try discriminate Hf;
    cbn [map] in Hf.
  - injection Hf as Hk1 Hs1 Hk2 Hs2 Hk3 Hs3. rewrite Hk1, Hk2, Hk3. cbn [tk_eqb tkind_beq andb orb].
    rewrite Hs3, Hv. eexists. split; [intro s; reflexivity|reflexivity].
  - injection Hf as Hk1 Hs1 Hk2 Hs2. rewrite Hk1, Hk2. cbn [tk_eqb tkind_beq andb orb].
    rewrite Hs2, Hv. eexists. split; [intro s; reflexivity|reflexivity].
  - injection Hf as Hk1 Hs1 Hk2 Hs2. rewrite Hk1, Hk2. cbn [tk_eqb tkind_beq andb orb].
    rewrite Hs2, Hv. eexists. split; [intro s; reflexivity|reflexivity].
  - injection Hf as Hk1 Hs1. rewrite Hk1. cbn [tk_eqb tkind_beq andb orb].
    rewrite Hs1, Hv. eexists. split; [intro s; reflexivity|reflexivity].
Qed.

Section Mods.
  Variable cfg : pcfg.

  Definition mitem_ok (m : mitem) : bool :=
    match m with
    | MC k => is_modifier_k k
    | MRef i => has cfg X_INTERMEDIATE_PREPARATIONS && ispec_ok i
    end.

  Definition hdk (X : list tok) : tkind := match X with t :: _ => kind t | [] => KEof end.

  Lemma mods_head_not_paren r o X :
    forallb mitem_ok r = true -> tk_eqb (hdk X) KOpenParen = false ->
    tk_eqb (hdk (place o (print_mods r) ++ X)) KOpenParen = false.
  Proof.
    intros Hr HX. destruct r as [|m r]; [exact HX|]. cbn [forallb] in Hr. apply andb_true_iff in Hr as [Hm _].
    destruct m as [k|i]; cbn [print_mods map concat print_mitem app place hdk kind fst].
    - cbn [mitem_ok] in Hm. destruct k; try discriminate; reflexivity.
    - reflexivity.
  Qed.

  Lemma print_mods_cons m r : print_mods (m :: r) = print_mitem m ++ print_mods r.
  Proof. reflexivity. Qed.

  Lemma modifiers_loop_print ms : forall fuel acc o al dn ev X,
    forallb mitem_ok ms = true -> (length ms < fuel)%nat ->
    is_modifier_kind (hdk X) = false -> tk_eqb (hdk X) KOpenParen = false ->
    modifiers_loop cfg fuel acc (St al dn (place o (print_mods ms) ++ X) ev)
    = Done (acc ++ place o (print_mods ms), St al (rev (place o (print_mods ms)) ++ dn) X ev).
  Proof.
    induction ms as [|m r IH]; intros fuel acc o al dn ev X Hok Hf HX1 HX2.
    - destruct fuel; [cbn in Hf; lia|]. cbn [print_mods map concat place app rev modifiers_loop].
      unfold bind, peek, peek_of. cbn [b_rest St]. fold (hdk X). rewrite app_nil_r.
      destruct (hdk X); try discriminate HX1; reflexivity.
    - destruct fuel as [|f]; [cbn in Hf; lia|]. cbn [length] in Hf.
      cbn [forallb] in Hok. apply andb_true_iff in Hok as [Hm Hr].
      rewrite print_mods_cons, place_app, <- app_assoc.
      set (o' := o + blen (unlex (print_mitem m))).
      pose proof (mods_head_not_paren r o' X Hr HX2) as Hnp.
      destruct m as [k|i]; cbn [print_mitem] in *.
      + (* a modifier character *)
        cbn [mitem_ok] in Hm. cbn [place fst snd app].
        set (T := {| kind := k; tstr := [mod_char k]; tstart := o |}).
        cbn [modifiers_loop]. unfold bind at 1, peek, peek_of. cbn [b_rest St kind T].
        assert (Hstep : forall acc', bind bump_any (fun t => modifiers_loop cfg f (acc' t))
                          (St al dn (T :: place o' (print_mods r) ++ X) ev)
                        = modifiers_loop cfg f (acc' T) (St al (T :: dn) (place o' (print_mods r) ++ X) ev)).
        { intro acc'. unfold bind, bump_any, bind, next_token. cbn [b_rest b_all b_done b_evs St]. reflexivity. }
        assert (Hfin : modifiers_loop cfg f (acc ++ [T]) (St al (T :: dn) (place o' (print_mods r) ++ X) ev)
                       = Done (acc ++ T :: place o' (print_mods r), St al (rev (T :: place o' (print_mods r)) ++ dn) X ev)).
        { rewrite (IH f (acc ++ [T]) o' al (T :: dn) ev X Hr ltac:(lia) HX1 HX2).
          rewrite <- app_assoc. cbn [app rev]. rewrite <- ?app_assoc. reflexivity. }
        destruct k; try discriminate Hm.
        * rewrite (Hstep (fun t => acc ++ [t])). exact Hfin.
        * rewrite (Hstep (fun t => acc ++ [t])). exact Hfin.
        * rewrite (Hstep (fun t => acc ++ [t])). exact Hfin.
        * rewrite (Hstep (fun t => acc ++ [t])). exact Hfin.
        * (* `&` without data *)
          unfold bind at 1, bump_any, bind at 1, next_token. cbn [b_rest b_all b_done b_evs St]. unfold ret at 1.
          destruct (has cfg X_INTERMEDIATE_PREPARATIONS); [|exact Hfin].
          unfold bind at 1, with_recover, obindM at 1, bind at 1.
          rewrite consume_miss by (unfold peek_of; cbn [b_rest St]; exact Hnp).
          cbn [b_all b_done b_rest b_evs]. exact Hfin.
      + (* `&( .. )` *)
        cbn [mitem_ok] in Hm. apply andb_true_iff in Hm as [Hint Hio].
        change (place o ((KAnd, [38]) :: print_inter i)) with
          ({| kind := KAnd; tstr := [38]; tstart := o |} :: place (o + blen [38]) (print_inter i)).
        set (T := {| kind := KAnd; tstr := [38]; tstart := o |}).
        rewrite print_inter_inner.
        change (place (o + blen [38]) ((KOpenParen, [40]) :: inter_inner i ++ [(KCloseParen, [41])]))
          with ({| kind := KOpenParen; tstr := [40]; tstart := o + blen [38] |}
                  :: place (o + blen [38] + blen [40]) (inter_inner i ++ [(KCloseParen, [41])])).
        rewrite place_app. cbn [place fst snd].
        set (OP := {| kind := KOpenParen; tstr := [40]; tstart := o + blen [38] |}).
        set (IN := place (o + blen [38] + blen [40]) (inter_inner i)).
        set (CP := {| kind := KCloseParen; tstr := [41]; tstart := _ |}).
        cbn [app]. rewrite <- app_assoc. cbn [app].
        cbn [modifiers_loop]. unfold bind at 1, peek, peek_of. cbn [b_rest St kind T].
        unfold bind at 1, bump_any, bind at 1, next_token. cbn [b_rest b_all b_done b_evs St]. unfold ret at 1.
        rewrite Hint. unfold bind at 1, with_recover, obindM at 1, bind at 1.
        fold (St al (T :: dn) (OP :: IN ++ CP :: place o' (print_mods r) ++ X) ev).
        rewrite (consume_hit KOpenParen OP _ al (T :: dn) ev eq_refl).
        unfold obindM at 1, bind at 1.
        rewrite (until_stop (fun k0 => tk_eqb k0 KCloseParen) IN CP _ al (OP :: T :: dn) ev (inner_noclose i _ Hio) eq_refl).
        unfold bind at 1, bump, bind at 1, bump_any, bind at 1, next_token. cbn [b_rest b_all b_done b_evs St]. unfold ret at 1 2 3.
        cbn [kind CP tk_eqb tkind_beq].
        fold (St al (CP :: rev IN ++ OP :: T :: dn) (place o' (print_mods r) ++ X) ev).
        rewrite (IH f (acc ++ T :: OP :: IN ++ [CP]) o' al _ ev X Hr ltac:(lia) HX1 HX2).
        do 2 f_equal.
        * rewrite <- ?app_assoc. cbn [app]. rewrite <- ?app_assoc. reflexivity.
        * cbn [rev]. rewrite ?rev_app_distr. cbn [rev app]. rewrite <- ?app_assoc. cbn [app]. rewrite <- ?app_assoc. reflexivity.
  Qed.
End Mods.

Section Mods2.
  Variable cfg : pcfg.

  Definition iproj (d : interdata) : bool * bool * N := (im_relative d, im_section d, im_val d).

  Lemma parse_inter_nohit ts s : tk_eqb (hdk ts) KOpenParen = false -> parse_inter ts s = Done ((None, ts), s).
  Proof. intro H. unfold parse_inter. destruct ts as [|t0 r]; [reflexivity|]. cbn [hdk] in H. rewrite H. reflexivity. Qed.

  Lemma mods_inter_none r : existsb (tk_eqb KAnd) (map mitem_kind r) = false -> mods_inter r = None.
  Proof.
    induction r as [|m r IH]; [reflexivity|]. cbn [map existsb mods_inter]. intro H. apply orb_false_iff in H as [H1 H2].
    destruct m as [k|i]; [exact (IH H2)|discriminate].
  Qed.

  Lemma tk_eqb_sym a b : tk_eqb a b = tk_eqb b a.
  Proof. destruct a, b; reflexivity. Qed.

  Lemma pml_print ms : forall fuel o msp u inter,
    forallb (mitem_ok cfg) ms = true -> nodup_k (map mitem_kind ms) = true ->
    (forall m, In m ms -> u (mitem_kind m) = false) ->
    (existsb (tk_eqb KAnd) (map mitem_kind ms) = true -> inter = None) ->
    (length (place o (print_mods ms)) < fuel)%nat ->
    exists inter',
      (forall s, parse_mods_loop cfg fuel (place o (print_mods ms)) msp (enc u) inter s
       = Done ((enc (fun k => existsb (tk_eqb k) (map mitem_kind ms) || u k), inter'), s)) /\
      option_map iproj inter' = match mods_inter ms with Some x => Some x | None => option_map iproj inter end.
  Proof.
    induction ms as [|m r IH]; intros fuel o msp u inter Hok Hnd Hu Hi Hf.
    - destruct fuel; [cbn in Hf; lia|]. exists inter. split; [intro s; reflexivity|reflexivity].
    - destruct fuel as [|f]; [cbn in Hf; lia|].
      cbn [forallb] in Hok. apply andb_true_iff in Hok as [Hm Hr].
      cbn [map nodup_k] in Hnd. apply andb_true_iff in Hnd as [Hnin Hnd]. apply negb_true in Hnin.
      rewrite print_mods_cons, place_app in *. rewrite app_length in Hf.
      set (o' := o + blen (unlex (print_mitem m))) in *.
      assert (Hkm : is_modifier_k (mitem_kind m) = true).
      { destruct m as [k|i]; [exact Hm|reflexivity]. }
      set (u' := fun k' => tk_eqb k' (mitem_kind m) || u k').
      assert (Hu' : forall m', In m' r -> u' (mitem_kind m') = false).
      { intros m' Hin. unfold u'. rewrite (Hu m' (or_intror Hin)), orb_false_r.
        destruct (tk_eqb (mitem_kind m') (mitem_kind m)) eqn:E; [|reflexivity].
        apply tk_eqb_eq in E. exfalso.
        assert (existsb (tk_eqb (mitem_kind m)) (map mitem_kind r) = true); [|congruence].
        apply existsb_exists. exists (mitem_kind m'). split; [apply in_map; exact Hin|]. rewrite E. apply tk_eqb_refl. }
      assert (Henc : forall ks, enc (fun k => existsb (tk_eqb k) ks || u' k)
                              = enc (fun k => existsb (tk_eqb k) (mitem_kind m :: ks) || u k)).
      { intro ks. apply enc_ext. intros k _. unfold u'. cbn [existsb].
        destruct (tk_eqb k (mitem_kind m)), (existsb (tk_eqb k) ks), (u k); reflexivity. }
      assert (Hdup : (N.land (enc u) (kind_bit (mitem_kind m)) =? kind_bit (mitem_kind m)) = false).
      { rewrite (land_enc _ u Hkm). apply Hu. left; reflexivity. }
      destruct m as [k|i]; cbn [print_mitem mitem_kind] in *.
      + cbn [place fst snd app]. cbn [parse_mods_loop kind]. rewrite (mod_bit_kind k Hkm).
        assert (Hrest : exists inter1,
                   (forall s, (if tk_eqb k KAnd && has cfg X_INTERMEDIATE_PREPARATIONS
                    then parse_inter (place o' (print_mods r)) else ret (inter, place o' (print_mods r))) s
                   = Done ((inter1, place o' (print_mods r)), s)) /\
                   (existsb (tk_eqb KAnd) (map mitem_kind r) = true -> inter1 = None) /\
                   option_map iproj inter1 = option_map iproj inter).
        { destruct (tk_eqb k KAnd && has cfg X_INTERMEDIATE_PREPARATIONS) eqn:E.
          - apply andb_true_iff in E as [E _]. apply tk_eqb_eq in E. subst k.
            exists None. split; [|split; [auto|]].
            + intro s. apply parse_inter_nohit. replace (place o' (print_mods r)) with (place o' (print_mods r) ++ []) by apply app_nil_r.
              apply (mods_head_not_paren cfg r o' [] Hr). reflexivity.
            + rewrite (Hi ltac:(cbn [map existsb tk_eqb tkind_beq orb]; reflexivity)). reflexivity.
          - exists inter. split; [intro s; reflexivity|split; [|reflexivity]].
            intro H. apply Hi. cbn [map existsb]. rewrite H. apply orb_true_r. }
        destruct Hrest as (inter1 & Hpi & Hi1 & Hp1).
        destruct (IH f o' msp u' inter1 Hr Hnd Hu' Hi1) as (inter' & Hl & Hp).
        { apply (proj2 (Nat.succ_lt_mono _ _)). exact Hf. }
        exists inter'. split; [|cbn [mods_inter]; rewrite Hp, Hp1; reflexivity].
        intro s. unfold bind at 1. rewrite Hpi. rewrite Hdup. rewrite (lor_enc k u Hkm). fold u'. rewrite Hl, Henc. reflexivity.
      + cbn [mitem_ok] in Hm. apply andb_true_iff in Hm as [Hint Hio].
        change (place o ((KAnd, [38]) :: print_inter i)) with
          ({| kind := KAnd; tstr := [38]; tstart := o |} :: place (o + blen [38]) (print_inter i)).
        cbn [app parse_mods_loop kind mod_bit tk_eqb tkind_beq andb]. rewrite Hint.
        destruct (parse_inter_print i (o + blen [38]) (place o' (print_mods r)) Hio) as (d & Hpi & Hd).
        destruct (IH f o' msp u' (Some d) Hr Hnd Hu') as (inter' & Hl & Hp).
        { intro H. congruence. }
        { assert (Hx : forall a b c, (S a + b < S c)%nat -> (b < c)%nat) by (intros; lia). cbn [length] in Hf. eapply Hx. exact Hf. }
        exists inter'. split.
        * intro s. unfold bind at 1. rewrite Hpi.
          change M_REF with (kind_bit KAnd). rewrite Hdup. rewrite (lor_enc KAnd u eq_refl). fold u'. rewrite Hl, Henc. reflexivity.
        * cbn [mods_inter]. rewrite Hp, (mods_inter_none r Hnin). cbn [option_map]. unfold iproj. rewrite Hd. reflexivity.
  Qed.
End Mods2.

Section Mods3.
  Variable cfg : pcfg.

  Lemma fold_bits_enc ms : forall u,
    forallb (mitem_ok cfg) ms = true ->
    fold_left (fun acc m => N.lor acc (kind_bit (mitem_kind m))) ms (enc u)
    = enc (fun k => existsb (tk_eqb k) (map mitem_kind ms) || u k).
  Proof.
    induction ms as [|m r IH]; intros u H; [reflexivity|]. cbn [forallb] in H. apply andb_true_iff in H as [Hm Hr].
    assert (Hkm : is_modifier_k (mitem_kind m) = true) by (destruct m; [exact Hm|reflexivity]).
    cbn [fold_left map]. rewrite (lor_enc _ u Hkm), (IH _ Hr). apply enc_ext. intros k _. cbn [existsb].
    destruct (tk_eqb k (mitem_kind m)), (existsb (tk_eqb k) (map mitem_kind r)), (u k); reflexivity.
  Qed.

  Lemma mods_bits_enc ms : forallb (mitem_ok cfg) ms = true ->
    mods_bits ms = enc (fun k => existsb (tk_eqb k) (map mitem_kind ms) || false).
  Proof. intro H. unfold mods_bits. change 0 with (enc (fun _ => false)). apply fold_bits_enc. exact H. Qed.

  Lemma len_mods ms : (length ms <= length (print_mods ms))%nat.
  Proof.
    induction ms as [|m r IH]; [apply le_n|]. rewrite print_mods_cons, app_length. cbn [length].
    destruct m; cbn [print_mitem length]; lia.
  Qed.

  Lemma modifiers_print ms o al dn ev X :
    (is_nil ms || has cfg X_COMPONENT_MODIFIERS = true) -> forallb (mitem_ok cfg) ms = true ->
    is_modifier_kind (hdk X) = false -> tk_eqb (hdk X) KOpenParen = false ->
    modifiers cfg (St al dn (place o (print_mods ms) ++ X) ev)
    = Done (place o (print_mods ms), St al (rev (place o (print_mods ms)) ++ dn) X ev).
  Proof.
    intros Hm Hok HX1 HX2. unfold modifiers. destruct (has cfg X_COMPONENT_MODIFIERS) eqn:E; cbn [negb].
    - unfold bind, rest. cbn [b_rest St].
      rewrite (modifiers_loop_print cfg ms _ [] o al dn ev X Hok); auto.
      rewrite app_length, place_length. pose proof (len_mods ms). lia.
    - rewrite orb_false_r in Hm. destruct ms; [|discriminate]. reflexivity.
  Qed.

  Lemma parse_modifiers_print ms o mpos :
    forallb (mitem_ok cfg) ms = true -> nodup_k (map mitem_kind ms) = true ->
    exists msp inter,
      (forall s, parse_modifiers cfg (place o (print_mods ms)) mpos s = Done ((mods_bits ms, msp, inter), s)) /\
      option_map iproj inter = mods_inter ms.
  Proof.
    intros Hok Hnd. unfold parse_modifiers.
    destruct (place o (print_mods ms)) as [|t0 T] eqn:E.
    - assert (ms = []).
      { destruct ms as [|m r]; [reflexivity|]. rewrite print_mods_cons, place_app in E.
        destruct m; cbn [print_mitem place app] in E; discriminate. }
      subst ms. exists (mpos, mpos), None. split; [intro s; reflexivity|reflexivity].
    - rewrite <- E.
      destruct (pml_print cfg ms (S (length (place o (print_mods ms)))) o (tokens_span (place o (print_mods ms)))
                  (fun _ => false) None Hok Hnd) as (inter' & Hl & Hp); auto.
      exists (tokens_span (place o (print_mods ms))), inter'. split.
      + intro s. unfold bind. change 0 with (enc (fun _ => false)). rewrite Hl. rewrite (mods_bits_enc ms Hok). reflexivity.
      + rewrite Hp. destruct (mods_inter ms); reflexivity.
  Qed.
End Mods3.

(* ---------------------------------------------------------------- C01, components *)
Definition comp_fn (cfg : pcfg) (k : ckind) : M (option pevent) :=
  match k with
  | CIgr => with_recover (ingredient_p cfg)
  | CCw => with_recover (cookware_p cfg)
  | CTm => with_recover (timer_p cfg)
  end.

Lemma comp_layout c off :
  let o0 := off + blen (snd (marker_p (cs_kind c))) in
  let o1 := o0 + blen (unlex (print_mods (cs_mods c))) in
  let o2 := o1 + blen (unlex (print_cname c)) in
  exists o3,
    place off (print_comp c)
    = {| kind := fst (marker_p (cs_kind c)); tstr := snd (marker_p (cs_kind c)); tstart := off |}
        :: place o0 (print_mods (cs_mods c)) ++ place o1 (print_cname c) ++ place o2 (print_cbody (cs_body c)) ++ place o3 (print_cnote c).
Proof.
  intros o0 o1 o2. unfold print_comp. cbn [place]. fold o0. rewrite place_app. fold o1. rewrite place_app. fold o2. rewrite place_app.
  eexists. reflexivity.
Qed.

Lemma is_modifier_k_eq k : is_modifier_kind k = is_modifier_k k.
Proof. destruct k; reflexivity. Qed.

Lemma with_recover_some {A} (m : M (option A)) s a s' : m s = Done (Some a, s') -> with_recover m s = Done (Some a, s').
Proof. intro H. unfold with_recover. rewrite H. reflexivity. Qed.

Lemma first_mo_app A B : first_mo (A ++ B) = match first_mo A with KEof => first_mo B | k => k end.
Proof.
  induction A as [|t A IH]; [reflexivity|]. cbn [app first_mo]. destruct (is_marker_or_open (kind t)) eqn:E; [|exact IH].
  destruct (kind t); try discriminate; reflexivity.
Qed.

Lemma first_mo_p_none n : no_kinds [KOpenBrace; KAt; KHash; KTilde] n = true -> first_mo_p n = KEof.
Proof.
  induction n as [|t n IH]; [reflexivity|]. cbn [no_kinds forallb first_mo_p]. intro W.
  apply andb_true_iff in W as [W1 W2].
  assert (H : is_marker_or_open (fst t) = false) by (destruct (fst t); try reflexivity; discriminate).
  rewrite H. apply IH. exact W2.
Qed.

Lemma first_mo_p_app a b : first_mo_p (a ++ b) = match first_mo_p a with KEof => first_mo_p b | k => k end.
Proof.
  induction a as [|t a IH]; [reflexivity|]. cbn [app first_mo_p]. destruct (is_marker_or_open (fst t)) eqn:E; [|exact IH].
  destruct (fst t); try discriminate; reflexivity.
Qed.

Lemma qproj_unit q' q : qproj q' = denote_qty q ->
  (qs_unit q = None -> q_unit q' = None) /\ (qs_unit q <> None -> q_unit q' <> None).
Proof.
  unfold qproj, denote_qty. intro H. injection H as _ _ Hu. split; intro Hq.
  - rewrite Hq in Hu. destruct (q_unit q'); [discriminate|reflexivity].
  - destruct (qs_unit q); [|contradiction]. destruct (q_unit q'); discriminate.
Qed.

Section CompPrint.
  Variable cfg : pcfg.

  Theorem comp_print c k off al dn ev :
    comp_wf cfg c = true -> comp_follow c k = true ->
    exists pe,
      comp_fn cfg (cs_kind c) (St al dn (place off (print_comp c ++ k)) ev)
      = Done (Some pe, St al (rev (place off (print_comp c)) ++ dn)
                          (place (off + blen (unlex (print_comp c))) k) ev) /\
      ev_proj pe = denote_comp c.
  Proof.
    intros W F. unfold comp_wf in W.
    apply andb_true_iff in W as [W Wnote]. apply andb_true_iff in W as [W Wbody].
    apply andb_true_iff in W as [W Walias]. apply andb_true_iff in W as [W Wnb].
    apply andb_true_iff in W as [W Wnop]. apply andb_true_iff in W as [W Wmod].
    apply andb_true_iff in W as [W Wmi]. apply andb_true_iff in W as [W Wnd]. apply andb_true_iff in W as [W Wmx].
    apply andb_true_iff in W as [Wstrict Wname].
    assert (Hstrict : p_strict_escape cfg = false) by (apply negb_true; exact Wstrict).
    apply negb_true in Wmod, Wnop.
    assert (Hmok : forallb (mitem_ok cfg) (cs_mods c) = true).
    { eapply forallb_impl; [|exact Wmi]. intros m Hm. destruct m as [k0|i]; cbn [mitem_ok].
      - apply andb_true_iff in Hm as [Hm _]. exact Hm.
      - apply andb_true_iff in Hm as [Hm _]. apply andb_true_iff in Hm as [Hm H5]. apply andb_true_iff in Hm as [Hm H4].
        apply andb_true_iff in Hm as [Hm H3]. apply andb_true_iff in Hm as [Hm H2]. apply andb_true_iff in Hm as [Hi H1].
        unfold ispec_ok. rewrite Hi, H1, H2, H3, H4, H5. reflexivity. } unfold comp_follow in F. apply andb_true_iff in F as [Fnote Fbody].
    rewrite place_app. destruct (comp_layout c off) as (o3 & Elay). cbv zeta in Elay.
    set (M := {| kind := fst (marker_p (cs_kind c)); tstr := snd (marker_p (cs_kind c)); tstart := off |}) in *.
    set (o0 := off + blen (snd (marker_p (cs_kind c)))) in *.
    set (o1 := o0 + blen (unlex (print_mods (cs_mods c)))) in *.
    set (o2 := o1 + blen (unlex (print_cname c))) in *.
    set (MD := place o0 (print_mods (cs_mods c))) in *.
    set (KT := place (off + blen (unlex (print_comp c))) k).
    set (NM := place o1 (print_cname c)) in *. set (BD := place o2 (print_cbody (cs_body c))) in *.
    set (NT := place o3 (print_cnote c)) in *.
    rewrite Elay. cbn [app rev]. rewrite <- !app_assoc.
    (* alias facts *)
    assert (Hal1 : match cs_alias c with Some a => ctext_ok a = true | None => True end).
    { destruct (cs_alias c); [|exact I]. apply andb_true_iff in Walias as [Wa _]. apply andb_true_iff in Wa as [Wa _].
      apply andb_true_iff in Wa as [Wa _]. apply andb_true_iff in Wa as [_ Wa]. exact Wa. }
    assert (Hal2 : match cs_alias c with
                   | Some a => has cfg X_COMPONENT_ALIAS && no_kinds [KOr] (cs_name c) && no_kinds [KOr] a && ctext_ok a &&
                               negb (str_blank (toks_text a)) = true
                   | None => negb (has cfg X_COMPONENT_ALIAS) || no_kinds [KOr] (cs_name c) = true
                   end).
    { destruct (cs_alias c); [|exact Walias]. apply andb_true_iff in Walias as [Wa _]. apply andb_true_iff in Wa as [Wa _]. exact Wa. }
    (* note facts *)
    assert (Hnote1 : match cs_note c with
                     | Some n => ctext_ok n && no_kinds [KCloseParen] n = true
                     | None => tk_eqb (match KT with t :: _ => kind t | [] => KEof end) KOpenParen = false
                     end).
    { destruct (cs_note c).
      - apply andb_true_iff in Wnote as [Wn _]. exact Wn.
      - unfold KT. rewrite place_head_kind. apply negb_true. exact Fnote. }
    destruct (note_reads cfg Hstrict c KT o3 al (rev BD ++ rev NM ++ rev MD ++ M :: dn) ev Hnote1) as (nt & Hnt & Hntp).
    fold NT in Hnt.
    (* body *)
    assert (Hbd : match cs_body c with
                  | BQty q tp => qty_wf cfg q tp = true /\ no_kinds [KCloseBrace] (print_qty q tp) = true
                  | BEmpty inner => forallb (fun t => is_ws_block (fst t) && shape_ok t) inner = true
                  | BWord => forallb (fun t => is_single_word_tok (fst t)) (cs_name c) = true /\ cs_name c <> [] /\
                             cs_alias c = None /\
                             match NT ++ KT with [] => True | x :: _ => is_single_word_tok (kind x) = false end /\
                             first_mo (NT ++ KT) <> KOpenBrace
                  end).
    { destruct (cs_body c) as [q tp | inner |].
      - apply andb_true_iff in Wbody as [Wb _]. apply andb_true_iff in Wb as [Wb1 Wb2]. split; assumption.
      - apply andb_true_iff in Wbody as [Wb _]. exact Wb.
      - apply andb_true_iff in Wbody as [Wb _]. apply andb_true_iff in Wb as [Wb1 Wb2].
        apply andb_true_iff in Fbody as [Fb1 Fb2]. apply negb_true in Fb2.
        split; [exact Wb1|]. split; [destruct (cs_name c); [discriminate|discriminate]|].
        split; [destruct (cs_alias c); [|reflexivity]; apply andb_true_iff in Walias as [_ Wa]; discriminate|].
        unfold NT, KT, print_cnote. destruct (cs_note c) as [n|].
        + split; [reflexivity|]. rewrite first_mo_app, !first_mo_place.
          apply andb_true_iff in Wnote as [Wn _]. apply andb_true_iff in Wn as [Wn _].
          unfold ctext_ok in Wn. apply andb_true_iff in Wn as [_ Wn].
          change (op_p :: n ++ [cp_p]) with ([op_p] ++ n ++ [cp_p]).
          rewrite !first_mo_p_app, (first_mo_p_none n Wn). cbn [first_mo_p fst op_p cp_p is_marker_or_open].
          intro E. rewrite E in Fb2. discriminate.
        + cbn [place app]. split.
          * pose proof (place_head_kind k (off + blen (unlex (print_comp c)))) as Hh.
            destruct (place (off + blen (unlex (print_comp c))) k); [exact I|]. rewrite Hh. apply negb_true. exact Fb1.
          * rewrite first_mo_place. intro E. rewrite E in Fb2. discriminate. }
    destruct (body_reads cfg c (NT ++ KT) o1 al (rev MD ++ M :: dn) ev Wname Hal1 Hbd) as (bd & Hbody & Hbn & Hbq).
    cbv zeta in Hbody. fold o2 NM BD in Hbody, Hbn.
    (* name / alias *)
    destruct (alias_reads cfg Hstrict c o1 Wname Hal2) as (tn & ta & Hpa & Htn & Hten & Hta).
    fold NM in Hpa. rewrite <- Hbn in Hpa.
    (* modifiers *)
    assert (Hne : print_cname c ++ print_cbody (cs_body c) <> []).
    { destruct (cs_body c); cbn [print_cbody]; try (destruct (print_cname c); discriminate).
      rewrite app_nil_r. unfold print_cname. destruct Hbd as (_ & Hne & _). destruct (cs_name c); [contradiction|discriminate]. }
    assert (Hhd : hdk (NM ++ BD ++ NT ++ KT) = head_kind (print_cname c ++ print_cbody (cs_body c))).
    { unfold NM, BD. rewrite app_assoc, <- place_app. unfold hdk.
      destruct (print_cname c ++ print_cbody (cs_body c)); [contradiction|reflexivity]. }
    assert (Hmods : modifiers cfg (St al (M :: dn) (MD ++ NM ++ BD ++ NT ++ KT) ev)
                    = Done (MD, St al (rev MD ++ M :: dn) (NM ++ BD ++ NT ++ KT) ev)).
    { apply modifiers_print; auto.
      - rewrite Hhd, is_modifier_k_eq. exact Wmod.
      - rewrite Hhd. exact Wnop. }
    assert (Hcur0 : current_offset_of (St al (M :: dn) (MD ++ NM ++ BD ++ NT ++ KT) ev) = o0) by reflexivity.
    assert (Hcur : current_offset_of (St al (rev MD ++ M :: dn) (NM ++ BD ++ NT ++ KT) ev) = o1).
    { unfold MD, o1. apply cur_after'. reflexivity. }
    destruct (parse_modifiers_print cfg (cs_mods c) o0 o0 Hmok Wnd) as (msp & minter & Hpm & Hpmi). fold MD in Hpm.
    (* quantity *)
    assert (Hq : exists qres sepo,
               qty_part cfg bd (St al (rev NT ++ rev BD ++ rev NM ++ rev MD ++ M :: dn) KT ev) qres sepo /\
               option_map qproj qres = denote_cqty (cs_body c)).
    { unfold qty_part. rewrite Hbq. destruct (cs_body c) as [q tp | inner |].
      - destruct Hbd as [Wq _].
        destruct (parse_quantity_print cfg q tp (o2 + blen [123]) (St al (rev NT ++ rev BD ++ rev NM ++ rev MD ++ M :: dn) KT ev) Wq)
          as (q' & sep & Hp & Hpj).
        exists (Some q'), (Some sep). split; [exists q', sep; auto|]. cbn [option_map denote_cqty]. rewrite Hpj. reflexivity.
      - exists None, None. split; [split; reflexivity|reflexivity].
      - exists None, None. split; [split; reflexivity|reflexivity]. }
    destruct Hq as (qres & sepo & Hqp & Hqd).
    assert (Hdn : rev NT ++ rev BD ++ rev NM ++ rev MD ++ M :: dn = rev (MD ++ NM ++ BD ++ NT) ++ [M] ++ dn).
    { rewrite !rev_app_distr, <- !app_assoc. reflexivity. }
    rewrite <- Hdn.
    unfold comp_fn. unfold denote_comp.
    destruct (cs_kind c) eqn:Ek.
    - (* ingredient *)
      assert (HkM : kind M = KAt) by reflexivity.
      assert (Hne' : is_text_empty tn = false) by (rewrite Hten; destruct (cs_body c); apply negb_true; exact Wnb).
      destruct (ingredient_assemble cfg M (MD ++ NM ++ BD ++ NT ++ KT) al dn ev MD (rev MD ++ M :: dn) (NM ++ BD ++ NT ++ KT) bd
                  (rev BD ++ rev NM ++ rev MD ++ M :: dn) (NT ++ KT) nt (rev NT ++ rev BD ++ rev NM ++ rev MD ++ M :: dn) KT tn ta
                  (mods_bits (cs_mods c)) msp minter qres sepo
                  HkM Hmods Hbody Hnt (ltac:(rewrite Hcur; exact Hpa)) Hne' Hpm Hqp)
        as (sp & Hi).
      eexists. split; [apply with_recover_some; exact Hi|].
      cbn [ev_proj i_mods i_inter i_name i_alias i_qty i_note]. rewrite Htn, Hta, Hqd, Hntp.
      change (option_map (fun d => (im_relative d, im_section d, im_val d)) minter) with (option_map iproj minter).
      rewrite Hpmi. reflexivity.
    - (* cookware *)
      assert (Hun : match qres with Some q => q_unit q = None | None => True end).
      { destruct qres as [q'|]; [|exact I]. destruct (cs_body c) as [q tp | |]; try discriminate.
        apply andb_true_iff in Wbody as [_ Wu]. destruct (qs_unit q) eqn:Eu; [discriminate|].
        cbn [option_map denote_cqty] in Hqd.
        pose proof (f_equal (fun o => match o with Some x => x | None => qproj q' end) Hqd) as Hq'; cbv beta iota in Hq'. apply (qproj_unit q' q Hq'). exact Eu. }
      assert (HkM : kind M = KHash) by reflexivity.
      assert (Hne' : is_text_empty tn = false) by (rewrite Hten; destruct (cs_body c); apply negb_true; exact Wnb).
      assert (Hcwm : minter = None /\ (N.land (mods_bits (cs_mods c)) M_RECIPE =? M_RECIPE) = false).
      { assert (Hcm : forallb (fun m => match m with MC k0 => negb (tk_eqb k0 KAt) | MRef _ => false end) (cs_mods c) = true).
        { eapply forallb_impl; [|exact Wmi]. intros m Hm. destruct m as [k0|i].
          - apply andb_true_iff in Hm as [_ Hm]. destruct k0; try reflexivity. discriminate.
          - apply andb_true_iff in Hm as [_ Hm]. discriminate. }
        split.
        - assert (Hmi : mods_inter (cs_mods c) = None).
          { clear - Hcm. induction (cs_mods c) as [|m r IH]; [reflexivity|]. cbn [forallb] in Hcm.
            apply andb_true_iff in Hcm as [H1 H2]. destruct m; [exact (IH H2)|discriminate]. }
          rewrite Hmi in Hpmi. destruct minter; [discriminate|reflexivity].
        - rewrite (mods_bits_enc cfg _ Hmok). change M_RECIPE with (kind_bit KAt). rewrite (land_enc KAt _ eq_refl).
          rewrite orb_false_r.
          clear - Hcm. induction (cs_mods c) as [|m r IH]; [reflexivity|]. cbn [forallb map existsb] in *.
          apply andb_true_iff in Hcm as [H1 H2]. rewrite (IH H2), orb_false_r.
          destruct m as [k0|]; [|discriminate]. cbn [mitem_kind]. destruct k0; try reflexivity. discriminate. }
      destruct Hcwm as [Hmn Hrec]. subst minter.
      destruct (cookware_assemble cfg M (MD ++ NM ++ BD ++ NT ++ KT) al dn ev MD (rev MD ++ M :: dn) (NM ++ BD ++ NT ++ KT) bd
                  (rev BD ++ rev NM ++ rev MD ++ M :: dn) (NT ++ KT) nt (rev NT ++ rev BD ++ rev NM ++ rev MD ++ M :: dn) KT tn ta
                  (mods_bits (cs_mods c)) msp qres sepo
                  HkM Hmods Hbody Hnt (ltac:(rewrite Hcur; exact Hpa)) Hne' Hpm Hrec Hqp Hun)
        as (sp & Hi).
      eexists. split; [apply with_recover_some; exact Hi|].
      cbn [ev_proj Parser.c_mods Parser.c_name Parser.c_alias Parser.c_qty Parser.c_note option_map].
      rewrite Htn, Hta, Hntp, <- Hqd. destruct qres; reflexivity.
    - (* timer *)
      assert (Hnal : cs_alias c = None /\ cs_note c = None).
      { split.
        - destruct (cs_alias c); [|reflexivity]. apply andb_true_iff in Walias as [Wa _]. apply andb_true_iff in Wa as [_ Wa]. discriminate.
        - destruct (cs_note c); [|reflexivity]. apply andb_true_iff in Wnote as [_ Wn]. discriminate. }
      destruct Hnal as [Hna Hnn].
      assert (HNT : NT = []) by (unfold NT, print_cnote; rewrite Hnn; reflexivity).
      assert (Hms : cs_mods c = []).
      { destruct (cs_mods c) as [|m r]; [reflexivity|]. cbn [forallb] in Wmi. apply andb_true_iff in Wmi as [Hm _].
        destruct m as [k0|i]; apply andb_true_iff in Hm as [_ Hm]; [destruct k0|]; discriminate. }
      assert (HMD : MD = []) by (unfold MD; rewrite Hms; reflexivity).
      rewrite HNT, HMD in *. cbn [app rev] in *.
      assert (HkM : kind M = KTilde) by reflexivity.
      assert (Hal : has cfg X_COMPONENT_ALIAS = false \/ position (fun k0 => tk_eqb k0 KOr) (bd_name bd) = None).
      { rewrite Hbn. unfold NM, print_cname. rewrite Hna, app_nil_r.
        rewrite Hna in Hal2. apply orb_true_iff in Hal2 as [H|H]; [left; apply negb_true; exact H|right].
        apply position_none. apply no_kind_place. exact H. }
      assert (Hnp : tk_eqb (peek_of (St al (rev BD ++ rev NM ++ M :: dn) KT ev)) KOpenParen = false).
      { unfold peek_of. cbn [b_rest St]. rewrite Hnn in Hnote1. exact Hnote1. }
      assert (Hname : text_of cfg (current_offset_of (St al (M :: dn) (NM ++ BD ++ KT) ev)) (bd_name bd) = Done tn).
      { rewrite Hcur. specialize (Hpa (St al dn [] ev)).
        assert (E : parse_alias cfg (bd_name bd) o1 = bind (textM cfg o1 (bd_name bd)) (fun nt0 => ret (nt0, None))).
        { destruct Hal as [H|H]; [apply alias_off; exact H|apply alias_untriggered; exact H]. }
        rewrite E in Hpa. unfold bind, textM, lift, ret in Hpa.
        destruct (text_of cfg o1 (bd_name bd)); [|discriminate]. inversion Hpa; subst. reflexivity. }
      assert (Hun : match qres with
                    | Some q => q_unit q <> None
                    | None => has cfg X_TIMER_REQUIRES_TIME = false /\ is_text_empty tn = false
                    end).
      { destruct qres as [q'|].
        - destruct (cs_body c) as [q tp | |]; try discriminate.
          apply andb_true_iff in Wbody as [_ Wu]. destruct (qs_unit q) eqn:Eu; [|discriminate].
          cbn [option_map denote_cqty] in Hqd.
          pose proof (f_equal (fun o => match o with Some x => x | None => qproj q' end) Hqd) as Hq'; cbv beta iota in Hq'.
          apply (qproj_unit q' q Hq'). rewrite Eu. discriminate.
        - rewrite Hten. destruct (cs_body c) as [q tp | inner |]; [discriminate| |].
          + apply andb_true_iff in Wbody as [_ Wt]. split; apply negb_true; assumption.
          + apply andb_true_iff in Wbody as [_ Wt]. split; apply negb_true; assumption. }
      destruct (timer_assemble cfg M (NM ++ BD ++ KT) al dn ev bd (rev BD ++ rev NM ++ M :: dn) KT tn qres sepo
                  HkM Hmods Hbody Hal Hnp Hname Hqp Hun) as (sp & Hi).
      eexists. split; [apply with_recover_some; exact Hi|].
      cbn [ev_proj t_name t_qty option_map]. rewrite Hten, Hqd.
      destruct (str_blank (toks_text (cs_name c))); cbn [option_map]; rewrite ?Htn; reflexivity.
  Qed.
End CompPrint.
