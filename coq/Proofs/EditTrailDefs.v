(* Property C17, event level, the trailing edit: blanks (U+0020) and / or a line comment appended at the
   end of a line - before the newline token or at the end of the input.  Definitions.

   [wsimb e l1 l2]  the right token list is the left one with (a) tokens inserted directly before a
                    newline token (or, when [e], at the very end): blank tokens made of U+0020 and line
                    comment tokens; (b) a blank token that stands directly before a newline token (or
                    at the end) lengthened by U+0020s.  Positions are free, comment and newline texts
                    are free ([krel] of Proofs/EditSimDefs.v).  No brace state: a line may end inside
                    a quantity, a note, a modifier group.
   [spins e s1 s2]  on rendered text: s2 is s1 with U+0020s inserted directly before a U+0020 (the
                    soft break that the newline renders to) and, when [e], appended at the end.
   [evw l1 l2]      on event stacks (newest first): same events up to positions ([erel]); text events
                    up to [spins false]; the last text before an End event up to [spins true]; one more
                    blank text event on the right between a component event and End; warnings may
                    come and go on either side (a lone marker at a line end draws a warning that a
                    following blank removes); an error corresponds to an error (the code may differ:
                    a malformed `&(...)` group that holds a line end).
   The logic is [HJ] of Proofs/EditInsDefs.v over the state relation [Sw]. *)
From Coq Require Import List Lia.
From CL Require Import Base.StrLemmas Model.Lexer Model.PText Model.CommentMask Model.Parser Model.Edits
  Proofs.EditParserProofs Proofs.EditSimDefs Proofs.EditInsDefs.
Import ListNotations.

(* ---------------------------------------------------------------- strings *)
Definition is32 (c : N) : bool := c =? 32.
Definition sp32 (s : str) : Prop := forallb is32 s = true.

Inductive spins (e : bool) : str -> str -> Prop :=
| sp_nil : spins e [] []
| sp_end w : e = true -> sp32 w -> spins e [] w
| sp_cons c r1 r2 : spins e r1 r2 -> spins e (c :: r1) (c :: r2)
| sp_ins r1 r2 : spins e (32 :: r1) r2 -> spins e (32 :: r1) (32 :: r2).

(* ---------------------------------------------------------------- tokens *)
(* a lone backslash: the lexer makes it only of the very last character of its input *)
Definition esc_lone (t : tok) : bool :=
  tk_eqb (kind t) KEscaped && match tl (tstr t) with [] => true | _ => false end.

Definition atnl (e : bool) (r : list tok) : Prop :=
  match r with [] => e = true | t :: _ => kind t = KNewline end.

(* an inserted token *)
Definition gtok (g : tok) : Prop :=
  (kind g = KWs /\ sp32 (tstr g) /\ tstr g <> []) \/ (kind g = KLineComment /\ tstr g <> []).

(* a blank token lengthened by U+0020s *)
Definition wsx (a b : tok) : Prop :=
  kind a = KWs /\ kind b = KWs /\ tstr a <> [] /\ exists s, tstr b = tstr a ++ s /\ sp32 s.

Definition okc (a : tok) (r1 r2 : list tok) : Prop := esc_lone a = false \/ (r1 = [] /\ r2 = []).

Inductive wsimb (e : bool) : list tok -> list tok -> Prop :=
| w_nil : wsimb e [] []
| w_cons a b r1 r2 : krel a b -> okc a r1 r2 -> wsimb e r1 r2 -> wsimb e (a :: r1) (b :: r2)
| w_wsx a b r1 r2 : wsx a b -> atnl e r1 -> wsimb e r1 r2 -> wsimb e (a :: r1) (b :: r2)
| w_ins g r1 r2 : gtok g -> atnl e r1 -> wsimb e r1 r2 -> wsimb e r1 (g :: r2).

Definition W : list tok -> list tok -> Prop := wsimb true.     (* the remaining tokens of a block *)
Definition Wi : list tok -> list tok -> Prop := wsimb false.   (* tokens in front of a token that was found *)

(* ---------------------------------------------------------------- texts *)
(* [e = false]: inside a block (names, aliases, notes, units, values, text before a marker);
   [e = true]: up to the end of the block *)
Definition trw (e : bool) (t1 t2 : text) : Prop :=
  spins e (text_str t1) (text_str t2) /\ is_text_empty t1 = is_text_empty t2
  /\ (e = false -> (frags t1 = [] <-> frags t2 = [])).

(* on a line without a newline token: blanks appended, nothing else *)
Definition trT (t1 t2 : text) : Prop :=
  (exists w, sp32 w /\ text_str t2 = text_str t1 ++ w) /\ is_text_empty t1 = is_text_empty t2.

(* ---------------------------------------------------------------- events *)
Definition is_comp (e : pevent) : bool :=
  match e with EvIngredient _ | EvCookware _ | EvTimer _ => true | _ => false end.
Definition is_warning (e : pevent) : bool :=
  match e with EvDiag d => negb (d_err d) | _ => false end.
Definition is_end (e : pevent) : bool := match e with EvEnd _ => true | _ => false end.

(* event stacks, newest first *)
Inductive evw : list pevent -> list pevent -> Prop :=
| evw_nil : evw [] []
| evw_cons e1 e2 l1 l2 : erel e1 e2 -> evw l1 l2 -> evw (e1 :: l1) (e2 :: l2)
| evw_text t1 t2 l1 l2 :
    spins false (text_str t1) (text_str t2) -> evw l1 l2 -> evw (EvText t1 :: l1) (EvText t2 :: l2)
| evw_err d1 d2 l1 l2 : d_err d1 = true -> d_err d2 = true -> evw l1 l2 -> evw (EvDiag d1 :: l1) (EvDiag d2 :: l2)
| evw_wl w l1 l2 : is_warning w = true -> evw l1 l2 -> evw (w :: l1) l2
| evw_wr w l1 l2 : is_warning w = true -> evw l1 l2 -> evw l1 (w :: l2)
| evw_end_text b t1 t2 l1 l2 :
    spins true (text_str t1) (text_str t2) -> text_str t1 <> [] -> evw l1 l2 ->
    evw (EvEnd b :: EvText t1 :: l1) (EvEnd b :: EvText t2 :: l2)
| evw_end_blank b t2 c1 c2 l1 l2 :
    sp32 (text_str t2) -> is_comp c1 = true -> erel c1 c2 -> evw l1 l2 ->
    evw (EvEnd b :: c1 :: l1) (EvEnd b :: EvText t2 :: c2 :: l2).

(* the stacks just before the End event of a step or paragraph *)
Inductive evfin : list pevent -> list pevent -> Prop :=
| evfin_same l1 l2 : evw l1 l2 -> evfin l1 l2
| evfin_text t1 t2 l1 l2 :
    spins true (text_str t1) (text_str t2) -> text_str t1 <> [] -> evw l1 l2 -> evfin (EvText t1 :: l1) (EvText t2 :: l2)
| evfin_blank t2 c1 c2 l1 l2 :
    sp32 (text_str t2) -> is_comp c1 = true -> erel c1 c2 -> evw l1 l2 ->
    evfin (c1 :: l1) (EvText t2 :: c2 :: l2).

(* the same relation on event lists in the order of emission (what [events] returns) *)
Inductive fwr : list pevent -> list pevent -> Prop :=
| fw_nil : fwr [] []
| fw_cons e1 e2 l1 l2 : erel e1 e2 -> fwr l1 l2 -> fwr (e1 :: l1) (e2 :: l2)
| fw_text t1 t2 l1 l2 :
    spins false (text_str t1) (text_str t2) -> fwr l1 l2 -> fwr (EvText t1 :: l1) (EvText t2 :: l2)
| fw_err d1 d2 l1 l2 : d_err d1 = true -> d_err d2 = true -> fwr l1 l2 -> fwr (EvDiag d1 :: l1) (EvDiag d2 :: l2)
| fw_wl w l1 l2 : is_warning w = true -> fwr l1 l2 -> fwr (w :: l1) l2
| fw_wr w l1 l2 : is_warning w = true -> fwr l1 l2 -> fwr l1 (w :: l2)
| fw_end_text b t1 t2 l1 l2 :
    spins true (text_str t1) (text_str t2) -> text_str t1 <> [] -> fwr l1 l2 ->
    fwr (EvText t1 :: EvEnd b :: l1) (EvText t2 :: EvEnd b :: l2)
| fw_end_blank b t2 c1 c2 l1 l2 :
    sp32 (text_str t2) -> is_comp c1 = true -> erel c1 c2 -> fwr l1 l2 ->
    fwr (c1 :: EvEnd b :: l1) (c2 :: EvText t2 :: EvEnd b :: l2).

Lemma evw_fwr_gen l1 l2 : evw l1 l2 -> forall a1 a2, fwr a1 a2 -> fwr (rev l1 ++ a1) (rev l2 ++ a2).
Proof.
  induction 1 as [|e1 e2 l1 l2 He _ IH|t1 t2 l1 l2 Ht _ IH|d1 d2 l1 l2 H1 H2 _ IH|w l1 l2 Hw _ IH|w l1 l2 Hw _ IH
                 |b t1 t2 l1 l2 Ht Hn _ IH|b t2 c1 c2 l1 l2 Hb Hc He _ IH]; intros a1 a2 Ha; cbn [rev]; rewrite <- ?app_assoc; cbn [app].
  - exact Ha.
  - apply IH. apply fw_cons; assumption.
  - apply IH. apply fw_text; assumption.
  - apply IH. apply fw_err; assumption.
  - apply IH. apply fw_wl; assumption.
  - apply IH. apply fw_wr; assumption.
  - apply IH. apply fw_end_text; assumption.
  - apply IH. apply fw_end_blank; assumption.
Qed.

Theorem evw_fwr l1 l2 : evw l1 l2 -> fwr (rev l1) (rev l2).
Proof. intro H. rewrite <- (app_nil_r (rev l1)), <- (app_nil_r (rev l2)). apply evw_fwr_gen; [exact H | constructor]. Qed.

(* ---------------------------------------------------------------- parser states *)
(* what the parser asks of all the tokens of a block: is there a `%`, is the block empty *)
Definition ball_test (l : list tok) : bool * bool :=
  (existsb (fun t => tk_eqb (kind t) KPercent) l, forallb (fun t => is_empty_tok (kind t)) l).
Definition ballr (l1 l2 : list tok) : Prop := ball_test l1 = ball_test l2.

Definition Sw (T : list tok -> list tok -> Prop) (s1 s2 : bp) : Prop :=
  T (b_rest s1) (b_rest s2) /\ ballr (b_all s1) (b_all s2) /\ evw (b_evs s1) (b_evs s2).

Definition WL {A B} (T : list tok -> list tok -> Prop) (R : A -> B -> Prop) (m1 : M A) (m2 : M B)
           (T' : list tok -> list tok -> Prop) : Prop :=
  HJ (Sw T) m1 m2 (fun a s1 b s2 => R a b /\ Sw T' s1 s2).

(* computations that do not look at the tokens of the state *)
Definition WN {A B} (R : A -> B -> Prop) (m1 : M A) (m2 : M B) : Prop := forall T, WL T R m1 m2 T.

(* the kinds a trailing edit can put in front of the parser, as one class *)
Definition kcl (k : tkind) : option tkind :=
  match k with KWs | KLineComment | KNewline | KEof => None | _ => Some k end.
