(* Property C17, the trailing edit, lexer level: U+0020s and / or a line comment appended at the end
   of a line.  The tokens of the edited text stand in [wsimb true] (EditTrailDefs.v) to the tokens
   of the original text:

   wsimb_refl / wsimb_shift   a lexed token list is related to itself and to its shifted copy (a lone
                              backslash token is only ever the last token: [lex_lone_last])
   lex_ws_extend              blanks appended directly after a trailing blank token lengthen that token
   lex_blanks_then            U+0020s in front of a text that does not start with a blank: one Ws token
   trail_tokens               the theorem *)
From Coq Require Import List Lia.
From CL Require Import Base.StrLemmas Model.Lexer Model.PText Model.CommentMask Model.Parser Model.Edits
  Proofs.LexerProofs Proofs.MaskProofs Proofs.EditProofs Proofs.EditParserProofs Proofs.EditLink
  Proofs.EditSimDefs Proofs.EditSimDoc.
From CL Require Import Proofs.EditTrailDefs Proofs.EditTrailStr.
Import ListNotations.

(* ---------------------------------------------------------------- token lists *)
Definition nolone (ts : list tok) : Prop := Forall (fun t => esc_lone t = false) ts.

(* a lone backslash token is the last token *)
Fixpoint lone_last (ts : list tok) : Prop :=
  match ts with [] => True | t :: r => (esc_lone t = false \/ r = []) /\ lone_last r end.

Lemma wsimb_refl e ts :
  Forall (fun t => tstr t <> []) ts -> Forall newline_ok ts -> lone_last ts -> wsimb e ts ts.
Proof.
  induction ts as [|t r IH]; intros H1 H2 HL; [apply w_nil|].
  inversion H1; inversion H2; subst. destruct HL as [HL1 HL2].
  apply w_cons.
  - apply krel_refl; assumption.
  - destruct HL1 as [HL1 | ->]; [left; exact HL1 | right; split; reflexivity].
  - apply IH; assumption.
Qed.

Lemma wsimb_shift e n ts :
  Forall (fun t => tstr t <> []) ts -> Forall newline_ok ts -> lone_last ts -> wsimb e ts (shift n ts).
Proof.
  induction ts as [|t r IH]; intros H1 H2 HL; [apply w_nil|].
  inversion H1; inversion H2; subst. destruct HL as [HL1 HL2]. cbn [shift map].
  apply w_cons.
  - repeat split; auto.
  - destruct HL1 as [HL1 | ->]; [left; exact HL1 | right; split; reflexivity].
  - apply IH; assumption.
Qed.

Lemma wsimb_prefix e p r1 r2 :
  Forall (fun t => tstr t <> []) p -> Forall newline_ok p -> nolone p ->
  wsimb e r1 r2 -> wsimb e (p ++ r1) (p ++ r2).
Proof.
  intros H1 H2 H3 H. induction p as [|t r IH]; [exact H|].
  inversion H1; inversion H2; inversion H3; subst. cbn [app].
  apply w_cons; [apply krel_refl; assumption | left; assumption | apply IH; assumption].
Qed.

Lemma lone_last_app_r p q : lone_last (p ++ q) -> lone_last q.
Proof. induction p as [|t r IH]; [auto|]. cbn [app lone_last]. intros [_ H]. apply IH. exact H. Qed.

Lemma lone_last_app_l p q : lone_last (p ++ q) -> q <> [] -> nolone p.
Proof.
  intros H Hq. induction p as [|t r IH]; [constructor|]. cbn [app lone_last] in H. destruct H as [H1 H2].
  constructor; [|apply IH; exact H2].
  destruct H1 as [H1 | H1]; [exact H1|]. apply app_eq_nil in H1 as [_ H1]. congruence.
Qed.

Lemma list_last_split {A} (l : list A) : l = [] \/ exists p t, l = p ++ [t].
Proof.
  destruct (rev l) as [|t r] eqn:E.
  - left. rewrite <- (rev_involutive l), E. reflexivity.
  - right. exists (rev r), t. rewrite <- (rev_involutive l), E. reflexivity.
Qed.

Lemma last_open_ended_snoc p t : last_open_ended (p ++ [t]) = open_ended t.
Proof. unfold last_open_ended. rewrite rev_app_distr. reflexivity. Qed.
Lemma last_is_ws_snoc p t : last_is_ws (p ++ [t]) = tk_eqb (kind t) KWs.
Proof. unfold last_is_ws. rewrite rev_app_distr. reflexivity. Qed.

Lemma open_ended_esc t : tstr t <> [] -> open_ended t = false -> esc_lone t = false.
Proof.
  unfold open_ended, esc_lone. intros Hn H. destruct (kind t); try reflexivity.
  cbn [tk_eqb tkind_beq andb]. destruct (tstr t) as [|c r]; [congruence|]. cbn [tl].
  destruct r; [discriminate H | reflexivity].
Qed.

Lemma gtok_shift n g : gtok g -> gtok (shift_tok n g).
Proof. intro H. exact H. Qed.

Lemma tk_eqb_ws k : tk_eqb k KWs = true -> k = KWs.
Proof. destruct k; try discriminate. reflexivity. Qed.

Section TrailLex.
  Variable U : N -> ucls.
  Hypothesis special_breaks : forall c, special c = true -> is_word_char U c = false /\ is_lex_ws U c = false.
  Hypothesis eol_breaks : forall c, (c =? 10) || (c =? 13) = true -> is_word_char U c = false /\ is_lex_ws U c = false.
  Hypothesis blank_ws : is_lex_ws U 32 = true /\ is_word_char U 32 = false.

  (* ---------------------------------------------------------------- a lone backslash is the last token *)
  Lemma lex_one_esc c r k t rest o :
    lex_one U c r = (k, t, rest) -> esc_lone (mk k t o) = true -> rest = [].
  Proof.
    unfold lex_one, esc_lone. cbn [kind tstr mk]. intros H E.
    destruct (c =? 92).
    { destruct r; inversion H; subst; [reflexivity|]. cbn [tl tk_eqb tkind_beq andb] in E. discriminate. }
    destruct (c =? 62). { destruct (next_is 62 r); inversion H; subst; discriminate E. }
    destruct (c =? 45).
    { destruct (next_is 45 r); [destruct (span_while _ r)|]; inversion H; subst; discriminate E. }
    destruct ((c =? 91) && next_is 45 r). { destruct (block_body (tl r)); inversion H; subst; discriminate E. }
    destruct (c =? 10). { inversion H; subst; discriminate E. }
    destruct ((c =? 13) && next_is 10 r). { inversion H; subst; discriminate E. }
    destruct (is_digit c).
    { destruct (span_while is_digit r) as [a b]. destruct a; [|destruct (c =? 48)]; inversion H; subst; discriminate E. }
    destruct (single_kind c) eqn:Ek.
    { inversion H; subst. destruct k; try discriminate E. apply single_kind_not in Ek. destruct Ek. }
    destruct (is_lex_ws U c). { destruct (span_while _ r); inversion H; subst; discriminate E. }
    destruct (u_punct (U c)); [inversion H; subst; discriminate E|].
    destruct (span_while _ r); inversion H; subst; discriminate E.
  Qed.

  Lemma lex_lone_last_len n : forall s off ts,
    (length s <= n)%nat -> lex_at U s off = Some ts -> lone_last ts.
  Proof.
    induction n as [|n IH]; intros s off ts Hn H.
    { destruct s; [|cbn in Hn; lia]. cbn in H. inversion H; subst. exact I. }
    destruct s as [|c r]. { cbn in H. inversion H; subst. exact I. }
    rewrite lex_at_cons in H. destruct (lex_one U c r) as [[k t] rest] eqn:E.
    destruct (lex_at U rest (off + blen t)) as [ts0|] eqn:E0; [|discriminate]. inversion H; subst ts. clear H.
    pose proof (lex_one_shorter U _ _ _ _ _ E) as Hl. cbn [length] in Hn.
    cbn [lone_last]. split.
    - destruct (esc_lone (mk k t off)) eqn:X; [right | left; reflexivity].
      apply (lex_one_esc _ _ _ _ _ _ E) in X. subst rest. cbn in E0. inversion E0; reflexivity.
    - apply (IH rest (off + blen t)); [lia | exact E0].
  Qed.

  Lemma lex_lone_last s off ts : lex_at U s off = Some ts -> lone_last ts.
  Proof. apply (lex_lone_last_len (length s)). apply le_n. Qed.

  (* the statement of the task: a lone backslash token has nothing behind it *)
  Lemma lex_esc_lone_last s off p t q :
    lex_at U s off = Some (p ++ t :: q) -> esc_lone t = true -> q = [].
  Proof.
    intros H E. apply lex_lone_last, lone_last_app_r in H. cbn [lone_last] in H.
    destruct H as [[H | H] _]; [congruence | exact H].
  Qed.

  Lemma lex_wsimb_refl e s off ts : lex_at U s off = Some ts -> wsimb e ts ts.
  Proof.
    intro H. apply wsimb_refl; [exact (lex_nonempty U _ _ _ H) | exact (lex_newline_ok U _ _ _ H) | exact (lex_lone_last _ _ _ H)].
  Qed.

  Lemma lex_wsimb_shift e n s off ts : lex_at U s off = Some ts -> wsimb e ts (shift n ts).
  Proof.
    intro H. apply wsimb_shift; [exact (lex_nonempty U _ _ _ H) | exact (lex_newline_ok U _ _ _ H) | exact (lex_lone_last _ _ _ H)].
  Qed.

  Lemma lex_nolone_init s off p t : lex_at U s off = Some (p ++ [t]) -> nolone p.
  Proof. intro H. apply lex_lone_last in H. apply (lone_last_app_l _ _ H). discriminate. Qed.

  Lemma lex_nolone s off ts : lex_at U s off = Some ts -> last_open_ended ts = false -> nolone ts.
  Proof.
    intros H Ho. destruct (list_last_split ts) as [-> | (p & t & ->)]; [constructor|].
    apply Forall_app. split; [exact (lex_nolone_init _ _ _ _ H)|]. constructor; [|constructor].
    rewrite last_open_ended_snoc in Ho. apply open_ended_esc; [|exact Ho].
    pose proof (lex_nonempty U _ _ _ H) as Hn. apply Forall_app in Hn as [_ Hn]. inversion Hn; assumption.
  Qed.

  (* ---------------------------------------------------------------- blanks *)
  (* the text behind a blank token: nothing, or a character that is not blank *)
  Definition stops (rest : str) : Prop :=
    match rest with [] => True | d :: _ => is_lex_ws U d = false end.

  Lemma span_all_stops s rest :
    forallb (is_lex_ws U) s = true -> stops rest -> span_while (is_lex_ws U) (s ++ rest) = (s, rest).
  Proof.
    intros Hs Hr. destruct rest as [|d y].
    - rewrite app_nil_r. apply span_all. exact Hs.
    - apply span_while_app_end; [apply span_all; exact Hs | exact Hr].
  Qed.

  Lemma sp32_lex_ws w : sp32 w -> forallb (is_lex_ws U) w = true.
  Proof.
    induction w as [|c r IH]; intro H; [reflexivity|]. apply sp32_cons_inv in H as [-> H].
    cbn [forallb]. destruct blank_ws as [B _]. rewrite B, (IH H). reflexivity.
  Qed.

  Lemma lex_one_blank r rest :
    forallb (is_lex_ws U) r = true -> stops rest -> lex_one U 32 (r ++ rest) = (KWs, 32 :: r, rest).
  Proof.
    intros Hr Hs. unfold lex_one.
    change (32 =? 92) with false. change (32 =? 62) with false. change (32 =? 45) with false.
    change (32 =? 91) with false. change (32 =? 10) with false. change (32 =? 13) with false.
    change (is_digit 32) with false. change (single_kind 32) with (@None tkind). cbn [andb].
    destruct blank_ws as [B _]. rewrite B. rewrite (span_all_stops _ _ Hr Hs). reflexivity.
  Qed.

  (* U+0020s in front of a text that does not start with a blank *)
  Lemma lex_blanks_then w rest off tr :
    w <> [] -> sp32 w -> stops rest -> lex_at U rest (off + blen w) = Some tr ->
    lex_at U (w ++ rest) off = Some (mk KWs w off :: tr).
  Proof.
    intros Hne Hw Hs Hr. destruct w as [|c r]; [congruence|]. apply sp32_cons_inv in Hw as [-> Hw].
    cbn [app]. rewrite lex_at_cons, (lex_one_blank _ _ (sp32_lex_ws _ Hw) Hs), Hr. reflexivity.
  Qed.

  (* a blank token at the end of the input absorbs the blanks appended to the input *)
  Lemma lex_one_ws_extend c r t w rest :
    lex_one U c r = (KWs, t, []) -> forallb (is_lex_ws U) w = true -> stops rest ->
    lex_one U c (r ++ w ++ rest) = (KWs, t ++ w, rest).
  Proof.
    intros H Hw Hs. unfold lex_one in H.
    destruct (c =? 92) eqn:E92. { destruct r; inversion H. }
    destruct (c =? 62) eqn:E62. { destruct (next_is 62 r); inversion H. }
    destruct (c =? 45) eqn:E45. { destruct (next_is 45 r); [destruct (span_while _ r)|]; inversion H. }
    destruct ((c =? 91) && next_is 45 r). { destruct (block_body (tl r)); inversion H. }
    destruct (c =? 10) eqn:E10. { inversion H. }
    destruct ((c =? 13) && next_is 10 r). { inversion H. }
    destruct (is_digit c) eqn:Ed.
    { destruct (span_while is_digit r) as [a b]. destruct a; [|destruct (c =? 48)]; inversion H. }
    destruct (single_kind c) eqn:Ek. { inversion H; subst. apply single_kind_not in Ek. destruct Ek. }
    destruct (is_lex_ws U c) eqn:Ew.
    2:{ destruct (u_punct (U c)); [inversion H|]. destruct (span_while _ r); inversion H. }
    destruct (span_while (is_lex_ws U) r) as [a0 b0] eqn:Es. inversion H; subst t b0. clear H.
    pose proof (span_while_all _ _ _ _ Es) as Ha. pose proof (span_while_app _ _ _ _ Es) as Hr.
    rewrite app_nil_r in Hr. subst a0.
    assert (E91 : c =? 91 = false).
    { destruct (c =? 91) eqn:E; [|reflexivity]. apply N.eqb_eq in E. subst.
      destruct (special_breaks 91 eq_refl) as [_ X]. congruence. }
    assert (E13 : c =? 13 = false).
    { destruct (c =? 13) eqn:E; [|reflexivity]. apply N.eqb_eq in E. subst.
      destruct (eol_breaks 13 eq_refl) as [_ X]. congruence. }
    unfold lex_one. rewrite E92, E62, E45, E91, E10, E13, Ed, Ek, Ew. cbn [andb].
    rewrite app_assoc, (span_all_stops (r ++ w) rest); [reflexivity | | exact Hs].
    rewrite forallb_app, Ha, Hw. reflexivity.
  Qed.

  Lemma lex_ws_extend_len n : forall a off p ws w rest tr,
    (length a <= n)%nat ->
    lex_at U a off = Some (p ++ [ws]) -> kind ws = KWs ->
    forallb (is_lex_ws U) w = true -> stops rest ->
    lex_at U rest (off + blen a + blen w) = Some tr ->
    lex_at U (a ++ w ++ rest) off = Some (p ++ [mk KWs (tstr ws ++ w) (tstart ws)] ++ tr).
  Proof.
    induction n as [|n IH]; intros a off p ws w rest tr Hn Ha Hk Hw Hs Hr.
    { destruct a; [|cbn in Hn; lia]. cbn in Ha. inversion Ha as [E]. destruct p; discriminate E. }
    destruct a as [|c r]. { cbn in Ha. inversion Ha as [E]. destruct p; discriminate E. }
    rewrite lex_at_cons in Ha. cbn [app]. rewrite lex_at_cons.
    destruct (lex_one U c r) as [[k t] rest0] eqn:E.
    pose proof (lex_one_tiles U _ _ _ _ _ E) as [Ht _].
    pose proof (lex_one_shorter U _ _ _ _ _ E) as Hl.
    assert (Hoff : off + blen (c :: r) = off + blen t + blen rest0).
    { rewrite <- Ht, blen_app. lia. }
    destruct rest0 as [|x rest'].
    - cbn [lex_at lex_fuel length] in Ha. inversion Ha as [Ep]. clear Ha.
      destruct p as [|t0 p'].
      2:{ cbn [app] in Ep. inversion Ep as [[E1 E2]]. destruct p'; discriminate E2. }
      cbn [app] in Ep. inversion Ep as [Ews]. clear Ep. subst ws. cbn [kind mk] in Hk. subst k.
      cbn [tstr tstart mk app].
      rewrite (lex_one_ws_extend _ _ _ _ _ E Hw Hs).
      rewrite Hoff in Hr. cbn [blen] in Hr. rewrite N.add_0_r in Hr.
      rewrite blen_app, N.add_assoc, Hr. reflexivity.
    - rewrite (lex_one_app_mid U _ _ _ _ _ _ (w ++ rest) E).
      destruct (lex_at U (x :: rest') (off + blen t)) as [ts|] eqn:E2; [|discriminate].
      inversion Ha as [Ep]. clear Ha. pose proof (lex_at_nonempty U _ _ _ _ E2) as Hne.
      destruct p as [|t0 p'].
      { cbn [app] in Ep. inversion Ep as [[E1 E3]]. congruence. }
      cbn [app] in Ep. inversion Ep as [[E1 E3]]. subst ts.
      rewrite Hoff in Hr.
      rewrite (IH (x :: rest') (off + blen t) p' ws w rest tr); [reflexivity | cbn [length] in *; lia | exact E2 | exact Hk | exact Hw | exact Hs | exact Hr].
  Qed.

  Lemma lex_ws_extend a off p ws w rest tr :
    lex_at U a off = Some (p ++ [ws]) -> kind ws = KWs ->
    forallb (is_lex_ws U) w = true -> stops rest ->
    lex_at U rest (off + blen a + blen w) = Some tr ->
    lex_at U (a ++ w ++ rest) off = Some (p ++ [mk KWs (tstr ws ++ w) (tstart ws)] ++ tr).
  Proof. apply (lex_ws_extend_len (length a)). apply le_n. Qed.

  (* ---------------------------------------------------------------- the text behind the blanks *)
  (* the end of a line: the end of the input, LF, or CRLF *)
  Definition line_end (b : str) : Prop :=
    b = [] \/ (exists y, b = 10 :: y) \/ (exists y, b = 13 :: 10 :: y).

  Lemma atnl_line_end b o tb : line_end b -> lex_at U b o = Some tb -> atnl true tb.
  Proof.
    intros [-> | [[y ->] | [y ->]]] H.
    - cbn in H. inversion H; subst. reflexivity.
    - rewrite lex_at_cons, lex_one_lf in H. destruct (lex_at U y (o + blen [10])); [|discriminate].
      inversion H; subst. reflexivity.
    - rewrite lex_at_cons, lex_one_crlf_nl in H. destruct (lex_at U y (o + blen [13; 10])); [|discriminate].
      inversion H; subst. reflexivity.
  Qed.

  Lemma stops_line_end b : line_end b -> stops b.
  Proof.
    intros [-> | [[y ->] | [y ->]]]; [exact I | |]; cbn [stops].
    - destruct (eol_breaks 10 eq_refl) as [_ X]. exact X.
    - destruct (eol_breaks 13 eq_refl) as [_ X]. exact X.
  Qed.

  (* a line comment in front of CRLF takes the CR; the line then ends with LF *)
  Lemma lex_comment_crlf c y o :
    no_newline c = true ->
    lex_at U (line_comment_text c ++ 13 :: 10 :: y) o =
    match lex_at U y (o + blen (line_comment_text c ++ [13]) + blen [10]) with
    | Some ts => Some (mk KLineComment (line_comment_text c ++ [13]) o
                       :: mk KNewline [10] (o + blen (line_comment_text c ++ [13])) :: ts)
    | None => None
    end.
  Proof.
    intro H. unfold line_comment_text. cbn [app]. rewrite lex_at_cons. unfold lex_one at 1. cbn [next_is].
    change (45 =? 92) with false. change (45 =? 62) with false. change (45 =? 45) with true.
    assert (S : span_while (fun x => negb (x =? 10)) (45 :: c ++ 13 :: 10 :: y) = (45 :: c ++ [13], 10 :: y)).
    { change (45 :: c ++ 13 :: 10 :: y) with ((45 :: c) ++ [13] ++ 10 :: y). rewrite app_assoc.
      change (45 :: c ++ [13]) with ((45 :: c) ++ [13]).
      apply span_while_app_end; [|reflexivity]. apply span_all. rewrite forallb_app. cbn [forallb].
      change (negb (45 =? 10)) with true. change (negb (13 =? 10)) with true. cbn [andb].
      unfold no_newline in H. rewrite H. reflexivity. }
    rewrite S. rewrite lex_at_cons, lex_one_lf.
    destruct (lex_at U y (o + blen (45 :: 45 :: c ++ [13]) + blen [10])); reflexivity.
  Qed.

  (* an optional line comment and the rest of the input, [n] bytes further on *)
  Lemma lex_tail b o tb lc n :
    line_end b ->
    (lc = [] \/ exists c, lc = line_comment_text c /\ no_newline c = true) ->
    lex_at U b o = Some tb ->
    exists tr, lex_at U (lc ++ b) (o + n) = Some tr /\ wsimb true tb tr /\ stops (lc ++ b).
  Proof.
    intros Hb0 Hlc Hb. pose proof (atnl_line_end _ _ _ Hb0 Hb) as Hat.
    destruct Hlc as [-> | (c & -> & Hc)].
    - exists (shift n tb). cbn [app]. split; [apply lex_at_shift; exact Hb|].
      split; [exact (lex_wsimb_shift _ _ _ _ _ Hb) | apply stops_line_end; exact Hb0].
    - assert (St : stops (line_comment_text c ++ b)).
      { cbn [stops app line_comment_text]. destruct (special_breaks 45 eq_refl) as [_ X]. exact X. }
      pose proof (lex_line_comment U c (o + n) Hc) as Hx.
      assert (Hb' : lex_at U b (o + n + blen (line_comment_text c)) = Some (shift (n + blen (line_comment_text c)) tb)).
      { rewrite <- N.add_assoc. apply lex_at_shift. exact Hb. }
      assert (G : gtok (mk KLineComment (line_comment_text c) (o + n))) by (right; split; [reflexivity | discriminate]).
      destruct Hb0 as [-> | [[y ->] | [y ->]]].
      + exists [mk KLineComment (line_comment_text c) (o + n)]. cbn in Hb. inversion Hb; subst tb.
        rewrite app_nil_r. split; [exact Hx | split; [|exact St]].
        apply w_ins; [exact G | reflexivity | apply w_nil].
      + exists ([mk KLineComment (line_comment_text c) (o + n)] ++ shift (n + blen (line_comment_text c)) tb).
        split; [|split; [|exact St]].
        * apply (lex_app U special_breaks eol_breaks); [exact Hx | reflexivity | exact Hb'].
        * cbn [app]. apply w_ins; [exact G | exact Hat | exact (lex_wsimb_shift _ _ _ _ _ Hb)].
      + (* CRLF *)
        rewrite lex_at_cons, lex_one_crlf_nl in Hb.
        destruct (lex_at U y (o + blen [13; 10])) as [ty|] eqn:Ey; [|discriminate]. inversion Hb; subst tb. clear Hb.
        pose proof (lex_at_shift U _ _ (n + blen (line_comment_text c)) _ Ey) as Ey'.
        assert (Eo : o + blen [13; 10] + (n + blen (line_comment_text c))
                     = o + n + blen (line_comment_text c ++ [13]) + blen [10]).
        { rewrite blen_app. cbn [blen]. lia. }
        rewrite Eo in Ey'.
        exists (mk KLineComment (line_comment_text c ++ [13]) (o + n)
                :: mk KNewline [10] (o + n + blen (line_comment_text c ++ [13]))
                :: shift (n + blen (line_comment_text c)) ty).
        split; [|split; [|exact St]].
        * rewrite (lex_comment_crlf c y (o + n) Hc), Ey'. reflexivity.
        * apply w_ins; [right; split; [reflexivity | discriminate] | reflexivity |].
          apply w_cons.
          -- split; [reflexivity|]. split; [discriminate|]. split; [discriminate|].
             split; [intros _; right; reflexivity|]. split; [intros _; left; reflexivity|]. discriminate.
          -- left. reflexivity.
          -- exact (lex_wsimb_shift _ _ _ _ _ Ey).
  Qed.

  (* ---------------------------------------------------------------- the theorem *)
  Theorem trail_tokens a b off ta tb w lc :
    lex_at U a off = Some ta -> lex_at U b (off + blen a) = Some tb -> lex_at U (a ++ b) off = Some (ta ++ tb) ->
    last_open_ended ta = false ->
    (b = [] \/ (exists y, b = 10 :: y) \/ (exists y, b = 13 :: 10 :: y)) ->
    sp32 w ->
    (lc = [] \/ exists c, lc = line_comment_text c /\ no_newline c = true /\ w <> []) ->
    exists ts2, lex_at U (a ++ (w ++ lc) ++ b) off = Some ts2 /\ wsimb true (ta ++ tb) ts2.
  Proof.
    intros Ha Hb Hab Ho Hb0 Hw Hlc.
    assert (Hlc' : lc = [] \/ exists c, lc = line_comment_text c /\ no_newline c = true).
    { destruct Hlc as [-> | (c & -> & Hc & _)]; [left; reflexivity | right; exists c; split; [reflexivity | exact Hc]]. }
    pose proof (atnl_line_end _ _ _ Hb0 Hb) as Hat.
    pose proof (lex_nonempty U _ _ _ Ha) as Na. pose proof (lex_newline_ok U _ _ _ Ha) as Oa.
    destruct (lex_tail b (off + blen a) tb lc (blen w) Hb0 Hlc' Hb) as (tr & Htr & Wtr & Str).
    rewrite <- (app_assoc w lc b).
    destruct (last_is_ws ta) eqn:Hlw.
    - (* the line ends with a blank token: it grows *)
      destruct (list_last_split ta) as [-> | (p & ws & ->)]; [discriminate Hlw|].
      rewrite last_is_ws_snoc in Hlw. apply tk_eqb_ws in Hlw.
      exists (p ++ [mk KWs (tstr ws ++ w) (tstart ws)] ++ tr). split.
      + apply (lex_ws_extend a off p ws w (lc ++ b) tr Ha Hlw (sp32_lex_ws _ Hw) Str Htr).
      + rewrite <- app_assoc. apply Forall_app in Na as [Np Nw]. apply Forall_app in Oa as [Op _].
        apply wsimb_prefix; [exact Np | exact Op | exact (lex_nolone_init _ _ _ _ Ha) |].
        cbn [app]. apply w_wsx; [|exact Hat | exact Wtr].
        split; [exact Hlw|]. split; [reflexivity|]. split; [inversion Nw; assumption|].
        exists w. split; [reflexivity | exact Hw].
    - (* otherwise: a new blank token, if there are blanks *)
      destruct w as [|c0 w0].
      + destruct Hlc as [-> | (c & _ & _ & Hne)]; [|congruence].
        cbn [app]. exists (ta ++ tb). split; [exact Hab | exact (lex_wsimb_refl _ _ _ _ Hab)].
      + pose proof Hw as Hw'. apply sp32_cons_inv in Hw' as [-> Hw0].
        exists (ta ++ mk KWs (32 :: w0) (off + blen a) :: tr). split.
        * cbn [app]. apply (lex_app U special_breaks eol_breaks); [exact Ha | apply (safe_end_blank U blank_ws); assumption|].
          apply (lex_blanks_then (32 :: w0) (lc ++ b) (off + blen a) tr); [discriminate | exact Hw | exact Str | exact Htr].
        * apply wsimb_prefix; [exact Na | exact Oa | exact (lex_nolone _ _ _ Ha Ho)|].
          apply w_ins; [|exact Hat | exact Wtr].
          left. split; [reflexivity|]. split; [exact Hw | discriminate].
  Qed.

  (* the line ends with LF or with the input *)
  Theorem trail_tokens_lf a b off ta tb w lc :
    lex_at U a off = Some ta -> lex_at U b (off + blen a) = Some tb -> lex_at U (a ++ b) off = Some (ta ++ tb) ->
    last_open_ended ta = false ->
    (b = [] \/ exists y, b = 10 :: y) ->
    sp32 w ->
    (lc = [] \/ exists c, lc = line_comment_text c /\ no_newline c = true /\ w <> []) ->
    exists ts2, lex_at U (a ++ (w ++ lc) ++ b) off = Some ts2 /\ wsimb true (ta ++ tb) ts2.
  Proof.
    intros Ha Hb Hab Ho Hb0. apply (trail_tokens a b off ta tb w lc Ha Hb Hab Ho).
    destruct Hb0 as [H | H]; [left; exact H | right; left; exact H].
  Qed.
End TrailLex.
