(* Property C17, event level, comment insertion: the list lemmas of [jsim] and the relational
   Hoare rules ([HJ]/[HL]/[HN] of Proofs/EditInsDefs.v) for every primitive of the parser monad of
   Model/Parser.v.  Mirrors Proofs/EditSimDefs.v (the one-to-one relation [ksim]). *)
From CL Require Import Base.StrLemmas Model.Lexer Model.PText Model.CommentMask Model.Parser Model.Edits
  Proofs.EditParserProofs Proofs.EditSimDefs Proofs.EditInsDefs.

(* ================================================================ PART 1: lists *)

Lemma tkb_true a b : tk_eqb a b = true -> a = b.
Proof. apply internal_tkind_dec_bl. Qed.
Lemma tkb_refl a : tk_eqb a a = true.
Proof. apply internal_tkind_dec_lb. reflexivity. Qed.
Lemma tkb_neq a b : a <> b -> tk_eqb a b = false.
Proof. intro H. destruct (tk_eqb a b) eqn:E; [|reflexivity]. apply tkb_true in E. contradiction. Qed.

Lemma swt_neq k k' : swt k = true -> swt k' = false -> tk_eqb k k' = false.
Proof. intros H1 H2. apply tkb_neq. intro E. subst. congruence. Qed.

Lemma comment_not_k k c : is_comment k = false -> is_comment c = true -> tk_eqb c k = false.
Proof. intros Hk Hc. apply tkb_neq. intro E. subst. congruence. Qed.

(* ---------------------------------------------------------------- 1. heads *)
Lemma jsim_kinds_head m a b r1 r2 : jsim m (a :: r1) (b :: r2) -> krel a b.
Proof. intro H. inversion H; subst; assumption. Qed.

Lemma jsim_nil_iff m l1 l2 : jsim m l1 l2 -> (l1 = [] <-> l2 = []).
Proof. intro H. destruct H; split; intro E; try reflexivity; discriminate. Qed.

Lemma jsim_nil_l m l2 : jsim m [] l2 -> l2 = [].
Proof. intro H. apply (jsim_nil_iff _ _ _ H). reflexivity. Qed.
Lemma jsim_nil_r m l1 : jsim m l1 [] -> l1 = [].
Proof. intro H. apply (jsim_nil_iff _ _ _ H). reflexivity. Qed.

Lemma jany_nil : jany [] [].
Proof. exists MOut. constructor. Qed.

Lemma stutR_nonempty l1 l2 : stutR l1 l2 -> l1 <> [] /\ l2 <> [].
Proof. intros (w & r1 & cm & r2 & -> & -> & _). split; discriminate. Qed.

(* the shape of a jsim pair whose left head is a blank: always in step *)
Lemma jsim_ws_inv m w r1 l2 :
  kind w = KWs -> jsim m (w :: r1) l2 -> exists w' r2, l2 = w' :: r2 /\ krel w w' /\ jsim m r1 r2.
Proof.
  intros Kw H. inversion H; subst.
  - exists b, r2. split; [reflexivity|]. split; [assumption|]. rewrite Kw in *. assumption.
  - match goal with H : swt (kind w) = true |- _ => rewrite Kw in H; discriminate H end.
Qed.

(* ---------------------------------------------------------------- 2. ksim, textrel, texts *)
Lemma ksim_jsim m l1 l2 : ksim l1 l2 -> jsim m l1 l2.
Proof. intro H. revert m. induction H as [|a b r1 r2 Hab _ IH]; intro m; constructor; [exact Hab | apply IH]. Qed.

Lemma ksim_jany l1 l2 : ksim l1 l2 -> jany l1 l2.
Proof. intro H. exists MOut. apply ksim_jsim. exact H. Qed.

Lemma comment_newline_ok c : is_comment (kind c) = true -> newline_ok c.
Proof. intros H K. rewrite K in H. discriminate. Qed.

Lemma bc_comment c : kind c = KBlockComment -> is_comment (kind c) = true.
Proof. intros ->. reflexivity. Qed.

Lemma textrel_nil : textrel [] [].
Proof. repeat split; constructor. Qed.

Lemma textrel_cons_k a b l1 l2 : krel a b -> textrel l1 l2 -> textrel (a :: l1) (b :: l2).
Proof.
  intros Hab (Ht & N1 & N2 & O1 & O2).
  assert (T1 : tsim [a] [b]) by (apply ksim_tsim; constructor; [exact Hab | constructor]).
  destruct Hab as (Hk & Ha & Hb & Oa & Ob & Hs).
  split; [|repeat split; constructor; assumption].
  destruct (is_cn (kind a)) eqn:E.
  - destruct (kind a) eqn:K; try discriminate.
    + apply tsim_newline; [exact K | congruence | exact Ht].
    + apply tsim_comment_l; [rewrite K; reflexivity|]. apply tsim_comment_r; [rewrite <- Hk; reflexivity | exact Ht].
    + apply tsim_comment_l; [rewrite K; reflexivity|]. apply tsim_comment_r; [rewrite <- Hk; reflexivity | exact Ht].
  - apply tsim_same; [exact Hk | apply Hs; reflexivity | exact Ht].
Qed.

Lemma textrel_comment_r c l1 l2 :
  is_comment (kind c) = true -> tstr c <> [] -> textrel l1 l2 -> textrel l1 (c :: l2).
Proof.
  intros Hc Hn (Ht & N1 & N2 & O1 & O2). split; [apply tsim_comment_r; assumption|].
  repeat split; try assumption; constructor; try assumption. apply comment_newline_ok. exact Hc.
Qed.

Lemma ksim_textrel l1 l2 : ksim l1 l2 -> textrel l1 l2.
Proof. induction 1; [apply textrel_nil | apply textrel_cons_k; assumption]. Qed.

Lemma jsim_textrel m l1 l2 : jsim m l1 l2 -> textrel l1 l2.
Proof.
  induction 1 as [m | m a b r1 r2 Hab _ IH | a b cm w r1 r2 Hab Ka Hc Hn Kw _ IH].
  - apply textrel_nil.
  - apply textrel_cons_k; assumption.
  - apply textrel_cons_k; [exact Hab|]. apply textrel_comment_r; [exact (bc_comment _ Hc) | exact Hn | exact IH].
Qed.

Lemma jany_textrel l1 l2 : jany l1 l2 -> textrel l1 l2.
Proof. intros [m H]. exact (jsim_textrel _ _ _ H). Qed.

Lemma stutR_textrel l1 l2 : stutR l1 l2 -> textrel l1 l2.
Proof.
  intros (w & r1 & cm & r2 & -> & -> & Kw & Hc & Hn & H).
  apply textrel_comment_r; [exact (bc_comment _ Hc) | exact Hn | exact (jsim_textrel _ _ _ H)].
Qed.

Lemma anyR_textrel l1 l2 : anyR l1 l2 -> textrel l1 l2.
Proof. intros [H|H]; [apply jany_textrel | apply stutR_textrel]; exact H. Qed.

Lemma textrel_trel cfg o1 o2 ts1 ts2 : textrel ts1 ts2 -> OR trel (text_of cfg o1 ts1) (text_of cfg o2 ts2).
Proof.
  intros (Ht & N1 & N2 & O1 & O2). unfold OR. destruct (text_of cfg o1 ts1) as [t1|] eqn:E1; [|exact I].
  destruct (text_of cfg o2 ts2) as [t2|] eqn:E2; [|exact I].
  assert (S : text_str t1 = text_str t2) by exact (text_blind cfg o1 o2 ts1 ts2 t1 t2 Ht N1 N2 E1 E2).
  split; [exact S|]. split.
  - exact (text_blind_empty cfg o1 o2 ts1 ts2 t1 t2 Ht N1 N2 O1 O2 E1 E2).
  - rewrite (full_str_nil _ (text_of_full _ _ _ _ E1)), (full_str_nil _ (text_of_full _ _ _ _ E2)), S. tauto.
Qed.

Lemma jany_trel cfg o1 o2 ts1 ts2 : jany ts1 ts2 -> OR trel (text_of cfg o1 ts1) (text_of cfg o2 ts2).
Proof. intro H. apply textrel_trel. apply jany_textrel. exact H. Qed.

(* ---------------------------------------------------------------- 3. back to ksim *)
Lemma jsim_in_ksim_gen m l1 l2 :
  jsim m l1 l2 -> m = MIn -> forallb (fun t => negb (tk_eqb (kind t) KCloseBrace)) l1 = true -> ksim l1 l2.
Proof.
  induction 1 as [m | m a b r1 r2 Hab _ IH | a b cm w r1 r2 Hab Ka Hc Hn Kw _ IH]; intros Hm Hf.
  - constructor.
  - cbn [forallb] in Hf. apply andb_prop in Hf as [Ha Hr]. constructor; [exact Hab|]. apply IH; [|exact Hr].
    subst m. destruct (kind a); try reflexivity. discriminate.
  - discriminate.
Qed.
Lemma jsim_in_ksim l1 l2 :
  jsim MIn l1 l2 -> forallb (fun t => negb (tk_eqb (kind t) KCloseBrace)) l1 = true -> ksim l1 l2.
Proof. intros H Hf. exact (jsim_in_ksim_gen _ _ _ H eq_refl Hf). Qed.

Lemma jsim_noword_ksim m l1 l2 :
  jsim m l1 l2 -> forallb (fun t => negb (swt (kind t))) l1 = true -> ksim l1 l2.
Proof.
  induction 1 as [m | m a b r1 r2 Hab _ IH | a b cm w r1 r2 Hab Ka Hc Hn Kw _ IH]; intro Hf.
  - constructor.
  - cbn [forallb] in Hf. apply andb_prop in Hf as [Ha Hr]. constructor; [exact Hab | apply IH; exact Hr].
  - cbn [forallb] in Hf. rewrite Ka in Hf. discriminate.
Qed.

(* ---------------------------------------------------------------- 4. kind tests *)
Lemma comment_f_false (f : tkind -> bool) c :
  f KLineComment = false -> f KBlockComment = false -> is_comment c = true -> f c = false.
Proof. intros H1 H2 Hc. destruct c; try discriminate; assumption. Qed.
Lemma comment_f_true (f : tkind -> bool) c :
  f KLineComment = true -> f KBlockComment = true -> is_comment c = true -> f c = true.
Proof. intros H1 H2 Hc. destruct c; try discriminate; assumption. Qed.

Lemma jsim_existsb (f : tkind -> bool) m l1 l2 :
  f KLineComment = false -> f KBlockComment = false -> jsim m l1 l2 ->
  existsb (fun t => f (kind t)) l1 = existsb (fun t => f (kind t)) l2.
Proof.
  intros F1 F2. induction 1 as [m | m a b r1 r2 Hab _ IH | a b cm w r1 r2 Hab Ka Hc Hn Kw _ IH].
  - reflexivity.
  - cbn [existsb]. rewrite (krel_kind _ _ Hab), IH. reflexivity.
  - cbn [existsb] in *. rewrite (krel_kind _ _ Hab), IH, Hc, F2. reflexivity.
Qed.

Lemma jsim_forallb (f : tkind -> bool) m l1 l2 :
  f KLineComment = true -> f KBlockComment = true -> jsim m l1 l2 ->
  forallb (fun t => f (kind t)) l1 = forallb (fun t => f (kind t)) l2.
Proof.
  intros F1 F2. induction 1 as [m | m a b r1 r2 Hab _ IH | a b cm w r1 r2 Hab Ka Hc Hn Kw _ IH].
  - reflexivity.
  - cbn [forallb]. rewrite (krel_kind _ _ Hab), IH. reflexivity.
  - cbn [forallb] in *. rewrite (krel_kind _ _ Hab), IH, Hc, F2. reflexivity.
Qed.

(* ---------------------------------------------------------------- 5. the split at a kind test *)
Lemma jsim_split (f : tkind -> bool) m l1 l2 :
  f KLineComment = false -> f KBlockComment = false -> f KWs = false ->
  jsim m l1 l2 ->
  match position f l1, position f l2 with
  | None, None => True
  | Some n1, Some n2 =>
      jsim m (firstn n1 l1) (firstn n2 l2) /\ jsim (mode_after m (firstn n1 l1)) (skipn n1 l1) (skipn n2 l2)
  | _, _ => False
  end.
Proof.
  intros F1 F2 F3. induction 1 as [m | m a b r1 r2 Hab H IH | a b cm w r1 r2 Hab Ka Hc Hn Kw H IH].
  - exact I.
  - cbn [position]. rewrite <- (krel_kind _ _ Hab). destruct (f (kind a)) eqn:Fa.
    + cbn [firstn skipn mode_after]. split; [constructor | constructor; assumption].
    + destruct (position f r1) as [n1|], (position f r2) as [n2|]; cbn [option_map]; try exact IH.
      destruct IH as [IH1 IH2]. cbn [firstn skipn mode_after]. split; [constructor; assumption | exact IH2].
  - cbn [position]. rewrite <- (krel_kind _ _ Hab). destruct (f (kind a)) eqn:Fa.
    + cbn [firstn skipn mode_after]. split; [constructor | apply j_ins; assumption].
    + rewrite Hc, F2. cbn [position] in IH. rewrite Kw, F3 in IH. rewrite Kw, F3.
      destruct (position f r1) as [n1|], (position f r2) as [n2|]; cbn [option_map] in *; try exact IH.
      destruct IH as [IH1 IH2]. cbn [firstn skipn mode_after] in *. rewrite (swt_next_mode _ _ Ka).
      rewrite Kw in IH2. cbn [next_mode] in IH2. rewrite Kw. cbn [next_mode].
      split; [apply j_ins; assumption | exact IH2].
Qed.

Lemma jsim_split_any (f : tkind -> bool) m l1 l2 :
  f KLineComment = false -> f KBlockComment = false -> f KWs = false ->
  jsim m l1 l2 ->
  match position f l1, position f l2 with
  | None, None => True
  | Some n1, Some n2 => jany (firstn n1 l1) (firstn n2 l2) /\ jany (skipn n1 l1) (skipn n2 l2)
  | _, _ => False
  end.
Proof.
  intros F1 F2 F3 H. pose proof (jsim_split f m l1 l2 F1 F2 F3 H) as X.
  destruct (position f l1), (position f l2); try exact X. destruct X as [X1 X2]. split; eexists; eassumption.
Qed.

Lemma anyR_split (f : tkind -> bool) l1 l2 :
  f KLineComment = false -> f KBlockComment = false -> f KWs = false ->
  anyR l1 l2 ->
  match position f l1, position f l2 with
  | None, None => textrel l1 l2
  | Some n1, Some n2 => textrel (firstn n1 l1) (firstn n2 l2) /\ jany (skipn n1 l1) (skipn n2 l2)
  | _, _ => False
  end.
Proof.
  intros F1 F2 F3 [[m H] | (w & r1 & cm & r2 & -> & -> & Kw & Hc & Hn & H)].
  - pose proof (jsim_split f m l1 l2 F1 F2 F3 H) as X.
    destruct (position f l1), (position f l2); try exact X.
    + destruct X as [X1 X2]. split; [exact (jsim_textrel _ _ _ X1) | eexists; exact X2].
    + exact (jsim_textrel _ _ _ H).
  - pose proof (jsim_split f MOut _ _ F1 F2 F3 H) as X. cbn [position] in *. rewrite Hc, F2.
    destruct (if f (kind w) then Some O else option_map S (position f r1)) as [n1|], (position f r2) as [n2|];
      cbn [option_map]; try exact X.
    + destruct X as [X1 X2]. cbn [firstn skipn]. split; [|eexists; exact X2].
      apply textrel_comment_r; [exact (bc_comment _ Hc) | exact Hn | exact (jsim_textrel _ _ _ X1)].
    + apply textrel_comment_r; [exact (bc_comment _ Hc) | exact Hn | exact (jsim_textrel _ _ _ H)].
Qed.

(* ---------------------------------------------------------------- 6. the split at a test that stops at words *)
Lemma jsim_split_noword (g : tkind -> bool) m l1 l2 :
  (forall k, swt k = true -> g k = false) -> jsim m l1 l2 ->
  match position (fun k => negb (g k)) l1, position (fun k => negb (g k)) l2 with
  | None, None => ksim l1 l2
  | Some n1, Some n2 => n1 = n2 /\ ksim (firstn n1 l1) (firstn n2 l2) /\ jany (skipn n1 l1) (skipn n2 l2)
  | _, _ => False
  end.
Proof.
  intros G. induction 1 as [m | m a b r1 r2 Hab H IH | a b cm w r1 r2 Hab Ka Hc Hn Kw H IH].
  - constructor.
  - cbn [position]. rewrite <- (krel_kind _ _ Hab). destruct (negb (g (kind a))) eqn:Fa.
    + cbn [firstn skipn]. split; [reflexivity|]. split; [constructor|]. exists m. constructor; assumption.
    + destruct (position _ r1) as [n1|], (position _ r2) as [n2|]; cbn [option_map]; try exact IH.
      * destruct IH as (-> & IH1 & IH2). cbn [firstn skipn]. split; [reflexivity|]. split; [constructor; assumption | exact IH2].
      * constructor; assumption.
  - cbn [position]. rewrite <- (krel_kind _ _ Hab), (G _ Ka). cbn [negb firstn skipn].
    split; [reflexivity|]. split; [constructor|]. exists MOut. apply j_ins; assumption.
Qed.

(* ---------------------------------------------------------------- 7. the split after a run of word-like tokens *)
Lemma jsim_split_word m l1 l2 :
  jsim m l1 l2 ->
  match position (fun k => negb (is_single_word_tok k)) l1, position (fun k => negb (is_single_word_tok k)) l2 with
  | None, None => ksim l1 l2
  | Some n1, Some n2 => n1 = n2 /\ ksim (firstn n1 l1) (firstn n2 l2) /\ anyR (skipn n1 l1) (skipn n2 l2)
  | _, _ => False
  end.
Proof.
  induction 1 as [m | m a b r1 r2 Hab H IH | a b cm w r1 r2 Hab Ka Hc Hn Kw H IH].
  - constructor.
  - cbn [position]. rewrite <- (krel_kind _ _ Hab). destruct (negb (is_single_word_tok (kind a))) eqn:Fa.
    + cbn [firstn skipn]. split; [reflexivity|]. split; [constructor|]. left. exists m. constructor; assumption.
    + destruct (position _ r1) as [n1|], (position _ r2) as [n2|]; cbn [option_map]; try exact IH.
      * destruct IH as (-> & IH1 & IH2). cbn [firstn skipn]. split; [reflexivity|]. split; [constructor; assumption | exact IH2].
      * constructor; assumption.
  - cbn [position]. rewrite <- (krel_kind _ _ Hab), Ka, Kw.
    assert (Fc : is_single_word_tok (kind cm) = false) by (rewrite Hc; reflexivity).
    rewrite Fc. cbn [is_single_word_tok negb option_map firstn skipn].
    split; [reflexivity|]. split; [constructor; [exact Hab | constructor]|].
    right. exists w, r1, cm, r2. repeat split; assumption.
Qed.

(* inside braces: the split at a test that stops at `}` *)
Lemma jsim_split_in_gen (f : tkind -> bool) m l1 l2 :
  f KCloseBrace = true -> jsim m l1 l2 -> m = MIn ->
  match position f l1, position f l2 with
  | None, None => ksim l1 l2
  | Some n1, Some n2 => n1 = n2 /\ ksim (firstn n1 l1) (firstn n2 l2) /\ jany (skipn n1 l1) (skipn n2 l2)
  | _, _ => False
  end.
Proof.
  intros F. induction 1 as [m | m a b r1 r2 Hab H IH | a b cm w r1 r2 Hab Ka Hc Hn Kw H IH]; intro Hm.
  - constructor.
  - cbn [position]. rewrite <- (krel_kind _ _ Hab). destruct (f (kind a)) eqn:Fa.
    + cbn [firstn skipn]. split; [reflexivity|]. split; [constructor|]. exists m. constructor; assumption.
    + assert (Hm' : next_mode m (kind a) = MIn).
      { subst m. destruct (kind a); try reflexivity. congruence. }
      specialize (IH Hm').
      destruct (position _ r1) as [n1|], (position _ r2) as [n2|]; cbn [option_map]; try exact IH.
      * destruct IH as (-> & IH1 & IH2). cbn [firstn skipn]. split; [reflexivity|]. split; [constructor; assumption | exact IH2].
      * constructor; assumption.
  - discriminate.
Qed.
Lemma jsim_split_in (f : tkind -> bool) l1 l2 :
  f KCloseBrace = true -> jsim MIn l1 l2 ->
  match position f l1, position f l2 with
  | None, None => ksim l1 l2
  | Some n1, Some n2 => n1 = n2 /\ ksim (firstn n1 l1) (firstn n2 l2) /\ jany (skipn n1 l1) (skipn n2 l2)
  | _, _ => False
  end.
Proof. intros F H. exact (jsim_split_in_gen f MIn l1 l2 F H eq_refl). Qed.

(* what the user asked for: before the first token satisfying f none satisfies f *)
Lemma position_firstn_none (f : tkind -> bool) l : forall n, position f l = Some n ->
  forallb (fun t => negb (f (kind t))) (firstn n l) = true.
Proof.
  induction l as [|t r IH]; intros n H; cbn [position] in H; [discriminate|].
  destruct (f (kind t)) eqn:Ft.
  - inversion H; subst. reflexivity.
  - destruct (position f r) as [k|]; cbn [option_map] in H; [|discriminate]. inversion H; subst.
    cbn [firstn forallb]. rewrite Ft. cbn [negb andb]. apply IH. reflexivity.
Qed.

(* ================================================================ PART 2: the logic *)

(* ---------------------------------------------------------------- the monad *)
Notation TR := (list tok -> list tok -> Prop).

Lemma HJ_bind {A1 A2 B1 B2} (P : bp -> bp -> Prop) (Q : A1 -> bp -> A2 -> bp -> Prop)
      (Q' : B1 -> bp -> B2 -> bp -> Prop) (m1 : M A1) (m2 : M A2) (f1 : A1 -> M B1) (f2 : A2 -> M B2) :
  HJ P m1 m2 Q -> (forall a1 a2, HJ (fun s1 s2 => Q a1 s1 a2 s2) (f1 a1) (f2 a2) Q') ->
  HJ P (bind m1 f1) (bind m2 f2) Q'.
Proof.
  intros Hm Hf s1 s2 S. unfold bind. specialize (Hm s1 s2 S).
  destruct (m1 s1) as [[a1 s1']|]; [|exact I].
  destruct (m2 s2) as [[a2 s2']|]; [|destruct (f1 a1 s1') as [[? ?]|]; exact I].
  exact (Hf a1 a2 s1' s2' Hm).
Qed.

Lemma HJ_conseq {A B} (P P' : bp -> bp -> Prop) (Q Q' : A -> bp -> B -> bp -> Prop) (m1 : M A) (m2 : M B) :
  (forall s1 s2, P' s1 s2 -> P s1 s2) -> HJ P m1 m2 Q ->
  (forall a s1 b s2, Q a s1 b s2 -> Q' a s1 b s2) -> HJ P' m1 m2 Q'.
Proof.
  intros HP H HQ s1 s2 S. specialize (H s1 s2 (HP _ _ S)). destruct (m1 s1) as [[a1 s1']|]; [|exact I].
  destruct (m2 s2) as [[a2 s2']|]; [|exact I]. apply HQ. exact H.
Qed.

Lemma HJ_ret {A B} (P : bp -> bp -> Prop) (Q : A -> bp -> B -> bp -> Prop) a b :
  (forall s1 s2, P s1 s2 -> Q a s1 b s2) -> HJ P (ret a) (ret b) Q.
Proof. intros H s1 s2 S. cbn. apply H. exact S. Qed.

Lemma HJ_panic_l {A B} (P : bp -> bp -> Prop) (Q : A -> bp -> B -> bp -> Prop) p (m : M B) : HJ P (panic p) m Q.
Proof. intros s1 s2 S. exact I. Qed.
Lemma HJ_panic_r {A B} (P : bp -> bp -> Prop) (Q : A -> bp -> B -> bp -> Prop) p (m : M A) : HJ P m (panic p) Q.
Proof. intros s1 s2 S. unfold panic. destruct (m s1) as [[? ?]|]; exact I. Qed.

Lemma St_mono (T T' : list tok -> list tok -> Prop) s1 s2 :
  (forall l1 l2, T l1 l2 -> T' l1 l2) -> St T s1 s2 -> St T' s1 s2.
Proof. intros H (Hr & Ha & He). repeat split; auto. Qed.

Lemma jany_anyR l1 l2 : jany l1 l2 -> anyR l1 l2.
Proof. intro H. left. exact H. Qed.
Lemma jsim_jany m l1 l2 : jsim m l1 l2 -> jany l1 l2.
Proof. intro H. exists m. exact H. Qed.

Lemma HL_bind {A1 A2 B1 B2} (T T1 T2 : TR) (RA : A1 -> A2 -> Prop) (RB : B1 -> B2 -> Prop) m1 m2 f1 f2 :
  HL T RA m1 m2 T1 -> (forall a1 a2, RA a1 a2 -> HL T1 RB (f1 a1) (f2 a2) T2) ->
  HL T RB (bind m1 f1) (bind m2 f2) T2.
Proof.
  intros Hm Hf. unfold HL. eapply HJ_bind; [exact Hm|]. intros a1 a2 s1 s2 [Ha S]. exact (Hf a1 a2 Ha s1 s2 S).
Qed.

Lemma HL_ret {A B} (T : TR) (R : A -> B -> Prop) a b : R a b -> HL T R (ret a) (ret b) T.
Proof. intros H s1 s2 S. cbn. split; assumption. Qed.

Lemma HL_conseq {A B} (T0 T T' T1 : list tok -> list tok -> Prop) (R R' : A -> B -> Prop) (m1 : M A) (m2 : M B) :
  (forall l1 l2, T0 l1 l2 -> T l1 l2) -> HL T R m1 m2 T' ->
  (forall a b, R a b -> R' a b) -> (forall l1 l2, T' l1 l2 -> T1 l1 l2) -> HL T0 R' m1 m2 T1.
Proof.
  intros H0 H HR H1. unfold HL. eapply HJ_conseq; [|exact H|].
  - intros s1 s2. apply St_mono. exact H0.
  - intros a s1 b s2 [Ha S]. split; [apply HR; exact Ha | exact (St_mono _ _ _ _ H1 S)].
Qed.
Lemma HL_conseq_R {A B} (T T' : TR) (R R' : A -> B -> Prop) (m1 : M A) (m2 : M B) :
  HL T R m1 m2 T' -> (forall a b, R a b -> R' a b) -> HL T R' m1 m2 T'.
Proof. intros H HR. eapply HL_conseq; [|exact H|exact HR|]; auto. Qed.
Lemma HL_pre {A B} (T0 T T' : TR) (R : A -> B -> Prop) (m1 : M A) (m2 : M B) :
  (forall l1 l2, T0 l1 l2 -> T l1 l2) -> HL T R m1 m2 T' -> HL T0 R m1 m2 T'.
Proof. intros H0 H. eapply HL_conseq; [exact H0|exact H| |]; auto. Qed.
Lemma HL_post {A B} (T T' T1 : TR) (R : A -> B -> Prop) (m1 : M A) (m2 : M B) :
  HL T R m1 m2 T' -> (forall l1 l2, T' l1 l2 -> T1 l1 l2) -> HL T R m1 m2 T1.
Proof. intros H H1. eapply HL_conseq; [|exact H| |exact H1]; auto. Qed.

Lemma HL_panic_l {A B} (T T' : TR) (R : A -> B -> Prop) p (m : M B) : HL T R (panic p) m T'.
Proof. apply HJ_panic_l. Qed.
Lemma HL_panic_r {A B} (T T' : TR) (R : A -> B -> Prop) p (m : M A) : HL T R m (panic p) T'.
Proof. apply HJ_panic_r. Qed.

(* `?`: on None the computation stops in the intermediate token relation, hence [T1 -> T2] *)
Lemma HL_obindM {A1 A2 B1 B2} (T T1 T2 : TR) (RA : A1 -> A2 -> Prop) (RB : B1 -> B2 -> Prop) m1 m2 f1 f2 :
  HL T (orel RA) m1 m2 T1 -> (forall a1 a2, RA a1 a2 -> HL T1 (orel RB) (f1 a1) (f2 a2) T2) ->
  (forall l1 l2, T1 l1 l2 -> T2 l1 l2) ->
  HL T (orel RB) (obindM m1 f1) (obindM m2 f2) T2.
Proof.
  intros Hm Hf HT. unfold obindM. eapply HL_bind; [exact Hm|].
  intros [a1|] [a2|] H; cbn in H; try contradiction; [apply Hf; exact H|].
  eapply HL_post; [apply HL_ret; exact I | exact HT].
Qed.

Lemma HN_of {A B} (T : TR) (R : A -> B -> Prop) (m1 : M A) (m2 : M B) : HN R m1 m2 -> HL T R m1 m2 T.
Proof. intro H. apply H. Qed.
Lemma HN_bind {A1 A2 B1 B2} (RA : A1 -> A2 -> Prop) (RB : B1 -> B2 -> Prop) m1 m2 f1 f2 :
  HN RA m1 m2 -> (forall a1 a2, RA a1 a2 -> HN RB (f1 a1) (f2 a2)) -> HN RB (bind m1 f1) (bind m2 f2).
Proof. intros Hm Hf T. eapply HL_bind; [apply Hm|]. intros a1 a2 Ha. apply Hf. exact Ha. Qed.
Lemma HN_ret {A B} (R : A -> B -> Prop) a b : R a b -> HN R (ret a) (ret b).
Proof. intros H T. apply HL_ret. exact H. Qed.
Lemma HN_conseq {A B} (R R' : A -> B -> Prop) (m1 : M A) (m2 : M B) :
  HN R m1 m2 -> (forall a b, R a b -> R' a b) -> HN R' m1 m2.
Proof. intros H HR T. eapply HL_conseq_R; [apply H | exact HR]. Qed.
Lemma HN_panic_l {A B} (R : A -> B -> Prop) p (m : M B) : HN R (panic p) m.
Proof. intro T. apply HL_panic_l. Qed.
Lemma HN_panic_r {A B} (R : A -> B -> Prop) p (m : M A) : HN R m (panic p).
Proof. intro T. apply HL_panic_r. Qed.
Lemma HN_lift {A B} (R : A -> B -> Prop) o1 o2 : OR R o1 o2 -> HN R (lift o1) (lift o2).
Proof.
  intros H T s1 s2 S. unfold lift, OR in *. destruct o1; [|exact I]. destruct o2; [|exact I]. split; assumption.
Qed.
Lemma HN_obindM {A1 A2 B1 B2} (RA : A1 -> A2 -> Prop) (RB : B1 -> B2 -> Prop) m1 m2 f1 f2 :
  HN (orel RA) m1 m2 -> (forall a1 a2, RA a1 a2 -> HN (orel RB) (f1 a1) (f2 a2)) ->
  HN (orel RB) (obindM m1 f1) (obindM m2 f2).
Proof. intros Hm Hf T. eapply HL_obindM; [apply Hm | intros a1 a2 Ha; apply Hf; exact Ha | auto]. Qed.

(* ---------------------------------------------------------------- token-neutral primitives *)
Lemma HN_event e1 e2 : erel e1 e2 -> HN anyrel (event e1) (event e2).
Proof.
  intros H T s1 s2 (Hr & Ha & He). cbn. split; [exact I|]. repeat split; cbn; try assumption. constructor; assumption.
Qed.
Lemma HN_error c l1 l2 : HN anyrel (error c l1) (error c l2).
Proof. apply HN_event. reflexivity. Qed.
Lemma HN_warn c l1 l2 : HN anyrel (warn c l1) (warn c l2).
Proof. apply HN_event. reflexivity. Qed.
Lemma HN_diag d1 d2 : drel d1 d2 -> HN anyrel (event (EvDiag d1)) (event (EvDiag d2)).
Proof. intros [H1 H2]. apply HN_event. unfold erel. cbn. rewrite H1, H2. reflexivity. Qed.
Lemma HN_current_offset : HN anyrel current_offset current_offset.
Proof. intros T s1 s2 S. cbn. split; [exact I | exact S]. Qed.
Lemma HN_all_tokens : HN jany all_tokens all_tokens.
Proof. intros T s1 s2 S. cbn. split; [apply S | exact S]. Qed.

Lemma HN_textM_t cfg o1 o2 ts1 ts2 : textrel ts1 ts2 -> HN trel (textM cfg o1 ts1) (textM cfg o2 ts2).
Proof. intro H. apply HN_lift. apply textrel_trel. exact H. Qed.
Lemma HN_textM_j cfg o1 o2 ts1 ts2 : jany ts1 ts2 -> HN trel (textM cfg o1 ts1) (textM cfg o2 ts2).
Proof. intro H. apply HN_textM_t. apply jany_textrel. exact H. Qed.
Lemma HN_textM_k cfg o1 o2 ts1 ts2 : ksim ts1 ts2 -> HN trel (textM cfg o1 ts1) (textM cfg o2 ts2).
Proof. intro H. apply HN_textM_t. apply ksim_textrel. exact H. Qed.

(* ---------------------------------------------------------------- with_recover *)
Lemma HL_with_recover {A B} (T T' : TR) (R : A -> B -> Prop) (m1 : M (option A)) (m2 : M (option B)) :
  HJ (St T) m1 m2 (fun o1 s1 o2 s2 => orel R o1 o2 /\ (o1 <> None -> St T' s1 s2)
                                      /\ (o1 = None -> Forall2 erel (b_evs s1) (b_evs s2))) ->
  HJ (St T) (with_recover m1) (with_recover m2)
     (fun o1 s1 o2 s2 => orel R o1 o2 /\ (o1 <> None -> St T' s1 s2) /\ (o1 = None -> St T s1 s2)).
Proof.
  intros H s1 s2 S. unfold with_recover. specialize (H s1 s2 S).
  destruct (m1 s1) as [[o1 s1']|]; [|exact I]. destruct (m2 s2) as [[o2 s2']|]; [|destruct o1; exact I].
  destruct H as (Ho & H1 & H2). destruct o1 as [a|], o2 as [b|]; cbn in Ho; try contradiction.
  - split; [exact Ho|]. split; [exact H1 | discriminate].
  - split; [exact I|]. split; [intro X; contradiction|]. intros _. destruct S as (Sr & Sa & _).
    repeat split; cbn; try assumption. apply H2. reflexivity.
Qed.

Lemma HL_with_recover_same {A B} (T : TR) (R : A -> B -> Prop) (m1 : M (option A)) (m2 : M (option B)) :
  HL T (orel R) m1 m2 T -> HL T (orel R) (with_recover m1) (with_recover m2) T.
Proof.
  intro H. unfold HL. eapply HJ_conseq; [intros s1 s2 X; exact X | apply (HL_with_recover T T R) |].
  - eapply HJ_conseq; [intros s1 s2 X; exact X | exact H |]. intros o1 s1 o2 s2 [Ho S].
    split; [exact Ho|]. split; [intros _; exact S | intros _; apply S].
  - intros o1 s1 o2 s2 (Ho & H1 & H2). split; [exact Ho|]. destruct o1; [apply H1; discriminate | apply H2; reflexivity].
Qed.

(* ---------------------------------------------------------------- the bridge to the one-to-one framework *)
Lemma HN_sub_block {A B} (R : A -> B -> Prop) ts1 ts2 (m1 : M A) (m2 : M B) :
  ksim ts1 ts2 -> MR R m1 m2 -> HN R (sub_block ts1 m1) (sub_block ts2 m2).
Proof.
  intros Ht Hm T s1 s2 S. unfold sub_block. destruct Ht as [|a b r1 r2 Hab Hr]; [exact I|].
  destruct S as (Sr & Sa & Se).
  assert (S0 : SR {| b_all := a :: r1; b_done := []; b_rest := a :: r1; b_evs := b_evs s1 |}
                  {| b_all := b :: r2; b_done := []; b_rest := b :: r2; b_evs := b_evs s2 |}).
  { repeat split; cbn; try assumption; constructor; assumption. }
  specialize (Hm _ _ S0).
  destruct (m1 _) as [[x1 s1']|]; [|exact I]. destruct (m2 _) as [[x2 s2']|]; [|exact I].
  destruct Hm as [Hx (_ & _ & _ & Se')]. split; [exact Hx|]. repeat split; assumption.
Qed.

(* ---------------------------------------------------------------- the primitives as state functions *)
Definition hdk (r : list tok) : tkind := match r with t :: _ => kind t | [] => KEof end.
Definition jhead (k : tkind) (r1 r2 : list tok) : Prop := jany r1 r2 /\ hdk r1 = k.

Definition step1 (s : bp) (t : tok) (r : list tok) : bp :=
  {| b_all := b_all s; b_done := t :: b_done s; b_rest := r; b_evs := b_evs s |}.

Lemma peek_of_hdk s : peek_of s = hdk (b_rest s).
Proof. reflexivity. Qed.

Lemma bump_any_step s :
  bump_any s = match b_rest s with t :: r => Done (t, step1 s t r) | [] => Panic site_bump_any end.
Proof. unfold bump_any, bind, next_token, step1. destruct (b_rest s); reflexivity. Qed.

Lemma bump_step k s :
  bump k s = match b_rest s with
             | t :: r => if tk_eqb (kind t) k then Done (t, step1 s t r) else Panic site_bump
             | [] => Panic site_bump_any
             end.
Proof.
  unfold bump, bind. rewrite bump_any_step. destruct (b_rest s) as [|t r]; [reflexivity|].
  destruct (tk_eqb (kind t) k); reflexivity.
Qed.

Lemma consume_step k s :
  consume k s = match b_rest s with
                | t :: r => if tk_eqb (kind t) k then Done (Some t, step1 s t r) else Done (None, s)
                | [] => if tk_eqb KEof k then Panic site_bump_any else Done (None, s)
                end.
Proof.
  unfold consume, bind, at_kind, peek_of. destruct (b_rest s) as [|t r] eqn:E.
  - destruct (tk_eqb KEof k); [|reflexivity]. rewrite bump_any_step, E. reflexivity.
  - destruct (tk_eqb (kind t) k); [|reflexivity]. rewrite bump_any_step, E. reflexivity.
Qed.

Lemma St_step1 (T T' : TR) s1 s2 a b r1 r2 : St T s1 s2 -> T' r1 r2 -> St T' (step1 s1 a r1) (step1 s2 b r2).
Proof. intros (_ & Ha & He) H. repeat split; assumption. Qed.

Lemma St_rest (T T' : TR) s1 s2 : St T s1 s2 -> T' (b_rest s1) (b_rest s2) -> St T' s1 s2.
Proof. intros (_ & Ha & He) H. repeat split; assumption. Qed.

Lemma advance_rest n : forall s, b_rest (advance n s) = skipn n (b_rest s).
Proof.
  induction n as [|n IH]; intro s; [reflexivity|]. cbn [advance]. destruct (b_rest s) as [|t r] eqn:E.
  - rewrite E. reflexivity.
  - rewrite IH. reflexivity.
Qed.
Lemma advance_all n : forall s, b_all (advance n s) = b_all s.
Proof.
  induction n as [|n IH]; intro s; [reflexivity|]. cbn [advance]. destruct (b_rest s) as [|t r]; [reflexivity|].
  rewrite IH. reflexivity.
Qed.
Lemma advance_evs n : forall s, b_evs (advance n s) = b_evs s.
Proof.
  induction n as [|n IH]; intro s; [reflexivity|]. cbn [advance]. destruct (b_rest s) as [|t r]; [reflexivity|].
  rewrite IH. reflexivity.
Qed.

Lemma St_advance (T T' : TR) n1 n2 s1 s2 :
  St T s1 s2 -> T' (skipn n1 (b_rest s1)) (skipn n2 (b_rest s2)) -> St T' (advance n1 s1) (advance n2 s2).
Proof.
  intros (_ & Ha & He) H. unfold St. rewrite !advance_rest, !advance_all, !advance_evs. repeat split; assumption.
Qed.

Lemma jsim_hdk m l1 l2 : jsim m l1 l2 -> hdk l1 = hdk l2.
Proof. intro H. destruct H as [m | m a b r1 r2 Hab _ | a b cm w r1 r2 Hab _ _ _ _ _]; [reflexivity | |]; exact (krel_kind _ _ Hab). Qed.
Lemma jany_hdk l1 l2 : jany l1 l2 -> hdk l1 = hdk l2.
Proof. intros [m H]. exact (jsim_hdk _ _ _ H). Qed.

Lemma jhead_jany k s1 s2 : St (jhead k) s1 s2 -> St jany s1 s2.
Proof. apply St_mono. intros l1 l2 [H _]. exact H. Qed.

(* ---------------------------------------------------------------- rest, peek, at_kind *)
Lemma HL_rest_T (T : TR) : HL T T rest rest T.
Proof. intros s1 s2 S. cbn. split; [apply S | exact S]. Qed.
Lemma HL_rest_any : HL anyR anyR rest rest anyR.
Proof. apply HL_rest_T. Qed.
Lemma HL_rest : HL jany jany rest rest jany.
Proof. apply HL_rest_T. Qed.
Lemma HL_rest_k k : HL (jhead k) jany rest rest (jhead k).
Proof. intros s1 s2 S. cbn. split; [apply S | exact S]. Qed.

Lemma HJ_peek_k : HJ (St jany) peek peek (fun k1 s1 k2 s2 => k1 = k2 /\ St (jhead k1) s1 s2).
Proof.
  intros s1 s2 S. cbn. rewrite !peek_of_hdk. pose proof S as (Hr & _). split; [exact (jany_hdk _ _ Hr)|].
  apply (St_rest _ _ _ _ S). split; [exact Hr | reflexivity].
Qed.

Lemma HJ_peek_any_k :
  HJ (St anyR) peek peek
     (fun k1 s1 k2 s2 => (k1 = k2 /\ St (jhead k1) s1 s2) \/ (k1 = KWs /\ k2 = KBlockComment /\ St stutR s1 s2)).
Proof.
  intros s1 s2 S. cbn. rewrite !peek_of_hdk. pose proof S as ([Hr|Hr] & _).
  - left. split; [exact (jany_hdk _ _ Hr)|]. apply (St_rest _ _ _ _ S). split; [exact Hr | reflexivity].
  - right. pose proof Hr as (w & r1 & cm & r2 & E1 & E2 & Kw & Hc & _). rewrite E1, E2. cbn [hdk].
    split; [exact Kw|]. split; [exact Hc|]. apply (St_rest _ _ _ _ S). exact Hr.
Qed.

Lemma HJ_peek :
  HJ (St anyR) peek peek
     (fun k1 s1 k2 s2 => (k1 = k2 /\ St jany s1 s2) \/ (k1 = KWs /\ k2 = KBlockComment /\ St stutR s1 s2)).
Proof.
  eapply HJ_conseq; [intros s1 s2 X; exact X | apply HJ_peek_any_k |].
  intros k1 s1 k2 s2 [[E S]|H]; [left; split; [exact E | exact (jhead_jany _ _ _ S)] | right; exact H].
Qed.

Lemma HL_peek : HL jany eq peek peek jany.
Proof.
  unfold HL. eapply HJ_conseq; [intros s1 s2 X; exact X | apply HJ_peek_k |].
  intros k1 s1 k2 s2 [E S]. split; [exact E | exact (jhead_jany _ _ _ S)].
Qed.

Lemma HL_at_kind k : HL jany eq (at_kind k) (at_kind k) jany.
Proof.
  intros s1 s2 S. cbn. rewrite !peek_of_hdk. pose proof S as (Hr & _). rewrite (jany_hdk _ _ Hr). split; [reflexivity | exact S].
Qed.

Lemma HL_at_kind_k k k0 : HL (jhead k0) eq (at_kind k) (at_kind k) (jhead k0).
Proof.
  intros s1 s2 S. cbn. rewrite !peek_of_hdk. pose proof S as ((Hr & _) & _). rewrite (jany_hdk _ _ Hr). split; [reflexivity | exact S].
Qed.

Lemma HL_at_kind_any k : tk_eqb KWs k = false -> is_comment k = false -> HL anyR eq (at_kind k) (at_kind k) anyR.
Proof.
  intros Kw Kc s1 s2 S. cbn. rewrite !peek_of_hdk. split; [|exact S]. pose proof S as ([Hr|Hr] & _).
  - rewrite (jany_hdk _ _ Hr). reflexivity.
  - destruct Hr as (w & r1 & cm & r2 & E1 & E2 & Hw & Hc & _). rewrite E1, E2. cbn [hdk].
    rewrite Hw, Kw, Hc, (comment_not_k _ KBlockComment Kc eq_refl). reflexivity.
Qed.

(* ---------------------------------------------------------------- consume, bump *)
Lemma HJ_consume_m k m : swt k = false ->
  HJ (St (jsim m)) (consume k) (consume k)
     (fun o1 s1 o2 s2 => orel krel o1 o2 /\
        match o1 with None => St (jsim m) s1 s2 | Some _ => St (jsim (next_mode m k)) s1 s2 end).
Proof.
  intros Kk s1 s2 S. rewrite !consume_step. pose proof S as (Hr & _).
  destruct Hr as [m | m a b r1 r2 Hab Hr | a b cm w r1 r2 Hab Ka Hc Hn Kw Hr].
  - destruct (tk_eqb KEof k); [exact I|]. split; [exact I | exact S].
  - rewrite <- (krel_kind _ _ Hab). destruct (tk_eqb (kind a) k) eqn:E.
    + apply tkb_true in E. subst k. split; [exact Hab|]. apply (St_step1 _ _ _ _ _ _ _ _ S). exact Hr.
    + split; [exact I | exact S].
  - rewrite <- (krel_kind _ _ Hab), (swt_neq _ _ Ka Kk). split; [exact I | exact S].
Qed.

Lemma HL_consume k : swt k = false -> HL jany (orel krel) (consume k) (consume k) jany.
Proof.
  intros Kk s1 s2 S. pose proof S as ([m Hr] & _).
  pose proof (HJ_consume_m k m Kk s1 s2 (St_rest _ _ _ _ S Hr)) as X.
  destruct (consume k s1) as [[o1 s1']|]; [|exact I]. destruct (consume k s2) as [[o2 s2']|]; [|exact I].
  destruct X as [Ho X]. split; [exact Ho|]. destruct o1; exact (St_mono _ _ _ _ (jsim_jany _) X).
Qed.

Lemma HL_consume_any k : tk_eqb KWs k = false -> is_comment k = false -> swt k = false ->
  HL anyR (orel krel) (consume k) (consume k) anyR.
Proof.
  intros Kw Kc Kk s1 s2 S. pose proof S as ([Hr|Hr] & _).
  - pose proof (HL_consume k Kk s1 s2 (St_rest _ _ _ _ S Hr)) as X.
    destruct (consume k s1) as [[o1 s1']|]; [|exact I]. destruct (consume k s2) as [[o2 s2']|]; [|exact I].
    destruct X as [Ho X]. split; [exact Ho | exact (St_mono _ _ _ _ jany_anyR X)].
  - rewrite !consume_step. destruct Hr as (w & r1 & cm & r2 & E1 & E2 & Hw & Hc & _). rewrite E1, E2.
    rewrite Hw, Kw, Hc, (comment_not_k _ KBlockComment Kc eq_refl). split; [exact I | exact S].
Qed.

Lemma HL_bump k : swt k = false -> HL jany krel (bump k) (bump k) jany.
Proof.
  intros Kk s1 s2 S. rewrite !bump_step. pose proof S as ([m Hr] & _).
  destruct Hr as [m | m a b r1 r2 Hab Hr | a b cm w r1 r2 Hab Ka Hc Hn Kw Hr].
  - exact I.
  - rewrite <- (krel_kind _ _ Hab). destruct (tk_eqb (kind a) k); [|exact I].
    split; [exact Hab|]. apply (St_step1 _ _ _ _ _ _ _ _ S). eexists; exact Hr.
  - rewrite <- (krel_kind _ _ Hab), (swt_neq _ _ Ka Kk). exact I.
Qed.

(* bump_any alone: in step again unless a word was taken, then possibly before an inserted comment *)
Lemma HL_bump_any : HL jany krel bump_any bump_any anyR.
Proof.
  intros s1 s2 S. rewrite !bump_any_step. pose proof S as ([m Hr] & _).
  destruct Hr as [m | m a b r1 r2 Hab Hr | a b cm w r1 r2 Hab Ka Hc Hn Kw Hr].
  - exact I.
  - split; [exact Hab|]. apply (St_step1 _ _ _ _ _ _ _ _ S). left. eexists; exact Hr.
  - split; [exact Hab|]. apply (St_step1 _ _ _ _ _ _ _ _ S). right. exists w, r1, cm, r2. repeat split; assumption.
Qed.

Lemma HJ_bump_any_kind_any :
  HJ (St jany) bump_any bump_any (fun a s1 b s2 => krel a b /\ St anyR s1 s2 /\ (swt (kind a) = false -> St jany s1 s2)).
Proof.
  intros s1 s2 S. rewrite !bump_any_step. pose proof S as ([m Hr] & _).
  destruct Hr as [m | m a b r1 r2 Hab Hr | a b cm w r1 r2 Hab Ka Hc Hn Kw Hr].
  - exact I.
  - split; [exact Hab|]. split; [|intros _]; apply (St_step1 _ _ _ _ _ _ _ _ S); [left|]; eexists; exact Hr.
  - split; [exact Hab|]. split; [|intro X; congruence].
    apply (St_step1 _ _ _ _ _ _ _ _ S). right. exists w, r1, cm, r2. repeat split; assumption.
Qed.
Lemma HJ_bump_any_kind :
  HJ (St jany) bump_any bump_any (fun a s1 b s2 => krel a b /\ (swt (kind a) = false -> St jany s1 s2)).
Proof.
  eapply HJ_conseq; [intros s1 s2 X; exact X | apply HJ_bump_any_kind_any |].
  intros a s1 b s2 (H1 & _ & H2). split; assumption.
Qed.

Lemma HL_bump_any_k k : swt k = false ->
  HL (jhead k) (fun a b => krel a b /\ kind a = k) bump_any bump_any jany.
Proof.
  intros Kk s1 s2 S. rewrite !bump_any_step. pose proof S as (([m Hr] & Hk) & _).
  destruct Hr as [m | m a b r1 r2 Hab Hr | a b cm w r1 r2 Hab Ka Hc Hn Kw Hr]; cbn [hdk] in Hk.
  - exact I.
  - split; [split; [exact Hab | exact Hk]|]. apply (St_step1 _ _ _ _ _ _ _ _ S). eexists; exact Hr.
  - congruence.
Qed.

(* ---------------------------------------------------------------- until, consume_while *)
Lemma HL_until f : f KLineComment = false -> f KBlockComment = false -> f KWs = false ->
  HL jany (orel jany) (until f) (until f) jany.
Proof.
  intros F1 F2 F3 s1 s2 S. unfold until. pose proof S as ([m Hr] & _).
  pose proof (jsim_split_any f m _ _ F1 F2 F3 Hr) as X.
  destruct (position f (b_rest s1)) as [n1|], (position f (b_rest s2)) as [n2|]; try contradiction.
  - destruct X as [X1 X2]. split; [exact X1 | exact (St_advance _ _ _ _ _ _ S X2)].
  - split; [exact I | exact S].
Qed.

Lemma HJ_until_in f : f KCloseBrace = true ->
  HJ (St (jsim MIn)) (until f) (until f) (fun o1 s1 o2 s2 => orel ksim o1 o2 /\ St jany s1 s2).
Proof.
  intros F s1 s2 S. unfold until. pose proof S as (Hr & _).
  pose proof (jsim_split_in f _ _ F Hr) as X.
  destruct (position f (b_rest s1)) as [n1|], (position f (b_rest s2)) as [n2|]; try contradiction.
  - destruct X as (_ & X1 & X2). split; [exact X1 | exact (St_advance _ _ _ _ _ _ S X2)].
  - split; [exact I | exact (St_mono _ _ _ _ (jsim_jany _) S)].
Qed.

Lemma HL_consume_while g : g KLineComment = true -> g KBlockComment = true -> g KWs = true ->
  HL jany jany (consume_while g) (consume_while g) jany.
Proof.
  intros G1 G2 G3 s1 s2 S. unfold consume_while. pose proof S as ([m Hr] & _).
  pose proof (jsim_split_any (fun k => negb (g k)) m (b_rest s1) (b_rest s2)) as X. cbv beta in X. rewrite G1, G2, G3 in X.
  specialize (X eq_refl eq_refl eq_refl Hr).
  destruct (position _ (b_rest s1)) as [n1|], (position _ (b_rest s2)) as [n2|]; try contradiction.
  - destruct X as [X1 X2]. split; [exact X1 | exact (St_advance _ _ _ _ _ _ S X2)].
  - rewrite !firstn_all. split; [eexists; exact Hr|]. apply (St_advance _ _ _ _ _ _ S). rewrite !skipn_all. exact jany_nil.
Qed.

Lemma HL_consume_while_noword g : (forall k, swt k = true -> g k = false) ->
  HL jany ksim (consume_while g) (consume_while g) jany.
Proof.
  intros G s1 s2 S. unfold consume_while. pose proof S as ([m Hr] & _).
  pose proof (jsim_split_noword g m _ _ G Hr) as X.
  destruct (position _ (b_rest s1)) as [n1|], (position _ (b_rest s2)) as [n2|]; try contradiction.
  - destruct X as (_ & X1 & X2). split; [exact X1 | exact (St_advance _ _ _ _ _ _ S X2)].
  - rewrite !firstn_all. split; [exact X|]. apply (St_advance _ _ _ _ _ _ S). rewrite !skipn_all. exact jany_nil.
Qed.

Lemma HJ_consume_while_word :
  HJ (St jany) (consume_while is_single_word_tok) (consume_while is_single_word_tok)
     (fun l1 s1 l2 s2 => ksim l1 l2 /\ St anyR s1 s2).
Proof.
  intros s1 s2 S. unfold consume_while. pose proof S as ([m Hr] & _).
  pose proof (jsim_split_word m _ _ Hr) as X.
  destruct (position _ (b_rest s1)) as [n1|], (position _ (b_rest s2)) as [n2|]; try contradiction.
  - destruct X as (_ & X1 & X2). split; [exact X1 | exact (St_advance _ _ _ _ _ _ S X2)].
  - rewrite !firstn_all. split; [exact X|]. apply (St_advance _ _ _ _ _ _ S). rewrite !skipn_all. left. exact jany_nil.
Qed.

Lemma HL_ws_comments_k : HL jany ksim ws_comments ws_comments jany.
Proof. apply HL_consume_while_noword. intros k H. destruct k; try discriminate H; reflexivity. Qed.
Lemma HL_ws_comments : HL jany jany ws_comments ws_comments jany.
Proof. eapply HL_conseq_R; [apply HL_ws_comments_k | exact ksim_jany]. Qed.

Lemma HL_consume_rest : HL jany jany consume_rest consume_rest jany.
Proof. apply HL_consume_while; reflexivity. Qed.
Lemma HJ_consume_rest :
  HJ (St jany) consume_rest consume_rest
     (fun l1 s1 l2 s2 => jany l1 l2 /\ St jany s1 s2 /\ b_rest s1 = [] /\ b_rest s2 = []).
Proof.
  intros s1 s2 S. unfold consume_rest, consume_while. pose proof S as (Hr & _).
  assert (P : forall l, position (fun _ : tkind => negb true) l = None).
  { induction l as [|t r IH]; [reflexivity|]. cbn [position]. rewrite IH. reflexivity. }
  rewrite !P, !firstn_all. split; [exact Hr|]. rewrite !advance_rest, !skipn_all.
  split; [|split; reflexivity]. apply (St_advance _ _ _ _ _ _ S). rewrite !skipn_all. exact jany_nil.
Qed.

(* ---------------------------------------------------------------- the text run of the step loop *)
Lemma consume_while_inv g s l s' :
  consume_while g s = Done (l, s') ->
  exists n, n = match position (fun k => negb (g k)) (b_rest s) with Some n => n | None => length (b_rest s) end
            /\ l = firstn n (b_rest s) /\ s' = advance n s.
Proof. unfold consume_while. intro H. inversion H; subst. eexists. split; [reflexivity|]. split; reflexivity. Qed.

Lemma text_run_rel s1 s2 a b s1' s2' m1 m2 s1'' s2'' :
  St anyR s1 s2 ->
  bump_any s1 = Done (a, s1') -> bump_any s2 = Done (b, s2') ->
  consume_while (fun k => negb (is_marker k)) s1' = Done (m1, s1'') ->
  consume_while (fun k => negb (is_marker k)) s2' = Done (m2, s2'') ->
  textrel (a :: m1) (b :: m2) /\ St jany s1'' s2''.
Proof.
  set (f := fun k => negb (negb (is_marker k))).
  assert (F1 : f KLineComment = false) by reflexivity.
  assert (F2 : f KBlockComment = false) by reflexivity.
  assert (F3 : f KWs = false) by reflexivity.
  intros S B1 B2 C1 C2. rewrite bump_any_step in B1, B2.
  (* after the two bumps: either anyR rests with krel heads, or the third shape *)
  assert (X : exists r1 r2, s1' = step1 s1 a r1 /\ s2' = step1 s2 b r2 /\
             ((krel a b /\ anyR r1 r2) \/
              (kind b = KBlockComment /\ tstr b <> [] /\
               exists w' r2', r2 = w' :: r2' /\ krel a w' /\ kind a = KWs /\ jsim MOut r1 r2'))).
  { pose proof S as ([[m Hr]|Hr] & _).
    - destruct Hr as [m | m a0 b0 r1 r2 Hab Hr | a0 b0 cm w r1 r2 Hab Ka Hc Hn Kw Hr]; try discriminate.
      + inversion B1; inversion B2; subst. exists r1, r2. split; [reflexivity|]. split; [reflexivity|].
        left. split; [exact Hab|]. left. eexists; exact Hr.
      + inversion B1; inversion B2; subst. exists (w :: r1), (cm :: r2). split; [reflexivity|]. split; [reflexivity|].
        left. split; [exact Hab|]. right. exists w, r1, cm, r2. repeat split; assumption.
    - destruct Hr as (w & r1 & cm & r2 & E1 & E2 & Hw & Hc & Hn & Hr). rewrite E1 in B1. rewrite E2 in B2.
      inversion B1; inversion B2; subst. exists r1, r2. split; [reflexivity|]. split; [reflexivity|].
      right. split; [exact Hc|]. split; [exact Hn|].
      destruct (jsim_ws_inv _ _ _ _ Hw Hr) as (w' & r2' & -> & Hww & Hr'). exists w', r2'. split; [reflexivity|]. split; [exact Hww|]. split; [exact Hw | exact Hr']. }
  destruct X as (r1 & r2 & -> & -> & X).
  apply consume_while_inv in C1 as (n1 & En1 & -> & ->). apply consume_while_inv in C2 as (n2 & En2 & -> & ->).
  cbn [step1 b_rest] in En1, En2 |- *. fold f in En1, En2.
  assert (S' : St (fun _ _ => True) (step1 s1 a r1) (step1 s2 b r2)) by (apply (St_step1 _ _ _ _ _ _ _ _ S); exact I).
  destruct X as [[Hab Hr] | (Hc & Hn & w' & r2' & -> & Haw & Ka & Hr)].
  - pose proof (anyR_split f _ _ F1 F2 F3 Hr) as X.
    destruct (position f r1) as [k1|], (position f r2) as [k2|]; try contradiction; subst n1 n2.
    + destruct X as [X1 X2]. split; [apply textrel_cons_k; assumption|]. exact (St_advance _ _ _ _ _ _ S' X2).
    + rewrite !firstn_all. split; [apply textrel_cons_k; assumption|].
      apply (St_advance _ _ _ _ _ _ S'). cbn [step1 b_rest]. rewrite !skipn_all. exact jany_nil.
  - pose proof (jsim_split f MOut _ _ F1 F2 F3 Hr) as X. cbn [position] in En2.
    rewrite <- (krel_kind _ _ Haw), Ka, F3 in En2.
    destruct (position f r1) as [k1|], (position f r2') as [k2|]; try contradiction; cbn [option_map] in En2; subst n1 n2.
    + destruct X as [X1 X2]. cbn [firstn]. split.
      * apply textrel_comment_r; [exact (bc_comment _ Hc) | exact Hn|]. apply textrel_cons_k; [exact Haw | exact (jsim_textrel _ _ _ X1)].
      * apply (St_advance _ _ _ _ _ _ S'). cbn [step1 b_rest skipn]. eexists; exact X2.
    + rewrite firstn_all. cbn [length firstn]. rewrite firstn_all. split.
      * apply textrel_comment_r; [exact (bc_comment _ Hc) | exact Hn|]. apply textrel_cons_k; [exact Haw | exact (jsim_textrel _ _ _ Hr)].
      * apply (St_advance _ _ _ _ _ _ S'). cbn [step1 b_rest skipn]. rewrite !skipn_all. exact jany_nil.
Qed.
