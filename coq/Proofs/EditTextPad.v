(* Property C17, text mode, the padded block comment `word [- c -] next` ([psim], Proofs/EditPad*.v):
   the relational reading of Proofs/EditPadStep.v with the SOURCE of every component event related, as
   Proofs/EditTextTrail.v does for the trailing edit (same ghost: the component events of the two event
   stacks, in order; the unary tape invariant on either side).

   The consumed runs of a component attempt: the remaining tokens are [pany]-related before and after,
   hence [qsim]-related; a gap stands for ONE blank token of the left run, so it lies on one side of
   the cut, and both runs end in a token that is neither blank nor comment: the runs are [qsim]-related
   ([consumed_qsim]).  What `in_text` keeps of them ([tx]) differs by U+0020s inserted before a U+0020
   ([gapl]: [spins false]), the comment tokens of the gap are removed: [qsim_Tq]. *)
From Coq Require Import List Lia.
From CL Require Import Base.StrLemmas Model.Lexer Model.PText Model.CommentMask Model.Parser Model.Edits
  Proofs.LexerProofs Proofs.ParserSeg Proofs.ParserCover Proofs.ParserCoverFrame Proofs.ParserOrder Proofs.ParserFM Proofs.C02Quiet
  Proofs.EditParserProofs Proofs.EditSimDefs Proofs.EditSimQty Proofs.EditSimComp Proofs.EditInsDefs Proofs.EditInsPrim
  Proofs.EditAnalysis Proofs.EditTextFrame Proofs.EditTextSim Proofs.EditTextNorm Proofs.EditTextTrailTok Proofs.EditTextSolid
  Proofs.EditTextTrail.
From CL Require Import Proofs.EditTrailDefs Proofs.EditTrailStr Proofs.EditTrailPrim Proofs.EditTrailQty Proofs.EditTrailFun
  Proofs.EditTrailLine Proofs.EditTrailStep Proofs.EditTrailSplit Proofs.EditTrailAnalysis
  Proofs.EditPadDefs Proofs.EditPadPrim Proofs.EditPadFun Proofs.EditPadStep Proofs.EditPadSplit.
From CL Require Model.Analysis.
Import ListNotations.
Open Scope N_scope.

(* ------------------------------------------------------------------ tokens *)
Lemma gapt_not_solid t : gapt t -> solid t = false.
Proof. intros [H _]. unfold solid. destruct (kind t); try discriminate H; reflexivity. Qed.

Lemma nsolid_gap g : Forall gapt g -> nsolid g = 0%nat.
Proof.
  induction 1 as [|t g Ht _ IH]; [reflexivity|]. unfold nsolid in *. cbn [filter]. rewrite (gapt_not_solid _ Ht). exact IH.
Qed.

Lemma qsim_nsolid l1 l2 : qsim l1 l2 -> nsolid l1 = nsolid l2.
Proof.
  induction 1 as [|a b r1 r2 Hab _ IH|w g r1 r2 (Kw & _ & _ & Gg & _) _ IH]; [reflexivity| |].
  - assert (E : solid a = solid b) by (unfold solid; rewrite (krel_kind _ _ Hab); reflexivity).
    unfold nsolid in *. cbn [filter]. rewrite E. destruct (solid b); cbn [length]; congruence.
  - rewrite nsolid_app, (nsolid_gap _ Gg). assert (E : solid w = false) by (unfold solid; rewrite Kw; reflexivity).
    unfold nsolid in *. cbn [filter]. rewrite E. exact IH.
Qed.

Lemma qsim_cut l1 l2 : qsim l1 l2 -> forall c0 t1 r1, l1 = (c0 ++ [t1]) ++ r1 -> solid t1 = true ->
  exists x0 t2 y, l2 = (x0 ++ [t2]) ++ y /\ qsim (c0 ++ [t1]) (x0 ++ [t2]) /\ qsim r1 y /\ solid t2 = true.
Proof.
  induction 1 as [|a b q1 q2 Hab Hq IH|w g q1 q2 Hg Hq IH]; intros c0 t1 r1 E St.
  - destruct c0; discriminate E.
  - assert (E' : a :: q1 = (c0 ++ [t1]) ++ r1) by exact E.
    destruct c0 as [|x c0]; cbn [app] in E'; injection E' as -> E'.
    + subst q1. exists [], b, q2. cbn [app]. split; [reflexivity|]. split; [apply q_cons; [exact Hab | apply q_nil]|].
      split; [exact Hq|]. unfold solid in *. rewrite <- (krel_kind _ _ Hab). exact St.
    + destruct (IH c0 t1 r1 E' St) as (x0 & t2 & y & -> & Hr & Hy & S2).
      exists (b :: x0), t2, y. cbn [app]. split; [reflexivity|]. split; [apply q_cons; assumption|]. split; assumption.
  - assert (E' : w :: q1 = (c0 ++ [t1]) ++ r1) by exact E.
    destruct c0 as [|x c0]; cbn [app] in E'; injection E' as -> E'.
    + exfalso. destruct Hg as (Kw & _). unfold solid in St. rewrite Kw in St. discriminate.
    + destruct (IH c0 t1 r1 E' St) as (x0 & t2 & y & -> & Hr & Hy & S2).
      exists (g ++ x0), t2, y. split; [rewrite <- !app_assoc; reflexivity|]. split; [|split; assumption].
      cbn [app]. rewrite <- app_assoc. apply q_gap; assumption.
Qed.

Theorem consumed_qsim c0 t1 r1 d0 t2 r2 :
  qsim ((c0 ++ [t1]) ++ r1) ((d0 ++ [t2]) ++ r2) -> qsim r1 r2 ->
  solid t1 = true -> solid t2 = true -> qsim (c0 ++ [t1]) (d0 ++ [t2]).
Proof.
  intros H Hr S1 S2. destruct (qsim_cut _ _ H c0 t1 r1 eq_refl S1) as (x0 & t & y & E & Hw & Hy & St).
  assert (X : x0 ++ [t] = d0 ++ [t2]); [|rewrite <- X; exact Hw].
  pose proof (qsim_nsolid _ _ Hr) as N1. pose proof (qsim_nsolid _ _ Hy) as N2.
  apply app_eq_app in E. destruct E as (l & [[E1 E2] | [E1 E2]]).
  - destruct l as [|z l] using rev_ind; [rewrite app_nil_r in E1; symmetry; exact E1|]. clear IHl.
    exfalso. rewrite app_assoc in E1. apply app_inj_tail in E1 as [_ <-].
    rewrite E2, nsolid_app in N2. pose proof (nsolid_snoc_pos l t2 S2). lia.
  - destruct l as [|z l] using rev_ind; [rewrite app_nil_r in E1; exact E1|]. clear IHl.
    exfalso. rewrite app_assoc in E1. apply app_inj_tail in E1 as [_ <-].
    rewrite E2, nsolid_app in N1. pose proof (nsolid_snoc_pos l t St). lia.
Qed.

Lemma tx_app a b : tx (a ++ b) = tx a ++ tx b.
Proof. unfold tx. rewrite filter_app, map_app, concat_app. reflexivity. Qed.

Lemma tx_gap g : Forall gapt g -> tx g = render g.
Proof.
  induction 1 as [|t g [Ht _] _ IH]; [reflexivity|]. change (t :: g) with ([t] ++ g). rewrite tx_app, IH.
  unfold render. cbn [app map concat]. f_equal. unfold tx, render_tok, not_comment. cbn [filter].
  destruct (kind t); try discriminate Ht; cbn; rewrite ?app_nil_r; reflexivity.
Qed.

Lemma qsim_Tq c1 c2 : qsim c1 c2 -> Tq (tx c1) (tx c2) /\ (tx c1 = [] <-> tx c2 = []).
Proof.
  induction 1 as [|a b r1 r2 Hab _ (IH1 & IH3)|w g r1 r2 (Kw & Nw & _ & Gg & Sp) _ (IH1 & IH3)].
  - split; [apply Tq_refl | tauto].
  - destruct (wrun_Tq _ _ (wr_cons a b [] [] Hab wr_nil)) as (T & _ & N).
    change (a :: r1) with ([a] ++ r1). change (b :: r2) with ([b] ++ r2). rewrite !tx_app. split.
    + apply Tq_app; assumption.
    + split; intro X; apply app_eq_nil in X as [X Y]; [apply N in X; apply IH3 in Y | apply N in X; apply IH3 in Y]; rewrite X, Y; reflexivity.
  - change (w :: r1) with ([w] ++ r1). rewrite !tx_app, (tx_gap _ Gg).
    assert (Tw : tx [w] = tstr w). { unfold tx, not_comment. cbn [filter]. rewrite Kw. cbn. apply app_nil_r. }
    rewrite Tw. split.
    + apply Tq_app; [apply Tq_spins; exact Sp | exact IH1].
    + split; intro X; apply app_eq_nil in X as [X _]; [contradiction|].
      exfalso. apply (spins_ne _ _ _ Sp Nw). exact X.
Qed.

(* ------------------------------------------------------------------ the ghost *)
Section Pad.
  Variable src1 src2 : str.
  Variable D1 D2 : list tok.
  Variable cfg : pcfg.
  Hypothesis HD1 : segx src1 D1.
  Hypothesis HD2 : segx src2 D2.

  Definition crelP (e1 e2 : pevent) : Prop :=
    exists sp1 sp2 c1 c2, comp_span e1 = Some sp1 /\ comp_span e2 = Some sp2 /\ qsim c1 c2 /\ tx c1 <> [] /\ sr D1 c1 /\ sr D2 c2
      /\ Analysis.byte_slice src1 sp1 = Some (concat (map tstr c1))
      /\ Analysis.byte_slice src2 sp2 = Some (concat (map tstr c2)).
  Definition CP (l1 l2 : list pevent) : Prop := Forall2 crelP (compsW l1) (compsW l2).
  Definition GP (s1 s2 : bp) : Prop := tinv D1 s1 /\ tinv D2 s2 /\ CP (b_evs s1) (b_evs s2).

  Lemma GP_fr s1 s2 x1 x2 : GP s1 s2 -> tfr s1 x1 -> efr s1 x1 -> tfr s2 x2 -> efr s2 x2 -> GP x1 x2.
  Proof.
    intros (I1 & I2 & Gc) T1 (es1 & V1 & N1) T2 (es2 & V2 & N2).
    split; [eapply tinv_tfr; eassumption|]. split; [eapply tinv_tfr; eassumption|].
    unfold CP. rewrite V1, V2, !compsW_nc by assumption. exact Gc.
  Qed.

  Notation PG P := (fun s1 s2 => P s1 s2 /\ GP s1 s2).

  Lemma HJ_frame_p {A B} (P : bp -> bp -> Prop) (m1 : M A) (m2 : M B) (Q : A -> bp -> B -> bp -> Prop) :
    HJ P m1 m2 Q -> fr m1 -> fr m2 -> HJ (PG P) m1 m2 (fun a s1 b s2 => Q a s1 b s2 /\ GP s1 s2).
  Proof.
    intros H F1 F2 s1 s2 [Ps Gs]. specialize (H s1 s2 Ps).
    destruct (m1 s1) as [[a1 x1]|] eqn:E1; [|exact I]. destruct (m2 s2) as [[a2 x2]|] eqn:E2; [|exact I].
    split; [exact H|]. destruct (F1 _ _ _ E1) as [T1 V1]. destruct (F2 _ _ _ E2) as [T2 V2].
    exact (GP_fr _ _ _ _ Gs T1 V1 T2 V2).
  Qed.

  (* a pure fact in the precondition *)
  Lemma HJ_pure_p {A B} (Fp : Prop) (T : bp -> bp -> Prop) (m1 : M A) (m2 : M B) Q :
    (Fp -> HJ (PG T) m1 m2 Q) -> HJ (fun s1 s2 => (Fp /\ T s1 s2) /\ GP s1 s2) m1 m2 Q.
  Proof. intros H s1 s2 [[HF HT] HG]. exact (H HF s1 s2 (conj HT HG)). Qed.

  (* ---------------------------------------------------------------- a component attempt *)
  Lemma compP (p : M (option pevent)) s1 s2 o1 y1 o2 y2 :
    fr p -> (forall s, pc p s (comp_res s)) -> (forall s, pc p s (comp_sol s)) ->
    GP s1 s2 -> pany (b_rest s1) (b_rest s2) ->
    with_recover p s1 = Done (o1, y1) -> with_recover p s2 = Done (o2, y2) ->
    pany (b_rest y1) (b_rest y2) ->
    GP y1 y2 /\ (forall e1 e2, o1 = Some e1 -> o2 = Some e2 -> is_comp e1 = true -> is_comp e2 = true -> crelP e1 e2).
  Proof.
    intros HF HR HS Gs W0 E1 E2 W1.
    destruct (fr_with_recover p HF _ _ _ E1) as [T1 V1]. destruct (fr_with_recover p HF _ _ _ E2) as [T2 V2].
    split; [exact (GP_fr _ _ _ _ Gs T1 V1 T2 V2)|]. intros e1 e2 -> -> C1 C2.
    unfold with_recover in E1, E2.
    destruct (p s1) as [[[x1|] z1]|] eqn:P1; inversion E1; subst x1 z1. clear E1.
    destruct (p s2) as [[[x2|] z2]|] eqn:P2; inversion E2; subst x2 z2. clear E2.
    destruct (HR s1 _ _ P1) as [[[c1 F1] _] Sp1]. destruct (HR s2 _ _ P2) as [[[c2 F2] _] Sp2].
    destruct (comp_sol_run _ _ _ c1 (HS s1 _ _ P1) ltac:(discriminate) F1) as (c10 & t1 & -> & St1).
    destruct (comp_sol_run _ _ _ c2 (HS s2 _ _ P2) ltac:(discriminate) F2) as (c20 & t2 & -> & St2).
    destruct Gs as (I1 & I2 & _).
    destruct (is_comp_span e1 C1) as (sp1 & K1 & V1'). rewrite V1' in Sp1. injection Sp1 as ->.
    destruct (is_comp_span e2 C2) as (sp2 & K2 & V2'). rewrite V2' in Sp2. injection Sp2 as ->.
    eexists _, _, (c10 ++ [t1]), (c20 ++ [t2]). split; [exact K1|]. split; [exact K2|]. split; [|split; [|split; [|split; [|split]]]].
    - pose proof F1 as (_ & R1 & _). pose proof F2 as (_ & R2 & _). rewrite R1, R2 in W0.
      exact (consumed_qsim _ _ _ _ _ _ (pany_qsim _ _ W0) (pany_qsim _ _ W1) St1 St2).
    - pose proof (seg_Forall _ _ _ _ (tinv_seg cfg src1 D1 s1 _ y1 HD1 I1 F1)) as Ft.
      apply Forall_app in Ft as [_ Ft]. inversion Ft as [|? ? (_ & Nt & _) _]; subst.
      rewrite tx_app. assert (Ct : not_comment t1 = true).
      { unfold solid in St1. unfold not_comment. destruct (kind t1); try discriminate St1; reflexivity. }
      unfold tx at 2. cbn [filter]. rewrite Ct. cbn [map concat]. rewrite app_nil_r. intro X. apply app_eq_nil in X as [_ X]. contradiction.
    - exact (tinv_sr D1 s1 _ y1 I1 F1).
    - exact (tinv_sr D2 s2 _ y2 I2 F2).
    - apply seg_slice. exact (tinv_seg cfg src1 D1 s1 _ y1 HD1 I1 F1).
    - apply seg_slice. exact (tinv_seg cfg src2 D2 s2 _ y2 HD2 I2 F2).
  Qed.

  (* ---------------------------------------------------------------- the step loop, with the ghost *)
  Notation SGp T := (fun (_ : unit) s1 (_ : unit) s2 => Sw T s1 s2 /\ GP s1 s2).
  Definition crelc (e1 e2 : pevent) : Prop := EditTrailStep.crel e1 e2 /\ crelP e1 e2.

  Lemma HJ_bind_val2 {A1 A2 B1 B2} (Qu1 : A1 -> Prop) (Qu2 : A2 -> Prop) (P : bp -> bp -> Prop) (Q : A1 -> bp -> A2 -> bp -> Prop)
        (Q' : B1 -> bp -> B2 -> bp -> Prop) (m1 : M A1) (m2 : M A2) (f1 : A1 -> M B1) (f2 : A2 -> M B2) :
    HJ P m1 m2 Q -> retk Qu1 m1 -> retk Qu2 m2 ->
    (forall a1 a2, Qu1 a1 -> Qu2 a2 -> HJ (fun s1 s2 => Q a1 s1 a2 s2) (f1 a1) (f2 a2) Q') ->
    HJ P (bind m1 f1) (bind m2 f2) Q'.
  Proof.
    intros Hm H1 H2 Hf s1 s2 S. unfold bind. specialize (Hm s1 s2 S).
    destruct (m1 s1) as [[a1 s1']|] eqn:E1; [|exact I].
    destruct (m2 s2) as [[a2 s2']|] eqn:E2; [|destruct (f1 a1 s1') as [[? ?]|]; exact I].
    exact (Hf a1 a2 (H1 _ _ _ E1) (H2 _ _ _ E2) s1' s2' Hm).
  Qed.

  Lemma PJ_text_run_g {A B} (K1 : tok -> list tok -> M A) (K2 : tok -> list tok -> M B) (Q : A -> bp -> B -> bp -> Prop) :
    (forall t1 q1 t2 q2, qsim (t1 :: q1) (t2 :: q2) -> HJ (PG (Sw pany)) (K1 t1 q1) (K2 t2 q2) Q) ->
    HJ (PG (Sw pany))
       (t0 <- bump_any ;; more <- consume_while (fun k => negb (is_marker k)) ;; K1 t0 more)
       (t0 <- bump_any ;; more <- consume_while (fun k => negb (is_marker k)) ;; K2 t0 more) Q.
  Proof.
    intros HK s1 s2 [S Gs]. unfold bind. rewrite !bump_any_step. pose proof S as ([m Hr] & Sa & Se).
    destruct (b_rest s1) as [|a q1] eqn:E1; [exact I|].
    destruct (psim_text_run _ _ _ _ Hr) as (b & q2 & E2 & Hq & Hs). rewrite E2.
    cbv beta iota. rewrite !consume_while_cwc. cbn [step1 b_rest]. fold nm.
    apply (HK _ _ _ _ Hq). split.
    - unfold Sw. rewrite !advance_rest, !advance_all, !advance_evs. cbn [step1 b_rest b_all b_evs].
      split; [exact Hs | split; assumption].
    - destruct Gs as (I1 & I2 & Gc). split; [apply tinv_advance, tinv_step1; assumption|].
      split; [apply tinv_advance, tinv_step1; assumption|]. unfold CP. rewrite !advance_evs. cbn [step1 b_evs]. exact Gc.
  Qed.

  Lemma comp_pg (p : M (option pevent)) :
    WL pany (orel EditTrailStep.crel) p p pany -> fr p -> (forall s, pc p s (comp_res s)) -> (forall s, pc p s (comp_sol s)) ->
    HJ (PG (Sw pany)) (with_recover p) (with_recover p) (fun o1 s1 o2 s2 => (orel crelc o1 o2 /\ Sw pany s1 s2) /\ GP s1 s2).
  Proof.
    intros Hp HF HR HS s1 s2 [S Gs].
    pose proof (WL_with_recover pany EditTrailStep.crel p p Hp s1 s2 S) as X.
    destruct (with_recover p s1) as [[o1 y1]|] eqn:R1; [|exact I].
    destruct (with_recover p s2) as [[o2 y2]|] eqn:R2; [|exact I].
    destruct X as [Xo Xs].
    destruct (compP p s1 s2 o1 y1 o2 y2 HF HR HS Gs (proj1 S) R1 R2 (proj1 Xs)) as [Gy Hc].
    split; [split; [|exact Xs] | exact Gy].
    destruct o1 as [e1|], o2 as [e2|]; cbn [orel] in Xo |- *; try contradiction; [|exact I].
    split; [exact Xo|]. destruct Xo as [He Hcomp]. apply Hc; [reflexivity | reflexivity | exact Hcomp|].
    rewrite <- (erel_is_comp _ _ He). exact Hcomp.
  Qed.

  Lemma step_loop_pg : forall f1 f2, HJ (PG (Sw pany)) (step_loop cfg f1) (step_loop cfg f2) (SGp pany).
  Proof.
    induction f1 as [|f1 IH]; intro f2; [apply HJ_panic_l|]. destruct f2 as [|f2]; [apply HJ_panic_r|].
    cbn [step_loop].
    eapply HJ_bind; [apply (HJ_frame_p (Sw pany) rest rest (fun a s1 b s2 => pany a b /\ Sw pany s1 s2) (WL_rest pany) fr_rest fr_rest)|].
    intros r1 r2. apply HJ_pure_p. intro Hr. pose proof (pany_nil_iff _ _ Hr) as Hnil.
    destruct r1 as [|a r1], r2 as [|b r2];
      try (exfalso; destruct Hnil as [A B]; first [discriminate (A eq_refl) | discriminate (B eq_refl)]).
    { apply HJ_ret. intros s1 s2 X. exact X. }
    eapply HJ_bind; [apply (HJ_frame_p (Sw pany) peek peek (fun a s1 b s2 => a = b /\ Sw pany s1 s2) PL_peek fr_peek fr_peek)|].
    intros k1 k2. apply HJ_pure_p. intros <-.
    eapply HJ_bind with (Q := fun o1 s1 o2 s2 => (orel crelc o1 o2 /\ Sw pany s1 s2) /\ GP s1 s2).
    { destruct k1; try (apply HJ_ret; intros s1 s2 [S Gs]; split; [split; [exact I | exact S] | exact Gs]).
      - apply (comp_pg _ (ingredient_pp cfg) (fr_ingredient_p cfg) (fun s => ingredient_p_fr cfg s (comp_res s) (fun o s' H => H)) (ingredient_sol cfg)).
      - apply (comp_pg _ (cookware_pp cfg) (fr_cookware_p cfg) (fun s => cookware_p_fr cfg s (comp_res s) (fun o s' H => H)) (cookware_sol cfg)).
      - apply (comp_pg _ (timer_pp cfg) (fr_timer_p cfg) (fun s => timer_p_fr cfg s (comp_res s) (fun o s' H => H)) (timer_sol cfg)). }
    intros [ev1|] [ev2|]; apply HJ_pure_p; intro Hev; cbn [orel] in Hev; try contradiction.
    - destruct Hev as [[He Hcomp] Hc].
      assert (C2 : is_comp ev2 = true) by (rewrite <- (erel_is_comp _ _ He); exact Hcomp).
      eapply HJ_bind with (Q := SGp pany); [|intros u1 u2; apply IH].
      intros s1 s2 [S Gs]. cbn. split.
      + destruct S as (Hr' & Ha & Hev). split; [exact Hr'|]. split; [exact Ha|]. cbn. apply evw_cons; assumption.
      + destruct Gs as (I1 & I2 & Gc). split; [exact I1|]. split; [exact I2|].
        unfold CP. cbn [b_evs compsW filter]. rewrite Hcomp, C2. constructor; assumption.
    - eapply HJ_bind; [apply (HJ_frame_p (Sw pany) current_offset current_offset (fun a s1 b s2 => anyrel a b /\ Sw pany s1 s2)
                                 (WN_current_offset pany) fr_current_offset fr_current_offset)|].
      intros st1 st2. apply HJ_pure_p. intros _.
      apply PJ_text_run_g. intros t1 q1 t2 q2 Hq.
      eapply HJ_bind; [apply (HJ_frame_p (Sw pany) (textM cfg st1 (t1 :: q1)) (textM cfg st2 (t2 :: q2)) (fun a s1 b s2 => trw false a b /\ Sw pany s1 s2)
                                 (WN_textM_q cfg st1 st2 _ _ Hq pany) (fr_textM _ _ _) (fr_textM _ _ _))|].
      intros x1 x2. apply HJ_pure_p. intro Hx.
      eapply HJ_bind with (Q := SGp pany); [|intros u1 u2; apply IH].
      destruct Hx as (Hs & _ & Hf). pose proof (Hf eq_refl) as Hn.
      destruct (frags x1) as [|fa frr] eqn:F1, (frags x2) as [|fb frr'] eqn:F2.
      + apply HJ_ret. intros s1 s2 X. exact X.
      + destruct Hn as [N _]. discriminate (N eq_refl).
      + destruct Hn as [_ N]. discriminate (N eq_refl).
      + eapply HJ_conseq; [intros s1 s2 X; exact X | |].
        * apply (HJ_frame_p (Sw pany) (event (EvText x1)) (event (EvText x2)) (fun a s1 b s2 => anyrel a b /\ Sw pany s1 s2)
                   (WN_event_text _ _ Hs pany)); apply fr_event; reflexivity.
        * intros u1 s1 u2 s2 [[_ S] Gs]. split; assumption.
  Qed.

  Lemma parse_step_pg : HJ (PG (Sw pany)) (parse_step cfg) (parse_step cfg) (SGp pany).
  Proof.
    unfold parse_step.
    eapply HJ_bind; [apply (HJ_frame_p (Sw pany) (event (EvStart true)) (event (EvStart true)) (fun a s1 b s2 => anyrel a b /\ Sw pany s1 s2)
                               (WN_event _ _ eq_refl pany)); apply fr_event; reflexivity|].
    intros u1 u2. apply HJ_pure_p. intros _.
    eapply HJ_bind; [apply (HJ_frame_p (Sw pany) rest rest (fun a s1 b s2 => pany a b /\ Sw pany s1 s2) (WL_rest pany) fr_rest fr_rest)|].
    intros r1 r2. apply HJ_pure_p. intros _.
    eapply HJ_bind; [apply step_loop_pg|]. intros v1 v2.
    eapply HJ_conseq; [intros s1 s2 X; exact X | |].
    - apply (HJ_frame_p (Sw pany) (event (EvEnd true)) (event (EvEnd true)) (fun a s1 b s2 => anyrel a b /\ Sw pany s1 s2)
               (WN_event _ _ eq_refl pany)); apply fr_event; reflexivity.
    - intros a s1 b s2 [[_ S] Gs]. split; assumption.
  Qed.

  (* ---------------------------------------------------------------- blocks *)
  Lemma parse_multiline_block_pg : HJ (PG (Sw pnog)) (parse_multiline_block cfg) (parse_multiline_block cfg) (SGp pany).
  Proof.
    unfold parse_multiline_block.
    eapply HJ_bind; [apply (HJ_frame_p (Sw pnog) all_tokens all_tokens (fun a s1 b s2 => ballr a b /\ Sw pnog s1 s2)
                               (WN_all_tokens pnog) fr_all_tokens fr_all_tokens)|].
    intros a1 a2. apply HJ_pure_p. intro Ha. rewrite <- (ballr_empty _ _ Ha).
    destruct (forallb (fun t => is_empty_tok (kind t)) a1).
    - eapply HJ_bind with (Q := fun a s1 b s2 => (qsim a b /\ Sw pany s1 s2) /\ GP s1 s2).
      + eapply HJ_conseq; [| apply (HJ_frame_p (Sw pany) consume_rest consume_rest (fun a s1 b s2 => qsim a b /\ Sw pany s1 s2)
                                      PL_consume_rest (fr_consume_while _) (fr_consume_while _)) | intros a s1 b s2 X; exact X].
        intros s1 s2 [S Gs]. split; [exact (Sw_mono _ _ _ _ pnog_pany S) | exact Gs].
      + intros c1 c2. apply HJ_ret. intros s1 s2 [[_ S] Gs]. split; assumption.
    - eapply HJ_bind with (Q := fun k1 s1 k2 s2 => (k1 = k2 /\ Sw pnog s1 s2) /\ GP s1 s2).
      { apply HJ_frame_p; [|apply fr_peek | apply fr_peek]. intros s1 s2 S. cbn. rewrite !peek_of_hdk. pose proof S as (Hr & _).
        split; [exact (pany_hd _ _ (pnog_pany _ _ Hr)) | exact S]. }
      intros k1 k2. apply HJ_pure_p. intros <-.
      destruct k1;
        try (eapply HJ_conseq; [| apply parse_step_pg | intros a s1 b s2 X; exact X];
             intros s1 s2 [S Gs]; split; [exact (Sw_mono _ _ _ _ pnog_pany S) | exact Gs]).
      eapply HJ_conseq; [intros s1 s2 X; exact X | |].
      + apply (HJ_frame_p (Sw pnog) (parse_text_block cfg) (parse_text_block cfg) (fun a s1 b s2 => anyrel a b /\ Sw pnog s1 s2)
                 (parse_text_block_p cfg) (fr_parse_text_block cfg) (fr_parse_text_block cfg)).
      + intros a s1 b s2 [[_ S] Gs]. split; [exact (Sw_mono _ _ _ _ pnog_pany S) | exact Gs].
  Qed.

  (* the first part of parse_block: a metadata entry, a section header, or nothing (from [parse_block_p]) *)
  Definition blk_sel (old : bool) (k : tkind) : M (option pevent) :=
    match k with
    | KMeta => with_recover (ev <-? metadata_entry cfg ;;
                             match ev with
                             | EvMetadata key _ => if meta_kept cfg old key then ret (Some ev) else ret None
                             | _ => ret (Some ev)
                             end)
    | KEq => with_recover (section_p cfg)
    | _ => ret None
    end.

  Lemma blk_sel_p old k1 :
    HJ (Sw (phd pstart k1)) (blk_sel old k1) (blk_sel old k1)
       (fun mos1 s1 mos2 s2 => orel erel mos1 mos2 /\ match mos1 with Some _ => Sw pany s1 s2 | None => Sw (phd pstart k1) s1 s2 end).
  Proof.
    unfold blk_sel. destruct k1; try (apply HJ_ret; intros s1 s2 S; split; [exact I | exact S]).
    - apply PJ_with_recover. apply (HJ_pre (Sw (pL LStart))).
      { intros s1 s2 S. eapply Sw_mono; [|exact S]. intros l1 l2 [[(m & _ & Hl & Hp) Hn] Hk].
        split; [exists m; split; assumption | exact (Hn Hk)]. }
      eapply HJ_obindM_d with (RA := mdp) (PP := fun _ s1 s2 => Sw pany s1 s2);
        [apply metadata_entry_p | | intros s1 s2 S; split; [exact I | exact S]].
      intros e1 e2 Hm. destruct e1, e2; cbn in Hm; try contradiction.
      destruct Hm as [Hkk Hv]. unfold meta_kept. rewrite (is_config_key_trw _ _ Hkk).
      match goal with |- context [if ?c then _ else _] => destruct c end;
        apply HJ_ret; intros s1 s2 S; (split; [|exact S]); cbn [orel]; [|exact I].
      apply (mdp_erel (EvMetadata _ _) (EvMetadata _ _)). split; assumption.
    - apply PJ_with_recover. apply (HJ_pre (Sw pany)); [|apply section_p_p].
      intros s1 s2 S. eapply Sw_mono; [|exact S]. intros l1 l2 [X _]. exact (pstart_pany _ _ X).
  Qed.

  Lemma fr_blk_sel old k : fr (blk_sel old k).
  Proof.
    unfold blk_sel. destruct k; try apply fr_ret.
    - apply fr_with_recover, fr_obindM; [apply fr_metadata_entry|]. intro ev. fr_auto.
    - apply fr_with_recover, fr_section_p.
  Qed.
  Lemma retk_blk_sel old k : retk onc (blk_sel old k).
  Proof. unfold blk_sel. destruct k; try (apply retk_ret; exact I); [apply retk_meta_part | apply retk_section_part]. Qed.

  Lemma parse_block_pg old : HJ (PG (Sw pstart)) (parse_block cfg old) (parse_block cfg old) (SGp pany).
  Proof.
    unfold parse_block.
    eapply HJ_bind with (Q := fun k1 s1 k2 s2 => (k1 = k2 /\ Sw (phd pstart k1) s1 s2) /\ GP s1 s2).
    { apply HJ_frame_p; [|apply fr_peek | apply fr_peek]. intros s1 s2 S. cbn. rewrite !peek_of_hdk. pose proof S as (Hr & _).
      split; [exact (pany_hd _ _ (pstart_pany _ _ Hr))|]. apply (Sw_rest _ _ _ _ S). split; [exact Hr | reflexivity]. }
    intros k1 k2. apply HJ_pure_p. intros <-.
    change (HJ (PG (Sw (phd pstart k1)))
              (mos <- blk_sel old k1 ;; match mos with Some ev => event ev | None => parse_multiline_block cfg end)
              (mos <- blk_sel old k1 ;; match mos with Some ev => event ev | None => parse_multiline_block cfg end) (SGp pany)).
    eapply HJ_bind_val2 with (Qu1 := onc) (Qu2 := onc);
      [apply (HJ_frame_p _ _ _ _ (blk_sel_p old k1) (fr_blk_sel old k1) (fr_blk_sel old k1)) | apply retk_blk_sel | apply retk_blk_sel|].
    intros [e1|] [e2|] N1 N2; apply HJ_pure_p; intro He; cbn [orel] in He; try contradiction.
    - cbn [onc] in N1, N2. intros s1 s2 [S Gs]. cbn. split.
      + exact (proj2 (WN_event e1 e2 He pany s1 s2 S)).
      + destruct Gs as (I1 & I2 & Gc). split; [exact I1|]. split; [exact I2|]. unfold CP. cbn [b_evs compsW filter].
        rewrite (noncomp_is_comp _ N1), (noncomp_is_comp _ N2). exact Gc.
    - eapply HJ_conseq; [| apply parse_multiline_block_pg | intros a s1 b s2 X; exact X].
      intros s1 s2 [S Gs]. split; [|exact Gs]. eapply Sw_mono; [|exact S]. intros l1 l2 [X _]. exact (pstart_pnog _ _ X).
  Qed.

  Definition evwP (l1 l2 : list pevent) : Prop := evw l1 l2 /\ CP l1 l2.

  Theorem block_pg blk1 blk2 evs1 evs2 old :
    pstart blk1 blk2 -> evwP evs1 evs2 -> sr D1 blk1 -> sr D2 blk2 ->
    OR evwP (run_block blk1 evs1 (parse_block cfg old)) (run_block blk2 evs2 (parse_block cfg old)).
  Proof.
    intros Hb [He Hc] G1 G2. unfold run_block. pose proof (pany_nil_iff _ _ (pstart_pany _ _ Hb)) as Hnil.
    destruct blk1 as [|x1 q1]; [exact I|].
    destruct blk2 as [|x2 q2]; [destruct Hnil as [_ N]; discriminate (N eq_refl)|].
    set (s1 := {| b_all := x1 :: q1; b_done := []; b_rest := x1 :: q1; b_evs := evs1 |}).
    set (s2 := {| b_all := x2 :: q2; b_done := []; b_rest := x2 :: q2; b_evs := evs2 |}).
    assert (S0 : Sw pstart s1 s2 /\ GP s1 s2).
    { split; [split; [exact Hb | split; [|exact He]]; cbn; apply qsim_ballr; exact (pany_qsim _ _ (pstart_pany _ _ Hb))|].
      split; [split; [reflexivity | exact G1]|]. split; [split; [reflexivity | exact G2] | exact Hc]. }
    pose proof (parse_block_pg old s1 s2 S0) as X. unfold OR.
    destruct (parse_block cfg old s1) as [[u1 z1]|]; [|exact I].
    destruct (parse_block cfg old s2) as [[u2 z2]|]; [|destruct (b_rest z1); exact I].
    destruct X as [(Hr & _ & Hev) (_ & _ & Gc)].
    destruct (b_rest z1), (b_rest z2); try exact I. split; assumption.
  Qed.

  Lemma blocks_loop_pg f1 : forall f2 ts1 ts2 old evs1 evs2,
    pline ts1 ts2 -> sr D1 ts1 -> sr D2 ts2 -> evwP evs1 evs2 ->
    OR evwP (blocks_loop cfg f1 ts1 old evs1) (blocks_loop cfg f2 ts2 old evs2).
  Proof.
    induction f1 as [|f1 IH]; intros f2 ts1 ts2 old evs1 evs2 (m & Gm & L & Ht) G1 G2 He; [exact I|].
    destruct f2 as [|f2]; [unfold OR; destruct (blocks_loop cfg (S f1) ts1 old evs1); exact I|].
    cbn [blocks_loop].
    pose proof (next_block_p (S (length ts1)) (S (length ts2)) m ts1 ts2 Ht (fun _ => conj Gm L)
                  (Nat.lt_succ_diag_r _) (Nat.lt_succ_diag_r _)) as Nb.
    pose proof (next_block_meta_no_nl (S (length ts1)) ts1) as Nm.
    destruct (next_block (S (length ts1)) ts1) as [[b1 q1]|] eqn:N1, (next_block (S (length ts2)) ts2) as [[b2 q2]|] eqn:N2;
      try contradiction; [|exact He].
    destruct Nb as [Hb Hq].
    destruct (next_block_app _ _ _ _ N1) as (p1 & z1 & E1). destruct (next_block_app _ _ _ _ N2) as (p2 & z2 & E2).
    pose proof (sr_mid D1 ts1 p1 b1 (z1 ++ q1) G1 E1) as Gb1.
    pose proof (sr_mid D2 ts2 p2 b2 (z2 ++ q2) G2 E2) as Gb2.
    assert (Gq1 : sr D1 q1). { apply (sr_mid D1 ts1 (p1 ++ b1 ++ z1) q1 [] G1). rewrite E1, app_nil_r, <- !app_assoc. reflexivity. }
    assert (Gq2 : sr D2 q2). { apply (sr_mid D2 ts2 (p2 ++ b2 ++ z2) q2 [] G2). rewrite E2, app_nil_r, <- !app_assoc. reflexivity. }
    pose proof (block_pg b1 b2 evs1 evs2 old (conj Hb (Nm b1 q1 eq_refl)) He Gb1 Gb2) as R. unfold OR in R.
    destruct (run_block b1 evs1 (parse_block cfg old)) as [e1|]; cbn [obind]; [|exact I].
    destruct (run_block b2 evs2 (parse_block cfg old)) as [e2|]; cbn [obind].
    - apply IH; assumption.
    - unfold OR. destruct (blocks_loop cfg f1 q1 old e1); exact I.
  Qed.
End Pad.
