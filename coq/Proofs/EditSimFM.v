(* Property C17, CRLF conversion and the front-matter splitter (Model/Parser.v, parse_frontmatter).
   The splitter is described by the list of lines ([fm_parts]): the lines before the first fence,
   the fence, the lines up to the second fence, the fence, the remaining lines.  [crlf] acts line by
   line ([lines_inclusive_crlf]), a line is a fence before iff it is one after, hence front matter
   is found in the converted text exactly when it is found in the original, and its YAML text and
   recipe text are the conversions of the original ones. *)
From CL Require Import Base.StrLemmas Model.Lexer Model.PText Model.Parser Model.Edits
  Proofs.EditProofs Proofs.ParserFM.

(* ---------------------------------------------------------------- lines under crlf_from *)

Lemma lines_inclusive_crlf_from s : forall q,
  lines_inclusive (crlf_from q s) =
  match lines_inclusive s with [] => [] | l :: ls => crlf_from q l :: map crlf ls end.
Proof.
  induction s as [|c r IH]; intro q; [reflexivity|].
  cbn [crlf_from lines_inclusive].
  destruct (c =? 10) eqn:E10.
  - apply N.eqb_eq in E10. subst c.
    assert (Hr : lines_inclusive (crlf_from false r) = map crlf (lines_inclusive r)).
    { rewrite IH. destruct (lines_inclusive r); reflexivity. }
    destruct q; cbn [andb negb].
    + change (10 =? 13) with false. cbn [lines_inclusive crlf_from map].
      change (10 =? 10) with true. cbn [andb negb]. rewrite Hr.
      change (10 =? 13) with false. reflexivity.
    + cbn [lines_inclusive]. change (13 =? 10) with false. change (10 =? 10) with true.
      rewrite Hr. cbn [crlf_from map]. change (10 =? 10) with true. reflexivity.
  - cbn [andb]. cbn [lines_inclusive]. rewrite E10, IH.
    destruct (lines_inclusive r) as [|l ls]; cbn [map crlf_from]; rewrite E10; reflexivity.
Qed.

Lemma lines_inclusive_crlf s : lines_inclusive (crlf s) = map crlf (lines_inclusive s).
Proof.
  unfold crlf at 1. rewrite lines_inclusive_crlf_from. destruct (lines_inclusive s); reflexivity.
Qed.

(* the text of a list of lines that came from [lines_inclusive] converts line by line *)
Lemma concat_map_crlf x : concat (map crlf (lines_inclusive x)) = crlf x.
Proof. rewrite <- lines_inclusive_crlf. apply lines_inclusive_concat. Qed.

(* shape of a line: no LF except possibly the last character *)
Definition line_shape (l : str) : Prop :=
  exists p, no_newline p = true /\ (l = p \/ l = p ++ [10]).

Lemma lines_inclusive_shape s : Forall line_shape (lines_inclusive s).
Proof.
  induction s as [|c r IH]; cbn [lines_inclusive]; [constructor|].
  destruct (c =? 10) eqn:E10.
  - constructor; [|exact IH]. apply N.eqb_eq in E10. subst c.
    exists []. split; [reflexivity | right; reflexivity].
  - destruct (lines_inclusive r) as [|l ls].
    + constructor; [|constructor]. exists [c]. split; [|left; reflexivity].
      unfold no_newline. cbn [forallb]. rewrite E10. reflexivity.
    + inversion IH as [|? ? (p & Hp & Hl) Hls]; subst. constructor; [|exact Hls].
      exists (c :: p). split.
      * unfold no_newline in *. cbn [forallb]. rewrite E10, Hp. reflexivity.
      * destruct Hl as [-> | ->]; [left | right]; reflexivity.
Qed.

(* ---------------------------------------------------------------- fences and blank text *)

Lemma trim_end_ws_blank' w : forallb uni_ws w = true -> trim_end_ws w = [].
Proof.
  induction w as [|c r IH]; intro H; [reflexivity|]. cbn [forallb] in H.
  apply andb_true_iff in H as [H1 H2]. cbn [trim_end_ws]. rewrite (IH H2), H1. reflexivity.
Qed.

Lemma is_fence_app_blank l w : forallb uni_ws w = true -> is_fence (l ++ w) = is_fence l.
Proof.
  intro H. unfold is_fence. f_equal.
  induction l as [|c r IH]; [cbn [app]; rewrite (trim_end_ws_blank' _ H); reflexivity|].
  cbn [app trim_end_ws]. rewrite IH. reflexivity.
Qed.

Lemma line_shape_crlf_from l q : line_shape l ->
  crlf_from q l = l \/ exists p, l = p ++ [10] /\ crlf_from q l = p ++ [13; 10].
Proof.
  intros (p & Hp & [-> | ->]).
  - left. rewrite <- (app_nil_r p) at 1. rewrite (crlf_from_no_lf _ _ _ Hp). cbn [crlf_from].
    apply app_nil_r.
  - rewrite (crlf_from_no_lf _ _ _ Hp). destruct (endcr q p); cbn [crlf_from];
      change (10 =? 10) with true; cbn [andb negb].
    + left. reflexivity.
    + right. exists p. split; reflexivity.
Qed.

Lemma is_fence_crlf_from l q : line_shape l -> is_fence (crlf_from q l) = is_fence l.
Proof.
  intro H. destruct (line_shape_crlf_from l q H) as [-> | (p & -> & ->)]; [reflexivity|].
  rewrite !is_fence_app_blank; reflexivity.
Qed.

Lemma str_blank_crlf_from s : forall q, str_blank (crlf_from q s) = str_blank s.
Proof.
  unfold str_blank. induction s as [|c r IH]; intro q; [reflexivity|]. cbn [crlf_from].
  destruct ((c =? 10) && negb q) eqn:E.
  - apply andb_true_iff in E as [E _]. apply N.eqb_eq in E. subst c.
    cbn [forallb]. rewrite IH. reflexivity.
  - cbn [forallb]. rewrite IH. reflexivity.
Qed.

Lemma str_blank_concat_crlf ls : str_blank (concat (map crlf ls)) = str_blank (concat ls).
Proof.
  unfold str_blank. induction ls as [|l r IH]; [reflexivity|]. cbn [map concat].
  rewrite !forallb_app, IH. f_equal. apply str_blank_crlf_from.
Qed.

(* ---------------------------------------------------------------- the splitter by lines *)

(* the lines before the first fence, the fence, the lines after it *)
Fixpoint split_fence (ls : list str) : option (list str * str * list str) :=
  match ls with
  | [] => None
  | l :: r =>
      if is_fence l then Some ([], l, r)
      else match split_fence r with
           | Some (p, f, q) => Some (l :: p, f, q)
           | None => None
           end
  end.

Lemma split_fence_app ls p f q : split_fence ls = Some (p, f, q) -> ls = p ++ f :: q.
Proof.
  revert p f q. induction ls as [|l r IH]; intros p f q H; cbn [split_fence] in H; [discriminate|].
  destruct (is_fence l).
  - inversion H; subst. reflexivity.
  - destruct (split_fence r) as [[[p' f'] q']|]; [|discriminate]. inversion H; subst.
    cbn [app]. f_equal. apply IH. reflexivity.
Qed.

Lemma fence_list_split ls : forall off,
  fence_list ls off =
  match split_fence ls with
  | None => []
  | Some (p, f, q) =>
      (off + blen (concat p), off + blen (concat p) + blen f)
        :: fence_list q (off + blen (concat p) + blen f)
  end.
Proof.
  induction ls as [|l r IH]; intro off; cbn [fence_list split_fence]; [reflexivity|].
  destruct (is_fence l).
  - cbn [concat blen]. rewrite !N.add_0_r. reflexivity.
  - rewrite IH. destruct (split_fence r) as [[[p f] q]|]; [|reflexivity].
    cbn [concat]. rewrite blen_app, !N.add_assoc. reflexivity.
Qed.

Lemma split_fence_map g ls : (forall l, In l ls -> is_fence (g l) = is_fence l) ->
  split_fence (map g ls) =
  match split_fence ls with
  | None => None
  | Some (p, f, q) => Some (map g p, g f, map g q)
  end.
Proof.
  induction ls as [|l r IH]; intro H; cbn [map split_fence]; [reflexivity|].
  rewrite (H l (or_introl eq_refl)). destruct (is_fence l); [reflexivity|].
  rewrite IH by (intros l' Hl'; apply H; right; exact Hl').
  destruct (split_fence r) as [[[p f] q]|]; reflexivity.
Qed.

(* both fences *)
Definition fm_parts (s : str) : option (list str * str * list str * str * list str) :=
  match split_fence (lines_inclusive s) with
  | Some (p, f1, q) =>
      match split_fence q with
      | Some (m, f2, t) => Some (p, f1, m, f2, t)
      | None => None
      end
  | None => None
  end.

Lemma fm_parts_lines s p f1 m f2 t : fm_parts s = Some (p, f1, m, f2, t) ->
  lines_inclusive s = p ++ f1 :: m ++ f2 :: t.
Proof.
  unfold fm_parts. intro H.
  destruct (split_fence (lines_inclusive s)) as [[[p' f1'] q]|] eqn:E1; [|discriminate].
  destruct (split_fence q) as [[[m' f2'] t']|] eqn:E2; [|discriminate].
  inversion H; subst. apply split_fence_app in E1, E2. rewrite E1, E2. reflexivity.
Qed.

Lemma fm_parts_text s p f1 m f2 t : fm_parts s = Some (p, f1, m, f2, t) ->
  s = concat p ++ f1 ++ concat m ++ f2 ++ concat t.
Proof.
  intro H. apply fm_parts_lines in H. rewrite <- (lines_inclusive_concat s) at 1. rewrite H.
  rewrite concat_app. cbn [concat]. rewrite concat_app. cbn [concat]. reflexivity.
Qed.

(* [parse_frontmatter] in terms of the lines *)
Theorem parse_frontmatter_parts cfg s :
  parse_frontmatter cfg s =
  match fm_parts s with
  | None => None
  | Some (p, f1, m, f2, t) =>
      if p_fm_anywhere cfg || str_blank (concat p) then
        Some {| yaml_text := concat m; yaml_off := blen (concat p ++ f1);
                cook_text := concat t; cook_off := blen (concat p ++ f1 ++ concat m ++ f2) |}
      else None
  end.
Proof.
  pose proof (fm_parts_text s) as Ht.
  unfold parse_frontmatter, fm_parts in *. rewrite fence_list_split.
  destruct (split_fence (lines_inclusive s)) as [[[p f1] q]|]; [|reflexivity].
  rewrite fence_list_split.
  destruct (split_fence q) as [[[m f2] t]|]; [|reflexivity].
  specialize (Ht _ _ _ _ _ eq_refl).
  rewrite !N.add_0_l.
  assert (H1 : take_bytes s (blen (concat p)) = concat p) by (rewrite Ht at 1; apply take_bytes_app).
  assert (H2 : drop_bytes s (blen (concat p) + blen f1) = concat m ++ f2 ++ concat t).
  { rewrite Ht at 1. rewrite <- blen_app, app_assoc. apply drop_bytes_app. }
  assert (H3 : drop_bytes s (blen (concat p) + blen f1 + blen (concat m) + blen f2) = concat t).
  { rewrite Ht at 1. rewrite <- !blen_app.
    replace (concat p ++ f1 ++ concat m ++ f2 ++ concat t)
      with ((((concat p ++ f1) ++ concat m) ++ f2) ++ concat t) by (rewrite <- !app_assoc; reflexivity).
    apply drop_bytes_app. }
  rewrite H1, H2, H3.
  replace (blen (concat p) + blen f1 + blen (concat m) - (blen (concat p) + blen f1))
    with (blen (concat m)) by lia.
  rewrite take_bytes_app. rewrite !blen_app, !N.add_assoc. reflexivity.
Qed.

(* ---------------------------------------------------------------- crlf *)

Lemma fm_parts_crlf s :
  fm_parts (crlf s) =
  match fm_parts s with
  | None => None
  | Some (p, f1, m, f2, t) => Some (map crlf p, crlf f1, map crlf m, crlf f2, map crlf t)
  end.
Proof.
  unfold fm_parts. rewrite lines_inclusive_crlf.
  assert (Hall : forall l, In l (lines_inclusive s) -> is_fence (crlf l) = is_fence l).
  { intros l Hl. apply is_fence_crlf_from.
    exact (proj1 (Forall_forall _ _) (lines_inclusive_shape s) l Hl). }
  rewrite (split_fence_map crlf _ Hall).
  destruct (split_fence (lines_inclusive s)) as [[[p f1] q]|] eqn:E1; [|reflexivity].
  apply split_fence_app in E1.
  rewrite split_fence_map.
  - destruct (split_fence q) as [[[m f2] t]|]; reflexivity.
  - intros l Hl. apply Hall. rewrite E1. apply in_or_app. right. right. exact Hl.
Qed.

(* Goal A *)
Theorem parse_frontmatter_crlf_none_iff cfg s :
  parse_frontmatter cfg (crlf s) = None <-> parse_frontmatter cfg s = None.
Proof.
  rewrite !parse_frontmatter_parts, fm_parts_crlf.
  destruct (fm_parts s) as [[[[[p f1] m] f2] t]|]; [|tauto].
  rewrite str_blank_concat_crlf.
  destruct (p_fm_anywhere cfg || str_blank (concat p)); [|tauto].
  split; discriminate.
Qed.

Theorem parse_frontmatter_crlf_none cfg s :
  parse_frontmatter cfg s = None -> parse_frontmatter cfg (crlf s) = None.
Proof. apply parse_frontmatter_crlf_none_iff. Qed.

Theorem parse_frontmatter_crlf_none_rev cfg s :
  parse_frontmatter cfg (crlf s) = None -> parse_frontmatter cfg s = None.
Proof. apply parse_frontmatter_crlf_none_iff. Qed.

(* ---------------------------------------------------------------- Goal B: the two texts *)

(* a prefix of the lines of a text is the list of lines of its own text *)
Lemma lines_inclusive_prefix x : forall a b,
  lines_inclusive x = a ++ b -> lines_inclusive (concat a) = a.
Proof.
  induction x as [|c r IH]; intros a b H; cbn [lines_inclusive] in H.
  - destruct a; [reflexivity|discriminate].
  - destruct a as [|l a']; [reflexivity|]. destruct (c =? 10) eqn:E10.
    + cbn [app] in H. inversion H as [[Hl Hr]]. cbn [concat app lines_inclusive].
      rewrite E10. rewrite (IH _ _ Hr). reflexivity.
    + destruct (lines_inclusive r) as [|l0 ls0] eqn:El.
      * cbn [app] in H. inversion H as [[Hl Hr]]. symmetry in Hr.
        apply app_eq_nil in Hr as [-> _]. cbn [concat app lines_inclusive]. rewrite E10. reflexivity.
      * cbn [app] in H. inversion H as [[Hl Hr]].
        specialize (IH (l0 :: a') b). cbn [app] in IH. rewrite <- Hr in IH.
        specialize (IH eq_refl). cbn [concat] in IH.
        cbn [concat app lines_inclusive]. rewrite E10, IH. reflexivity.
Qed.

(* the lines after the first are the lines of their own text *)
Lemma lines_inclusive_tail x : forall l ls,
  lines_inclusive x = l :: ls -> lines_inclusive (concat ls) = ls.
Proof.
  induction x as [|c r IH]; intros l ls H; cbn [lines_inclusive] in H; [discriminate|].
  destruct (c =? 10).
  - inversion H. rewrite lines_inclusive_concat. reflexivity.
  - destruct (lines_inclusive r) as [|l0 ls0] eqn:El.
    + inversion H. reflexivity.
    + inversion H; subst. apply (IH l0). reflexivity.
Qed.

(* any suffix of the lines of a text is the list of lines of its own text *)
Lemma lines_inclusive_suffix a : forall x b,
  lines_inclusive x = a ++ b -> lines_inclusive (concat b) = b.
Proof.
  induction a as [|l a IH]; intros x b H.
  - cbn [app] in H. rewrite <- H, lines_inclusive_concat. reflexivity.
  - cbn [app] in H. apply lines_inclusive_tail in H. apply (IH _ _ H).
Qed.

Lemma concat_map_crlf_lines ls : lines_inclusive (concat ls) = ls ->
  concat (map crlf ls) = crlf (concat ls).
Proof. intro H. rewrite <- H at 1. apply concat_map_crlf. Qed.

(* Goal B: the YAML text and the recipe text of the converted document are the conversions of
   the original ones; the offsets are the lengths of the converted prefixes *)
Theorem parse_frontmatter_crlf_some cfg s fm :
  parse_frontmatter cfg s = Some fm ->
  exists fm', parse_frontmatter cfg (crlf s) = Some fm'
    /\ yaml_text fm' = crlf (yaml_text fm)
    /\ cook_text fm' = crlf (cook_text fm)
    /\ yaml_off fm' = blen (crlf (take_bytes s (yaml_off fm)))
    /\ cook_off fm' = blen (crlf (take_bytes s (cook_off fm))).
Proof.
  rewrite !parse_frontmatter_parts, fm_parts_crlf.
  destruct (fm_parts s) as [[[[[p f1] m] f2] t]|] eqn:E; [|discriminate].
  rewrite str_blank_concat_crlf.
  destruct (p_fm_anywhere cfg || str_blank (concat p)); [|discriminate].
  intro H. inversion H as [Hfm]. clear H Hfm. eexists. split; [reflexivity|].
  cbn [yaml_text cook_text yaml_off cook_off].
  pose proof (fm_parts_text _ _ _ _ _ _ E) as Ht.
  apply fm_parts_lines in E.
  (* the pieces are lists of lines of their own texts *)
  assert (Lt : lines_inclusive (concat t) = t).
  { apply (lines_inclusive_suffix (p ++ f1 :: m ++ [f2]) s).
    rewrite E, <- !app_assoc. cbn [app]. rewrite <- app_assoc. reflexivity. }
  assert (Lm : lines_inclusive (concat m) = m).
  { assert (L : lines_inclusive (concat (m ++ f2 :: t)) = m ++ f2 :: t).
    { apply (lines_inclusive_suffix (p ++ [f1]) s). rewrite E, <- app_assoc. reflexivity. }
    apply (lines_inclusive_prefix _ _ _ L). }
  assert (L1 : lines_inclusive (concat (p ++ [f1])) = p ++ [f1]).
  { apply (lines_inclusive_prefix s _ (m ++ f2 :: t)). rewrite E, <- app_assoc. reflexivity. }
  assert (L2 : lines_inclusive (concat (p ++ f1 :: m ++ [f2])) = p ++ f1 :: m ++ [f2]).
  { apply (lines_inclusive_prefix s _ t).
    rewrite E, <- !app_assoc. cbn [app]. rewrite <- app_assoc. reflexivity. }
  apply concat_map_crlf_lines in Lt, Lm, L1, L2.
  split; [exact Lm|]. split; [exact Lt|].
  assert (T1 : take_bytes s (blen (concat p ++ f1)) = concat (p ++ [f1])).
  { rewrite Ht at 1. rewrite app_assoc, take_bytes_app, concat_app. cbn [concat].
    rewrite app_nil_r. reflexivity. }
  assert (T2 : take_bytes s (blen (concat p ++ f1 ++ concat m ++ f2)) = concat (p ++ f1 :: m ++ [f2])).
  { rewrite Ht at 1.
    replace (concat p ++ f1 ++ concat m ++ f2 ++ concat t)
      with ((concat p ++ f1 ++ concat m ++ f2) ++ concat t) by (rewrite <- !app_assoc; reflexivity).
    rewrite take_bytes_app, concat_app. cbn [concat]. rewrite concat_app. cbn [concat].
    rewrite app_nil_r. reflexivity. }
  rewrite T1, T2, <- L1, <- L2. split; f_equal.
  - rewrite map_app, concat_app. cbn [map concat]. rewrite app_nil_r. reflexivity.
  - rewrite map_app, concat_app. cbn [map concat]. rewrite map_app, concat_app. cbn [map concat].
    rewrite app_nil_r. reflexivity.
Qed.

(* both cases in one equation *)
Theorem parse_frontmatter_crlf cfg s :
  parse_frontmatter cfg (crlf s) =
  match parse_frontmatter cfg s with
  | None => None
  | Some fm =>
      Some {| yaml_text := crlf (yaml_text fm);
              yaml_off := blen (crlf (take_bytes s (yaml_off fm)));
              cook_text := crlf (cook_text fm);
              cook_off := blen (crlf (take_bytes s (cook_off fm))) |}
  end.
Proof.
  destruct (parse_frontmatter cfg s) as [fm|] eqn:E.
  - apply parse_frontmatter_crlf_some in E as ([y yo c co] & -> & H1 & H2 & H3 & H4).
    cbn [yaml_text cook_text yaml_off cook_off] in *. subst. reflexivity.
  - apply parse_frontmatter_crlf_none. exact E.
Qed.

(* the hypotheses are satisfiable, and the conversion is visible in both texts *)
Example parse_frontmatter_crlf_example :
  let cfg := {| p_ext := 0; p_debug := false; p_strict_escape := false; p_note_label_old := false;
                p_fm_anywhere := false |} in
  let s := [45; 45; 45; 10; 97; 10; 45; 45; 45; 10; 98; 10] in
  option_map (fun fm => (yaml_text fm, yaml_off fm, cook_text fm, cook_off fm)) (parse_frontmatter cfg s)
    = Some ([97; 10], 4, [98; 10], 10)
  /\ option_map (fun fm => (yaml_text fm, yaml_off fm, cook_text fm, cook_off fm))
       (parse_frontmatter cfg (crlf s))
    = Some ([97; 13; 10], 5, [98; 13; 10], 13).
Proof. cbv zeta. split; vm_compute; reflexivity. Qed.

Print Assumptions parse_frontmatter_crlf_none_iff.
Print Assumptions parse_frontmatter_crlf_some.
Print Assumptions parse_frontmatter_crlf.
