(* Property C17, the trailing edit: the single-line blocks (metadata entry, section header) and the
   paragraph block of Model/Parser.v under [wsimb].  A metadata line holds no newline token, so
   whatever was inserted stands at its very end and the value gains trailing blanks only
   ([trT]: the value is observed through str::trim alone). *)
From Coq Require Import List Lia.
From CL Require Import Base.StrLemmas Model.Lexer Model.PText Model.CommentMask Model.Parser Model.Edits
  Proofs.EditParserProofs Proofs.EditSimDefs Proofs.EditSimQty Proofs.EditSimComp Proofs.EditInsDefs Proofs.EditInsPrim.
From CL Require Import Proofs.EditTrailDefs Proofs.EditTrailStr Proofs.EditTrailPrim Proofs.EditTrailQty Proofs.EditTrailFun.
Import ListNotations.

(* ---------------------------------------------------------------- a fact about the left run alone *)
Lemma WL_left_inv {A B} (Inv : list tok -> Prop) (PA : A -> Prop) (T T' : TR) (R : A -> B -> Prop) (m1 : M A) (m2 : M B) :
  WL T R m1 m2 T' ->
  (forall s a s', m1 s = Done (a, s') -> Inv (b_rest s) -> Inv (b_rest s') /\ PA a) ->
  WL (fun r1 r2 => T r1 r2 /\ Inv r1) (fun a b => R a b /\ PA a) m1 m2 (fun r1 r2 => T' r1 r2 /\ Inv r1).
Proof.
  intros H U s1 s2 S. pose proof S as ((Hr & Hi) & Ha & He).
  specialize (H s1 s2 (Sw_rest _ _ _ _ S Hr)).
  destruct (m1 s1) as [[a1 s1']|] eqn:E1; [|exact I]. destruct (m2 s2) as [[a2 s2']|]; [|exact I].
  destruct (U _ _ _ E1 Hi) as [Hi' Pa]. destruct H as [Hab (Hr' & Ha' & He')].
  split; [split; assumption|]. split; [split; assumption | split; assumption].
Qed.

Lemma no_nl_skipn n l : no_nl l -> no_nl (skipn n l).
Proof.
  unfold no_nl. revert l. induction n as [|n IH]; intros l H; [exact H|]. destruct l as [|t r]; [reflexivity|].
  cbn [forallb] in H. apply andb_prop in H as [_ H]. cbn [skipn]. exact (IH _ H).
Qed.
Lemma no_nl_firstn n l : no_nl l -> no_nl (firstn n l).
Proof.
  unfold no_nl. revert l. induction n as [|n IH]; intros l H; [reflexivity|]. destruct l as [|t r]; [reflexivity|].
  cbn [forallb] in H. apply andb_prop in H as [H1 H]. cbn [firstn forallb]. rewrite H1, (IH _ H). reflexivity.
Qed.
Lemma no_nl_has_nl l : no_nl l -> has_nl l = false.
Proof.
  unfold no_nl, has_nl, is_nl. induction l as [|t r IH]; intro H; [reflexivity|]. cbn [forallb existsb] in *.
  apply andb_prop in H as [H1 H2]. rewrite (IH H2). apply negb_true_iff in H1. rewrite H1. reflexivity.
Qed.

Lemma consume_unary k s o s' : consume k s = Done (o, s') -> exists n, b_rest s' = skipn n (b_rest s).
Proof.
  rewrite consume_step. destruct (b_rest s) as [|t r] eqn:E.
  - destruct (tk_eqb KEof k); [discriminate|]. intro H. inversion H; subst. exists O. rewrite E. reflexivity.
  - destruct (tk_eqb (kind t) k); intro H; inversion H; subst; [exists 1%nat; reflexivity | exists O; rewrite E; reflexivity].
Qed.
Lemma bump_unary k s t s' : bump k s = Done (t, s') -> exists n, b_rest s' = skipn n (b_rest s).
Proof.
  rewrite bump_step. destruct (b_rest s) as [|a r] eqn:E; [discriminate|].
  destruct (tk_eqb (kind a) k); [|discriminate]. intro H. inversion H; subst. exists 1%nat. reflexivity.
Qed.
Lemma until_unary f s o s' : until f s = Done (o, s') ->
  (exists n, b_rest s' = skipn n (b_rest s)) /\ (forall l, o = Some l -> exists n, l = firstn n (b_rest s)).
Proof.
  unfold until. destruct (position f (b_rest s)) as [n|]; intro H; inversion H; subst.
  - split; [exists n; apply advance_rest|]. intros l E. inversion E. exists n. reflexivity.
  - split; [exists O; reflexivity | discriminate].
Qed.
Lemma consume_rest_unary s l s' : consume_rest s = Done (l, s') -> l = b_rest s.
Proof.
  unfold consume_rest, consume_while.
  assert (P : forall q, position (fun _ : tkind => negb true) q = None).
  { induction q as [|t r IH]; [reflexivity|]. cbn [position]. rewrite IH. reflexivity. }
  rewrite P, firstn_all. intro H. inversion H. reflexivity.
Qed.

Section Line.
  Variable cfg : pcfg.

  (* ================================================================ the metadata entry *)
  Definition mdw (e1 e2 : pevent) : Prop :=
    match e1, e2 with
    | EvMetadata k1 v1, EvMetadata k2 v2 => trel k1 k2 /\ trT v1 v2
    | _, _ => False
    end.

  Lemma mdw_erel e1 e2 : mdw e1 e2 -> erel e1 e2.
  Proof.
    destruct e1, e2; cbn; try contradiction. intros [Hk Hv]. unfold erel. cbn.
    rewrite (trel_tx _ _ Hk), (trT_outer _ _ Hv). reflexivity.
  Qed.

  Definition Wn (r1 r2 : list tok) : Prop := W r1 r2 /\ no_nl r1.

  Lemma metadata_entry_w : WL Wn (orel mdw) (metadata_entry cfg) (metadata_entry cfg) W.
  Proof.
    unfold metadata_entry.
    assert (Hc : WL Wn (orel krel) (consume KMeta) (consume KMeta) Wn).
    { eapply WL_conseq_R; [apply (WL_left_inv no_nl (fun _ => True)); [apply WL_consume; discriminate|]|].
      - intros s o s' E Hi. destruct (consume_unary _ _ _ _ E) as [n ->]. split; [apply no_nl_skipn; exact Hi | exact I].
      - intros a b [H _]. exact H. }
    eapply WL_obindM; [exact Hc | | intros l1 l2 [X _]; exact X]. intros m1 m2 _.
    eapply WL_bind; [apply WN_of; apply WN_current_offset|]. intros kp1 kp2 _.
    eapply WL_bind.
    { apply (WL_left_inv no_nl (fun o => forall l, o = Some l -> no_nl l)); [apply WL_until; reflexivity|].
      intros s o s' E Hi. destruct (until_unary _ _ _ _ E) as [[n ->] F]. split; [apply no_nl_skipn; exact Hi|].
      intros l El. destruct (F l El) as [k ->]. apply no_nl_firstn. exact Hi. }
    intros [k1|] [k2|] [Hk Nk]; cbn [orel] in Hk; try contradiction.
    - cbn [tk_eqb tkind_beq] in Hk. pose proof (wi_nonl_ksim _ _ Hk (no_nl_has_nl _ (Nk _ eq_refl))) as Kk.
      eapply WL_bind with (RA := trel).
      { apply WN_of. apply WN_lift. apply text_of_rel. exact Kk. }
      intros key1 key2 Hkey.
      eapply WL_bind.
      { apply (WL_left_inv no_nl (fun _ => True)); [apply WL_bump; discriminate|].
        intros s t s' E Hi. destruct (bump_unary _ _ _ _ E) as [n ->]. split; [apply no_nl_skipn; exact Hi | exact I]. }
      intros c1 c2 _.
      eapply WL_bind; [apply WN_of; apply WN_current_offset|]. intros vp1 vp2 _.
      eapply WL_bind.
      { apply (WL_left_inv no_nl no_nl); [apply WL_consume_rest|].
        intros s l s' E Hi. pose proof (consume_rest_unary _ _ _ E) as ->. split; [|exact Hi].
        unfold consume_rest in E. rewrite consume_while_cwc in E. inversion E; subst. rewrite advance_rest. apply no_nl_skipn. exact Hi. }
      intros v1 v2 [Hv Nv].
      eapply WL_bind; [apply WN_of; apply (WN_textM_tail cfg true); [exact Hv | exact Nv]|]. intros val1 val2 Hval.
      eapply WL_bind with (RA := anyrel).
      + apply WN_of. rewrite (trel_empty _ _ Hkey), (trT_empty _ _ Hval).
        destruct (is_text_empty key2); [apply WN_error|]. destruct (is_text_empty val2); [apply WN_warn|].
        apply WN_ret. exact I.
      + intros _ _ _. eapply WL_post; [apply WL_ret; cbn; split; assumption|]. intros l1 l2 [X _]. exact X.
    - eapply WL_bind; [apply WN_of; apply WN_all_tokens|]. intros a1 a2 _.
      eapply WL_bind; [apply WN_of; apply WN_warn|]. intros _ _ _.
      eapply WL_post; [apply WL_ret; exact I|]. intros l1 l2 [X _]. exact X.
  Qed.

  (* ================================================================ the section header *)
  Lemma section_w : WL W (orel erel) (section_p cfg) (section_p cfg) W.
  Proof.
    unfold section_p. eapply WL_obindM; [apply WL_consume; discriminate | | auto]. intros e1 e2 _.
    eapply WL_bind; [apply (WL_consume_while_stop (fun k => tk_eqb k KEq)); reflexivity|]. intros x1 x2 _.
    eapply WL_bind; [apply WN_of; apply WN_current_offset|]. intros np1 np2 _.
    eapply WL_bind; [apply (WL_consume_while_pass (fun k => negb (tk_eqb k KEq))); reflexivity|]. intros n1 n2 Hn.
    eapply WL_bind; [apply WN_of; apply WN_textM; exact Hn|]. intros name1 name2 Hname.
    eapply WL_bind; [apply (WL_consume_while_stop (fun k => tk_eqb k KEq)); reflexivity|]. intros y1 y2 _.
    unfold WL. eapply HJ_bind; [apply WJ_ws_comments|]. intros _ _ s1 s2 [S Hnil]. revert s1 s2 S Hnil.
    intros s1 s2 S Hnil. unfold bind, rest. destruct (b_rest s1) as [|a r1] eqn:E1, (b_rest s2) as [|b r2] eqn:E2;
      try (exfalso; destruct Hnil as [A B]; first [discriminate (A eq_refl) | discriminate (B eq_refl)]).
    - cbn. split; [|exact S]. unfold erel. cbn. rewrite (trw_empty _ _ _ Hname).
      destruct (is_text_empty name2); [reflexivity|]. cbn. rewrite (trw_tx _ _ _ Hname). reflexivity.
    - pose proof (WN_warn D_SECTION_INVALID [tokens_span (a :: r1)] [tokens_span (b :: r2)] W s1 s2 S) as X.
      cbn in *. destruct X as [_ X]. split; [exact I | exact X].
  Qed.

  (* ================================================================ the paragraph block *)
  Definition SwF (s1 s2 : bp) : Prop :=
    W (b_rest s1) (b_rest s2) /\ ballr (b_all s1) (b_all s2) /\ evfin (b_evs s1) (b_evs s2).

  Lemma Sw_SwF s1 s2 : Sw W s1 s2 -> SwF s1 s2.
  Proof. intros (H1 & H2 & H3). split; [exact H1|]. split; [exact H2 | apply evfin_same; exact H3]. Qed.

  Definition not_nl (k : tkind) : bool := negb (tk_eqb k KNewline).

  (* one round on tokens that were all inserted: no event *)
  Lemma gtok_not_nl g : gtok g -> not_nl (kind g) = true.
  Proof. intro H. destruct (gtok_kind _ H) as [-> | ->]; reflexivity. Qed.

  Lemma cwc_all g l : Forall (fun t => g (kind t) = true) l -> cwc g l = length l.
  Proof. induction 1 as [|t r Ht _ IH]; [reflexivity|]. rewrite cwc_cons, Ht, IH. reflexivity. Qed.

  Lemma tbl_end f s : b_rest s = [] ->
    match text_block_loop cfg f s with Done (_, s') => s' = s | Panic _ => True end.
  Proof. intro E. destruct f as [|f]; [exact I|]. cbn [text_block_loop]. unfold bind, rest. rewrite E. reflexivity. Qed.

  Lemma Forall_gtok_blank r : Forall gtok r -> sp32 (render r).
  Proof.
    induction 1 as [|g q Hg _ IH]; [reflexivity|]. rewrite render_cons. apply sp32_app; [apply gtok_render; exact Hg | exact IH].
  Qed.

  Lemma wsimb_nil_gtok e l2 : wsimb e [] l2 -> Forall gtok l2.
  Proof.
    intro H. remember [] as l1 eqn:E. induction H as [|a b r1 r2 _ _ _ _|a b r1 r2 _ _ _ _|g r1 r2 Hg Ha _ IH]; try discriminate.
    - constructor.
    - constructor; [exact Hg | apply IH; exact E].
  Qed.

  Lemma tbl_gap_round f s r :
    b_rest s = r -> r <> [] -> Forall gtok r ->
    match text_block_loop cfg (S f) s with
    | Done (_, s') => b_rest s' = [] /\ b_evs s' = b_evs s /\ b_all s' = b_all s
    | Panic _ => True
    end.
  Proof.
    intros E N G. cbn [text_block_loop]. unfold bind. unfold rest at 1. rewrite E.
    destruct r as [|g q]; [contradiction N; reflexivity|]. inversion G as [|? ? Hg Gq]; subst.
    assert (K1 : tk_eqb (kind g) KTextStep = false) by (destruct (gtok_kind _ Hg) as [-> | ->]; reflexivity).
    assert (C : cwc (fun k => negb (tk_eqb k KNewline)) (g :: q) = length (g :: q)).
    { apply cwc_all. eapply Forall_impl; [|exact G]. intros t Ht. exact (gtok_not_nl _ Ht). }
    rewrite consume_step, E, K1. cbv beta iota. unfold ret at 1. cbv beta iota. unfold current_offset. cbv beta iota.
    rewrite consume_while_cwc, E, C, firstn_all. cbv beta iota.
    rewrite consume_step, advance_rest, E, skipn_all. change (tk_eqb KEof KNewline) with false. cbv beta iota.
    unfold textM, lift.
    destruct (text_of cfg (current_offset_of s) (g :: q)) as [t|] eqn:Et; [|exact I]. cbv beta iota.
    assert (Em : is_text_empty t = true).
    { assert (N1 : Forall (fun tk => tstr tk <> []) (g :: q)) by (eapply Forall_impl; [|exact G]; intros x Hx; exact (gtok_nonempty _ Hx)).
      assert (N2 : Forall newline_ok (g :: q)) by (eapply Forall_impl; [|exact G]; intros x Hx; exact (gtok_nlok _ Hx)).
      rewrite (text_of_empty_render _ _ _ _ N2 N1 Et). apply (sp32_blank _ (Forall_gtok_blank _ G)). }
    rewrite Em. unfold ret at 1. cbv beta iota. unfold rest. rewrite advance_rest, E, skipn_all. cbv beta iota.
    change (length (@nil tok) <? length (g :: q))%nat with true. cbv iota.
    pose proof (tbl_end f (advance (length (g :: q)) s)) as X. rewrite advance_rest, E, skipn_all in X. specialize (X eq_refl).
    destruct (text_block_loop cfg f (advance (length (g :: q)) s)) as [[u s']|]; [|exact I]. subst s'.
    rewrite advance_rest, E, skipn_all, advance_evs, advance_all. repeat split; reflexivity.
  Qed.

  (* a line and its newline token *)
  Lemma WJ_line {A B} (K1 : list tok -> option tok -> M A) (K2 : list tok -> option tok -> M B) (Q : A -> bp -> B -> bp -> Prop) :
    (forall l1 l2 n1 n2, Wi (l1 ++ [n1]) (l2 ++ [n2]) -> HJ (Sw W) (K1 l1 (Some n1)) (K2 l2 (Some n2)) Q) ->
    (forall l1 l2, W l1 l2 -> HJ (Sw (fun r1 r2 => r1 = [] /\ r2 = [])) (K1 l1 None) (K2 l2 None) Q) ->
    HJ (Sw W) (line <- consume_while (fun k => negb (tk_eqb k KNewline)) ;; nl <- consume KNewline ;; K1 line nl)
              (line <- consume_while (fun k => negb (tk_eqb k KNewline)) ;; nl <- consume KNewline ;; K2 line nl) Q.
  Proof.
    intros HS HN s1 s2 St. unfold bind. rewrite !consume_while_cwc. cbv beta iota.
    rewrite !consume_step, !advance_rest. pose proof St as (Hr & _).
    set (g := fun k => negb (tk_eqb k KNewline)) in *.
    pose proof (wsimb_split (fun k => negb (g k)) true _ _ eq_refl eq_refl Hr) as X.
    pose proof (wsimb_split_incl (fun k => negb (g k)) true _ _ eq_refl eq_refl Hr) as Y.
    unfold cwc. destruct (position (fun k => negb (g k)) (b_rest s1)) as [n1|] eqn:P1,
                          (position (fun k => negb (g k)) (b_rest s2)) as [n2|] eqn:P2; try contradiction.
    - destruct X as [_ (a & b & r1 & r2 & E1 & E2 & Hab & Fa & _ & Hr')]. rewrite E1, E2.
      assert (Ka : kind a = KNewline).
      { unfold g in Fa. rewrite negb_involutive in Fa. apply tkb_true in Fa. exact Fa. }
      rewrite <- (krel_kind _ _ Hab), Ka. change (tk_eqb KNewline KNewline) with true. cbv beta iota.
      assert (F1 : firstn (S n1) (b_rest s1) = firstn n1 (b_rest s1) ++ [a]).
      { rewrite <- (firstn_skipn n1 (b_rest s1)) at 1. rewrite E1, firstn_app, firstn_firstn, firstn_length.
        assert (L : (n1 <= length (b_rest s1))%nat).
        { destruct (Nat.le_gt_cases n1 (length (b_rest s1))) as [X|X]; [exact X|]. rewrite skipn_all2 in E1 by lia. discriminate. }
        replace (Nat.min (S n1) n1) with n1 by lia. replace (S n1 - Nat.min n1 (length (b_rest s1)))%nat with 1%nat by lia. reflexivity. }
      assert (F2 : firstn (S n2) (b_rest s2) = firstn n2 (b_rest s2) ++ [b]).
      { rewrite <- (firstn_skipn n2 (b_rest s2)) at 1. rewrite E2, firstn_app, firstn_firstn, firstn_length.
        assert (L : (n2 <= length (b_rest s2))%nat).
        { destruct (Nat.le_gt_cases n2 (length (b_rest s2))) as [X|X]; [exact X|]. rewrite skipn_all2 in E2 by lia. discriminate. }
        replace (Nat.min (S n2) n2) with n2 by lia. replace (S n2 - Nat.min n2 (length (b_rest s2)))%nat with 1%nat by lia. reflexivity. }
      rewrite F1, F2 in Y. apply (HS _ _ _ _ Y).
      destruct St as (_ & Sa & Se). split; [exact Hr'|]. cbn [step1 b_all b_evs]. rewrite !advance_all, !advance_evs. split; assumption.
    - rewrite !skipn_all, !firstn_all. change (tk_eqb KEof KNewline) with false. cbv beta iota.
      apply (HN _ _ Hr). apply (Sw_advance _ _ _ _ _ _ St). rewrite !skipn_all. split; reflexivity.
  Qed.

  Definition tbl_body (r : list tok) (f : nat) : M unit :=
    g <- consume KTextStep ;;
    (match g with Some _ => _w <- consume KWs ;; ret tt | None => ret tt end) ;;;
    start <- current_offset ;;
    line <- consume_while (fun k => negb (tk_eqb k KNewline)) ;;
    nl <- consume KNewline ;;
    let ts := match nl with Some n => line ++ [n] | None => line end in
    t <- textM cfg start ts ;;
    (if is_text_empty t then ret tt else event (EvText t)) ;;;
    r' <- rest ;;
    if (length r' <? length r)%nat then text_block_loop cfg f else panic site_fuel.

  Lemma tbl_unfold f s t q : b_rest s = t :: q -> text_block_loop cfg (S f) s = tbl_body (t :: q) f s.
  Proof. intro E. cbn [text_block_loop]. unfold bind at 1. unfold rest at 1. rewrite E. reflexivity. Qed.

  Lemma text_block_loop_w : forall f1 f2,
    HJ (Sw W) (text_block_loop cfg f1) (text_block_loop cfg f2) (fun _ s1 _ s2 => SwF s1 s2).
  Proof.
    induction f1 as [|f1 IH]; intro f2; [apply HJ_panic_l|]. destruct f2 as [|f2]; [apply HJ_panic_r|].
    intros s1 s2 St. pose proof St as (Hr & Sa & Se).
    destruct (b_rest s1) as [|a r1] eqn:E1.
    { (* the left run is done; the right one may have a round on inserted tokens *)
      pose proof (tbl_end (S f1) s1 E1) as X1. destruct (text_block_loop cfg (S f1) s1) as [[u1 s1']|]; [|exact I]. subst s1'.
      destruct (b_rest s2) as [|b r2] eqn:E2.
      - pose proof (tbl_end (S f2) s2 E2) as X2. destruct (text_block_loop cfg (S f2) s2) as [[u2 s2']|]; [|exact I]. subst s2'.
        apply Sw_SwF. exact St.
      - pose proof (tbl_gap_round f2 s2 (b :: r2) E2 ltac:(discriminate) (wsimb_nil_gtok _ _ Hr)) as X2.
        destruct (text_block_loop cfg (S f2) s2) as [[u2 s2']|]; [|exact I]. destruct X2 as (R2 & V2 & A2).
        split; [rewrite E1, R2; constructor|]. split; [rewrite A2; exact Sa | rewrite V2; apply evfin_same; exact Se]. }
    assert (N2 : b_rest s2 <> []) by (apply (wsimb_ne _ _ _ Hr); discriminate).
    destruct (b_rest s2) as [|b r2] eqn:E2; [contradiction N2; reflexivity|].
    clear Hr Sa Se.
    rewrite (tbl_unfold f1 s1 a r1 E1), (tbl_unfold f2 s2 b r2 E2).
    revert s1 s2 St E1 E2.
    assert (G : HJ (Sw W) (tbl_body (a :: r1) f1) (tbl_body (b :: r2) f2)
      (fun _ s1 _ s2 => SwF s1 s2)).
    2:{ intros s1 s2 St _ _. exact (G s1 s2 St). }
    unfold tbl_body.
    eapply HJ_bind; [apply WL_consume; discriminate|]. intros g1 g2 s1 s2 [Hg S]. revert s1 s2 S.
    eapply HJ_bind with (Q := fun _ s1 _ s2 => Sw W s1 s2).
    { destruct g1, g2; cbn [orel] in Hg; try contradiction.
      - eapply HJ_bind; [apply WL_consume_ws|]. intros _ _ s1 s2 [_ S]. cbn. exact S.
      - intros s1 s2 S. cbn. exact S. }
    intros _ _. eapply HJ_bind; [apply (WN_current_offset W)|]. intros st1 st2 s1 s2 [_ S]. revert s1 s2 S.
    apply WJ_line.
    - (* a line with its newline *)
      intros l1 l2 n1 n2 Hl. cbv zeta.
      eapply HJ_bind; [apply (WN_textM cfg false _ _ _ _ Hl W)|]. intros t1 t2 s1 s2 [Ht S]. revert s1 s2 S.
      eapply HJ_bind with (Q := fun _ s1 _ s2 => Sw W s1 s2).
      { rewrite (trw_empty _ _ _ Ht). destruct (is_text_empty t2); [intros s1 s2 S; cbn; exact S|].
        intros s1 s2 (Hr & Ha & He). cbn. split; [exact Hr|]. split; [exact Ha|]. cbn. apply evw_text; [apply Ht | exact He]. }
      intros _ _. eapply HJ_bind; [apply (WL_rest W)|]. intros q1 q2 s1 s2 [_ S]. revert s1 s2 S.
      destruct (length q1 <? length (a :: r1))%nat; [|apply HJ_panic_l].
      destruct (length q2 <? length (b :: r2))%nat; [|apply HJ_panic_r]. apply IH.
    - (* the last line *)
      intros l1 l2 Hl. cbv zeta.
      eapply HJ_bind with (Q := fun t1 s1 t2 s2 => trw true t1 t2 /\ Sw (fun r1 r2 => r1 = [] /\ r2 = []) s1 s2).
      { intros s1 s2 S. pose proof (WN_textM cfg true st1 st2 _ _ Hl _ s1 s2 S) as X. exact X. }
      intros t1 t2 s1 s2 [Ht S]. revert s1 s2 S.
      eapply HJ_bind with (Q := fun _ s1 _ s2 => b_rest s1 = [] /\ b_rest s2 = [] /\ SwF s1 s2).
      { rewrite (trw_empty _ _ _ Ht). destruct (is_text_empty t2) eqn:Em.
        - intros s1 s2 ((R1 & R2) & Ha & He). cbn. split; [exact R1|]. split; [exact R2|]. apply Sw_SwF.
          split; [rewrite R1, R2; constructor | split; assumption].
        - intros s1 s2 ((R1 & R2) & Ha & He). cbn. split; [exact R1|]. split; [exact R2|].
          split; [cbn; rewrite R1, R2; constructor|]. split; [exact Ha|]. cbn. apply evfin_text; [apply Ht | | exact He].
          intro Z. destruct Ht as (Hs & He' & _). rewrite Em in He'.
          assert (B : is_text_empty t1 = true).
          { unfold is_text_empty. unfold text_str in Z. clear -Z. induction (frags t1) as [|fr q IHq]; [reflexivity|].
            cbn [map concat] in Z. apply app_eq_nil in Z as [Z1 Z2]. cbn [forallb]. rewrite (IHq Z2), andb_true_r.
            destruct (fsoft fr); [discriminate Z1 | rewrite Z1; reflexivity]. }
          congruence. }
      intros _ _ s1 s2 (R1 & R2 & S). unfold bind, rest. rewrite R1, R2. cbv beta iota.
      destruct (length (@nil tok) <? length (a :: r1))%nat; [|exact I].
      destruct (length (@nil tok) <? length (b :: r2))%nat; [|unfold panic; destruct (text_block_loop cfg f1 s1) as [[? ?]|]; exact I].
      pose proof (tbl_end f1 s1 R1) as X1. pose proof (tbl_end f2 s2 R2) as X2.
      destruct (text_block_loop cfg f1 s1) as [[u1 s1']|]; [|exact I]. destruct (text_block_loop cfg f2 s2) as [[u2 s2']|]; [|exact I].
      subst. exact S.
  Qed.

  Lemma parse_text_block_w : HJ (Sw W) (parse_text_block cfg) (parse_text_block cfg) (fun _ s1 _ s2 => Sw W s1 s2).
  Proof.
    unfold parse_text_block. eapply HJ_bind; [apply (WN_event (EvStart false) (EvStart false) eq_refl W)|].
    intros _ _ s1 s2 [_ S]. revert s1 s2 S.
    eapply HJ_bind; [apply (WL_rest W)|]. intros r1 r2 s1 s2 [_ S]. revert s1 s2 S.
    eapply HJ_bind; [apply text_block_loop_w|]. intros _ _ s1 s2 (Hr & Ha & He). cbn.
    split; [exact Hr|]. split; [exact Ha|]. cbn.
    destruct He as [l1 l2 H|t1 t2 l1 l2 Ht Hn H|t2 c1 c2 l1 l2 Hb Hc He H].
    - apply evw_cons; [reflexivity | exact H].
    - apply evw_end_text; assumption.
    - apply evw_end_blank; assumption.
  Qed.
End Line.
