(* Property C17, event level: a blank or comment-only line between blocks, whole documents, with
   or without a front matter (the front-matter side conditions discharged by Proofs/EditSimFM2.v). *)
From CL Require Import Base.StrLemmas Model.Lexer Model.PText Model.CommentMask Model.Parser Model.Edits
  Proofs.LexerProofs Proofs.MaskProofs Proofs.EditProofs Proofs.EditParserProofs Proofs.EditLink Proofs.ParserFM
  Proofs.EditSimDefs Proofs.EditSimDoc Proofs.EditSimAll Proofs.EditSimFM2.

Lemma lex_ends_line U s off ts :
  lex_at U s off = Some ts -> (ts = [] \/ exists p nl, ts = p ++ [nl] /\ kind nl = KNewline) ->
  s = [] \/ exists q, s = q ++ [10].
Proof.
  intros L H. pose proof (lex_tiles U _ _ _ L) as T. destruct H as [E0 | (p & nl & E0 & K)]; subst ts.
  - left. rewrite <- T. reflexivity.
  - right. pose proof (lex_newline_ok U _ _ _ L) as O. apply Forall_app in O as [_ O]. inversion O as [|? ? Hn _].
    rewrite map_app, concat_app in T. cbn [map concat] in T. rewrite app_nil_r in T.
    destruct (Hn K) as [E | E]; rewrite E in T.
    + exists (concat (map tstr p)). symmetry. exact T.
    + exists (concat (map tstr p) ++ [13]). rewrite <- app_assoc. symmetry. exact T.
Qed.

Section Extra.
  Variable U : N -> ucls.
  Variable cfg : pcfg.
  Hypothesis special_breaks : forall c, special c = true -> is_word_char U c = false /\ is_lex_ws U c = false.
  Hypothesis eol_breaks : forall c, (c =? 10) || (c =? 13) = true -> is_word_char U c = false /\ is_lex_ws U c = false.

  Lemma blank_line_text l tl : lex_at U l 0 = Some tl -> blank_line tl -> exists p, l = p ++ [10].
  Proof.
    intros L H. destruct (lex_ends_line U l 0 tl L) as [E | E]; [right; apply blank_line_ends; exact H | | exact E].
    subst l. cbn in L. inversion L; subst tl. destruct H as (w & nl & E & _). destruct w; discriminate.
  Qed.

  (* no front matter *)
  Theorem extra_line_none a l b ta tl tb :
    parse_frontmatter cfg (a ++ b) = None ->
    Forall (fun x => is_fence x = false) (lines_inclusive l) ->
    lex_at U a 0 = Some ta -> lex_at U l 0 = Some tl -> lex_at U b (blen a) = Some tb ->
    (ta = [] \/ exists p nl, ta = p ++ [nl] /\ kind nl = KNewline) -> blank_line tl ->
    reach (ta ++ tb) tb ->
    OR same_events (events U cfg (a ++ b)) (events U cfg (a ++ l ++ b)).
  Proof.
    intros F1 Hf La Ll Lb Hta Hl Hr.
    apply (extra_line_events_all cfg U special_breaks eol_breaks a l b ta tl tb); try assumption.
    apply parse_frontmatter_insert_none; [exact (lex_ends_line U a 0 ta La Hta) | exact (blank_line_text l tl Ll Hl) | exact Hf | exact F1].
  Qed.

  (* below a front matter: the Cooklang part is [a ++ b] *)
  Theorem extra_line_some s fm a l b ta tl tb :
    parse_frontmatter cfg s = Some fm -> cook_text fm = a ++ b -> a ++ b <> [] ->
    lex_at U a (cook_off fm) = Some ta -> lex_at U l 0 = Some tl -> lex_at U b (cook_off fm + blen a) = Some tb ->
    (ta = [] \/ exists p nl, ta = p ++ [nl] /\ kind nl = KNewline) -> blank_line tl ->
    reach (ta ++ tb) tb ->
    OR same_events (events U cfg s) (events U cfg (take_bytes s (cook_off fm) ++ a ++ l ++ b)).
  Proof.
    intros F C Hne La Ll Lb Hta Hl Hr.
    assert (Hc : cook_text fm <> []) by (rewrite C; exact Hne).
    destruct (parse_frontmatter_insert_some_nonempty cfg s fm a l b F C Hc) as (fm' & F' & Hy & Hyo & Hct & Hco).
    apply (extra_line_events_fm U cfg (ingredient_ksim cfg) (cookware_ksim cfg) (timer_ksim cfg)
             special_breaks eol_breaks s _ fm fm' a l b ta tl tb F F'); try assumption; symmetry; assumption.
  Qed.
End Extra.
