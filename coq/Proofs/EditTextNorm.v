(* Property C17, text mode, trailing and padded edits: the normal form of PARAGRAPH text.
   In text mode a component is copied as written, line ends included ("@sea\nsalt{}"), and a trailing
   edit puts U+0020s in front of such a line end ("@sea \nsalt{}" once the comment is removed): the
   normal form of paragraph text must read a line end as blank space.
   [squeezeN]: runs of U+0020, TAB, LF, CR squeezed to one U+0020; [norm_textN]: none at the start,
   none at the end.  (The monitor of checks/c17_edits.py collapses [ \t\r\n]+ in paragraph text.)
   [Tq a b]: equal after squeezing in every context; [TqE a b]: [b] may hold more blank space at
   its end. *)
From Coq Require Import Lia.
From CL Require Import Base.StrLemmas Proofs.EditTrailDefs Proofs.EditTrailStr.
Open Scope N_scope.

Definition is_blankN (c : N) : bool := (c =? 32) || (c =? 9) || (c =? 10) || (c =? 13).
Fixpoint squeezeN (prev : bool) (s : str) : str :=
  match s with
  | [] => []
  | c :: r => if is_blankN c then (if prev then squeezeN true r else 32 :: squeezeN true r) else c :: squeezeN false r
  end.
Fixpoint endbN (p : bool) (s : str) : bool := match s with [] => p | c :: r => endbN (is_blankN c) r end.
Definition dlbN (s : str) : str := match rev s with c :: r => if is_blankN c then rev r else s | [] => [] end.
Definition norm_textN (t : str) : str := dlbN (squeezeN true t).
Definition blanksN (w : str) : Prop := forallb is_blankN w = true.

Lemma squeezeN_app a b : forall p, squeezeN p (a ++ b) = squeezeN p a ++ squeezeN (endbN p a) b.
Proof.
  induction a as [|c r IH]; intro p; [reflexivity|]. cbn [app squeezeN endbN].
  destruct (is_blankN c); [destruct p|]; rewrite IH; reflexivity.
Qed.
Lemma endbN_app a b : forall p, endbN p (a ++ b) = endbN (endbN p a) b.
Proof. induction a as [|c r IH]; intro p; [reflexivity|]. cbn [app endbN]. apply IH. Qed.
Lemma endbN_snoc p a c : endbN p (a ++ [c]) = is_blankN c.
Proof. rewrite endbN_app. reflexivity. Qed.

Lemma blanksN_cons c r : blanksN (c :: r) -> is_blankN c = true /\ blanksN r.
Proof. unfold blanksN. cbn [forallb]. intro H. apply andb_prop in H. exact H. Qed.
Lemma blanksN_app a b : blanksN a -> blanksN b -> blanksN (a ++ b).
Proof. unfold blanksN. intros Ha Hb. rewrite forallb_app, Ha, Hb. reflexivity. Qed.
Lemma sp32_blanksN w : sp32 w -> blanksN w.
Proof.
  induction w as [|c r IH]; intro H; [reflexivity|]. apply sp32_cons_inv in H as [-> H].
  unfold blanksN. cbn [forallb]. rewrite (IH H). reflexivity.
Qed.

Lemma squeezeN_blanks w : blanksN w -> squeezeN true w = [] /\ (squeezeN false w = [] \/ squeezeN false w = [32]).
Proof.
  induction w as [|c r IH]; intro H; [split; [|left]; reflexivity|]. apply blanksN_cons in H as [Hc H].
  destruct (IH H) as [E _]. cbn [squeezeN]. rewrite Hc, E. split; [reflexivity | right; reflexivity].
Qed.

Lemma dlbN_snoc_blank s : dlbN (s ++ [32]) = s.
Proof. unfold dlbN. rewrite rev_app_distr. cbn [rev app]. change (is_blankN 32) with true. cbv iota. apply rev_involutive. Qed.
Lemma dlbN_snoc_other s c : is_blankN c = false -> dlbN (s ++ [c]) = s ++ [c].
Proof. intro H. unfold dlbN. rewrite rev_app_distr. cbn [rev app]. rewrite H. reflexivity. Qed.

Lemma dlbN_squeeze_noblank p a : endbN p a = false -> dlbN (squeezeN p a) = squeezeN p a.
Proof.
  intro H. destruct (rev a) as [|c r] eqn:E.
  - apply (f_equal (@rev N)) in E. rewrite rev_involutive in E. cbn [rev] in E. subst a. reflexivity.
  - apply (f_equal (@rev N)) in E. rewrite rev_involutive in E. cbn [rev] in E. subst a.
    rewrite endbN_snoc in H. rewrite squeezeN_app. cbn [squeezeN]. rewrite H. apply dlbN_snoc_other. exact H.
Qed.

Lemma dlbN_squeeze_end p a w : blanksN w -> dlbN (squeezeN p (a ++ w)) = dlbN (squeezeN p a).
Proof.
  intro Hw. rewrite squeezeN_app. destruct (squeezeN_blanks w Hw) as [Et Ef]. destruct (endbN p a) eqn:B.
  - rewrite Et, app_nil_r. reflexivity.
  - destruct Ef as [Ef|Ef]; rewrite Ef.
    + rewrite app_nil_r. reflexivity.
    + rewrite dlbN_snoc_blank. symmetry. apply dlbN_squeeze_noblank. exact B.
Qed.

(* ---------------------------------------------------------------- the relations *)
Definition Tq (a b : str) : Prop := forall p, squeezeN p a = squeezeN p b /\ endbN p a = endbN p b.
Definition TqE (a b : str) : Prop := exists b' w, b = b' ++ w /\ Tq a b' /\ blanksN w.

Lemma Tq_refl a : Tq a a.
Proof. intro p. split; reflexivity. Qed.
Lemma Tq_trans a b c : Tq a b -> Tq b c -> Tq a c.
Proof. intros H1 H2 p. destruct (H1 p) as [A1 A2], (H2 p) as [B1 B2]. split; congruence. Qed.
Lemma Tq_app a a' b b' : Tq a a' -> Tq b b' -> Tq (a ++ b) (a' ++ b').
Proof.
  intros H1 H2 p. destruct (H1 p) as [A1 A2]. rewrite !squeezeN_app, !endbN_app, A1, A2.
  destruct (H2 (endbN p a')) as [B1 B2]. rewrite B1, B2. split; reflexivity.
Qed.

Lemma Tq_spins a b : spins false a b -> Tq a b.
Proof.
  induction 1 as [|w He Hw|c r1 r2 _ IH|r1 r2 _ IH]; intro p.
  - split; reflexivity.
  - discriminate.
  - cbn [squeezeN endbN]. destruct (IH true) as [A1 A2], (IH false) as [B1 B2], (IH (is_blankN c)) as [C1 C2].
    rewrite A1, B1, C2. split; reflexivity.
  - destruct (IH true) as [A1 A2]. cbn [squeezeN endbN] in *. change (is_blankN 32) with true in *. cbv iota in *.
    rewrite <- A1, <- A2. split; reflexivity.
Qed.

Lemma Tq_TqE a b : Tq a b -> TqE a b.
Proof. intro H. exists b, []. split; [rewrite app_nil_r; reflexivity|]. split; [exact H | reflexivity]. Qed.
Lemma TqE_app a a' b b' : Tq a a' -> TqE b b' -> TqE (a ++ b) (a' ++ b').
Proof.
  intros H (x & w & -> & Hx & Hw). exists (a' ++ x), w. rewrite app_assoc. split; [reflexivity|].
  split; [apply Tq_app; assumption | exact Hw].
Qed.
Lemma TqE_more a b w : TqE a b -> blanksN w -> TqE a (b ++ w).
Proof.
  intros (x & v & -> & Hx & Hv) Hw. exists x, (v ++ w). rewrite app_assoc. split; [reflexivity|].
  split; [exact Hx | apply blanksN_app; assumption].
Qed.
Lemma TqE_norm a b : TqE a b -> norm_textN a = norm_textN b.
Proof.
  intros (x & w & -> & Hx & Hw). unfold norm_textN. rewrite (dlbN_squeeze_end true x w Hw).
  destruct (Hx true) as [E _]. rewrite E. reflexivity.
Qed.
Lemma TqE_spins e a b : spins e a b -> TqE a b.
Proof.
  intro H. assert (H' : spins true a b) by (destruct e; [exact H | apply spins_weaken; exact H]).
  clear H. induction H' as [|w He Hw|c r1 r2 _ IH|r1 r2 _ IH].
  - apply Tq_TqE, Tq_refl.
  - exists [], w. split; [reflexivity|]. split; [apply Tq_refl | apply sp32_blanksN; exact Hw].
  - change (c :: r1) with ([c] ++ r1). change (c :: r2) with ([c] ++ r2). apply TqE_app; [apply Tq_refl | exact IH].
  - destruct IH as (x & w & E & Hx & Hw). exists (32 :: x), w. rewrite E. split; [reflexivity|]. split; [|exact Hw].
    intro p. destruct (Hx true) as [A1 A2]. cbn [squeezeN endbN] in *. change (is_blankN 32) with true in *. cbv iota in *.
    rewrite <- A1, <- A2. split; reflexivity.
Qed.

(* blank space in front of blank space *)
Lemma Tq_absorb w c Y : blanksN w -> is_blankN c = true -> Tq (c :: Y) (w ++ c :: Y).
Proof.
  intros Hw Hc. induction w as [|d w IH]; [apply Tq_refl|]. apply blanksN_cons in Hw as [Hd Hw].
  specialize (IH Hw). intro p. destruct (IH true) as [A1 A2]. cbn [app squeezeN endbN] in *. rewrite Hc, Hd in *.
  cbv iota in *. rewrite <- A1, <- A2. split; reflexivity.
Qed.

(* two non-empty runs of blank space *)
Lemma Tq_blanks x y : x <> [] -> y <> [] -> blanksN x -> blanksN y -> Tq x y.
Proof.
  intros Nx Ny Hx Hy p. destruct x as [|c x]; [contradiction|]. destruct y as [|d y]; [contradiction|].
  apply blanksN_cons in Hx as [Hc Hx]. apply blanksN_cons in Hy as [Hd Hy].
  cbn [squeezeN endbN]. rewrite Hc, Hd.
  destruct (squeezeN_blanks x Hx) as [E1 _], (squeezeN_blanks y Hy) as [E2 _]. rewrite E1, E2.
  assert (B : forall z, blanksN z -> endbN true z = true).
  { induction z as [|e z IH]; intro Hz; [reflexivity|]. apply blanksN_cons in Hz as [He Hz]. cbn [endbN]. rewrite He. exact (IH Hz). }
  rewrite (B x Hx), (B y Hy). split; reflexivity.
Qed.

Lemma Tq_nil a b : Tq a b -> (forall c, In c a -> is_blankN c = false) \/ True.
Proof. intros _. right. exact I. Qed.
