(* The index-in-range hypothesis of C19_refs_resolve is the C06 invariant: a core recipe with the
   shape (sections, blocks, item kinds and indices, table lengths) of a recipe satisfying
   AnalysisSpec.recipe_ok - which C06_output proves for everything the analysis returns - has
   all its item indices in range. *)
From Coq Require Import Lia.
From CL Require Import Base.Chars Model.Analysis Model.AnalysisSpec Proofs.AnalysisProofs
  Model.Bindings Model.BindingsSpec.

Definition item_shape (it : citem) : Analysis.item :=
  match it with
  | CIText s => IText s
  | CIIng i => IIngredient (N.to_nat i)
  | CICw i => ICookware (N.to_nat i)
  | CITm i => ITimer (N.to_nat i)
  | CIInline i => IInline (N.to_nat i)
  end.

Definition content_shape (c : ccontent) (a : Analysis.content) : Prop :=
  match c, a with
  | CStepC items, CStep st => st_items st = map item_shape items
  | CTextC _, CText _ => True
  | _, _ => False
  end.

Definition same_shape (c : crecipe) (r : Analysis.recipe) : Prop :=
  Forall2 (fun s rs => Forall2 content_shape (cs_content s) (sec_content rs)) (cr_sections c) (r_sections r) /\
  length (cr_ings c) = length (r_ingredients r) /\
  length (cr_cws c) = length (r_cookware r) /\
  length (cr_tms c) = length (r_timers r).

Lemma Forall2_In_nth {A B} (R : A -> B -> Prop) l l' :
  Forall2 R l l' -> forall x, In x l -> exists i y, nth_error l' i = Some y /\ R x y.
Proof.
  induction 1 as [|a b l l' Hab _ IH]; intros x Hx; [destruct Hx|].
  destruct Hx as [<-|Hx].
  - exists O, b. split; [reflexivity|exact Hab].
  - destruct (IH x Hx) as (i & y & Hn & Hr). exists (S i), y. split; assumption.
Qed.

Lemma nth_error_lt' {A} (l : list A) i a : nth_error l i = Some a -> (i < length l)%nat.
Proof. intro H. apply nth_error_Some. congruence. Qed.

Theorem index_inv_from_C06 c r : recipe_ok r -> same_shape c r -> index_inv c.
Proof.
  intros Ok (Sec & Li & Lc & Lt). pose proof (blind_indexing r Ok) as B.
  unfold index_inv. apply Forall_forall. intros s Hs.
  destruct (Forall2_In_nth _ _ _ Sec s Hs) as (si & rs & Hsi & Cs).
  apply Forall_forall. intros cc Hc.
  destruct (Forall2_In_nth _ _ _ Cs cc Hc) as (ci & ac & Hci & Sh).
  destruct cc as [items|t]; cbn [content_in_range]; [|exact I].
  destruct ac as [st|t']; cbn [content_shape] in Sh; [|contradiction].
  apply Forall_forall. intros it Hit.
  assert (Hin : In (item_shape it) (st_items st)) by (rewrite Sh; now apply in_map).
  specialize (B si rs ci st (item_shape it) Hsi Hci Hin).
  destruct it as [tx|i|i|i|i]; cbn [item_shape item_in_range] in *; try exact I.
  - destruct B as (x & Hx & _). apply nth_error_lt' in Hx. lia.
  - destruct B as (x & Hx & _). apply nth_error_lt' in Hx. lia.
  - destruct B as (x & Hx). apply nth_error_lt' in Hx. lia.
Qed.
