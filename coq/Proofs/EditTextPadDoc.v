(* Property C17, text mode, the padded block comment: whole documents, recipe level, NO hypothesis
   about modes (Proofs/EditTextPad.v with the analysis side of Proofs/EditTextTrailAnalysis.v).
   Conclusion [same_parse_wN] as for the trailing edit. *)
From Coq Require Import List Lia.
From CL Require Import Base.StrLemmas Model.Lexer Model.PText Model.CommentMask Model.Parser Model.Edits Model.EventBridge Model.MetaMap
  Gen.ExtBits Proofs.LexerProofs Proofs.MaskProofs Proofs.EditProofs Proofs.EditParserProofs Proofs.EditLink
  Proofs.ParserTotal Proofs.ParserFM Proofs.EditSimDefs Proofs.EditSimDoc Proofs.EditSimFM2 Proofs.ParseTotal Proofs.EditAnalysis
  Proofs.EditInsDefs.
From CL Require Import Proofs.EditTrailDefs Proofs.EditTrailStr Proofs.EditTrailLex Proofs.EditTrailAnalysis Proofs.EditTrailDoc
  Proofs.EditPadDefs Proofs.EditPadPrim Proofs.EditPadStep Proofs.EditPadSplit Proofs.EditPadDoc.
From CL Require Import Proofs.EditTextFrame Proofs.EditTextSim Proofs.EditTextLex Proofs.EditTextCrlf Proofs.EditTextNorm
  Proofs.EditTextTrailTok Proofs.EditTextTrail Proofs.EditTextTrailAnalysis Proofs.EditTextTrailDoc Proofs.EditTextPad.
From CL Require Model.Events Model.Analysis Proofs.AnalysisTotal.
Import ListNotations.
Open Scope N_scope.

Definition fwrP (s1 s2 : str) (D1 D2 : list tok) (e1 e2 : list pevent) : Prop :=
  fwr e1 e2 /\ Forall2 (crelP s1 s2 D1 D2) (filter is_comp e1) (filter is_comp e2).

Lemma evwP_fwrP s1 s2 D1 D2 l1 l2 : evwP s1 s2 D1 D2 l1 l2 -> fwrP s1 s2 D1 D2 (rev l1) (rev l2).
Proof.
  intros [He Hc]. split; [apply evw_fwr; exact He|]. unfold CP, compsW in Hc. rewrite !filter_rev.
  apply Forall2_rev'. exact Hc.
Qed.

Lemma crelP_src_okN acfg s1 s2 D1 D2 e1 e2 :
  Analysis.text_raw acfg = false -> lex_local D1 -> lex_local D2 ->
  crelP s1 s2 D1 D2 e1 e2 -> src_okN acfg s1 s2 e1 e2.
Proof.
  intros Hr L1 L2 (sp1 & sp2 & c1 & c2 & K1 & K2 & Hw & N1 & S1 & S2 & B1 & B2). unfold src_okN. rewrite K1, K2.
  eexists _, _. split; [exact B1|]. split; [exact B2|].
  unfold Analysis.comp_src. rewrite Hr. rewrite (L1 c1 S1), (L2 c2 S2).
  destruct (qsim_Tq _ _ Hw) as (T & Hn). fold (tx c1). fold (tx c2).
  split; [exact T|]. split; [exact N1|]. intro X. apply Hn in X. contradiction.
Qed.

Theorem parse_wblind_textP ac U cfg ci_key yaml_ok find_iq unit_class x Y ystr yeqb yaml s1 s2 D1 D2 :
  p_strict_escape cfg = false -> Analysis.text_raw ac = false ->
  crlf_blind yaml_ok -> crlf_blind yaml -> iq_ok x find_iq ->
  lex_local D1 -> lex_local D2 ->
  OR (fwrP s1 s2 D1 D2) (events U cfg s1) (events U cfg s2) ->
  same_parse_wN ac U cfg ci_key yaml_ok find_iq unit_class x Y ystr yeqb yaml s1 s2.
Proof.
  intros Hc Hr By Bm Hq L1 L2 H. unfold same_parse_wN, parse_model_cfg, parse_meta_model.
  destruct (events_ok U cfg s1 Hc) as (e1 & E1 & _). destruct (events_ok U cfg s2 Hc) as (e2 & E2 & _).
  rewrite E1, E2 in *. cbn [obind]. unfold OR in H. destruct H as [Hf Hk]. split.
  - assert (SKk : SK ac s1 s2 e1 e2).
    { unfold SK. clear -Hk Hr L1 L2. induction Hk as [|a b l1 l2 Hab _ IH]; constructor; [|exact IH].
      exact (crelP_src_okN ac s1 s2 D1 D2 a b Hr L1 L2 Hab). }
    pose proof (analyse_wblind_text ci_key yaml_ok find_iq unit_class x ac By Hq s1 s2 e1 e2 Hf SKk) as X. unfold orelwN.
    destruct (Analysis.analyse ci_key yaml_ok find_iq unit_class s1 x ac (abstract_events e1)) as [[r1 v1]|p1];
      destruct (Analysis.analyse ci_key yaml_ok find_iq unit_class s2 x ac (abstract_events e2)) as [[r2 v2]|p2]; exact X.
  - rewrite (metadata_wblind Y ystr yeqb yaml _ Bm e1 e2 Hf). reflexivity.
Qed.

Section PadDocP.
  Variable U : N -> ucls.
  Variable cfg : pcfg.
  Hypothesis special_breaks : forall c, special c = true -> is_word_char U c = false /\ is_lex_ws U c = false.
  Hypothesis eol_breaks : forall c, (c =? 10) || (c =? 13) = true -> is_word_char U c = false /\ is_lex_ws U c = false.
  Hypothesis blank_ws : is_lex_ws U 32 = true /\ is_word_char U 32 = false.

  Lemma blocks_fwrP s1 s2 ts1 ts2 f1 f2 old evs :
    segx s1 ts1 -> segx s2 ts2 -> pline ts1 ts2 -> Forall noncomp evs ->
    OR (fwrP s1 s2 ts1 ts2) (obind (blocks_loop cfg f1 ts1 old evs) (fun e => Done (rev e)))
                            (obind (blocks_loop cfg f2 ts2 old evs) (fun e => Done (rev e))).
  Proof.
    intros G1 G2 H Nc.
    assert (E0 : evwP s1 s2 ts1 ts2 evs evs).
    { split; [apply evw_refl|]. unfold CP. rewrite <- (app_nil_r evs), compsW_nc by exact Nc. constructor. }
    pose proof (blocks_loop_pg s1 s2 ts1 ts2 cfg G1 G2 f1 f2 ts1 ts2 old evs evs H (sr_refl _) (sr_refl _) E0) as R.
    unfold OR in *. destruct (blocks_loop cfg f1 ts1 old evs) as [e1|]; cbn [obind]; [|exact I].
    destruct (blocks_loop cfg f2 ts2 old evs) as [e2|]; cbn [obind]; [|exact I].
    apply evwP_fwrP. exact R.
  Qed.

  Theorem events_p_p s1 s2 ts1 ts2 :
    parse_frontmatter cfg s1 = None -> parse_frontmatter cfg s2 = None ->
    lex_at U s1 0 = Some ts1 -> lex_at U s2 0 = Some ts2 -> pline ts1 ts2 ->
    OR (fwrP s1 s2 ts1 ts2) (events U cfg s1) (events U cfg s2).
  Proof.
    intros F1 F2 L1 L2 H. unfold events. rewrite F1, F2, L1, L2.
    apply blocks_fwrP; [exact (lex_segx U _ _ L1) | exact (lex_segx U _ _ L2) | exact H | constructor].
  Qed.

  Theorem events_p_fm_p s1 s2 fm1 fm2 ts1 ts2 :
    parse_frontmatter cfg s1 = Some fm1 -> parse_frontmatter cfg s2 = Some fm2 ->
    yaml_text fm1 = yaml_text fm2 -> yaml_off fm1 = yaml_off fm2 ->
    lex_at U (cook_text fm1) (cook_off fm1) = Some ts1 -> lex_at U (cook_text fm2) (cook_off fm2) = Some ts2 ->
    pline ts1 ts2 ->
    OR (fwrP s1 s2 ts1 ts2) (events U cfg s1) (events U cfg s2).
  Proof.
    intros F1 F2 Hy Hyo L1 L2 H. unfold events. rewrite F1, F2, L1, L2, <- Hy, <- Hyo.
    destruct (parse_frontmatter_located cfg s1 fm1 F1) as [(pre1 & Es1 & Hp1) _].
    destruct (parse_frontmatter_located cfg s2 fm2 F2) as [(pre2 & Es2 & Hp2) _].
    apply blocks_fwrP; [| | exact H | constructor; [reflexivity | constructor]].
    - exists (cook_off fm1), (cook_off fm1 + blen (cook_text fm1)). rewrite Es1 at 1. exact (lex_at_seg U _ _ _ pre1 L1 Hp1).
    - exists (cook_off fm2), (cook_off fm2 + blen (cook_text fm2)). rewrite Es2 at 1. exact (lex_at_seg U _ _ _ pre2 L2 Hp2).
  Qed.

  Theorem pad_text_mode ac ci_key yaml_ok find_iq unit_class x Y ystr yeqb yaml a b c x1 x2 p wd ws tb' d y :
    p_strict_escape cfg = false -> Analysis.text_raw ac = false ->
    no_close c = true -> sp32 x1 -> sp32 x2 ->
    parse_frontmatter cfg (a ++ b) = None -> parse_frontmatter cfg (a ++ (x1 ++ block_comment_text c ++ x2) ++ b) = None ->
    lex_at U a 0 = Some (p ++ [wd; ws]) -> b = d :: y -> is_lex_ws U d = false -> lex_at U b (blen a) = Some tb' ->
    swt (kind wd) = true -> kind ws = KWs -> mode_after MOut p = MOut -> lmode_after LStart p <> LVal ->
    (x1 ++ x2 = [] \/ exists u, tstr ws = u ++ [32]) ->
    crlf_blind yaml_ok -> crlf_blind yaml -> iq_ok x find_iq ->
    same_parse_wN ac U cfg ci_key yaml_ok find_iq unit_class x Y ystr yeqb yaml
      (a ++ b) (a ++ (x1 ++ block_comment_text c ++ x2) ++ b).
  Proof.
    intros Hs Hr Hc H1 H2 F1 F2 La Eb Hd Lb Kw Ks Hm Hl Hsp By Bm Hq.
    destruct (pad_tokens U special_breaks eol_breaks blank_ws a b c x1 x2 0 p wd ws tb' d y Hc H1 H2 La Eb Hd Lb Kw Ks Hm Hl Hsp)
      as (ts2 & Lab & L2 & Hts).
    apply (parse_wblind_textP ac U cfg ci_key yaml_ok find_iq unit_class x Y ystr yeqb yaml _ _ ((p ++ [wd; ws]) ++ tb') ts2); try assumption;
      [exact (lex_local_lexed U _ _ _ special_breaks Lab) | exact (lex_local_lexed U _ _ _ special_breaks L2)|].
    exact (events_p_p _ _ _ _ F1 F2 Lab L2 Hts).
  Qed.

  Theorem pad_text_mode_fm ac ci_key yaml_ok find_iq unit_class x Y ystr yeqb yaml s fm a b c x1 x2 p wd ws tb' d y :
    p_strict_escape cfg = false -> Analysis.text_raw ac = false ->
    no_close c = true -> sp32 x1 -> sp32 x2 ->
    parse_frontmatter cfg s = Some fm -> cook_text fm = a ++ b ->
    lex_at U a (cook_off fm) = Some (p ++ [wd; ws]) -> b = d :: y -> is_lex_ws U d = false ->
    lex_at U b (cook_off fm + blen a) = Some tb' ->
    swt (kind wd) = true -> kind ws = KWs -> mode_after MOut p = MOut -> lmode_after LStart p <> LVal ->
    (x1 ++ x2 = [] \/ exists u, tstr ws = u ++ [32]) ->
    crlf_blind yaml_ok -> crlf_blind yaml -> iq_ok x find_iq ->
    same_parse_wN ac U cfg ci_key yaml_ok find_iq unit_class x Y ystr yeqb yaml
      s (take_bytes s (cook_off fm) ++ a ++ (x1 ++ block_comment_text c ++ x2) ++ b).
  Proof.
    intros Hs Hr Hc H1 H2 F C La Eb Hd Lb Kw Ks Hm Hl Hsp By Bm Hq.
    assert (Hct : cook_text fm <> []) by (rewrite C, Eb; destruct a; discriminate).
    destruct (parse_frontmatter_insert_some_nonempty cfg s fm a (x1 ++ block_comment_text c ++ x2) b F C Hct) as (fm' & F' & Hy & Hyo & Hct' & Hco).
    destruct (pad_tokens U special_breaks eol_breaks blank_ws a b c x1 x2 (cook_off fm) p wd ws tb' d y Hc H1 H2 La Eb Hd Lb Kw Ks Hm Hl Hsp)
      as (ts2 & Lab & L2 & Hts).
    apply (parse_wblind_textP ac U cfg ci_key yaml_ok find_iq unit_class x Y ystr yeqb yaml _ _ ((p ++ [wd; ws]) ++ tb') ts2); try assumption;
      [exact (lex_local_lexed U _ _ _ special_breaks Lab) | exact (lex_local_lexed U _ _ _ special_breaks L2)|].
    apply (events_p_fm_p s _ fm fm' ((p ++ [wd; ws]) ++ tb') ts2 F F'); try (symmetry; assumption).
    - rewrite C. exact Lab.
    - rewrite Hct', Hco. exact L2.
    - exact Hts.
  Qed.
End PadDocP.
