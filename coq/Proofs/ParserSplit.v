(* Block splitting of the pull-parser model (Model/Parser.v, "block splitting"):
   pull_line / more_lines / next_block / skip_to_meta / meta_take_line cut a located token
   chain ([seg], Proofs/ParserSeg.v) into located chains, the remainder is a strictly shorter
   suffix that still ends where the input ended, and the fuel the model passes to
   more_lines / next_block (S (length ts)) is never exhausted (fuel stability). *)
From CL Require Import Base.StrLemmas Model.Lexer Model.Parser Proofs.LexerProofs Proofs.ParserSeg.

Ltac walk H :=
  repeat match type of H with
         | (if ?b then _ else _) = _ => destruct b eqn:?
         | (let '(a, b) := ?e in _) = _ => destruct e as [? ?] eqn:?
         end.

Section Split.
  Variable src : str.

  (* ------------------------------------------------------------------ general seg facts *)

  (* a contiguous infix of a located chain is a located chain *)
  Lemma seg_infix off p x q en : seg src off (p ++ x ++ q) en -> exists a b, seg src a x b.
  Proof.
    intro H. apply seg_app in H as (a & _ & H). apply seg_app in H as (b & H & _).
    exists a, b. exact H.
  Qed.

  (* a suffix of a located chain is a located chain with the same end *)
  Lemma seg_suffix off p q en : seg src off (p ++ q) en -> exists c, seg src c q en.
  Proof. intro H. apply seg_app in H as (c & _ & H). exists c. exact H. Qed.

  Lemma seg_prefix off p q en : seg src off (p ++ q) en -> exists b, seg src off p b.
  Proof. intro H. apply seg_app in H as (b & H & _). exists b. exact H. Qed.

  (* ------------------------------------------------------------------ pull_line *)

  Lemma pull_line_app ts l r : pull_line ts = (l, r) -> ts = l ++ r.
  Proof.
    revert l r. induction ts as [|t ts IH]; intros l r H; cbn [pull_line] in H.
    - injection H as <- <-. reflexivity.
    - walk H; injection H as <- <-; cbn [app]; [reflexivity|].
      f_equal. apply IH. reflexivity.
  Qed.

  Lemma pull_line_nonempty ts l r : pull_line ts = (l, r) -> ts <> [] -> l <> [].
  Proof.
    destruct ts as [|t ts]; [congruence|]. intros H _. cbn [pull_line] in H.
    walk H; injection H as <- <-; discriminate.
  Qed.

  Lemma pull_line_length ts l r : pull_line ts = (l, r) -> ts <> [] -> (length r < length ts)%nat.
  Proof.
    intros H Hn. pose proof (pull_line_nonempty _ _ _ H Hn) as Hl.
    apply pull_line_app in H. subst ts. rewrite app_length.
    destruct l as [|t l]; [congruence|]. cbn [length]. lia.
  Qed.

  (* ------------------------------------------------------------------ more_lines *)

  Lemma more_lines_app fuel ts m r :
    more_lines fuel ts = (m, r) -> exists dropped, ts = m ++ dropped ++ r.
  Proof.
    revert ts m r. induction fuel as [|f IH]; intros ts m r H; cbn [more_lines] in H.
    - injection H as <- <-. exists []. reflexivity.
    - destruct (is_single_line_marker ts) eqn:Es.
      { injection H as <- <-. exists []. reflexivity. }
      destruct ts as [|t ts].
      { injection H as <- <-. exists []. reflexivity. }
      destruct (pull_line (t :: ts)) as [l r0] eqn:El. apply pull_line_app in El. rewrite El.
      destruct (line_is_empty l).
      + injection H as <- <-. exists l. reflexivity.
      + destruct (more_lines f r0) as [m' r'] eqn:Em. injection H as <- <-.
        apply IH in Em as (d & ->). exists d. rewrite <- app_assoc. reflexivity.
  Qed.

  Lemma more_lines_length fuel ts m r : more_lines fuel ts = (m, r) -> (length r <= length ts)%nat.
  Proof.
    intro H. apply more_lines_app in H as (d & ->). rewrite !app_length. lia.
  Qed.

  Lemma more_lines_fuel2 f1 : forall f2 ts,
    (length ts < f1)%nat -> (length ts < f2)%nat -> more_lines f1 ts = more_lines f2 ts.
  Proof.
    induction f1 as [|f1 IH]; intros f2 ts H1 H2; [lia|].
    destruct f2 as [|f2]; [lia|]. cbn [more_lines].
    destruct (is_single_line_marker ts); [reflexivity|].
    destruct ts as [|t ts]; [reflexivity|].
    destruct (pull_line (t :: ts)) as [l r] eqn:E.
    destruct (line_is_empty l); [reflexivity|].
    apply pull_line_length in E; [|discriminate].
    rewrite (IH f2 r) by lia. reflexivity.
  Qed.

  Lemma more_lines_fuel fuel ts :
    (length ts < fuel)%nat -> more_lines fuel ts = more_lines (S (length ts)) ts.
  Proof. intro H. apply more_lines_fuel2; lia. Qed.

  (* ------------------------------------------------------------------ strip_trailing_newlines *)

  Lemma strip_trailing_newlines_suffix rl : exists nl, rl = nl ++ strip_trailing_newlines rl.
  Proof.
    induction rl as [|t rl (nl & IH)]; cbn [strip_trailing_newlines].
    - exists []. reflexivity.
    - destruct (tk_eqb (kind t) KNewline).
      + exists (t :: nl). cbn [app]. f_equal. exact IH.
      + exists []. reflexivity.
  Qed.

  (* the trimmed block is a prefix of the untrimmed one *)
  Lemma strip_rev_prefix x : exists nl, x = rev (strip_trailing_newlines (rev x)) ++ nl.
  Proof.
    destruct (strip_trailing_newlines_suffix (rev x)) as (nl & E).
    exists (rev nl). rewrite <- rev_app_distr, <- E, rev_involutive. reflexivity.
  Qed.

  (* ------------------------------------------------------------------ next_block *)

  Lemma next_block_seg fuel ts blk r off en :
    seg src off ts en -> next_block fuel ts = Some (blk, r) ->
    blk <> [] /\ (length r < length ts)%nat /\ (exists a b, seg src a blk b) /\ (exists c, seg src c r en).
  Proof.
    revert ts off. induction fuel as [|f IH]; intros ts off Hs H; cbn [next_block] in H; [discriminate|].
    destruct ts as [|t ts]; [discriminate|].
    destruct (pull_line (t :: ts)) as [l r0] eqn:El.
    pose proof (pull_line_length _ _ _ El ltac:(discriminate)) as Hlen.
    pose proof (pull_line_nonempty _ _ _ El ltac:(discriminate)) as Hl.
    pose proof (pull_line_app _ _ _ El) as Ea.
    destruct (line_is_empty l).
    - rewrite Ea in Hs. destruct (seg_suffix _ _ _ _ Hs) as (c & Hc).
      destruct (IH _ _ Hc H) as (A & B & C & D).
      split; [exact A|]. split; [lia|]. split; [exact C | exact D].
    - cbv zeta in H.
      assert (exists m d, (if is_single_line_marker l then ([], r0) else more_lines (S (length r0)) r0) = (m, r) /\
                          r0 = m ++ d ++ r /\
                          match rev (strip_trailing_newlines (rev (l ++ m))) with [] => None | _ => Some (rev (strip_trailing_newlines (rev (l ++ m))), r) end = Some (blk, r)) as (m & d & _ & Er & Hb).
      { destruct (if is_single_line_marker l then ([], r0) else more_lines (S (length r0)) r0) as [m r'] eqn:Em.
        assert (r' = r) as ->.
        { destruct (rev (strip_trailing_newlines (rev (l ++ m)))); [discriminate|]. injection H as _ <-. reflexivity. }
        destruct (is_single_line_marker l).
        - injection Em as <- <-. exists [], []. split; [reflexivity|]. split; [reflexivity | exact H].
        - destruct (more_lines_app _ _ _ _ Em) as (d & E). exists m, d. split; [reflexivity|]. split; [exact E | exact H]. }
      destruct (strip_rev_prefix (l ++ m)) as (nl & En).
      assert (rev (strip_trailing_newlines (rev (l ++ m))) = blk) as Eb.
      { destruct (rev (strip_trailing_newlines (rev (l ++ m)))); [discriminate|]. injection Hb as <-. reflexivity. }
      rewrite Eb in *.
      split; [destruct blk; [discriminate Hb | discriminate]|].
      split.
      { rewrite Ea, Er. rewrite !app_length. destruct l; [congruence|]. cbn [length]. lia. }
      assert (t :: ts = [] ++ blk ++ ((nl ++ d) ++ r)) as Et.
      { cbn [app]. rewrite Ea, Er. rewrite <- app_assoc. rewrite (app_assoc l m), En, <- !app_assoc. reflexivity. }
      rewrite Et in Hs. split.
      + eapply seg_infix. exact Hs.
      + cbn [app] in Hs. rewrite app_assoc in Hs. eapply seg_suffix. exact Hs.
  Qed.

  Lemma next_block_fuel2 f1 : forall f2 ts,
    (length ts < f1)%nat -> (length ts < f2)%nat -> next_block f1 ts = next_block f2 ts.
  Proof.
    induction f1 as [|f1 IH]; intros f2 ts H1 H2; [lia|].
    destruct f2 as [|f2]; [lia|]. cbn [next_block].
    destruct ts as [|t ts]; [reflexivity|].
    destruct (pull_line (t :: ts)) as [l r] eqn:E.
    destruct (line_is_empty l); [|reflexivity].
    apply pull_line_length in E; [|discriminate].
    apply IH; lia.
  Qed.

  Lemma next_block_fuel fuel ts :
    (length ts < fuel)%nat -> next_block fuel ts = next_block (S (length ts)) ts.
  Proof. intro H. apply next_block_fuel2; lia. Qed.

  (* ------------------------------------------------------------------ metadata-only iteration *)

  Lemma skip_to_meta_suffix ts b : exists p, ts = p ++ skip_to_meta ts b.
  Proof.
    revert b. induction ts as [|t ts IH]; intro b; cbn [skip_to_meta].
    - exists []. reflexivity.
    - destruct (b && tk_eqb (kind t) KMeta).
      + exists []. reflexivity.
      + destruct (IH (tk_eqb (kind t) KNewline)) as (p & E). exists (t :: p). cbn [app]. f_equal. exact E.
  Qed.

  Lemma skip_to_meta_seg ts b off en : seg src off ts en -> exists c, seg src c (skip_to_meta ts b) en.
  Proof.
    intro H. destruct (skip_to_meta_suffix ts b) as (p & E). rewrite E in H.
    eapply seg_suffix. exact H.
  Qed.

  Lemma skip_to_meta_length ts b : (length (skip_to_meta ts b) <= length ts)%nat.
  Proof.
    destruct (skip_to_meta_suffix ts b) as (p & E). rewrite E at 2. rewrite app_length. lia.
  Qed.

  Lemma skip_to_meta_head ts b t r : skip_to_meta ts b = t :: r -> kind t = KMeta.
  Proof.
    revert b. induction ts as [|u ts IH]; intros b H; cbn [skip_to_meta] in H; [discriminate|].
    destruct (b && tk_eqb (kind u) KMeta) eqn:E.
    - injection H as -> _. apply andb_prop in E as [_ E]. apply tk_eqb_true. exact E.
    - eapply IH. exact H.
  Qed.

  (* the line without its newline, the newline (if any), the remainder *)
  Lemma meta_take_line_app ts blk r : meta_take_line ts = (blk, r) -> exists nl, ts = blk ++ nl ++ r /\ (ts <> [] -> blk ++ nl <> []).
  Proof.
    revert blk r. induction ts as [|t ts IH]; intros blk r H; cbn [meta_take_line] in H.
    - injection H as <- <-. exists []. split; [reflexivity|congruence].
    - walk H; injection H as <- <-.
      + exists [t]. split; [reflexivity|]. intros _. discriminate.
      + destruct (IH _ _ eq_refl) as (nl & E & _). exists nl. split; [cbn [app]; f_equal; exact E|].
        intros _. discriminate.
  Qed.

  Lemma meta_take_line_seg ts blk r c en :
    seg src c ts en -> meta_take_line ts = (blk, r) ->
    (exists b, seg src c blk b) /\ (exists d, seg src d r en) /\ (length r <= length ts)%nat /\
    (ts <> [] -> (length r < length ts)%nat).
  Proof.
    intros Hs H. destruct (meta_take_line_app _ _ _ H) as (nl & E & Hn).
    split; [|split; [|split]].
    - rewrite E in Hs. eapply seg_prefix. exact Hs.
    - rewrite E, app_assoc in Hs. eapply seg_suffix. exact Hs.
    - rewrite E, !app_length. lia.
    - intro Ht. specialize (Hn Ht). rewrite E, app_assoc, app_length.
      destruct (blk ++ nl); [congruence|]. cbn [length]. lia.
  Qed.

  Lemma meta_take_line_head t ts blk r :
    kind t <> KNewline -> meta_take_line (t :: ts) = (blk, r) -> exists blk', blk = t :: blk'.
  Proof.
    intros Hk H. cbn [meta_take_line] in H.
    destruct (tk_eqb (kind t) KNewline) eqn:E; [apply tk_eqb_true in E; congruence|].
    destruct (meta_take_line ts) as [a b]. injection H as <- <-. exists a. reflexivity.
  Qed.
End Split.
