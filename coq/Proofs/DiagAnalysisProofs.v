(* C07 over the analysis model (Model/Analysis.v keeps one bit of the report: "an error was
   reported", and whether a parser error stopped the pass). *)
From Coq Require Import ZArith.
From CL Require Import Model.Analysis.
Open Scope N_scope.

Ltac dm H :=
  repeat match type of H with
    | obind ?o _ = Done _ => let E := fresh "E" in destruct o eqn:E; cbn [obind] in H; [|discriminate]
    | (if ?b then _ else _) = Done _ => destruct b
    | match ?x with _ => _ end = Done _ => destruct x eqn:?
    | (let (a, b) := ?x in _) = Done _ => destruct x
    | Panic _ = Done _ => discriminate
    end.

Section AN.
Variable ci_key : str -> str.
Variable yaml_ok : str -> bool.
Variable find_iq : str -> option (str * str).
Variable unit_class : str -> N.
Variable input : str.
Variable x : aext.
Variable cfg : acfg.

Notation ingredient := (ingredient ci_key x).
Notation cookware := (cookware ci_key).
Notation timer := (timer unit_class x).
Notation step := (step ci_key yaml_ok find_iq unit_class input x cfg).
Notation run := (run ci_key yaml_ok find_iq unit_class input x cfg).
Notation analyse := (analyse ci_key yaml_ok find_iq unit_class input x cfg).

(* ---- validity ---- *)
Lemma validity_def s : is_valid s = is_some (output s) && negb (a_errors s).
Proof. unfold is_valid, output. destruct (a_halted s); reflexivity. Qed.

(* ---- only a parser Error event stops the pass, and it does for good ---- *)
Lemma ingredient_halted s ig s1 i : ingredient s ig = Done (s1, i) -> a_halted s1 = a_halted s.
Proof. unfold ingredient. intro H. dm H; injection H as <- _; reflexivity. Qed.

Lemma cookware_halted s cw s1 i : cookware s cw = Done (s1, i) -> a_halted s1 = a_halted s.
Proof. unfold cookware. intro H. dm H; injection H as <- _; reflexivity. Qed.

Lemma timer_halted s t : a_halted (fst (timer s t)) = a_halted s.
Proof. reflexivity. Qed.

Lemma metadata_halted s k v : a_halted (metadata x s k v) = a_halted s.
Proof. unfold metadata. repeat match goal with |- context [if ?b then _ else _] => destruct b end; reflexivity. Qed.

Lemma step_halted s e s' :
  (forall d, e <> EError d) -> step s e = Done s' -> a_halted s' = a_halted s.
Proof.
  intros Hne H. unfold step in H. destruct (a_halted s) eqn:Hh; [injection H as <-; exact Hh|].
  destruct e.
  - injection H as <-. exact Hh.
  - injection H as <-. rewrite metadata_halted. exact Hh.
  - injection H as <-. exact Hh.
  - injection H as <-. exact Hh.
  - unfold end_block, finish_block in H. dm H; injection H as <-; exact Hh.
  - destruct (a_block s) as [[items|tx]|]; [| |discriminate].
    + unfold in_step in H. dm H; injection H as <-; exact Hh.
    + unfold in_text in H. dm H; injection H as <-; exact Hh.
  - destruct (a_block s) as [[items|tx]|]; [| |discriminate].
    + unfold in_step in H. destruct (ingredient s i) as [[s1 k]|] eqn:E; [|discriminate]. cbn in H.
      injection H as <-. cbn. rewrite (ingredient_halted _ _ _ _ E). exact Hh.
    + unfold in_text in H. dm H; injection H as <-; exact Hh.
  - destruct (a_block s) as [[items|tx]|]; [| |discriminate].
    + unfold in_step in H. destruct (cookware s c) as [[s1 k]|] eqn:E; [|discriminate]. cbn in H.
      injection H as <-. cbn. rewrite (cookware_halted _ _ _ _ E). exact Hh.
    + unfold in_text in H. dm H; injection H as <-; exact Hh.
  - destruct (a_block s) as [[items|tx]|]; [| |discriminate].
    + unfold in_step in H. injection H as <-. exact Hh.
    + unfold in_text in H. dm H; injection H as <-; exact Hh.
  - exfalso. eapply Hne. reflexivity.
  - injection H as <-. exact Hh.
Qed.

Lemma run_halted_stays evs : forall s s', a_halted s = true -> run s evs = Done s' -> s' = s.
Proof.
  induction evs as [|e r IH]; intros s s' Hh H; cbn in H; [injection H as <-; reflexivity|].
  unfold Analysis.step in H. rewrite Hh in H. cbn in H. eapply IH; eauto.
Qed.

Lemma run_error_halts evs : forall s s' d, In (EError d) evs -> run s evs = Done s' -> a_halted s' = true.
Proof.
  induction evs as [|e r IH]; intros s s' d Hin H; [destruct Hin|]. cbn in H.
  destruct (a_halted s) eqn:Hh.
  - unfold Analysis.step in H. rewrite Hh in H. cbn in H. rewrite (run_halted_stays r s s' Hh H). exact Hh.
  - destruct Hin as [->|Hin].
    + unfold Analysis.step in H. rewrite Hh in H. cbn in H. rewrite (run_halted_stays r (set_halted s) s' eq_refl H). reflexivity.
    + destruct (step s e) as [s1|] eqn:E; [|discriminate]. cbn in H. eapply IH; eauto.
Qed.

Lemma run_no_error_not_halted evs : forall s s',
  (forall d, ~ In (EError d) evs) -> a_halted s = false -> run s evs = Done s' -> a_halted s' = false.
Proof.
  induction evs as [|e r IH]; intros s s' Hn Hh H; cbn in H; [injection H as <-; exact Hh|].
  destruct (step s e) as [s1|] eqn:E; [|discriminate]. cbn in H.
  eapply IH; [| |exact H].
  - intros d Hd. apply (Hn d). right. exact Hd.
  - rewrite (step_halted s e s1); [exact Hh| |exact E]. intros d ->. apply (Hn d). left. reflexivity.
Qed.

(* a parser Error event anywhere: no output, not valid *)
Theorem parse_error_no_output evs d o v :
  In (EError d) evs -> analyse evs = Done (o, v) -> o = None /\ v = false.
Proof.
  intros Hin H. unfold Analysis.analyse in H. destruct (run init evs) as [s|] eqn:E; [|discriminate].
  cbn in H. injection H as <- <-. pose proof (run_error_halts evs init s d Hin E) as Hh.
  unfold output, is_valid. rewrite Hh. split; reflexivity.
Qed.

(* no parser Error event: the output is kept whatever the analysis reports, and the result is
   valid exactly when the analysis reported no error *)
Theorem no_parse_error_keeps_output evs o v :
  (forall d, ~ In (EError d) evs) -> analyse evs = Done (o, v) ->
  exists s r, run init evs = Done s /\ o = Some r /\ v = negb (a_errors s).
Proof.
  intros Hn H. unfold Analysis.analyse in H. destruct (run init evs) as [s|] eqn:E; [|discriminate].
  cbn in H. injection H as <- <-. pose proof (run_no_error_not_halted evs init s Hn eq_refl E) as Hh.
  unfold output, is_valid. rewrite Hh. eexists s, _. split; [reflexivity|]. split; reflexivity.
Qed.

(* ---- completeness of the analysis checks, as far as the model exposes them: the error bit ---- *)
Definition ing_name (ig : p_ingredient) : str :=
  let name0 := text_trimmed (pi_name ig) in
  if is_path_name name0 then last_segment name0 [] else name0.

(* dangling reference: `&` without an earlier definition of that name *)
Theorem dangling_reference_is_error s ig s1 i :
  pi_inter ig = None -> m_ref (pi_mods ig) = true -> m_new (pi_mods ig) = false ->
  same_name ci_key (a_ingredients s) (ing_name ig) = None ->
  ingredient s ig = Done (s1, i) -> a_errors s1 = true.
Proof.
  intros Hi Hr Hn Hs H. unfold Analysis.ingredient in H. rewrite Hi in H.
  unfold resolve_reference in H. cbn [c_mods c_name] in H. rewrite Hr, Hn in H. cbn [andb orb negb] in H.
  fold (ing_name ig) in H. rewrite Hs in H. cbn in H. injection H as <- _. cbn. apply orb_true_r.
Qed.

Theorem dangling_cookware_reference_is_error s cw s1 i :
  m_ref (pc_mods cw) = true -> m_new (pc_mods cw) = false ->
  same_name ci_key (a_cookware s) (text_trimmed (pc_name cw)) = None ->
  cookware s cw = Done (s1, i) -> a_errors s1 = true.
Proof.
  intros Hr Hn Hs H. unfold Analysis.cookware in H.
  unfold resolve_reference in H. cbn [c_mods c_name] in H. rewrite Hr, Hn in H. cbn [andb orb negb] in H.
  rewrite Hs in H. cbn in H. injection H as <- _. cbn. apply orb_true_r.
Qed.

(* a note on a component that resolves to a reference *)
Theorem note_on_reference_is_error tbl new j has_units tbl' e :
  link_reference tbl new j true has_units = Done (tbl', e) -> e = true.
Proof. unfold link_reference. intro H. dm H; injection H as _ <-; reflexivity. Qed.

Theorem note_on_ingredient_reference_is_error s ig s1 i r j imp :
  pi_inter ig = None -> is_some (pi_note ig) = true ->
  resolve_reference ci_key s (a_ingredients s) inherit_ingredient
    {| c_name := ing_name ig; c_alias := option_map text_trimmed (pi_alias ig);
       c_qty := option_map (quantity_info true) (pi_quantity ig);
       c_note := option_map text_trimmed (pi_note ig); c_rref := is_path_name (text_trimmed (pi_name ig));
       c_mods := pi_mods ig; c_rel := RDef [] (negb (dm_eqb (a_define s) DMComponents)) |} = Done r ->
  rs_target r = Some (j, imp) ->
  ingredient s ig = Done (s1, i) -> a_errors s1 = true.
Proof.
  intros Hi Hn Hr Ht H. unfold Analysis.ingredient in H. rewrite Hi in H. fold (ing_name ig) in H.
  rewrite Hr in H. cbn [obind] in H. rewrite Ht, Hn in H.
  destruct (link_reference _ _ _ _ _) as [[tbl' e]|] eqn:El; [|discriminate]. cbn in H.
  injection H as <- _. rewrite (note_on_reference_is_error _ _ _ _ _ _ El). cbn. rewrite orb_true_r. apply orb_true_r.
Qed.

(* intermediate references: 0 and out of range *)
Lemma inter_zero s d : ir_val d = 0%Z -> resolve_intermediate_ref s d = Done None.
Proof. intro H. unfold resolve_intermediate_ref. rewrite H. reflexivity. Qed.

Lemma inter_step_out_of_range s d :
  ir_kind d = TKStep -> (0 <= ir_val d)%Z ->
  (length (step_indices (sec_content (a_cur s))) < Z.to_nat (ir_val d))%nat ->
  resolve_intermediate_ref s d = Done None.
Proof.
  intros Hk H0 Hl. unfold resolve_intermediate_ref. destruct (ir_val d <? 0)%Z eqn:E; [apply Z.ltb_lt in E; lia|].
  destruct (Z.to_nat (ir_val d)) as [|v1] eqn:Ev; [reflexivity|]. rewrite Hk.
  destruct (ir_mode d).
  - destruct (nth_error _ v1) eqn:En; [|reflexivity]. apply nth_error_Some_lt in En || idtac.
    assert (v1 < length (step_indices (sec_content (a_cur s))))%nat by (apply nth_error_Some; congruence). lia.
  - destruct (nth_error _ v1) eqn:En; [|reflexivity].
    assert (v1 < length (rev (step_indices (sec_content (a_cur s)))))%nat by (apply nth_error_Some; congruence).
    rewrite rev_length in *. lia.
Qed.

Lemma inter_section_out_of_range s d :
  ir_kind d = TKSection -> (0 <= ir_val d)%Z ->
  (length (a_sections s) < Z.to_nat (ir_val d))%nat ->
  resolve_intermediate_ref s d = Done None.
Proof.
  intros Hk H0 Hl. unfold resolve_intermediate_ref. destruct (ir_val d <? 0)%Z eqn:E; [apply Z.ltb_lt in E; lia|].
  destruct (Z.to_nat (ir_val d)) as [|v1] eqn:Ev; [reflexivity|]. rewrite Hk.
  destruct (ir_mode d).
  - destruct (length (a_sections s) <=? v1)%nat eqn:El; [reflexivity|]. apply Nat.leb_gt in El. lia.
  - destruct (length (a_sections s) <? S v1)%nat eqn:El; [reflexivity|]. apply Nat.ltb_ge in El. lia.
Qed.

Theorem bad_intermediate_reference_is_error s ig d s1 i :
  pi_inter ig = Some d -> resolve_intermediate_ref s d = Done None ->
  ingredient s ig = Done (s1, i) -> a_errors s1 = true.
Proof.
  intros Hi Hr H. unfold Analysis.ingredient in H. rewrite Hi in H. cbn [c_mods] in H.
  destruct (negb (m_ref (pi_mods ig))); [discriminate|]. rewrite Hr in H. cbn in H.
  injection H as <- _. cbn. rewrite orb_true_r. apply orb_true_r.
Qed.

(* ADVANCED_UNITS: a timer whose unit is not a time unit (unknown: class 0, other: class 2) *)
Theorem timer_unit_not_time_is_error s t q u :
  x_advanced x = true -> pt_quantity t = Some q -> pq_unit q = Some u ->
  unit_class (text_trimmed u) <> 1 ->
  a_errors (fst (timer s t)) = true.
Proof.
  intros Ha Hq Hu Hc. unfold Analysis.timer. rewrite Hq. cbn. rewrite Ha, Hu. cbn.
  destruct (unit_class (text_trimmed u) =? 1) eqn:E; [apply N.eqb_eq in E; contradiction|].
  cbn. rewrite orb_true_r. apply orb_true_r.
Qed.

(* malformed front matter *)
Theorem bad_front_matter_is_error s t s' :
  a_halted s = false -> yaml_ok (text_str t) = false -> step s (EYaml t) = Done s' -> a_errors s' = true.
Proof.
  intros Hh Hy H. unfold Analysis.step in H. rewrite Hh in H. injection H as <-. cbn. rewrite Hy. apply orb_true_r.
Qed.

(* bad mode value *)
Theorem bad_mode_value_is_error s k v :
  x_modes x = true -> text_trimmed k = 91 :: s_mode ++ [93] ->
  let vt := text_outer_trimmed v in
  str_eqb vt s_all = false -> str_eqb vt s_default = false -> str_eqb vt s_components = false ->
  str_eqb vt s_ingredients = false -> str_eqb vt s_steps = false -> str_eqb vt s_text = false ->
  a_errors (metadata x s k v) = true.
Proof.
  intros Hm Hk vt H1 H2 H3 H4 H5 H6. unfold metadata. rewrite Hm, Hk. fold vt.
  cbn. rewrite H1, H2, H3, H4, H5, H6. cbn. apply orb_true_r.
Qed.
End AN.

(* the hypotheses are satisfiable: `@&salt` as the first component of a recipe is a dangling
   reference, `@&(0)x{}` an intermediate reference to step 0 *)
Definition ex_text (s : str) : text := text_from_str s 1.
Definition ex_ref_mods : modifiers :=
  {| m_recipe := false; m_ref := true; m_hidden := false; m_opt := false; m_new := false |}.
Definition ex_dangling : p_ingredient :=
  {| pi_span := (0, 6); pi_mods := ex_ref_mods; pi_inter := None; pi_name := ex_text [115; 97; 108; 116];
     pi_alias := None; pi_quantity := None; pi_note := None |}.
Definition ex_x : aext := {| x_modes := true; x_inline := true; x_advanced := true |}.

Example ex_dangling_is_error :
  match Analysis.ingredient (fun s => s) ex_x init ex_dangling with
  | Done (s1, _) => a_errors s1
  | Panic _ => false
  end = true.
Proof. vm_compute. reflexivity. Qed.

Example ex_dangling_hyps :
  pi_inter ex_dangling = None /\ m_ref (pi_mods ex_dangling) = true /\ m_new (pi_mods ex_dangling) = false /\
  same_name (fun s => s) (a_ingredients init) (ing_name ex_dangling) = None.
Proof. repeat split. Qed.

Definition ex_inter0 : p_ingredient :=
  {| pi_span := (0, 8); pi_mods := ex_ref_mods;
     pi_inter := Some {| ir_mode := RMNumber; ir_kind := TKStep; ir_val := 0%Z |};
     pi_name := ex_text [120]; pi_alias := None; pi_quantity := None; pi_note := None |}.

Example ex_inter0_is_error :
  match Analysis.ingredient (fun s => s) ex_x init ex_inter0 with
  | Done (s1, _) => a_errors s1
  | Panic _ => false
  end = true.
Proof. vm_compute. reflexivity. Qed.
