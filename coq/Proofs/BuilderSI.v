(* Proofs about Model/Builder.v for C16, second part: the SI forms of a unit through the expansion
   loop of finish and through the extend blocks (each form is the prefixed form of its base as the
   base is now, no form has two bases), the effect of all the entries of a block on every unit. *)
From Coq Require Import Lia Permutation.
From CL Require Import Base.StrLemmas Model.Builder Model.BuilderSpec Proofs.BuilderProofs.
Local Open Scope N_scope.

(* --- SI forms: each expansion is the prefixed form of its base, no expansion has two bases --- *)

Record SIV (si : si_cfg) (units : list ubuilder) : Prop := {
  siv_form : forall i u f p, nth_error units i = Some u -> ub_expanded u = Some f ->
     exists e pt st, nth_error units (f p) = Some e /\
       si_prefixes si = Some pt /\ si_symbol_prefixes si = Some st /\
       is_form pt st p (ub_unit u) (ub_unit e) /\ ub_is_expanded e = true;
  siv_disj : forall i i' u u' f f' p p', nth_error units i = Some u -> ub_expanded u = Some f ->
     nth_error units i' = Some u' -> ub_expanded u' = Some f' -> f p = f' p' -> i = i';
}.

Lemma expand_loop_spec2 si n0 : forall n id units ix,
  WF units ix -> (id + n <= length units)%nat ->
  (forall i u, nth_error units i = Some u -> ub_expand_si u = true -> ub_expanded u = None ->
               (id <= i < id + n)%nat) ->
  (id + n = n0)%nat -> (n0 <= length units)%nat -> SIV si units ->
  (forall i u f p, nth_error units i = Some u -> ub_expanded u = Some f -> (n0 <= f p)%nat) ->
  spec (expand_loop n id si units ix)
       (fun r => (WF (fst r) (snd r) /\ AllExpanded (fst r)) /\ SIV si (fst r)).
Proof.
  induction n as [|n IH]; intros id units ix W Hlen Hpend Hn0 Hn0l HS Hfo; cbn [expand_loop].
  - cbn. split; [split; [exact W|]|exact HS]. intros i u Hi He Hn. specialize (Hpend i u Hi He Hn). lia.
  - unfold get_ub. destruct (nth_error units id) as [u|] eqn:Eu.
    2:{ apply nth_error_None in Eu. lia. }
    cbn [bind ret]. destruct (ub_expand_si u) eqn:Ex.
    + unfold expand_si. rewrite Ex. cbn [negb].
      destruct (si_prefixes si) as [pt|] eqn:Ept; [|cbn; exact I].
      destruct (si_symbol_prefixes si) as [st|] eqn:Est; [|cbn; exact I].
      cbn [bind ret].
      pose proof (add_expanded_spec (expanded_unit (ub_unit u) pt st)
                    (expanded_unit_fresh (ub_unit u) pt st) all_sipre (fun _ => O) units ix
                    NoDup_all_sipre W) as HA.
      destruct (add_expanded all_sipre (expanded_unit (ub_unit u) pt st) (fun _ => O) units ix)
        as [[[units1 ix1] ids]|e]; cbn [lift bind]; [|exact I].
      cbn [rspec] in HA. destruct HA as (W1 & (ext & -> & Hext) & Hin & _).
      unfold set_ub.
      set (u' := {| ub_unit := ub_unit u; ub_is_expanded := ub_is_expanded u;
                    ub_expand_si := true; ub_expanded := Some ids |}).
      destruct (set_nth_some u' (units ++ ext) id) as [units2 E2].
      { rewrite app_length. lia. }
      rewrite E2. cbn [bind ret].
      destruct (set_nth_spec u' _ _ _ E2) as (_ & Hlen2 & Hat & Hother).
      assert (Hu1 : nth_error (units ++ ext) id = Some u).
      { rewrite nth_error_app1 by lia. exact Eu. }
      assert (Hidp : forall p, ids p <> id).
      { intro p. destruct (Hin p (In_all_sipre p)) as (_ & Hge & _). lia. }
      assert (W2 : WF units2 ix1).
      { constructor.
          -- intros i v k Hi Hk. destruct (Nat.eq_dec i id) as [->|Hne].
             ++ rewrite Hat in Hi. injection Hi as <-. exact (wf_fwd _ _ W1 id u k Hu1 Hk).
             ++ rewrite Hother in Hi by exact Hne. exact (wf_fwd _ _ W1 i v k Hi Hk).
          -- intros k i Hf. destruct (wf_bwd _ _ W1 k i Hf) as (v & Hv & Hk).
             destruct (Nat.eq_dec i id) as [->|Hne].
             ++ exists u'. split; [exact Hat|]. rewrite Hu1 in Hv. injection Hv as <-. exact Hk.
             ++ exists v. split; [rewrite Hother by exact Hne; exact Hv | exact Hk].
          -- intros i v Hi. destruct (Nat.eq_dec i id) as [->|Hne].
             ++ rewrite Hat in Hi. injection Hi as <-. exact (wf_keys _ _ W1 id u Hu1).
             ++ rewrite Hother in Hi by exact Hne. exact (wf_keys _ _ W1 i v Hi).
          -- intros i v f Hi Hf. destruct (Nat.eq_dec i id) as [->|Hne].
             ++ rewrite Hat in Hi. injection Hi as <-. cbn in Hf. injection Hf as <-.
                split; [reflexivity|]. intro p.
                destruct (Hin p (In_all_sipre p)) as (H1 & H2 & H3).
                split; [apply Hidp|]. split; [intros p' He; apply H3; [apply In_all_sipre | exact He]|].
                exists (expanded_unit (ub_unit u) pt st p).
                split; [rewrite Hother by apply Hidp; exact H1 | split; reflexivity].
             ++ rewrite Hother in Hi by exact Hne.
                destruct (wf_exp _ _ W1 i v f Hi Hf) as [He Hp]. split; [exact He|].
                intro p. destruct (Hp p) as (H1 & H2 & e & H3 & H4 & H5).
                split; [exact H1|]. split; [exact H2|]. exists e.
                assert (f p <> id) by (intro Eq; rewrite Eq, Hu1 in H3; injection H3 as <-; congruence).
                split; [rewrite Hother by assumption; exact H3 | split; assumption]. }
      assert (P2 : forall i v, nth_error units2 i = Some v -> ub_expand_si v = true -> ub_expanded v = None ->
                     (S id <= i < S id + n)%nat).
      { intros i v Hi He Hn. destruct (Nat.eq_dec i id) as [->|Hne].
        -- rewrite Hat in Hi. injection Hi as <-. discriminate.
        -- rewrite Hother in Hi by exact Hne.
           destruct (Nat.lt_ge_cases i (length units)) as [L|L].
           ++ rewrite nth_error_app1 in Hi by exact L. specialize (Hpend i v Hi He Hn). lia.
           ++ rewrite nth_error_app2 in Hi by exact L. apply nth_error_In in Hi.
              rewrite Forall_forall in Hext. destruct (Hext v Hi) as [_ Hf]. congruence. }
      assert (Hold : forall i v g, i <> id -> nth_error units2 i = Some v -> ub_expanded v = Some g ->
                 (i < length units)%nat /\ nth_error units i = Some v).
      { intros i v g Hne Hi Hg. rewrite Hother in Hi by exact Hne.
        destruct (Nat.lt_ge_cases i (length units)) as [L|L].
        - split; [exact L|]. rewrite nth_error_app1 in Hi by exact L. exact Hi.
        - rewrite nth_error_app2 in Hi by exact L. apply nth_error_In in Hi.
          rewrite Forall_forall in Hext. destruct (Hext v Hi) as [Hf _]. congruence. }
      assert (Hkeep : forall j e, (n0 <= j)%nat -> nth_error units j = Some e -> nth_error units2 j = Some e).
      { intros j e Hj He. rewrite Hother by lia. rewrite nth_error_app1; [exact He|]. apply nth_error_Some. congruence. }
      apply IH; try assumption; try lia.
      * rewrite Hlen2, app_length. lia.
      * rewrite Hlen2, app_length. lia.
      * constructor.
        -- intros i v g p Hi Hg. destruct (Nat.eq_dec i id) as [->|Hne].
           ++ rewrite Hat in Hi. injection Hi as <-. cbn in Hg. injection Hg as <-.
              destruct (Hin p (In_all_sipre p)) as (H1 & H2 & _).
              exists (expanded_unit (ub_unit u) pt st p), pt, st.
              split; [rewrite Hother by apply Hidp; exact H1|].
              split; [exact Ept|]. split; [exact Est|]. split; [|reflexivity].
              repeat split.
           ++ destruct (Hold i v g Hne Hi Hg) as [L Hi0].
              destruct (siv_form _ _ HS i v g p Hi0 Hg) as (e & pt0 & st0 & He & R).
              exists e, pt0, st0. split; [|exact R]. apply Hkeep; [|exact He]. exact (Hfo i v g p Hi0 Hg).
        -- intros i i' v v' g g' p p' Hi Hg Hi' Hg' E.
           destruct (Nat.eq_dec i id) as [->|Hne], (Nat.eq_dec i' id) as [->|Hne']; [reflexivity | | |].
           ++ exfalso. rewrite Hat in Hi. injection Hi as <-. cbn in Hg. injection Hg as <-.
              destruct (Hold i' v' g' Hne' Hi' Hg') as [_ Hi0].
              destruct (siv_form _ _ HS i' v' g' p' Hi0 Hg') as (e & _ & _ & He & _).
              destruct (Hin p (In_all_sipre p)) as (_ & H2 & _).
              assert (g' p' < length units)%nat by (apply nth_error_Some; congruence). lia.
           ++ exfalso. rewrite Hat in Hi'. injection Hi' as <-. cbn in Hg'. injection Hg' as <-.
              destruct (Hold i v g Hne Hi Hg) as [_ Hi0].
              destruct (siv_form _ _ HS i v g p Hi0 Hg) as (e & _ & _ & He & _).
              destruct (Hin p' (In_all_sipre p')) as (_ & H2 & _).
              assert (g p < length units)%nat by (apply nth_error_Some; congruence). lia.
           ++ destruct (Hold i v g Hne Hi Hg) as [_ Hi0]. destruct (Hold i' v' g' Hne' Hi' Hg') as [_ Hi0'].
              exact (siv_disj _ _ HS i i' v v' g g' p p' Hi0 Hg Hi0' Hg' E).
      * intros i v g p Hi Hg. destruct (Nat.eq_dec i id) as [->|Hne].
        -- rewrite Hat in Hi. injection Hi as <-. cbn in Hg. injection Hg as <-.
           destruct (Hin p (In_all_sipre p)) as (_ & H2 & _). lia.
        -- destruct (Hold i v g Hne Hi Hg) as [_ Hi0]. exact (Hfo i v g p Hi0 Hg).
    + cbn [bind ret]. apply IH; try assumption; try lia.
      intros i v Hi He Hn. specialize (Hpend i v Hi He Hn).
      destruct (Nat.eq_dec i id) as [->|Hne]; [congruence | lia].
Qed.

(* --- through an extend entry ------------------------------------------------------ *)

Definition form_unit (new : sipre -> ubuilder) (p : sipre) (old : ubuilder) : ubuilder :=
  with_unit (new p)
    {| names := names (ub_unit (new p)); symbols := symbols (ub_unit (new p));
       aliases := aliases (ub_unit old); ratio := ratio (ub_unit (new p));
       difference := difference (ub_unit (new p));
       quantity := quantity (ub_unit (new p)); usystem := usystem (ub_unit (new p)) |}.

Lemma update_loop_forms id base f new : ub_expanded base = Some f -> (forall p, f p <> id) ->
  forall ps units ix, NoDup ps -> (forall p p', In p ps -> In p' ps -> f p' = f p -> p' = p) ->
  nth_error units id = Some base ->
  post (update_loop ps id new units ix)
    (fun r => length (fst r) = length units /\
       (forall j, (forall p, In p ps -> j <> f p) -> nth_error (fst r) j = nth_error units j) /\
       (forall p, In p ps -> exists old, nth_error units (f p) = Some old /\
                                        nth_error (fst r) (f p) = Some (form_unit new p old))).
Proof.
  intros Hf Hne. induction ps as [|p r IH]; intros units ix ND Hinj Hb; cbn [update_loop].
  - cbn. split; [reflexivity|]. split; [reflexivity|]. intros p [].
  - inversion ND as [|? ? Hp ND']; subst.
    unfold get_ub at 1. rewrite Hb. cbn [bind ret]. rewrite Hf.
    unfold get_ub. destruct (nth_error units (f p)) as [old|] eqn:Ho; cbn [bind ret]; [|exact I].
    change (with_unit (new p) _) with (form_unit new p old).
    unfold set_ub. destruct (set_nth (f p) (form_unit new p old) units) as [units'|] eqn:Es; cbn [bind ret]; [|exact I].
    destruct (index_add_unit (ub_unit (form_unit new p old)) (f p) ix) as [ix'|err]; cbn [lift bind]; [|exact I].
    destruct (set_nth_spec _ _ _ _ Es) as (_ & Hlen & Hat & Hother).
    eapply post_weaken.
    + apply (IH units' ix' ND').
      * intros q q' Hq Hq'. apply Hinj; right; assumption.
      * rewrite Hother; [exact Hb|]. intro X. exact (Hne p (eq_sym X)).
    + intros r2 (L & Fr & Fo). split; [congruence|]. split.
      * intros j Hj. rewrite Fr by (intros q Hq; apply Hj; right; exact Hq).
        apply Hother. apply Hj. left. reflexivity.
      * intros q [<-|Hq].
        -- exists old. split; [exact Ho|]. rewrite Fr; [exact Hat|].
           intros q Hq X. apply Hinj in X; [|right; exact Hq|left; reflexivity]. subst q. exact (Hp Hq).
        -- destruct (Fo q Hq) as (old' & Ho' & Hn'). exists old'. split; [|exact Hn'].
           rewrite Hother in Ho'; [exact Ho'|]. intro X.
           apply Hinj in X; [|left; reflexivity|right; exact Hq]. subst q. exact (Hp Hq).
Qed.

Definition same_flags (v v' : ubuilder) : Prop :=
  ub_expanded v' = ub_expanded v /\ ub_is_expanded v' = ub_is_expanded v /\ ub_expand_si v' = ub_expand_si v.

Definition NotForm (units : list ubuilder) (j : nat) : Prop :=
  forall i u f p, nth_error units i = Some u -> ub_expanded u = Some f -> f p <> j.

Definition StepPost (si : si_cfg) (p : prec) (units : list ubuilder) (ups : list (nat * ext_entry))
           (r : list ubuilder * index) : Prop :=
  SIV si (fst r) /\ length (fst r) = length units /\
  forall j v, nth_error units j = Some v ->
    exists v', nth_error (fst r) j = Some v' /\ same_flags v v' /\
               (NotForm units j -> ub_unit v' = unit_after p ups j (ub_unit v)).

Lemma forms_dec (f : sipre -> nat) j : (exists q, j = f q) \/ (forall q, j <> f q).
Proof.
  destruct (Nat.eq_dec j (f Kilo)); [left; eauto|]. destruct (Nat.eq_dec j (f Hecto)); [left; eauto|].
  destruct (Nat.eq_dec j (f Deca)); [left; eauto|]. destruct (Nat.eq_dec j (f Deci)); [left; eauto|].
  destruct (Nat.eq_dec j (f Centi)); [left; eauto|]. destruct (Nat.eq_dec j (f Milli)); [left; eauto|].
  right. intros []; assumption.
Qed.

Lemma same_flags_refl v : same_flags v v.
Proof. repeat split. Qed.

Lemma unit_after_one p id e j x :
  unit_after p [(id, e)] j x = if Nat.eqb id j then layered_unit x e p else x.
Proof. reflexivity. Qed.

Lemma apply_update1_SIV p si id e units ix u :
  Inv (units, ix) -> SIV si units -> nth_error units id = Some u ->
  (ub_is_expanded u = true -> alias_only e) ->
  post (apply_updates [(id, e)] p si units ix) (StepPost si p units [(id, e)]).
Proof.
  intros [W A] HS Hu Hguard. cbn [fst snd] in W, A. apply WF_split in W as [P E].
  cbn [apply_updates]. unfold get_ub at 1. rewrite Hu. cbn [bind ret].
  destruct (index_remove_rec 2 units u ix) as [ix1|s]; [|exact I].
  set (u' := with_unit u (edit_unit (ub_unit u) e p)).
  assert (Hu'unit : ub_unit u' = layered_unit (ub_unit u) e p) by apply edit_unit_layered.
  unfold set_ub. destruct (set_nth id u' units) as [units1|] eqn:Es; cbn [bind ret]; [|exact I].
  destruct (set_nth_spec u' _ _ _ Es) as (_ & Hlen1 & Hat1 & Ho1).
  change (ub_expand_si u') with (ub_expand_si u).
  destruct (ub_expand_si u) eqn:Hx.
  - (* a unit with SI forms: they are regenerated *)
    destruct (ub_expanded u) as [f|] eqn:Hf; [|exfalso; exact (A id u Hu Hx Hf)].
    destruct (E id u f Hu Hf) as [_ Hall].
    unfold update_expanded_units, get_ub. rewrite Hat1. cbn [bind ret].
    unfold expand_si. change (ub_expand_si u') with (ub_expand_si u). rewrite Hx. cbn [negb].
    destruct (si_prefixes si) as [pt|] eqn:Ept; [|exact I].
    destruct (si_symbol_prefixes si) as [st|] eqn:Est; [|exact I].
    cbn [bind ret]. set (new := expanded_unit (ub_unit u') pt st).
    eapply post_bind.
    + apply (update_loop_forms id u' f new) with (ps := all_sipre).
      * exact Hf.
      * intro q. destruct (Hall q) as [X _]. exact X.
      * exact NoDup_all_sipre.
      * intros q q' _ _ X. destruct (Hall q) as (_ & Hinj & _). apply Hinj. exact X.
      * exact Hat1.
    + intros [units2 ix2] (L2 & Fr & Fo). cbn [fst snd] in *.
      assert (Hid2 : nth_error units2 id = Some u').
      { rewrite Fr; [exact Hat1|]. intros q _. destruct (Hall q) as [X _]. intro Y. exact (X (eq_sym Y)). }
      unfold get_ub. rewrite Hid2. cbn [bind ret].
      destruct (index_add_unit (ub_unit u') id ix2) as [ix3|err]; cbn [lift bind]; [|exact I].
      cbn [post ret]. unfold StepPost. cbn [fst snd].
      (* units2: [id] holds u', each f q its regenerated form, everything else is as before *)
      assert (Hform : forall q, exists old, nth_error units (f q) = Some old /\
                        nth_error units2 (f q) = Some (form_unit new q old) /\
                        ub_expanded old = None /\ ub_expand_si old = false).
      { intro q. destruct (Fo q (In_all_sipre q)) as (old & Ho & Hn).
        destruct (Hall q) as (Hne & _ & x & Hx1 & Hx2 & Hx3).
        rewrite Ho1 in Ho by exact Hne. rewrite Ho in Hx1. injection Hx1 as <-.
        exists old. tauto. }
      assert (Hrest : forall j, j <> id -> (forall q, j <> f q) -> nth_error units2 j = nth_error units j).
      { intros j Hj Hq. rewrite Fr by (intros q _; apply Hq). apply Ho1. exact Hj. }
      assert (Hback : forall i v g, nth_error units2 i = Some v -> ub_expanded v = Some g ->
                        exists v0, nth_error units i = Some v0 /\ ub_expanded v0 = Some g /\
                                   (i <> id -> v0 = v /\ forall q, i <> f q)).
      { intros i v g Hi Hg. destruct (Nat.eq_dec i id) as [Heq|Hne]; [subst i|].
        - rewrite Hid2 in Hi. injection Hi as <-. exists u. split; [exact Hu|]. split; [exact Hg|]. tauto.
        - destruct (forms_dec f i) as [[q ->]|Hq].
          + destruct (Hform q) as (old & _ & Hn & _). rewrite Hn in Hi. injection Hi as <-. discriminate.
          + rewrite Hrest in Hi by assumption. exists v. tauto. }
      split; [|split].
      * constructor.
        -- intros i v g q Hi Hg. destruct (Nat.eq_dec i id) as [Heq|Hne]; [subst i|].
           ++ rewrite Hid2 in Hi. injection Hi as <-. change (ub_expanded u') with (ub_expanded u) in Hg.
              rewrite Hf in Hg. injection Hg as <-.
              destruct (Hform q) as (old & _ & Hn & _).
              exists (form_unit new q old), pt, st. split; [exact Hn|]. split; [exact Ept|]. split; [exact Est|].
              split; [|reflexivity]. repeat split.
           ++ destruct (Hback i v g Hi Hg) as (v0 & Hi0 & Hg0 & Hsame). destruct (Hsame Hne) as [-> Hnf].
              destruct (siv_form _ _ HS i v g q Hi0 Hg0) as (e0 & pt0 & st0 & He0 & R).
              exists e0, pt0, st0. split; [|exact R]. rewrite Hrest; [exact He0| |].
              ** intro X. destruct (E i v g Hi0 Hg0) as [_ Hall']. destruct (Hall' q) as (_ & _ & x & Hx1 & Hx2 & _).
                 rewrite X, Hu in Hx1. injection Hx1 as <-. congruence.
              ** intros q' X. apply Hne. exact (siv_disj _ _ HS i id v u g f q q' Hi0 Hg0 Hu Hf X).
        -- intros i i' v v' g g' q q' Hi Hg Hi' Hg' X.
           destruct (Hback i v g Hi Hg) as (v0 & Hi0 & Hg0 & _).
           destruct (Hback i' v' g' Hi' Hg') as (v0' & Hi0' & Hg0' & _).
           exact (siv_disj _ _ HS i i' v0 v0' g g' q q' Hi0 Hg0 Hi0' Hg0' X).
      * congruence.
      * intros j v Hj. rewrite unit_after_one. destruct (Nat.eq_dec j id) as [Heq|Hne]; [subst j|].
        -- rewrite Hu in Hj. injection Hj as <-. exists u'. split; [exact Hid2|]. split; [repeat split|].
           intros _. rewrite Nat.eqb_refl. exact Hu'unit.
        -- assert (Nat.eqb id j = false) as -> by (apply Nat.eqb_neq; congruence).
           destruct (forms_dec f j) as [[q ->]|Hq].
           ++ destruct (Hform q) as (old & Ho & Hn & Hx2 & Hx3). rewrite Ho in Hj. injection Hj as <-.
              exists (form_unit new q old). split; [exact Hn|]. split.
              ** destruct (siv_form _ _ HS id u f q Hu Hf) as (e0 & _ & _ & He0 & _ & _ & _ & Hfl).
                 rewrite Ho in He0. injection He0 as <-.
                 split; [symmetry; exact Hx2|]. split; [symmetry; exact Hfl | symmetry; exact Hx3].
              ** intro NF. exfalso. exact (NF id u f q Hu Hf eq_refl).
           ++ exists v. split; [rewrite Hrest by assumption; exact Hj|]. split; [apply same_flags_refl | reflexivity].
  - (* no SI forms *)
    cbn [bind ret]. unfold get_ub. rewrite Hat1. cbn [bind ret].
    destruct (index_add_unit (ub_unit u') id ix1) as [ix3|err]; cbn [lift bind]; [|exact I].
    cbn [post ret]. unfold StepPost. cbn [fst snd].
    assert (Hn : ub_expanded u = None).
    { destruct (ub_expanded u) as [f|] eqn:Hf; [|reflexivity]. destruct (E id u f Hu Hf) as [X _]. congruence. }
    assert (Hback : forall i v g, nth_error units1 i = Some v -> ub_expanded v = Some g ->
                      i <> id /\ nth_error units i = Some v).
    { intros i v g Hi Hg. destruct (Nat.eq_dec i id) as [Heq|Hne]; [subst i|].
      - rewrite Hat1 in Hi. injection Hi as <-. change (ub_expanded u') with (ub_expanded u) in Hg. congruence.
      - split; [exact Hne|]. rewrite Ho1 in Hi by exact Hne. exact Hi. }
    split; [|split].
    + constructor.
      * intros i v g q Hi Hg. destruct (Hback i v g Hi Hg) as [Hne Hi0].
        destruct (siv_form _ _ HS i v g q Hi0 Hg) as (e0 & pt0 & st0 & He0 & Hp0 & Hs0 & Hfm & Hfl).
        destruct (Nat.eq_dec (g q) id) as [X|X].
        -- rewrite X, Hu in He0. injection He0 as <-. destruct (Hguard Hfl) as (G1 & G2 & G3 & G4).
           exists u', pt0, st0. rewrite X. split; [exact Hat1|]. split; [exact Hp0|]. split; [exact Hs0|].
           split; [|exact Hfl]. destruct Hfm as (F1 & F2 & F3 & F4 & F5 & F6).
           unfold u', with_unit, edit_unit. cbn [ub_unit names symbols ratio difference quantity usystem].
           rewrite G1, G2, G3, G4. repeat split; assumption.
        -- exists e0, pt0, st0. split; [rewrite Ho1 by exact X; exact He0|]. tauto.
      * intros i i' v v' g g' q q' Hi Hg Hi' Hg' X.
        destruct (Hback i v g Hi Hg) as [_ Hi0]. destruct (Hback i' v' g' Hi' Hg') as [_ Hi0'].
        exact (siv_disj _ _ HS i i' v v' g g' q q' Hi0 Hg Hi0' Hg' X).
    + exact Hlen1.
    + intros j v Hj. rewrite unit_after_one. destruct (Nat.eq_dec j id) as [Heq|Hne]; [subst j|].
      * rewrite Hu in Hj. injection Hj as <-. exists u'. split; [exact Hat1|]. split; [repeat split|].
        intros _. rewrite Nat.eqb_refl. exact Hu'unit.
      * assert (Nat.eqb id j = false) as -> by (apply Nat.eqb_neq; congruence).
        exists v. split; [rewrite Ho1 by exact Hne; exact Hj|]. split; [apply same_flags_refl | reflexivity].
Qed.

Lemma apply_updates_cons x r p si units ix :
  apply_updates (x :: r) p si units ix =
  bind (apply_updates [x] p si units ix) (fun ui => apply_updates r p si (fst ui) (snd ui)).
Proof.
  destruct x as [id e]. cbn [apply_updates].
  unfold get_ub at 1 3. destruct (nth_error units id) as [u|]; cbn [bind ret]; [|reflexivity].
  destruct (index_remove_rec 2 units u ix) as [ix1|s]; [|reflexivity].
  unfold set_ub. destruct (set_nth id _ units) as [units1|]; cbn [bind ret]; [|reflexivity].
  destruct (if ub_expand_si _ then _ else _) as [[[units2 ix2]|err]|s]; cbn [bind]; try reflexivity.
  unfold get_ub. destruct (nth_error units2 id) as [u2|]; cbn [bind ret]; [|reflexivity].
  destruct (index_add_unit (ub_unit u2) id ix2) as [ix3|err]; cbn [lift bind]; reflexivity.
Qed.

Lemma spec_post_conj {A} (m : M A) (P Q : A -> Prop) : spec m P -> post m Q -> post m (fun a => P a /\ Q a).
Proof. destruct m as [[a|e]|s]; cbn; auto. Qed.

Definition Guard (units : list ubuilder) (x : nat * ext_entry) : Prop :=
  exists u, nth_error units (fst x) = Some u /\ (ub_is_expanded u = true -> alias_only (snd x)).

Lemma apply_updates_SIV p si : forall ups units ix,
  Inv (units, ix) -> SIV si units -> Forall (Guard units) ups ->
  post (apply_updates ups p si units ix) (fun r => Inv r /\ StepPost si p units ups r).
Proof.
  induction ups as [|[id e] r IH]; intros units ix I0 HS HG.
  - cbn. split; [exact I0|]. split; [exact HS|]. split; [reflexivity|].
    intros j v Hj. exists v. split; [exact Hj|]. split; [apply same_flags_refl | reflexivity].
  - inversion HG as [|? ? (u & Hu & Hgu) HG']; subst. cbn [fst snd] in Hu, Hgu.
    rewrite apply_updates_cons. eapply post_bind.
    + apply spec_post_conj.
      * apply apply_updates_spec; [exact I0|]. constructor; [|constructor]. cbn [fst].
        apply nth_error_Some. congruence.
      * exact (apply_update1_SIV p si id e units ix u I0 HS Hu Hgu).
    + intros [units1 ix1] [[I1 _] (S1 & L1 & F1)]. cbn [fst snd] in *.
      eapply post_weaken.
      * apply (IH units1 ix1 I1 S1). rewrite Forall_forall in HG'. apply Forall_forall. intros x Hx.
        destruct (HG' x Hx) as (v & Hv & Hgv). destruct (F1 _ v Hv) as (v' & Hv' & (_ & Hfl & _) & _).
        exists v'. split; [exact Hv'|]. rewrite Hfl. exact Hgv.
      * intros r2 [I2 (S2 & L2 & F2)]. split; [exact I2|]. split; [exact S2|]. split; [congruence|].
        intros j v Hj. destruct (F1 j v Hj) as (v1 & Hv1 & (A1 & B1 & C1) & U1).
        destruct (F2 j v1 Hv1) as (v2 & Hv2 & (A2 & B2 & C2) & U2).
        exists v2. split; [exact Hv2|]. split; [repeat split; congruence|].
        intro NF. cbn [unit_after]. pose proof (U1 NF) as X1. rewrite unit_after_one in X1. rewrite <- X1. apply U2.
        intros i u1 g q Hi Hg.
        assert (Hlt : (i < length units)%nat) by (rewrite <- L1; apply nth_error_Some; congruence).
        destruct (nth_error units i) as [v0|] eqn:Hi0; [|apply nth_error_None in Hi0; lia].
        destruct (F1 i v0 Hi0) as (v0' & Hv0' & (A0 & _) & _). rewrite Hi in Hv0'. injection Hv0' as <-.
        apply (NF i v0 g q Hi0). congruence.
Qed.

Lemma resolve_entries_guard units ix : forall es acc, Forall (Guard units) acc ->
  post (resolve_entries es units ix acc) (Forall (Guard units)).
Proof.
  induction es as [|[k e] r IH]; intros acc Hacc; cbn [resolve_entries]; [exact Hacc|].
  unfold get_unit_id. destruct (find k ix) as [id|]; cbn [lift bind]; [|exact I].
  destruct (existsb _ acc); [exact I|].
  unfold get_ub. destruct (nth_error units id) as [u|] eqn:Hu; cbn [bind ret]; [|exact I].
  destruct (ub_is_expanded u && _) eqn:Eg; [exact I|].
  apply IH. apply Forall_app. split; [exact Hacc|]. constructor; [|constructor].
  exists u. cbn [fst snd]. split; [exact Hu|]. intro Hfl. rewrite Hfl in Eg. cbn [andb] in Eg.
  unfold alias_only. destruct (xe_ratio e), (xe_difference e), (xe_names e), (xe_symbols e);
    cbn in Eg; try discriminate. repeat split.
Qed.

Definition FlagsKept (units units' : list ubuilder) : Prop :=
  length units' = length units /\
  forall j v, nth_error units j = Some v -> exists v', nth_error units' j = Some v' /\ same_flags v v'.

Lemma apply_extend_groups_SIV si : forall exts units ix,
  Inv (units, ix) -> SIV si units ->
  post (apply_extend_groups exts si units ix)
       (fun r => Inv r /\ SIV si (fst r) /\ FlagsKept units (fst r)).
Proof.
  induction exts as [|g r IH]; intros units ix I0 HS; cbn [apply_extend_groups].
  - cbn. split; [exact I0|]. split; [exact HS|]. split; [reflexivity|].
    intros j v Hj. exists v. split; [exact Hj | apply same_flags_refl].
  - eapply post_bind; [apply resolve_entries_guard; constructor|]. intros ups HG.
    eapply post_bind; [apply (apply_updates_SIV (ex_prec g) si ups units ix I0 HS HG)|].
    intros [units1 ix1] [I1 (S1 & L1 & F1)]. cbn [fst snd] in *.
    eapply post_weaken; [apply (IH units1 ix1 I1 S1)|].
    intros r2 (I2 & S2 & L2 & F2). split; [exact I2|]. split; [exact S2|]. split; [congruence|].
    intros j v Hj. destruct (F1 j v Hj) as (v1 & Hv1 & (A1 & B1 & C1) & _).
    destruct (F2 j v1 Hv1) as (v2 & Hv2 & (A2 & B2 & C2)).
    exists v2. split; [exact Hv2|]. repeat split; congruence.
Qed.

(* --- the declared units with their expand_si flag ----------------------------------- *)

Definition uinfo (u : ubuilder) : cunit * bool := (ub_unit u, ub_expand_si u).
Definition dinfo (d : pq * option system * unit_entry) : cunit * bool := (unit_of d, ue_expand_si (snd d)).

Lemma add_entries_info q sys es : forall units ix units' ix',
  add_entries q sys es units ix = ROk (units', ix') ->
  map uinfo units' = map uinfo units ++ map (fun e => dinfo (q, sys, e)) es.
Proof.
  induction es as [|e r IH]; intros units ix units' ix' H; cbn [add_entries] in H.
  - injection H as <- <-. cbn. rewrite app_nil_r. reflexivity.
  - apply rbind_ok in H as ([[u1 i1] id] & H1 & H). unfold add_unit in H1.
    apply rbind_ok in H1 as (ix1 & _ & H1). injection H1 as <- <- <-.
    apply IH in H. rewrite H, map_app, <- app_assoc. reflexivity.
Qed.

Lemma add_group_info st g st' : add_group st g = ROk st' ->
  map uinfo (b_units st') = map uinfo (b_units st) ++ map dinfo (group_decl g).
Proof.
  unfold add_group. intro H. apply rbind_ok in H as ([units ix] & Hu & H).
  apply rbind_ok in H as (best & _ & H). injection H as <-. cbn [b_units].
  unfold group_decl. destruct (qg_units g) as [[l|m i u]|].
  - apply add_entries_info in Hu. rewrite Hu. cbn [entries_of]. rewrite !map_map. reflexivity.
  - apply rbind_ok in Hu as ([u1 i1] & H1 & Hu). apply rbind_ok in Hu as ([u2 i2] & H2 & Hu).
    apply add_entries_info in H1, H2, Hu. rewrite Hu, H2, H1. cbn [entries_of].
    rewrite !map_app, !map_map, <- !app_assoc. reflexivity.
  - injection Hu as <- <-. cbn. rewrite app_nil_r. reflexivity.
Qed.

Lemma add_groups_info gs : forall st st', add_groups st gs = ROk st' ->
  map uinfo (b_units st') = map uinfo (b_units st) ++ map dinfo (flat_map group_decl gs).
Proof.
  induction gs as [|g r IH]; intros st st' H; cbn [add_groups] in H.
  - injection H as <-. cbn. rewrite app_nil_r. reflexivity.
  - apply rbind_ok in H as (st1 & H1 & H). apply add_group_info in H1. apply IH in H.
    rewrite H, H1. cbn [flat_map]. rewrite map_app, <- app_assoc. reflexivity.
Qed.


Lemma add_files_info fs : forall st st', add_files st fs = ROk st' ->
  map uinfo (b_units st') = map uinfo (b_units st) ++ map dinfo (declared fs).
Proof.
  induction fs as [|f r IH]; intros st st' H; cbn [add_files] in H.
  - injection H as <-. cbn. rewrite !app_nil_r. reflexivity.
  - apply rbind_ok in H as (st1 & H1 & H). unfold add_units_file in H1.
    apply rbind_ok in H1 as (st0 & H0 & H1). injection H1 as <-.
    pose proof (add_groups_info _ _ _ H0) as U0.
    apply IH in H. cbn [b_units] in H.
    rewrite H, U0. unfold declared. cbn [flat_map]. rewrite map_app, <- app_assoc. reflexivity.
Qed.

Lemma expand_loop_info si : forall n id units ix,
  post (expand_loop n id si units ix) (fun r => exists ext, map uinfo (fst r) = map uinfo units ++ ext).
Proof.
  induction n as [|n IH]; intros id units ix; cbn [expand_loop].
  - cbn. exists []. rewrite app_nil_r. reflexivity.
  - unfold get_ub. destruct (nth_error units id) as [u|] eqn:Hu; cbn [bind ret]; [|exact I].
    destruct (ub_expand_si u) eqn:Hxs.
    + destruct (expand_si u si) as [[new|err]|s]; cbn [bind]; try exact I.
      destruct (add_expanded all_sipre new (fun _ => O) units ix) as [[[units1 ix1] ids]|err] eqn:Ea;
        cbn [lift bind]; [|exact I].
      apply add_expanded_prefix in Ea as (ext & ->).
      match goal with |- post (bind (bind (set_ub _ _ _ ?x) _) _) _ => set (u' := x) end.
      unfold set_ub. destruct (set_nth id u' (units ++ ext)) as [units2|] eqn:Es; cbn [bind ret]; [|exact I].
      eapply post_weaken; [apply IH|]. intros r2 (ext2 & E2). cbn [fst] in *.
      assert (Hu1 : nth_error (units ++ ext) id = Some u).
      { rewrite nth_error_app1; [exact Hu|]. apply nth_error_Some. congruence. }
      assert (Hinfo : uinfo u' = uinfo u) by (unfold uinfo, u'; cbn [ub_unit ub_expand_si]; rewrite Hxs; reflexivity).
      rewrite (set_nth_map uinfo u' _ _ _ u Es Hu1 Hinfo) in E2.
      rewrite map_app, <- app_assoc in E2. eauto.
    + cbn [bind ret]. apply IH.
Qed.

Lemma in_prefixed pre n pres ns : In pre pres -> In n ns -> In (pre ++ n) (prefixed pres ns).
Proof.
  intros Hp Hn. unfold prefixed. apply in_flat_map. exists pre. split; [exact Hp|].
  apply in_map_iff. exists n. split; [reflexivity | exact Hn].
Qed.

Lemma SIV_no_expansion si units : no_expansion units -> SIV si units.
Proof.
  intro N. constructor.
  - intros i u f p Hi Hf. rewrite (N i u Hi) in Hf. discriminate.
  - intros i i' u u' f f' p p' Hi Hf. rewrite (N i u Hi) in Hf. discriminate.
Qed.

Lemma build_si_forms files c : build cfg_new files = Done (ROk c) -> si_forms_ok files c.
Proof.
  unfold build. intro H. apply bind_ok in H as (st & Hst & H). unfold lift in Hst. injection Hst as Hst.
  pose proof (rspec_ok _ _ _ (add_files_S1 files bstate0 S1_init) Hst) as [[W0 N0] _].
  cbn [fst snd] in W0, N0.
  pose proof (add_files_info _ _ _ Hst) as HI. cbn [bstate0 b_units map app] in HI.
  pose proof (add_files_tables _ _ Hst) as HT.
  unfold finish in H.
  apply bind_ok in H as ([units1 ix1] & H1 & H). apply bind_ok in H as ([units ix] & H2 & H).
  apply bind_ok in H as (bv & _ & H). apply bind_ok in H as (bm & _ & H).
  apply bind_ok in H as (bl & _ & H). apply bind_ok in H as (bt & _ & H).
  apply bind_ok in H as (bh & _ & H). apply bind_ok in H as (fr & _ & H).
  injection H as <-. unfold si_forms_ok, find_unit. cbn [c_units c_index].
  intros j d u Hd Hex Hj.
  (* after the SI expansion *)
  assert (X1 : (WF units1 ix1 /\ AllExpanded units1) /\ SIV (b_si st) units1).
  { refine (spec_ok _ _ _ (expand_loop_spec2 (b_si st) (length (b_units st)) (length (b_units st)) 0
                             (b_units st) (b_index st) W0 _ _ _ _ _ _) H1).
    - lia.
    - intros i v Hi _ _. split; [lia|]. apply nth_error_Some. congruence.
    - reflexivity.
    - lia.
    - apply SIV_no_expansion. exact N0.
    - intros i v f p Hi Hf. rewrite (N0 i v Hi) in Hf. discriminate. }
  destruct X1 as [I1 S1].
  destruct (post_ok _ _ _ (expand_loop_info (b_si st) (length (b_units st)) 0 (b_units st) (b_index st)) H1)
    as (ext & Hpre). cbn [fst] in Hpre. rewrite HI in Hpre.
  assert (Hj1 : nth_error (map uinfo units1) j = Some (dinfo d)).
  { rewrite Hpre. rewrite nth_error_app1.
    - apply map_nth_error. exact Hd.
    - rewrite map_length. apply nth_error_Some. congruence. }
  apply nth_error_map_inv in Hj1 as (ub1 & Hub1 & Hinfo). unfold uinfo, dinfo in Hinfo. injection Hinfo as _ Hflag1.
  (* after the extend blocks *)
  destruct (post_ok _ _ _ (apply_extend_groups_SIV (b_si st) (b_extend st) units1 ix1 I1 S1) H2)
    as ([W A] & S & _ & FK). cbn [fst snd] in W, A, S, FK.
  destruct (FK j ub1 Hub1) as (ub & Hub & _ & _ & Hflag).
  apply nth_error_map_inv in Hj as (ub' & Hub' & ->). rewrite Hub in Hub'. injection Hub' as <-.
  assert (Hx : ub_expand_si ub = true) by congruence.
  destruct (ub_expanded ub) as [f|] eqn:Hf; [|exfalso; exact (A j ub Hub Hx Hf)].
  destruct (siv_form _ _ S j ub f Kilo Hub Hf) as (_ & pt & st0 & _ & Ept & Est & _).
  exists pt, st0. split; [rewrite <- HT, Ept, Est; reflexivity|].
  intros p pre n Hin.
  destruct (siv_form _ _ S j ub f p Hub Hf) as (e & pt' & st' & He & Ept' & Est' & Hfm & _).
  rewrite Ept in Ept'. injection Ept' as <-. rewrite Est in Est'. injection Est' as <-.
  destruct Hfm as (F1 & F2 & F3 & F4 & F5 & F6).
  exists (f p), (ub_unit e).
  assert (Hkey : In (pre ++ n) (all_keys (ub_unit e))).
  { unfold all_keys. destruct Hin as [[Hp Hn]|[Hp Hn]].
    - apply in_or_app. left. rewrite F1. apply in_prefixed; assumption.
    - apply in_or_app. right. apply in_or_app. left. rewrite F2. apply in_prefixed; assumption. }
  split; [exact (wf_fwd _ _ W (f p) e (pre ++ n) He Hkey)|].
  split; [apply map_nth_error; exact He|]. split; [rewrite F3; reflexivity | exact F5].
Qed.

(* --- all the extend blocks of a build ------------------------------------------------- *)

Lemma post_conj {A} (m : M A) (P Q : A -> Prop) : post m P -> post m Q -> post m (fun a => P a /\ Q a).
Proof. destruct m as [[a|e]|s]; cbn; auto. Qed.

(* what one block does to the units [us]: [ups] are its entries, each with the unit it addresses *)
Definition block_effect (si : si_cfg) (p : prec) (ups : list (nat * ext_entry)) (us us' : list ubuilder) : Prop :=
  SIV si us' /\ length us' = length us /\
  forall j v, nth_error us j = Some v ->
    exists v', nth_error us' j = Some v' /\ same_flags v v' /\
      aliases (ub_unit v') = aliases_after p ups j (aliases (ub_unit v)) /\
      (NotForm us j -> ub_unit v' = unit_after p ups j (ub_unit v)).

Definition addresses (us : list ubuilder) (ke : str * ext_entry) (ie : nat * ext_entry) : Prop :=
  snd ke = snd ie /\ exists u, nth_error us (fst ie) = Some u /\ In (fst ke) (all_keys (ub_unit u)).

Inductive blocks_run (si : si_cfg) : list extend -> list ubuilder -> list ubuilder -> Prop :=
| br_nil us : blocks_run si [] us us
| br_cons g r us us1 us2 ups :
    Forall2 (addresses us) (ex_units g) ups ->
    block_effect si (ex_prec g) ups us us1 ->
    blocks_run si r us1 us2 -> blocks_run si (g :: r) us us2.

Lemma apply_extend_groups_run si : forall exts units ix,
  Inv (units, ix) -> SIV si units ->
  post (apply_extend_groups exts si units ix) (fun r => blocks_run si exts units (fst r)).
Proof.
  induction exts as [|g r IH]; intros units ix I0 HS; cbn [apply_extend_groups].
  - cbn. constructor.
  - eapply post_bind.
    + apply post_conj; [apply (resolve_entries_sound units ix (proj1 I0)) | apply resolve_entries_guard; constructor].
    + intros ups [(new & -> & Hadd) HG]. cbn [app] in *.
      eapply post_bind.
      * apply post_conj; [apply (apply_updates_SIV (ex_prec g) si new units ix I0 HS HG) |
                          apply (apply_updates_aliases (ex_prec g) si new units ix)].
      * intros [units1 ix1] [[I1 (S1 & L1 & F1)] Hal]. cbn [fst snd] in *.
        eapply post_weaken; [apply (IH units1 ix1 I1 S1)|]. intros r2 Hrun.
        econstructor; [exact Hadd | | exact Hrun].
        split; [exact S1|]. split; [exact L1|]. intros j v Hj.
        destruct (F1 j v Hj) as (v' & Hv' & Hfl & Hu). destruct (Hal j v Hj) as (v'' & Hv'' & Ha).
        rewrite Hv' in Hv''. injection Hv'' as <-. exists v'. tauto.
Qed.

Definition extend_run_ok (files : list units_file) (c : converter) : Prop :=
  exists si us0 us,
    (* the SI tables are the layered ones *)
    (si_prefixes si, si_symbol_prefixes si) = final_tables files /\
    (* the start: the declared units as declared, followed by their SI forms *)
    (exists ext, map uinfo us0 = map dinfo (declared files) ++ ext) /\ SIV si us0 /\
    (* the blocks, in the order of the files *)
    blocks_run si (extend_layers files) us0 us /\
    c_units c = map ub_unit us.

Lemma build_extend_run files c : build cfg_new files = Done (ROk c) -> extend_run_ok files c.
Proof.
  unfold build. intro H. apply bind_ok in H as (st & Hst & H). unfold lift in Hst. injection Hst as Hst.
  pose proof (rspec_ok _ _ _ (add_files_S1 files bstate0 S1_init) Hst) as [[W0 N0] _].
  cbn [fst snd] in W0, N0.
  pose proof (add_files_info _ _ _ Hst) as HI. cbn [bstate0 b_units map app] in HI.
  destruct (add_files_units _ _ _ Hst) as [_ HE]. cbn [bstate0 b_extend app] in HE.
  pose proof (add_files_tables _ _ Hst) as HT.
  unfold finish in H.
  apply bind_ok in H as ([units1 ix1] & H1 & H). apply bind_ok in H as ([units ix] & H2 & H).
  apply bind_ok in H as (bv & _ & H). apply bind_ok in H as (bm & _ & H).
  apply bind_ok in H as (bl & _ & H). apply bind_ok in H as (bt & _ & H).
  apply bind_ok in H as (bh & _ & H). apply bind_ok in H as (fr & _ & H).
  injection H as <-. cbn [c_units].
  assert (X1 : (WF units1 ix1 /\ AllExpanded units1) /\ SIV (b_si st) units1).
  { refine (spec_ok _ _ _ (expand_loop_spec2 (b_si st) (length (b_units st)) (length (b_units st)) 0
                             (b_units st) (b_index st) W0 _ _ _ _ _ _) H1).
    - lia.
    - intros i v Hi _ _. split; [lia|]. apply nth_error_Some. congruence.
    - reflexivity.
    - lia.
    - apply SIV_no_expansion. exact N0.
    - intros i v f p Hi Hf. rewrite (N0 i v Hi) in Hf. discriminate. }
  destruct X1 as [I1 S1].
  destruct (post_ok _ _ _ (expand_loop_info (b_si st) (length (b_units st)) 0 (b_units st) (b_index st)) H1)
    as (ext & Hpre). cbn [fst] in Hpre. rewrite HI in Hpre.
  pose proof (post_ok _ _ _ (apply_extend_groups_run (b_si st) (b_extend st) units1 ix1 I1 S1) H2) as Hrun.
  cbn [fst] in Hrun. rewrite HE in Hrun.
  exists (b_si st), units1, units. split; [exact HT|]. split; [exists ext; exact Hpre|].
  split; [exact S1|]. split; [exact Hrun | reflexivity].
Qed.
