(* Property C17, text mode: CRLF conversion of a whole document at recipe level, for sources that
   may select text mode (`>> [mode]: text`, `>> [define]: text`) anywhere.

   [crlf_text_mode]: [parse_model (crlf s)] and [parse_model s] are the same outcome - same panic
   site if any, same validity, same component tables, sections and steps - with paragraph texts
   EQUAL AFTER [drop_cr] (every U+000D deleted: in text mode the copied source of a component that
   wraps over a line end keeps the line end as written, "\n" or "\r\n"); the metadata maps are equal.

   [Analysis.strip_comments] over the copied slice removes exactly the comment tokens the component
   has in the document: Proofs/EditTextLex.v [strip_run]. *)
From Coq Require Import Lia.
From CL Require Import Base.StrLemmas Model.Lexer Model.PText Model.CommentMask Model.Parser Model.Edits Model.EventBridge
  Model.MetaMap Gen.ExtBits Proofs.LexerProofs Proofs.MaskProofs Proofs.EditProofs Proofs.EditParserProofs Proofs.EditLink
  Proofs.ParserTotal Proofs.ParserFM Proofs.EditSimDefs Proofs.EditSimDoc Proofs.EditSimAll Proofs.EditSimFM Proofs.ParseTotal
  Proofs.EditAnalysis Proofs.EditTextFrame Proofs.EditTextSim Proofs.EditTextAnalysis Proofs.EditTextLex.
From CL Require Model.Events Model.Analysis.
Open Scope N_scope.

(* ------------------------------------------------------------------ the lexer on a run of tokens *)
Definition strip_local (c : list tok) : Prop :=
  Analysis.strip_comments (concat (map tstr c)) = concat (map tstr (filter not_comment c)).
Definition lex_local (D : list tok) : Prop := forall c, sr D c -> strip_local c.

Lemma lex_local_lexed (U : N -> ucls) s off D :
  (forall c, special c = true -> is_word_char U c = false /\ is_lex_ws U c = false) ->
  lex_at U s off = Some D -> lex_local D.
Proof. intros Hsp L c H. exact (strip_run U Hsp s off D c L H). Qed.

(* ------------------------------------------------------------------ the relation on paragraph texts *)
Definition teq_crlf (a b : str) : Prop := drop_cr a = drop_cr b /\ (a = [] <-> b = []).

Lemma teq_crlf_refl a : teq_crlf a a.
Proof. split; [reflexivity | tauto]. Qed.
Lemma teq_crlf_app a b c d : teq_crlf a b -> teq_crlf c d -> teq_crlf (a ++ c) (b ++ d).
Proof.
  intros [H1 H2] [H3 H4]. split; [rewrite !drop_cr_app, H1, H3; reflexivity|].
  split; intro X; apply app_eq_nil in X as [X Y].
  - apply H2 in X. apply H4 in Y. subst. reflexivity.
  - apply H2 in X. apply H4 in Y. subst. reflexivity.
Qed.
Lemma teq_crlf_nil a b : teq_crlf a b -> Events.is_nil a = Events.is_nil b.
Proof.
  intros [_ [H1 H2]]. destruct a, b; try reflexivity; [specialize (H1 eq_refl) | specialize (H2 eq_refl)]; discriminate.
Qed.

Lemma ksim_strip c1 c2 :
  ksim c1 c2 -> teq_crlf (concat (map tstr (filter not_comment c1))) (concat (map tstr (filter not_comment c2))).
Proof.
  induction 1 as [|a b r1 r2 (Hk & Na & Nb & Oa & Ob & Hs) _ [IH1 IH2]]; [apply teq_crlf_refl|].
  cbn [filter]. unfold not_comment at 1 4. rewrite Hk. destruct (is_comment (kind b)) eqn:C; cbn [negb]; [split; assumption|].
  cbn [map concat]. split.
  - rewrite !drop_cr_app, IH1. f_equal. destruct (is_cn (kind a)) eqn:Cn; [|rewrite (Hs eq_refl); reflexivity].
    destruct (kind a) eqn:K; try discriminate Cn.
    + assert (Kb : kind b = KNewline) by congruence.
      destruct (Oa K) as [-> | ->], (Ob Kb) as [-> | ->]; reflexivity.
    + rewrite <- Hk in C. discriminate C.
    + rewrite <- Hk in C. discriminate C.
  - split; intro X; apply app_eq_nil in X as [X _]; contradiction.
Qed.

(* ------------------------------------------------------------------ from the event relation to the analysis *)
Lemma crel_src_ok acfg s1 s2 D1 D2 e1 e2 :
  Analysis.text_raw acfg = false -> lex_local D1 -> lex_local D2 ->
  crel s1 s2 D1 D2 e1 e2 -> src_ok acfg teq_crlf s1 s2 e1 e2.
Proof.
  intros Hr L1 L2 H. unfold crel in H. unfold src_ok.
  destruct (comp_span e1) as [sp1|]; [|exact I]. destruct (comp_span e2) as [sp2|]; [|exact I].
  destruct H as (c1 & c2 & K & S1 & S2 & B1 & B2). eexists _, _. split; [exact B1|]. split; [exact B2|].
  unfold Analysis.comp_src. rewrite Hr. rewrite (L1 c1 S1), (L2 c2 S2). apply ksim_strip. exact K.
Qed.

Lemma evrel_evs_ok acfg s1 s2 D1 D2 e1 e2 :
  Analysis.text_raw acfg = false -> lex_local D1 -> lex_local D2 ->
  evrel s1 s2 D1 D2 e1 e2 -> evs_ok acfg teq_crlf s1 s2 e1 e2.
Proof.
  intros Hr L1 L2 [He Hc]. unfold evs_ok. revert Hc. induction He as [|a b r1 r2 Hab _ IH]; intro Hc; [constructor|].
  inversion Hc as [|? ? ? ? Hc1 Hc2]; subst.
  constructor; [split; [exact Hab | exact (crel_src_ok _ _ _ _ _ _ _ Hr L1 L2 Hc1)] | exact (IH Hc2)].
Qed.

(* what C17 compares in text mode: the outcome of the parse with every paragraph text read through
   [f], and the metadata map *)
Definition same_parse_upto (f : str -> str) (ac : Analysis.acfg) (U : N -> ucls) (cfg : pcfg) ci_key yaml_ok find_iq unit_class
    (x : Analysis.aext) (Y : Type) (ystr : str -> Y) (yeqb : Y -> Y -> bool) (yaml : str -> option (list (Y * Y))) (s1 s2 : str) : Prop :=
  pmap f (parse_model_cfg ac U cfg ci_key yaml_ok find_iq unit_class x s1)
  = pmap f (parse_model_cfg ac U cfg ci_key yaml_ok find_iq unit_class x s2)
  /\ parse_meta_model U cfg Y ystr yeqb yaml s1 = parse_meta_model U cfg Y ystr yeqb yaml s2.

Lemma evrel_parse ac U cfg ci_key yaml_ok find_iq unit_class x Y ystr yeqb yaml s1 s2 D1 D2 :
  p_strict_escape cfg = false -> Analysis.text_raw ac = false ->
  crlf_blind yaml_ok -> crlf_blind yaml -> lex_local D1 -> lex_local D2 ->
  OR (evrel s1 s2 D1 D2) (events U cfg s1) (events U cfg s2) ->
  same_parse_upto drop_cr ac U cfg ci_key yaml_ok find_iq unit_class x Y ystr yeqb yaml s1 s2.
Proof.
  intros Hc Hr By Bm L1 L2 H. unfold same_parse_upto, parse_model_cfg, parse_meta_model.
  destruct (events_ok U cfg s1 Hc) as (e1 & E1 & _). destruct (events_ok U cfg s2 Hc) as (e2 & E2 & _).
  rewrite E1, E2 in *. cbn [obind]. unfold OR in H. split.
  - apply (rrel_pmap teq_crlf drop_cr); [intros a b [T _]; exact T|].
    apply analyse_text; [exact By | apply teq_crlf_refl | apply teq_crlf_app | apply teq_crlf_nil|].
    exact (evrel_evs_ok ac s1 s2 D1 D2 e1 e2 Hr L1 L2 H).
  - rewrite (metadata_blind Y ystr yeqb yaml _ Bm e1 e2); [reflexivity|]. apply Forall2_erel_proj. apply H.
Qed.

(* ------------------------------------------------------------------ CRLF *)
Theorem crlf_text_mode ac (U : N -> ucls) cfg ci_key yaml_ok find_iq unit_class x Y ystr yeqb yaml s :
  (forall c, special c = true -> is_word_char U c = false /\ is_lex_ws U c = false) ->
  (forall c, (c =? 10) || (c =? 13) = true -> is_word_char U c = false /\ is_lex_ws U c = false) ->
  p_strict_escape cfg = false -> Analysis.text_raw ac = false ->
  no_backslash s = true -> no_lone_cr s = true ->
  crlf_blind yaml_ok -> crlf_blind yaml ->
  same_parse_upto drop_cr ac U cfg ci_key yaml_ok find_iq unit_class x Y ystr yeqb yaml s (crlf s).
Proof.
  intros Hsp Heol Hs Hr Hb Hc By Bm.
  destruct (parse_frontmatter cfg s) as [fm|] eqn:F.
  - destruct (parse_frontmatter_crlf_some cfg s fm F) as (fm' & F' & Hy & Hct & _ & _).
    destruct (parse_frontmatter_located cfg s fm F) as [(pre & Es & _) _].
    assert (Hb' : no_backslash (cook_text fm) = true) by (apply (no_backslash_app pre); rewrite <- Es; exact Hb).
    assert (Hc' : no_lone_cr (cook_text fm) = true) by (apply (no_lone_cr_app pre); rewrite <- Es; exact Hc).
    destruct (lex_total U (cook_text fm) (cook_off fm)) as [ts L].
    destruct (lex_total U (cook_text fm') (cook_off fm')) as [ts' L'].
    apply (evrel_parse ac U cfg ci_key yaml_ok find_iq unit_class x Y ystr yeqb yaml s (crlf s) ts ts'); try assumption;
      [exact (lex_local_lexed U _ _ _ Hsp L) | exact (lex_local_lexed U _ _ _ Hsp L')|].
    apply (events_ksim_fm_p U cfg (ingredient_ksim cfg) (cookware_ksim cfg) (timer_ksim cfg) s (crlf s) fm fm' ts ts' F F').
    + rewrite Hy, crlf_idem. reflexivity.
    + exact L.
    + exact L'.
    + rewrite Hct in L'. exact (crlf_ksim_at U Heol _ _ _ _ _ Hb' Hc' L L').
  - pose proof (parse_frontmatter_crlf_none cfg s F) as F'.
    destruct (lex_total U s 0) as [ts L]. destruct (lex_total U (crlf s) 0) as [ts' L'].
    apply (evrel_parse ac U cfg ci_key yaml_ok find_iq unit_class x Y ystr yeqb yaml s (crlf s) ts ts'); try assumption;
      [exact (lex_local_lexed U _ _ _ Hsp L) | exact (lex_local_lexed U _ _ _ Hsp L')|].
    apply (events_ksim_p U cfg (ingredient_ksim cfg) (cookware_ksim cfg) (timer_ksim cfg) s (crlf s) ts ts' F F' L L').
    exact (crlf_ksim_at U Heol _ _ _ _ _ Hb Hc L L').
Qed.
