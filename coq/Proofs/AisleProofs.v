(* Proofs about Model/Aisle.v *)
From CL Require Import Base.StrLemmas Model.Aisle.

Definition cfgF : cfg := {| strict_end := false; uni_line := true |}.   (* current code *)
Definition cfg0 : cfg := {| strict_end := true; uni_line := false |}.   (* before the repairs *)

(* ---------- prefixes and located pieces ------------------------------ *)

Lemma strip_comment_prefix l : exists t, l = strip_comment l ++ t.
Proof.
  induction l as [|a r IH]; [exists []; reflexivity|].
  cbn [strip_comment]. destruct r as [|b r'].
  - exists []. reflexivity.
  - destruct ((a =? 47) && (b =? 47)).
    + exists (a :: b :: r'). reflexivity.
    + destruct IH as [t Ht]. exists t. cbn [app]. f_equal. exact Ht.
Qed.

Lemma trim_start_spec ws l o l' o' :
  trim_start ws l o = (l', o') -> exists pre, l = pre ++ l' /\ o' = o + blen pre.
Proof.
  revert o. induction l as [|c r IH]; intros o H; cbn [trim_start] in H.
  - inversion H; subst. exists []. cbn. split; [reflexivity|lia].
  - destruct (ws c).
    + apply IH in H as (pre & -> & ->). exists (c :: pre). cbn [app blen]. split; [reflexivity|lia].
    + inversion H; subst. exists []. cbn. split; [reflexivity|lia].
Qed.

Lemma trim_end_prefix ws l : exists t, l = trim_end ws l ++ t.
Proof.
  induction l as [|c r IH]; [exists []; reflexivity|].
  cbn [trim_end]. destruct IH as [t Ht]. destruct (trim_end ws r) as [|x r'] eqn:E.
  - destruct (ws c).
    + exists (c :: r). reflexivity.
    + exists r. reflexivity.
  - exists t. cbn [app] in *. f_equal. exact Ht.
Qed.

Lemma sub_trim_at s l o l' o' : sub s l o -> trim_at l o = (l', o') -> sub s l' o'.
Proof.
  intros Hs H. unfold trim_at in H. destruct (trim_start uni_ws l o) as [l1 o1] eqn:E.
  apply trim_start_spec in E as (pre & -> & ->).
  destruct l1 as [|c l1'].
  - inversion H; subst. eapply sub_prefix; [exact Hs|]. instantiate (1 := pre ++ []). reflexivity.
  - inversion H; subst. destruct (trim_end_prefix uni_ws (c :: l1')) as [t Ht].
    eapply sub_inner; [exact Hs|]. rewrite Ht at 1. reflexivity.
Qed.

Lemma sub_trim_ascii_at s l o l' o' : sub s l o -> trim_ascii_at l o = (l', o') -> sub s l' o'.
Proof.
  intros Hs H. unfold trim_ascii_at in H. destruct (trim_start ascii_ws l o) as [l1 o1] eqn:E.
  apply trim_start_spec in E as (pre & -> & ->). inversion H; subst.
  destruct (trim_end_prefix ascii_ws l1) as [t Ht].
  eapply sub_inner; [exact Hs|]. rewrite Ht at 1. reflexivity.
Qed.

Lemma sub_trim_line c s l o l' o' : sub s l o -> trim_line c l o = (l', o') -> sub s l' o'.
Proof.
  unfold trim_line. destruct (uni_line c); [apply sub_trim_at | apply sub_trim_ascii_at].
Qed.

Lemma split_on_nonempty d l : split_on d l <> [].
Proof.
  destruct l as [|c r]; cbn [split_on]; [discriminate|].
  destruct (c =? d); [discriminate|]. destruct (split_on d r); discriminate.
Qed.

Lemma split_on_head_prefix d l p ps : split_on d l = p :: ps -> exists b, l = p ++ b.
Proof.
  revert p ps. induction l as [|c r IH]; intros p ps H; cbn [split_on] in H.
  - inversion H; subst. exists []. reflexivity.
  - destruct (c =? d).
    + inversion H; subst. exists (c :: r). reflexivity.
    + destruct (split_on d r) as [|l0 ls] eqn:E.
      * injection H as <- <-. exists r. reflexivity.
      * injection H as <- <-. destruct (IH l0 ls eq_refl) as [b Hb]. exists b. cbn [app]. f_equal. exact Hb.
Qed.

Lemma split_on_located d l o p po :
  utf8_len d = 1 ->
  In (p, po) (with_offsets (split_on d l) o) ->
  exists a b, l = a ++ p ++ b /\ po = o + blen a.
Proof.
  intros Hd. revert o. induction l as [|c r IH]; intros o H; cbn [split_on] in H.
  - cbn in H. destruct H as [H|[]]. inversion H; subst. exists [], []. cbn. split; [reflexivity|lia].
  - destruct (c =? d) eqn:Ec.
    + apply N.eqb_eq in Ec. subst c. cbn [with_offsets blen] in H. destruct H as [H|H].
      * inversion H; subst. exists [], (d :: r). cbn. split; [reflexivity|lia].
      * replace (o + 0 + 1) with (o + 1) in H by lia.
        apply IH in H as (a & b & -> & ->). exists (d :: a), b. cbn [app blen]. split; [reflexivity|lia].
    + destruct (split_on d r) as [|l0 ls] eqn:E; [exfalso; eapply split_on_nonempty; exact E|].
      cbn [with_offsets] in H. destruct H as [H|H].
      * injection H as <- <-. destruct (split_on_head_prefix d r l0 ls E) as [b Hb].
        exists [], b. cbn [app blen]. split; [f_equal; exact Hb|lia].
      * specialize (IH (o + utf8_len c)). cbn [with_offsets] in IH.
        assert (In (p, po) (with_offsets ls (o + utf8_len c + blen l0 + 1))) as H'.
        { cbn [blen] in H. replace (o + utf8_len c + blen l0 + 1) with (o + (utf8_len c + blen l0) + 1) by lia. exact H. }
        destruct (IH (or_intror H')) as (a & b & -> & ->).
        exists (c :: a), b. cbn [app blen]. split; [reflexivity|lia].
Qed.

Lemma removelast_last_eq (l : str) d : l <> [] -> l = removelast l ++ [last l d].
Proof. apply app_removelast_last. Qed.

Lemma cat_line_shape line :
  is_cat_line line = true -> line = [91] ++ removelast (tl line) ++ [93].
Proof.
  unfold is_cat_line. destruct line as [|c r]; [discriminate|].
  intro H. apply andb_true_iff in H as [H1 H2]. apply N.eqb_eq in H1, H2. subst c.
  destruct r as [|x r'].
  - cbn in H2. discriminate.
  - cbn [tl app]. f_equal.
    assert (last (x :: r') 0 = 93) as HL by exact H2.
    rewrite <- HL. apply app_removelast_last. discriminate.
Qed.

(* ---------- the parser invariant -------------------------------------- *)

Definition err_spans (e : aerr) : list (N * N) :=
  match e with
  | EParse a b => [(a, b)]
  | EDupCat _ a b c d => [(a, b); (c, d)]
  | EDupIng _ a b c d => [(a, b); (c, d)]
  end.

Definition cat_names (k : cat) : list str := concat (cings k).
Definition conf_names (c : conf) : list str := concat (map cat_names c).
Definition conf_nodup (c : conf) : Prop := NoDup (map cname c) /\ NoDup (conf_names c).

Definition located (s : str) (m : list (str * N)) : Prop :=
  Forall (fun xo => sub s (fst xo) (snd xo)) m.

Definition so_far (st : pst) : conf :=
  cats st ++ match cur st with Some k => [k] | None => [] end.

Lemma finish_so_far st : finish st = so_far st.
Proof. unfold finish, so_far. destruct (cur st); [reflexivity|]. rewrite app_nil_r. reflexivity. Qed.

Record inv (s : str) (st : pst) : Prop := {
  inv_uc : located s (ucats st);
  inv_un : located s (unames st);
  inv_uc_keys : map fst (ucats st) = map cname (so_far st);
  inv_un_keys : map fst (unames st) = conf_names (so_far st);
  inv_uc_nodup : NoDup (map fst (ucats st));
  inv_un_nodup : NoDup (map fst (unames st))
}.

Lemma inv0 s : inv s pst0.
Proof. split; cbn; try constructor; reflexivity. Qed.

Lemma lookup_some k m v : lookup k m = Some v -> In (k, v) m.
Proof.
  induction m as [|[k' v'] r IH]; cbn [lookup]; [discriminate|].
  destruct (str_eqb k k') eqn:E.
  - apply str_eqb_eq in E. subst. intro H. inversion H; subst. left. reflexivity.
  - intro H. right. apply IH. exact H.
Qed.

Lemma lookup_none k m : lookup k m = None -> ~ In k (map fst m).
Proof.
  induction m as [|[k' v'] r IH]; cbn [lookup map fst]; [intros _ []|].
  destruct (str_eqb k k') eqn:E; [discriminate|].
  intros H [H1|H1].
  - apply str_eqb_neq in E. congruence.
  - exact (IH H H1).
Qed.

Lemma located_in s m x o : located s m -> In (x, o) m -> sub s x o.
Proof. intros H Hin. unfold located in H. rewrite Forall_forall in H. exact (H _ Hin). Qed.

Lemma located_snoc s m x o : located s m -> sub s x o -> located s (m ++ [(x, o)]).
Proof. intros H Hs. apply Forall_app. split; [exact H|]. constructor; [exact Hs|constructor]. Qed.

Lemma NoDup_snoc {A} (l : list A) x : NoDup l -> ~ In x l -> NoDup (l ++ [x]).
Proof.
  intros H Hn. induction H as [|y l Hy Hl IH]; cbn [app].
  - constructor; [intros []|constructor].
  - constructor.
    + intro Hin. apply in_app_or in Hin as [Hin|[Hin|[]]]; [contradiction|]. subst. apply Hn. left. reflexivity.
    + apply IH. intro Hx. apply Hn. right. exact Hx.
Qed.

Lemma calc_span_F ilen o len : o <= ilen -> calc_span cfgF ilen o len = Done (o, o + len).
Proof. intro H. unfold calc_span, cfgF; cbn [strict_end]. apply N.leb_le in H. rewrite H. reflexivity. Qed.

Lemma sub_le s x o : sub s x o -> o <= blen s.
Proof. intro H. apply sub_bound in H. lia. Qed.

Ltac spans_tac :=
  repeat (apply Forall_cons; [apply sub_span_ok; assumption|]); apply Forall_nil.

Lemma names_loop_ok s ps used :
  (forall p po, In (p, po) ps -> sub s p po) -> located s used -> NoDup (map fst used) ->
  exists r, names_loop cfgF (blen s) ps used = Done r /\
    match r with
    | inl e => Forall (span_ok s) (err_spans e)
    | inr used' =>
        located s used' /\ NoDup (map fst used') /\
        map fst used' = map fst used ++ map (fun po => fst (trim_at (fst po) (snd po))) ps
    end.
Proof.
  revert used. induction ps as [|[p off] r IH]; intros used Hps Hl Hnd; cbn [names_loop].
  - eexists. split; [reflexivity|]. cbn [map]. rewrite app_nil_r. auto.
  - destruct (trim_at p off) as [n o] eqn:Et.
    assert (sub s n o) as Hn by (eapply sub_trim_at; [apply Hps; left; reflexivity | exact Et]).
    destruct (lookup n used) as [o1|] eqn:El.
    + apply lookup_some in El. pose proof (located_in _ _ _ _ Hl El) as H1.
      rewrite (calc_span_F _ _ _ (sub_le _ _ _ H1)). cbn [obind].
      rewrite (calc_span_F _ _ _ (sub_le _ _ _ Hn)). cbn [obind fst snd].
      eexists. split; [reflexivity|]. cbn [err_spans].
      spans_tac.
    + apply lookup_none in El.
      destruct (IH (used ++ [(n, o)])) as (res & Hres & Hspec).
      * intros p' po' Hin. apply Hps. right. exact Hin.
      * apply located_snoc; assumption.
      * rewrite map_app. cbn [map fst]. apply NoDup_snoc; assumption.
      * exists res. split; [exact Hres|]. destruct res as [e|used']; [exact Hspec|].
        destruct Hspec as (H1 & H2 & H3). repeat split; try assumption.
        rewrite H3, map_app. cbn [map fst snd]. rewrite Et. cbn [fst]. rewrite <- app_assoc. reflexivity.
Qed.

Lemma conf_names_snoc c k : conf_names (c ++ [k]) = conf_names c ++ cat_names k.
Proof. unfold conf_names. rewrite map_app, concat_app. cbn. rewrite app_nil_r. reflexivity. Qed.

Lemma blen_1 c : c <? 128 = true -> blen [c] = 1.
Proof. intro H. cbn [blen]. unfold utf8_len. rewrite H. reflexivity. Qed.

Lemma process_line_ok s raw off st :
  sub s raw off -> inv s st ->
  exists r, process_line cfgF (blen s) raw off st = Done r /\
    match r with
    | inl e => Forall (span_ok s) (err_spans e)
    | inr st' => inv s st'
    end.
Proof.
  intros Hraw Hinv. unfold process_line.
  destruct (trim_line cfgF (strip_comment raw) off) as [line o] eqn:Et.
  assert (sub s line o) as Hline.
  { eapply sub_trim_line; [|exact Et]. destruct (strip_comment_prefix raw) as [t Ht].
    eapply sub_prefix; [exact Hraw | exact Ht]. }
  destruct (is_cat_line line) eqn:Ecat.
  - apply cat_line_shape in Ecat. set (name := removelast (tl line)) in *.
    assert (sub s name (o + 1)) as Hname.
    { replace 1 with (blen [91]) by reflexivity. eapply sub_inner; [exact Hline | exact Ecat]. }
    destruct (mem 124 name).
    + rewrite (calc_span_F _ _ _ (sub_le _ _ _ Hname)). cbn [obind fst snd].
      eexists. split; [reflexivity|]. cbn [err_spans]. spans_tac.
    + destruct (lookup name (ucats st)) as [o1|] eqn:El.
      * apply lookup_some in El. pose proof (located_in _ _ _ _ (inv_uc _ _ Hinv) El) as H1.
        rewrite (calc_span_F _ _ _ (sub_le _ _ _ H1)). cbn [obind].
        rewrite (calc_span_F _ _ _ (sub_le _ _ _ Hname)). cbn [obind fst snd].
        eexists. split; [reflexivity|]. cbn [err_spans].
        spans_tac.
      * apply lookup_none in El. eexists. split; [reflexivity|].
        destruct Hinv as [I1 I2 I3 I4 I5 I6].
        unfold so_far in I3, I4.
        split; unfold so_far; cbn [cats cur ucats unames].
        -- apply located_snoc; assumption.
        -- exact I2.
        -- rewrite map_app, I3. destruct (cur st); rewrite ?app_nil_r, ?map_app; reflexivity.
        -- rewrite conf_names_snoc, I4. unfold cat_names. cbn [cings concat].
           destruct (cur st); rewrite ?app_nil_r; reflexivity.
        -- rewrite map_app. cbn [map fst]. apply NoDup_snoc; assumption.
        -- exact I6.
  - destruct line as [|c0 line'] eqn:Eline.
    + eexists. split; [reflexivity|]. exact Hinv.
    + rewrite <- Eline in *. clear Eline.
      set (ps := with_offsets (split_on 124 line) o).
      destruct (names_loop_ok s ps (unames st)) as (res & Hres & Hspec).
      * intros p po Hin. apply split_on_located in Hin as (a & b & E & ->); [|reflexivity].
        eapply sub_inner; [exact Hline | exact E].
      * exact (inv_un _ _ Hinv).
      * exact (inv_un_nodup _ _ Hinv).
      * rewrite Hres. cbn [obind]. destruct res as [e|used'].
        -- eexists. split; [reflexivity|]. exact Hspec.
        -- destruct Hspec as (H1 & H2 & H3). destruct (cur st) as [k|] eqn:Ecur.
           ++ eexists. split; [reflexivity|].
              destruct Hinv as [I1 I2 I3 I4 I5 I6]. unfold so_far in *. rewrite Ecur in *.
              split; unfold so_far; cbn [cats cur ucats unames cname cings].
              ** exact I1.
              ** exact H1.
              ** rewrite I3, !map_app. reflexivity.
              ** rewrite H3, I4, !conf_names_snoc. unfold cat_names. cbn [cings].
                 rewrite concat_app. cbn [concat]. rewrite app_nil_r, app_assoc. reflexivity.
              ** exact I5.
              ** exact H2.
           ++ rewrite (calc_span_F _ _ _ (sub_le _ _ _ Hline)). cbn [obind fst snd].
              eexists. split; [reflexivity|]. cbn [err_spans]. spans_tac.
Qed.

Lemma strip_cr_prefix l : exists t, l = strip_cr l ++ t.
Proof.
  unfold strip_cr. destruct l as [|c r]; [exists []; reflexivity|].
  destruct (last (c :: r) 0 =? 13).
  - exists [last (c :: r) 0]. apply app_removelast_last. discriminate.
  - exists []. rewrite app_nil_r. reflexivity.
Qed.

Lemma inv_conf_nodup s st : inv s st -> conf_nodup (finish st).
Proof.
  intros [I1 I2 I3 I4 I5 I6]. rewrite finish_so_far. unfold conf_nodup.
  rewrite <- I3, <- I4. split; assumption.
Qed.

Lemma lines_loop_ok s pieces off st :
  (forall p po, In (p, po) (with_offsets pieces off) -> sub s p po) -> inv s st ->
  exists r, lines_loop cfgF (blen s) pieces off st = Done r /\
    match r with
    | RErr e => Forall (span_ok s) (err_spans e)
    | ROk c => conf_nodup c
    end.
Proof.
  revert off st. induction pieces as [|p rest IH]; intros off st Hloc Hinv; cbn [lines_loop].
  - eexists. split; [reflexivity|]. eapply inv_conf_nodup. exact Hinv.
  - assert (sub s p off) as Hp by (apply Hloc; left; reflexivity).
    destruct rest as [|p2 rest'].
    + destruct p as [|c p'].
      * eexists. split; [reflexivity|]. eapply inv_conf_nodup. exact Hinv.
      * destruct (process_line_ok s (c :: p') off st Hp Hinv) as (r & Hr & Hspec).
        rewrite Hr. cbn [obind]. destruct r as [e|st'].
        -- eexists. split; [reflexivity|]. exact Hspec.
        -- eexists. split; [reflexivity|]. eapply inv_conf_nodup. exact Hspec.
    + assert (sub s (strip_cr p) off) as Hp'.
      { destruct (strip_cr_prefix p) as [t Ht]. eapply sub_prefix; [exact Hp | exact Ht]. }
      destruct (process_line_ok s (strip_cr p) off st Hp' Hinv) as (r & Hr & Hspec).
      rewrite Hr. cbn [obind]. destruct r as [e|st'].
      * eexists. split; [reflexivity|]. exact Hspec.
      * apply IH; [|exact Hspec]. intros q qo Hin. apply Hloc. right. exact Hin.
Qed.

Lemma parse_ok s :
  exists r, parse cfgF s = Done r /\
    match r with
    | RErr e => Forall (span_ok s) (err_spans e)
    | ROk c => conf_nodup c
    end.
Proof.
  unfold parse. apply lines_loop_ok; [|apply inv0].
  intros p po Hin. apply split_on_located in Hin as (a & b & E & ->); [|reflexivity].
  exists a, b. split; [exact E | lia].
Qed.

(* ---------- the defects of the code before the repairs, as theorems ---- *)

(* "[a]\n|" : the empty last synonym sits one past the last byte *)
Lemma total_refuted_before_fix : exists s, parse cfg0 s = Panic site_calc_span.
Proof. exists [91; 97; 93; 10; 124]. vm_compute. reflexivity. Qed.

(* "[x]\n\u{A0}[a]\n": the line is trimmed with trim_ascii, the name with trim *)
Lemma roundtrip_refuted_before_fix :
  exists s c c', parse cfg0 s = Done (ROk c) /\ parse cfg0 (write c) = Done (ROk c') /\ c <> c'.
Proof.
  exists [91; 120; 93; 10; 160; 91; 97; 93; 10].
  eexists. eexists. split; [vm_compute; reflexivity|]. split; [vm_compute; reflexivity|].
  discriminate.
Qed.
