(* Property C17, line level: a block comment inserted directly after a word, or blanks and
   comments appended at the end of a block, do not change what a block produces, for
     - the metadata line          (metadata_entry_blind, metadata_block_blind),
     - the section line           (section_blind, section_block_blind),
     - a step without components  (plain_step_block_blind),
     - a text block "> ..."       (text_block_blind; any number of lines).

   Unlike the lock-step relation [ksim] of EditSimDefs.v the edit relation [esim] here is
   one-sided: the right list (the edited source) may contain additional comment tokens,
   directly after a [KWord] token, and an additional trailing run of blanks and comments.
   The parser functions are computed on an explicit start state ([st0]) through inversion
   lemmas for the primitives that speak about [b_rest] and [b_evs] only ("closed forms":
   metadata_entry_char, section_p_char, step_loop_plain, tbl_round).

   Texts are related by [trelw] (equal after str::trim, equally blank); items by [erel], and
   where a text item is observed through its untrimmed string (EvText) by [erelw]. *)
From CL Require Import Base.StrLemmas Model.Lexer Model.PText Model.CommentMask Model.Parser Model.Edits
  Proofs.EditParserProofs Proofs.EditLink Proofs.EditSimDefs.

(* ---------------------------------------------------------------- the edit relation *)
Definition blank_tok (t : tok) : Prop := kind t = KWs /\ forallb uni_ws (tstr t) = true.
Definition tail_tok (t : tok) : Prop := is_comment (kind t) = true \/ blank_tok t.

(* [esimb tl p r1 r2]: r1 = original, r2 = edited; [p] is the kind of the previous matched token
   ([KEof] or the kind of the block's marker at the start); [tl] says whether a trailing run of
   blanks/comments may have been appended. *)
Inductive esimb (tl : bool) : tkind -> list tok -> list tok -> Prop :=
| esim_nil p : esimb tl p [] []
| esim_same p a b r1 r2 :
    kind a = kind b -> tstr a = tstr b -> is_comment (kind a) = false ->
    esimb tl (kind a) r1 r2 -> esimb tl p (a :: r1) (b :: r2)
| esim_newline p a b r1 r2 :
    kind a = KNewline -> kind b = KNewline -> esimb tl KNewline r1 r2 -> esimb tl p (a :: r1) (b :: r2)
| esim_comment p a b r1 r2 :
    kind a = kind b -> is_comment (kind a) = true -> esimb tl p r1 r2 -> esimb tl p (a :: r1) (b :: r2)
| esim_ins r1 r2 b :
    is_comment (kind b) = true -> esimb tl KWord r1 r2 -> esimb tl KWord r1 (b :: r2)
| esim_tail p suffix :
    tl = true -> Forall tail_tok suffix -> esimb tl p [] suffix.

Definition esim := esimb true.     (* the relation of the task *)
Definition esim0 := esimb false.   (* no appended tail *)

Definition ne_toks (ts : list tok) : Prop := Forall (fun t => tstr t <> []) ts.
Definition nl_toks (ts : list tok) : Prop := Forall newline_ok ts.

Lemma esimb_weaken tl p r1 r2 : esimb false p r1 r2 -> esimb tl p r1 r2.
Proof.
  induction 1; [apply esim_nil | apply esim_same | apply esim_newline | apply esim_comment | apply esim_ins
               | discriminate]; assumption.
Qed.

Lemma esimb_refl tl p ts : esimb tl p ts ts.
Proof.
  revert p. induction ts as [|t r IH]; intro p; [apply esim_nil|].
  destruct (is_comment (kind t)) eqn:E.
  - apply esim_comment; [reflexivity | exact E | apply IH].
  - apply esim_same; [reflexivity | reflexivity | exact E | apply IH].
Qed.

(* the edited list is [tsim] to the original *)
Lemma tail_tok_render t : tail_tok t -> forallb uni_ws (render_tok t) = true.
Proof.
  intros [H | [Hk Hb]].
  - rewrite (render_tok_comment _ H). reflexivity.
  - unfold render_tok. rewrite Hk. exact Hb.
Qed.

Lemma tail_render l : Forall tail_tok l -> forallb uni_ws (render l) = true.
Proof.
  induction 1 as [|t r Ht _ IH]; [reflexivity|]. rewrite render_cons, forallb_app, (tail_tok_render _ Ht), IH. reflexivity.
Qed.

Theorem esim_render tl p r1 r2 : esimb tl p r1 r2 ->
  exists w, render r2 = render r1 ++ w /\ forallb uni_ws w = true /\ (tl = false -> w = []).
Proof.
  induction 1 as [p | p a b r1 r2 Hk Hs Hc _ (w & E & B & T) | p a b r1 r2 Ha Hb _ (w & E & B & T)
                 | p a b r1 r2 Hk Hc _ (w & E & B & T) | r1 r2 b Hc _ (w & E & B & T) | p suffix Ht Hf].
  - exists []. repeat split; reflexivity.
  - exists w. rewrite !render_cons, E, <- app_assoc. unfold render_tok. rewrite Hk, Hs. repeat split; assumption.
  - exists w. rewrite !render_cons, E, <- app_assoc. unfold render_tok. rewrite Ha, Hb. repeat split; assumption.
  - exists w. rewrite !render_cons, E, <- app_assoc.
    rewrite (render_tok_comment a Hc), (render_tok_comment b) by (rewrite <- Hk; exact Hc). repeat split; assumption.
  - exists w. rewrite render_cons, E, (render_tok_comment b Hc). repeat split; assumption.
  - exists (render suffix). split; [reflexivity|]. split; [apply tail_render; exact Hf | intro; congruence].
Qed.

(* ---------------------------------------------------------------- texts up to trailing blanks *)
Definition trelw (t1 t2 : text) : Prop :=
  text_outer_trimmed t1 = text_outer_trimmed t2 /\ is_text_empty t1 = is_text_empty t2.

Lemma drop_while_blank w : forallb uni_ws w = true -> drop_while uni_ws w = [].
Proof.
  induction w as [|c r IH]; intro H; [reflexivity|]. cbn [forallb] in H. apply andb_true_iff in H as [H1 H2].
  cbn [drop_while]. rewrite H1. exact (IH H2).
Qed.

Lemma trim_app_blank s w : forallb uni_ws w = true -> trim (s ++ w) = trim s.
Proof.
  intro H. unfold trim. induction s as [|c r IH].
  - cbn [app]. rewrite (drop_while_blank _ H). reflexivity.
  - cbn [app drop_while]. destruct (uni_ws c); [exact IH|].
    exact (trim_end_ws_app_blank (c :: r) w H).
Qed.

Lemma trelw_refl t : trelw t t. Proof. split; reflexivity. Qed.
Lemma trelw_tx t1 t2 : trelw t1 t2 -> tx t1 = tx t2.
Proof. intros [H _]. unfold tx, text_trimmed. rewrite H. reflexivity. Qed.
Lemma trelw_trimmed t1 t2 : trelw t1 t2 -> text_trimmed t1 = text_trimmed t2.
Proof. apply trelw_tx. Qed.
Lemma trelw_empty t1 t2 : trelw t1 t2 -> is_text_empty t1 = is_text_empty t2.
Proof. intros [_ H]. exact H. Qed.

(* the texts built from esim-related token lists *)
Theorem esim_text cfg tl p r1 r2 o1 o2 t1 t2 :
  esimb tl p r1 r2 -> ne_toks r1 -> ne_toks r2 -> nl_toks r1 -> nl_toks r2 ->
  text_of cfg o1 r1 = Done t1 -> text_of cfg o2 r2 = Done t2 ->
  trelw t1 t2 /\ (tl = false -> text_str t1 = text_str t2).
Proof.
  intros H N1 N2 L1 L2 E1 E2. destruct (esim_render _ _ _ _ H) as (w & R & B & T).
  pose proof (text_of_render _ _ _ _ N1 E1) as S1. pose proof (text_of_render _ _ _ _ N2 E2) as S2.
  split; [split|].
  - unfold text_outer_trimmed. rewrite S1, S2, R. symmetry. apply trim_app_blank. exact B.
  - rewrite (text_of_empty_render _ _ _ _ L1 N1 E1), (text_of_empty_render _ _ _ _ L2 N2 E2), R, str_blank_app.
    change (str_blank w) with (forallb uni_ws w). rewrite B, andb_true_r. reflexivity.
  - intro F. rewrite S1, S2, R, (T F), app_nil_r. reflexivity.
Qed.

(* ---------------------------------------------------------------- take / drop while a kind test holds *)
Fixpoint twk (g : tkind -> bool) (l : list tok) : list tok :=
  match l with [] => [] | t :: r => if g (kind t) then t :: twk g r else [] end.
Fixpoint dwk (g : tkind -> bool) (l : list tok) : list tok :=
  match l with [] => [] | t :: r => if g (kind t) then dwk g r else l end.

Lemma twk_dwk g l : twk g l ++ dwk g l = l.
Proof. induction l as [|t r IH]; [reflexivity|]. cbn [twk dwk]. destruct (g (kind t)); [cbn [app]; rewrite IH|]; reflexivity. Qed.

Lemma twk_all g l : Forall (fun t => g (kind t) = true) l -> twk g l = l /\ dwk g l = [].
Proof. induction 1 as [|t r Ht _ [IH1 IH2]]; [split; reflexivity|]. cbn [twk dwk]. rewrite Ht, IH1, IH2. split; reflexivity. Qed.

Lemma Forall_twk {P : tok -> Prop} g l : Forall P l -> Forall P (twk g l).
Proof. induction 1 as [|t r Ht _ IH]; [constructor|]. cbn [twk]. destruct (g (kind t)); constructor; assumption. Qed.
Lemma Forall_dwk {P : tok -> Prop} g l : Forall P l -> Forall P (dwk g l).
Proof. induction 1 as [|t r Ht Hr IH]; [constructor|]. cbn [dwk]. destruct (g (kind t)); [exact IH | constructor; assumption]. Qed.

Lemma dwk_head g l t q : dwk g l = t :: q -> g (kind t) = false.
Proof.
  induction l as [|x r IH]; [discriminate|]. cbn [dwk]. destruct (g (kind x)) eqn:E; [exact IH|].
  intro H. inversion H; subst. exact E.
Qed.

Lemma twk_ext g g' l : (forall k, g k = g' k) -> twk g l = twk g' l /\ dwk g l = dwk g' l.
Proof. intro H. induction l as [|t r [IH1 IH2]]; [split; reflexivity|]. cbn [twk dwk]. rewrite <- H, IH1, IH2. split; reflexivity. Qed.

(* [position f] in terms of twk/dwk of the complement *)
Definition negk (f : tkind -> bool) (k : tkind) : bool := negb (f k).

Lemma position_twk f l :
  match position f l with
  | None => dwk (negk f) l = [] /\ twk (negk f) l = l
  | Some n => firstn n l = twk (negk f) l /\ skipn n l = dwk (negk f) l /\ dwk (negk f) l <> []
  end.
Proof.
  induction l as [|t r IH]; [split; reflexivity|]. cbn [position twk dwk].
  assert (Hn : negk f (kind t) = negb (f (kind t))) by reflexivity. rewrite !Hn. clear Hn.
  destruct (f (kind t)); cbn [negb].
  - repeat split. discriminate.
  - destruct (position f r) as [n|]; cbn [option_map].
    + destruct IH as (A & B & C). cbn [firstn skipn]. rewrite A. repeat split; assumption.
    + destruct IH as (A & B). rewrite B. split; [exact A | reflexivity].
Qed.

(* the number of tokens consume_while moves *)
Definition cwn (g : tkind -> bool) (l : list tok) : nat :=
  match position (fun k => negb (g k)) l with Some n => n | None => length l end.

Lemma cwn_twk g l : firstn (cwn g l) l = twk g l /\ skipn (cwn g l) l = dwk g l.
Proof.
  unfold cwn. induction l as [|t r IH]; [split; reflexivity|]. cbn [position twk dwk].
  destruct (g (kind t)); cbn [negb]; [|split; reflexivity].
  destruct (position (fun k => negb (g k)) r) as [n|]; cbn [option_map length firstn skipn];
    destruct IH as [A B]; rewrite A; split; [reflexivity | exact B | reflexivity | exact B].
Qed.

(* ---------------------------------------------------------------- splitting at the first token of a kind *)
(* [g]: the test of the tokens that are passed over *)
Definition passes_ws_comment (g : tkind -> bool) : Prop :=
  g KLineComment = true /\ g KBlockComment = true /\ g KWs = true.

Lemma passes_comment g k : passes_ws_comment g -> is_comment k = true -> g k = true.
Proof. intros (A & B & _) H. destruct k; try discriminate H; assumption. Qed.

Lemma passes_tail g l : passes_ws_comment g -> Forall tail_tok l -> Forall (fun t => g (kind t) = true) l.
Proof.
  intros Hg. induction 1 as [|t r Ht _ IH]; constructor; [|exact IH].
  destruct Ht as [H | [H _]]; [exact (passes_comment g _ Hg H) | rewrite H; apply Hg].
Qed.

(* either no token stops the scan on either side, or the scans stop at corresponding tokens *)
Theorem esim_split g tl p r1 r2 : passes_ws_comment g -> esimb tl p r1 r2 ->
  (dwk g r1 = [] /\ dwk g r2 = [] /\ esimb tl p (twk g r1) (twk g r2))
  \/ (exists a b q1 q2, dwk g r1 = a :: q1 /\ dwk g r2 = b :: q2 /\ kind a = kind b
        /\ (kind a <> KNewline -> tstr a = tstr b)
        /\ g (kind a) = false /\ esimb false p (twk g r1) (twk g r2) /\ esimb tl (kind a) q1 q2).
Proof.
  intros Hg H.
  induction H as [p | p a b r1 r2 Hk Hs Hc H IH | p a b r1 r2 Ha Hb H IH
                 | p a b r1 r2 Hk Hc H IH | r1 r2 b Hc H IH | p suffix Ht Hf].
  - left. repeat split. apply esim_nil.
  - cbn [twk dwk]. rewrite <- Hk. destruct (g (kind a)) eqn:E.
    + destruct IH as [(A & B & C) | (a' & b' & q1 & q2 & A & B & K & S & G & C & D)].
      * left. repeat split; try assumption. apply esim_same; assumption.
      * right. exists a', b', q1, q2. repeat split; try assumption. apply esim_same; assumption.
    + right. exists a, b, r1, r2.
      split; [reflexivity|]. split; [reflexivity|]. split; [exact Hk|]. split; [intros _; exact Hs|].
      split; [exact E|]. split; [apply esim_nil | exact H].
  - cbn [twk dwk]. rewrite Ha, Hb. destruct (g KNewline) eqn:E.
    + destruct IH as [(A & B & C) | (a' & b' & q1 & q2 & A & B & K & S & G & C & D)].
      * left. repeat split; try assumption. apply esim_newline; assumption.
      * right. exists a', b', q1, q2. repeat split; try assumption. apply esim_newline; assumption.
    + right. exists a, b, r1, r2. rewrite Ha.
      split; [reflexivity|]. split; [reflexivity|]. split; [congruence|]. split; [intro X; contradiction X; reflexivity|].
      split; [exact E|]. split; [apply esim_nil | exact H].
  - assert (Ga : g (kind a) = true) by (apply passes_comment; assumption).
    cbn [twk dwk]. rewrite <- Hk, Ga.
    destruct IH as [(A & B & C) | (a' & b' & q1 & q2 & A & B & K & S & G & C & D)].
    + left. repeat split; try assumption. apply esim_comment; assumption.
    + right. exists a', b', q1, q2. repeat split; try assumption. apply esim_comment; assumption.
  - assert (Gb : g (kind b) = true) by (apply passes_comment; assumption).
    cbn [twk dwk]. rewrite Gb.
    destruct IH as [(A & B & C) | (a' & b' & q1 & q2 & A & B & K & S & G & C & D)].
    + left. repeat split; try assumption. apply esim_ins; assumption.
    + right. exists a', b', q1, q2. repeat split; try assumption. apply esim_ins; assumption.
  - left. destruct (twk_all g suffix (passes_tail g _ Hg Hf)) as [A B]. rewrite A, B.
    repeat split. apply esim_tail; assumption.
Qed.

(* the same in terms of [position] *)
Definition stops_only (f : tkind -> bool) : Prop :=
  f KLineComment = false /\ f KBlockComment = false /\ f KWs = false /\ f KNewline = false.

Lemma stops_passes f : stops_only f -> passes_ws_comment (negk f).
Proof. intros (A & B & C & D). unfold passes_ws_comment, negk. rewrite A, B, C. repeat split. Qed.

Theorem esim_position f tl p r1 r2 : stops_only f -> esimb tl p r1 r2 ->
  match position f r1, position f r2 with
  | None, None => True
  | Some n1, Some n2 =>
      esimb false p (firstn n1 r1) (firstn n2 r2)
      /\ exists a b q1 q2, skipn n1 r1 = a :: q1 /\ skipn n2 r2 = b :: q2 /\ kind a = kind b /\ tstr a = tstr b
           /\ f (kind a) = true /\ esimb tl (kind a) q1 q2
  | _, _ => False
  end.
Proof.
  intros Hf H. pose proof (position_twk f r1) as P1. pose proof (position_twk f r2) as P2.
  destruct (esim_split _ _ _ _ _ (stops_passes f Hf) H) as [(A & B & C) | (a & b & q1 & q2 & A & B & K & S & G & C & D)].
  - destruct (position f r1) as [n1|]; [destruct P1 as (_ & _ & X); contradiction|].
    destruct (position f r2) as [n2|]; [destruct P2 as (_ & _ & X); contradiction|]. exact I.
  - destruct (position f r1) as [n1|]; [|destruct P1 as [X _]; congruence].
    destruct (position f r2) as [n2|]; [|destruct P2 as [X _]; congruence].
    destruct P1 as (F1 & S1 & _). destruct P2 as (F2 & S2 & _). rewrite F1, F2, S1, S2. split; [exact C|].
    assert (Fa : f (kind a) = true) by (unfold negk in G; destruct (f (kind a)); [reflexivity | discriminate]).
    exists a, b, q1, q2. repeat split; try assumption.
    apply S. intro X. rewrite X in Fa. destruct Hf as (_ & _ & _ & Y). congruence.
Qed.

Corollary esim_position_none f tl p r1 r2 : stops_only f -> esimb tl p r1 r2 ->
  (position f r1 = None <-> position f r2 = None).
Proof.
  intros Hf H. pose proof (esim_position f tl p r1 r2 Hf H) as X.
  destruct (position f r1), (position f r2); try contradiction; split; intro; congruence.
Qed.

(* ---------------------------------------------------------------- the primitives of the parser monad *)
Definition st0 (ts : list tok) (evs : list pevent) : bp :=
  {| b_all := ts; b_done := []; b_rest := ts; b_evs := evs |}.

Lemma tke_true a b : tk_eqb a b = true -> a = b.
Proof. destruct a, b; intro H; try discriminate H; reflexivity. Qed.
Lemma tke_refl a : tk_eqb a a = true.
Proof. destruct a; reflexivity. Qed.

Lemma bind_done {A B} (m : M A) (f : A -> M B) s x :
  bind m f s = Done x -> exists a s1, m s = Done (a, s1) /\ f a s1 = Done x.
Proof. unfold bind. destruct (m s) as [[a s1]|]; [|discriminate]. intro H. exists a, s1. split; [reflexivity | exact H]. Qed.

Lemma lift_done {A} (o : outcome A) s a s1 : lift o s = Done (a, s1) -> o = Done a /\ s1 = s.
Proof. unfold lift. destruct o; [|discriminate]. intro H. inversion H; subst. split; reflexivity. Qed.

Lemma event_done ev s u s1 : event ev s = Done (u, s1) ->
  b_rest s1 = b_rest s /\ b_evs s1 = ev :: b_evs s /\ b_all s1 = b_all s.
Proof. unfold event. intro H. inversion H; subst. repeat split. Qed.

Lemma advance_view n : forall s,
  b_rest (advance n s) = skipn n (b_rest s) /\ b_evs (advance n s) = b_evs s /\ b_all (advance n s) = b_all s.
Proof.
  induction n as [|n IH]; intro s; cbn [advance skipn]; [repeat split|].
  destruct (b_rest s) as [|t r] eqn:E; [rewrite E; repeat split|].
  destruct (IH {| b_all := b_all s; b_done := t :: b_done s; b_rest := r; b_evs := b_evs s |}) as (A & B & C).
  cbn [b_rest b_evs b_all] in A, B, C. repeat split; assumption.
Qed.

Lemma consume_while_inv g s a s1 : consume_while g s = Done (a, s1) ->
  a = twk g (b_rest s) /\ b_rest s1 = dwk g (b_rest s) /\ b_evs s1 = b_evs s /\ b_all s1 = b_all s.
Proof.
  intro H.
  assert (E : consume_while g s = Done (firstn (cwn g (b_rest s)) (b_rest s), advance (cwn g (b_rest s)) s)) by reflexivity.
  rewrite E in H. inversion H; subst. destruct (cwn_twk g (b_rest s)) as [F S].
  destruct (advance_view (cwn g (b_rest s)) s) as (A & B & C). rewrite A, S, F. repeat split; assumption.
Qed.

Lemma until_inv f s a s1 : until f s = Done (a, s1) ->
  match dwk (negk f) (b_rest s) with
  | [] => a = None /\ s1 = s
  | _ :: _ => a = Some (twk (negk f) (b_rest s)) /\ b_rest s1 = dwk (negk f) (b_rest s)
              /\ b_evs s1 = b_evs s /\ b_all s1 = b_all s
  end.
Proof.
  unfold until. pose proof (position_twk f (b_rest s)) as P. destruct (position f (b_rest s)) as [n|].
  - destruct P as (A & B & C). intro X. inversion X; subst.
    destruct (advance_view n s) as (A1 & B1 & C1). rewrite A1, B, A.
    destruct (dwk (negk f) (b_rest s)); [contradiction|]. repeat split; assumption.
  - destruct P as [A _]. rewrite A. intro X. inversion X; subst. split; reflexivity.
Qed.

Lemma bump_inv k s t s1 : bump k s = Done (t, s1) ->
  exists r, b_rest s = t :: r /\ kind t = k /\ b_rest s1 = r /\ b_evs s1 = b_evs s /\ b_all s1 = b_all s.
Proof.
  unfold bump, bump_any, bind, next_token. destruct (b_rest s) as [|t0 r]; [discriminate|]. cbn [ret].
  destruct (tk_eqb (kind t0) k) eqn:E; [|discriminate]. intro H. inversion H; subst.
  exists r. repeat split. apply tke_true. exact E.
Qed.

Lemma consume_hit k t r evs all dn : kind t = k ->
  consume k {| b_all := all; b_done := dn; b_rest := t :: r; b_evs := evs |}
  = Done (Some t, {| b_all := all; b_done := t :: dn; b_rest := r; b_evs := evs |}).
Proof. intro H. unfold consume, bind, at_kind, peek_of. cbn [b_rest]. rewrite H, tke_refl. reflexivity. Qed.

(* ---------------------------------------------------------------- kind tests *)
Definition is_colon (k : tkind) : bool := tk_eqb k KColon.
Definition is_eq (k : tkind) : bool := tk_eqb k KEq.
Lemma stops_colon : stops_only is_colon. Proof. repeat split. Qed.
Lemma stops_eq : stops_only is_eq. Proof. repeat split. Qed.

(* ---------------------------------------------------------------- diagnostics of a metadata entry *)
Definition meta_diags (key v : text) : list pevent :=
  if is_text_empty key then [mkdiag true D_EMPTY_META_KEY [text_span key]]
  else if is_text_empty v then [mkdiag false D_EMPTY_META_VALUE [text_span v; text_span key]]
  else [].

(* metadata_entry on the start state of a block [m :: r], in closed form *)
Lemma metadata_entry_char cfg m r evs o s' :
  kind m = KMeta ->
  metadata_entry cfg (st0 (m :: r) evs) = Done (o, s') ->
  match dwk (negk is_colon) r with
  | [] => o = None /\ b_evs s' = mkdiag false D_META_INVALID [tokens_span (m :: r)] :: evs
  | c :: post =>
      exists ok ov key v,
        text_of cfg ok (twk (negk is_colon) r) = Done key /\ text_of cfg ov post = Done v
        /\ o = Some (EvMetadata key v) /\ b_rest s' = [] /\ b_evs s' = meta_diags key v ++ evs
  end.
Proof.
  intros Hk H. unfold metadata_entry, obindM in H.
  apply bind_done in H as (a0 & s0 & E0 & H). unfold st0 in E0. rewrite (consume_hit KMeta m r evs _ _ Hk) in E0.
  inversion E0; subst a0 s0. clear E0.
  apply bind_done in H as (kp & s1 & E1 & H). unfold current_offset in E1. inversion E1; subst kp s1. clear E1.
  apply bind_done in H as (ko & s2 & E2 & H). apply until_inv in E2. cbn [b_rest] in E2.
  change (fun k => tk_eqb k KColon) with is_colon in E2.
  destruct (dwk (negk is_colon) r) as [|c post] eqn:D.
  - destruct E2 as [-> ->].
    apply bind_done in H as (al & s3 & E3 & H). unfold all_tokens in E3. inversion E3; subst al s3. clear E3.
    apply bind_done in H as (u & s4 & E4 & H). unfold warn in E4. apply event_done in E4 as (R4 & V4 & A4).
    unfold ret in H. inversion H; subst. split; [reflexivity|]. rewrite V4. reflexivity.
  - destruct E2 as (-> & R2 & V2 & A2). cbn [b_evs b_all] in V2, A2.
    apply bind_done in H as (key & s3 & E3 & H). unfold textM in E3. apply lift_done in E3 as [E3 ->].
    apply bind_done in H as (ct & s4 & E4 & H). apply bump_inv in E4 as (r4 & R4 & K4 & R4' & V4 & A4).
    rewrite R2 in R4. injection R4 as X Y. rewrite <- X in *. rewrite <- Y in *. clear X Y ct r4.
    apply bind_done in H as (vp & s5 & E5 & H). unfold current_offset in E5. inversion E5; subst vp s5. clear E5.
    apply bind_done in H as (vts & s6 & E6 & H). apply consume_while_inv in E6 as (-> & R6 & V6 & A6).
    rewrite R4' in R6. rewrite R4' in H.
    destruct (twk_all (fun _ => true) post) as [T1 T2]. { apply Forall_forall. reflexivity. }
    rewrite T1 in H. rewrite T2 in R6.
    apply bind_done in H as (v & s7 & E7 & H). unfold textM in E7. apply lift_done in E7 as [E7 ->].
    apply bind_done in H as (u & s8 & E8 & H). unfold ret in H. inversion H; subst o s'. clear H.
    eexists _, _, key, v. split; [exact E3|]. split; [exact E7|]. split; [reflexivity|].
    unfold meta_diags. destruct (is_text_empty key).
    + unfold error in E8. apply event_done in E8 as (R8 & V8 & A8). rewrite R8, V8, R6, V6, V4, V2. split; reflexivity.
    + destruct (is_text_empty v).
      * unfold warn in E8. apply event_done in E8 as (R8 & V8 & A8). rewrite R8, V8, R6, V6, V4, V2. split; reflexivity.
      * unfold ret in E8. inversion E8; subst u s8. rewrite R6, V6, V4, V2. split; reflexivity.
Qed.

Lemma erel_diag e c l1 l2 : erel (mkdiag e c l1) (mkdiag e c l2).
Proof. reflexivity. Qed.

Lemma erel_metadata k1 v1 k2 v2 : trelw k1 k2 -> trelw v1 v2 -> erel (EvMetadata k1 v1) (EvMetadata k2 v2).
Proof. intros Hk Hv. unfold erel. cbn [proj]. rewrite (trelw_tx _ _ Hk), (proj1 Hv). reflexivity. Qed.

Lemma meta_diags_rel k1 v1 k2 v2 : trelw k1 k2 -> trelw v1 v2 -> Forall2 erel (meta_diags k1 v1) (meta_diags k2 v2).
Proof.
  intros Hk Hv. unfold meta_diags. rewrite (trelw_empty _ _ Hk), (trelw_empty _ _ Hv).
  destruct (is_text_empty k2); [constructor; [apply erel_diag | constructor]|].
  destruct (is_text_empty v2); [constructor; [apply erel_diag | constructor] | constructor].
Qed.

Lemma Forall_cons_inv {A} (P : A -> Prop) a l : Forall P (a :: l) -> P a /\ Forall P l.
Proof. intro H. inversion H; subst. split; assumption. Qed.

(* what is related about two metadata events *)
Definition meta_rel (e1 e2 : pevent) : Prop :=
  erel e1 e2 /\ exists k1 v1 k2 v2, e1 = EvMetadata k1 v1 /\ e2 = EvMetadata k2 v2 /\ trelw k1 k2 /\ trelw v1 v2.

Theorem metadata_entry_blind cfg m1 r1 m2 r2 evs1 evs2 o1 s1 o2 s2 :
  kind m1 = KMeta -> kind m2 = KMeta -> esim KMeta r1 r2 ->
  ne_toks r1 -> ne_toks r2 -> nl_toks r1 -> nl_toks r2 ->
  Forall2 erel evs1 evs2 ->
  metadata_entry cfg (st0 (m1 :: r1) evs1) = Done (o1, s1) ->
  metadata_entry cfg (st0 (m2 :: r2) evs2) = Done (o2, s2) ->
  orel meta_rel o1 o2
  /\ Forall2 erel (b_evs s1) (b_evs s2)
  /\ (o1 <> None -> b_rest s1 = [] /\ b_rest s2 = [])
  /\ (o1 = None <-> position is_colon r1 = None).
Proof.
  intros K1 K2 H N1 N2 L1 L2 HE E1 E2.
  apply metadata_entry_char in E1; [|exact K1]. apply metadata_entry_char in E2; [|exact K2].
  pose proof (position_twk is_colon r1) as P1.
  destruct (esim_split _ _ _ _ _ (stops_passes _ stops_colon) H)
    as [(A & B & C) | (a & b & q1 & q2 & A & B & K & S & G & C & D)].
  - rewrite A in E1. rewrite B in E2. destruct E1 as [-> V1]. destruct E2 as [-> V2]. rewrite V1, V2.
    split; [exact I|]. split; [constructor; [apply erel_diag | exact HE]|]. split; [congruence|].
    split; [intros _|reflexivity]. destruct (position is_colon r1); [|reflexivity]. destruct P1 as (_ & _ & X). contradiction.
  - pose proof (Forall_dwk (negk is_colon) _ N1) as Nq1. pose proof (Forall_dwk (negk is_colon) _ N2) as Nq2.
    pose proof (Forall_dwk (negk is_colon) _ L1) as Lq1. pose proof (Forall_dwk (negk is_colon) _ L2) as Lq2.
    rewrite A in E1, Nq1, Lq1. rewrite B in E2, Nq2, Lq2.
    apply Forall_cons_inv in Nq1 as [_ Nq1]. apply Forall_cons_inv in Nq2 as [_ Nq2].
    apply Forall_cons_inv in Lq1 as [_ Lq1]. apply Forall_cons_inv in Lq2 as [_ Lq2].
    destruct E1 as (ok1 & ov1 & key1 & v1 & Tk1 & Tv1 & -> & R1 & V1).
    destruct E2 as (ok2 & ov2 & key2 & v2 & Tk2 & Tv2 & -> & R2 & V2).
    destruct (esim_text cfg _ _ _ _ _ _ _ _ C (Forall_twk _ _ N1) (Forall_twk _ _ N2)
                (Forall_twk _ _ L1) (Forall_twk _ _ L2) Tk1 Tk2) as [Hkey _].
    destruct (esim_text cfg _ _ _ _ _ _ _ _ D Nq1 Nq2 Lq1 Lq2 Tv1 Tv2) as [Hv _].
    split; [|split; [|split; [|split]]].
    + split; [apply erel_metadata; assumption|]. exists key1, v1, key2, v2.
      split; [reflexivity|]. split; [reflexivity|]. split; assumption.
    + rewrite V1, V2. apply Forall2_app; [apply meta_diags_rel; assumption | exact HE].
    + intros _. split; assumption.
    + discriminate.
    + intro X. rewrite X in P1. destruct P1 as [Y _]. congruence.
Qed.

(* ---------------------------------------------------------------- the metadata block *)
Lemma run_block_done t r evs (m : M unit) l :
  run_block (t :: r) evs m = Done l ->
  exists u s, m (st0 (t :: r) evs) = Done (u, s) /\ b_rest s = [] /\ l = b_evs s.
Proof.
  unfold run_block. fold (st0 (t :: r) evs). destruct (m (st0 (t :: r) evs)) as [[u s]|]; [|discriminate].
  destruct (b_rest s) eqn:E; [|discriminate]. intro H. inversion H; subst. exists u, s. repeat split. exact E.
Qed.

Lemma with_recover_done {A} (m : M (option A)) s o s1 :
  with_recover m s = Done (o, s1) ->
  exists s', m s = Done (o, s') /\ b_evs s1 = b_evs s'
             /\ match o with Some _ => s1 = s' | None => b_rest s1 = b_rest s /\ b_all s1 = b_all s /\ b_done s1 = b_done s end.
Proof.
  unfold with_recover. destruct (m s) as [[[a|] s']|]; [| |discriminate]; intro H; inversion H; subst;
    eexists; (split; [reflexivity|]); repeat split.
Qed.

Lemma metadata_block_char cfg m r evs l :
  kind m = KMeta -> position is_colon r <> None ->
  run_block (m :: r) evs (parse_block cfg true) = Done l ->
  exists ev s, metadata_entry cfg (st0 (m :: r) evs) = Done (Some ev, s) /\ l = ev :: b_evs s.
Proof.
  intros Hk Hp H. apply run_block_done in H as (u & s & H & R & ->).
  unfold parse_block in H. apply bind_done in H as (k & s0 & E0 & H).
  unfold peek, peek_of, st0 in E0. cbn [b_rest] in E0. inversion E0; subst k s0. clear E0. rewrite Hk in H.
  apply bind_done in H as (mos & s1 & E1 & H). apply with_recover_done in E1 as (s' & E1 & V1 & X1).
  unfold obindM in E1. apply bind_done in E1 as (o & se & Em & E1).
  fold (st0 (m :: r) evs) in Em. pose proof (metadata_entry_char _ _ _ _ _ _ Hk Em) as C.
  pose proof (position_twk is_colon r) as P.
  destruct (dwk (negk is_colon) r) as [|c post].
  - destruct (position is_colon r); [destruct P as (_ & _ & X); contradiction | contradiction].
  - destruct C as (ok & ov & key & v & _ & _ & -> & _ & _).
    unfold meta_kept in E1. rewrite orb_true_r in E1. unfold ret in E1. inversion E1; subst mos s'. clear E1.
    subst s1. apply event_done in H as (_ & V & _). exists (EvMetadata key v), se. split; [exact Em | exact V].
Qed.

Theorem metadata_block_blind cfg m1 r1 m2 r2 evs1 evs2 l1 l2 :
  kind m1 = KMeta -> kind m2 = KMeta -> esim KMeta r1 r2 ->
  ne_toks r1 -> ne_toks r2 -> nl_toks r1 -> nl_toks r2 ->
  Forall2 erel evs1 evs2 ->
  position is_colon r1 <> None ->
  run_block (m1 :: r1) evs1 (parse_block cfg true) = Done l1 ->
  run_block (m2 :: r2) evs2 (parse_block cfg true) = Done l2 ->
  Forall2 erel l1 l2.
Proof.
  intros K1 K2 H N1 N2 L1 L2 HE P1 R1 R2.
  assert (P2 : position is_colon r2 <> None).
  { intro X. apply P1. apply (esim_position_none is_colon _ _ _ _ stops_colon H). exact X. }
  apply metadata_block_char in R1 as (ev1 & s1 & E1 & ->); [|exact K1|exact P1].
  apply metadata_block_char in R2 as (ev2 & s2 & E2 & ->); [|exact K2|exact P2].
  destruct (metadata_entry_blind cfg _ _ _ _ _ _ _ _ _ _ K1 K2 H N1 N2 L1 L2 HE E1 E2) as ([Hev _] & Hevs & _).
  constructor; assumption.
Qed.

(* ---------------------------------------------------------------- the section line *)
(* a run of [=] tokens: under [esimb] with an index other than [KWord] the two runs correspond
   one to one (a comment can only follow a word) *)
Lemma esim_dw_eq tl p r1 r2 : p <> KWord -> esimb tl p r1 r2 ->
  exists p', p' <> KWord /\ esimb tl p' (dwk is_eq r1) (dwk is_eq r2).
Proof.
  intros Hp H.
  induction H as [p | p a b r1 r2 Hk Hs Hc H IH | p a b r1 r2 Ha Hb H IH
                 | p a b r1 r2 Hk Hc H IH | r1 r2 b Hc H IH | p suffix Ht Hf].
  - exists p. split; [exact Hp | apply esim_nil].
  - cbn [dwk]. rewrite <- Hk. destruct (is_eq (kind a)) eqn:E.
    + apply IH. apply tke_true in E. rewrite E. discriminate.
    + exists p. split; [exact Hp | apply esim_same; assumption].
  - cbn [dwk]. rewrite Ha, Hb. cbn. exists p. split; [exact Hp | apply esim_newline; assumption].
  - cbn [dwk]. rewrite <- Hk. destruct (kind a) eqn:E; try discriminate Hc; cbn;
      (exists p; split; [exact Hp | apply esim_comment; [congruence | rewrite E; reflexivity | assumption]]).
  - contradiction Hp. reflexivity.
  - exists p. split; [exact Hp|]. destruct Hf as [|t q Ht' Hq]; [apply esim_nil|].
    cbn [dwk]. assert (E : is_eq (kind t) = false).
    { destruct Ht' as [X | [X _]]; [destruct (kind t); try discriminate X; reflexivity | rewrite X; reflexivity]. }
    rewrite E. apply esim_tail; [exact Ht | constructor; assumption].
Qed.

Lemma tail_wsc l : Forall tail_tok l -> Forall (fun t => is_ws_comment (kind t) = true) l.
Proof.
  induction 1 as [|t r Ht _ IH]; constructor; [|exact IH].
  destruct Ht as [X | [X _]]; [destruct (kind t); try discriminate X; reflexivity | rewrite X; reflexivity].
Qed.

Lemma esim_dw_wsc tl p r1 r2 : esimb tl p r1 r2 ->
  (dwk is_ws_comment r1 = [] <-> dwk is_ws_comment r2 = []).
Proof.
  induction 1 as [p | p a b r1 r2 Hk Hs Hc H IH | p a b r1 r2 Ha Hb H IH
                 | p a b r1 r2 Hk Hc H IH | r1 r2 b Hc H IH | p suffix Ht Hf].
  - tauto.
  - cbn [dwk]. rewrite <- Hk. destruct (is_ws_comment (kind a)); [exact IH | split; discriminate].
  - cbn [dwk]. rewrite Ha, Hb. cbn. split; discriminate.
  - cbn [dwk]. rewrite <- Hk. destruct (kind a); try discriminate Hc; exact IH.
  - cbn [dwk]. destruct (kind b); try discriminate Hc; exact IH.
  - destruct (twk_all _ _ (tail_wsc _ Hf)) as [_ X]. rewrite X. tauto.
Qed.

Definition section_rest (r : list tok) : list tok :=
  dwk is_ws_comment (dwk is_eq (dwk (negk is_eq) (dwk is_eq r))).
Definition section_name (r : list tok) : list tok := twk (negk is_eq) (dwk is_eq r).

(* section_p on the start state of a block [e :: r], in closed form *)
Lemma section_p_char cfg e r evs o s' :
  kind e = KEq ->
  section_p cfg (st0 (e :: r) evs) = Done (o, s') ->
  exists off name, text_of cfg off (section_name r) = Done name /\ b_rest s' = section_rest r /\
    match section_rest r with
    | [] => o = Some (EvSection (if is_text_empty name then None else Some name)) /\ b_evs s' = evs
    | _ :: _ => o = None /\ b_evs s' = mkdiag false D_SECTION_INVALID [tokens_span (section_rest r)] :: evs
    end.
Proof.
  intros Hk H. unfold section_p, obindM, ws_comments in H.
  apply bind_done in H as (a0 & s0 & E0 & H). unfold st0 in E0. rewrite (consume_hit KEq e r evs _ _ Hk) in E0.
  inversion E0; subst a0 s0. clear E0.
  apply bind_done in H as (e2 & s1 & E1 & H). apply consume_while_inv in E1 as (_ & R1 & V1 & _).
  cbn [b_rest b_evs] in R1, V1.
  apply bind_done in H as (np & s2 & E2 & H). unfold current_offset in E2. inversion E2; subst np s2. clear E2.
  apply bind_done in H as (nts & s3 & E3 & H). apply consume_while_inv in E3 as (-> & R3 & V3 & _).
  apply bind_done in H as (name & s4 & E4 & H). unfold textM in E4. apply lift_done in E4 as [E4 ->].
  apply bind_done in H as (e3 & s5 & E5 & H). apply consume_while_inv in E5 as (_ & R5 & V5 & _).
  apply bind_done in H as (w & s6 & E6 & H). apply consume_while_inv in E6 as (_ & R6 & V6 & _).
  apply bind_done in H as (rr & s7 & E7 & H). unfold rest in E7. inversion E7; subst rr s7. clear E7.
  change (fun k => tk_eqb k KEq) with is_eq in *.
  change (fun k => negb (tk_eqb k KEq)) with (negk is_eq) in *.
  rewrite R1 in *. rewrite R3 in *. rewrite R5 in *. fold (section_rest r) in R6. fold (section_name r) in E4.
  exists (current_offset_of s1), name. split; [exact E4|].
  rewrite R6 in H. destruct (section_rest r) as [|x q] eqn:D.
  - unfold ret in H. inversion H; subst o s'. repeat split; [exact R6 | congruence].
  - apply bind_done in H as (u & s8 & E8 & H). unfold warn in E8. apply event_done in E8 as (R8 & V8 & _).
    unfold ret in H. inversion H; subst o s'. split; [congruence|]. split; [reflexivity|]. rewrite V8. congruence.
Qed.

Lemma erel_section n1 n2 : trelw n1 n2 ->
  erel (EvSection (if is_text_empty n1 then None else Some n1)) (EvSection (if is_text_empty n2 then None else Some n2)).
Proof.
  intro H. unfold erel. cbn [proj]. rewrite (trelw_empty _ _ H). destruct (is_text_empty n2); [reflexivity|].
  cbn [option_map]. rewrite (trelw_tx _ _ H). reflexivity.
Qed.

(* the pieces of the section line correspond *)
Lemma esim_section r1 r2 : esim KEq r1 r2 ->
  (section_rest r1 = [] <-> section_rest r2 = [])
  /\ exists tl p, esimb tl p (section_name r1) (section_name r2).
Proof.
  intro H. assert (Hq : KEq <> KWord) by discriminate.
  destruct (esim_dw_eq _ _ _ _ Hq H) as (p1 & Hp1 & H1).
  unfold section_rest, section_name.
  destruct (esim_split _ _ _ _ _ (stops_passes _ stops_eq) H1)
    as [(A & B & C) | (a & b & q1 & q2 & A & B & K & S & G & C & D)].
  - rewrite A, B. split; [cbn; tauto|]. exists true, p1. exact C.
  - rewrite A, B. split; [|exists false, p1; exact C].
    assert (Ea : is_eq (kind a) = true) by (unfold negk in G; destruct (is_eq (kind a)); [reflexivity | discriminate]).
    cbn [dwk]. rewrite <- K, Ea.
    assert (Hq' : kind a <> KWord) by (apply tke_true in Ea; rewrite Ea; discriminate).
    destruct (esim_dw_eq _ _ _ _ Hq' D) as (p3 & _ & H3).
    exact (esim_dw_wsc _ _ _ _ H3).
Qed.

Theorem section_blind cfg e1 r1 e2 r2 evs1 evs2 o1 s1 o2 s2 :
  kind e1 = KEq -> kind e2 = KEq -> esim KEq r1 r2 ->
  ne_toks r1 -> ne_toks r2 -> nl_toks r1 -> nl_toks r2 ->
  Forall2 erel evs1 evs2 ->
  section_p cfg (st0 (e1 :: r1) evs1) = Done (o1, s1) ->
  section_p cfg (st0 (e2 :: r2) evs2) = Done (o2, s2) ->
  orel erel o1 o2
  /\ Forall2 erel (b_evs s1) (b_evs s2)
  /\ (b_rest s1 = [] <-> b_rest s2 = [])
  /\ (o1 <> None -> b_rest s1 = [] /\ b_rest s2 = []).
Proof.
  intros K1 K2 H N1 N2 L1 L2 HE E1 E2.
  apply section_p_char in E1 as (off1 & n1 & T1 & R1 & X1); [|exact K1].
  apply section_p_char in E2 as (off2 & n2 & T2 & R2 & X2); [|exact K2].
  destruct (esim_section _ _ H) as (HR & tl & p & HN).
  assert (Hn : trelw n1 n2).
  { unfold section_name in *.
    refine (proj1 (esim_text cfg _ _ _ _ _ _ _ _ HN _ _ _ _ T1 T2));
      apply Forall_twk; apply Forall_dwk; assumption. }
  rewrite R1, R2. split; [|split; [|split; [exact HR|]]].
  - destruct (section_rest r1) as [|x1 q1]; destruct (section_rest r2) as [|x2 q2];
      try (exfalso; destruct HR as [HR1 HR2]; (discriminate (HR1 eq_refl) || discriminate (HR2 eq_refl))).
    + destruct X1 as [-> _]. destruct X2 as [-> _]. apply erel_section. exact Hn.
    + destruct X1 as [-> _]. destruct X2 as [-> _]. exact I.
  - destruct (section_rest r1) as [|x1 q1]; destruct (section_rest r2) as [|x2 q2];
      try (exfalso; destruct HR as [HR1 HR2]; (discriminate (HR1 eq_refl) || discriminate (HR2 eq_refl))).
    + destruct X1 as [_ ->]. destruct X2 as [_ ->]. exact HE.
    + destruct X1 as [_ ->]. destruct X2 as [_ ->]. constructor; [apply erel_diag | exact HE].
  - intro Ho. destruct (section_rest r1) as [|x1 q1].
    + split; [reflexivity | apply HR; reflexivity].
    + destruct X1 as [-> _]. contradiction.
Qed.

Lemma section_block_char cfg old e r evs l :
  kind e = KEq ->
  run_block (e :: r) evs (parse_block cfg old) = Done l ->
  exists o s, section_p cfg (st0 (e :: r) evs) = Done (o, s)
              /\ match o with Some ev => l = ev :: b_evs s | None => True end.
Proof.
  intros Hk H. apply run_block_done in H as (u & s & H & R & ->).
  unfold parse_block in H. apply bind_done in H as (k & s0 & E0 & H).
  unfold peek, peek_of, st0 in E0. cbn [b_rest] in E0. inversion E0; subst k s0. clear E0. rewrite Hk in H.
  apply bind_done in H as (mos & s1 & E1 & H). apply with_recover_done in E1 as (s' & E1 & V1 & X1).
  exists mos, s'. split; [exact E1|]. destruct mos as [ev|]; [|exact I].
  subst s1. apply event_done in H as (_ & V & _). exact V.
Qed.

Theorem section_block_blind cfg old e1 r1 e2 r2 evs1 evs2 l1 l2 :
  kind e1 = KEq -> kind e2 = KEq -> esim KEq r1 r2 ->
  ne_toks r1 -> ne_toks r2 -> nl_toks r1 -> nl_toks r2 ->
  Forall2 erel evs1 evs2 ->
  (forall s, section_p cfg (st0 (e1 :: r1) evs1) <> Done (None, s)) ->
  run_block (e1 :: r1) evs1 (parse_block cfg old) = Done l1 ->
  run_block (e2 :: r2) evs2 (parse_block cfg old) = Done l2 ->
  Forall2 erel l1 l2.
Proof.
  intros K1 K2 H N1 N2 L1 L2 HE HS R1 R2.
  apply section_block_char in R1 as (o1 & s1 & E1 & X1); [|exact K1].
  apply section_block_char in R2 as (o2 & s2 & E2 & X2); [|exact K2].
  destruct (section_blind cfg _ _ _ _ _ _ _ _ _ _ K1 K2 H N1 N2 L1 L2 HE E1 E2) as (Ho & Hevs & _).
  destruct o1 as [ev1|]; [|exfalso; exact (HS _ E1)].
  destruct o2 as [ev2|]; [|contradiction]. subst l1 l2. constructor; assumption.
Qed.

(* ---------------------------------------------------------------- events up to trailing blanks of a text *)
(* an [EvText] is observed through [text_str] (blanks included), so when blanks were appended
   at the end of the block the last text item agrees only up to its trailing blanks *)
Definition erelw (e1 e2 : pevent) : Prop :=
  erel e1 e2 \/ exists t1 t2, e1 = EvText t1 /\ e2 = EvText t2 /\ trelw t1 t2.

Lemma erel_erelw e1 e2 : erel e1 e2 -> erelw e1 e2. Proof. intro H. left. exact H. Qed.
Lemma Forall2_erelw l1 l2 : Forall2 erel l1 l2 -> Forall2 erelw l1 l2.
Proof. induction 1; constructor; [apply erel_erelw|]; assumption. Qed.

(* ---------------------------------------------------------------- kinds along esim *)
Lemma esim_forallb_kind g tl p r1 r2 : passes_ws_comment g -> esimb tl p r1 r2 ->
  forallb (fun t => g (kind t)) r1 = forallb (fun t => g (kind t)) r2.
Proof.
  intros (GL & GB & GW).
  induction 1 as [p | p a b r1 r2 Hk Hs Hc H IH | p a b r1 r2 Ha Hb H IH
                 | p a b r1 r2 Hk Hc H IH | r1 r2 b Hc H IH | p suffix Ht Hf]; cbn [forallb].
  - reflexivity.
  - rewrite Hk, IH. reflexivity.
  - rewrite Ha, Hb, IH. reflexivity.
  - rewrite Hk, IH. reflexivity.
  - rewrite <- IH. destruct (kind b); try discriminate Hc; [rewrite GL | rewrite GB]; reflexivity.
  - symmetry. apply forallb_forall. intros t Ht'. rewrite Forall_forall in Hf.
    destruct (Hf t Ht') as [X | [X _]]; [destruct (kind t); try discriminate X; assumption | rewrite X; exact GW].
Qed.

Lemma esim_head tl p r1 r2 : p <> KWord -> esimb tl p r1 r2 -> r1 <> [] ->
  exists t1 q1 t2 q2, r1 = t1 :: q1 /\ r2 = t2 :: q2 /\ kind t1 = kind t2.
Proof.
  intros Hp H Hne. destruct H as [p | p a b r1 r2 Hk Hs Hc H | p a b r1 r2 Ha Hb H
                 | p a b r1 r2 Hk Hc H | r1 r2 b Hc H | p suffix Ht Hf].
  - contradiction.
  - exists a, r1, b, r2. repeat split. exact Hk.
  - exists a, r1, b, r2. repeat split. congruence.
  - exists a, r1, b, r2. repeat split. exact Hk.
  - contradiction Hp. reflexivity.
  - contradiction.
Qed.

(* ---------------------------------------------------------------- a step without components *)
Definition no_marker (ts : list tok) : Prop := forallb (fun t => negb (is_marker (kind t))) ts = true.
Definition esc_ok (t : tok) : Prop := kind t = KEscaped -> tl (tstr t) <> [].

Lemma no_marker_twk q : no_marker q ->
  twk (fun k => negb (is_marker k)) q = q /\ dwk (fun k => negb (is_marker k)) q = [].
Proof. intro H. apply twk_all. apply Forall_forall. unfold no_marker in H. rewrite forallb_forall in H. exact H. Qed.

Definition text_evs (t : text) : list pevent := match frags t with [] => [] | _ :: _ => [EvText t] end.

Lemma step_loop_plain cfg f t q s u s' :
  b_rest s = t :: q -> no_marker (t :: q) ->
  step_loop cfg f s = Done (u, s') ->
  exists off tx, text_of cfg off (t :: q) = Done tx /\ b_rest s' = [] /\ b_evs s' = text_evs tx ++ b_evs s.
Proof.
  intros R Hm H. destruct f as [|f]; [discriminate|]. cbn [step_loop] in H.
  apply bind_done in H as (r0 & s0 & E0 & H). unfold rest in E0. inversion E0; subst r0 s0. clear E0.
  rewrite R in H. apply bind_done in H as (k & s0 & E0 & H). unfold peek, peek_of in E0. rewrite R in E0.
  inversion E0; subst k s0. clear E0.
  unfold no_marker in Hm. cbn [forallb] in Hm. apply andb_true_iff in Hm as [Hm0 Hm].
  apply bind_done in H as (comp & s1 & E1 & H).
  assert (X : comp = None /\ s1 = s).
  { destruct (kind t); try discriminate Hm0; unfold ret in E1; inversion E1; split; reflexivity. }
  destruct X as [-> ->]. clear E1.
  apply bind_done in H as (st & s2 & E2 & H). unfold current_offset in E2. inversion E2; subst st s2. clear E2.
  apply bind_done in H as (t0 & s3 & E3 & H). unfold bump_any, bind, next_token in E3. rewrite R in E3. unfold ret in E3.
  inversion E3; subst t0 s3. clear E3.
  apply bind_done in H as (more & s4 & E4 & H). apply consume_while_inv in E4 as (-> & R4 & V4 & _).
  cbn [b_rest b_evs] in R4, V4, H. destruct (no_marker_twk q Hm) as [T1 T2]. rewrite T1 in H. rewrite T2 in R4.
  apply bind_done in H as (tx & s5 & E5 & H). unfold textM in E5. apply lift_done in E5 as [E5 ->].
  apply bind_done in H as (u0 & s6 & E6 & H).
  assert (Y : b_rest s6 = [] /\ b_evs s6 = text_evs tx ++ b_evs s).
  { unfold text_evs. destruct (frags tx).
    - unfold ret in E6. inversion E6; subst. split; assumption.
    - apply event_done in E6 as (R6 & V6 & _). rewrite R6, V6, V4. split; [exact R4 | reflexivity]. }
  destruct Y as [R6 V6]. destruct f as [|f]; [discriminate|]. cbn [step_loop] in H.
  apply bind_done in H as (r0 & s0 & E0 & H). unfold rest in E0. inversion E0; subst r0 s0. clear E0.
  rewrite R6 in H. unfold ret in H. inversion H; subst u s'.
  exists (current_offset_of s), tx. split; [exact E5|]. split; assumption.
Qed.

(* a block that is neither a metadata line nor a section line nor a text block *)
Definition plain_head (k : tkind) : Prop := k <> KMeta /\ k <> KEq /\ k <> KTextStep.

Lemma plain_block_char cfg old t q evs l :
  plain_head (kind t) -> no_marker (t :: q) ->
  run_block (t :: q) evs (parse_block cfg old) = Done l ->
  if forallb (fun x => is_empty_tok (kind x)) (t :: q) then l = evs
  else exists off tx, text_of cfg off (t :: q) = Done tx
                      /\ l = EvEnd true :: text_evs tx ++ EvStart true :: evs.
Proof.
  intros (H1 & H2 & H3) Hm H. apply run_block_done in H as (u & s & H & R & ->).
  unfold parse_block in H. apply bind_done in H as (k & s0 & E0 & H).
  unfold peek, peek_of, st0 in E0. cbn [b_rest] in E0. inversion E0; subst k s0. clear E0.
  apply bind_done in H as (mos & s1 & E1 & H).
  assert (X : mos = None /\ s1 = st0 (t :: q) evs).
  { destruct (kind t); try contradiction; unfold ret in E1; inversion E1; split; reflexivity. }
  destruct X as [-> ->]. clear E1.
  unfold parse_multiline_block in H. apply bind_done in H as (al & s0 & E0 & H).
  unfold all_tokens, st0 in E0. cbn [b_all] in E0. inversion E0; subst al s0. clear E0.
  destruct (forallb (fun x => is_empty_tok (kind x)) (t :: q)).
  - apply bind_done in H as (rr & s2 & E2 & H). apply consume_while_inv in E2 as (_ & _ & V2 & _).
    unfold ret in H. inversion H; subst. exact V2.
  - apply bind_done in H as (k & s0 & E0 & H). unfold peek, peek_of in E0. cbn [b_rest] in E0.
    inversion E0; subst k s0. clear E0.
    assert (X : parse_step cfg {| b_all := t :: q; b_done := []; b_rest := t :: q; b_evs := evs |} = Done (u, s)).
    { destruct (kind t); try contradiction; exact H. }
    clear H. unfold parse_step in X.
    apply bind_done in X as (u0 & s2 & E2 & X). apply event_done in E2 as (R2 & V2 & _). cbn [b_rest b_evs] in R2, V2.
    apply bind_done in X as (r0 & s0 & E0 & X). unfold rest in E0. inversion E0; subst r0 s0. clear E0.
    apply bind_done in X as (u1 & s3 & E3 & X).
    apply (step_loop_plain cfg _ t q) in E3 as (off & tx & T & R3 & V3); [|exact R2|exact Hm].
    apply event_done in X as (_ & V & _). exists off, tx. split; [exact T|]. rewrite V, V3, V2. reflexivity.
Qed.

Lemma render_tok_nonempty t : tstr t <> [] -> esc_ok t -> is_empty_tok (kind t) = false -> render_tok t <> [].
Proof.
  intros Hn He Hk. unfold render_tok. unfold esc_ok in He.
  destruct (kind t); try discriminate Hk; try exact Hn. apply He. reflexivity.
Qed.

Lemma render_nonempty ts : ne_toks ts -> Forall esc_ok ts ->
  forallb (fun x => is_empty_tok (kind x)) ts = false -> render ts <> [].
Proof.
  intros Hn He. induction ts as [|t r IH]; [discriminate|]. cbn [forallb]. rewrite render_cons.
  apply Forall_cons_inv in Hn as [Hn0 Hn]. apply Forall_cons_inv in He as [He0 He].
  destruct (is_empty_tok (kind t)) eqn:E; cbn [andb]; intros Hf X; apply app_eq_nil in X as [X1 X2].
  - exact (IH Hn He Hf X2).
  - exact (render_tok_nonempty t Hn0 He0 E X1).
Qed.

Lemma frags_nonempty cfg off ts tx : ne_toks ts -> text_of cfg off ts = Done tx -> render ts <> [] ->
  exists f r, frags tx = f :: r.
Proof.
  intros Hn T Hr. pose proof (full_str_nil _ (text_of_full _ _ _ _ T)) as [X _].
  destruct (frags tx) as [|f r] eqn:E; [|exists f, r; reflexivity].
  exfalso. apply Hr. rewrite <- (text_of_render _ _ _ _ Hn T). apply X. reflexivity.
Qed.

Lemma empty_tok_passes : passes_ws_comment is_empty_tok. Proof. repeat split. Qed.
Lemma not_marker_passes : passes_ws_comment (fun k => negb (is_marker k)). Proof. repeat split. Qed.

(* a step block without component markers: one text item, equal up to the appended blanks *)
Theorem plain_step_block_blind cfg old b1 b2 evs1 evs2 l1 l2 :
  esim KEof b1 b2 ->
  (exists t q, b1 = t :: q /\ plain_head (kind t)) -> no_marker b1 ->
  ne_toks b1 -> ne_toks b2 -> nl_toks b1 -> nl_toks b2 -> Forall esc_ok b1 ->
  Forall2 erelw evs1 evs2 ->
  run_block b1 evs1 (parse_block cfg old) = Done l1 ->
  run_block b2 evs2 (parse_block cfg old) = Done l2 ->
  Forall2 erelw l1 l2.
Proof.
  intros H (t1 & q1 & -> & Hh) Hm N1 N2 L1 L2 He HE R1 R2.
  assert (Hp : KEof <> KWord) by discriminate.
  destruct (esim_head _ _ _ _ Hp H ltac:(discriminate)) as (t1' & q1' & t2 & q2 & X & -> & Hk).
  inversion X; subst t1' q1'. clear X.
  assert (Hm2 : no_marker (t2 :: q2)).
  { unfold no_marker in *. rewrite <- (esim_forallb_kind _ _ _ _ _ not_marker_passes H). exact Hm. }
  pose proof (esim_forallb_kind _ _ _ _ _ empty_tok_passes H) as Hemp.
  apply plain_block_char in R1; [|exact Hh|exact Hm].
  apply plain_block_char in R2; [|rewrite <- Hk; exact Hh|exact Hm2].
  rewrite <- Hemp in R2. destruct (forallb (fun x => is_empty_tok (kind x)) (t1 :: q1)) eqn:E.
  - subst l1 l2. exact HE.
  - destruct R1 as (off1 & tx1 & T1 & ->). destruct R2 as (off2 & tx2 & T2 & ->).
    destruct (esim_text cfg _ _ _ _ _ _ _ _ H N1 N2 L1 L2 T1 T2) as [Ht _].
    pose proof (render_nonempty _ N1 He E) as Hr1.
    assert (Hr2 : render (t2 :: q2) <> []).
    { destruct (esim_render _ _ _ _ H) as (w & Rw & _). rewrite Rw. intro X. apply app_eq_nil in X as [X _]. contradiction. }
    destruct (frags_nonempty _ _ _ _ N1 T1 Hr1) as (f1 & g1 & F1).
    destruct (frags_nonempty _ _ _ _ N2 T2 Hr2) as (f2 & g2 & F2).
    unfold text_evs. rewrite F1, F2. cbn [app].
    constructor; [left; reflexivity|]. constructor; [right; exists tx1, tx2; repeat split; apply Ht|].
    constructor; [left; reflexivity | exact HE].
Qed.

(* ---------------------------------------------------------------- a text block ("> words") *)
Definition hdk (r : list tok) : tkind := match r with t :: _ => kind t | [] => KEof end.
Definition drop1 (k : tkind) (r : list tok) : list tok :=
  match r with t :: q => if tk_eqb (kind t) k then q else r | [] => [] end.

Lemma Forall_drop1 {P : tok -> Prop} k r : Forall P r -> Forall P (drop1 k r).
Proof. intro H. destruct H as [|t q Ht Hq]; [constructor|]. cbn [drop1]. destruct (tk_eqb (kind t) k); [exact Hq | constructor; assumption]. Qed.

Lemma consume_inv k s o s1 : tk_eqb KEof k = false -> consume k s = Done (o, s1) ->
  b_rest s1 = drop1 k (b_rest s) /\ b_evs s1 = b_evs s
  /\ o = match b_rest s with t :: _ => if tk_eqb (kind t) k then Some t else None | [] => None end.
Proof.
  intros Hk H. unfold consume, bind, at_kind, peek_of, bump_any, bind, next_token in H.
  destruct (b_rest s) as [|t q] eqn:E.
  - rewrite Hk in H. unfold ret in H. inversion H; subst. rewrite E. repeat split.
  - destruct (tk_eqb (kind t) k) eqn:Et.
    + rewrite E in H. unfold ret in H. inversion H; subst. cbn [b_rest b_evs drop1]. rewrite Et. repeat split.
    + unfold ret in H. inversion H; subst. rewrite E. cbn [drop1]. rewrite Et. repeat split.
Qed.

Lemma esim_drop1 k tl p r1 r2 : is_comment k = false -> k <> KWord -> p <> KWord -> esimb tl p r1 r2 ->
  exists p', p' <> KWord /\ esimb tl p' (drop1 k r1) (drop1 k r2).
Proof.
  intros Hc Hw Hp H.
  destruct H as [p | p a b r1 r2 Hk Hs Hca H | p a b r1 r2 Ha Hb H
                 | p a b r1 r2 Hk Hca H | r1 r2 b Hcb H | p suffix Ht Hf]; cbn [drop1].
  - exists p. split; [exact Hp | apply esim_nil].
  - rewrite <- Hk. destruct (tk_eqb (kind a) k) eqn:E.
    + exists (kind a). split; [apply tke_true in E; congruence | exact H].
    + exists p. split; [exact Hp | apply esim_same; assumption].
  - rewrite Ha, Hb. destruct (tk_eqb KNewline k).
    + exists KNewline. split; [discriminate | exact H].
    + exists p. split; [exact Hp | apply esim_newline; assumption].
  - rewrite <- Hk. destruct (tk_eqb (kind a) k) eqn:E.
    + apply tke_true in E. congruence.
    + exists p. split; [exact Hp | apply esim_comment; assumption].
  - contradiction Hp. reflexivity.
  - exists p. split; [exact Hp|]. apply esim_tail; [exact Ht|]. exact (Forall_drop1 k suffix Hf).
Qed.

Lemma esim_left_nil tl p r2 : esimb tl p [] r2 -> Forall tail_tok r2.
Proof.
  intro H. remember [] as r1 eqn:E.
  induction H as [p | p a b r1 r2 Hk Hs Hc H IH | p a b r1 r2 Ha Hb H IH
                 | p a b r1 r2 Hk Hc H IH | r1 r2 b Hc H IH | p suffix Ht Hf]; try discriminate E.
  - constructor.
  - constructor; [left; exact Hc | exact (IH E)].
  - exact Hf.
Qed.

Lemma esim_app_newline tl p l1 l2 a b q1 q2 :
  esimb false p l1 l2 -> kind a = KNewline -> kind b = KNewline -> esimb tl KNewline q1 q2 ->
  esimb tl p (l1 ++ a :: q1) (l2 ++ b :: q2).
Proof.
  intros H Ha Hb Hq.
  induction H as [p | p a' b' r1 r2 Hk Hs Hc H IH | p a' b' r1 r2 Ha' Hb' H IH
                 | p a' b' r1 r2 Hk Hc H IH | r1 r2 b' Hc H IH | p suffix Ht Hf]; cbn [app].
  - apply esim_newline; assumption.
  - apply esim_same; assumption.
  - apply esim_newline; assumption.
  - apply esim_comment; assumption.
  - apply esim_ins; assumption.
  - discriminate.
Qed.

Definition not_nl (k : tkind) : bool := negb (tk_eqb k KNewline).
Lemma not_nl_passes : passes_ws_comment not_nl. Proof. repeat split. Qed.

(* the tokens of the line that one round of text_block_loop turns into a text, and what is left *)
Definition tb_after_marker (r : list tok) : list tok :=
  if tk_eqb (hdk r) KTextStep then drop1 KWs (drop1 KTextStep r) else r.
Definition tb_line (r : list tok) : list tok :=
  let b := tb_after_marker r in
  match dwk not_nl b with a :: _ => twk not_nl b ++ [a] | [] => twk not_nl b end.
Definition tb_left (r : list tok) : list tok := tl (dwk not_nl (tb_after_marker r)).
Definition line_evs (t : text) : list pevent := if is_text_empty t then [] else [EvText t].

(* one round of text_block_loop in closed form *)
Lemma tbl_round cfg f s u s' t q :
  b_rest s = t :: q ->
  text_block_loop cfg (S f) s = Done (u, s') ->
  exists sm off tx,
    text_block_loop cfg f sm = Done (u, s') /\ b_rest sm = tb_left (t :: q)
    /\ text_of cfg off (tb_line (t :: q)) = Done tx /\ b_evs sm = line_evs tx ++ b_evs s.
Proof.
  intros R H. cbn [text_block_loop] in H.
  apply bind_done in H as (r0 & s0 & E0 & H). unfold rest in E0. inversion E0; subst r0 s0. clear E0.
  rewrite R in H. apply bind_done in H as (g & s1 & E1 & H).
  apply consume_inv in E1 as (R1 & V1 & G1); [|reflexivity]. rewrite R in R1, G1.
  apply bind_done in H as (u0 & s2 & E2 & H).
  assert (X : b_rest s2 = tb_after_marker (t :: q) /\ b_evs s2 = b_evs s).
  { unfold tb_after_marker. cbn [hdk]. cbn [drop1] in R1.
    change (drop1 KTextStep (t :: q)) with (if tk_eqb (kind t) KTextStep then q else t :: q).
    destruct (tk_eqb (kind t) KTextStep).
    - subst g. apply bind_done in E2 as (w & s3 & E3 & E2). apply consume_inv in E3 as (R3 & V3 & _); [|reflexivity].
      unfold ret in E2. inversion E2; subst u0 s2. rewrite R3, V3, R1, V1. split; reflexivity.
    - subst g. unfold ret in E2. inversion E2; subst u0 s2. split; assumption. }
  destruct X as [R2 V2]. clear E2 R1 V1 G1.
  apply bind_done in H as (st & s3 & E3 & H). unfold current_offset in E3. inversion E3; subst st s3. clear E3.
  apply bind_done in H as (line & s4 & E4 & H). apply consume_while_inv in E4 as (-> & R4 & V4 & _).
  change (fun k => negb (tk_eqb k KNewline)) with not_nl in *. rewrite R2 in *.
  apply bind_done in H as (nl & s5 & E5 & H). apply consume_inv in E5 as (R5 & V5 & G5); [|reflexivity].
  rewrite R4 in R5, G5.
  apply bind_done in H as (tx & s6 & E6 & H). unfold textM in E6. apply lift_done in E6 as [E6 ->].
  assert (Y : b_rest s5 = tb_left (t :: q) /\
              (match nl with Some n => twk not_nl (tb_after_marker (t :: q)) ++ [n] | None => twk not_nl (tb_after_marker (t :: q)) end)
              = tb_line (t :: q)).
  { unfold tb_left, tb_line. cbv zeta. pose proof (dwk_head not_nl (tb_after_marker (t :: q))) as Hh.
    destruct (dwk not_nl (tb_after_marker (t :: q))) as [|a q'].
    - subst nl. split; [exact R5 | reflexivity].
    - specialize (Hh a q' eq_refl). unfold not_nl in Hh. cbn [drop1] in R5.
      destruct (tk_eqb (kind a) KNewline); [|discriminate Hh]. subst nl. split; [exact R5 | reflexivity]. }
  destruct Y as [R5' Y]. rewrite Y in E6. clear Y.
  apply bind_done in H as (u1 & s7 & E7 & H).
  assert (Z : b_rest s7 = tb_left (t :: q) /\ b_evs s7 = line_evs tx ++ b_evs s).
  { unfold line_evs. destruct (is_text_empty tx).
    - unfold ret in E7. inversion E7; subst u1 s7. split; [exact R5' | cbn [app]; congruence].
    - apply event_done in E7 as (R7 & V7 & _). rewrite R7, V7, V5, V4, V2. split; [exact R5' | reflexivity]. }
  destruct Z as [R7 V7].
  apply bind_done in H as (r' & s8 & E8 & H). unfold rest in E8. inversion E8; subst r' s8. clear E8.
  destruct (length (b_rest s7) <? length (t :: q))%nat; [|discriminate].
  exists s7, (current_offset_of s2), tx. repeat split; assumption.
Qed.

(* the loop over a rest that consists of appended blanks and comments only *)
Lemma tbl_tail cfg : forall f s u s',
  Forall tail_tok (b_rest s) -> ne_toks (b_rest s) -> nl_toks (b_rest s) ->
  text_block_loop cfg f s = Done (u, s') -> b_evs s' = b_evs s /\ b_rest s' = [].
Proof.
  intros f s u s' Ht Hn Hl H. destruct f as [|f]; [discriminate|].
  destruct (b_rest s) as [|t q] eqn:R.
  - cbn [text_block_loop] in H. apply bind_done in H as (r0 & s0 & E0 & H). unfold rest in E0. inversion E0; subst r0 s0.
    rewrite R in H. unfold ret in H. inversion H; subst. split; [reflexivity | exact R].
  - apply (tbl_round cfg f s u s' t q R) in H as (sm & off & tx & H & Rm & T & Vm).
    assert (Hm : tb_after_marker (t :: q) = t :: q \/ tb_after_marker (t :: q) = q).
    { unfold tb_after_marker. cbn [hdk drop1]. destruct (tk_eqb (kind t) KTextStep) eqn:E; [|left; reflexivity].
      apply tke_true in E. apply Forall_cons_inv in Ht as [[X | [X _]] _]; rewrite E in X; discriminate X. }
    assert (Ha : Forall tail_tok (tb_after_marker (t :: q))).
    { destruct Hm as [-> | ->]; [exact Ht | apply Forall_cons_inv in Ht as [_ Ht]; exact Ht]. }
    assert (Hna : ne_toks (tb_after_marker (t :: q))).
    { destruct Hm as [-> | ->]; [exact Hn | apply Forall_cons_inv in Hn as [_ Hn]; exact Hn]. }
    assert (Hla : nl_toks (tb_after_marker (t :: q))).
    { destruct Hm as [-> | ->]; [exact Hl | apply Forall_cons_inv in Hl as [_ Hl]; exact Hl]. }
    destruct (twk_all not_nl _ (passes_tail _ _ not_nl_passes Ha)) as [T1 T2].
    unfold tb_left in Rm. unfold tb_line in T. cbv zeta in T. rewrite T2 in Rm, T. rewrite T1 in T. cbn [tl] in Rm.
    assert (Hb : is_text_empty tx = true).
    { rewrite (text_of_empty_render _ _ _ _ Hla Hna T). apply tail_render. exact Ha. }
    unfold line_evs in Vm. rewrite Hb in Vm. cbn [app] in Vm.
    destruct f as [|f]; [discriminate|]. cbn [text_block_loop] in H.
    apply bind_done in H as (r0 & s0 & E0 & H). unfold rest in E0. inversion E0; subst r0 s0.
    rewrite Rm in H. unfold ret in H. inversion H; subst. split; assumption.
Qed.

Lemma Forall_tl {A} (P : A -> Prop) l : Forall P l -> Forall P (tl l).
Proof. intro H. destruct H; [constructor | assumption]. Qed.

Lemma Forall_tb_after {P : tok -> Prop} r : Forall P r -> Forall P (tb_after_marker r).
Proof. intro H. unfold tb_after_marker. destruct (tk_eqb (hdk r) KTextStep); [apply Forall_drop1; apply Forall_drop1|]; exact H. Qed.
Lemma Forall_tb_left {P : tok -> Prop} r : Forall P r -> Forall P (tb_left r).
Proof. intro H. unfold tb_left. apply Forall_tl. apply Forall_dwk. apply Forall_tb_after. exact H. Qed.
Lemma Forall_tb_line {P : tok -> Prop} r : Forall P r -> Forall P (tb_line r).
Proof.
  intro H. unfold tb_line. cbv zeta. pose proof (Forall_dwk not_nl _ (Forall_tb_after r H)) as Hd.
  pose proof (Forall_twk not_nl _ (Forall_tb_after r H)) as Ht.
  destruct (dwk not_nl (tb_after_marker r)) as [|a q]; [exact Ht|].
  apply Forall_app. split; [exact Ht|]. apply Forall_cons_inv in Hd as [Ha _]. constructor; [exact Ha | constructor].
Qed.

(* one round on esim-related rests *)
Lemma esim_tb tl p r1 r2 : p <> KWord -> esimb tl p r1 r2 -> r1 <> [] ->
  (exists tlx px, esimb tlx px (tb_line r1) (tb_line r2))
  /\ exists p', p' <> KWord /\ esimb tl p' (tb_left r1) (tb_left r2).
Proof.
  intros Hp H Hne.
  assert (Hh : hdk r1 = hdk r2).
  { destruct (esim_head _ _ _ _ Hp H Hne) as (t1 & q1 & t2 & q2 & -> & -> & K). exact K. }
  assert (HB : exists pb, pb <> KWord /\ esimb tl pb (tb_after_marker r1) (tb_after_marker r2)).
  { unfold tb_after_marker. rewrite <- Hh. destruct (tk_eqb (hdk r1) KTextStep); [|exists p; split; assumption].
    destruct (esim_drop1 KTextStep _ _ _ _ eq_refl ltac:(discriminate) Hp H) as (pa & Hpa & Ha).
    exact (esim_drop1 KWs _ _ _ _ eq_refl ltac:(discriminate) Hpa Ha). }
  destruct HB as (pb & Hpb & HB). unfold tb_line, tb_left. cbv zeta.
  destruct (esim_split _ _ _ _ _ not_nl_passes HB) as [(A & B & C) | (a & b & q1 & q2 & A & B & K & S & G & C & D)].
  - rewrite A, B. split; [exists tl, pb; exact C|]. exists pb. split; [exact Hpb | apply esim_nil].
  - rewrite A, B. cbn [List.tl].
    assert (Ka : kind a = KNewline).
    { unfold not_nl in G. apply tke_true. destruct (tk_eqb (kind a) KNewline); [reflexivity | discriminate G]. }
    split.
    + exists false, pb. apply esim_app_newline; [exact C | exact Ka | congruence | apply esim_nil].
    + exists (kind a). split; [rewrite Ka; discriminate | exact D].
Qed.

Lemma line_evs_rel t1 t2 : trelw t1 t2 -> Forall2 erelw (line_evs t1) (line_evs t2).
Proof.
  intro H. unfold line_evs. rewrite (trelw_empty _ _ H). destruct (is_text_empty t2); [constructor|].
  constructor; [|constructor]. right. exists t1, t2. repeat split; apply H.
Qed.

Lemma tbl_blind cfg : forall f1 f2 s1 s2 u1 u2 s1' s2' tl p,
  p <> KWord -> esimb tl p (b_rest s1) (b_rest s2) ->
  ne_toks (b_rest s1) -> ne_toks (b_rest s2) -> nl_toks (b_rest s1) -> nl_toks (b_rest s2) ->
  Forall2 erelw (b_evs s1) (b_evs s2) ->
  text_block_loop cfg f1 s1 = Done (u1, s1') -> text_block_loop cfg f2 s2 = Done (u2, s2') ->
  Forall2 erelw (b_evs s1') (b_evs s2') /\ b_rest s1' = [] /\ b_rest s2' = [].
Proof.
  induction f1 as [|f1 IH]; intros f2 s1 s2 u1 u2 s1' s2' tl p Hp H N1 N2 L1 L2 HE E1 E2; [discriminate|].
  destruct (b_rest s1) as [|t1 q1] eqn:R1.
  - cbn [text_block_loop] in E1. apply bind_done in E1 as (r0 & s0 & E0 & E1). unfold rest in E0.
    inversion E0; subst r0 s0. rewrite R1 in E1. unfold ret in E1. inversion E1; subst u1 s1'.
    apply esim_left_nil in H. destruct (tbl_tail cfg _ _ _ _ H N2 L2 E2) as [V2 X2].
    rewrite V2. split; [exact HE|]. split; assumption.
  - assert (Hne : t1 :: q1 <> []) by discriminate.
    destruct (esim_head _ _ _ _ Hp H Hne) as (t1' & q1' & t2 & q2 & X & R2 & K). clear t1' q1' X K.
    destruct f2 as [|f2]; [discriminate|].
    apply (tbl_round cfg f1 s1 u1 s1' t1 q1 R1) in E1 as (m1 & off1 & tx1 & E1 & Rm1 & T1 & Vm1).
    apply (tbl_round cfg f2 s2 u2 s2' t2 q2 R2) in E2 as (m2 & off2 & tx2 & E2 & Rm2 & T2 & Vm2).
    rewrite R2 in *.
    destruct (esim_tb _ _ _ _ Hp H Hne) as ((tlx & px & Hline) & (p' & Hp' & Hleft)).
    destruct (esim_text cfg _ _ _ _ _ _ _ _ Hline (Forall_tb_line _ N1) (Forall_tb_line _ N2)
                (Forall_tb_line _ L1) (Forall_tb_line _ L2) T1 T2) as [Ht _].
    apply (IH f2 m1 m2 u1 u2 s1' s2' tl p' Hp'); try assumption.
    + rewrite Rm1, Rm2. exact Hleft.
    + rewrite Rm1. apply Forall_tb_left. exact N1.
    + rewrite Rm2. apply Forall_tb_left. exact N2.
    + rewrite Rm1. apply Forall_tb_left. exact L1.
    + rewrite Rm2. apply Forall_tb_left. exact L2.
    + rewrite Vm1, Vm2. apply Forall2_app; [apply line_evs_rel; exact Ht | exact HE].
Qed.

Lemma text_block_char cfg old t q evs l :
  kind t = KTextStep ->
  run_block (t :: q) evs (parse_block cfg old) = Done l ->
  exists f s0 u s', b_rest s0 = t :: q /\ b_evs s0 = EvStart false :: evs
                    /\ text_block_loop cfg f s0 = Done (u, s') /\ l = EvEnd false :: b_evs s'.
Proof.
  intros Hk H. apply run_block_done in H as (u & s & H & R & ->).
  unfold parse_block in H. apply bind_done in H as (k & s0 & E0 & H).
  unfold peek, peek_of, st0 in E0. cbn [b_rest] in E0. inversion E0; subst k s0. clear E0. rewrite Hk in H.
  apply bind_done in H as (mos & s1 & E1 & H). unfold ret in E1. inversion E1; subst mos s1. clear E1.
  unfold parse_multiline_block in H. apply bind_done in H as (al & s0 & E0 & H).
  unfold all_tokens in E0. cbn [b_all] in E0. inversion E0; subst al s0. clear E0.
  cbn [forallb] in H. rewrite Hk in H. cbn [is_empty_tok andb] in H.
  apply bind_done in H as (k & s0 & E0 & H). unfold peek, peek_of in E0. cbn [b_rest] in E0.
  inversion E0; subst k s0. clear E0. rewrite Hk in H. unfold parse_text_block in H.
  apply bind_done in H as (u0 & s2 & E2 & H). apply event_done in E2 as (R2 & V2 & _). cbn [b_rest b_evs] in R2, V2.
  apply bind_done in H as (r0 & s0 & E0 & H). unfold rest in E0. inversion E0; subst r0 s0. clear E0.
  apply bind_done in H as (u1 & s3 & E3 & H). apply event_done in H as (_ & V & _).
  exists (S (length (b_rest s2))), s2, u1, s3. repeat split; assumption.
Qed.

(* a text block: the same items, the last one equal up to the appended blanks *)
Theorem text_block_blind cfg old b1 b2 evs1 evs2 l1 l2 :
  esim KEof b1 b2 ->
  (exists t q, b1 = t :: q /\ kind t = KTextStep) ->
  ne_toks b1 -> ne_toks b2 -> nl_toks b1 -> nl_toks b2 ->
  Forall2 erelw evs1 evs2 ->
  run_block b1 evs1 (parse_block cfg old) = Done l1 ->
  run_block b2 evs2 (parse_block cfg old) = Done l2 ->
  Forall2 erelw l1 l2.
Proof.
  intros H (t1 & q1 & -> & Hk) N1 N2 L1 L2 HE R1 R2.
  assert (Hp : KEof <> KWord) by discriminate.
  destruct (esim_head _ _ _ _ Hp H ltac:(discriminate)) as (t1' & q1' & t2 & q2 & X & -> & K).
  inversion X; subst t1' q1'. clear X.
  apply text_block_char in R1 as (f1 & a1 & u1 & s1' & Ra1 & Va1 & E1 & ->); [|exact Hk].
  apply text_block_char in R2 as (f2 & a2 & u2 & s2' & Ra2 & Va2 & E2 & ->); [|congruence].
  rewrite <- Ra1, <- Ra2 in H. rewrite <- Ra1 in N1, L1. rewrite <- Ra2 in N2, L2.
  assert (HE' : Forall2 erelw (b_evs a1) (b_evs a2)).
  { rewrite Va1, Va2. constructor; [left; reflexivity | exact HE]. }
  destruct (tbl_blind cfg _ _ _ _ _ _ _ _ _ _ Hp H N1 N2 L1 L2 HE' E1 E2) as (Hev & _ & _).
  constructor; [left; reflexivity | exact Hev].
Qed.

(* ---------------------------------------------------------------- where esim comes from *)
Lemma esim_shift tl p n ts : esimb tl p ts (shift n ts).
Proof.
  revert p. induction ts as [|t r IH]; intro p; [apply esim_nil|]. cbn [shift map].
  destruct (is_comment (kind t)) eqn:E.
  - apply esim_comment; [reflexivity | exact E | apply IH].
  - apply esim_same; [reflexivity | reflexivity | exact E | apply IH].
Qed.

(* a comment token directly after a word token (the tokens behind it move by its length) *)
Lemma esim_insert_after_word tl p ta w tb cm n :
  kind w = KWord -> is_comment (kind cm) = true ->
  esimb tl p (ta ++ w :: tb) (ta ++ w :: cm :: shift n tb).
Proof.
  intros Hw Hc. revert p. induction ta as [|t r IH]; intro p; cbn [app].
  - apply esim_same; [reflexivity | reflexivity | rewrite Hw; reflexivity|]. rewrite Hw.
    apply esim_ins; [exact Hc | apply esim_shift].
  - destruct (is_comment (kind t)) eqn:E.
    + apply esim_comment; [reflexivity | exact E | apply IH].
    + apply esim_same; [reflexivity | reflexivity | exact E | apply IH].
Qed.

(* blanks and comments appended at the end *)
Lemma esim_append_tail p ts suffix : Forall tail_tok suffix -> esim p ts (ts ++ suffix).
Proof.
  intro H. revert p. induction ts as [|t r IH]; intro p; cbn [app].
  - apply esim_tail; [reflexivity | exact H].
  - destruct (is_comment (kind t)) eqn:E.
    + apply esim_comment; [reflexivity | exact E | apply IH].
    + apply esim_same; [reflexivity | reflexivity | exact E | apply IH].
Qed.

Lemma esimb_trans_tail p r1 r2 suffix : esim p r1 r2 -> Forall tail_tok suffix -> esim p r1 (r2 ++ suffix).
Proof.
  intros H Hs. unfold esim in *.
  induction H as [p | p a b r1 r2 Hk Hs' Hc H IH | p a b r1 r2 Ha Hb H IH
                 | p a b r1 r2 Hk Hc H IH | r1 r2 b Hc H IH | p sfx Ht Hf]; cbn [app].
  - apply esim_tail; [reflexivity | exact Hs].
  - apply esim_same; assumption.
  - apply esim_newline; assumption.
  - apply esim_comment; assumption.
  - apply esim_ins; assumption.
  - apply esim_tail; [reflexivity | apply Forall_app; split; assumption].
Qed.

(* ---------------------------------------------------------------- the hypotheses are satisfiable *)
Definition ex_cfg : pcfg :=
  {| p_ext := 0; p_debug := true; p_strict_escape := false; p_note_label_old := false; p_fm_anywhere := false |}.
Definition mk (k : tkind) (s : str) (o : N) : tok := {| kind := k; tstr := s; tstart := o |}.
(* ">>a:b"  and  ">>a[-x-]:b --c" *)
Definition ex_meta1 : list tok := [mk KMeta [62; 62] 0; mk KWord [97] 2; mk KColon [58] 3; mk KWord [98] 4].
Definition ex_meta2 : list tok :=
  [mk KMeta [62; 62] 0; mk KWord [97] 2; mk KBlockComment [91; 45; 120; 45; 93] 3; mk KColon [58] 8; mk KWord [98] 9;
   mk KWs [32] 10; mk KLineComment [45; 45; 99] 11].

Example ex_meta_esim : esim KMeta (List.tl ex_meta1) (List.tl ex_meta2).
Proof.
  cbn [List.tl ex_meta1 ex_meta2]. apply esim_same; [reflexivity | reflexivity | reflexivity|]. cbn [kind mk].
  apply esim_ins; [reflexivity|]. apply esim_same; [reflexivity | reflexivity | reflexivity|]. cbn [kind mk].
  apply esim_same; [reflexivity | reflexivity | reflexivity|]. cbn [kind mk].
  apply esim_tail; [reflexivity|]. constructor; [right; split; reflexivity|]. constructor; [left; reflexivity | constructor].
Qed.

Example ex_meta_runs :
  exists l1 l2, run_block ex_meta1 [] (parse_block ex_cfg true) = Done l1
                /\ run_block ex_meta2 [] (parse_block ex_cfg true) = Done l2 /\ length l1 = 1%nat.
Proof. eexists _, _. split; [vm_compute; reflexivity|]. split; [vm_compute; reflexivity | reflexivity]. Qed.

(* "=a="  and  "=a[-x-]= " *)
Definition ex_sec1 : list tok := [mk KEq [61] 0; mk KWord [97] 1; mk KEq [61] 2].
Definition ex_sec2 : list tok :=
  [mk KEq [61] 0; mk KWord [97] 1; mk KBlockComment [91; 45; 120; 45; 93] 2; mk KEq [61] 7; mk KWs [32] 8].

Example ex_sec_esim : esim KEq (List.tl ex_sec1) (List.tl ex_sec2).
Proof.
  cbn [List.tl ex_sec1 ex_sec2]. apply esim_same; [reflexivity | reflexivity | reflexivity|]. cbn [kind mk].
  apply esim_ins; [reflexivity|]. apply esim_same; [reflexivity | reflexivity | reflexivity|]. cbn [kind mk].
  apply esim_tail; [reflexivity|]. constructor; [right; split; reflexivity | constructor].
Qed.

Example ex_sec_runs :
  exists l1 l2, run_block ex_sec1 [] (parse_block ex_cfg false) = Done l1
                /\ run_block ex_sec2 [] (parse_block ex_cfg false) = Done l2 /\ length l1 = 1%nat.
Proof. eexists _, _. split; [vm_compute; reflexivity|]. split; [vm_compute; reflexivity | reflexivity]. Qed.

Print Assumptions metadata_block_blind.
Print Assumptions section_block_blind.
Print Assumptions plain_step_block_blind.
Print Assumptions text_block_blind.
