(* C04_events_ordered: the spans of the non-diagnostic events of the pull-parser model appear in
   source order and do not overlap.  [ev_main_span] is the span the monitor of
   harness/src/bin/pmon.rs orders ([ev_span]: a text's span, a metadata entry from the start of
   its key to the end of its value, a section's name, a component's span, the front matter
   text; none for Start/End/diagnostics), [ordered] its test `c04:order` on consecutive spans.

   Proof: the queue invariant [below evs c] (every main span pushed so far is well formed, ends
   at or before c, and the spans are ordered) is carried through the traversal of
   Proofs/ParserTotal.v with c = the offset of the consumed tokens ([current_offset_of]), which
   never decreases.  Functions below the block level push diagnostics only (Proofs/ParserWp.v),
   so only the block-level functions are visited again here; a component's span is exactly
   (offset before, offset after) of its parser ([comp_span]). *)
From CL Require Import Base.StrLemmas Model.Lexer Model.Parser Proofs.LexerProofs Proofs.ParserSeg
  Proofs.ParserSplit Proofs.ParserFM Proofs.ParserTotal Proofs.ParserWp.

(* ------------------------------------------------------------------ the statement *)

Definition ev_main_span (ev : pevent) : option span :=
  match ev with
  | EvYaml t | EvText t => Some (text_span t)
  | EvMetadata k v => Some (fst (text_span k), N.max (snd (text_span v)) (snd (text_span k)))
  | EvSection n => option_map text_span n
  | EvIngredient i => Some (i_span i)
  | EvCookware c => Some (c_span c)
  | EvTimer t => Some (t_span t)
  | EvStart _ | EvEnd _ | EvDiag _ => None
  end.

Definition main_spans (evs : list pevent) : list span :=
  flat_map (fun e => match ev_main_span e with Some sp => [sp] | None => [] end) evs.

(* the test of the monitor on each window of two consecutive spans *)
Fixpoint ordered (l : list span) : Prop :=
  match l with
  | a :: r => match r with
              | b :: _ => snd a <= fst b /\ fst a <= fst b
              | [] => True
              end /\ ordered r
  | [] => True
  end.

(* ------------------------------------------------------------------ the queue invariant *)

(* evs is newest first *)
Fixpoint below (evs : list pevent) (c : N) : Prop :=
  match evs with
  | [] => True
  | e :: r => match ev_main_span e with
              | None => below r c
              | Some sp => fst sp <= snd sp /\ snd sp <= c /\ below r (fst sp)
              end
  end.

Lemma below_mono evs : forall c c', below evs c -> c <= c' -> below evs c'.
Proof.
  induction evs as [|e r IH]; intros c c' H Hle; cbn [below] in *; [exact I|].
  destruct (ev_main_span e) as [sp|]; [|eapply IH; eassumption].
  destruct H as (A & B & C). split; [exact A|]. split; [lia|exact C].
Qed.

Lemma below_diags ds evs c : Forall (fun e => is_diag e = true) ds -> below evs c -> below (ds ++ evs) c.
Proof.
  induction 1 as [|d ds Hd _ IH]; intro H; cbn [app]; [exact H|].
  destruct d; try discriminate. cbn [below ev_main_span]. apply IH. exact H.
Qed.

Lemma below_quiet s s' c : quiet s s' -> below (b_evs s) c -> below (b_evs s') c.
Proof. intros (ds & E & F) H. rewrite E. apply below_diags; assumption. Qed.

Lemma main_spans_app a b : main_spans (a ++ b) = main_spans a ++ main_spans b.
Proof. unfold main_spans. apply flat_map_app. Qed.

Lemma main_spans_cons e r :
  main_spans (e :: r) = (match ev_main_span e with Some sp => [sp] | None => [] end) ++ main_spans r.
Proof. reflexivity. Qed.

Lemma ordered_snoc l b :
  ordered l -> Forall (fun x => snd x <= fst b /\ fst x <= fst b) l -> ordered (l ++ [b]).
Proof.
  induction l as [|a r IH]; intros Ho Hf; cbn [app ordered]; [tauto|].
  inversion Hf as [|? ? Ha Hr]; subst. destruct Ho as (Ho1 & Ho2). split; [|apply IH; assumption].
  destruct r as [|b0 r']; cbn [app]; [exact Ha|exact Ho1].
Qed.

Lemma below_spans evs : forall c, below evs c ->
  Forall (fun sp => fst sp <= snd sp /\ snd sp <= c) (main_spans evs).
Proof.
  induction evs as [|e r IH]; intros c H; cbn [below] in H; [constructor|].
  rewrite main_spans_cons.
  destruct (ev_main_span e) as [sp|]; cbn [app]; [|apply IH; exact H].
  destruct H as (A & B & C). constructor; [tauto|].
  eapply Forall_impl; [|apply IH; exact C]. cbn beta. intros x (X1 & X2). split; [exact X1|lia].
Qed.

Lemma main_spans_rev l : main_spans (rev l) = rev (main_spans l).
Proof.
  induction l as [|e r IH]; [reflexivity|]. cbn [rev]. rewrite main_spans_app, IH.
  rewrite (main_spans_cons e r), (main_spans_cons e []), rev_app_distr. f_equal.
  destruct (ev_main_span e); reflexivity.
Qed.

Lemma below_ordered evs : forall c, below evs c -> ordered (main_spans (rev evs)).
Proof.
  induction evs as [|e r IH]; intros c H; cbn [rev]; [exact I|].
  rewrite main_spans_app. cbn [below] in H.
  rewrite (main_spans_cons e []).
  destruct (ev_main_span e) as [sp|]; cbn [app].
  - destruct H as (A & B & C). apply ordered_snoc; [eapply IH; exact C|].
    rewrite main_spans_rev. apply Forall_rev. eapply Forall_impl; [|apply (below_spans r _ C)].
    cbn beta. intros x (X1 & X2). lia.
  - rewrite !app_nil_r. eapply IH; exact H.
Qed.

(* ------------------------------------------------------------------ the span of a component *)

Notation cur := current_offset_of.

Definition comp_span (s : bp) (o : option pevent) (s' : bp) : Prop :=
  forall ev, o = Some ev -> ev_main_span ev = Some (cur s, cur s').

Lemma comp_span_none s s' : comp_span s None s'.
Proof. intros ev H. discriminate. Qed.

Ltac wskip :=
  lazymatch goal with
  | |- wp (obindM _ _) _ _ => apply wp_oskip; [intros ?; apply comp_span_none|intros ? ?]
  | |- wp (bind _ _) _ _ => apply wp_skip; intros ? ?
  end.

Ltac wstay :=
  eapply (wp_rel true); [first [solve [auto with prel] | rel_auto]|intros ? ? ?];
  repeat match goal with |- wp (let (_, _) := ?x in _) _ _ => destruct x end.

Section Comp.
  Variable cfg : pcfg.

  Lemma wp_ingredient_span s : wp (ingredient_p cfg) s (comp_span s).
  Proof.
    unfold ingredient_p. apply wp_bind, wp_current_offset. do 6 wskip.
    apply wp_bind, wp_current_offset.
    wstay. wstay. wstay. wstay.
    apply wp_ret. intros ev E. injection E as <-. cbn [ev_main_span i_span]. do 2 f_equal.
    repeat match goal with H : rl true _ _ |- _ => apply rl_true_cur in H end. congruence.
  Qed.

  Lemma wp_cookware_span s : wp (cookware_p cfg) s (comp_span s).
  Proof.
    unfold cookware_p. apply wp_bind, wp_current_offset. do 6 wskip.
    apply wp_bind, wp_current_offset.
    wstay. wstay. wstay. wstay. wstay. wstay.
    apply wp_ret. intros ev E. injection E as <-. cbn [ev_main_span c_span]. do 2 f_equal.
    repeat match goal with H : rl true _ _ |- _ => apply rl_true_cur in H end. congruence.
  Qed.

  Lemma wp_timer_span s : wp (timer_p cfg) s (comp_span s).
  Proof.
    unfold timer_p. apply wp_bind, wp_current_offset. do 4 wskip.
    apply wp_bind, wp_current_offset.
    wstay. wstay. wstay. wstay. wstay. wstay. wstay.
    apply wp_ret. intros ev E. injection E as <-. cbn [ev_main_span t_span]. do 2 f_equal.
    repeat match goal with H : rl true _ _ |- _ => apply rl_true_cur in H end. congruence.
  Qed.

  (* with_recover keeps the end state of a successful attempt *)
  Lemma wp_with_recover_some {A} (m : M (option A)) s (Q : option A -> bp -> Prop) :
    wp m s Q -> (forall s1 s2, Q None s1 -> Q None s2) -> wp (with_recover m) s Q.
  Proof.
    intros H HN a s' E. unfold with_recover in E. destruct (m s) as [[[x|] s1]|p] eqn:Em; [| |discriminate].
    - injection E as <- <-. apply H. exact Em.
    - injection E as <- <-. eapply HN. apply H. exact Em.
  Qed.

  Lemma step_comp_wp s :
    wp (match peek_of s with
        | KAt => with_recover (ingredient_p cfg)
        | KHash => with_recover (cookware_p cfg)
        | KTilde => with_recover (timer_p cfg)
        | _ => ret None
        end) s (fun o s' => quiet s s' /\ comp_span s o s').
  Proof.
    assert (H : forall m, rel false m -> wp m s (comp_span s) ->
                wp (with_recover m) s (fun o s' => quiet s s' /\ comp_span s o s')).
    { intros m Hr Hs a s' E. split.
      - eapply rl_quiet. eapply (rel_with_recover false); [exact Hr|exact E].
      - revert a s' E. apply wp_with_recover_some; [exact Hs|]. intros s1 s2 _. apply comp_span_none. }
    destruct (peek_of s); try (apply wp_ret; split; [apply quiet_refl|apply comp_span_none]); apply H; auto with prel.
    - apply wp_ingredient_span.
    - apply wp_cookware_span.
    - apply wp_timer_span.
  Qed.
End Comp.

(* a totality fact and a partial-correctness fact about the same run *)
Lemma runs_wp {A} (m : M A) s (R Q : A -> bp -> Prop) :
  runs m s R -> wp m s Q -> runs m s (fun a s' => R a s' /\ Q a s').
Proof. intros (a & s' & E & H) Hq. exists a, s'. split; [exact E|]. split; [exact H|apply Hq; exact E]. Qed.

(* ------------------------------------------------------------------ the traversal above the components *)

Section Order.
  Variable src : str.
  Variable cfg : pcfg.
  Hypothesis no_strict : p_strict_escape cfg = false.

  Notation wf := (wf src cfg).
  Notation after := (after src cfg).
  Notation took := (took src cfg).
  Notation ev_ok := (ev_ok src cfg).
  Notation seg := (seg src).

  (* the queue invariant moves along with the position *)
  Definition ord (s s' : bp) : Prop := below (b_evs s) (cur s) -> below (b_evs s') (cur s').

  (* the main span of an event lies inside [lo, hi] *)
  Definition ev_in (ev : pevent) (lo hi : N) : Prop :=
    match ev_main_span ev with
    | Some sp => lo <= fst sp /\ fst sp <= snd sp /\ snd sp <= hi
    | None => True
    end.

  Lemma below_push ev evs lo hi c : below evs lo -> ev_in ev lo hi -> lo <= hi <= c -> below (ev :: evs) c.
  Proof.
    intros H Hi Hc. unfold ev_in in Hi. cbn [below]. destruct (ev_main_span ev) as [sp|].
    - destruct Hi as (A & B & C). split; [exact B|]. split; [lia|]. eapply below_mono; eassumption.
    - eapply below_mono; [exact H|]. lia.
  Qed.

  (* [event] with what it does to the queue *)
  Lemma runs_event' ev s (R : unit -> bp -> Prop) :
    wf s -> ev_ok ev ->
    (forall s', wf s' -> same_pos s s' -> b_evs s' = ev :: b_evs s -> R tt s') -> runs (event ev) s R.
  Proof.
    intros Hw He HR. eexists tt, _. split; [reflexivity|]. apply HR.
    - eapply wf_same_pos; [exact Hw|unfold same_pos; cbn; tauto|]. cbn [b_evs]. constructor; [exact He|apply (wf_evs src cfg); exact Hw].
    - unfold same_pos; cbn. tauto.
    - reflexivity.
  Qed.

  (* [with_recover] with what it does to the queue on failure *)
  Lemma runs_with_recover' {A} (m : M (option A)) s (R : option A -> bp -> Prop) :
    wf s ->
    runs m s (fun o s' => wf s' /\
       match o with
       | Some a => R (Some a) s'
       | None => forall s'', wf s'' -> same_pos s s'' -> b_evs s'' = b_evs s' -> R None s''
       end) ->
    runs (with_recover m) s R.
  Proof.
    intros Hw (o & s' & E & Hw' & H). unfold with_recover, runs. rewrite E. destruct o as [a|].
    - eexists _, _. split; [reflexivity|exact H].
    - eexists _, _. split; [reflexivity|]. apply H.
      + eapply wf_same_pos; [exact Hw|unfold same_pos; cbn; tauto|]. cbn [b_evs]. apply (wf_evs src cfg). exact Hw'.
      + unfold same_pos; cbn; tauto.
      + reflexivity.
  Qed.

  Lemma took_evs s c s' : took s c s' -> b_evs s' = b_evs s.
  Proof. unfold ParserTotal.took. tauto. Qed.

  (* ---------------------------------------------------------------- steps *)

  Lemma step_loop_ord fuel : forall s, wf s -> (length (b_rest s) < fuel)%nat ->
    runs (step_loop cfg fuel) s (fun _ s' => after s s' /\ b_rest s' = [] /\ ord s s').
  Proof.
    induction fuel as [|f IH]; intros s Hw Hl; [lia|]. cbn [step_loop].
    apply runs_bind, runs_rest. destruct (b_rest s) as [|r0 rr] eqn:Er.
    - apply runs_ret. split; [apply after_refl; exact Hw|]. split; [exact Er|]. intro H; exact H.
    - rewrite <- Er in *. apply runs_bind, runs_peek. apply runs_bind.
      eapply runs_conseq; [apply runs_wp; [apply (step_comp_spec src cfg no_strict); exact Hw|apply step_comp_wp]|].
      intros [ev|] s1 ((Hw1 & H1) & (Q1 & Hsp)).
      + destruct H1 as (Ha1 & Hev & Hl1). apply runs_bind. apply runs_event'; [exact Hw1|exact Hev|].
        intros s2 Hw2 Hp2 Ee2. eapply runs_conseq; [apply IH; [exact Hw2|rewrite (same_pos_rest _ _ Hp2); lia]|].
        intros u s3 (Ha3 & E3 & O3). split; [|split; [exact E3|]].
        * eapply after_trans; [exact Ha1|]. eapply after_pre; [exact Hp2|exact Hw2|exact Ha3].
        * intro B0. apply O3. rewrite Ee2, (same_pos_cur _ _ Hp2).
          pose proof (after_cur_le _ _ _ _ Hw Ha1) as Hle.
          eapply (below_push ev _ (cur s) (cur s1)); [eapply below_quiet; eassumption| |lia].
          unfold ev_in. rewrite (Hsp ev eq_refl). cbn [fst snd]. lia.
      + apply runs_bind, runs_current_offset. apply runs_bind.
        apply (runs_bump_any src cfg); [exact Hw1|rewrite (same_pos_rest _ _ H1), Er; discriminate|].
        intros t0 s2 Ht2 _ _ _ _. pose proof (took_wf _ _ _ _ _ Ht2) as Hw2. apply runs_bind.
        apply (runs_consume_while src cfg); [exact Hw2|]. intros more s3 Ht3 _ _. pose proof (took_wf _ _ _ _ _ Ht3) as Hw3.
        apply runs_bind. eapply (runs_textM src cfg no_strict).
        { change (t0 :: more) with ([t0] ++ more). apply seg_app. exists (cur s2). split; eapply took_seg; eassumption. }
        intros t Ht. apply runs_bind.
        assert (Hl3 : (length (b_rest s3) < f)%nat).
        { apply took_len in Ht2, Ht3. rewrite (same_pos_rest _ _ H1) in Ht2. cbn [length] in *. lia. }
        assert (Ha3 : after s s3).
        { eapply after_pre; [exact H1|exact Hw1|]. eapply after_took; [exact Ht2|eapply took_after; exact Ht3]. }
        assert (Ec1 : cur s1 = cur s) by (apply same_pos_cur; exact H1).
        assert (Ee3 : b_evs s3 = b_evs s1) by (rewrite (took_evs _ _ _ Ht3); apply (took_evs _ _ _ Ht2)).
        pose proof (after_cur_le _ _ _ _ Hw Ha3) as Hle3.
        assert (Hgo : forall s4, wf s4 -> same_pos s3 s4 -> (below (b_evs s) (cur s) -> below (b_evs s4) (cur s3)) ->
                  runs (step_loop cfg f) s4 (fun _ s' => after s s' /\ b_rest s' = [] /\ ord s s')).
        { intros s4 Hw4 Hp4 Hb4. eapply runs_conseq; [apply IH; [exact Hw4|rewrite (same_pos_rest _ _ Hp4); exact Hl3]|].
          intros u s5 (Ha5 & E5 & O5). split; [|split; [exact E5|]].
          - eapply after_trans; [exact Ha3|]. eapply after_pre; [exact Hp4|exact Hw4|exact Ha5].
          - intro B0. apply O5. rewrite (same_pos_cur _ _ Hp4). apply Hb4. exact B0. }
        destruct (frags t) eqn:Ef.
        * apply runs_ret. apply Hgo; [exact Hw3|apply same_pos_refl|].
          intro B0. rewrite Ee3. eapply below_mono; [eapply below_quiet; eassumption|exact Hle3].
        * apply runs_event'; [exact Hw3|apply Ht|]. intros s4 Hw4 Hp4 Ee4. apply Hgo; [exact Hw4|exact Hp4|].
          intro B0. rewrite Ee4, Ee3. pose proof (text_in_le _ _ _ _ Ht) as (L1 & L2 & L3).
          eapply (below_push _ _ (cur s) (cur s3)); [eapply below_quiet; eassumption| |lia].
          unfold ev_in. cbn [ev_main_span]. rewrite Ec1 in L1. lia.
  Qed.

  Lemma parse_step_ord s : wf s ->
    runs (parse_step cfg) s (fun _ s' => after s s' /\ b_rest s' = [] /\ ord s s').
  Proof.
    intro Hw. unfold parse_step. apply runs_bind. apply runs_event'; [exact Hw|exact I|].
    intros s1 Hw1 Hp1 Ee1. apply runs_bind, runs_rest. apply runs_bind.
    eapply runs_conseq; [apply step_loop_ord; [exact Hw1|lia]|]. intros u s2 (Ha2 & E2 & O2).
    apply runs_event'; [apply Ha2|exact I|]. intros s3 Hw3 Hp3 Ee3.
    split; [|split; [rewrite (same_pos_rest _ _ Hp3); exact E2|]].
    - eapply after_pre; [exact Hp1|exact Hw1|]. eapply after_trans; [exact Ha2|apply after0_after; split; [exact Hw3|exact Hp3]].
    - intro B0. rewrite Ee3, (same_pos_cur _ _ Hp3). cbn [below ev_main_span]. apply O2.
      rewrite Ee1, (same_pos_cur _ _ Hp1). cbn [below ev_main_span]. exact B0.
  Qed.

  (* ---------------------------------------------------------------- text blocks *)

  Lemma text_block_loop_ord fuel : forall s, wf s -> (length (b_rest s) < fuel)%nat ->
    runs (text_block_loop cfg fuel) s (fun _ s' => after s s' /\ b_rest s' = [] /\ ord s s').
  Proof.
    induction fuel as [|f IH]; intros s Hw Hl; [lia|]. cbn [text_block_loop].
    apply runs_bind, runs_rest. destruct (b_rest s) as [|r0 rr] eqn:Er.
    - apply runs_ret. split; [apply after_refl; exact Hw|]. split; [exact Er|]. intro H; exact H.
    - rewrite <- Er in *. assert (Hne : b_rest s <> []) by (rewrite Er; discriminate).
      assert (Hline : forall s2, wf s2 -> after s s2 -> b_evs s2 = b_evs s ->
                (b_rest s2 = b_rest s \/ (length (b_rest s2) < length (b_rest s))%nat) ->
        runs (start <- current_offset ;;
              line <- consume_while (fun k => negb (tk_eqb k KNewline)) ;;
              nl <- consume KNewline ;;
              (let ts := match nl with Some n => line ++ [n] | None => line end in
               t <- textM cfg start ts ;;
               (if is_text_empty t then ret tt else event (EvText t)) ;;;
               r' <- rest ;;
               (if (length r' <? length (b_rest s))%nat then text_block_loop cfg f else panic site_fuel))) s2
          (fun _ s' => after s s' /\ b_rest s' = [] /\ ord s s')).
      { intros s2 Hw2 Ha2 Ee2 Hprog. apply runs_bind, runs_current_offset. apply runs_bind.
        apply (runs_consume_while src cfg); [exact Hw2|]. intros line s3 Ht3 _ Hstop. pose proof (took_wf _ _ _ _ _ Ht3) as Hw3.
        apply runs_bind.
        pose proof (after_cur_le _ _ _ _ Hw Ha2) as Hle2.
        assert (Hrest : forall ts s4, wf s4 -> seg (cur s2) ts (cur s4) -> after s s4 -> b_evs s4 = b_evs s ->
                  (length (b_rest s4) < length (b_rest s))%nat ->
                  runs (t <- textM cfg (cur s2) ts ;;
                        (if is_text_empty t then ret tt else event (EvText t)) ;;;
                        r' <- rest ;;
                        (if (length r' <? length (b_rest s))%nat then text_block_loop cfg f else panic site_fuel)) s4
                    (fun _ s' => after s s' /\ b_rest s' = [] /\ ord s s')).
        { intros ts s4 Hw4 Hseg Ha4 Ee4 Hl4. apply runs_bind. eapply (runs_textM src cfg no_strict); [exact Hseg|]. intros t Ht.
          apply runs_bind.
          pose proof (after_cur_le _ _ _ _ Hw Ha4) as Hle4.
          assert (Hgo : forall s5, wf s5 -> same_pos s4 s5 -> (below (b_evs s) (cur s) -> below (b_evs s5) (cur s4)) ->
             runs (r' <- rest ;; (if (length r' <? length (b_rest s))%nat then text_block_loop cfg f else panic site_fuel)) s5
               (fun _ s' => after s s' /\ b_rest s' = [] /\ ord s s')).
          { intros s5 Hw5 Hp5 Hb5. apply runs_bind, runs_rest. rewrite (same_pos_rest _ _ Hp5).
            destruct (Nat.ltb_spec (length (b_rest s4)) (length (b_rest s))) as [_|Hc]; [|lia].
            eapply runs_conseq; [apply IH; [exact Hw5|rewrite (same_pos_rest _ _ Hp5); lia]|].
            intros u s6 (Ha6 & E6 & O6). split; [|split; [exact E6|]].
            - eapply after_trans; [exact Ha4|]. eapply after_pre; [exact Hp5|exact Hw5|exact Ha6].
            - intro B0. apply O6. rewrite (same_pos_cur _ _ Hp5). apply Hb5. exact B0. }
          destruct (is_text_empty t).
          - apply runs_ret. apply Hgo; [exact Hw4|apply same_pos_refl|].
            intro B0. rewrite Ee4. eapply below_mono; [exact B0|exact Hle4].
          - apply runs_event'; [exact Hw4|apply Ht|]. intros s5 Hw5 Hp5 Ee5. apply Hgo; [exact Hw5|exact Hp5|].
            intro B0. rewrite Ee5, Ee4. pose proof (text_in_le _ _ _ _ Ht) as (L1 & L2 & L3).
            eapply (below_push _ _ (cur s) (cur s4)); [exact B0| |lia].
            unfold ev_in. cbn [ev_main_span]. lia. }
        pose proof (took_len _ _ _ _ _ Ht3) as Hlen3.
        apply (runs_consume src cfg); [exact Hw3|discriminate| |].
        + intros n s4 Ht4 _ _ _ _ _. cbv zeta. pose proof (took_len _ _ _ _ _ Ht4) as Hlen4. cbn [length] in Hlen4.
          apply Hrest; [eapply took_wf; exact Ht4| | | |].
          * apply seg_app. exists (cur s3). split; eapply took_seg; eassumption.
          * eapply after_trans; [exact Ha2|]. eapply after_took; [exact Ht3|eapply took_after; exact Ht4].
          * rewrite (took_evs _ _ _ Ht4), (took_evs _ _ _ Ht3). exact Ee2.
          * destruct Hprog as [E|Hlt]; [rewrite <- E|]; lia.
        + intros Hpk. cbv zeta. apply Hrest; [exact Hw3|eapply took_seg; exact Ht3| | |].
          * eapply after_trans; [exact Ha2|eapply took_after; exact Ht3].
          * rewrite (took_evs _ _ _ Ht3). exact Ee2.
          * destruct Hprog as [E|Hlt]; [|lia]. rewrite <- E.
            destruct line as [|l0 lr]; [|cbn [length] in Hlen3; lia]. exfalso.
            cbn [length] in Hlen3. destruct (b_rest s3) as [|x xr] eqn:Ex.
            -- rewrite E, Er in Hlen3. cbn [length] in Hlen3. lia.
            -- apply Hpk. rewrite (peek_of_cons _ _ _ Ex). apply negb_false_iff in Hstop. apply tk_eqb_true in Hstop. exact Hstop. }
      apply runs_bind. apply (runs_consume src cfg); [exact Hw|discriminate| |].
      + intros g s1 Ht1 _ _ _ _ _. pose proof (took_wf _ _ _ _ _ Ht1) as Hw1. pose proof (took_len _ _ _ _ _ Ht1) as Hl1.
        cbn [length] in Hl1. apply runs_bind. apply runs_bind. apply (runs_consume src cfg); [exact Hw1|discriminate| |].
        * intros w s2 Ht2 _ _ _ _ _. apply runs_ret. pose proof (took_len _ _ _ _ _ Ht2) as Hl2. cbn [length] in Hl2.
          apply Hline; [eapply took_wf; exact Ht2| | |right; lia].
          -- eapply after_took; [exact Ht1|eapply took_after; exact Ht2].
          -- rewrite (took_evs _ _ _ Ht2). apply (took_evs _ _ _ Ht1).
        * intros _. apply runs_ret. apply Hline; [exact Hw1|eapply took_after; exact Ht1|apply (took_evs _ _ _ Ht1)|right; lia].
      + intros _. apply runs_bind, runs_ret. apply Hline; [exact Hw|apply after_refl; exact Hw|reflexivity|left; reflexivity].
  Qed.

  Lemma parse_text_block_ord s : wf s ->
    runs (parse_text_block cfg) s (fun _ s' => after s s' /\ b_rest s' = [] /\ ord s s').
  Proof.
    intro Hw. unfold parse_text_block. apply runs_bind. apply runs_event'; [exact Hw|exact I|].
    intros s1 Hw1 Hp1 Ee1. apply runs_bind, runs_rest. apply runs_bind.
    eapply runs_conseq; [apply text_block_loop_ord; [exact Hw1|lia]|]. intros u s2 (Ha2 & E2 & O2).
    apply runs_event'; [apply Ha2|exact I|]. intros s3 Hw3 Hp3 Ee3.
    split; [|split; [rewrite (same_pos_rest _ _ Hp3); exact E2|]].
    - eapply after_pre; [exact Hp1|exact Hw1|]. eapply after_trans; [exact Ha2|apply after0_after; split; [exact Hw3|exact Hp3]].
    - intro B0. rewrite Ee3, (same_pos_cur _ _ Hp3). cbn [below ev_main_span]. apply O2.
      rewrite Ee1, (same_pos_cur _ _ Hp1). cbn [below ev_main_span]. exact B0.
  Qed.

  Lemma parse_multiline_block_ord s : wf s ->
    runs (parse_multiline_block cfg) s (fun _ s' => after s s' /\ b_rest s' = [] /\ ord s s').
  Proof.
    intro Hw. unfold parse_multiline_block. apply runs_bind, runs_all_tokens.
    destruct (forallb _ (b_all s)).
    - apply runs_bind. apply (runs_consume_rest src cfg); [exact Hw|]. intros ts s1 Ht1 E1. apply runs_ret.
      split; [eapply took_after; exact Ht1|]. split; [exact E1|].
      intro B0. rewrite (took_evs _ _ _ Ht1). eapply below_mono; [exact B0|].
      apply (after_cur_le _ _ _ _ Hw). eapply took_after; exact Ht1.
    - apply runs_bind, runs_peek. rewrite match_KTextStep. destruct (tk_eqb (peek_of s) KTextStep).
      + apply parse_text_block_ord; exact Hw.
      + apply parse_step_ord; exact Hw.
  Qed.

  (* ---------------------------------------------------------------- single-line blocks *)

  Definition line_post (s : bp) (o : option pevent) (s' : bp) : Prop :=
    after s s' /\ opt_ok (fun ev => ev_ok ev /\ b_rest s' = [] /\ ev_in ev (cur s) (cur s')) o.

  Lemma took_cur_le' s c s' : took s c s' -> cur s <= cur s'.
  Proof. apply took_cur_le. Qed.

  Lemma metadata_entry_ord s : wf s -> runs (metadata_entry cfg) s (line_post s).
  Proof.
    intro Hw. unfold metadata_entry. apply runs_obindM. apply (runs_consume src cfg); [exact Hw|discriminate| |].
    2:{ intros _. split; [apply after_refl; exact Hw|exact I]. }
    intros m s1 Ht1 _ _ _ _ _. pose proof (took_wf _ _ _ _ _ Ht1) as Hw1.
    apply runs_bind, runs_current_offset. apply runs_bind. apply (runs_until src cfg); [exact Hw1| |].
    - intros kts s2 t2 r2 Ht2 Er2 Hk2 _. pose proof (took_wf _ _ _ _ _ Ht2) as Hw2.
      apply runs_bind. eapply (runs_textM src cfg no_strict); [eapply took_seg; exact Ht2|]. intros key Hkey.
      apply runs_bind. apply (runs_bump src cfg); [exact Hw2|exists t2, r2; split; [exact Er2|apply tk_eqb_true; exact Hk2]|].
      intros c s3 Ht3 _ _ _ _ _. pose proof (took_wf _ _ _ _ _ Ht3) as Hw3.
      apply runs_bind, runs_current_offset. apply runs_bind. apply (runs_consume_rest src cfg); [exact Hw3|].
      intros vts s4 Ht4 E4. pose proof (took_wf _ _ _ _ _ Ht4) as Hw4.
      apply runs_bind. eapply (runs_textM src cfg no_strict); [eapply took_seg; exact Ht4|]. intros v Hv.
      assert (Ha4 : after s s4).
      { eapply after_took; [exact Ht1|]. eapply after_took; [exact Ht2|]. eapply after_took; [exact Ht3|eapply took_after; exact Ht4]. }
      apply runs_bind.
      assert (Hfin : forall s5, wf s5 -> same_pos s4 s5 -> runs (ret (Some (EvMetadata key v))) s5 (line_post s)).
      { intros s5 Hw5 Hp5. apply runs_ret. split; [eapply after_trans; [exact Ha4|apply after0_after; split; assumption]|].
        cbn [opt_ok ParserTotal.ev_ok]. split; [split; [apply Hkey|apply Hv]|]. split; [rewrite (same_pos_rest _ _ Hp5); exact E4|].
        unfold ev_in. cbn [ev_main_span fst snd]. rewrite (same_pos_cur _ _ Hp5).
        pose proof (text_in_le _ _ _ _ Hkey) as (K1 & K2 & K3). pose proof (text_in_le _ _ _ _ Hv) as (V1 & V2 & V3).
        pose proof (took_cur_le' _ _ _ Ht1). pose proof (took_cur_le' _ _ _ Ht2).
        pose proof (took_cur_le' _ _ _ Ht3). pose proof (took_cur_le' _ _ _ Ht4). lia. }
      pose proof (text_in_span_ok _ _ _ _ Hkey) as Hks. pose proof (text_in_span_ok _ _ _ _ Hv) as Hvs.
      destruct (is_text_empty key).
      + apply (runs_error src cfg); [exact Hw4|constructor; [exact Hks|constructor]|exact Hfin].
      + destruct (is_text_empty v).
        * apply (runs_warn src cfg); [exact Hw4|constructor; [exact Hvs|constructor; [exact Hks|constructor]]|exact Hfin].
        * apply runs_ret. apply Hfin; [exact Hw4|apply same_pos_refl].
    - intros _. apply runs_bind, runs_all_tokens. apply runs_bind.
      apply (runs_warn src cfg); [exact Hw1|constructor; [apply (wf_all_span src cfg); exact Hw1|constructor]|].
      intros s2 Hw2 Hp2. apply runs_ret. split; [|exact I].
      eapply after_took; [exact Ht1|apply after0_after; split; assumption].
  Qed.

  Lemma section_p_ord s : wf s -> runs (section_p cfg) s (line_post s).
  Proof.
    intro Hw. unfold section_p. apply runs_obindM. apply (runs_consume src cfg); [exact Hw|discriminate| |].
    2:{ intros _. split; [apply after_refl; exact Hw|exact I]. }
    intros e s1 Ht1 _ _ _ _ _. pose proof (took_wf _ _ _ _ _ Ht1) as Hw1.
    apply runs_bind. apply (runs_consume_while src cfg); [exact Hw1|]. intros e2 s2 Ht2 _ _. pose proof (took_wf _ _ _ _ _ Ht2) as Hw2.
    apply runs_bind, runs_current_offset. apply runs_bind. apply (runs_consume_while src cfg); [exact Hw2|].
    intros nts s3 Ht3 _ _. pose proof (took_wf _ _ _ _ _ Ht3) as Hw3.
    apply runs_bind. eapply (runs_textM src cfg no_strict); [eapply took_seg; exact Ht3|]. intros name Hname.
    apply runs_bind. apply (runs_consume_while src cfg); [exact Hw3|]. intros e3 s4 Ht4 _ _. pose proof (took_wf _ _ _ _ _ Ht4) as Hw4.
    apply runs_bind. unfold ws_comments. apply (runs_consume_while src cfg); [exact Hw4|]. intros ws s5 Ht5 _ _.
    pose proof (took_wf _ _ _ _ _ Ht5) as Hw5. apply runs_bind, runs_rest.
    assert (Ha5 : after s s5).
    { eapply after_took; [exact Ht1|]. eapply after_took; [exact Ht2|]. eapply after_took; [exact Ht3|].
      eapply after_took; [exact Ht4|eapply took_after; exact Ht5]. }
    destruct (b_rest s5) as [|r0 rr] eqn:Er.
    - apply runs_ret. split; [exact Ha5|]. cbn [opt_ok ParserTotal.ev_ok]. split; [|split; [exact Er|]].
      + destruct (is_text_empty name); [exact I|apply Hname].
      + unfold ev_in. cbn [ev_main_span]. destruct (is_text_empty name); cbn [option_map]; [exact I|].
        pose proof (text_in_le _ _ _ _ Hname) as (K1 & K2 & K3).
        pose proof (took_cur_le' _ _ _ Ht1). pose proof (took_cur_le' _ _ _ Ht2).
        pose proof (took_cur_le' _ _ _ Ht3). pose proof (took_cur_le' _ _ _ Ht4). pose proof (took_cur_le' _ _ _ Ht5). lia.
    - rewrite <- Er. apply runs_bind. apply (runs_warn src cfg); [exact Hw5| |].
      + constructor; [|constructor]. destruct (wf_split _ _ _ Hw5) as (en & _ & Hs). eapply tokens_span_ok; exact Hs.
      + intros s6 Hw6 Hp6. apply runs_ret. split; [|exact I].
        eapply after_trans; [exact Ha5|apply after0_after; split; assumption].
  Qed.

  (* ---------------------------------------------------------------- a block *)

  Lemma parse_block_ord old_style s : wf s ->
    runs (parse_block cfg old_style) s (fun _ s' => wf s' /\ b_rest s' = [] /\ b_all s' = b_all s /\ ord s s').
  Proof.
    intro Hw. unfold parse_block. apply runs_bind, runs_peek. apply runs_bind.
    set (Post := fun (_ : unit) s' => wf s' /\ b_rest s' = [] /\ b_all s' = b_all s /\ ord s s').
    assert (Hml : forall s2, wf s2 -> same_pos s s2 -> quiet s s2 -> runs (parse_multiline_block cfg) s2 Post).
    { intros s2 Hw2 Hp2 Q2. eapply runs_conseq; [apply parse_multiline_block_ord; exact Hw2|].
      intros u s3 (Ha3 & E3 & O3). split; [apply Ha3|]. split; [exact E3|]. split.
      - destruct (after_facts _ _ _ _ Hw2 Ha3) as (_ & _ & Eall & _). rewrite Eall. apply Hp2.
      - intro B0. apply O3. rewrite (same_pos_cur _ _ Hp2). eapply below_quiet; eassumption. }
    (* both single-line parsers either give an event with nothing left, or the position is restored *)
    assert (Hrec : forall m, rel false m -> runs m s (line_post s) ->
       runs (with_recover m) s (fun o s1 =>
          runs (match o with Some ev => event ev | None => parse_multiline_block cfg end) s1 Post)).
    { intros m Hq Hm. apply runs_with_recover'; [exact Hw|].
      eapply runs_conseq; [apply runs_wp; [exact Hm|exact (fun a s' E => Hq s a s' E)]|].
      intros [ev|] s1 ((Ha & Hev) & Q1); (split; [apply Ha|]).
      - destruct Hev as (Hev & E1 & Hin). apply runs_event'; [apply Ha|exact Hev|].
        intros s2 Hw2 Hp2 Ee2. split; [exact Hw2|]. split; [rewrite (same_pos_rest _ _ Hp2); exact E1|]. split.
        + destruct (after_facts _ _ _ _ Hw Ha) as (_ & _ & Eall & _). destruct Hp2 as (P1 & _). congruence.
        + intro B0. rewrite Ee2, (same_pos_cur _ _ Hp2).
          pose proof (after_cur_le _ _ _ _ Hw Ha) as Hle.
          eapply (below_push _ _ (cur s) (cur s1)); [eapply below_quiet; [eapply rl_quiet; exact Q1|exact B0]|exact Hin|lia].
      - intros s2 Hw2 Hp2 Ee2. apply Hml; [exact Hw2|exact Hp2|].
        destruct Q1 as ((ds & E1 & F1) & _). exists ds. rewrite Ee2. tauto. }
    assert (Hdef : runs (ret (@None pevent)) s (fun o s1 =>
          runs (match o with Some ev => event ev | None => parse_multiline_block cfg end) s1 Post)).
    { apply runs_ret. apply Hml; [exact Hw|apply same_pos_refl|apply quiet_refl]. }
    destruct (peek_of s); try exact Hdef.
    - apply Hrec; [rel_auto|]. apply runs_obindM. eapply runs_conseq; [apply metadata_entry_ord; exact Hw|].
      intros [ev|] s1 (Ha1 & Hev); [|split; [exact Ha1|exact I]].
      destruct ev; try (apply runs_ret; split; [exact Ha1|exact Hev]).
      destruct (meta_kept cfg old_style key); apply runs_ret; (split; [exact Ha1|]); [exact Hev|exact I].
    - apply Hrec; [auto with prel|]. apply section_p_ord; exact Hw.
  Qed.

  (* a whole block: BlockParser::new, parse_block, finish.  The queue was below the start of the
     block and is below its end afterwards *)
  Lemma run_block_ord ts a b evs old_style :
    ts <> [] -> seg a ts b -> Forall ev_ok evs -> below evs a ->
    exists evs', run_block ts evs (parse_block cfg old_style) = Done evs' /\ Forall ev_ok evs' /\ below evs' b.
  Proof.
    intros Hn Hseg Hev Hb. unfold run_block. destruct ts as [|t0 tr] eqn:E; [congruence|]. rewrite <- E in *.
    set (s0 := {| b_all := ts; b_done := []; b_rest := ts; b_evs := evs |}).
    assert (Ha : tstart t0 = a) by (rewrite E in Hseg; destruct Hseg as (Ha & _); exact Ha).
    assert (Hw0 : wf s0).
    { unfold s0, ParserTotal.wf, base_offset; cbn [b_all b_done b_rest b_evs rev app]. split; [reflexivity|]. split; [|exact Hev].
      exists b. rewrite E in *. rewrite Ha. exact Hseg. }
    destruct (parse_block_ord old_style s0 Hw0) as (u & s1 & Em & Hw1 & E1 & Eall & O1).
    rewrite Em, E1. exists (b_evs s1). split; [reflexivity|]. split; [apply (wf_evs src cfg); exact Hw1|].
    assert (Ec0 : cur s0 = a) by (unfold s0, current_offset_of, base_offset; cbn [b_done b_all]; rewrite E; exact Ha).
    assert (Ec1 : cur s1 = b).
    { destruct (wf_split _ _ _ Hw1) as (en & H1 & H2). rewrite E1 in H2. destruct H2 as (Hce & _).
      destruct Hw1 as (Hsplit & _ & _). rewrite E1, app_nil_r in Hsplit.
      rewrite <- Hsplit, Eall in H1. unfold base_offset in H1. rewrite Eall in H1. cbn [b_all s0] in H1.
      rewrite E in H1 at 1. rewrite Ha in H1. eapply seg_fun; eassumption. }
    rewrite <- Ec1. apply O1. rewrite Ec0. exact Hb.
  Qed.

  (* ---------------------------------------------------------------- the sequence of blocks *)

  Lemma next_block_app fuel : forall ts blk r,
    next_block fuel ts = Some (blk, r) -> exists p q, ts = p ++ blk ++ q ++ r.
  Proof.
    induction fuel as [|f IH]; intros ts blk r H; cbn [next_block] in H; [discriminate|].
    destruct ts as [|t ts]; [discriminate|].
    destruct (pull_line (t :: ts)) as [l r0] eqn:El. pose proof (pull_line_app _ _ _ El) as Ea.
    destruct (line_is_empty l).
    - destruct (IH _ _ _ H) as (p & q & E). exists (l ++ p), q. rewrite Ea, E, <- app_assoc. reflexivity.
    - cbv zeta in H.
      destruct (if is_single_line_marker l then ([], r0) else more_lines (S (length r0)) r0) as [m r'] eqn:Em.
      destruct (rev (strip_trailing_newlines (rev (l ++ m)))) as [|b0 bl] eqn:Eb; [discriminate|]. injection H as <- <-.
      assert (exists d, r0 = m ++ d ++ r') as (d & Er).
      { destruct (is_single_line_marker l).
        - injection Em as <- <-. exists []. reflexivity.
        - eapply more_lines_app; exact Em. }
      destruct (strip_rev_prefix (l ++ m)) as (nl & En). rewrite Eb in En.
      exists [], (nl ++ d). cbn [app]. rewrite Ea, Er.
      rewrite (app_assoc l m), En. cbn [app]. rewrite <- !app_assoc. reflexivity.
  Qed.

  Lemma next_block_ord fuel ts blk r off en :
    seg off ts en -> next_block fuel ts = Some (blk, r) ->
    exists a b c, off <= a /\ seg a blk b /\ b <= c /\ seg c r en.
  Proof.
    intros Hs H. destruct (next_block_app _ _ _ _ H) as (p & q & E). rewrite E in Hs.
    apply seg_app in Hs as (a & H1 & Hs). apply seg_app in Hs as (b & H2 & Hs). apply seg_app in Hs as (c & H3 & H4).
    exists a, b, c. split; [eapply seg_le; exact H1|]. split; [exact H2|]. split; [eapply seg_le; exact H3|exact H4].
  Qed.

  Lemma blocks_loop_ord fuel : forall ts off en old_style evs,
    seg off ts en -> Forall ev_ok evs -> below evs off -> (length ts < fuel)%nat ->
    exists evs', blocks_loop cfg fuel ts old_style evs = Done evs' /\ Forall ev_ok evs' /\ below evs' en.
  Proof.
    induction fuel as [|f IH]; intros ts off en old_style evs Hseg Hev Hb Hl; [lia|].
    cbn [blocks_loop]. destruct (next_block (S (length ts)) ts) as [[blk r]|] eqn:En.
    - destruct (next_block_seg src _ _ _ _ _ _ Hseg En) as (Hn & Hlr & _ & _).
      destruct (next_block_ord _ _ _ _ _ _ Hseg En) as (a & b & c & Hoa & Hblk & Hbc & Hr).
      destruct (run_block_ord blk a b evs old_style Hn Hblk Hev) as (evs1 & E1 & Hev1 & Hb1).
      { eapply below_mono; eassumption. }
      rewrite E1. cbn [obind]. eapply IH; [exact Hr|exact Hev1| |lia]. eapply below_mono; eassumption.
    - exists evs. split; [reflexivity|]. split; [exact Hev|]. eapply below_mono; [exact Hb|eapply seg_le; exact Hseg].
  Qed.
End Order.

(* ------------------------------------------------------------------ whole documents *)

(* the front matter text ends before the recipe text starts *)
Lemma parse_frontmatter_ord cfg s fm :
  parse_frontmatter cfg s = Some fm -> yaml_off fm + blen (yaml_text fm) <= cook_off fm.
Proof.
  unfold parse_frontmatter. intro H.
  destruct (fence_list (lines_inclusive s) 0) as [|[f0s ys] [|[ye cs] more]] eqn:F; try discriminate.
  destruct (p_fm_anywhere cfg || str_blank (take_bytes s f0s)); [|discriminate].
  inversion H as [Hfm]. clear H Hfm. cbn [cook_text cook_off yaml_text yaml_off].
  apply fence_list_cons in F as (ls1 & l0 & ls2 & E1 & Hf0 & Hys & F).
  symmetry in F. apply fence_list_cons in F as (ls3 & l1 & ls4 & E2 & Hye & Hcs & _).
  pose proof (lines_inclusive_concat s) as Hs.
  rewrite E1, E2, !concat_app in Hs. cbn [concat] in Hs. rewrite concat_app in Hs. cbn [concat] in Hs.
  set (P := concat ls1 ++ l0) in *.
  assert (HP : blen P = ys) by (unfold P; rewrite blen_app; lia).
  assert (Es : s = P ++ concat ls3 ++ l1 ++ concat ls4)
    by (unfold P; rewrite <- app_assoc; symmetry; exact Hs).
  assert (Hy : take_bytes (drop_bytes s ys) (ye - ys) = concat ls3).
  { rewrite Es. rewrite <- HP, drop_bytes_app. replace (ye - blen P) with (blen (concat ls3)) by lia. apply take_bytes_app. }
  rewrite Hy. lia.
Qed.

Theorem events_ordered (U : N -> ucls) (cfg : pcfg) (s : str) (evs : list pevent) :
  p_strict_escape cfg = false -> events U cfg s = Done evs ->
  ordered (main_spans evs) /\
  Forall (fun sp => fst sp <= snd sp /\ snd sp <= blen s) (main_spans evs).
Proof.
  intros Hc H. unfold events in H.
  assert (Hfin : forall evs0 en, below evs0 en -> en = blen s ->
            ordered (main_spans (rev evs0)) /\
            Forall (fun sp => fst sp <= snd sp /\ snd sp <= blen s) (main_spans (rev evs0))).
  { intros evs0 en Hb <-. split; [eapply below_ordered; exact Hb|].
    rewrite main_spans_rev. apply Forall_rev. apply below_spans. exact Hb. }
  destruct (parse_frontmatter cfg s) as [fm|] eqn:Ef.
  - destruct (parse_frontmatter_located _ _ _ Ef) as ((pre & Es & Hp) & Hy).
    pose proof (parse_frontmatter_ord _ _ _ Ef) as Hord.
    destruct (lex_at U (cook_text fm) (cook_off fm)) as [ts|] eqn:El; [|discriminate].
    pose proof (lex_at_seg U _ _ _ pre El Hp) as Hseg. rewrite <- Es in Hseg.
    destruct (blocks_loop_ord s cfg Hc (S (length ts)) ts _ _ false
                [EvYaml (text_from_str (yaml_text fm) (yaml_off fm))] Hseg) as (evs1 & E & _ & Hb); [| |lia|].
    + constructor; [|constructor]. cbn [ev_ok]. apply (text_from_str_ok s). exact Hy.
    + cbn [below ev_main_span]. unfold text_from_str. destruct (yaml_text fm) as [|c r] eqn:Ey.
      * unfold text_span, text_empty; cbn [frags toff fst snd]. cbn [blen] in Hord. lia.
      * unfold text_span; cbn [frags fst snd last]. unfold frag_end; cbn [foff ftext]. lia.
    + rewrite E in H. cbn [obind] in H. injection H as <-. eapply Hfin; [exact Hb|].
      rewrite Es, blen_app. lia.
  - destruct (lex_at U s 0) as [ts|] eqn:El; [|discriminate].
    pose proof (lex_seg U _ _ El) as Hseg.
    destruct (blocks_loop_ord s cfg Hc (S (length ts)) ts _ _ true [] Hseg) as (evs1 & E & _ & Hb); [constructor|exact I|lia|].
    rewrite E in H. cbn [obind] in H. injection H as <-. eapply Hfin; [exact Hb|reflexivity].
Qed.

(* consecutive order and well-formedness give pairwise disjointness *)
Lemma ordered_head r : forall a,
  ordered (a :: r) -> Forall (fun sp => fst sp <= snd sp) r -> Forall (fun x => snd a <= fst x) r.
Proof.
  induction r as [|b r' IH]; intros a (Ho1 & Ho2) Hr; [constructor|].
  inversion Hr as [|? ? Hb Hr']; subst. constructor; [tauto|].
  eapply Forall_impl; [|apply (IH b); assumption]. cbn beta. intros x Hx. lia.
Qed.

Lemma ordered_pairwise l :
  ordered l -> Forall (fun sp => fst sp <= snd sp) l -> ForallOrdPairs (fun a b => snd a <= fst b) l.
Proof.
  induction l as [|a r IH]; intros Ho Hw; [constructor|].
  inversion Hw as [|? ? Ha Hr]; subst.
  constructor; [apply ordered_head; assumption|]. apply IH; [apply Ho|exact Hr].
Qed.

Theorem events_disjoint (U : N -> ucls) (cfg : pcfg) (s : str) (evs : list pevent) :
  p_strict_escape cfg = false -> events U cfg s = Done evs ->
  ForallOrdPairs (fun a b => snd a <= fst b) (main_spans evs).
Proof.
  intros Hc H. destruct (events_ordered U cfg s evs Hc H) as (Ho & Hw). apply ordered_pairwise; [exact Ho|].
  eapply Forall_impl; [|exact Hw]. cbn beta. tauto.
Qed.
