(* Lexer-level theorems of property C17: how the token stream changes under the source edits of
   Model/Edits.v.  All statements hold for every input and every Unicode classification [U] that
   satisfies the three hypotheses of the section (each is a finite fact about five ASCII
   characters, proved for the classification dumped from the implementation in
   Properties/C17.v).

   lex_app / lex_insert   lexing is compositional at a position where the last token on the left
                          cannot absorb the first character on the right ([safe_end])
   mid_comment_lex        [-c-] at such a position adds exactly one BlockComment token
   trail_comment_lex      " --c" before a line end adds exactly a Ws and a LineComment token
   crlf_lex               CRLF conversion keeps every token kind; texts change as [crlf_tok_rel] says *)
From CL Require Import Base.StrLemmas Model.Lexer Model.CommentMask Model.Edits Proofs.LexerProofs Proofs.MaskProofs.

Section EditLex.
  Variable U : N -> ucls.

  (* ---------------------------------------------------------------- fuel independence *)
  Lemma lex_fuel_more f1 : forall f2 s off,
    (length s <= f1)%nat -> (length s <= f2)%nat -> lex_fuel U f1 s off = lex_fuel U f2 s off.
  Proof.
    induction f1 as [|f1 IH]; intros f2 s off H1 H2.
    - destruct s; [destruct f2; reflexivity | cbn in H1; lia].
    - destruct s as [|c r]; [destruct f2; reflexivity|].
      destruct f2 as [|f2]; [cbn in H2; lia|].
      cbn [lex_fuel]. destruct (lex_one U c r) as [[k t] rest] eqn:E.
      pose proof (lex_one_shorter U _ _ _ _ _ E) as Hs. cbn [length] in H1, H2.
      rewrite (IH f2 rest (off + blen t)) by lia. reflexivity.
  Qed.

  Definition mk (k : tkind) (t : str) (o : N) : tok := {| kind := k; tstr := t; tstart := o |}.

  Lemma lex_at_nil off : lex_at U [] off = Some [].
  Proof. reflexivity. Qed.

  Lemma lex_at_cons c r off :
    lex_at U (c :: r) off =
    let '(k, t, rest) := lex_one U c r in
    match lex_at U rest (off + blen t) with
    | Some ts => Some (mk k t off :: ts)
    | None => None
    end.
  Proof.
    unfold lex_at. cbn [length lex_fuel]. destruct (lex_one U c r) as [[k t] rest] eqn:E.
    pose proof (lex_one_shorter U _ _ _ _ _ E) as Hs.
    rewrite (lex_fuel_more (length r) (length rest)) by lia. reflexivity.
  Qed.

  (* ---------------------------------------------------------------- positions only shift *)
  Lemma shift_tok_kind n t : kind (shift_tok n t) = kind t. Proof. reflexivity. Qed.
  Lemma shift_tok_str n t : tstr (shift_tok n t) = tstr t. Proof. reflexivity. Qed.

  Lemma lex_fuel_shift f : forall s off n ts,
    lex_fuel U f s off = Some ts -> lex_fuel U f s (off + n) = Some (shift n ts).
  Proof.
    induction f as [|f IH]; intros s off n ts H.
    - destruct s; cbn in H; [inversion H; reflexivity | discriminate].
    - destruct s as [|c r]; cbn [lex_fuel] in *; [inversion H; reflexivity|].
      destruct (lex_one U c r) as [[k t] rest].
      destruct (lex_fuel U f rest (off + blen t)) as [ts'|] eqn:E; [|discriminate].
      inversion H; subst. replace (off + n + blen t) with (off + blen t + n) by lia.
      rewrite (IH _ _ n _ E). reflexivity.
  Qed.

  Lemma lex_at_shift s off n ts : lex_at U s off = Some ts -> lex_at U s (off + n) = Some (shift n ts).
  Proof. apply lex_fuel_shift. Qed.
  (* ---------------------------------------------------------------- appending to a token *)
  Lemma next_is_app d r z : r <> [] -> next_is d (r ++ z) = next_is d r.
  Proof. destruct r; [congruence | reflexivity]. Qed.

  Lemma tl_app (r z : str) : r <> [] -> tl (r ++ z) = tl r ++ z.
  Proof. destruct r; [congruence | reflexivity]. Qed.

  Lemma span_while_app_stop p s : forall a x b z,
    span_while p s = (a, x :: b) -> span_while p (s ++ z) = (a, (x :: b) ++ z).
  Proof.
    induction s as [|c r IH]; intros a x b z H; cbn [span_while] in H; [inversion H|].
    cbn [app span_while]. destruct (p c).
    - destruct (span_while p r) as [a' b'] eqn:E. inversion H; subst.
      rewrite (IH _ _ _ z eq_refl). reflexivity.
    - inversion H; subst. reflexivity.
  Qed.

  Lemma span_while_app_end p s : forall a d y,
    span_while p s = (a, []) -> p d = false -> span_while p (s ++ d :: y) = (a, d :: y).
  Proof.
    induction s as [|c r IH]; intros a d y H Hd; cbn [span_while] in H.
    - inversion H; subst. cbn [app span_while]. rewrite Hd. reflexivity.
    - cbn [app span_while]. destruct (p c); [|inversion H].
      destruct (span_while p r) as [a' b'] eqn:E. inversion H; subst.
      rewrite (IH _ _ y eq_refl Hd). reflexivity.
  Qed.

  Lemma block_body_app_stop s : forall a x b z,
    block_body s = (a, x :: b) -> block_body (s ++ z) = (a, (x :: b) ++ z).
  Proof.
    induction s as [|c r IH]; intros a x b z H; cbn [block_body] in H; [inversion H|].
    cbn [app block_body].
    destruct r as [|e r'].
    - cbn [next_is] in H. rewrite andb_false_r in H. cbn [block_body] in H. inversion H.
    - rewrite next_is_app by discriminate.
      destruct ((c =? 45) && next_is 93 (e :: r')).
      + cbn [tl] in H. inversion H; subst. reflexivity.
      + destruct (block_body (e :: r')) as [a' b'] eqn:E. inversion H; subst.
        rewrite (IH _ _ _ z eq_refl). reflexivity.
  Qed.

  (* the string ends with "-]" *)
  Fixpoint ends_close (s : str) : bool :=
    match s with
    | [] => false
    | c :: r =>
        match r with
        | [] => false
        | d :: r' => match r' with [] => (c =? 45) && (d =? 93) | _ => ends_close r end
        end
    end.

  Lemma block_body_app_end s : forall a z,
    block_body s = (a, []) -> ends_close s = true -> block_body (s ++ z) = (a, z).
  Proof.
    induction s as [|c r IH]; intros a z H He; [discriminate|].
    cbn [block_body] in H. cbn [app block_body].
    destruct r as [|e r']; [discriminate|].
    rewrite next_is_app by discriminate.
    destruct ((c =? 45) && next_is 93 (e :: r')) eqn:T.
    - cbn [tl] in H. inversion H; subst. reflexivity.
    - destruct (block_body (e :: r')) as [a' b'] eqn:E. inversion H; subst.
      assert (He' : ends_close (e :: r') = true).
      { cbn [ends_close] in He. destruct r' as [|g r'']; [|exact He].
        cbn [next_is] in T. rewrite He in T. discriminate. }
      rewrite (IH _ z eq_refl He'). reflexivity.
  Qed.

  Lemma lex_one_rest_nonempty c r k t x rest : lex_one U c r = (k, t, x :: rest) -> r <> [].
  Proof.
    intro H. apply lex_one_tiles in H as [H [t' ->]]. cbn [app] in H. injection H as H.
    intro E; subst r. destruct t'; discriminate.
  Qed.

  (* a token that ends inside the input is not affected by what is appended *)
  Lemma lex_one_app_mid c r k t x rest z :
    lex_one U c r = (k, t, x :: rest) -> lex_one U c (r ++ z) = (k, t, (x :: rest) ++ z).
  Proof.
    intro H. pose proof (lex_one_rest_nonempty _ _ _ _ _ _ H) as Hr.
    unfold lex_one in *. rewrite !(next_is_app _ _ z Hr).
    destruct (c =? 92).
    { destruct r as [|d r']; [congruence|]. cbn [app]. inversion H; subst. reflexivity. }
    destruct (c =? 62).
    { destruct (next_is 62 r); inversion H; subst.
      - rewrite tl_app by exact Hr. match goal with E : tl r = _ |- _ => rewrite E end. reflexivity.
      - reflexivity. }
    destruct (c =? 45).
    { destruct (next_is 45 r).
      - destruct (span_while (fun x0 => negb (x0 =? 10)) r) as [a b] eqn:Es. inversion H; subst.
        rewrite (span_while_app_stop _ _ _ _ _ z Es). reflexivity.
      - inversion H; subst. reflexivity. }
    destruct ((c =? 91) && next_is 45 r).
    { rewrite tl_app by exact Hr.
      destruct (block_body (tl r)) as [a b] eqn:Eb. inversion H; subst.
      rewrite (block_body_app_stop _ _ _ _ z Eb). reflexivity. }
    destruct (c =? 10). { inversion H; subst. reflexivity. }
    destruct ((c =? 13) && next_is 10 r).
    { inversion H; subst. rewrite tl_app by exact Hr.
      match goal with E : tl r = _ |- _ => rewrite E end. reflexivity. }
    destruct (is_digit c).
    { destruct (span_while is_digit r) as [a b] eqn:Es. inversion H; subst.
      rewrite (span_while_app_stop _ _ _ _ _ z Es). reflexivity. }
    destruct (single_kind c). { inversion H; subst. reflexivity. }
    destruct (is_lex_ws U c).
    { destruct (span_while (is_lex_ws U) r) as [a b] eqn:Es. inversion H; subst.
      rewrite (span_while_app_stop _ _ _ _ _ z Es). reflexivity. }
    destruct (u_punct (U c)). { inversion H; subst. reflexivity. }
    destruct (span_while (is_word_char U) r) as [a b] eqn:Es. inversion H; subst.
    rewrite (span_while_app_stop _ _ _ _ _ z Es). reflexivity.
  Qed.
  (* ---------------------------------------------------------------- a token at the end of the input *)
  (* `-`, `[`, `\`, CR and LF are neither word characters nor blank space *)
  Hypothesis special_breaks : forall c, special c = true -> is_word_char U c = false /\ is_lex_ws U c = false.
  Hypothesis eol_breaks : forall c, (c =? 10) || (c =? 13) = true -> is_word_char U c = false /\ is_lex_ws U c = false.

  Definition closed_comment (t : str) : bool := ends_close (tl (tl t)).
  Definition lone_ok (t : str) (d : N) : bool :=
    negb (str_eqb t [91] && (d =? 45)) && negb (str_eqb t [13] && (d =? 10)).

  (* the last token of an input stays what it is when a text starting with [d] is appended *)
  Definition last_tok_safe (t : tok) (d : N) : bool :=
    match kind t with
    | KEscaped => negb (length (tstr t) =? 1)%nat
    | KTextStep => negb (d =? 62)
    | KMinus => negb (d =? 45)
    | KLineComment => d =? 10
    | KBlockComment => closed_comment (tstr t)
    | KInt | KZeroInt => negb (is_digit d)
    | KWs => negb (is_lex_ws U d)
    | KWord => negb (is_word_char U d) && lone_ok (tstr t) d
    | KPunct => lone_ok (tstr t) d
    | _ => true
    end.

  Lemma single_kind_not c k : single_kind c = Some k ->
    match k with
    | KEscaped | KTextStep | KMinus | KLineComment | KBlockComment | KInt | KZeroInt | KWs | KWord | KPunct
    | KNewline | KMeta | KEof => False
    | _ => True
    end.
  Proof.
    unfold single_kind. intro H.
    repeat match type of H with (if ?b then _ else _) = _ => destruct b end; inversion H; exact I.
  Qed.

  Lemma lex_one_app_last c r k t o d y :
    lex_one U c r = (k, t, []) -> last_tok_safe (mk k t o) d = true ->
    lex_one U c (r ++ d :: y) = (k, t, d :: y).
  Proof.
    intros H S. unfold last_tok_safe in S. cbn [kind tstr mk] in S.
    destruct r as [|e r'].
    - (* the token is the single character c *)
      cbn [app]. unfold lex_one in *. cbn [next_is] in *. rewrite ?andb_false_r in H.
      destruct (c =? 92). { inversion H; subst. discriminate. }
      destruct (c =? 62). { inversion H; subst. apply negb_true_iff in S. rewrite S. reflexivity. }
      destruct (c =? 45) eqn:E45. { inversion H; subst. apply negb_true_iff in S. rewrite S. reflexivity. }
      destruct (c =? 10) eqn:E10. { apply N.eqb_eq in E10. subst c. inversion H; subst. reflexivity. }
      assert (G : forall kk, (kk = KWord \/ kk = KPunct) -> k = kk -> t = [c] ->
                  (c =? 91) && (d =? 45) = false /\ (c =? 13) && (d =? 10) = false).
      { intros kk Hk -> ->. assert (L : lone_ok [c] d = true).
        { destruct Hk as [-> | ->]; [apply andb_true_iff in S as [_ S]|]; exact S. }
        unfold lone_ok in L. apply andb_true_iff in L as [L1 L2]. apply negb_true_iff in L1, L2.
        cbn [str_eqb] in L1, L2. rewrite andb_true_r in L1, L2. split; assumption. }
      destruct (is_digit c) eqn:Ed.
      { cbn [span_while] in H. inversion H; subst. apply negb_true_iff in S.
        assert (c =? 91 = false) as ->.
        { unfold is_digit in Ed. apply andb_true_iff in Ed as [_ E2]. apply N.leb_le in E2.
          apply N.eqb_neq. lia. }
        assert (c =? 13 = false) as ->.
        { unfold is_digit in Ed. apply andb_true_iff in Ed as [E1 _]. apply N.leb_le in E1.
          apply N.eqb_neq. lia. }
        cbn [andb span_while]. rewrite S. reflexivity. }
      destruct (single_kind c) as [k'|] eqn:Ek.
      { inversion H; subst.
        assert (c =? 91 = false) as ->.
        { destruct (c =? 91) eqn:E; [|reflexivity]. apply N.eqb_eq in E. subst. discriminate. }
        assert (c =? 13 = false) as ->.
        { destruct (c =? 13) eqn:E; [|reflexivity]. apply N.eqb_eq in E. subst. discriminate. }
        reflexivity. }
      destruct (is_lex_ws U c) eqn:Ew.
      { cbn [span_while] in H. inversion H; subst. apply negb_true_iff in S.
        assert (c =? 91 = false) as ->.
        { destruct (c =? 91) eqn:E; [|reflexivity]. apply N.eqb_eq in E. subst.
          destruct (special_breaks 91 eq_refl) as [_ X]. congruence. }
        assert (c =? 13 = false) as ->.
        { destruct (c =? 13) eqn:E; [|reflexivity]. apply N.eqb_eq in E. subst.
          destruct (eol_breaks 13 eq_refl) as [_ X]. congruence. }
        cbn [andb span_while]. rewrite S. reflexivity. }
      destruct (u_punct (U c)).
      { inversion H; subst. destruct (G KPunct (or_intror eq_refl) eq_refl eq_refl) as [-> ->]. reflexivity. }
      cbn [span_while] in H. inversion H; subst.
      destruct (G KWord (or_introl eq_refl) eq_refl eq_refl) as [-> ->].
      apply andb_true_iff in S as [S _]. apply negb_true_iff in S.
      cbn [span_while]. rewrite S. reflexivity.
    - (* the token has at least two characters *)
      assert (Hr : e :: r' <> []) by discriminate.
      unfold lex_one in *. rewrite !(next_is_app _ _ (d :: y) Hr).
      destruct (c =? 92). { cbn [app]. inversion H; subst. reflexivity. }
      destruct (c =? 62).
      { destruct (next_is 62 (e :: r')); inversion H; subst. cbn [tl app]. reflexivity. }
      destruct (c =? 45).
      { destruct (next_is 45 (e :: r')); [|inversion H].
        destruct (span_while (fun x => negb (x =? 10)) (e :: r')) as [a b] eqn:Es. inversion H; subst.
        rewrite (span_while_app_end _ _ _ d y Es); [reflexivity|]. rewrite S. reflexivity. }
      destruct ((c =? 91) && next_is 45 (e :: r')).
      { rewrite tl_app by exact Hr. cbn [tl] in *.
        destruct (block_body r') as [a b] eqn:Eb. inversion H; subst.
        unfold closed_comment in S. cbn [tl] in S.
        pose proof (block_body_app _ _ _ Eb) as Ha. rewrite app_nil_r in Ha. subst a.
        rewrite (block_body_app_end _ _ (d :: y) Eb S). reflexivity. }
      destruct (c =? 10). { inversion H. }
      destruct ((c =? 13) && next_is 10 (e :: r')). { inversion H; subst. cbn [tl app]. reflexivity. }
      destruct (is_digit c).
      { destruct (span_while is_digit (e :: r')) as [a b] eqn:Es. inversion H; subst.
        rewrite (span_while_app_end _ _ _ d y Es); [reflexivity|].
        destruct a; [|destruct (c =? 48)]; apply negb_true_iff in S; exact S. }
      destruct (single_kind c). { inversion H. }
      destruct (is_lex_ws U c).
      { destruct (span_while (is_lex_ws U) (e :: r')) as [a b] eqn:Es. inversion H; subst.
        rewrite (span_while_app_end _ _ _ d y Es); [reflexivity|]. apply negb_true_iff in S. exact S. }
      destruct (u_punct (U c)). { inversion H. }
      destruct (span_while (is_word_char U) (e :: r')) as [a b] eqn:Es. inversion H; subst.
      rewrite (span_while_app_end _ _ _ d y Es); [reflexivity|].
      apply andb_true_iff in S as [S _]. apply negb_true_iff in S. exact S.
  Qed.
  (* ---------------------------------------------------------------- lexing a concatenation *)
  Fixpoint safe_end (ts : list tok) (d : N) : bool :=
    match ts with
    | [] => true
    | t :: r => match r with [] => last_tok_safe t d | _ => safe_end r d end
    end.

  Lemma lex_at_nonempty c r off ts : lex_at U (c :: r) off = Some ts -> ts <> [].
  Proof.
    rewrite lex_at_cons. destruct (lex_one U c r) as [[k t] rest].
    destruct (lex_at U rest (off + blen t)); intro H; inversion H; discriminate.
  Qed.

  (* [a] and [d :: y] lexed separately give the tokens of [a ++ d :: y] when the last token of [a]
     cannot absorb [d] *)
  Lemma lex_app_len n : forall a off ta d y tb,
    (length a <= n)%nat ->
    lex_at U a off = Some ta -> safe_end ta d = true ->
    lex_at U (d :: y) (off + blen a) = Some tb ->
    lex_at U (a ++ d :: y) off = Some (ta ++ tb).
  Proof.
    induction n as [|n IH]; intros a off ta d y tb Hn Ha Hs Hb.
    - destruct a; [|cbn in Hn; lia]. cbn [lex_at lex_fuel length] in Ha. inversion Ha; subst.
      cbn [app blen] in *. rewrite N.add_0_r in Hb. exact Hb.
    - destruct a as [|c r].
      { cbn [lex_at lex_fuel length] in Ha. inversion Ha; subst.
        cbn [app blen] in *. rewrite N.add_0_r in Hb. exact Hb. }
      rewrite lex_at_cons in Ha. cbn [app]. rewrite lex_at_cons.
      destruct (lex_one U c r) as [[k t] rest] eqn:E.
      pose proof (lex_one_tiles U _ _ _ _ _ E) as [Ht _].
      pose proof (lex_one_shorter U _ _ _ _ _ E) as Hl.
      assert (Hoff : off + blen (c :: r) = off + blen t + blen rest).
      { rewrite <- Ht, blen_app. lia. }
      destruct rest as [|x rest'].
      + cbn [lex_at lex_fuel length] in Ha. inversion Ha; subst. cbn [safe_end] in Hs.
        rewrite (lex_one_app_last _ _ _ _ off d y E Hs).
        rewrite Hoff in Hb. cbn [blen] in Hb. rewrite N.add_0_r in Hb. rewrite Hb. reflexivity.
      + rewrite (lex_one_app_mid _ _ _ _ _ _ (d :: y) E).
        destruct (lex_at U (x :: rest') (off + blen t)) as [ts|] eqn:E2; [|discriminate].
        inversion Ha; subst. pose proof (lex_at_nonempty _ _ _ _ E2) as Hne.
        assert (Hs' : safe_end ts d = true). { cbn [safe_end] in Hs. destruct ts; [congruence | exact Hs]. }
        rewrite Hoff in Hb.
        rewrite (IH (x :: rest') (off + blen t) ts d y tb); [reflexivity | cbn [length] in *; lia | exact E2 | exact Hs' | exact Hb].
  Qed.

  Lemma lex_app a off ta d y tb :
    lex_at U a off = Some ta -> safe_end ta d = true ->
    lex_at U (d :: y) (off + blen a) = Some tb ->
    lex_at U (a ++ d :: y) off = Some (ta ++ tb).
  Proof. apply (lex_app_len (length a)). apply le_n. Qed.

  Lemma safe_end_app ta tb d : tb <> [] -> safe_end (ta ++ tb) d = safe_end tb d.
  Proof.
    intro H. induction ta as [|t r IH]; [reflexivity|]. cbn [app safe_end].
    destruct (r ++ tb) eqn:E; [apply app_eq_nil in E as [_ E]; congruence|]. exact IH.
  Qed.

  (* inserting [x] between [a] and [b]: the tokens of [x] are inserted, the others only move *)
  Theorem lex_insert a x b off ta tx tb d y :
    b = d :: y ->
    lex_at U a off = Some ta -> lex_at U x 0 = Some tx -> x <> [] ->
    lex_at U b (off + blen a) = Some tb ->
    safe_end ta (hd 0 x) = true -> safe_end tx d = true ->
    lex_at U (a ++ x ++ b) off = Some (ta ++ shift (off + blen a) tx ++ shift (blen x) tb).
  Proof.
    intros -> Ha Hx Hne Hb S1 S2.
    destruct x as [|e x']; [congruence|]. cbn [hd] in S1.
    assert (Hx' : lex_at U (e :: x') (off + blen a) = Some (shift (off + blen a) tx)).
    { apply (lex_at_shift _ 0 (off + blen a)) in Hx. exact Hx. }
    assert (Hb' : lex_at U (d :: y) (off + blen a + blen (e :: x')) = Some (shift (blen (e :: x')) tb)).
    { apply lex_at_shift. exact Hb. }
    assert (Hxb : lex_at U ((e :: x') ++ d :: y) (off + blen a)
                  = Some (shift (off + blen a) tx ++ shift (blen (e :: x')) tb)).
    { apply lex_app; [exact Hx' | | exact Hb'].
      clear -S2. induction tx as [|t r IH]; [reflexivity|]. cbn [shift map safe_end] in *.
      destruct r; [exact S2 | apply IH; exact S2]. }
    cbn [app] in Hxb. apply (lex_app a off ta e (x' ++ d :: y)); [exact Ha | exact S1 | exact Hxb].
  Qed.

  (* the same at the end of the input *)
  Theorem lex_append a x off ta tx :
    lex_at U a off = Some ta -> lex_at U x 0 = Some tx -> safe_end ta (hd 0 x) = true ->
    lex_at U (a ++ x) off = Some (ta ++ shift (off + blen a) tx).
  Proof.
    intros Ha Hx S1. destruct x as [|e x'].
    - cbn [lex_at lex_fuel length] in Hx. inversion Hx; subst. rewrite !app_nil_r. exact Ha.
    - apply lex_app; [exact Ha | exact S1 |]. apply (lex_at_shift _ 0 (off + blen a)) in Hx. exact Hx.
  Qed.
  (* ---------------------------------------------------------------- the inserted texts *)
  (* the ASCII blank is blank space and not a word character *)
  Hypothesis blank_ws : is_lex_ws U 32 = true /\ is_word_char U 32 = false.

  Lemma ends_close_app c : ends_close (c ++ [45; 93]) = true.
  Proof.
    induction c as [|x r IH]; [reflexivity|]. cbn [app ends_close].
    destruct (r ++ [45; 93]) as [|d r'] eqn:E; [destruct r; discriminate|].
    destruct r' as [|g r'']; [|exact IH].
    destruct r as [|y r0]; [discriminate|]. destruct r0; discriminate.
  Qed.

  Lemma block_body_no_close c z : no_close c = true -> block_body (c ++ 45 :: 93 :: z) = (c ++ [45; 93], z).
  Proof.
    induction c as [|x r IH]; intro H.
    - reflexivity.
    - cbn [no_close] in H. apply andb_true_iff in H as [H1 H2]. apply negb_true_iff in H1.
      cbn [app block_body].
      assert (T : (x =? 45) && next_is 93 (r ++ 45 :: 93 :: z) = false).
      { destruct r as [|y r0]; [cbn [app next_is]; apply andb_false_r | exact H1]. }
      rewrite T, (IH H2). reflexivity.
  Qed.

  Lemma lex_block_comment c off : no_close c = true ->
    lex_at U (block_comment_text c) off = Some [mk KBlockComment (block_comment_text c) off].
  Proof.
    intro H. unfold block_comment_text. rewrite lex_at_cons. unfold lex_one. cbn [next_is tl].
    change (91 =? 92) with false. change (91 =? 62) with false. change (91 =? 45) with false.
    change (91 =? 91) with true. change (45 =? 45) with true. cbn [andb].
    rewrite (block_body_no_close c [] H). reflexivity.
  Qed.

  Lemma closed_block_comment c : closed_comment (block_comment_text c) = true.
  Proof. unfold closed_comment, block_comment_text. cbn [tl]. apply ends_close_app. Qed.

  Lemma span_no_newline c : no_newline c = true -> span_while (fun x => negb (x =? 10)) c = (c, []).
  Proof.
    induction c as [|x r IH]; intro H; [reflexivity|]. cbn [no_newline forallb] in H.
    apply andb_true_iff in H as [H1 H2]. cbn [span_while]. rewrite H1, (IH H2). reflexivity.
  Qed.

  Lemma lex_line_comment c off : no_newline c = true ->
    lex_at U (line_comment_text c) off = Some [mk KLineComment (line_comment_text c) off].
  Proof.
    intro H. unfold line_comment_text. rewrite lex_at_cons. unfold lex_one. cbn [next_is].
    change (45 =? 92) with false. change (45 =? 62) with false. change (45 =? 45) with true.
    assert (S : span_while (fun x => negb (x =? 10)) (45 :: c) = (45 :: c, [])).
    { apply span_no_newline. cbn [no_newline forallb]. exact H. }
    rewrite S. reflexivity.
  Qed.

  Lemma lex_blank_line_comment c off : no_newline c = true ->
    lex_at U (32 :: line_comment_text c) off =
    Some [mk KWs [32] off; mk KLineComment (line_comment_text c) (off + 1)].
  Proof.
    intro H. rewrite lex_at_cons. unfold lex_one at 1. unfold line_comment_text.
    cbn [next_is].
    change (32 =? 92) with false. change (32 =? 62) with false. change (32 =? 45) with false.
    change (32 =? 91) with false. change (32 =? 10) with false. change (32 =? 13) with false.
    change (is_digit 32) with false. change (single_kind 32) with (@None tkind). cbn [andb].
    destruct blank_ws as [W _]. rewrite W. cbn [span_while].
    destruct (special_breaks 45 eq_refl) as [_ X]. rewrite X.
    change (blen [32]) with 1. change (45 :: 45 :: c) with (line_comment_text c).
    rewrite (lex_line_comment c (off + 1) H). reflexivity.
  Qed.

  Lemma lex_blanks w off : w <> [] -> forallb (is_lex_ws U) w = true ->
    (forall c, is_lex_ws U c = true ->
       (c =? 92) || (c =? 62) || (c =? 45) || (c =? 91) || (c =? 10) || (c =? 13) || is_digit c = false
       /\ single_kind c = None) ->
    lex_at U w off = Some [mk KWs w off].
  Proof.
    intros Hne Hw Hc. destruct w as [|c r]; [congruence|]. cbn [forallb] in Hw.
    apply andb_true_iff in Hw as [Hc1 Hr]. destruct (Hc c Hc1) as [T Sk].
    repeat (apply orb_false_iff in T as [T ?]).
    rewrite lex_at_cons. unfold lex_one.
    repeat match goal with E : _ = false |- _ => rewrite E; clear E end. cbn [andb].
    rewrite Sk, Hc1.
    assert (S : span_while (is_lex_ws U) r = (r, [])).
    { clear -Hr. induction r as [|x r IH]; [reflexivity|]. cbn [forallb] in Hr.
      apply andb_true_iff in Hr as [H1 H2]. cbn [span_while]. rewrite H1, (IH H2). reflexivity. }
    rewrite S. reflexivity.
  Qed.

  (* ---------------------------------------------------------------- where a comment or a blank may be put *)
  (* tokens that swallow whatever follows: a lone backslash, a line comment, an unterminated
     block comment *)
  Definition open_ended (t : tok) : bool :=
    match kind t with
    | KEscaped => (length (tstr t) =? 1)%nat
    | KLineComment => true
    | KBlockComment => negb (closed_comment (tstr t))
    | _ => false
    end.

  Definition last_open_ended (ts : list tok) : bool :=
    match rev ts with [] => false | t :: _ => open_ended t end.
  Definition last_is_ws (ts : list tok) : bool :=
    match rev ts with [] => false | t :: _ => tk_eqb (kind t) KWs end.

  Lemma safe_end_last ts d :
    safe_end ts d = match rev ts with [] => true | t :: _ => last_tok_safe t d end.
  Proof.
    induction ts as [|t r IH]; [reflexivity|]. cbn [safe_end rev].
    destruct r as [|t' r']; [reflexivity|]. rewrite IH. cbn [rev].
    destruct (rev r' ++ [t']) eqn:E; [destruct (rev r'); discriminate|]. reflexivity.
  Qed.

  Lemma last_tok_safe_bracket t : open_ended t = false -> last_tok_safe t 91 = true.
  Proof.
    unfold open_ended, last_tok_safe, lone_ok. intro H.
    destruct (special_breaks 91 eq_refl) as [X1 X2].
    destruct (kind t); try reflexivity; try discriminate;
      rewrite ?X1, ?X2, ?H; try reflexivity.
    - change (91 =? 45) with false. change (91 =? 10) with false. rewrite !andb_false_r. reflexivity.
    - change (91 =? 45) with false. change (91 =? 10) with false. rewrite !andb_false_r. reflexivity.
    - apply negb_false_iff in H. exact H.
  Qed.

  Lemma last_tok_safe_blank t :
    open_ended t = false -> tk_eqb (kind t) KWs = false -> last_tok_safe t 32 = true.
  Proof.
    unfold open_ended, last_tok_safe, lone_ok. intros H W.
    destruct blank_ws as [X1 X2].
    destruct (kind t); try reflexivity; try discriminate;
      rewrite ?X1, ?X2, ?H; try reflexivity.
    - change (32 =? 45) with false. change (32 =? 10) with false. rewrite !andb_false_r. reflexivity.
    - change (32 =? 45) with false. change (32 =? 10) with false. rewrite !andb_false_r. reflexivity.
    - apply negb_false_iff in H. exact H.
  Qed.

  Lemma safe_end_bracket ts : last_open_ended ts = false -> safe_end ts 91 = true.
  Proof.
    unfold last_open_ended. rewrite safe_end_last. destruct (rev ts); [reflexivity|].
    apply last_tok_safe_bracket.
  Qed.

  Lemma safe_end_blank ts : last_open_ended ts = false -> last_is_ws ts = false -> safe_end ts 32 = true.
  Proof.
    unfold last_open_ended, last_is_ws. rewrite safe_end_last. destruct (rev ts); [reflexivity|].
    apply last_tok_safe_blank.
  Qed.

  Lemma insert_at_app a x b : insert_at (length a) x (a ++ b) = a ++ x ++ b.
  Proof.
    unfold insert_at. rewrite firstn_app, skipn_app, Nat.sub_diag, firstn_all, skipn_all.
    cbn [firstn skipn app]. rewrite app_nil_r. reflexivity.
  Qed.

  (* ---------------------------------------------------------------- the three insertion theorems *)
  Theorem mid_comment_lex a b off ta tb c :
    no_close c = true ->
    lex_at U a off = Some ta -> lex_at U b (off + blen a) = Some tb ->
    last_open_ended ta = false ->
    lex_at U (mid_comment (length a) c (a ++ b)) off =
    Some (ta ++ [mk KBlockComment (block_comment_text c) (off + blen a)]
             ++ shift (blen (block_comment_text c)) tb).
  Proof.
    intros Hc Ha Hb Ho. unfold mid_comment. rewrite insert_at_app.
    pose proof (lex_block_comment c 0 Hc) as Hx.
    assert (S1 : safe_end ta (hd 0 (block_comment_text c)) = true) by (apply safe_end_bracket; exact Ho).
    destruct b as [|d y].
    - cbn [lex_at lex_fuel length] in Hb. inversion Hb; subst. rewrite app_nil_r.
      rewrite (lex_append a _ off ta _ Ha Hx S1). reflexivity.
    - rewrite (lex_insert a _ (d :: y) off ta _ tb d y eq_refl Ha Hx ltac:(discriminate) Hb S1).
      + reflexivity.
      + cbn [safe_end last_tok_safe kind tstr mk]. apply closed_block_comment.
  Qed.

  Theorem trail_comment_lex a b off ta tb c :
    no_newline c = true -> (b = [] \/ exists y, b = 10 :: y) ->
    lex_at U a off = Some ta -> lex_at U b (off + blen a) = Some tb ->
    last_open_ended ta = false -> last_is_ws ta = false ->
    lex_at U (trail_comment (length a) c (a ++ b)) off =
    Some (ta ++ shift (off + blen a) [mk KWs [32] 0; mk KLineComment (line_comment_text c) 1]
             ++ shift (blen (32 :: line_comment_text c)) tb).
  Proof.
    intros Hc Hb0 Ha Hb Ho Hw. unfold trail_comment. rewrite insert_at_app.
    pose proof (lex_blank_line_comment c 0 Hc) as Hx.
    assert (S1 : safe_end ta (hd 0 (32 :: line_comment_text c)) = true) by (apply safe_end_blank; assumption).
    destruct Hb0 as [-> | [y ->]].
    - cbn [lex_at lex_fuel length] in Hb. inversion Hb; subst. rewrite app_nil_r.
      rewrite (lex_append a _ off ta _ Ha Hx S1). reflexivity.
    - rewrite (lex_insert a _ (10 :: y) off ta _ tb 10 y eq_refl Ha Hx ltac:(discriminate) Hb S1).
      + reflexivity.
      + reflexivity.
  Qed.

  (* the unedited text: [a ++ b] lexes to [ta ++ tb] when b is empty or starts a new line *)
  Theorem line_end_boundary a b off ta tb :
    (b = [] \/ exists y, b = 10 :: y) ->
    lex_at U a off = Some ta -> lex_at U b (off + blen a) = Some tb ->
    safe_end ta 10 = true ->
    lex_at U (a ++ b) off = Some (ta ++ tb).
  Proof.
    intros [-> | [y ->]] Ha Hb S.
    - cbn [lex_at lex_fuel length] in Hb. inversion Hb; subst. rewrite !app_nil_r. exact Ha.
    - apply lex_app; assumption.
  Qed.
  (* ---------------------------------------------------------------- CRLF *)
  Lemma crlf_plain c r : (c =? 10) = false -> (c =? 13) = false -> crlf (c :: r) = c :: crlf r.
  Proof. intros H1 H2. unfold crlf. cbn [crlf_from]. rewrite H1, H2. reflexivity. Qed.

  Lemma crlf_lf r : crlf (10 :: r) = 13 :: 10 :: crlf r.
  Proof. reflexivity. Qed.

  Lemma crlf_crlf r : crlf (13 :: 10 :: r) = 13 :: 10 :: crlf r.
  Proof. reflexivity. Qed.

  Lemma next_is_crlf_from d q r : (d =? 10) = false -> (d =? 13) = false ->
    next_is d (crlf_from q r) = next_is d r.
  Proof.
    intros H1 H2. destruct r as [|c r']; [reflexivity|]. cbn [crlf_from].
    destruct ((c =? 10) && negb q) eqn:E; [|reflexivity].
    apply andb_true_iff in E as [E _]. apply N.eqb_eq in E. subst c. cbn [next_is].
    rewrite (N.eqb_sym 13 d), (N.eqb_sym 10 d), H1, H2. reflexivity.
  Qed.

  Lemma next_is_crlf d r : (d =? 10) = false -> (d =? 13) = false -> next_is d (crlf r) = next_is d r.
  Proof. apply next_is_crlf_from. Qed.

  (* the flag after copying a string without LF *)
  Fixpoint endcr (q : bool) (a : str) : bool :=
    match a with [] => q | x :: r => endcr (x =? 13) r end.

  Lemma crlf_from_no_lf a : forall q z, no_newline a = true ->
    crlf_from q (a ++ z) = a ++ crlf_from (endcr q a) z.
  Proof.
    induction a as [|x r IH]; intros q z H; [reflexivity|]. cbn [no_newline forallb] in H.
    apply andb_true_iff in H as [H1 H2]. apply negb_true_iff in H1.
    cbn [app crlf_from endcr]. rewrite H1. cbn [andb]. rewrite (IH _ _ H2). reflexivity.
  Qed.

  Lemma span_all p a : forallb p a = true -> span_while p a = (a, []).
  Proof.
    induction a as [|x r IH]; intro H; [reflexivity|]. cbn [forallb] in H.
    apply andb_true_iff in H as [H1 H2]. cbn [span_while]. rewrite H1, (IH H2). reflexivity.
  Qed.

  (* a run of characters none of which is CR or LF is copied *)
  Lemma span_while_crlf p : p 10 = false -> p 13 = false -> forall r a b,
    span_while p r = (a, b) -> span_while p (crlf r) = (a, crlf b).
  Proof.
    intros P10 P13. induction r as [|c r IH]; intros a b H; cbn [span_while] in H.
    - inversion H; reflexivity.
    - destruct (p c) eqn:Pc.
      + destruct (span_while p r) as [a' b'] eqn:E. inversion H; subst.
        assert (E10 : (c =? 10) = false).
        { destruct (c =? 10) eqn:X; [|reflexivity]. apply N.eqb_eq in X. subst. congruence. }
        assert (E13 : (c =? 13) = false).
        { destruct (c =? 13) eqn:X; [|reflexivity]. apply N.eqb_eq in X. subst. congruence. }
        rewrite (crlf_plain _ _ E10 E13). cbn [span_while]. rewrite Pc, (IH _ _ eq_refl). reflexivity.
      + inversion H; subst. destruct (c =? 10) eqn:E10.
        * apply N.eqb_eq in E10. subst c. rewrite crlf_lf. cbn [span_while]. rewrite P13. reflexivity.
        * unfold crlf. cbn [crlf_from]. rewrite E10. cbn [andb span_while]. rewrite Pc. reflexivity.
  Qed.

  Lemma block_body_crlf : forall x q a b,
    block_body x = (a, b) -> block_body (crlf_from q x) = (crlf_from q a, crlf_from false b).
  Proof.
    induction x as [|c r IH]; intros q a b H; cbn [block_body] in H.
    - inversion H; reflexivity.
    - destruct ((c =? 45) && next_is 93 r) eqn:T.
      + inversion H; subst. apply andb_true_iff in T as [T1 T2]. apply N.eqb_eq in T1. subst c.
        apply next_is_cons in T2. rewrite T2. cbn [tl]. reflexivity.
      + destruct (block_body r) as [a' b'] eqn:E. inversion H; subst.
        cbn [crlf_from]. destruct ((c =? 10) && negb q) eqn:Q.
        * apply andb_true_iff in Q as [Q _]. apply N.eqb_eq in Q. subst c.
          cbn [block_body next_is]. change (13 =? 45) with false. change (10 =? 45) with false. cbn [andb].
          rewrite (IH false _ _ eq_refl). reflexivity.
        * cbn [block_body]. rewrite next_is_crlf_from by reflexivity. rewrite T.
          rewrite (IH (c =? 13) _ _ eq_refl). reflexivity.
  Qed.

  Lemma no_lone_cr_app a b : no_lone_cr (a ++ b) = true -> no_lone_cr b = true.
  Proof.
    induction a as [|x r IH]; intro H; [exact H|]. cbn [app no_lone_cr] in H.
    apply andb_true_iff in H as [_ H]. apply IH. exact H.
  Qed.

  Lemma no_backslash_app a b : no_backslash (a ++ b) = true -> no_backslash b = true.
  Proof.
    unfold no_backslash. rewrite forallb_app. intro H. apply andb_true_iff in H as [_ H]. exact H.
  Qed.

  (* what CRLF conversion does to one token that is not a line comment *)
  Definition crlf_tstr (k : tkind) (t : str) : str :=
    match k with KBlockComment => crlf t | _ => t end.

  Lemma lex_one_crlf c r k t rest :
    (c =? 10) = false -> (c =? 13) = false -> (c =? 92) = false ->
    (c =? 45) && next_is 45 r = false ->
    lex_one U c r = (k, t, rest) ->
    lex_one U c (crlf r) = (k, crlf_tstr k t, crlf rest).
  Proof.
    intros E10 E13 E92 Elc H. unfold lex_one in *.
    rewrite (next_is_crlf 62), (next_is_crlf 45) by reflexivity.
    rewrite E92 in *. rewrite E10, E13 in *. cbn [andb] in *.
    destruct (c =? 62).
    { destruct (next_is 62 r) eqn:En; inversion H; subst; cbn [crlf_tstr]; [|reflexivity].
      apply next_is_cons in En. rewrite En. rewrite crlf_plain by reflexivity. reflexivity. }
    destruct (c =? 45) eqn:E45.
    { cbn [andb] in Elc. rewrite Elc in *. inversion H; subst. reflexivity. }
    destruct ((c =? 91) && next_is 45 r) eqn:E91.
    { destruct (block_body (tl r)) as [a b] eqn:Eb. inversion H; subst.
      apply andb_true_iff in E91 as [Ec En]. apply N.eqb_eq in Ec. subst c.
      apply next_is_cons in En. rewrite En. rewrite crlf_plain by reflexivity. cbn [tl].
      unfold crlf at 1. rewrite (block_body_crlf _ false _ _ Eb). cbn [crlf_tstr].
      rewrite !crlf_plain by reflexivity. reflexivity. }
    destruct (is_digit c).
    { destruct (span_while is_digit r) as [a b] eqn:Es. inversion H; subst.
      rewrite (span_while_crlf is_digit eq_refl eq_refl _ _ _ Es).
      destruct a; [|destruct (c =? 48)]; reflexivity. }
    destruct (single_kind c) as [k'|] eqn:Ek.
    { inversion H; subst. destruct k; try reflexivity. apply single_kind_not in Ek. destruct Ek. }
    destruct (eol_breaks 10 eq_refl) as [W10 L10]. destruct (eol_breaks 13 eq_refl) as [W13 L13].
    destruct (is_lex_ws U c).
    { destruct (span_while (is_lex_ws U) r) as [a b] eqn:Es. inversion H; subst.
      rewrite (span_while_crlf _ L10 L13 _ _ _ Es). reflexivity. }
    destruct (u_punct (U c)). { inversion H; subst. reflexivity. }
    destruct (span_while (is_word_char U) r) as [a b] eqn:Es. inversion H; subst.
    rewrite (span_while_crlf _ W10 W13 _ _ _ Es). reflexivity.
  Qed.
  Lemma lex_one_lf r : lex_one U 10 r = (KNewline, [10], r).
  Proof. reflexivity. Qed.
  Lemma lex_one_crlf_nl z : lex_one U 13 (10 :: z) = (KNewline, [13; 10], z).
  Proof. reflexivity. Qed.

  Lemma lex_one_newline c r t rest : lex_one U c r = (KNewline, t, rest) -> (c =? 10) || (c =? 13) = true.
  Proof.
    unfold lex_one. intro H.
    destruct (c =? 92). { destruct r; inversion H. }
    destruct (c =? 62). { destruct (next_is 62 r); inversion H. }
    destruct (c =? 45). { destruct (next_is 45 r); [destruct (span_while _ r)|]; inversion H. }
    destruct ((c =? 91) && next_is 45 r). { destruct (block_body (tl r)); inversion H. }
    destruct (c =? 10); [reflexivity|].
    destruct ((c =? 13) && next_is 10 r) eqn:E. { apply andb_true_iff in E as [E _]. rewrite E. reflexivity. }
    destruct (is_digit c). { destruct (span_while is_digit r) as [a b]. destruct a; [|destruct (c =? 48)]; inversion H. }
    destruct (single_kind c) eqn:Ek. { inversion H; subst. apply single_kind_not in Ek. destruct Ek. }
    destruct (is_lex_ws U c). { destruct (span_while _ r); inversion H. }
    destruct (u_punct (U c)); [inversion H|]. destruct (span_while _ r); inversion H.
  Qed.

  Lemma crlf_rel_same k t o o' :
    k <> KNewline -> crlf_tok_rel (mk k t o) (mk k (crlf_tstr k t) o').
  Proof.
    intro H. split; [reflexivity|]. cbn [kind tstr mk].
    destruct k; try reflexivity; try congruence. left; reflexivity.
  Qed.

  Lemma crlf_lex_len n : forall s off off' ts,
    (length s <= n)%nat -> no_backslash s = true -> no_lone_cr s = true ->
    lex_at U s off = Some ts ->
    exists ts', lex_at U (crlf s) off' = Some ts' /\ Forall2 crlf_tok_rel ts ts'.
  Proof.
    induction n as [|n IH]; intros s off off' ts Hn Hb Hc H.
    { destruct s; [|cbn in Hn; lia]. cbn in H. inversion H; subst. exists []. split; [reflexivity | constructor]. }
    destruct s as [|c r].
    { cbn in H. inversion H; subst. exists []. split; [reflexivity | constructor]. }
    rewrite lex_at_cons in H. destruct (lex_one U c r) as [[k t] rest] eqn:E.
    destruct (lex_at U rest (off + blen t)) as [ts0|] eqn:E0; [|discriminate]. inversion H; subst ts. clear H.
    pose proof (lex_one_tiles U _ _ _ _ _ E) as [Ht _].
    pose proof (lex_one_shorter U _ _ _ _ _ E) as Hl.
    assert (Hb' : no_backslash rest = true) by (apply (no_backslash_app t); rewrite Ht; exact Hb).
    assert (Hc' : no_lone_cr rest = true) by (apply (no_lone_cr_app t); rewrite Ht; exact Hc).
    assert (E92 : (c =? 92) = false).
    { unfold no_backslash in Hb. cbn [forallb] in Hb. apply andb_true_iff in Hb as [Hb _].
      apply negb_true_iff in Hb. exact Hb. }
    cbn [length] in Hn.
    destruct (c =? 10) eqn:E10.
    { apply N.eqb_eq in E10. subst c. rewrite lex_one_lf in E. inversion E; subst.
      destruct (IH rest (off + blen [10]) (off' + blen [13; 10]) ts0 ltac:(lia) Hb' Hc' E0) as [ts' [L R]].
      exists (mk KNewline [13; 10] off' :: ts'). split.
      - rewrite crlf_lf, lex_at_cons, lex_one_crlf_nl, L. reflexivity.
      - constructor; [|exact R]. split; [reflexivity|]. left; reflexivity. }
    destruct (c =? 13) eqn:E13.
    { apply N.eqb_eq in E13. subst c. cbn [no_lone_cr] in Hc. change (13 =? 13) with true in Hc.
      cbn [negb orb] in Hc. apply andb_true_iff in Hc as [Hn10 _]. apply next_is_cons in Hn10.
      rewrite Hn10 in E. rewrite lex_one_crlf_nl in E. inversion E; subst.
      destruct (IH (tl r) (off + blen [13; 10]) (off' + blen [13; 10]) ts0 ltac:(lia) Hb' Hc' E0) as [ts' [L R]].
      exists (mk KNewline [13; 10] off' :: ts'). split.
      - rewrite Hn10, crlf_crlf, lex_at_cons, lex_one_crlf_nl, L. reflexivity.
      - constructor; [|exact R]. split; [reflexivity|]. left; reflexivity. }
    rewrite (crlf_plain _ _ E10 E13), lex_at_cons.
    destruct ((c =? 45) && next_is 45 r) eqn:Elc.
    - (* a line comment: the CR of the line end goes into the comment *)
      apply andb_true_iff in Elc as [Ec En]. apply N.eqb_eq in Ec. subst c.
      unfold lex_one in E |- *. rewrite (next_is_crlf 45) by reflexivity.
      change (45 =? 92) with false in *. change (45 =? 62) with false in *. change (45 =? 45) with true in *.
      rewrite En in *.
      destruct (span_while (fun x => negb (x =? 10)) r) as [a b] eqn:Es. inversion E; subst k t rest. clear E.
      pose proof (span_while_app _ _ _ _ Es) as Hab. pose proof (span_while_all _ _ _ _ Es) as Hall.
      pose proof (span_while_stop _ _ _ _ Es) as Hstop.
      assert (Hcr : crlf r = a ++ crlf_from (endcr false a) b).
      { rewrite <- Hab at 1. apply crlf_from_no_lf. exact Hall. }
      destruct b as [|x b'].
      + cbn [crlf_from] in Hcr. rewrite app_nil_r in Hcr. rewrite Hcr, (span_all _ _ Hall).
        cbn in E0. inversion E0; subst ts0.
        eexists. split; [reflexivity|]. constructor; [|constructor].
        split; [reflexivity|]. left; reflexivity.
      + apply negb_false_iff, N.eqb_eq in Hstop. subst x.
        rewrite lex_at_cons, lex_one_lf in E0.
        destruct (lex_at U b' (off + blen (45 :: a) + blen [10])) as [ts1|] eqn:E1; [|discriminate].
        inversion E0; subst ts0. clear E0.
        assert (Hb1 : no_backslash b' = true) by (apply (no_backslash_app [10]); exact Hb').
        assert (Hc1 : no_lone_cr b' = true) by (apply (no_lone_cr_app [10]); exact Hc').
        assert (Hlen : (length b' <= n)%nat).
        { rewrite <- Hab in Hn. rewrite app_length in Hn. cbn [length] in Hn. lia. }
        destruct (endcr false a) eqn:Q.
        * (* the comment already ends with CR *)
          change (crlf_from true (10 :: b')) with (10 :: crlf b') in Hcr. rewrite Hcr.
          rewrite (span_while_app_end _ _ _ 10 (crlf b') (span_all _ _ Hall) eq_refl).
          destruct (IH b' _ (off' + blen (45 :: a) + blen [10]) ts1 Hlen Hb1 Hc1 E1) as [ts' [L R]].
          eexists. split.
          { rewrite lex_at_cons, lex_one_lf, L. reflexivity. }
          constructor; [split; [reflexivity | left; reflexivity]|].
          constructor; [split; [reflexivity | right; reflexivity] | exact R].
        * change (crlf_from false (10 :: b')) with (13 :: 10 :: crlf b') in Hcr.
          assert (Hcr' : crlf r = (a ++ [13]) ++ 10 :: crlf b') by (rewrite Hcr, <- app_assoc; reflexivity).
          assert (Hall' : forallb (fun x => negb (x =? 10)) (a ++ [13]) = true).
          { rewrite forallb_app, Hall. reflexivity. }
          rewrite Hcr', (span_while_app_end _ _ _ 10 (crlf b') (span_all _ _ Hall') eq_refl).
          destruct (IH b' _ (off' + blen (45 :: a ++ [13]) + blen [10]) ts1 Hlen Hb1 Hc1 E1) as [ts' [L R]].
          eexists. split.
          { rewrite lex_at_cons, lex_one_lf, L. reflexivity. }
          constructor; [split; [reflexivity | right; reflexivity]|].
          constructor; [split; [reflexivity | right; reflexivity] | exact R].
    - rewrite (lex_one_crlf _ _ _ _ _ E10 E13 E92 Elc E).
      destruct (IH rest (off + blen t) (off' + blen (crlf_tstr k t)) ts0 ltac:(lia) Hb' Hc' E0) as [ts' [L R]].
      rewrite L. eexists. split; [reflexivity|]. constructor; [|exact R].
      apply crlf_rel_same. intro Hk. subst k. apply lex_one_newline in E. rewrite E10, E13 in E. discriminate.
  Qed.

  (* token kinds are unchanged by CRLF conversion, token texts change as [crlf_tok_rel] says *)
  Theorem crlf_lex s off off' ts :
    no_backslash s = true -> no_lone_cr s = true -> lex_at U s off = Some ts ->
    exists ts', lex_at U (crlf s) off' = Some ts' /\ Forall2 crlf_tok_rel ts ts'.
  Proof. apply (crlf_lex_len (length s)). apply le_n. Qed.

  Lemma crlf_rel_kinds ts ts' : Forall2 crlf_tok_rel ts ts' -> map kind ts' = map kind ts.
  Proof. induction 1 as [|t t' r r' [Hk _] _ IH]; [reflexivity|]. cbn [map]. rewrite Hk, IH. reflexivity. Qed.
End EditLex.
