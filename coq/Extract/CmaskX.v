From CL Require Import Model.CommentMask.
Require Extraction.
Require ExtrOcamlBasic.
Extraction Language OCaml.
Extraction "cmask_model.ml" mask.
