From CL Require Import Model.Bindings.
Require Extraction.
Require ExtrOcamlBasic.
Extraction Language OCaml.
Extraction "bindings_model.ml" into_simple_recipe deref_component deref_ingredient deref_cookware deref_timer
  combine_ingredients combine_ingredients_selected ing_from is_type_site.
