From CL Require Import Model.Serde Gen.SerdeDesc.
Require Extraction.
Require ExtrOcamlBasic.
Extraction Language OCaml.
Extraction "serde_model.ml" ser de norm typedb wf_desc json_safe scalable_recipe scaled_recipe.
