From CL Require Import Model.Parser Gen.CharClass.
Require Extraction.
Require ExtrOcamlBasic.
Extraction Language OCaml.
Definition events_U := events U.
Definition meta_events_U := meta_events U.
Definition lex_U := lex U.
Extraction "events_model.ml" events_U meta_events_U lex_U.
