From CL Require Import Model.Fraction.
From Coq Require Import QArith.
Require Extraction.
Require ExtrOcamlBasic.
Extraction Language OCaml.
Extraction "frac_model.ml" new_approx try_approx try_approx_seq define try_fraction cfg0 cfgF value display read_display table_new lookup Qred Qmult Qplus Qminus.
