From CL Require Import Model.Convert Gen.UnitsToml Model.Standards Model.Scale.
Require Extraction.
Require ExtrOcamlBasic.
Extraction Language OCaml.
(* the converter of the regenerated units.toml, built by the model of the builder *)
Definition bundled : outcome (option converter) := build_file file si_ratios.
(* the hand-written real-world definitions (independent of /repo), as plain data for the monitor *)
Definition standards_x := Eval vm_compute in standards.
Extraction "scale_model.ml" bundled new_approx scale scale_to_servings default_scale Qred standards_x.
