From CL Require Import Model.StdMeta.
Require Extraction.
Require ExtrOcamlBasic.
Extraction Language OCaml.
Extraction "stdmeta_model.ml" cfg_old cfg_new check_std_entry stdkey_of as_minutes as_time total
  value_as_servings value_as_tags as_name_and_url value_as_locale
  meta_time meta_servings meta_tags meta_author meta_source meta_locale
  parse_f64 units_total alpha_with conv_ok.
