(* L-diag (C07): the parser model followed by the decorated collector of Model/AnalysisDiag.v.
   [adiag_U ext debug <oracles> input]: None when the parser model or the collector panics, else
   (the stream holds a parser error, the analysis diagnostics in order: severity Error? and the
   label spans, the `>>` notice last).  The inline-quantity oracle is constant None: it only
   feeds the item list and the inline-quantity counter, which no diagnostic reads. *)
From CL Require Import Model.Parser Gen.CharClass Model.Diag Model.EventBridge Model.AnalysisLabels Model.AnalysisDiag.
From CL Require Model.Analysis.
Require Extraction.
Require ExtrOcamlBasic.
Extraction Language OCaml.
Open Scope N_scope.

Definition adiag_U (ext : N) (debug : bool)
    (ci_key : str -> str) (yaml_ok : str -> bool) (unit_class : str -> N)
    (yaml_err_index : str -> option N) (yaml_std_bad : str -> list str) (yaml_has_key std_check : str -> str -> bool)
    (is_alnum : N -> bool) (unit_pq : str -> option N) (input : str)
    : option (bool * list (bool * list span)) :=
  let cfg := {| p_ext := ext; p_debug := debug; p_strict_escape := false; p_note_label_old := false;
                p_fm_anywhere := false |} in
  let x := {| Analysis.x_modes := N.testbit ext 6; Analysis.x_inline := N.testbit ext 7;
              Analysis.x_advanced := N.testbit ext 5 |} in
  match events U cfg input with
  | Panic _ => None
  | Done evs =>
      match drun ci_key yaml_ok (fun _ => None) unit_class input x Analysis.cfgF dcfg_now yaml_err_index yaml_std_bad
                 yaml_has_key std_check is_alnum unit_pq dinit evs with
      | Panic _ => None
      | Done (st, ds) =>
          Some (existsb is_perror evs,
                map (fun d => (ad_is_error d, map snd (ad_labels d))) (ds ++ dfinish st))
      end
  end.

Extraction "adiag_model.ml" adiag_U.
