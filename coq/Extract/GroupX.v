From CL Require Import Model.Aisle Model.Group.
Require Extraction.
Require ExtrOcamlBasic.
Extraction Language OCaml.
Definition group_add := add.
Extraction "group_model.ml" group_add add_all merge fit iter gq_empty gv_add gv_add_all gv_merge
  group_ingredients group_cookware add_recipes categorize c_iter sane pq_all
  Aisle.parse Aisle.info.
