From CL Require Import Model.Aisle.
Require Extraction.
Require ExtrOcamlBasic.
Extraction Language OCaml.
Extraction "aisle_model.ml" parse write info cfg uni_ws ascii_ws.
