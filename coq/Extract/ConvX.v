From CL Require Import Model.Convert Gen.UnitsToml Model.Standards Model.Scale Model.RecipeConvert.
Require Extraction.
Require ExtrOcamlBasic.
Extraction Language OCaml.
(* the converter of the regenerated units.toml, built by the model of the builder *)
Definition bundled : outcome (option converter) := build_file file si_ratios.
(* evaluated, so that the extracted table is plain data (no Coq strings) *)
Definition standards_x := Eval vm_compute in standards.
Extraction "conv_model.ml" bundled new_approx conv_convert convert_impl fit symbol unit_at
  conversions Qred standards_x recipe_convert.
