(* L-meta: the two event streams of Model/Parser.v fed to the metadata-map model of
   Model/MetaMap.v, for documents without a front matter (no YAML oracle needed: keys and
   values are the strings themselves). *)
From CL Require Import Model.Parser Model.MetaMap Gen.CharClass.
Require Extraction.
Require ExtrOcamlBasic.
Extraction Language OCaml.
Definition events_U := events U.
Definition meta_events_U := meta_events U.
Definition has_frontmatter (cfg : pcfg) (s : str) : bool :=
  match parse_frontmatter cfg s with Some _ => true | None => false end.
Definition old_map (cfg : pcfg) (evs : list pevent) : option (list (str * str)) :=
  metadata_of str (fun x => x) str_eqb (fun _ => None) (has cfg X_MODES) evs.
Extraction "metamap_model.ml" events_U meta_events_U has_frontmatter old_map.
