From CL Require Import Model.Analysis Model.AnalysisSpec.
Require Extraction.
Require ExtrOcamlBasic.
Extraction Language OCaml.
Extraction "analysis_model.ml" analyse run init output is_valid cfg0 cfgF mods_of_bits mods_bits parser_shaped shape_run
  recipe_ok_b valid_tbl_b.
