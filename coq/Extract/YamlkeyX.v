From CL Require Import Model.AnalysisLabels.
Require Extraction.
Require ExtrOcamlBasic.
Extraction Language OCaml.
Extraction "yamlkey_model.ml" yaml_find_key_position.
