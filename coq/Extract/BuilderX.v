From CL Require Import Model.Builder.
Require Extraction.
Require ExtrOcamlBasic.
Extraction Language OCaml.
Extraction "builder_model.ml" build cfg_old cfg_new all_pq all_sipre.
