(* Model of the pull parser of /repo/src/parser:
     block_parser.rs (BlockParser 20-275), step.rs (parse_step 13-38, comp_body 46-88,
     modifiers 90-116, note 118-126, parse_modifiers 134-184, parse_intermediate_ref_data
     186-276, parse_alias 278-321, ingredient 327-362, cookware 364-425, timer 427-492,
     check_* 494-576), quantity.rs (22-327), metadata.rs (5-46), section.rs (5-32),
     text_block.rs (5-24), frontmatter.rs (11-44), mod.rs (pull_line 224-248,
     next_block 251-301, next_metadata_block 303-343, parse_block 359-381,
     parse_multiline_block 383-408).
   Hand translation; panics are [Panic site] values; diagnostics carry a code,
   a severity and their label spans (message wording is not modelled). *)
From Coq Require Export QArith.
From CL Require Export Base.Chars Model.Lexer Model.PText Gen.ExtBits.
Open Scope N_scope.

(* ---------------------------------------------------------------- data *)

Definition span := (N * N)%type.

Inductive num :=
| NReg (q : Q)                (* Number::Regular: the decimal literal, exactly *)
| NFrac (w n d : N).          (* Number::Fraction, err = 0 *)

Inductive value :=
| VNum (n : num)
| VRange (a b : num)
| VText (s : str).

Record qvalue := { qv : value; qv_span : span; qlock : option span }.
Record quantity := { q_val : qvalue; q_unit : option text; q_span : span }.

Record interdata := { im_relative : bool; im_section : bool; im_val : N; im_span : span }.

Record ingredient := {
  i_mods : N; i_mods_span : span; i_inter : option interdata;
  i_name : text; i_alias : option text; i_qty : option quantity; i_note : option text;
  i_span : span }.

Record cookware := {
  c_mods : N; c_mods_span : span;
  c_name : text; c_alias : option text; c_qty : option (qvalue * span); c_note : option text;
  c_span : span }.

Record timer := { t_name : option text; t_qty : option quantity; t_span : span }.

Record diag := { d_err : bool; d_code : N; d_labels : list span }.

Inductive pevent :=
| EvYaml (t : text)
| EvMetadata (key value : text)
| EvSection (name : option text)
| EvStart (is_step : bool)
| EvEnd (is_step : bool)
| EvText (t : text)
| EvIngredient (i : ingredient)
| EvCookware (c : cookware)
| EvTimer (t : timer)
| EvDiag (d : diag).

(* diagnostic codes *)
Definition D_SINGLE_WORD := 1.   Definition D_DUP_MOD := 2.        Definition D_INTER_EMPTY := 3.
Definition D_INTER_ORDER := 4.   Definition D_INTER_SIGN := 5.     Definition D_INTER_INVALID := 6.
Definition D_INTER_INT := 7.     Definition D_MULTI_ALIAS := 8.    Definition D_EMPTY_ALIAS := 9.
Definition D_EMPTY_NAME := 10.   Definition D_COOKWARE_UNIT := 11. Definition D_COOKWARE_RECIPE := 12.
Definition D_TIMER_NO_UNIT := 13. Definition D_TIMER_NO_QTY := 14. Definition D_TIMER_NEITHER := 15.
Definition D_MODS_NOT_ALLOWED := 16. Definition D_INTER_NOT_ALLOWED := 17. Definition D_ALIAS_NOT_ALLOWED := 18.
Definition D_NOTE_WARN := 19.    Definition D_EMPTY_UNIT := 20.    Definition D_EMPTY_VALUE := 21.
Definition D_DIV_ZERO := 22.     Definition D_INT_PARSE := 23.     Definition D_META_INVALID := 25.
Definition D_EMPTY_META_KEY := 26. Definition D_EMPTY_META_VALUE := 27. Definition D_SECTION_INVALID := 28.

(* panic sites (source line of the assertion) *)
Definition site_bp_new := 39.        Definition site_bp_finish := 67.   Definition site_text_offset := 136.
Definition site_escaped_len := 156.  Definition site_bump_any := 225.   Definition site_bump := 231.
Definition site_mod_token := 163.    Definition site_inter_paren := 205. Definition site_recipe_tok := 405.
Definition site_adv_rposition := 112. Definition site_qty_empty := 26.   Definition site_trim_index := 284.
Definition site_label_underflow := 561. Definition site_fuel := 9999.

Definition ext_has (e x : N) : bool := N.land e x =? x.

(* what is configurable about the modelled code *)
Record pcfg := {
  p_ext : N;               (* enabled extensions *)
  p_debug : bool;          (* debug assertions on *)
  p_strict_escape : bool;  (* block_parser.rs:156 asserts len == 2 (code before the repair) *)
  p_note_label_old : bool; (* step.rs:561 label at start - 1 in bytes (before the repair) *)
  p_fm_anywhere : bool     (* frontmatter.rs: fence pair accepted anywhere (before the repair) *)
}.

(* ---------------------------------------------------------------- BlockParser *)

Record bp := {
  b_all : list tok;       (* tokens *)
  b_done : list tok;      (* parsed(), reversed *)
  b_rest : list tok;      (* rest() *)
  b_evs : list pevent     (* events pushed so far, reversed *)
}.

Definition M (A : Type) := bp -> outcome (A * bp).
Definition ret {A} (a : A) : M A := fun s => Done (a, s).
Definition bind {A B} (m : M A) (f : A -> M B) : M B :=
  fun s => match m s with Done (a, s') => f a s' | Panic p => Panic p end.
Definition panic {A} (site : N) : M A := fun _ => Panic site.
Definition lift {A} (o : outcome A) : M A :=
  fun s => match o with Done a => Done (a, s) | Panic p => Panic p end.
Notation "x <- m ;; k" := (bind m (fun x => k)) (at level 61, m at next level, right associativity).
Notation "' p <- m ;; k" := (bind m (fun x => let 'p := x in k))
  (at level 61, p pattern, m at next level, right associativity).
Notation "m ;;; k" := (bind m (fun _ => k)) (at level 61, right associativity).

Definition get : M bp := fun s => Done (s, s).

Definition tok_span (t : tok) : span := (tstart t, tend t).

Definition base_offset (b : bp) : N :=
  match b_all b with t :: _ => tstart t | [] => 0 end.

Definition current_offset_of (b : bp) : N :=
  match b_done b with t :: _ => tend t | [] => base_offset b end.
Definition current_offset : M N := fun s => Done (current_offset_of s, s).

Definition event (ev : pevent) : M unit :=
  fun s => Done (tt, {| b_all := b_all s; b_done := b_done s; b_rest := b_rest s; b_evs := ev :: b_evs s |}).
Definition mkdiag (err : bool) (code : N) (labels : list span) : pevent :=
  EvDiag {| d_err := err; d_code := code; d_labels := labels |}.
Definition error (code : N) (labels : list span) : M unit := event (mkdiag true code labels).
Definition warn (code : N) (labels : list span) : M unit := event (mkdiag false code labels).

Definition peek_of (b : bp) : tkind := match b_rest b with t :: _ => kind t | [] => KEof end.
Definition peek : M tkind := fun s => Done (peek_of s, s).
Definition at_kind (k : tkind) : M bool := fun s => Done (tk_eqb (peek_of s) k, s).
Definition rest : M (list tok) := fun s => Done (b_rest s, s).
Definition all_tokens : M (list tok) := fun s => Done (b_all s, s).
Definition parsed : M (list tok) := fun s => Done (rev (b_done s), s).

Definition next_token : M (option tok) :=
  fun s => match b_rest s with
           | t :: r => Done (Some t, {| b_all := b_all s; b_done := t :: b_done s; b_rest := r; b_evs := b_evs s |})
           | [] => Done (None, s)
           end.

Definition bump_any : M tok :=
  o <- next_token ;; match o with Some t => ret t | None => panic site_bump_any end.

Definition bump (k : tkind) : M tok :=
  t <- bump_any ;; if tk_eqb (kind t) k then ret t else panic site_bump.

Definition consume (k : tkind) : M (option tok) :=
  a <- at_kind k ;; if a then (t <- bump_any ;; ret (Some t)) else ret None.

(* move the first n tokens of rest to done *)
Fixpoint advance (n : nat) (s : bp) : bp :=
  match n with
  | O => s
  | S n' =>
      match b_rest s with
      | t :: r => advance n' {| b_all := b_all s; b_done := t :: b_done s; b_rest := r; b_evs := b_evs s |}
      | [] => s
      end
  end.

Fixpoint position (f : tkind -> bool) (ts : list tok) : option nat :=
  match ts with
  | [] => None
  | t :: r => if f (kind t) then Some O else option_map S (position f r)
  end.

(* until: None (nothing consumed) when no token satisfies f *)
Definition until (f : tkind -> bool) : M (option (list tok)) :=
  fun s => match position f (b_rest s) with
           | Some n => Done (Some (firstn n (b_rest s)), advance n s)
           | None => Done (None, s)
           end.

Definition consume_while (f : tkind -> bool) : M (list tok) :=
  fun s => let n := match position (fun k => negb (f k)) (b_rest s) with
                    | Some n => n | None => length (b_rest s) end in
           Done (firstn n (b_rest s), advance n s).

Definition is_ws_comment (k : tkind) : bool :=
  match k with KWs | KLineComment | KBlockComment => true | _ => false end.
Definition is_ws_block (k : tkind) : bool :=
  match k with KWs | KBlockComment => true | _ => false end.

Definition ws_comments : M (list tok) := consume_while is_ws_comment.
Definition consume_rest : M (list tok) := consume_while (fun _ => true).

(* with_recover: on None the position is restored, events are kept *)
Definition with_recover {A} (m : M (option A)) : M (option A) :=
  fun s => match m s with
           | Done (Some a, s') => Done (Some a, s')
           | Done (None, s') =>
               Done (None, {| b_all := b_all s; b_done := b_done s; b_rest := b_rest s; b_evs := b_evs s' |})
           | Panic p => Panic p
           end.

(* `?` on an option inside a function returning Option *)
Definition obindM {A B} (m : M (option A)) (f : A -> M (option B)) : M (option B) :=
  o <- m ;; match o with Some a => f a | None => ret None end.
Notation "x <-? m ;; k" := (obindM m (fun x => k)) (at level 61, m at next level, right associativity).

Definition tokens_span (ts : list tok) : span :=
  match ts with
  | [] => (0, 0)
  | t :: _ => (tstart t, tend (last ts t))
  end.

(* ---------------------------------------------------------------- BlockParser::text *)

Section WithCfg.
  Variable cfg : pcfg.
  Definition has (x : N) : bool := ext_has (p_ext cfg) x.

  (* the loop of text(): [cs]/[cur] are start and input[start..end] *)
  Fixpoint text_loop (ts : list tok) (t : text) (cs : N) (cur : str) : outcome text :=
    match ts with
    | [] => append_str t cur cs
    | tk :: r =>
        match kind tk with
        | KNewline =>
            obind (append_str t cur cs) (fun t1 =>
            obind (append_fragment t1 {| ftext := tstr tk; foff := tstart tk; fsoft := true |}) (fun t2 =>
            text_loop r t2 (tend tk) []))
        | KLineComment | KBlockComment =>
            obind (append_str t cur cs) (fun t1 => text_loop r t1 (tend tk) [])
        | KEscaped =>
            obind (append_str t cur cs) (fun t1 =>
            if p_debug cfg && p_strict_escape cfg && negb (blen (tstr tk) =? 2)
            then Panic site_escaped_len
            else text_loop r t1 (tstart tk + 1) (tl (tstr tk)))
        | _ => text_loop r t cs (cur ++ tstr tk)
        end
    end.

  Definition text_of (offset : N) (ts : list tok) : outcome text :=
    match ts with
    | [] => Done (text_empty offset)
    | t0 :: _ =>
        if offset =? tstart t0 then text_loop ts (text_empty offset) (tstart t0) []
        else Panic site_text_offset
    end.
  Definition textM (offset : N) (ts : list tok) : M text := lift (text_of offset ts).

  (* ---------------------------------------------------------------- numbers *)

  Definition digits_val (s : str) : N := fold_left (fun acc c => acc * 10 + (c - 48)) s 0.

  Definition u32_max : N := 4294967295.
  Definition i16_max : N := 32767.

  (* int(): parse::<u32>() of an int token *)
  Definition int_of (t : tok) : diag + N :=
    let v := digits_val (tstr t) in
    if v <=? u32_max then inr v
    else inl {| d_err := true; d_code := D_INT_PARSE; d_labels := [tok_span t] |}.

  (* float(): the decimal literal formed by the tokens, as an exact rational *)
  Definition dec_q (ip fp : str) : Q :=
    let k := N.of_nat (length fp) in
    let scale := Pos.pow 10 (N.succ_pos k) in   (* 10^(k+1), always positive *)
    Qmake (Z.of_N ((digits_val ip * 10 ^ k + digits_val fp) * 10)) scale.

  Definition not_ws_comment (t : tok) : bool := negb (is_ws_comment (kind t)).

  Fixpoint drop_ws_comment (ts : list tok) : list tok :=
    match ts with
    | t :: r => if not_ws_comment t then ts else drop_ws_comment r
    | [] => []
    end.

  Definition trim_tokens (ts : list tok) : list tok :=
    rev (drop_ws_comment (rev (drop_ws_comment ts))).

  Definition is_int_or_zero (k : tkind) : bool := match k with KInt | KZeroInt => true | _ => false end.

  Definition frac_of (a b : tok) : diag + num :=
    match int_of a with
    | inl e => inl e
    | inr av =>
        match int_of b with
        | inl e => inl e
        | inr bv =>
            if bv =? 0 then inl {| d_err := true; d_code := D_DIV_ZERO; d_labels := [(tstart a, tend b)] |}
            else inr (NFrac 0 av bv)
        end
    end.

  (* numeric_value: None = not numeric *)
  Definition numeric_value (ts : list tok) : option (diag + num) :=
    let tr := trim_tokens ts in
    match tr with
    | [] => None
    | _ =>
        let simple :=
          match tr with
          | [a] => if tk_eqb (kind a) KInt then Some (NReg (dec_q (tstr a) [])) else None
          | [a; b] =>
              if tk_eqb (kind a) KDot && is_int_or_zero (kind b)
              then Some (NReg (dec_q [] (tstr b))) else None
          | [a; b; c] =>
              if tk_eqb (kind a) KInt && tk_eqb (kind b) KDot && is_int_or_zero (kind c)
              then Some (NReg (dec_q (tstr a) (tstr c))) else None
          | _ => None
          end in
        match simple with
        | Some n => Some (inr n)
        | None =>
            match filter not_ws_comment tr with
            | [i; a; s; b] =>
                if tk_eqb (kind i) KInt && tk_eqb (kind a) KInt && tk_eqb (kind s) KSlash && tk_eqb (kind b) KInt
                then Some (match int_of i with
                           | inl e => inl e
                           | inr iv => match frac_of a b with
                                       | inl e => inl e
                                       | inr (NFrac _ n d) => inr (NFrac iv n d)
                                       | inr other => inr other
                                       end
                           end)
                else None
            | [a; s; b] =>
                if tk_eqb (kind a) KInt && tk_eqb (kind s) KSlash && tk_eqb (kind b) KInt
                then Some (frac_of a b) else None
            | _ => None
            end
        end
    end.

  Definition range_value (ts : list tok) : option (diag + value) :=
    if negb (has X_RANGE_VALUES) then None
    else
      match position (fun k => tk_eqb k KMinus) ts with
      | None => None
      | Some mid =>
          let st := firstn mid ts in
          let en := skipn (S mid) ts in
          match numeric_value st with
          | None => None
          | Some (inl e) => Some (inl e)
          | Some (inr a) =>
              match numeric_value en with
              | None => None
              | Some (inl e) => Some (inl e)
              | Some (inr b) => Some (inr (VRange a b))
              end
          end
      end.

  Definition value_recover : value := VNum (NReg 1).

  Definition range_or_numeric (ts : list tok) : option (diag + value) :=
    match range_value ts with
    | Some r => Some r
    | None => match numeric_value ts with
              | Some (inl e) => Some (inl e)
              | Some (inr n) => Some (inr (VNum n))
              | None => None
              end
    end.

  (* ---------------------------------------------------------------- quantity *)

  Definition scaling_lock : M (option span) :=
    ws_comments ;;;
    k <- peek ;;
    match k with
    | KEq => t <- bump_any ;; ret (Some (tok_span t))
    | _ => ret None
    end.

  Definition text_value (ts : list tok) (offset : N) : M value :=
    t <- textM offset ts ;;
    (if is_text_empty t then error D_EMPTY_VALUE [text_span t] else ret tt) ;;;
    ret (VText (text_trimmed t)).

  Definition parse_value (ts : list tok) : M (value * span) :=
    co <- current_offset ;;
    let start := match ts with t :: _ => tstart t | [] => co end in
    let sp := (start, co) in
    match range_or_numeric ts with
    | Some (inr v) => ret (v, sp)
    | Some (inl e) => event (EvDiag e) ;;; ret (value_recover, sp)
    | None => v <- text_value ts start ;; ret (v, sp)
    end.

  Definition value_p : M qvalue :=
    lock <- scaling_lock ;;
    vts <- consume_while (fun k => negb (tk_eqb k KPercent)) ;;
    '(v, sp) <- parse_value vts ;;
    ret {| qv := v; qv_span := sp; qlock := lock |}.

  (* parse_regular_quantity.  The `_` fallback arm of the match on peek() is
     unreachable (value() stops only at `%` or at the end) and is not modelled. *)
  Definition parse_regular_quantity : M (quantity * option span) :=
    v <- value_p ;;
    k <- peek ;;
    unit <- (match k with
             | KPercent =>
                 sep <- bump_any ;;
                 uts <- consume_rest ;;
                 ut <- textM (tend sep) uts ;;
                 ret (Some (tok_span sep, ut))
             | _ => ret None
             end) ;;
    all <- all_tokens ;;
    match unit with
    | Some (sep, ut) =>
        if is_text_empty ut then
          warn D_EMPTY_UNIT [sep] ;;;
          ret ({| q_val := v; q_unit := None; q_span := tokens_span all |}, Some sep)
        else ret ({| q_val := v; q_unit := Some ut; q_span := tokens_span all |}, Some sep)
    | None => ret ({| q_val := v; q_unit := None; q_span := tokens_span all |}, None)
    end.

  Fixpoint drop_ws_block (ts : list tok) : list tok :=
    match ts with
    | t :: r => if is_ws_block (kind t) then drop_ws_block r else ts
    | [] => []
    end.

  Definition parse_advanced_quantity : M (option (quantity * option span)) :=
    all <- all_tokens ;;
    if existsb (fun t => tk_eqb (kind t) KPercent) all then ret None
    else
      lock <- scaling_lock ;;
      ws_comments ;;;
      vts <- consume_while (fun k => negb (tk_eqb k KWord)) ;;
      match rev vts with
      | [] => ret None
      | l :: _ =>
          if negb (tk_eqb (kind l) KWs) then ret None
          else
            let vts' := rev (drop_ws_block (rev vts)) in
            match vts' with
            | [] => panic site_adv_rposition
            | _ =>
                uts <- consume_rest ;;
                match uts with
                | [] => ret None
                | u0 :: _ =>
                    let vspan := tokens_span vts' in
                    match range_or_numeric vts' with
                    | None => ret None
                    | Some r =>
                        v <- (match r with
                              | inr v => ret v
                              | inl e => event (EvDiag e) ;;; ret value_recover
                              end) ;;
                        ut <- textM (tstart u0) uts ;;
                        ret (Some ({| q_val := {| qv := v; qv_span := vspan; qlock := lock |};
                                      q_unit := Some ut; q_span := tokens_span all |}, None))
                    end
                end
            end
      end.

  (* run a computation on an isolated sub-block sharing the event queue *)
  Definition sub_block {A} (ts : list tok) (m : M A) : M A :=
    fun s =>
      match ts with
      | [] => Panic site_bp_new
      | _ =>
          match m {| b_all := ts; b_done := []; b_rest := ts; b_evs := b_evs s |} with
          | Done (a, s2) =>
              Done (a, {| b_all := b_all s; b_done := b_done s; b_rest := b_rest s; b_evs := b_evs s2 |})
          | Panic p => Panic p
          end
      end.

  Definition parse_quantity (ts : list tok) : M (quantity * option span) :=
    match ts with
    | [] => panic site_qty_empty
    | _ =>
        sub_block ts
          (if has X_ADVANCED_UNITS then
             o <- with_recover parse_advanced_quantity ;;
             match o with
             | Some r => ret r
             | None => parse_regular_quantity
             end
           else parse_regular_quantity)
    end.

  (* ---------------------------------------------------------------- components *)

  Definition is_marker_or_open (k : tkind) : bool :=
    match k with KOpenBrace | KAt | KHash | KTilde => true | _ => false end.
  Definition is_marker (k : tkind) : bool :=
    match k with KAt | KHash | KTilde => true | _ => false end.
  Definition is_single_word_tok (k : tkind) : bool :=
    match k with KWord | KInt | KZeroInt => true | _ => false end.

  Record body := { bd_name : list tok; bd_close : option span; bd_qty : option (list tok) }.

  Definition comp_body : M (option body) :=
    o <- with_recover (
      name <-? until is_marker_or_open ;;
      ob <-? consume KOpenBrace ;;
      qty <-? until (fun k => tk_eqb k KCloseBrace) ;;
      cb <- bump KCloseBrace ;;
      let not_empty := existsb (fun t => negb (is_ws_block (kind t))) qty in
      ret (Some {| bd_name := name; bd_close := Some (tstart ob, tend cb);
                   bd_qty := if not_empty then Some qty else None |})) ;;
    match o with
    | Some b => ret (Some b)
    | None =>
        with_recover (
          ts <- consume_while is_single_word_tok ;;
          match ts with
          | [] =>
              r <- rest ;;
              isws <- at_kind KWs ;;
              (match r with
               | [] => ret tt
               | _ => if isws then ret tt
                      else (co <- current_offset ;; warn D_SINGLE_WORD [(co, co)])
               end) ;;;
              ret None
          | _ => ret (Some {| bd_name := ts; bd_close := None; bd_qty := None |})
          end)
    end.

  (* modifiers(): returns the consumed tokens *)
  Fixpoint modifiers_loop (fuel : nat) (acc : list tok) : M (list tok) :=
    match fuel with
    | O => panic site_fuel
    | S f =>
        k <- peek ;;
        match k with
        | KAt | KQuestion | KPlus | KMinus =>
            t <- bump_any ;; modifiers_loop f (acc ++ [t])
        | KAnd =>
            t <- bump_any ;;
            if has X_INTERMEDIATE_PREPARATIONS then
              o <- with_recover (
                     op <-? consume KOpenParen ;;
                     inner <-? until (fun k => tk_eqb k KCloseParen) ;;
                     cp <- bump KCloseParen ;;
                     ret (Some (op :: inner ++ [cp]))) ;;
              match o with
              | Some ts => modifiers_loop f (acc ++ t :: ts)
              | None => modifiers_loop f (acc ++ [t])
              end
            else modifiers_loop f (acc ++ [t])
        | _ => ret acc
        end
    end.

  Definition modifiers : M (list tok) :=
    if negb (has X_COMPONENT_MODIFIERS) then ret []
    else r <- rest ;; modifiers_loop (S (length r)) [].

  Definition note : M (option text) :=
    with_recover (
      _op <-? consume KOpenParen ;;
      off <- current_offset ;;
      nts <-? until (fun k => tk_eqb k KCloseParen) ;;
      _cp <- bump KCloseParen ;;
      t <- textM off nts ;;
      ret (Some t)).

  (* parse_intermediate_ref_data on the tokens after `&`; returns the data and the
     tokens left for the modifiers loop *)
  Definition parse_inter (ts : list tok) : M (option interdata * list tok) :=
    match ts with
    | t0 :: _ =>
        if negb (tk_eqb (kind t0) KOpenParen) then ret (None, ts)
        else
          match position (fun k => tk_eqb k KCloseParen) ts with
          | None => panic site_inter_paren
          | Some endp =>
              let slice := firstn (S endp) ts in
              let after := skipn (S endp) ts in
              let inner := firstn (endp - 1) (tl slice) in
              let filtered := filter (fun t => negb (is_ws_block (kind t))) inner in
              let kinds := map kind filtered in
              let good (i : tok) (rel sec : bool) : M (option interdata * list tok) :=
                let v := digits_val (tstr i) in
                if v <=? i16_max then
                  ret (Some {| im_relative := rel; im_section := sec; im_val := v;
                               im_span := tokens_span slice |}, after)
                else error D_INTER_INT [tok_span i] ;;; ret (None, after) in
              match filtered with
              | [] => error D_INTER_EMPTY [tokens_span slice] ;;; ret (None, after)
              | [i] =>
                  if tk_eqb (kind i) KInt then good i false false
                  else error D_INTER_INVALID [tokens_span inner] ;;; ret (None, after)
              | [a; i] =>
                  if tk_eqb (kind a) KTilde && tk_eqb (kind i) KInt then good i true false
                  else if tk_eqb (kind a) KEq && tk_eqb (kind i) KInt then good i false true
                  else if (tk_eqb (kind a) KMinus || tk_eqb (kind a) KPlus) && tk_eqb (kind i) KInt
                  then error D_INTER_SIGN [tok_span a] ;;; ret (None, after)
                  else error D_INTER_INVALID [tokens_span inner] ;;; ret (None, after)
              | [a; b; i] =>
                  if tk_eqb (kind a) KEq && tk_eqb (kind b) KTilde && tk_eqb (kind i) KInt then good i true true
                  else if tk_eqb (kind a) KTilde && tk_eqb (kind b) KEq && tk_eqb (kind i) KInt
                  then error D_INTER_ORDER [tok_span a; tok_span b] ;;; ret (None, after)
                  else if (tk_eqb (kind b) KMinus || tk_eqb (kind b) KPlus) && tk_eqb (kind i) KInt
                  then error D_INTER_SIGN [tok_span b] ;;; ret (None, after)
                  else error D_INTER_INVALID [tokens_span inner] ;;; ret (None, after)
              | _ =>
                  let r := rev filtered in
                  match r with
                  | i :: s :: _ =>
                      if (tk_eqb (kind s) KMinus || tk_eqb (kind s) KPlus) && tk_eqb (kind i) KInt
                      then error D_INTER_SIGN [tok_span s] ;;; ret (None, after)
                      else error D_INTER_INVALID [tokens_span inner] ;;; ret (None, after)
                  | _ => error D_INTER_INVALID [tokens_span inner] ;;; ret (None, after)
                  end
              end
          end
    | [] => ret (None, ts)
    end.

  Definition mod_bit (k : tkind) : option N :=
    match k with
    | KAt => Some M_RECIPE | KAnd => Some M_REF | KQuestion => Some M_OPT
    | KPlus => Some M_NEW | KMinus => Some M_HIDDEN | _ => None
    end.

  Fixpoint parse_mods_loop (fuel : nat) (ts : list tok) (mspan : span) (mods : N)
           (inter : option interdata) : M (N * option interdata) :=
    match fuel with
    | O => panic site_fuel
    | S f =>
        match ts with
        | [] => ret (mods, inter)
        | t :: r =>
            match mod_bit (kind t) with
            | None => panic site_mod_token
            | Some bit =>
                '(inter', r') <- (if tk_eqb (kind t) KAnd && has X_INTERMEDIATE_PREPARATIONS
                                  then parse_inter r else ret (inter, r)) ;;
                if N.land mods bit =? bit then
                  error D_DUP_MOD [mspan] ;;; parse_mods_loop f r' mspan mods inter'
                else parse_mods_loop f r' mspan (N.lor mods bit) inter'
            end
        end
    end.

  Definition parse_modifiers (mts : list tok) (mpos : N) : M (N * span * option interdata) :=
    match mts with
    | [] => ret (0, (mpos, mpos), None)
    | _ =>
        let msp := tokens_span mts in
        '(m, i) <- parse_mods_loop (S (length mts)) mts msp 0 None ;;
        ret (m, msp, i)
    end.

  Definition parse_alias (ts : list tok) (name_offset : N) : M (text * option text) :=
    match (if has X_COMPONENT_ALIAS then position (fun k => tk_eqb k KOr) ts else None) with
    | Some sepi =>
        let name_ts := firstn sepi ts in
        match skipn sepi ts with
        | sep :: alias_ts =>
            at_ <- textM (tend sep) alias_ts ;;
            alias <- (if existsb (fun t => tk_eqb (kind t) KOr) alias_ts then
                        error D_MULTI_ALIAS [(tstart sep, tend (last alias_ts sep))] ;;; ret None
                      else if is_text_empty at_ then
                        error D_EMPTY_ALIAS [tok_span sep] ;;; ret None
                      else ret (Some at_)) ;;
            nt <- textM name_offset name_ts ;;
            ret (nt, alias)
        | [] => nt <- textM name_offset ts ;; ret (nt, None)
        end
    | None => nt <- textM name_offset ts ;; ret (nt, None)
    end.

  Definition check_empty_name (name : text) : M unit :=
    if is_text_empty name then error D_EMPTY_NAME [text_span name] else ret tt.

  Definition ingredient_p : M (option pevent) :=
    start <- current_offset ;;
    _at <-? consume KAt ;;
    mpos <- current_offset ;;
    mts <- modifiers ;;
    name_offset <- current_offset ;;
    bd <-? comp_body ;;
    nt <- note ;;
    en <- current_offset ;;
    '(name, alias) <- parse_alias (bd_name bd) name_offset ;;
    check_empty_name name ;;;
    '(m, msp, inter) <- parse_modifiers mts mpos ;;
    q <- (match bd_qty bd with
          | Some qts => '(q, _) <- parse_quantity qts ;; ret (Some q)
          | None => ret None
          end) ;;
    ret (Some (EvIngredient {| i_mods := m; i_mods_span := msp; i_inter := inter; i_name := name;
                               i_alias := alias; i_qty := q; i_note := nt; i_span := (start, en) |})).

  Definition cookware_p : M (option pevent) :=
    start <- current_offset ;;
    _h <-? consume KHash ;;
    mpos <- current_offset ;;
    mts <- modifiers ;;
    name_offset <- current_offset ;;
    bd <-? comp_body ;;
    nt <- note ;;
    en <- current_offset ;;
    '(name, alias) <- parse_alias (bd_name bd) name_offset ;;
    check_empty_name name ;;;
    q <- (match bd_qty bd with
          | Some qts =>
              '(q, usep) <- parse_quantity qts ;;
              (match q_unit q with
               | Some u =>
                   let sp := match usep with
                             | Some sep => (fst sep, snd (text_span u))
                             | None => text_span u
                             end in
                   error D_COOKWARE_UNIT [sp]
               | None => ret tt
               end) ;;;
              ret (Some (q_val q, q_span q))
          | None => ret None
          end) ;;
    '(m, msp, inter) <- parse_modifiers mts mpos ;;
    (match inter with
     | Some d => error D_INTER_NOT_ALLOWED [im_span d]
     | None => ret tt
     end) ;;;
    (if N.land m M_RECIPE =? M_RECIPE then
       match find (fun t => tk_eqb (kind t) KAt) mts with
       | Some t => error D_COOKWARE_RECIPE [tok_span t]
       | None => panic site_recipe_tok
       end
     else ret tt) ;;;
    ret (Some (EvCookware {| c_mods := m; c_mods_span := msp; c_name := name; c_alias := alias;
                             c_qty := q; c_note := nt; c_span := (start, en) |})).

  Definition quantity_recover : quantity :=
    {| q_val := {| qv := value_recover; qv_span := (0, 0); qlock := None |};
       q_unit := None; q_span := (0, 0) |}.

  Definition check_note : M unit :=
    _r <- with_recover (
            op <-? consume KOpenParen ;;
            _i <-? until (fun k => tk_eqb k KCloseParen) ;;
            cp <- bump KCloseParen ;;
            let st := tstart op in
            (if st =? 0 then panic site_label_underflow else ret tt) ;;;
            let lp := if p_note_label_old cfg then st - 1 else st in
            warn D_NOTE_WARN [(st, tend cp); (lp, lp)] ;;;
            ret (@None unit)) ;;
    ret tt.

  Definition timer_p : M (option pevent) :=
    start <- current_offset ;;
    _t <-? consume KTilde ;;
    mts <- modifiers ;;
    name_offset <- current_offset ;;
    bd <-? comp_body ;;
    en <- current_offset ;;
    (match mts with
     | [] => ret tt
     | _ => error D_MODS_NOT_ALLOWED [tokens_span mts]
     end) ;;;
    (if has X_COMPONENT_ALIAS then
       match position (fun k => tk_eqb k KOr) (bd_name bd) with
       | Some sepi =>
           match skipn sepi (bd_name bd) with
           | sep :: _ => error D_ALIAS_NOT_ALLOWED [(tstart sep, tend (last (bd_name bd) sep))]
           | [] => ret tt
           end
       | None => ret tt
       end
     else ret tt) ;;;
    check_note ;;;
    name <- textM name_offset (bd_name bd) ;;
    q <- (match bd_qty bd with
          | Some qts =>
              '(q, _) <- parse_quantity qts ;;
              (match q_unit q with
               | None => let e := snd (qv_span (q_val q)) in error D_TIMER_NO_UNIT [(e, e)]
               | Some _ => ret tt
               end) ;;;
              ret (Some q)
          | None => ret None
          end) ;;
    q <- (match q with
          | None =>
              if has X_TIMER_REQUIRES_TIME then
                let sp := match bd_close bd with
                          | Some s => s
                          | None => let e := snd (text_span name) in (e, e)
                          end in
                error D_TIMER_NO_QTY [sp] ;;; ret (Some quantity_recover)
              else ret None
          | Some _ => ret q
          end) ;;
    let name_o := if is_text_empty name then None else Some name in
    q <- (match name_o, q with
          | None, None =>
              let sp := match bd_close bd with
                        | Some s => (name_offset, snd s)
                        | None => (name_offset, name_offset)
                        end in
              error D_TIMER_NEITHER [sp] ;;; ret (Some quantity_recover)
          | _, _ => ret q
          end) ;;
    ret (Some (EvTimer {| t_name := name_o; t_qty := q; t_span := (start, en) |})).

  (* ---------------------------------------------------------------- blocks *)

  Fixpoint step_loop (fuel : nat) : M unit :=
    match fuel with
    | O => panic site_fuel
    | S f =>
        r <- rest ;;
        match r with
        | [] => ret tt
        | _ =>
            k <- peek ;;
            comp <- (match k with
                     | KAt => with_recover ingredient_p
                     | KHash => with_recover cookware_p
                     | KTilde => with_recover timer_p
                     | _ => ret None
                     end) ;;
            match comp with
            | Some ev => event ev ;;; step_loop f
            | None =>
                start <- current_offset ;;
                t0 <- bump_any ;;
                more <- consume_while (fun k => negb (is_marker k)) ;;
                t <- textM start (t0 :: more) ;;
                (match frags t with
                 | [] => ret tt
                 | _ => event (EvText t)
                 end) ;;;
                step_loop f
            end
        end
    end.

  Definition parse_step : M unit :=
    event (EvStart true) ;;;
    r <- rest ;;
    step_loop (S (length r)) ;;;
    event (EvEnd true).

  Fixpoint text_block_loop (fuel : nat) : M unit :=
    match fuel with
    | O => panic site_fuel
    | S f =>
        r <- rest ;;
        match r with
        | [] => ret tt
        | _ =>
            g <- consume KTextStep ;;
            (match g with Some _ => _w <- consume KWs ;; ret tt | None => ret tt end) ;;;
            start <- current_offset ;;
            line <- consume_while (fun k => negb (tk_eqb k KNewline)) ;;
            nl <- consume KNewline ;;
            let ts := match nl with Some n => line ++ [n] | None => line end in
            t <- textM start ts ;;
            (if is_text_empty t then ret tt else event (EvText t)) ;;;
            (* progress guard of the model: a round that consumed nothing would loop forever *)
            r' <- rest ;;
            if (length r' <? length r)%nat then text_block_loop f else panic site_fuel
        end
    end.

  Definition parse_text_block : M unit :=
    event (EvStart false) ;;;
    r <- rest ;;
    text_block_loop (S (length r)) ;;;
    event (EvEnd false).

  Definition metadata_entry : M (option pevent) :=
    _m <-? consume KMeta ;;
    key_pos <- current_offset ;;
    ko <- until (fun k => tk_eqb k KColon) ;;
    match ko with
    | None => all <- all_tokens ;; warn D_META_INVALID [tokens_span all] ;;; ret None
    | Some kts =>
        key <- textM key_pos kts ;;
        _c <- bump KColon ;;
        value_pos <- current_offset ;;
        vts <- consume_rest ;;
        v <- textM value_pos vts ;;
        (if is_text_empty key then error D_EMPTY_META_KEY [text_span key]
         else if is_text_empty v then warn D_EMPTY_META_VALUE [text_span v; text_span key]
         else ret tt) ;;;
        ret (Some (EvMetadata key v))
    end.

  Definition section_p : M (option pevent) :=
    _e <-? consume KEq ;;
    _e2 <- consume_while (fun k => tk_eqb k KEq) ;;
    name_pos <- current_offset ;;
    nts <- consume_while (fun k => negb (tk_eqb k KEq)) ;;
    name <- textM name_pos nts ;;
    _e3 <- consume_while (fun k => tk_eqb k KEq) ;;
    ws_comments ;;;
    r <- rest ;;
    match r with
    | [] => ret (Some (EvSection (if is_text_empty name then None else Some name)))
    | _ => warn D_SECTION_INVALID [tokens_span r] ;;; ret None
    end.

  Definition is_empty_tok (k : tkind) : bool :=
    match k with KWs | KBlockComment | KLineComment | KNewline => true | _ => false end.

  Definition parse_multiline_block : M unit :=
    all <- all_tokens ;;
    if forallb (fun t => is_empty_tok (kind t)) all then (_r <- consume_rest ;; ret tt)
    else
      k <- peek ;;
      match k with
      | KTextStep => parse_text_block
      | _ => parse_step
      end.

  Definition is_config_key (key : text) : bool :=
    let k := text_outer_trimmed key in
    match k with
    | c :: _ => (c =? 91) && (last k 0 =? 93)
    | [] => false
    end.

  (* the filter of parse_block on a parsed metadata entry (mod.rs 361-371) *)
  Definition meta_kept (old_style : bool) (key : text) : bool :=
    (is_config_key key && has X_MODES) || old_style.

  Definition parse_block (old_style : bool) : M unit :=
    k <- peek ;;
    mos <- (match k with
            | KMeta =>
                with_recover (
                  ev <-? metadata_entry ;;
                  match ev with
                  | EvMetadata key _ =>
                      if meta_kept old_style key then ret (Some ev) else ret None
                  | _ => ret (Some ev)
                  end)
            | KEq => with_recover section_p
            | _ => ret None
            end) ;;
    match mos with
    | Some ev => event ev
    | None => parse_multiline_block
    end.

  (* run a block parser over [ts] with the event queue [evs] (reversed); finish() included *)
  Definition run_block (ts : list tok) (evs : list pevent) (m : M unit) : outcome (list pevent) :=
    match ts with
    | [] => Panic site_bp_new
    | _ =>
        match m {| b_all := ts; b_done := []; b_rest := ts; b_evs := evs |} with
        | Done (_, s) => match b_rest s with [] => Done (b_evs s) | _ => Panic site_bp_finish end
        | Panic p => Panic p
        end
    end.

  (* ---------------------------------------------------------------- block splitting *)

  (* pull_line: the tokens up to and including the first newline *)
  Fixpoint pull_line (ts : list tok) : list tok * list tok :=
    match ts with
    | [] => ([], [])
    | t :: r =>
        if tk_eqb (kind t) KNewline then ([t], r)
        else let '(a, b) := pull_line r in (t :: a, b)
    end.

  Definition line_is_empty (l : list tok) : bool := forallb (fun t => is_empty_tok (kind t)) l.
  Definition is_single_line_marker (ts : list tok) : bool :=
    match ts with t :: _ => match kind t with KMeta | KEq => true | _ => false end | [] => false end.

  (* the continuation lines of a multi-line block *)
  Fixpoint more_lines (fuel : nat) (ts : list tok) : list tok * list tok :=
    match fuel with
    | O => ([], ts)
    | S f =>
        if is_single_line_marker ts then ([], ts)
        else
          match ts with
          | [] => ([], [])
          | _ =>
              let '(l, r) := pull_line ts in
              if line_is_empty l then ([], r)     (* the empty line is consumed and dropped *)
              else let '(m, r') := more_lines f r in (l ++ m, r')
          end
    end.

  Fixpoint strip_trailing_newlines (rl : list tok) : list tok :=   (* on the reversed block *)
    match rl with
    | t :: r => if tk_eqb (kind t) KNewline then strip_trailing_newlines r else rl
    | [] => []
    end.

  (* next_block: Some (trimmed block, remaining tokens) *)
  Fixpoint next_block (fuel : nat) (ts : list tok) : option (list tok * list tok) :=
    match fuel with
    | O => None
    | S f =>
        match ts with
        | [] => None
        | _ =>
            let '(l, r) := pull_line ts in
            if line_is_empty l then next_block f r
            else
              let single := is_single_line_marker l in
              let '(m, r') := if single then ([], r) else more_lines (S (length r)) r in
              let blk := rev (strip_trailing_newlines (rev (l ++ m))) in
              match blk with
              | [] => None
              | _ => Some (blk, r')
              end
        end
    end.

  Fixpoint blocks_loop (fuel : nat) (ts : list tok) (old_style : bool) (evs : list pevent)
    : outcome (list pevent) :=
    match fuel with
    | O => Panic site_fuel
    | S f =>
        match next_block (S (length ts)) ts with
        | None => Done evs
        | Some (blk, r) =>
            obind (run_block blk evs (parse_block old_style)) (fun evs' =>
            blocks_loop f r old_style evs')
        end
    end.

  (* next_metadata_block, iterated: only lines whose first token is `>>` *)
  Fixpoint skip_to_meta (ts : list tok) (last_nl : bool) : list tok :=
    match ts with
    | [] => []
    | t :: r =>
        if last_nl && tk_eqb (kind t) KMeta then ts
        else skip_to_meta r (tk_eqb (kind t) KNewline)
    end.

  Fixpoint meta_take_line (ts : list tok) : list tok * list tok :=
    match ts with
    | [] => ([], [])
    | t :: r =>
        if tk_eqb (kind t) KNewline then ([], r)
        else let '(a, b) := meta_take_line r in (t :: a, b)
    end.

  Fixpoint meta_loop (fuel : nat) (ts : list tok) (evs : list pevent) : outcome (list pevent) :=
    match fuel with
    | O => Panic site_fuel
    | S f =>
        match skip_to_meta ts true with
        | [] => Done evs
        | ts' =>
            let '(blk, r) := meta_take_line ts' in
            match blk with
            | [] => Panic site_bp_new
            | _ =>
                match (o <- metadata_entry ;;
                       match o with
                       | Some ev => event ev ;;; ret true
                       | None => ret false
                       end) {| b_all := blk; b_done := []; b_rest := blk; b_evs := evs |} with
                | Panic p => Panic p
                | Done (true, s) =>
                    match b_rest s with
                    | [] => meta_loop f r (b_evs s)
                    | _ => Panic site_bp_finish
                    end
                | Done (false, s) => meta_loop f r (b_evs s)
                end
            end
        end
    end.
End WithCfg.

(* ---------------------------------------------------------------- front matter *)

(* split_inclusive('\n') *)
Fixpoint lines_inclusive (s : str) : list str :=
  match s with
  | [] => []
  | c :: r =>
      if c =? 10 then [c] :: lines_inclusive r
      else match lines_inclusive r with
           | l :: ls =>
               (* r non-empty: the current char joins the first line of r *)
               (c :: l) :: ls
           | [] => [[c]]
           end
  end.

Definition is_fence (l : str) : bool := str_eqb (trim_end_ws l) [45; 45; 45].

(* fences with (start, end) byte offsets *)
Fixpoint fence_list (ls : list str) (off : N) : list (N * N) :=
  match ls with
  | [] => []
  | l :: r =>
      let e := off + blen l in
      if is_fence l then (off, e) :: fence_list r e else fence_list r e
  end.

(* characters of s from byte offset a to b (both on boundaries) *)
Fixpoint drop_bytes (s : str) (n : N) : str :=
  match s with
  | [] => []
  | c :: r => if n =? 0 then s else drop_bytes r (n - utf8_len c)
  end.
Fixpoint take_bytes (s : str) (n : N) : str :=
  match s with
  | [] => []
  | c :: r => if n =? 0 then [] else c :: take_bytes r (n - utf8_len c)
  end.

Record fm_split := { yaml_text : str; yaml_off : N; cook_text : str; cook_off : N }.

Definition parse_frontmatter (cfg : pcfg) (s : str) : option fm_split :=
  match fence_list (lines_inclusive s) 0 with
  | (f0s, ys) :: (ye, cs) :: _ =>
      if p_fm_anywhere cfg || str_blank (take_bytes s f0s) then
        Some {| yaml_text := take_bytes (drop_bytes s ys) (ye - ys); yaml_off := ys;
                cook_text := drop_bytes s cs; cook_off := cs |}
      else None
  | _ => None
  end.

(* ---------------------------------------------------------------- whole documents *)

Section Doc.
  Variable U : N -> ucls.
  Variable cfg : pcfg.

  (* PullParser::new + Iterator::next until exhaustion; events in order *)
  Definition events (s : str) : outcome (list pevent) :=
    match parse_frontmatter cfg s with
    | Some fm =>
        match lex_at U (cook_text fm) (cook_off fm) with
        | None => Panic site_fuel
        | Some ts =>
            obind (blocks_loop cfg (S (length ts)) ts false
                     [EvYaml (text_from_str (yaml_text fm) (yaml_off fm))])
                  (fun evs => Done (rev evs))
        end
    | None =>
        match lex_at U s 0 with
        | None => Panic site_fuel
        | Some ts =>
            obind (blocks_loop cfg (S (length ts)) ts true []) (fun evs => Done (rev evs))
        end
    end.

  (* PullParser::new(..).into_meta_iter() *)
  Definition meta_events (s : str) : outcome (list pevent) :=
    match parse_frontmatter cfg s with
    | Some fm => Done [EvYaml (text_from_str (yaml_text fm) (yaml_off fm))]
    | None =>
        match lex_at U s 0 with
        | None => Panic site_fuel
        | Some ts => obind (meta_loop cfg (S (length ts)) ts []) (fun evs => Done (rev evs))
        end
    end.
End Doc.
