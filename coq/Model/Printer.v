(* Printing side of C01: token-level spellings of Cooklang constructs and what they are
   intended to denote.  Nothing here is a model of Rust code: these are the definitions the
   round-trip theorems (Proofs/RoundTrip.v, Properties/C01.v) are stated with.

   A spelling is a list of printed tokens [ptok] = (kind, characters); the text is their
   concatenation [unlex].  Every optional position of the syntax is a field of a tape record
   holding the blank tokens (white space, block or line comments) put there.  [place off p] are
   the tokens the lexer produces for [unlex p] when [adjacent_ok p] (theorem C01_lexer_roundtrip),
   so statements about [place off (print ...)] are statements about [lex (print ...)]. *)
From CL Require Export Model.Lexer Model.PText Model.Parser.

Definition ptok := (tkind * str)%type.
Definition unlex (toks : list ptok) : str := concat (map snd toks).
Definition is_nil {A} (l : list A) : bool := match l with [] => true | _ => false end.

(* the tokens with their spans, starting at byte offset [off] *)
Fixpoint place (off : N) (p : list ptok) : list tok :=
  match p with
  | [] => []
  | t :: r => {| kind := fst t; tstr := snd t; tstart := off |} :: place (off + blen (snd t)) r
  end.

(* after "[-": the body contains "-]" exactly once, at its end *)
Fixpoint bc_closed (s : str) : bool :=
  match s with
  | [] => false
  | c :: r => if (c =? 45) && next_is 93 r then is_nil (tl r) else bc_closed r
  end.

Section Adjacency.
  Variable U : N -> ucls.

  (* the characters form exactly one token of that kind *)
  Definition tok_ok (t : ptok) : bool :=
    match snd t with
    | [] => false
    | c :: t' => let '(k, _, rest) := lex_one U c t' in tk_eqb k (fst t) && is_nil rest
    end.

  (* [follow_ok s next]: the token with characters [s] is not changed by a following character
     [next].  Read off Model/Lexer.v lex_one, arm by arm:
       a lone backslash takes the next character;   `>` `>` is `>>`;   `-` `-` starts a comment;
       a line comment runs to the next newline;   an unterminated block comment runs on;
       `[` `-` starts a block comment;   CR LF is one newline;   digits, blanks and word
       characters extend an Int / ZeroInt, a Ws, a Word.  Nothing else interacts. *)
  Definition follow_ok (s : str) (next : option N) : bool :=
    match s, next with
    | [], _ => true
    | _, None => true
    | c :: t', Some x =>
        if c =? 92 then negb (is_nil t')
        else if c =? 62 then negb (is_nil t') || negb (x =? 62)
        else if c =? 45 then (if is_nil t' then negb (x =? 45) else x =? 10)
        else if (c =? 91) && next_is 45 t' then bc_closed (tl t')
        else if (c =? 91) && is_nil t' && (x =? 45) then false
        else if c =? 10 then true
        else if (c =? 13) && next_is 10 t' then true
        else if (c =? 13) && is_nil t' && (x =? 10) then false
        else if is_digit c then negb (is_digit x)
        else match single_kind c with
             | Some _ => true
             | None =>
                 if is_lex_ws U c then negb (is_lex_ws U x)
                 else if u_punct (U c) then true
                 else negb (is_word_char U x)
             end
    end.

  (* decidable side condition of the lexer round trip *)
  Fixpoint adjacent_ok (toks : list ptok) : bool :=
    match toks with
    | [] => true
    | t :: r => tok_ok t && follow_ok (snd t) (hd_error (unlex r)) && adjacent_ok r
    end.
End Adjacency.

(* ---------------------------------------------------------------- text *)

(* the characters a run of tokens contributes to a Text (block_parser.rs text()): comments are
   skipped, a newline is one blank, an escape loses its backslash *)
Definition tok_text (t : ptok) : str :=
  match fst t with
  | KNewline => [32]
  | KLineComment | KBlockComment => []
  | KEscaped => tl (snd t)
  | _ => snd t
  end.
Definition toks_text (p : list ptok) : str := concat (map tok_text p).

(* what the names, units, notes and text values of the recipe are: Text::text_trimmed *)
Definition clean (s : str) : str := collapse_spaces 32 (trim s).

(* shape conditions every lexer token satisfies (consequences of tok_ok, kept separate so the
   token-level theorems do not depend on a classification) *)
Definition shape_ok (t : ptok) : bool :=
  negb (is_nil (snd t)) &&
  match fst t with
  | KEscaped => next_is 92 (snd t)
  | KNewline => str_blank (snd t)
  | _ => true
  end.

Definition blank_p (t : ptok) : bool := is_ws_comment (fst t).
(* a blank token: white space or a comment; its white space is white space for str::trim too *)
Definition blank_ok (t : ptok) : bool :=
  blank_p t && shape_ok t && match fst t with KWs => str_blank (snd t) | _ => true end.

(* ---------------------------------------------------------------- numbers *)

Inductive nspec :=
| SInt (ds : str)            (* 12 *)
| SDec (ip fp : str)         (* 1.5, and .5 when ip = [] *)
| SFrac (a b : str)          (* 1/2 *)
| SMixed (w a b : str).      (* 1 1/2 *)

(* spelling choices inside a number: blanks between whole part and fraction, around the slash *)
Record ntape := { n_gap : list ptok; n_bs : list ptok; n_as : list ptok }.

Definition dot_p : ptok := (KDot, [46]).
Definition slash_p : ptok := (KSlash, [47]).
Definition minus_p : ptok := (KMinus, [45]).
Definition eq_p : ptok := (KEq, [61]).
Definition pct_p : ptok := (KPercent, [37]).

(* the kind the lexer gives a digit string *)
Definition digits_kind (ds : str) : tkind :=
  match ds with
  | c :: _ :: _ => if c =? 48 then KZeroInt else KInt
  | _ => KInt
  end.

Definition print_num (n : nspec) (tp : ntape) : list ptok :=
  match n with
  | SInt ds => [(KInt, ds)]
  | SDec [] fp => [dot_p; (digits_kind fp, fp)]
  | SDec ip fp => [(KInt, ip); dot_p; (digits_kind fp, fp)]
  | SFrac a b => (KInt, a) :: n_bs tp ++ slash_p :: n_as tp ++ [(KInt, b)]
  | SMixed w a b => (KInt, w) :: n_gap tp ++ (KInt, a) :: n_bs tp ++ slash_p :: n_as tp ++ [(KInt, b)]
  end.

Definition denote_num (n : nspec) : num :=
  match n with
  | SInt ds => NReg (dec_q ds [])
  | SDec ip fp => NReg (dec_q ip fp)
  | SFrac a b => NFrac 0 (digits_val a) (digits_val b)
  | SMixed w a b => NFrac (digits_val w) (digits_val a) (digits_val b)
  end.

Definition fits_u32 (ds : str) : bool := digits_val ds <=? u32_max.

Definition num_wf (n : nspec) (tp : ntape) : bool :=
  forallb blank_ok (n_gap tp) && forallb blank_ok (n_bs tp) && forallb blank_ok (n_as tp) &&
  match n with
  | SInt _ | SDec _ _ => true
  | SFrac a b => fits_u32 a && fits_u32 b && negb (digits_val b =? 0)
  | SMixed w a b => fits_u32 w && fits_u32 a && fits_u32 b && negb (digits_val b =? 0)
  end.

(* the decimal digits of a natural number (fuel: the binary size bounds the decimal size) *)
Fixpoint digits_fuel (fuel : nat) (n : N) (acc : str) : str :=
  match fuel with
  | O => acc
  | S f => let acc' := (48 + n mod 10) :: acc in
           if n <? 10 then acc' else digits_fuel f (n / 10) acc'
  end.
Definition digits_of (n : N) : str := digits_fuel (S (N.to_nat (N.log2 n))) n [].

(* ---------------------------------------------------------------- quantities *)

Inductive vspec :=
| QNum (n : nspec)
| QRange (a b : nspec)
| QText (toks : list ptok).     (* a text value, as printed (its inner blanks are significant) *)

Record qspec := { qs_val : vspec; qs_lock : bool; qs_unit : option (list ptok) }.

(* the optional positions of `{ = v % u }` (each a list of blank tokens) *)
Record qtape := {
  q_lead : list ptok;        (* after `{` *)
  q_after_lock : list ptok;  (* after `=` *)
  q_ta : ntape; q_tb : ntape;
  q_bd : list ptok; q_ad : list ptok;   (* around the `-` of a range *)
  q_trail : list ptok;       (* after the value (before `%` or `}`) *)
  q_after_pct : list ptok;   (* after `%` *)
  q_end : list ptok;         (* after the unit *)
  q_adv : option (list ptok) (* ADVANCED_UNITS spelling `{1 g}`: these blanks instead of `%` *)
}.

Definition print_value (v : vspec) (tp : qtape) : list ptok :=
  match v with
  | QNum n => print_num n (q_ta tp)
  | QRange a b => print_num a (q_ta tp) ++ q_bd tp ++ minus_p :: q_ad tp ++ print_num b (q_tb tp)
  | QText toks => toks
  end.

Definition print_unit (q : qspec) (tp : qtape) : list ptok :=
  match qs_unit q with
  | Some u => match q_adv tp with
              | Some gap => gap ++ u ++ q_end tp
              | None => q_trail tp ++ pct_p :: q_after_pct tp ++ u ++ q_end tp
              end
  | None => q_trail tp
  end.

Definition print_qty (q : qspec) (tp : qtape) : list ptok :=
  q_lead tp ++ (if qs_lock q then eq_p :: q_after_lock tp else []) ++
  print_value (qs_val q) tp ++ print_unit q tp.

(* the intended reading: value, "scaling is locked", unit *)
Definition denote_value (v : vspec) : value :=
  match v with
  | QNum n => VNum (denote_num n)
  | QRange a b => VRange (denote_num a) (denote_num b)
  | QText toks => VText (clean (toks_text toks))
  end.

Definition denote_qty (q : qspec) : value * bool * option str :=
  (denote_value (qs_val q), qs_lock q, option_map (fun u => clean (toks_text u)) (qs_unit q)).

(* the same projection of a parsed quantity (what the analysis pass consumes) *)
Definition qproj (q : quantity) : value * bool * option str :=
  (qv (q_val q), match qlock (q_val q) with Some _ => true | None => false end,
   option_map text_trimmed (q_unit q)).

Definition kind_in (k : tkind) (p : list ptok) : bool := existsb (fun t => tk_eqb (fst t) k) p.

(* token kinds a number spelling is made of (blanks included) *)
Definition numk (k : tkind) : bool :=
  match k with
  | KInt | KZeroInt | KDot | KSlash | KWs | KLineComment | KBlockComment => true
  | _ => false
  end.
Definition numk_p (t : ptok) : bool := numk (fst t).
Fixpoint first_nonnum (p : list ptok) : option tkind :=
  match p with
  | [] => None
  | t :: r => if numk (fst t) then first_nonnum r else Some (fst t)
  end.
Definition head_kind (p : list ptok) : tkind := match p with t :: _ => fst t | [] => KEof end.

(* A text value as printed: it does not end the field (`%`), does not start with a blank or the
   lock sign, and is not a number spelling: some token is not part of any number, and with
   RANGE_VALUES the first such token is not `-` (else what precedes it could be a range start).
   [pct]: the quantity has a `%` unit.  Without one, ADVANCED_UNITS would read `2 big ones` as
   value 2, unit `big ones`: then the text starts with a word or contains none. *)
Definition text_ok (cfg : pcfg) (pct : bool) (p : list ptok) : bool :=
  forallb shape_ok p && negb (kind_in KPercent p) && negb (str_blank (toks_text p)) &&
  negb (is_ws_comment (head_kind p)) && negb (tk_eqb (head_kind p) KEq) &&
  match first_nonnum p with
  | Some k => negb (has cfg X_RANGE_VALUES) || negb (tk_eqb k KMinus)
  | None => false
  end &&
  (negb (has cfg X_ADVANCED_UNITS) || pct || tk_eqb (head_kind p) KWord || negb (kind_in KWord p)).

Definition last_kind (p : list ptok) : tkind := match rev p with t :: _ => fst t | [] => KEof end.

Definition qty_wf (cfg : pcfg) (q : qspec) (tp : qtape) : bool :=
  negb (p_strict_escape cfg) &&
  forallb blank_ok (q_lead tp) && forallb blank_ok (q_after_lock tp) && forallb blank_ok (q_bd tp) &&
  forallb blank_ok (q_ad tp) && forallb blank_ok (q_trail tp) && forallb blank_ok (q_after_pct tp) &&
  forallb blank_ok (q_end tp) &&
  match qs_val q with
  | QNum n => num_wf n (q_ta tp)
  | QRange a b => has cfg X_RANGE_VALUES && num_wf a (q_ta tp) && num_wf b (q_tb tp)
  | QText toks => text_ok cfg (match qs_unit q with Some _ => true | None => false end) toks
  end &&
  match qs_unit q with
  | Some u => forallb shape_ok u && negb (str_blank (toks_text u)) && negb (kind_in KPercent u)
  | None => true
  end &&
  (* the blank-instead-of-`%` spelling: ADVANCED_UNITS on, a number or range, blanks ending in
     white space, a unit that starts with a word *)
  match q_adv tp, qs_unit q with
  | Some gap, Some u =>
      has cfg X_ADVANCED_UNITS && match qs_val q with QText _ => false | _ => true end &&
      forallb blank_ok gap && tk_eqb (last_kind gap) KWs && tk_eqb (head_kind u) KWord
  | _, _ => true
  end.

(* ---------------------------------------------------------------- events, spans erased *)
Inductive ev_spec :=
| SYaml (s : str)
| SMeta (k v : str)
| SSection (name : option str)
| SStart (step : bool)
| SEnd (step : bool)
| SText (s : str)
| SIngredient (mods : N) (inter : option (bool * bool * N)) (name : str) (alias : option str)
              (q : option (value * bool * option str)) (note : option str)
| SCookware (mods : N) (name : str) (alias : option str) (q : option (value * bool)) (note : option str)
| STimer (name : option str) (q : option (value * bool * option str))
| SDiag (err : bool) (code : N).

Definition qvproj (v : qvalue) : value * bool :=
  (qv v, match qlock v with Some _ => true | None => false end).

Definition ev_proj (e : pevent) : ev_spec :=
  match e with
  | EvYaml t => SYaml (text_str t)
  | EvMetadata k v => SMeta (text_trimmed k) (text_outer_trimmed v)
  | EvSection n => SSection (option_map text_trimmed n)
  | EvStart b => SStart b
  | EvEnd b => SEnd b
  | EvText t => SText (text_str t)
  | EvIngredient i =>
      SIngredient (i_mods i)
        (option_map (fun d => (im_relative d, im_section d, im_val d)) (i_inter i))
        (text_trimmed (i_name i)) (option_map text_trimmed (i_alias i))
        (option_map qproj (i_qty i)) (option_map text_trimmed (i_note i))
  | EvCookware c =>
      SCookware (c_mods c) (text_trimmed (Parser.c_name c)) (option_map text_trimmed (Parser.c_alias c))
        (option_map (fun p => qvproj (fst p)) (Parser.c_qty c)) (option_map text_trimmed (Parser.c_note c))
  | EvTimer t => STimer (option_map text_trimmed (t_name t)) (option_map qproj (t_qty t))
  | EvDiag d => SDiag (d_err d) (d_code d)
  end.

(* ---------------------------------------------------------------- components *)
Inductive ckind := CIgr | CCw | CTm.
Inductive cbody :=
| BQty (q : qspec) (tp : qtape)     (* {quantity} *)
| BEmpty (inner : list ptok)        (* {} with white space inside *)
| BWord.                            (* no braces: the name is one word *)

(* modifier characters after the marker, in any order; `&` may carry the data of an
   intermediate-preparation reference: &(~1) one step back, &(2) step 2, &(=2) section 2, &(=~1) *)
Record ispec := {
  is_rel : bool; is_sec : bool; is_val : str;               (* `~`, `=`, the digits *)
  is_b1 : list ptok; is_b2 : list ptok; is_b3 : list ptok; is_b4 : list ptok   (* blanks inside the parentheses *)
}.
Inductive mitem := MC (k : tkind) | MRef (i : ispec).

Definition mod_char (k : tkind) : N :=
  match k with KAt => 64 | KAnd => 38 | KQuestion => 63 | KPlus => 43 | KMinus => 45 | _ => 0 end.
Definition print_inter (i : ispec) : list ptok :=
  (KOpenParen, [40]) :: is_b1 i ++ (if is_sec i then (KEq, [61]) :: is_b2 i else []) ++
  (if is_rel i then (KTilde, [126]) :: is_b3 i else []) ++ (KInt, is_val i) :: is_b4 i ++ [(KCloseParen, [41])].
Definition print_mitem (m : mitem) : list ptok :=
  match m with MC k => [(k, [mod_char k])] | MRef i => (KAnd, [38]) :: print_inter i end.
Definition print_mods (ms : list mitem) : list ptok := concat (map print_mitem ms).
Definition mitem_kind (m : mitem) : tkind := match m with MC k => k | MRef _ => KAnd end.
Definition kind_bit (k : tkind) : N := match mod_bit k with Some b => b | None => 0 end.
Definition mods_bits (ms : list mitem) : N := fold_left (fun acc m => N.lor acc (kind_bit (mitem_kind m))) ms 0.
Fixpoint mods_inter (ms : list mitem) : option (bool * bool * N) :=
  match ms with
  | [] => None
  | MRef i :: _ => Some (is_rel i, is_sec i, digits_val (is_val i))
  | MC _ :: r => mods_inter r
  end.
Fixpoint nodup_k (ks : list tkind) : bool :=
  match ks with [] => true | k :: r => negb (existsb (tk_eqb k) r) && nodup_k r end.
Definition wsb_ok (p : list ptok) : bool := forallb (fun t => is_ws_block (fst t) && shape_ok t) p.

Record cspec := {
  cs_kind : ckind;
  cs_mods : list mitem;
  cs_name : list ptok;
  cs_alias : option (list ptok);     (* name|alias *)
  cs_body : cbody;
  cs_note : option (list ptok)       (* (note) *)
}.

Definition marker_p (k : ckind) : ptok :=
  match k with CIgr => (KAt, [64]) | CCw => (KHash, [35]) | CTm => (KTilde, [126]) end.
Definition bar_p : ptok := (KOr, [124]).
Definition ob_p : ptok := (KOpenBrace, [123]).
Definition cb_p : ptok := (KCloseBrace, [125]).
Definition op_p : ptok := (KOpenParen, [40]).
Definition cp_p : ptok := (KCloseParen, [41]).

Definition print_cname (c : cspec) : list ptok :=
  cs_name c ++ match cs_alias c with Some a => bar_p :: a | None => [] end.
Definition print_cbody (b : cbody) : list ptok :=
  match b with
  | BQty q tp => ob_p :: print_qty q tp ++ [cb_p]
  | BEmpty inner => ob_p :: inner ++ [cb_p]
  | BWord => []
  end.
Definition print_cnote (c : cspec) : list ptok :=
  match cs_note c with Some n => op_p :: n ++ [cp_p] | None => [] end.
Definition print_comp (c : cspec) : list ptok :=
  marker_p (cs_kind c) :: print_mods (cs_mods c) ++ print_cname c ++ print_cbody (cs_body c) ++ print_cnote c.

Definition denote_cqty (b : cbody) : option (value * bool * option str) :=
  match b with BQty q _ => Some (denote_qty q) | _ => None end.

Definition denote_comp (c : cspec) : ev_spec :=
  let name := clean (toks_text (cs_name c)) in
  let alias := option_map (fun a => clean (toks_text a)) (cs_alias c) in
  let note := option_map (fun n => clean (toks_text n)) (cs_note c) in
  match cs_kind c with
  | CIgr => SIngredient (mods_bits (cs_mods c)) (mods_inter (cs_mods c)) name alias (denote_cqty (cs_body c)) note
  | CCw => SCookware (mods_bits (cs_mods c)) name alias (option_map (fun q => (fst (fst q), snd (fst q))) (denote_cqty (cs_body c))) note
  | CTm => STimer (if str_blank (toks_text (cs_name c)) then None else Some name) (denote_cqty (cs_body c))
  end.

Definition no_kinds (ks : list tkind) (p : list ptok) : bool :=
  forallb (fun t => negb (existsb (tk_eqb (fst t)) ks)) p.
Definition is_modifier_k (k : tkind) : bool :=
  match k with KAt | KQuestion | KPlus | KMinus | KAnd => true | _ => false end.

(* text of a name, alias or note: ordinary tokens without `{ @ # ~` *)
Definition ctext_ok (p : list ptok) : bool :=
  forallb shape_ok p && no_kinds [KOpenBrace; KAt; KHash; KTilde] p.

Definition comp_wf (cfg : pcfg) (c : cspec) : bool :=
  negb (p_strict_escape cfg) &&
  ctext_ok (cs_name c) &&
  (* modifiers: distinct characters; `&(..)` needs INTERMEDIATE_PREPARATIONS; cookware takes no `@` and no
     data; timers take none; what follows them is neither a modifier character nor `(` *)
  (is_nil (cs_mods c) || has cfg X_COMPONENT_MODIFIERS) &&
  nodup_k (map mitem_kind (cs_mods c)) &&
  forallb (fun m => match m with
                    | MC k => is_modifier_k k && match cs_kind c, k with CCw, KAt => false | CTm, _ => false | _, _ => true end
                    | MRef i => has cfg X_INTERMEDIATE_PREPARATIONS && wsb_ok (is_b1 i) && wsb_ok (is_b2 i) &&
                                wsb_ok (is_b3 i) && wsb_ok (is_b4 i) && (digits_val (is_val i) <=? i16_max) &&
                                match cs_kind c with CIgr => true | _ => false end
                    end) (cs_mods c) &&
  negb (is_modifier_k (head_kind (print_cname c ++ print_cbody (cs_body c)))) &&
  negb (tk_eqb (head_kind (print_cname c ++ print_cbody (cs_body c))) KOpenParen) &&
  (* name *)
  match cs_kind c, cs_body c with
  | CTm, BQty _ _ => true
  | _, _ => negb (str_blank (toks_text (cs_name c)))
  end &&
  (* alias *)
  match cs_alias c with
  | Some a => has cfg X_COMPONENT_ALIAS && no_kinds [KOr] (cs_name c) && no_kinds [KOr] a && ctext_ok a &&
              negb (str_blank (toks_text a)) &&
              match cs_kind c with CTm => false | _ => true end &&
              match cs_body c with BWord => false | _ => true end
  | None => negb (has cfg X_COMPONENT_ALIAS) || no_kinds [KOr] (cs_name c)
  end &&
  (* body *)
  match cs_body c with
  | BQty q tp => qty_wf cfg q tp && no_kinds [KCloseBrace] (print_qty q tp) &&
                 match cs_kind c with
                 | CIgr => true
                 | CCw => match qs_unit q with None => true | Some _ => false end
                 | CTm => match qs_unit q with None => false | Some _ => true end
                 end
  | BEmpty inner => forallb (fun t => is_ws_block (fst t) && shape_ok t) inner &&
                    match cs_kind c with CTm => negb (has cfg X_TIMER_REQUIRES_TIME) | _ => true end
  | BWord => forallb (fun t => is_single_word_tok (fst t)) (cs_name c) && negb (is_nil (cs_name c)) &&
             match cs_kind c with CTm => negb (has cfg X_TIMER_REQUIRES_TIME) | _ => true end
  end &&
  (* note *)
  match cs_note c with
  | Some n => ctext_ok n && no_kinds [KCloseParen] n && match cs_kind c with CTm => false | _ => true end
  | None => true
  end.

Fixpoint first_mo_p (p : list ptok) : tkind :=
  match p with
  | [] => KEof
  | t :: r => if is_marker_or_open (fst t) then fst t else first_mo_p r
  end.

(* what may follow: no `(` unless the note is there; after a bare word no word or digit token,
   and no `{` before the next marker (it would close a multi-word name) *)
Definition comp_follow (c : cspec) (k : list ptok) : bool :=
  match cs_note c with Some _ => true | None => negb (tk_eqb (head_kind k) KOpenParen) end &&
  match cs_body c with
  | BWord => match cs_note c with Some _ => true | None => negb (is_single_word_tok (head_kind k)) end &&
             negb (tk_eqb (first_mo_p k) KOpenBrace)
  | _ => true
  end.

(* ---------------------------------------------------------------- steps *)
Inductive item := IText (toks : list ptok) | IComp (c : cspec).
Definition print_item (i : item) : list ptok :=
  match i with IText t => t | IComp c => print_comp c end.
Definition print_items (l : list item) : list ptok := concat (map print_item l).
Definition denote_item (i : item) : ev_spec :=
  match i with IText t => SText (toks_text t) | IComp c => denote_comp c end.

(* a text piece: ordinary tokens (words, blanks, newlines = line wraps, comments, escapes) without an
   unescaped `@ # ~ {`, contributing at least one character *)
Definition text_item_ok (p : list ptok) : bool :=
  forallb shape_ok p && no_kinds [KOpenBrace; KAt; KHash; KTilde] p && negb (is_nil (toks_text p)).

(* items alternate (adjacent text pieces are one piece) and each component is followed by what
   comp_follow allows *)
Fixpoint items_ok (cfg : pcfg) (l : list item) : bool :=
  match l with
  | [] => true
  | IText t :: r =>
      text_item_ok t && match r with IText _ :: _ => false | _ => true end && items_ok cfg r
  | IComp c :: r => comp_wf cfg c && comp_follow c (print_items r) && items_ok cfg r
  end.

(* ---------------------------------------------------------------- blocks *)
(* a line of a `>` text block: the marker (required on the first line), one white-space token
   after it, the text *)
Record tline := { tl_marker : bool; tl_ws : list ptok; tl_toks : list ptok }.

Inductive block :=
| BkMeta (key value : list ptok)                       (* >> key : value *)
| BkSection (n1 : nat) (name : list ptok) (n2 : nat) (trail : list ptok)   (* =.. name =.. *)
| BkStep (items : list item)
| BkText (lines : list tline).                         (* > text, continued with or without `>` *)

Definition nl_p : ptok := (KNewline, [10]).
Definition tstep_p : ptok := (KTextStep, [62]).
Definition print_tline (l : tline) : list ptok :=
  (if tl_marker l then [tstep_p] else []) ++ tl_ws l ++ tl_toks l.
Fixpoint print_tlines (ls : list tline) : list ptok :=
  match ls with
  | [] => []
  | [l] => print_tline l
  | l :: r => print_tline l ++ nl_p :: print_tlines r
  end.
Fixpoint denote_tlines (ls : list tline) : list ev_spec :=
  match ls with
  | [] => []
  | [l] => [SText (toks_text (tl_toks l))]
  | l :: r => SText (toks_text (tl_toks l) ++ [32]) :: denote_tlines r
  end.
Definition tline_ok (l : tline) : bool :=
  forallb shape_ok (tl_toks l) && no_kinds [KNewline] (tl_toks l) && negb (str_blank (toks_text (tl_toks l))) &&
  (if tl_marker l
   then match tl_ws l with
        | [] => negb (tk_eqb (head_kind (tl_toks l)) KWs)
        | [w] => tk_eqb (fst w) KWs && shape_ok w
        | _ => false
        end
   else is_nil (tl_ws l) && negb (tk_eqb (head_kind (tl_toks l)) KTextStep)).

Definition meta_p : ptok := (KMeta, [62; 62]).
Definition colon_p : ptok := (KColon, [58]).
Definition print_block (b : block) : list ptok :=
  match b with
  | BkMeta k v => meta_p :: k ++ colon_p :: v
  | BkSection n1 name n2 trail => eq_p :: repeat eq_p n1 ++ name ++ repeat eq_p n2 ++ trail
  | BkStep items => print_items items
  | BkText ls => print_tlines ls
  end.

Definition denote_block (b : block) : list ev_spec :=
  match b with
  | BkMeta k v => [SMeta (clean (toks_text k)) (trim (toks_text v))]
  | BkSection _ name _ _ => [SSection (Some (clean (toks_text name)))]
  | BkStep items => SStart true :: map denote_item items ++ [SEnd true]
  | BkText ls => SStart false :: denote_tlines ls ++ [SEnd false]
  end.

Definition is_empty_k (k : tkind) : bool :=
  match k with KWs | KBlockComment | KLineComment | KNewline => true | _ => false end.

Definition block_ok (cfg : pcfg) (b : block) : bool :=
  negb (p_strict_escape cfg) &&
  match b with
  | BkMeta k v => forallb shape_ok k && forallb shape_ok v && no_kinds [KColon] k &&
                  negb (str_blank (toks_text k)) && negb (str_blank (toks_text v))
  | BkSection n1 name n2 trail =>
      forallb shape_ok name && no_kinds [KEq] name && negb (str_blank (toks_text name)) &&
      forallb blank_ok trail
  | BkStep items =>
      items_ok cfg items &&
      negb (forallb (fun t => is_empty_k (fst t)) (print_items items)) &&
      negb (existsb (tk_eqb (head_kind (print_items items))) [KMeta; KEq; KTextStep])
  | BkText ls =>
      forallb tline_ok ls && match ls with l :: _ => tl_marker l | [] => false end
  end.

(* ---------------------------------------------------------------- documents *)
(* A document is a list of blocks.  Its spelling choices between the blocks are on the tape:
   the newline token that ends each block (`\n` or `\r\n`), the empty lines (blanks and
   comments, then a newline) before the first block and after each block, and whether the text
   ends with the newline of the last block (and its empty lines) or right after the block. *)
Definition emptyline := (list ptok * ptok)%type.
Definition print_eline (e : emptyline) : list ptok := fst e ++ [snd e].
Definition print_elines (l : list emptyline) : list ptok := concat (map print_eline l).

(* [dt_final] = false: the text ends right after the last block (no newline, no empty lines after it) *)
Record dtape := { dt_lead : list emptyline; dt_nl : nat -> ptok; dt_sep : nat -> list emptyline; dt_final : bool }.

Definition open_end (r : list block) (tp : dtape) : bool := is_nil r && negb (dt_final tp).

Fixpoint print_blocks (d : list block) (tp : dtape) (n : nat) : list ptok :=
  match d with
  | [] => []
  | b :: r =>
      print_block b ++
      (if open_end r tp then []
       else dt_nl tp n :: print_elines (dt_sep tp n) ++ print_blocks r tp (S n))
  end.
Definition print_doc_toks (d : list block) (tp : dtape) : list ptok :=
  print_elines (dt_lead tp) ++ print_blocks d tp 0.
Definition print_doc (d : list block) (tp : dtape) : str := unlex (print_doc_toks d tp).

(* the intended event stream *)
Definition doc_events (d : list block) : list ev_spec := concat (map denote_block d).

Definition is_nl_k (k : tkind) : bool := tk_eqb k KNewline.
Definition eline_ok (e : emptyline) : bool :=
  forallb (fun t => is_empty_k (fst t) && negb (is_nl_k (fst t))) (fst e) && is_nl_k (fst (snd e)).

(* `>>` and `=` lines are blocks of one line *)
Definition is_single_block (b : block) : bool :=
  match b with BkMeta _ _ | BkSection _ _ _ _ => true | _ => false end.
Definition is_slm_k (k : tkind) : bool := match k with KMeta | KEq => true | _ => false end.

(* the lines of a multi-line block (step, text): no line is empty (blank or comment only), none
   starts with `>>` or `=`.  [start]: at the start of a line; [seen]: the line has a token that
   is not blank *)
Fixpoint mlines_aux (p : list ptok) (start seen : bool) : bool :=
  match p with
  | [] => seen
  | t :: r =>
      if is_nl_k (fst t) then seen && mlines_aux r true false
      else negb (start && is_slm_k (fst t)) && mlines_aux r false (seen || negb (is_empty_k (fst t)))
  end.
Definition mlines_ok (p : list ptok) : bool := mlines_aux p true false.

Definition block_lines_ok (b : block) : bool :=
  if is_single_block b then no_kinds [KNewline] (print_block b) else mlines_ok (print_block b).

Definition sec_trail_okb (b : block) : bool :=
  match b with BkSection _ _ n2 trail => negb (Nat.eqb n2 0) || is_nil trail | _ => true end.

(* between two multi-line blocks there is an empty line *)
Definition sep_ok (b : block) (sep : list emptyline) (r : list block) : bool :=
  is_single_block b || negb (is_nil sep) || match r with [] => true | b2 :: _ => is_single_block b2 end.

Fixpoint blocks_ok (cfg : pcfg) (d : list block) (tp : dtape) (n : nat) : bool :=
  match d with
  | [] => true
  | b :: r =>
      block_ok cfg b && sec_trail_okb b && block_lines_ok b &&
      (open_end r tp ||
       is_nl_k (fst (dt_nl tp n)) && forallb eline_ok (dt_sep tp n) && sep_ok b (dt_sep tp n) r) &&
      blocks_ok cfg r tp (S n)
  end.

(* no front matter: the text does not have two `---` lines with only blanks before the first *)
Definition fm_free (cfg : pcfg) (s : str) : bool :=
  match parse_frontmatter cfg s with None => true | Some _ => false end.
(* sufficient: no line of the text is `---` *)
Definition no_fence_line (s : str) : bool := forallb (fun l => negb (is_fence l)) (lines_inclusive s).

(* the side condition of the document round trip, all of it decidable on the printer's input:
   [body_ok] (tokens, blocks, layout) and no front matter *)
Definition body_ok (U : N -> ucls) (cfg : pcfg) (d : list block) (tp : dtape) : bool :=
  negb (p_strict_escape cfg) &&
  adjacent_ok U (print_doc_toks d tp) &&
  forallb eline_ok (dt_lead tp) && blocks_ok cfg d tp 0.
Definition doc_ok (U : N -> ucls) (cfg : pcfg) (d : list block) (tp : dtape) : bool :=
  body_ok U cfg d tp && fm_free cfg (print_doc d tp).

(* ---------------------------------------------------------------- front matter *)
(* `---`, blanks, newline; the YAML text; `---`, blanks, newline; the document.  The YAML text is not
   interpreted here (serde_yaml is an oracle): it is any text that is empty or ends with a newline and has
   no `---` line.  After a front matter `>>` lines are no metadata entries (they live in the YAML), so the
   document has none. *)
Record fmtape := { fm_ws1 : str; fm_ws2 : str }.
Definition fence_line (ws : str) : str := [45; 45; 45] ++ ws ++ [10].
Definition print_fm_doc (y : str) (ft : fmtape) (d : list block) (tp : dtape) : str :=
  fence_line (fm_ws1 ft) ++ y ++ fence_line (fm_ws2 ft) ++ print_doc d tp.
Definition hblank (w : str) : bool := str_blank w && negb (existsb (N.eqb 10) w).
Definition ends_nl (y : str) : bool := match rev y with [] => true | c :: _ => c =? 10 end.
Definition is_meta_block (b : block) : bool := match b with BkMeta _ _ => true | _ => false end.
Definition fm_doc_ok (U : N -> ucls) (cfg : pcfg) (y : str) (ft : fmtape) (d : list block) (tp : dtape) : bool :=
  hblank (fm_ws1 ft) && hblank (fm_ws2 ft) && no_fence_line y && ends_nl y &&
  forallb (fun b => negb (is_meta_block b)) d && body_ok U cfg d tp.
Definition fm_doc_events (y : str) (d : list block) : list ev_spec := SYaml y :: doc_events d.
