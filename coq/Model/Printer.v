(* Printing side of C01: token-level spellings of Cooklang constructs and what they are
   intended to denote.  Nothing here is a model of Rust code: these are the definitions the
   round-trip theorems (Proofs/RoundTrip.v, Properties/C01.v) are stated with.

   A spelling is a list of printed tokens [ptok] = (kind, characters); the text is their
   concatenation [unlex].  Every optional position of the syntax is a field of a tape record
   holding the blank tokens (white space, block or line comments) put there.  [place off p] are
   the tokens the lexer produces for [unlex p] when [adjacent_ok p] (theorem C01_lexer_roundtrip),
   so statements about [place off (print ...)] are statements about [lex (print ...)]. *)
From CL Require Export Model.Lexer Model.PText Model.Parser.

Definition ptok := (tkind * str)%type.
Definition unlex (toks : list ptok) : str := concat (map snd toks).
Definition is_nil {A} (l : list A) : bool := match l with [] => true | _ => false end.

(* the tokens with their spans, starting at byte offset [off] *)
Fixpoint place (off : N) (p : list ptok) : list tok :=
  match p with
  | [] => []
  | t :: r => {| kind := fst t; tstr := snd t; tstart := off |} :: place (off + blen (snd t)) r
  end.

(* after "[-": the body contains "-]" exactly once, at its end *)
Fixpoint bc_closed (s : str) : bool :=
  match s with
  | [] => false
  | c :: r => if (c =? 45) && next_is 93 r then is_nil (tl r) else bc_closed r
  end.

Section Adjacency.
  Variable U : N -> ucls.

  (* the characters form exactly one token of that kind *)
  Definition tok_ok (t : ptok) : bool :=
    match snd t with
    | [] => false
    | c :: t' => let '(k, _, rest) := lex_one U c t' in tk_eqb k (fst t) && is_nil rest
    end.

  (* [follow_ok s next]: the token with characters [s] is not changed by a following character
     [next].  Read off Model/Lexer.v lex_one, arm by arm:
       a lone backslash takes the next character;   `>` `>` is `>>`;   `-` `-` starts a comment;
       a line comment runs to the next newline;   an unterminated block comment runs on;
       `[` `-` starts a block comment;   CR LF is one newline;   digits, blanks and word
       characters extend an Int / ZeroInt, a Ws, a Word.  Nothing else interacts. *)
  Definition follow_ok (s : str) (next : option N) : bool :=
    match s, next with
    | [], _ => true
    | _, None => true
    | c :: t', Some x =>
        if c =? 92 then negb (is_nil t')
        else if c =? 62 then negb (is_nil t') || negb (x =? 62)
        else if c =? 45 then (if is_nil t' then negb (x =? 45) else x =? 10)
        else if (c =? 91) && next_is 45 t' then bc_closed (tl t')
        else if (c =? 91) && is_nil t' && (x =? 45) then false
        else if c =? 10 then true
        else if (c =? 13) && next_is 10 t' then true
        else if (c =? 13) && is_nil t' && (x =? 10) then false
        else if is_digit c then negb (is_digit x)
        else match single_kind c with
             | Some _ => true
             | None =>
                 if is_lex_ws U c then negb (is_lex_ws U x)
                 else if u_punct (U c) then true
                 else negb (is_word_char U x)
             end
    end.

  (* decidable side condition of the lexer round trip *)
  Fixpoint adjacent_ok (toks : list ptok) : bool :=
    match toks with
    | [] => true
    | t :: r => tok_ok t && follow_ok (snd t) (hd_error (unlex r)) && adjacent_ok r
    end.
End Adjacency.

(* ---------------------------------------------------------------- text *)

(* the characters a run of tokens contributes to a Text (block_parser.rs text()): comments are
   skipped, a newline is one blank, an escape loses its backslash *)
Definition tok_text (t : ptok) : str :=
  match fst t with
  | KNewline => [32]
  | KLineComment | KBlockComment => []
  | KEscaped => tl (snd t)
  | _ => snd t
  end.
Definition toks_text (p : list ptok) : str := concat (map tok_text p).

(* what the names, units, notes and text values of the recipe are: Text::text_trimmed *)
Definition clean (s : str) : str := collapse_spaces 32 (trim s).

(* shape conditions every lexer token satisfies (consequences of tok_ok, kept separate so the
   token-level theorems do not depend on a classification) *)
Definition shape_ok (t : ptok) : bool :=
  negb (is_nil (snd t)) &&
  match fst t with
  | KEscaped => next_is 92 (snd t)
  | KNewline => str_blank (snd t)
  | _ => true
  end.

Definition blank_p (t : ptok) : bool := is_ws_comment (fst t).
(* a blank token: white space or a comment; its white space is white space for str::trim too *)
Definition blank_ok (t : ptok) : bool :=
  blank_p t && shape_ok t && match fst t with KWs => str_blank (snd t) | _ => true end.

(* ---------------------------------------------------------------- numbers *)

Inductive nspec :=
| SInt (ds : str)            (* 12 *)
| SDec (ip fp : str)         (* 1.5, and .5 when ip = [] *)
| SFrac (a b : str)          (* 1/2 *)
| SMixed (w a b : str).      (* 1 1/2 *)

(* spelling choices inside a number: blanks between whole part and fraction, around the slash *)
Record ntape := { n_gap : list ptok; n_bs : list ptok; n_as : list ptok }.

Definition dot_p : ptok := (KDot, [46]).
Definition slash_p : ptok := (KSlash, [47]).
Definition minus_p : ptok := (KMinus, [45]).
Definition eq_p : ptok := (KEq, [61]).
Definition pct_p : ptok := (KPercent, [37]).

(* the kind the lexer gives a digit string *)
Definition digits_kind (ds : str) : tkind :=
  match ds with
  | c :: _ :: _ => if c =? 48 then KZeroInt else KInt
  | _ => KInt
  end.

Definition print_num (n : nspec) (tp : ntape) : list ptok :=
  match n with
  | SInt ds => [(KInt, ds)]
  | SDec [] fp => [dot_p; (digits_kind fp, fp)]
  | SDec ip fp => [(KInt, ip); dot_p; (digits_kind fp, fp)]
  | SFrac a b => (KInt, a) :: n_bs tp ++ slash_p :: n_as tp ++ [(KInt, b)]
  | SMixed w a b => (KInt, w) :: n_gap tp ++ (KInt, a) :: n_bs tp ++ slash_p :: n_as tp ++ [(KInt, b)]
  end.

Definition denote_num (n : nspec) : num :=
  match n with
  | SInt ds => NReg (dec_q ds [])
  | SDec ip fp => NReg (dec_q ip fp)
  | SFrac a b => NFrac 0 (digits_val a) (digits_val b)
  | SMixed w a b => NFrac (digits_val w) (digits_val a) (digits_val b)
  end.

Definition fits_u32 (ds : str) : bool := digits_val ds <=? u32_max.

Definition num_wf (n : nspec) (tp : ntape) : bool :=
  forallb blank_ok (n_gap tp) && forallb blank_ok (n_bs tp) && forallb blank_ok (n_as tp) &&
  match n with
  | SInt _ | SDec _ _ => true
  | SFrac a b => fits_u32 a && fits_u32 b && negb (digits_val b =? 0)
  | SMixed w a b => fits_u32 w && fits_u32 a && fits_u32 b && negb (digits_val b =? 0)
  end.

(* the decimal digits of a natural number (fuel: the binary size bounds the decimal size) *)
Fixpoint digits_fuel (fuel : nat) (n : N) (acc : str) : str :=
  match fuel with
  | O => acc
  | S f => let acc' := (48 + n mod 10) :: acc in
           if n <? 10 then acc' else digits_fuel f (n / 10) acc'
  end.
Definition digits_of (n : N) : str := digits_fuel (S (N.to_nat (N.log2 n))) n [].

(* ---------------------------------------------------------------- quantities *)

Inductive vspec :=
| QNum (n : nspec)
| QRange (a b : nspec)
| QText (toks : list ptok).     (* the words of a text value, as printed *)

Record qspec := { qs_val : vspec; qs_lock : bool; qs_unit : option (list ptok) }.

(* the optional positions of `{ = v % u }` (each a list of blank tokens) *)
Record qtape := {
  q_lead : list ptok;        (* after `{` *)
  q_after_lock : list ptok;  (* after `=` *)
  q_ta : ntape; q_tb : ntape;
  q_bd : list ptok; q_ad : list ptok;   (* around the `-` of a range *)
  q_trail : list ptok;       (* after the value (before `%` or `}`) *)
  q_after_pct : list ptok;   (* after `%` *)
  q_end : list ptok          (* after the unit *)
}.

Definition print_value (v : vspec) (tp : qtape) : list ptok :=
  match v with
  | QNum n => print_num n (q_ta tp)
  | QRange a b => print_num a (q_ta tp) ++ q_bd tp ++ minus_p :: q_ad tp ++ print_num b (q_tb tp)
  | QText toks => toks
  end.

Definition print_qty (q : qspec) (tp : qtape) : list ptok :=
  q_lead tp ++ (if qs_lock q then eq_p :: q_after_lock tp else []) ++
  print_value (qs_val q) tp ++ q_trail tp ++
  match qs_unit q with
  | Some u => pct_p :: q_after_pct tp ++ u ++ q_end tp
  | None => []
  end.

(* the intended reading: value, "scaling is locked", unit *)
Definition denote_value (v : vspec) : value :=
  match v with
  | QNum n => VNum (denote_num n)
  | QRange a b => VRange (denote_num a) (denote_num b)
  | QText toks => VText (clean (toks_text toks))
  end.

Definition denote_qty (q : qspec) : value * bool * option str :=
  (denote_value (qs_val q), qs_lock q, option_map (fun u => clean (toks_text u)) (qs_unit q)).

(* the same projection of a parsed quantity (what the analysis pass consumes) *)
Definition qproj (q : quantity) : value * bool * option str :=
  (qv (q_val q), match qlock (q_val q) with Some _ => true | None => false end,
   option_map text_trimmed (q_unit q)).

Definition kind_in (k : tkind) (p : list ptok) : bool := existsb (fun t => tk_eqb (fst t) k) p.

(* a text value / a unit as printed: ordinary tokens, first one a word, nothing that ends the
   field (`%`), no `-` (it would be tried as a range) *)
Definition words_ok (p : list ptok) : bool :=
  forallb shape_ok p && negb (kind_in KPercent p) && negb (kind_in KMinus p) &&
  match p with
  | t :: _ => tk_eqb (fst t) KWord
  | [] => false
  end &&
  negb (str_blank (toks_text p)).

Definition qty_wf (cfg : pcfg) (q : qspec) (tp : qtape) : bool :=
  negb (p_strict_escape cfg) &&
  forallb blank_ok (q_lead tp) && forallb blank_ok (q_after_lock tp) && forallb blank_ok (q_bd tp) &&
  forallb blank_ok (q_ad tp) && forallb blank_ok (q_trail tp) && forallb blank_ok (q_after_pct tp) &&
  forallb blank_ok (q_end tp) &&
  match qs_val q with
  | QNum n => num_wf n (q_ta tp)
  | QRange a b => has cfg X_RANGE_VALUES && num_wf a (q_ta tp) && num_wf b (q_tb tp)
  | QText toks => words_ok toks
  end &&
  match qs_unit q with
  | Some u => forallb shape_ok u && negb (str_blank (toks_text u))
  | None => true
  end.
