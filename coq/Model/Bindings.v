(* Model of the FFI view of a recipe: /repo/bindings/src/model.rs and the exported entry points
   of /repo/bindings/src/lib.rs (property C19).

   Conventions (DESIGN.md 2.3): strings are [str]; usize / u32 are [N] and the cast
   [index as u32] is modelled as Rust defines it (reduction modulo 2^32); f64 is modelled by
   exact rationals [Q]; a [HashMap] is an association list with pairwise distinct keys in
   which an existing entry is updated in place and a new one is appended (the iteration order
   of the real map is never observed by the modelled functions except in
   [merge_grouped_quantities], where the right operand is given as the list in the order its
   map iterates); [unwrap] on [None] and [panic!("Unexpected type")] are [Panic site] values.

   The core recipe ([cooklang::ScaledRecipe]) is abstract: exactly the fields the bindings read.
   What the bindings do NOT read - and therefore lose - is listed with each record. *)
From Coq Require Import QArith.
From CL Require Import Base.Chars.
Open Scope N_scope.

(* ------------------------------------------------------------------ core side *)

(* cooklang::quantity::Value after [Number::value()] (Regular(v) => v, Fraction => whole+num/den+err) *)
Inductive cvalue := CNum (v : Q) | CRange (a b : Q) | CTextV (s : str).
(* Quantity<Value>: value(), unit() *)
Record cqty := { cq_val : cvalue; cq_unit : option str }.
(* Ingredient<Value>; not read: alias, reference, relation, modifiers *)
Record cing := { ci_name : str; ci_qty : option cqty; ci_note : option str }.
(* Cookware<Value>: quantity is a bare value; not read: alias, note, relation, modifiers *)
Record ccw := { cc_name : str; cc_qty : option cvalue }.
(* Timer<Value> *)
Record ctm := { ct_name : option str; ct_qty : option cqty }.
(* model::Item *)
Inductive citem :=
| CIText (s : str) | CIIng (i : N) | CICw (i : N) | CITm (i : N) | CIInline (i : N).
(* model::Content; not read: Step::number *)
Inductive ccontent := CStepC (items : list citem) | CTextC (t : str).
Record csection := { cs_name : option str; cs_content : list ccontent }.
(* Recipe; [cr_meta]: the metadata map in its (IndexMap) order, each key and value already passed
   through serde_yaml's [as_str] (an oracle: [None] = not a YAML string); not read:
   inline_quantities, data *)
Record crecipe := {
  cr_meta : list (option str * option str);
  cr_sections : list csection;
  cr_ings : list cing; cr_cws : list ccw; cr_tms : list ctm }.

(* ------------------------------------------------------------------ bindings side (model.rs 9-80, 140-168) *)

Inductive bvalue := BNum (v : Q) | BRange (a b : Q) | BText (s : str) | BEmpty.
Record amount := { am_q : bvalue; am_units : option str }.
Record bing := { bi_name : str; bi_amount : option amount; bi_descr : option str }.
Record bcw := { bc_name : str; bc_amount : option amount }.
Record btm := { bt_name : option str; bt_amount : option amount }.
Inductive bitem := BIText (s : str) | BIIng (i : N) | BICw (i : N) | BITm (i : N).
Record bstep := { bs_items : list bitem; bs_irefs : list N; bs_crefs : list N; bs_trefs : list N }.
Inductive bblock := BStepBlock (s : bstep) | BNoteBlock (t : str).
Record bsection := {
  bsec_title : option str; bsec_blocks : list bblock;
  bsec_irefs : list N; bsec_crefs : list N; bsec_trefs : list N }.
Record brecipe := {
  br_meta : list (str * str);
  br_sections : list bsection;
  br_ings : list bing; br_cws : list bcw; br_tms : list btm }.
Inductive bcomponent := BCIng (i : bing) | BCCw (c : bcw) | BCTm (t : btm) | BCText (s : str).

(* panic sites *)
Definition site_type_number_right : N := 1.   (* model.rs 272-274 *)
Definition site_type_number_left : N := 2.    (* 275-277 *)
Definition site_type_range_right : N := 3.    (* 282-284 *)
Definition site_type_range_left : N := 4.     (* 285-287 *)
Definition site_type_text_right : N := 5.     (* 294-299 *)
Definition site_type_text_left : N := 6.      (* 300-302 *)
Definition site_expand_unwrap : N := 7.       (* 217 *)
Definition site_deref_ingredient : N := 8.    (* lib.rs 47, 61 *)
Definition site_deref_cookware : N := 9.      (* lib.rs 50, 66 *)
Definition site_deref_timer : N := 10.        (* lib.rs 53, 71 *)

Definition is_type_site (s : N) : bool := (1 <=? s) && (s <=? 6).

Definition U32 : N := 4294967296.
(* [x as u32] for a usize x *)
Definition as_u32 (i : N) : N := i mod U32.

(* ---- extract_value (model.rs 198-209) *)
Definition extract_value (v : cvalue) : bvalue :=
  match v with
  | CNum x => BNum x
  | CRange a b => BRange a b
  | CTextV s => BText s
  end.

(* ---- Amountable for Quantity<Value> (177-185) and for Value (187-196) *)
Definition extract_amount_q (q : cqty) : amount :=
  {| am_q := extract_value (cq_val q); am_units := cq_unit q |}.
Definition extract_amount_v (v : cvalue) : amount :=
  {| am_q := extract_value v; am_units := None |}.

(* ---- From<&cooklang::Ingredient> (422-430), Cookware (432-439), Timer (441-448) *)
Definition ing_from (i : cing) : bing :=
  {| bi_name := ci_name i; bi_amount := option_map extract_amount_q (ci_qty i); bi_descr := ci_note i |}.
Definition cw_from (c : ccw) : bcw :=
  {| bc_name := cc_name c; bc_amount := option_map extract_amount_v (cc_qty c) |}.
Definition tm_from (t : ctm) : btm :=
  {| bt_name := Some (match ct_name t with Some n => n | None => [] end);   (* unwrap_or_default *)
     bt_amount := option_map extract_amount_q (ct_qty t) |}.

(* ---- into_item (313-332) *)
Definition into_item (it : citem) : bitem :=
  match it with
  | CIText s => BIText s
  | CIIng i => BIIng (as_u32 i)
  | CICw i => BICw (as_u32 i)
  | CITm i => BITm (as_u32 i)
  | CIInline _ => BIText []
  end.

(* ---- into_simple_recipe (334-420), loop by loop; [Vec::push] is [++ [x]] *)

(* 359-376: one turn of `for item in &step.items` on the four vectors of the step *)
Definition step_turn (a : bstep) (it : citem) : bstep :=
  let item := into_item it in
  let a1 :=
    match item with
    | BIIng i => {| bs_items := bs_items a; bs_irefs := bs_irefs a ++ [i]; bs_crefs := bs_crefs a; bs_trefs := bs_trefs a |}
    | BICw i => {| bs_items := bs_items a; bs_irefs := bs_irefs a; bs_crefs := bs_crefs a ++ [i]; bs_trefs := bs_trefs a |}
    | BITm i => {| bs_items := bs_items a; bs_irefs := bs_irefs a; bs_crefs := bs_crefs a; bs_trefs := bs_trefs a ++ [i] |}
    | BIText _ => a
    end in
  {| bs_items := bs_items a1 ++ [item]; bs_irefs := bs_irefs a1; bs_crefs := bs_crefs a1; bs_trefs := bs_trefs a1 |}.

Definition empty_step : bstep := {| bs_items := []; bs_irefs := []; bs_crefs := []; bs_trefs := [] |}.

(* 352-386 *)
Definition convert_step (items : list citem) : bstep := fold_left step_turn items empty_step.

(* 350-394: one turn of `for content in &section.content` on blocks and the three vectors of the
   section ([bsec_title] is carried unchanged and set at 396-402) *)
Definition content_turn (a : bsection) (c : ccontent) : bsection :=
  match c with
  | CStepC items =>
      let st := convert_step items in
      {| bsec_title := bsec_title a; bsec_blocks := bsec_blocks a ++ [BStepBlock st];
         bsec_irefs := bsec_irefs a ++ bs_irefs st;          (* extend *)
         bsec_crefs := bsec_crefs a ++ bs_crefs st;
         bsec_trefs := bsec_trefs a ++ bs_trefs st |}
  | CTextC t =>
      {| bsec_title := bsec_title a; bsec_blocks := bsec_blocks a ++ [BNoteBlock t];
         bsec_irefs := bsec_irefs a; bsec_crefs := bsec_crefs a; bsec_trefs := bsec_trefs a |}
  end.

(* 342-403 *)
Definition convert_section (s : csection) : bsection :=
  fold_left content_turn (cs_content s)
    {| bsec_title := cs_name s; bsec_blocks := []; bsec_irefs := []; bsec_crefs := []; bsec_trefs := [] |}.

(* HashMap<String,String>::insert *)
Fixpoint meta_insert (m : list (str * str)) (k v : str) : list (str * str) :=
  match m with
  | [] => [(k, v)]
  | (k', v') :: r => if str_eqb k' k then (k', v) :: r else (k', v') :: meta_insert r k v
  end.

(* 405-411 *)
Definition meta_turn (m : list (str * str)) (kv : option str * option str) : list (str * str) :=
  match kv with
  | (Some k, Some v) => meta_insert m k v
  | _ => m
  end.

Definition into_simple_recipe (r : crecipe) : brecipe :=
  {| br_meta := fold_left meta_turn (cr_meta r) [];
     br_sections := fold_left (fun acc s => acc ++ [convert_section s]) (cr_sections r) [];
     br_ings := map ing_from (cr_ings r);
     br_cws := map cw_from (cr_cws r);
     br_tms := map tm_from (cr_tms r) |}.

(* ---- lib.rs 43-72: deref_* ([index as usize] of a u32 is the identity) *)
(* slice::get with an index that is a binary number (no detour through unary [nat]: the extracted
   model must run on indices such as u32::MAX); Proofs/BindingsProofs.v: [nth_N l i = nth_error l (N.to_nat i)] *)
Fixpoint nth_N {A} (l : list A) (i : N) : option A :=
  match l with
  | [] => None
  | x :: r => if i =? 0 then Some x else nth_N r (N.pred i)
  end.

Definition nth_or_panic {A} (l : list A) (i : N) (site : N) : outcome A :=
  match nth_N l i with Some a => Done a | None => Panic site end.

Definition deref_ingredient (r : brecipe) (i : N) : outcome bing := nth_or_panic (br_ings r) i site_deref_ingredient.
Definition deref_cookware (r : brecipe) (i : N) : outcome bcw := nth_or_panic (br_cws r) i site_deref_cookware.
Definition deref_timer (r : brecipe) (i : N) : outcome btm := nth_or_panic (br_tms r) i site_deref_timer.

Definition deref_component (r : brecipe) (it : bitem) : outcome bcomponent :=
  match it with
  | BIIng i => obind (deref_ingredient r i) (fun x => Done (BCIng x))
  | BICw i => obind (deref_cookware r i) (fun x => Done (BCCw x))
  | BITm i => obind (deref_timer r i) (fun x => Done (BCTm x))
  | BIText s => Done (BCText s)
  end.

(* ------------------------------------------------------------------ combining (84-154, 211-311) *)

Inductive qtype := QTNumber | QTRange | QTText | QTEmpty.
Record gkey := { gk_name : str; gk_type : qtype }.
Definition gq := list (gkey * bvalue).          (* GroupedQuantity *)
Definition ilist := list (str * gq).            (* IngredientList *)

Definition qtype_eqb (a b : qtype) : bool :=
  match a, b with
  | QTNumber, QTNumber | QTRange, QTRange | QTText, QTText | QTEmpty, QTEmpty => true
  | _, _ => false
  end.
Definition gkey_eqb (a b : gkey) : bool := str_eqb (gk_name a) (gk_name b) && qtype_eqb (gk_type a) (gk_type b).

Definition type_of (v : bvalue) : qtype :=
  match v with BNum _ => QTNumber | BRange _ _ => QTRange | BText _ => QTText | BEmpty => QTEmpty end.

(* into_group_quantity (84-138): the key ... *)
Definition amount_key (a : option amount) : gkey :=
  match a with
  | Some am => {| gk_name := match am_units am with Some u => u | None => [] end; gk_type := type_of (am_q am) |}
  | None => {| gk_name := []; gk_type := QTEmpty |}
  end.
(* ... and the value *)
Definition amount_value (a : option amount) : bvalue :=
  match a with Some am => am_q am | None => BEmpty end.
Definition into_group_quantity (a : option amount) : gq := [(amount_key a, amount_value a)].

(* the closure given to and_modify (270-307): [stored] is the entry of `left`, [value] comes from `right` *)
Definition merge_value (k : gkey) (stored value : bvalue) : outcome bvalue :=
  match gk_type k with
  | QTNumber =>
      match value with
      | BNum a => match stored with BNum s => Done (BNum (Qplus s a)) | _ => Panic site_type_number_left end
      | _ => Panic site_type_number_right
      end
  | QTRange =>
      match value with
      | BRange a b =>
          match stored with
          | BRange s e => Done (BRange (Qplus s a) (Qplus e b))
          | _ => Panic site_type_range_left
          end
      | _ => Panic site_type_range_right
      end
  | QTText =>
      match value with
      | BText a => match stored with BText s => Done (BText (s ++ a)) | _ => Panic site_type_text_left end
      | _ => Panic site_type_text_right
      end
  | QTEmpty => Done stored
  end.

(* left.entry(key).and_modify(..).or_insert(value) (268-309) *)
Fixpoint gq_upsert (l : gq) (k : gkey) (value : bvalue) : outcome gq :=
  match l with
  | [] => Done [(k, value)]
  | (k', v) :: r =>
      if gkey_eqb k' k then obind (merge_value k v value) (fun v' => Done ((k', v') :: r))
      else obind (gq_upsert r k value) (fun r' => Done ((k', v) :: r'))
  end.

(* merge_grouped_quantities (249-311): `right` in the order its map iterates *)
Fixpoint merge_grouped_quantities (left right : gq) : outcome gq :=
  match right with
  | [] => Done left
  | (k, v) :: r => obind (gq_upsert left k v) (fun l => merge_grouped_quantities l r)
  end.

(* add_to_ingredient_list (224-234) *)
Fixpoint add_to_ingredient_list (l : ilist) (name : str) (q : gq) : outcome ilist :=
  match l with
  | [] => Done [(name, q)]
  | (n, g) :: r =>
      if str_eqb n name then obind (merge_grouped_quantities g q) (fun g' => Done ((n, g') :: r))
      else obind (add_to_ingredient_list r name q) (fun r' => Done ((n, g) :: r'))
  end.

(* merge_ingredient_lists (237-245; public, not exported): entry(name).or_default() then merge *)
Fixpoint ilist_merge_entry (l : ilist) (name : str) (q : gq) : outcome ilist :=
  match l with
  | [] => obind (merge_grouped_quantities [] q) (fun g' => Done [(name, g')])
  | (n, g) :: r =>
      if str_eqb n name then obind (merge_grouped_quantities g q) (fun g' => Done ((n, g') :: r))
      else obind (ilist_merge_entry r name q) (fun r' => Done ((n, g) :: r'))
  end.
Fixpoint merge_ingredient_lists (left right : ilist) : outcome ilist :=
  match right with
  | [] => Done left
  | (n, g) :: r => obind (ilist_merge_entry left n g) (fun l => merge_ingredient_lists l r)
  end.

(* expand_with_ingredients (211-221) *)
Fixpoint expand_with_ingredients (ings : list bing) (base : ilist) (addition : list N) : outcome ilist :=
  match addition with
  | [] => Done base
  | idx :: r =>
      match nth_N ings idx with
      | None => Panic site_expand_unwrap
      | Some ing =>
          obind (add_to_ingredient_list base (bi_name ing) (into_group_quantity (bi_amount ing)))
                (fun b => expand_with_ingredients ings b r)
      end
  end.

(* lib.rs 107-117 *)
Definition combine_ingredients_selected (ings : list bing) (indices : list N) : outcome ilist :=
  expand_with_ingredients ings [] indices.

(* lib.rs 101-105: (0..len).map(|i| i as u32) *)
Definition all_indices (n : nat) : list N := map (fun i => as_u32 (N.of_nat i)) (seq 0 n).
Definition combine_ingredients (ings : list bing) : outcome ilist :=
  combine_ingredients_selected ings (all_indices (length ings)).

(* ------------------------------------------------------------------ reading maps *)

Fixpoint gq_get (l : gq) (k : gkey) : option bvalue :=
  match l with
  | [] => None
  | (k', v) :: r => if gkey_eqb k' k then Some v else gq_get r k
  end.
Fixpoint ilist_get (l : ilist) (name : str) : option gq :=
  match l with
  | [] => None
  | (n, g) :: r => if str_eqb n name then Some g else ilist_get r name
  end.
(* the amount listed for ingredient [name] under (unit, kind) [k] *)
Definition lookup2 (l : ilist) (name : str) (k : gkey) : option bvalue :=
  match ilist_get l name with Some g => gq_get g k | None => None end.
