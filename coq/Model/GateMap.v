(* C02: which model function and flag test renders each place where the Rust code touches an Extensions value.

   Gen/GateSites.v is REGENERATED from the non-test code of /repo/src/**/*.rs on every run of the C02 check
   (gen/gen_gates.py) and pinned by C02_gate_inventory (Properties/C02.v).  [table] has one row per inventory
   KEY of the inventory ([GateSites.keys]: gate = fn consults flag, carry, const), in the same (sorted) order:
     Gate flag rendering witness   a flag test of the Rust code; [rendering] names the Gallina function and the
                                   test that models it, [witness] IS that function (so the name in the string
                                   cannot outlive the function it talks about)
     Carrier how                   the set is declared, stored or handed on unchanged: nothing is decided here
     NotAGate why                  a construction: the definition of the constants, the default set, the two
                                   convenience constructors
   The row classes are read off the source by hand; what is checked by computation: the table covers the
   inventory entry by entry ([table_covers_inventory]), a Gate row names one of the eight flags of Gen/ExtBits.v and
   that flag is one the source text of the entry mentions, every entry of the parser or of the analysis that
   mentions a flag is a Gate row, and each of the eight flags has a Gate row in the parser or in the analysis
   ([table_checks]).  A new or edited gate in the source therefore has no row until somebody reads it. *)
From Coq Require Import List String Bool NArith.
From CL Require Import Gen.GateSites Gen.ExtBits.
From CL Require Model.Parser Model.Analysis.
Import ListNotations.
Local Open Scope string_scope.

Definition witness : Type := {T : Type & T}.
Definition wit {T : Type} (x : T) : witness := existT (fun T => T) T x.

Inductive role : Type :=
| Gate (flag : string) (rendering : string) (w : witness)
| Carrier (how : string)
| NotAGate (why : string).

(* the eight flags by name, with the values read from src/lib.rs (a constant that disappears from
   Gen/ExtBits.v breaks this definition) *)
Definition flags : list (string * N) := [
  ("COMPONENT_MODIFIERS", X_COMPONENT_MODIFIERS);
  ("COMPONENT_ALIAS", X_COMPONENT_ALIAS);
  ("ADVANCED_UNITS", X_ADVANCED_UNITS);
  ("MODES", X_MODES);
  ("INLINE_QUANTITIES", X_INLINE_QUANTITIES);
  ("RANGE_VALUES", X_RANGE_VALUES);
  ("TIMER_REQUIRES_TIME", X_TIMER_REQUIRES_TIME);
  ("INTERMEDIATE_PREPARATIONS", X_INTERMEDIATE_PREPARATIONS)].

Module Parser := CL.Model.Parser.
Module Analysis := CL.Model.Analysis.

Definition table : list (GateSites.key * role) := [
  (("carry", "analysis/event_consumer", "parse_events",
    ""),
   Carrier
     "RecipeCollector stores the set: the [x : aext] section variable of Model/Analysis.v (Section Collector)");
  (("carry", "analysis/event_consumer", "struct RecipeCollector",
    ""),
   Carrier
     "RecipeCollector stores the set: the [x : aext] section variable of Model/Analysis.v (Section Collector)");
  (("carry", "lib", "-",
    ""),
   NotAGate
     "the default set (all): a choice of the caller, the theorems quantify over every set");
  (("carry", "lib", "CooklangParser::canonical",
    ""),
   NotAGate
     "a constructor choosing a set (all / empty): a choice of the caller, the theorems quantify over every set");
  (("carry", "lib", "CooklangParser::extended",
    ""),
   NotAGate
     "a constructor choosing a set (all / empty): a choice of the caller, the theorems quantify over every set");
  (("carry", "lib", "CooklangParser::extensions",
    ""),
   Carrier
     "CooklangParser stores the set it is given / returns it (getter): nothing is decided");
  (("carry", "lib", "CooklangParser::new",
    ""),
   Carrier
     "CooklangParser stores the set it is given / returns it (getter): nothing is decided");
  (("carry", "lib", "CooklangParser::parse_metadata_with_options",
    ""),
   Carrier
     "the same set goes to the pull parser (p_ext of the pcfg of Parser.events) and to the analysis (aext_of (p_ext c), Proofs/C02Pipeline.v)");
  (("carry", "lib", "CooklangParser::parse_with_options",
    ""),
   Carrier
     "the same set goes to the pull parser (p_ext of the pcfg of Parser.events) and to the analysis (aext_of (p_ext c), Proofs/C02Pipeline.v)");
  (("carry", "lib", "Extensions::default",
    ""),
   NotAGate
     "the default set (all): a choice of the caller, the theorems quantify over every set");
  (("carry", "lib", "struct CooklangParser",
    ""),
   Carrier
     "CooklangParser stores the set it is given / returns it (getter): nothing is decided");
  (("carry", "parser/block_parser", "BlockParser::extension",
    ""),
   Carrier
     "the one accessor of the parser, self.extensions.contains(ext): Parser.has x = ext_has (p_ext cfg) x; every parser gate goes through it");
  (("carry", "parser/block_parser", "BlockParser::new",
    ""),
   Carrier
     "the set reaches the block parser unchanged: p_ext of the one pcfg every function of Model/Parser.v reads through [has]");
  (("carry", "parser/block_parser", "struct BlockParser",
    ""),
   Carrier
     "the set reaches the block parser unchanged: p_ext of the one pcfg every function of Model/Parser.v reads through [has]");
  (("carry", "parser/mod", "PullParser::new",
    ""),
   Carrier
     "the set reaches the block parser unchanged: p_ext of the one pcfg every function of Model/Parser.v reads through [has]");
  (("carry", "parser/mod", "PullParser::next_block",
    ""),
   Carrier
     "the set reaches the block parser unchanged: p_ext of the one pcfg every function of Model/Parser.v reads through [has]");
  (("carry", "parser/mod", "PullParser::next_metadata_block",
    ""),
   Carrier
     "the set reaches the block parser unchanged: p_ext of the one pcfg every function of Model/Parser.v reads through [has]");
  (("carry", "parser/mod", "struct PullParser",
    ""),
   Carrier
     "the set reaches the block parser unchanged: p_ext of the one pcfg every function of Model/Parser.v reads through [has]");
  (("const", "lib", "bitflags!",
    "const ADVANCED_UNITS = 1 << 5"),
   NotAGate
     "definition of the constant: Gen/ExtBits.v X_ADVANCED_UNITS, regenerated on every run (gen/gen_consts.py); C02_subsets_192 counts the sets over these values");
  (("const", "lib", "bitflags!",
    "const COMPAT = Self::COMPONENT_MODIFIERS.bits() | Self::COMPONENT_ALIAS.bits() | Self::ADVANCED_UNITS.bits() | Self::MODES.bits() | Self::INLINE_QUANTITIES.bits() | Self::RANGE_VALUES.bits() | Self::INTERMEDIATE_PREPARATIONS.bits()"),
   NotAGate
     "definition of the constant: Gen/ExtBits.v X_COMPAT, regenerated on every run (gen/gen_consts.py); not one of the eight flags, never consulted by the crate");
  (("const", "lib", "bitflags!",
    "const COMPONENT_ALIAS = 1 << 3"),
   NotAGate
     "definition of the constant: Gen/ExtBits.v X_COMPONENT_ALIAS, regenerated on every run (gen/gen_consts.py); C02_subsets_192 counts the sets over these values");
  (("const", "lib", "bitflags!",
    "const COMPONENT_MODIFIERS = 1 << 1"),
   NotAGate
     "definition of the constant: Gen/ExtBits.v X_COMPONENT_MODIFIERS, regenerated on every run (gen/gen_consts.py); C02_subsets_192 counts the sets over these values");
  (("const", "lib", "bitflags!",
    "const INLINE_QUANTITIES = 1 << 7"),
   NotAGate
     "definition of the constant: Gen/ExtBits.v X_INLINE_QUANTITIES, regenerated on every run (gen/gen_consts.py); C02_subsets_192 counts the sets over these values");
  (("const", "lib", "bitflags!",
    "const INTERMEDIATE_PREPARATIONS = 1 << 11 | Self::COMPONENT_MODIFIERS.bits()"),
   NotAGate
     "definition of the constant: Gen/ExtBits.v X_INTERMEDIATE_PREPARATIONS, regenerated on every run (gen/gen_consts.py); the COMPONENT_MODIFIERS bit it includes is read from the source, see ext_sets_intermediate_implies_modifiers in C02_subsets_192");
  (("const", "lib", "bitflags!",
    "const MODES = 1 << 6"),
   NotAGate
     "definition of the constant: Gen/ExtBits.v X_MODES, regenerated on every run (gen/gen_consts.py); C02_subsets_192 counts the sets over these values");
  (("const", "lib", "bitflags!",
    "const RANGE_VALUES = 1 << 9"),
   NotAGate
     "definition of the constant: Gen/ExtBits.v X_RANGE_VALUES, regenerated on every run (gen/gen_consts.py); C02_subsets_192 counts the sets over these values");
  (("const", "lib", "bitflags!",
    "const TIMER_REQUIRES_TIME = 1 << 10"),
   NotAGate
     "definition of the constant: Gen/ExtBits.v X_TIMER_REQUIRES_TIME, regenerated on every run (gen/gen_consts.py); C02_subsets_192 counts the sets over these values");
  (("const", "lib", "bitflags!",
    "struct Extensions: u32"),
   NotAGate
     "the type: a word of 32 bits; the models carry it as N (p_ext, ext_has e x = (N.land e x =? x))");
  (("gate", "analysis/event_consumer", "RecipeCollector::in_step",
    "INLINE_QUANTITIES"),
   Gate "INLINE_QUANTITIES"
     "Analysis.in_step: x_inline x (aext_of: ext_has e X_INLINE_QUANTITIES)"
     (wit (@Analysis.in_step)));
  (("gate", "analysis/event_consumer", "RecipeCollector::ingredient",
    "ADVANCED_UNITS"),
   Gate "ADVANCED_UNITS"
     "Analysis.ingredient: x_advanced x, last argument of link_reference (aext_of: ext_has e X_ADVANCED_UNITS)"
     (wit (@Analysis.ingredient)));
  (("gate", "analysis/event_consumer", "RecipeCollector::metadata",
    "MODES"),
   Gate "MODES"
     "Analysis.metadata: x_modes x && key in brackets (aext_of: ext_has e X_MODES)"
     (wit (@Analysis.metadata)));
  (("gate", "analysis/event_consumer", "RecipeCollector::timer",
    "ADVANCED_UNITS"),
   Gate "ADVANCED_UNITS"
     "Analysis.timer: x_advanced x && (text value or unit not of class time)"
     (wit (@Analysis.timer)));
  (("gate", "parser/mod", "parse_block",
    "MODES"),
   Gate "MODES"
     "Parser.meta_kept: (is_config_key key && has X_MODES) || old_style"
     (wit (@Parser.meta_kept)));
  (("gate", "parser/quantity", "parse_quantity",
    "ADVANCED_UNITS"),
   Gate "ADVANCED_UNITS"
     "Parser.parse_quantity: if has X_ADVANCED_UNITS then parse_advanced_quantity first"
     (wit (@Parser.parse_quantity)));
  (("gate", "parser/quantity", "range_value",
    "RANGE_VALUES"),
   Gate "RANGE_VALUES"
     "Parser.range_value: if negb (has X_RANGE_VALUES) then None"
     (wit (@Parser.range_value)));
  (("gate", "parser/step", "check_alias",
    "COMPONENT_ALIAS"),
   Gate "COMPONENT_ALIAS"
     "Parser.timer_p: if has X_COMPONENT_ALIAS then error D_ALIAS_NOT_ALLOWED at the first `|` (check_alias inlined at its one caller)"
     (wit (@Parser.timer_p)));
  (("gate", "parser/step", "modifiers",
    "COMPONENT_MODIFIERS"),
   Gate "COMPONENT_MODIFIERS"
     "Parser.modifiers: if negb (has X_COMPONENT_MODIFIERS) then ret []"
     (wit (@Parser.modifiers)));
  (("gate", "parser/step", "modifiers",
    "INTERMEDIATE_PREPARATIONS"),
   Gate "INTERMEDIATE_PREPARATIONS"
     "Parser.modifiers_loop: after `&`: if has X_INTERMEDIATE_PREPARATIONS then with_recover (..)"
     (wit (@Parser.modifiers_loop)));
  (("gate", "parser/step", "parse_alias",
    "COMPONENT_ALIAS"),
   Gate "COMPONENT_ALIAS"
     "Parser.parse_alias: if has X_COMPONENT_ALIAS then position of the first `|` else None"
     (wit (@Parser.parse_alias)));
  (("gate", "parser/step", "parse_modifiers",
    "INTERMEDIATE_PREPARATIONS"),
   Gate "INTERMEDIATE_PREPARATIONS"
     "Parser.parse_mods_loop: tk_eqb (kind t) KAnd && has X_INTERMEDIATE_PREPARATIONS"
     (wit (@Parser.parse_mods_loop)));
  (("gate", "parser/step", "timer",
    "TIMER_REQUIRES_TIME"),
   Gate "TIMER_REQUIRES_TIME"
     "Parser.timer_p: quantity is None: if has X_TIMER_REQUIRES_TIME then error D_TIMER_NO_TIME"
     (wit (@Parser.timer_p)))
].

(* ---- the checks ---- *)
Definition mem (s : string) (l : list string) : bool := existsb (String.eqb s) l.
Definition key_class (k : GateSites.key) : string := let '(c, _, _, _) := k in c.
Definition key_file (k : GateSites.key) : string := let '(_, f, _, _) := k in f.
Definition key_detail (k : GateSites.key) : string := let '(_, _, _, d) := k in d.
Definition starts_with (p s : string) : bool := String.eqb p (String.substring 0 (String.length p) s).
(* the two stages the property is about: src/parser/** and src/analysis/** *)
Definition in_stage (k : GateSites.key) : bool :=
  starts_with "parser/" (key_file k) || starts_with "analysis/" (key_file k).
Definition is_gate_for (f : string) (r : role) : bool :=
  match r with Gate g _ _ => String.eqb f g | _ => false end.
Definition is_gate (r : role) : bool := match r with Gate _ _ _ => true | _ => false end.

(* a Gate row names an existing flag, and one the entry's source text mentions *)
Definition gates_name_flags : bool :=
  forallb (fun row => match snd row with
                      | Gate f _ _ => mem f (map fst flags) && String.eqb f (key_detail (fst row)) && String.eqb (key_class (fst row)) "gate"
                      | _ => true
                      end) table.
(* in the parser and the analysis, an entry that mentions a flag is a gate (not explained away) *)
Definition stage_flag_entries_are_gates : bool :=
  forallb (fun row => if String.eqb (key_class (fst row)) "gate" then is_gate (snd row) else true) table.
(* each of the eight flags is consulted somewhere in the parser or in the analysis *)
Definition every_flag_gated : bool :=
  forallb (fun f => existsb (fun row => in_stage (fst row) && is_gate_for (fst f) (snd row)) table) flags.
(* the eight names are distinct and their values are the eight generators of the 192 sets *)
Definition flag_values_distinct : bool :=
  Nat.eqb (List.length flags) 8 && Nat.eqb (List.length (nodup N.eq_dec (map snd flags))) 8
  && Nat.eqb (List.length (nodup string_dec (map fst flags))) 8.

Lemma table_covers_inventory : map fst table = GateSites.keys.
Proof. reflexivity. Qed.

Lemma table_checks :
  gates_name_flags && stage_flag_entries_are_gates && every_flag_gated && flag_values_distinct = true.
Proof. vm_compute. reflexivity. Qed.

Lemma mem_In : forall s l, mem s l = true -> In s l.
Proof.
  unfold mem. intros s l H. rewrite existsb_exists in H. destruct H as [x [H E]].
  apply String.eqb_eq in E. subst. exact H.
Qed.

Lemma table_checks_spec :
  (forall row, In row table ->
     match snd row with
     | Gate f _ _ => In f (map fst flags) /\ key_detail (fst row) = f /\ key_class (fst row) = "gate"
     | _ => True
     end) /\
  (forall row, In row table -> key_class (fst row) = "gate" -> is_gate (snd row) = true) /\
  (forall f, In f (map fst flags) ->
     exists row, In row table /\ in_stage (fst row) = true /\ is_gate_for f (snd row) = true).
Proof.
  pose proof table_checks as H.
  apply andb_prop in H. destruct H as [H _].
  apply andb_prop in H. destruct H as [H H3].
  apply andb_prop in H. destruct H as [H1 H2].
  split; [|split].
  - intros row Hin. unfold gates_name_flags in H1. rewrite forallb_forall in H1. specialize (H1 row Hin).
    destruct (snd row); auto. apply andb_prop in H1. destruct H1 as [H1 Hc]. apply andb_prop in H1. destruct H1 as [Ha Hb].
    split; [apply mem_In; assumption|]. split.
    + apply String.eqb_eq in Hb. symmetry. exact Hb.
    + apply String.eqb_eq in Hc. exact Hc.
  - intros row Hin Hs. unfold stage_flag_entries_are_gates in H2. rewrite forallb_forall in H2.
    specialize (H2 row Hin). rewrite Hs in H2. exact H2.
  - intros f Hf. unfold every_flag_gated in H3. rewrite forallb_forall in H3.
    apply in_map_iff in Hf. destruct Hf as [p [E Hp]]. specialize (H3 p Hp).
    rewrite existsb_exists in H3. destruct H3 as [row [Hr Hb]]. apply andb_prop in Hb. destruct Hb.
    exists row. subst f. auto.
Qed.

Definition gate_rows : list (GateSites.key * role) := filter (fun row => is_gate (snd row)) table.
