(* The diagnostics of the analysis pass (C07): which SourceDiag RecipeCollector pushes for an
   event, with its severity and its labels in order.

   Source: /repo/src/analysis/event_consumer.rs - every `self.ctx.error(..)`, `self.ctx.warn(..)`
   and `self.ctx.push(..)` of the file.  Line numbers are those of 17e6a01, the numbering of
   [AnalysisLabels.label_sites]; the repair 200c896 (in_text copies a component without its
   comments) moved everything after line 581 down by 15 and touched no diagnostic; the repair
   45a4888 (a front matter error that serde_yaml does not locate is labelled with the whole front
   matter text instead of not at all: [fm_fallback]) rewrote 243-250:
     process_frontmatter 235-338   (243-250 error, after 45a4888: 243-249; 283-293, 320-333 warnings)
     metadata 340-453              (344-350 -> 365, 370 error; 374-381, 432-439 warnings)
     time_override_check 455-499   (489-498 warning)
     in_step 501-560               (510-513 warning)
     in_text 562-585               (579-580 warning)
     ingredient 587-779            (615-624, 628 errors; 688-695 warning; 702-707, 727-731 errors; 751-755 warning)
     resolve_intermediate_ref 781-901 (795, 802, 812 errors)
     cookware 903-981              (927-932, 943-947 errors; 967-971 warning)
     timer 983-1028                (991, 1001, 1011 errors)
     value 1042-1070               (1054-1065 warning)
     resolve_reference 1072-1228   (1123, 1205, 1212 errors; 1135, 1140, 1154 warnings)
     parse_events 220-230          (the `>>` deprecation notice)
   and the helpers note_reference_error 1426-1447, conflicting_reference_quantity_error 1449-1467,
   text_val_in_ref_warn 1469-1484.  The macros error!/warning! (19-43) fix stage Analysis and the
   severity; `ctx.error`/`ctx.warn` assert that severity (error.rs:208-216).

   This is a DECORATION of Model/Analysis.v, not a second collector: the state transition is
   [Analysis.step] on the bridged event ([EventBridge.abstract_event]); [ediags] computes, from
   the state BEFORE the event and the event with all its spans ([Parser.pevent]), the diagnostics
   pushed while the event is processed, in order.  What the collector keeps only for diagnostics
   is added to the state: self.locations (the located components seen so far, the located time
   entries) and old_style_metadata_used.  [dstep_errors] (Proofs/DiagPlaced.v) proves that the
   bit a_errors of Model/Analysis.v - the one compared with the implementation by the L-rec
   correspondence - is exactly "one of these diagnostics has severity Error".

   Every label carries the source line of its site in [AnalysisLabels.label_sites]
   ([labels_from_sites] in Proofs/DiagPlaced.v: each is produced by that site's form).

   Not modelled: message wording, hints, sources; ParseOptions is the default one (no
   metadata_validator: 259-273, 401-411; no recipe_ref_check: 765-773 - the three `ctx.push` of
   user-made diagnostics); old_style_metadata (only decides what goes into the metadata map).

   External code is an oracle (Section variables), beside those of Model/Analysis.v:
     yaml_err_index  serde_yaml Error::location().index() of a rejected front matter (None: no location)
     yaml_std_bad    the string keys of the accepted mapping, in iteration order, that are standard
                     keys whose value check_std_entry rejects (278-294)
     yaml_has_key    yaml_map.contains_key(k) (302-309)
     std_check       check_std_entry accepts the old-style entry (key_t, String(value_t)) (420-426)
     is_alnum        char::is_alphanumeric
     unit_pq         converter.find_unit(u).map(|u| u.physical_quantity) (quantity.rs:315-316) *)
From Coq Require Import ZArith.
From CL Require Import Model.Parser Model.Diag Model.EventBridge Model.AnalysisLabels.
From CL Require Model.Analysis.
Open Scope N_scope.

(* ---- the diagnostics: one constructor per error!/warning! expression (helpers once) ---- *)
Inductive akind :=
| KYamlError            (* 243  error!(err.to_string()) [+ label 248] *)
| KStdEntryYaml         (* 283  warning "Unsupported value for key" (front matter) *)
| KTimeOverridenYaml    (* 320  warning "Time overriden" *)
| KInvalidConfigValue   (* 344  error "Invalid value for config key", pushed at 365 / 370 *)
| KUnknownConfigKey     (* 374  warning "Unknown config metadata key" *)
| KStdEntryMeta         (* 432  warning "Unsupported value for key" (`>>` entry) *)
| KTimeOverridden       (* 489  warning "Time overridden" *)
| KIgnoredText          (* 510  warning "Ignoring text in define components mode" *)
| KIgnoredComponent     (* 580  warning "Ignoring .. in text mode" *)
| KInterModifiers       (* 616  error "Conflicting modifiers with intermediate preparation reference" *)
| KIncompatibleUnits    (* 689  warning "Incompatible units prevent calculating total amount" *)
| KNoteOnReference      (* 1434 error "Note not allowed in reference" (702, 927) *)
| KConflictQuantity     (* 1454 error "Conflicting component reference quantities" (727, 943) *)
| KTextValueInRef       (* 1474 warning "Text value may prevent calculating total amount" (751, 967) *)
| KInterZero            (* 795 / 802 error "number is 0" / "relative reference to self" *)
| KInterBounds          (* 812  error "value out of bounds" (830, 852, 867, 884) *)
| KTimerValueText       (* 991  error "Timer value is text" *)
| KTimerUnitNotTime     (* 1001 error "Timer unit is not time" *)
| KTimerUnitUnknown     (* 1011 error "Unknown timer unit" *)
| KScalingLock          (* 1054 warning "Unnecessary scaling lock modifier" *)
| KConflictModifiers    (* 1093 error "Unsupported modifier combination with reference" (1123, 1205) *)
| KRedundantModifier    (* 1105 warning "Redundant .. modifier" (1135, 1140, 1154) *)
| KRefNotFound          (* 1213 error "Reference not found" *)
| KDeprecated.          (* 222  warning "The '>>' syntax for metadata is deprecated" *)

Definition all_kinds : list akind :=
  [KYamlError; KStdEntryYaml; KTimeOverridenYaml; KInvalidConfigValue; KUnknownConfigKey; KStdEntryMeta;
   KTimeOverridden; KIgnoredText; KIgnoredComponent; KInterModifiers; KIncompatibleUnits; KNoteOnReference;
   KConflictQuantity; KTextValueInRef; KInterZero; KInterBounds; KTimerValueText; KTimerUnitNotTime;
   KTimerUnitUnknown; KScalingLock; KConflictModifiers; KRedundantModifier; KRefNotFound; KDeprecated].

(* error! / ctx.error  vs  warning! / ctx.warn *)
Definition kind_is_error (k : akind) : bool :=
  match k with
  | KYamlError | KInvalidConfigValue | KInterModifiers | KNoteOnReference | KConflictQuantity
  | KInterZero | KInterBounds | KTimerValueText | KTimerUnitNotTime | KTimerUnitUnknown
  | KConflictModifiers | KRefNotFound => true
  | _ => false
  end.

(* a diagnostic: its kind and its labels in order, each with the line of its label site *)
Record adiag := { ad_kind : akind; ad_labels : list (N * span) }.
Definition mk (k : akind) (l : list (N * span)) : adiag := {| ad_kind := k; ad_labels := l |}.
Definition ad_is_error (d : adiag) : bool := kind_is_error (ad_kind d).

Definition to_sdiag (d : adiag) : sdiag :=
  {| sd_sev := if ad_is_error d then SevError else SevWarning; sd_stage := StAnalysis;
     sd_labels := map snd (ad_labels d) |}.

(* ---- the state: Model/Analysis.v's, plus what the collector keeps for diagnostics only ---- *)
Record dstate := {
  ds_a : Analysis.astate;
  ds_iloc : list ingredient;          (* locations.ingredients *)
  ds_cloc : list cookware;            (* locations.cookware *)
  ds_used : list span;                (* old_style_metadata_used *)
  ds_time : option (text * text);     (* locations.metadata[Time], [PrepTime], [CookTime] *)
  ds_prep : option (text * text);
  ds_cook : option (text * text) }.

Definition dinit : dstate :=
  {| ds_a := Analysis.init; ds_iloc := []; ds_cloc := []; ds_used := [];
     ds_time := None; ds_prep := None; ds_cook := None |}.

(* behaviour switches: [fm_fallback] false = the code before the repair 45a4888 (DESIGN.md section 7):
   `if let Some(loc) = err_span { diag = diag.label(..) }` left the front matter error without any
   label when serde_yaml gave no location; true = the code as it is now:
   `.unwrap_or_else(|| yaml_text.span())` *)
Record dcfg := { fm_fallback : bool }.
Definition dcfg_now : dcfg := {| fm_fallback := true |}.
Definition dcfg_before_45a4888 : dcfg := {| fm_fallback := false |}.

(* panic sites of the diagnostic code proper (the rest are those of Model/Analysis.v) *)
Definition site_loc_index : N := 636.     (* self.locations.ingredients[..] 636, 652; cookware 923 *)
Definition site_loc_quantity : N := 652.  (* ..quantity.as_ref().unwrap() 652, 658, 742, 743, 958, 959 *)

(* ---- the bridged components (the records of [abstract_event]) ---- *)
Definition abs_ing (i : ingredient) : Events.p_ingredient :=
  {| Events.pi_span := i_span i; Events.pi_mods := Events.mods_of_bits (i_mods i);
     Events.pi_inter := option_map abstract_inter (i_inter i);
     Events.pi_name := abstract_text (i_name i); Events.pi_alias := option_map abstract_text (i_alias i);
     Events.pi_quantity := option_map abstract_quantity (i_qty i); Events.pi_note := option_map abstract_text (i_note i) |}.

Definition abs_cw (c : cookware) : Events.p_cookware :=
  {| Events.pc_span := c_span c; Events.pc_mods := Events.mods_of_bits (c_mods c);
     Events.pc_name := abstract_text (c_name c); Events.pc_alias := option_map abstract_text (c_alias c);
     Events.pc_quantity := option_map (fun q => abstract_qvalue (fst q)) (c_qty c);
     Events.pc_note := option_map abstract_text (c_note c) |}.

Definition abs_timer (t : timer) : Events.p_timer :=
  {| Events.pt_span := t_span t; Events.pt_name := option_map abstract_text (t_name t);
     Events.pt_quantity := option_map abstract_quantity (t_qty t) |}.

(* the component built at 598-609 / 907-917 (the `new` of Analysis.ingredient / Analysis.cookware) *)
Definition ing_new (s : Analysis.astate) (ig : Events.p_ingredient) : Analysis.component :=
  let name0 := PText.text_trimmed (Events.pi_name ig) in
  let isp := Analysis.is_path_name name0 in
  {| Analysis.c_name := if isp then Analysis.last_segment name0 [] else name0;
     Analysis.c_alias := option_map PText.text_trimmed (Events.pi_alias ig);
     Analysis.c_qty := option_map (Analysis.quantity_info true) (Events.pi_quantity ig);
     Analysis.c_note := option_map PText.text_trimmed (Events.pi_note ig); Analysis.c_rref := isp;
     Analysis.c_mods := Events.pi_mods ig;
     Analysis.c_rel := Analysis.RDef [] (negb (Analysis.dm_eqb (Analysis.a_define s) Analysis.DMComponents)) |}.

Definition cw_new (s : Analysis.astate) (cw : Events.p_cookware) : Analysis.component :=
  {| Analysis.c_name := PText.text_trimmed (Events.pc_name cw);
     Analysis.c_alias := option_map PText.text_trimmed (Events.pc_alias cw);
     Analysis.c_qty := option_map (Analysis.value_info false) (Events.pc_quantity cw);
     Analysis.c_note := option_map PText.text_trimmed (Events.pc_note cw); Analysis.c_rref := false;
     Analysis.c_mods := Events.pc_mods cw;
     Analysis.c_rel := Analysis.RDef [] (negb (Analysis.dm_eqb (Analysis.a_define s) Analysis.DMComponents)) |}.

(* ---- StdKey::from_str (metadata.rs:68-92), as far as the collector distinguishes the keys ---- *)
Inductive stdk := SKTime | SKPrep | SKCook | SKOther.

Definition s_title : str := [116;105;116;108;101].
Definition s_description : str := [100;101;115;99;114;105;112;116;105;111;110].
Definition s_introduction : str := [105;110;116;114;111;100;117;99;116;105;111;110].
Definition s_tags : str := [116;97;103;115].
Definition s_tag : str := [116;97;103].
Definition s_author : str := [97;117;116;104;111;114].
Definition s_source : str := [115;111;117;114;99;101].
Definition s_servings : str := [115;101;114;118;105;110;103;115].
Definition s_serves : str := [115;101;114;118;101;115].
Definition s_yield : str := [121;105;101;108;100].
Definition s_course : str := [99;111;117;114;115;101].
Definition s_category : str := [99;97;116;101;103;111;114;121].
Definition s_locale : str := [108;111;99;97;108;101].
Definition s_time : str := [116;105;109;101].
Definition s_duration : str := [100;117;114;97;116;105;111;110].
Definition s_time_required : str := [116;105;109;101;32;114;101;113;117;105;114;101;100].
Definition s_prep_time : str := [112;114;101;112;32;116;105;109;101].
Definition s_prep_time_u : str := [112;114;101;112;95;116;105;109;101].
Definition s_cook_time : str := [99;111;111;107;32;116;105;109;101].
Definition s_cook_time_u : str := [99;111;111;107;95;116;105;109;101].
Definition s_difficulty : str := [100;105;102;102;105;99;117;108;116;121].
Definition s_cuisine : str := [99;117;105;115;105;110;101].
Definition s_diet : str := [100;105;101;116].
Definition s_image : str := [105;109;97;103;101].
Definition s_images : str := [105;109;97;103;101;115].
Definition s_picture : str := [112;105;99;116;117;114;101].
Definition s_pictures : str := [112;105;99;116;117;114;101;115].

Definition mem_str (k : str) (l : list str) : bool := existsb (str_eqb k) l.

Definition std_key (k : str) : option stdk :=
  if mem_str k [s_time; s_duration; s_time_required] then Some SKTime
  else if mem_str k [s_prep_time; s_prep_time_u] then Some SKPrep
  else if mem_str k [s_cook_time; s_cook_time_u] then Some SKCook
  else if mem_str k [s_title; s_description; s_introduction; s_tags; s_tag; s_author; s_source; s_servings;
                     s_serves; s_yield; s_course; s_category; s_locale; s_difficulty; s_cuisine; s_diet;
                     s_image; s_images; s_picture; s_pictures] then Some SKOther
  else None.

(* ---- small helpers ---- *)
(* Span::new(key.span().start(), value.span().end()) *)
Definition join_kv (kv : text * text) : span := (fst (text_span (fst kv)), snd (text_span (snd kv))).

(* derive(PartialOrd, Ord) on Span { start, end } *)
Definition span_leb (a b : span) : bool := (fst a <? fst b) || ((fst a =? fst b) && (snd a <=? snd b)).

(* v.sort_unstable() on at most two spans *)
Definition sort2 (l : list span) : list span :=
  match l with
  | [a; b] => if span_leb a b then [a; b] else [b; a]
  | _ => l
  end.

Definition opt_list {A} (o : option A) : list A := match o with Some a => [a] | None => [] end.

(* unit.span() or, without a unit, quantity.span() (653-657, 659-663) *)
Definition uq_span (q : quantity) : span :=
  match q_unit q with Some u => text_span u | None => q_span q end.

(* Quantity::compatible_unit (quantity.rs:292-343): self = the earlier quantity, rhs = the new one *)
Inductive incompat := IcOk | IcNewMissing | IcOldMissing | IcDifferent | IcUnknown.

(* the line of the label pair chosen at 665-686 *)
Definition incompat_line (c : incompat) : N :=
  match c with IcNewMissing => 671 | IcOldMissing => 674 | IcDifferent => 681 | _ => 684 end.

Section DiagCollector.
Variable ci_key : str -> str.
Variable yaml_ok : str -> bool.
Variable find_iq : str -> option (str * str).
Variable unit_class : str -> N.
Variable input : str.
Variable x : Analysis.aext.
Variable cfg : Analysis.acfg.
Variable dc : dcfg.
Variable yaml_err_index : str -> option N.
Variable yaml_std_bad : str -> list str.
Variable yaml_has_key : str -> str -> bool.
Variable std_check : str -> str -> bool.
Variable is_alnum : N -> bool.
Variable unit_pq : str -> option N.

Definition compatible_unit (old new : option str) : incompat :=
  match old, new with
  | None, None => IcOk
  | None, Some _ => IcOldMissing            (* MissingUnit { lhs: false } *)
  | Some _, None => IcNewMissing            (* MissingUnit { lhs: true } *)
  | Some a, Some b =>
      match unit_pq a, unit_pq b with
      | Some p, Some q => if p =? q then IcOk else IcDifferent
      | _, _ => if str_eqb a b then IcOk else IcUnknown
      end
  end.

(* ---- process_frontmatter (235-338) ---- *)
Definition key_label (line : N) (t : text) (key : str) : outcome (list (N * span)) :=
  obind (yaml_find_key_position (text_str t) key) (fun p =>
    Done (match p with Some p => [(line, pos (fst (text_span t) + p))] | None => [] end)).

Fixpoint std_bad_diags (t : text) (keys : list str) : outcome (list adiag) :=
  match keys with
  | [] => Done []
  | k :: r => obind (key_label 290 t k) (fun l =>
              obind (std_bad_diags t r) (fun ds => Done (mk KStdEntryYaml l :: ds)))
  end.

Definition frontmatter_diags (t : text) : outcome (list adiag) :=
  let y := text_str t in
  if negb (yaml_ok y) then
    Done [mk KYamlError (match yaml_err_index y with
                         | Some i => [(248, pos (fst (text_span t) + i))]
                         | None => if fm_fallback dc then [(248, text_span t)] else []
                         end)]
  else
    obind (std_bad_diags t (yaml_std_bad y)) (fun d1 =>
    if yaml_has_key y s_time then
      let loc (line : N) (k : str) := if yaml_has_key y k then key_label line t k else Done [] in
      obind (loc 322 s_prep_time) (fun prep =>
      obind (loc 325 s_cook_time) (fun cook =>
      match prep ++ cook with
      | [] => Done d1
      | pc => obind (key_label 328 t s_time) (fun tm => Done (d1 ++ [mk KTimeOverridenYaml (pc ++ tm)]))
      end))
    else Done d1).

(* ---- metadata (340-453) and time_override_check (455-499) ---- *)
Definition invalid_value (k v : text) : adiag :=
  mk KInvalidConfigValue [(346, text_span v); (348, text_span k)].

(* the labels of the "Time overridden" warning: the overridden entries sorted, then the new one *)
Definition override_diags (overridden : list (text * text)) (new : text * text) : list adiag :=
  match sort2 (map join_kv overridden) with
  | [] => []
  | o :: rest => [mk KTimeOverridden ((491, o) :: map (fun e => (494, e)) rest ++ [(496, join_kv new)])]
  end.

(* what a `>>` entry does to the diagnostic part of the state, and what it reports *)
Definition metadata_diags (st : dstate) (k v : text) : dstate * list adiag :=
  let key_t := text_trimmed k in
  let value_t := text_outer_trimmed v in
  if Analysis.x_modes x && (match key_t with c :: _ => c =? 91 | [] => false end)
     && (match rev key_t with c :: _ => c =? 93 | [] => false end)
  then
    let config_key := removelast (tl key_t) in
    if str_eqb config_key Analysis.s_define || str_eqb config_key Analysis.s_mode then
      if str_eqb value_t Analysis.s_all || str_eqb value_t Analysis.s_default
         || str_eqb value_t Analysis.s_components || str_eqb value_t Analysis.s_ingredients
         || str_eqb value_t Analysis.s_steps || str_eqb value_t Analysis.s_text
      then (st, []) else (st, [invalid_value k v])
    else if str_eqb config_key Analysis.s_duplicate then
      if str_eqb value_t Analysis.s_new || str_eqb value_t Analysis.s_default
         || str_eqb value_t Analysis.s_reference || str_eqb value_t Analysis.s_ref
      then (st, []) else (st, [invalid_value k v])
    else (st, [mk KUnknownConfigKey [(376, text_span k)]])
  else
    let st1 := {| ds_a := ds_a st; ds_iloc := ds_iloc st; ds_cloc := ds_cloc st;
                  ds_used := ds_used st ++ [join_kv (k, v)];
                  ds_time := ds_time st; ds_prep := ds_prep st; ds_cook := ds_cook st |} in
    match std_key key_t with
    | None => (st1, [])
    | Some sk =>
        if negb (std_check key_t value_t) then
          (st1, [mk KStdEntryMeta [(434, text_span v); (436, text_span k)]])
        else
          match sk with
          | SKOther => (st1, [])
          | SKTime =>
              ({| ds_a := ds_a st1; ds_iloc := ds_iloc st1; ds_cloc := ds_cloc st1; ds_used := ds_used st1;
                  ds_time := Some (k, v); ds_prep := None; ds_cook := None |},
               override_diags (opt_list (ds_prep st) ++ opt_list (ds_cook st)) (k, v))
          | SKPrep =>
              ({| ds_a := ds_a st1; ds_iloc := ds_iloc st1; ds_cloc := ds_cloc st1; ds_used := ds_used st1;
                  ds_time := None; ds_prep := Some (k, v); ds_cook := ds_cook st |},
               override_diags (opt_list (ds_time st)) (k, v))
          | SKCook =>
              ({| ds_a := ds_a st1; ds_iloc := ds_iloc st1; ds_cloc := ds_cloc st1; ds_used := ds_used st1;
                  ds_time := None; ds_prep := ds_prep st; ds_cook := Some (k, v) |},
               override_diags (opt_list (ds_time st)) (k, v))
          end
    end.

(* ---- value (1042-1070): the scaling lock warning ---- *)
Definition value_diags (is_ingredient : bool) (v : qvalue) : list adiag :=
  let a := abstract_qvalue v in
  if Events.qv_lock a && (negb is_ingredient || Events.pvalue_is_text (Events.qv_value a))
  then [mk KScalingLock [(1056, qv_span v)]] else [].

(* ---- resolve_reference (1072-1228) ---- *)
Definition redundant (mods_loc : span) : adiag := mk KRedundantModifier [(1107, mods_loc)].

Definition rr_diags (s : Analysis.astate) (tbl : list Analysis.component) (inherit : Events.modifiers)
    (new : Analysis.component) (loc mods_loc : span) : list adiag :=
  let m := Analysis.c_mods new in
  let same := Analysis.same_name ci_key tbl (Analysis.c_name new) in
  let steps := Analysis.dm_eqb (Analysis.a_define s) Analysis.DMSteps in
  let dref := Analysis.dup_is_ref (Analysis.a_duplicate s) in
  if Events.m_new m && Events.m_ref m then [mk KConflictModifiers [(1095, mods_loc)]]           (* 1122-1129 *)
  else if Events.m_new m then                                                                   (* 1132-1147 *)
    if negb steps then
      if dref && negb (Events.is_some same) then [redundant mods_loc]
      else if negb dref then [redundant mods_loc] else []
    else []
  else
    let w := if (dref || steps) && Events.m_ref m then [redundant mods_loc] else [] in          (* 1150-1158 *)
    let treat := Events.m_ref m || steps || (dref && Events.is_some same) in
    if negb treat then w
    else
      match same with
      | Some j =>
          match nth_error tbl j with
          | None => w
          | Some referenced =>
              let inherited := Events.mods_and (Analysis.c_mods referenced) inherit in
              let conflict := Events.mods_diff (Events.mods_diff m inherited) Events.M_ref_only in
              w ++ (if negb (Events.mods_is_empty conflict) then [mk KConflictModifiers [(1095, mods_loc)]] else [])
          end
      | None => w ++ [mk KRefNotFound [(1215, loc)]]
      end.

(* ---- note_reference_error (1426-1447) ---- *)
Definition note_diag (l_note l_pos l_defnote : N) (note : text) (def_span : span) (def_note : option text) : adiag :=
  mk KNoteOnReference
     ((l_note, text_span note) ::
      match def_note with
      | Some n => [(l_defnote, text_span n)]
      | None => [(l_pos, pos (snd def_span))]
      end).

(* ---- the unit loop of 639-699 ---- *)
Fixpoint units_diags (tbl : list Analysis.component) (ilocs : list ingredient)
    (newq : quantity) (newu : option str) (idxs : list nat) : outcome (list adiag) :=
  match idxs with
  | [] => Done []
  | k :: r =>
      match nth_error tbl k with
      | None => Panic Analysis.site_units_index
      | Some c =>
          obind (match Analysis.c_qty c with
                 | None => Done []
                 | Some qi =>
                     match compatible_unit (Analysis.qi_unit qi) newu with
                     | IcOk => Done []
                     | ic =>
                         match nth_error ilocs k with
                         | None => Panic site_loc_index
                         | Some il =>
                             match i_qty il with
                             | None => Panic site_loc_quantity
                             | Some oq => Done [mk KIncompatibleUnits [(incompat_line ic, uq_span newq);
                                                                       (incompat_line ic, uq_span oq)]]
                             end
                         end
                     end
                 end) (fun d => obind (units_diags tbl ilocs newq newu r) (fun ds => Done (d ++ ds)))
      end
  end.

(* text_val_in_ref_warn (1469-1484) with the spans chosen at 745-749 / 961-965 *)
Definition text_val_diag (l_ref l_def : N) (ref_is_text : bool) (ref_q def_q : span) : adiag :=
  mk KTextValueInRef (if ref_is_text then [(l_ref, ref_q); (l_def, def_q)] else [(l_def, def_q); (l_ref, ref_q)]).

(* ---- resolve_intermediate_ref (781-901): the error it returns ---- *)
Definition inter_diag (d : interdata) : adiag :=
  if im_val d =? 0 then mk KInterZero [(if im_relative d then 804 else 797, im_span d)]
  else mk KInterBounds [(814, im_span d)].

(* ---- ingredient (587-779) ---- *)
Definition ingredient_diags (st : dstate) (i : ingredient) : outcome (list adiag) :=
  let s := ds_a st in
  let new := ing_new s (abs_ing i) in
  let tbl := Analysis.a_ingredients s in
  let lockd := match i_qty i with Some q => value_diags true (q_val q) | None => [] end in    (* 601 *)
  match i_inter i with
  | Some d =>
      let e1 := if Events.mods_intersects (Analysis.c_mods new) Analysis.inter_invalid
                then [mk KInterModifiers [(618, i_mods_span i)]] else [] in
      obind (Analysis.resolve_intermediate_ref s (abstract_inter d)) (fun r =>
        Done (lockd ++ e1 ++ match r with Some _ => [] | None => [inter_diag d] end))
  | None =>
      obind (Analysis.resolve_reference ci_key s tbl Analysis.inherit_ingredient new) (fun r =>
        let rd := rr_diags s tbl Analysis.inherit_ingredient new (i_span i) (i_mods_span i) in
        match Analysis.rs_target r with
        | None => Done (lockd ++ rd)
        | Some (j, _) =>
            match nth_error tbl j, nth_error (ds_iloc st) j with
            | None, _ => Panic Analysis.site_index_definition
            | _, None => Panic site_loc_index
            | Some def, Some dloc =>
                let newc := Analysis.rs_new r in
                obind (match i_qty i, Analysis.x_advanced x with                               (* 639-699 *)
                       | Some q, true =>
                           match Analysis.c_rel def with
                           | Analysis.RDef rf _ =>
                               units_diags tbl (ds_iloc st) q (option_map text_trimmed (q_unit q)) (j :: rf)
                           | Analysis.RRef _ _ => Panic Analysis.site_assert_is_definition
                           end
                       | _, _ => Done []
                       end) (fun ud =>
                let nd := match i_note i with                                                  (* 701-708 *)
                          | Some n => [note_diag 703 705 706 n (i_span dloc) (i_note dloc)]
                          | None => []
                          end in
                let dis := match Analysis.c_rel def with Analysis.RDef _ b => b | _ => true end in
                let qd := match i_qty i with                                                   (* 720-732 *)
                          | Some q =>
                              if Events.is_some (Analysis.c_qty def) && negb dis
                              then [mk KConflictQuantity [(728, q_span q); (729, i_span dloc)]] else []
                          | None => []
                          end in
                obind (match i_qty i, Analysis.c_qty def with                                  (* 735-757 *)
                       | Some q, Some dq =>
                           let rt := Events.pvalue_is_text (Events.qv_value (abstract_qvalue (q_val q))) in
                           if Bool.eqb rt (Analysis.qi_text dq) then Done []
                           else match i_qty dloc with
                                | Some dlq => Done [text_val_diag 742 743 rt (q_span q) (q_span dlq)]
                                | None => Panic site_loc_quantity
                                end
                       | _, _ => Done []
                       end) (fun td =>
                Done (lockd ++ rd ++ ud ++ nd ++ qd ++ td)))
            end
        end)
  end.

(* ---- cookware (903-981) ---- *)
Definition cookware_diags (st : dstate) (c : cookware) : outcome (list adiag) :=
  let s := ds_a st in
  let new := cw_new s (abs_cw c) in
  let tbl := Analysis.a_cookware s in
  let lockd := match c_qty c with Some (v, _) => value_diags false v | None => [] end in      (* 910 *)
  obind (Analysis.resolve_reference ci_key s tbl Analysis.inherit_cookware new) (fun r =>
    let rd := rr_diags s tbl Analysis.inherit_cookware new (c_span c) (c_mods_span c) in
    match Analysis.rs_target r with
    | None => Done (lockd ++ rd)
    | Some (j, _) =>
        match nth_error tbl j, nth_error (ds_cloc st) j with
        | None, _ => Panic Analysis.site_index_definition
        | _, None => Panic site_loc_index
        | Some def, Some dloc =>
            let nd := match c_note c with                                                      (* 926-933 *)
                      | Some n => [note_diag 928 930 931 n (c_span dloc) (c_note dloc)]
                      | None => []
                      end in
            let dis := match Analysis.c_rel def with Analysis.RDef _ b => b | _ => true end in
            let qd := match c_qty c with                                                       (* 936-948 *)
                      | Some (_, qsp) =>
                          if Events.is_some (Analysis.c_qty def) && negb dis
                          then [mk KConflictQuantity [(944, qsp); (945, c_span dloc)]] else []
                      | None => []
                      end in
            obind (match c_qty c, Analysis.c_qty def with                                      (* 951-973 *)
                   | Some (v, qsp), Some dq =>
                       let rt := Events.pvalue_is_text (Events.qv_value (abstract_qvalue v)) in
                       if Bool.eqb rt (Analysis.qi_text dq) then Done []
                       else match c_qty dloc with
                            | Some (_, dsp) => Done [text_val_diag 958 959 rt qsp dsp]
                            | None => Panic site_loc_quantity
                            end
                   | _, _ => Done []
                   end) (fun td =>
            Done (lockd ++ rd ++ nd ++ qd ++ td))
        end
    end).

(* ---- timer (983-1028) ---- *)
Definition timer_diags (t : timer) : list adiag :=
  match t_qty t with
  | None => []
  | Some q =>
      value_diags false (q_val q) ++                                                           (* 987 *)
      if Analysis.x_advanced x then
        (if Events.pvalue_is_text (Events.qv_value (abstract_qvalue (q_val q)))
         then [mk KTimerValueText [(993, qv_span (q_val q))]] else []) ++
        match q_unit q with
        | None => []
        | Some u =>
            let c := unit_class (text_trimmed u) in
            if c =? 1 then []
            else if c =? 0 then [mk KTimerUnitUnknown [(1013, text_span u)]]
            else [mk KTimerUnitNotTime [(1003, text_span u)]]
        end
      else []
  end.

(* ---- the diagnostics pushed while one event is processed (the loop of 124-215) ---- *)
Definition comp_span (ev : pevent) : span :=
  match ev with
  | EvIngredient i => i_span i | EvCookware c => c_span c | EvTimer t => t_span t | _ => (0, 0)
  end.

Definition ediags (st : dstate) (ev : pevent) : outcome (list adiag) :=
  let s := ds_a st in
  match ev with
  | EvYaml t => frontmatter_diags t
  | EvMetadata k v => Done (snd (metadata_diags st k v))
  | EvText t =>
      match Analysis.a_block s with
      | Some (Analysis.BStep _) =>                                                             (* in_step 503-516 *)
          if Analysis.dm_eqb (Analysis.a_define s) Analysis.DMComponents && existsb is_alnum (text_str t)
          then Done [mk KIgnoredText [(512, text_span t)]] else Done []
      | _ => Done []
      end
  | EvIngredient _ | EvCookware _ | EvTimer _ =>
      match Analysis.a_block s with
      | Some (Analysis.BStep _) =>
          match ev with
          | EvIngredient i => ingredient_diags st i
          | EvCookware c => cookware_diags st c
          | EvTimer t => Done (timer_diags t)
          | _ => Done []
          end
      | Some (Analysis.BText _) => Done [mk KIgnoredComponent [(580, comp_span ev)]]           (* in_text 565-581 *)
      | None => Done []
      end
  | _ => Done []
  end.

(* the diagnostic part of the state after the event; [s'] is the collector state after it *)
Definition dupd (st : dstate) (ev : pevent) (s' : Analysis.astate) : dstate :=
  let in_step := match Analysis.a_block (ds_a st) with Some (Analysis.BStep _) => true | _ => false end in
  match ev with
  | EvMetadata k v =>
      let st1 := fst (metadata_diags st k v) in
      {| ds_a := s'; ds_iloc := ds_iloc st1; ds_cloc := ds_cloc st1; ds_used := ds_used st1;
         ds_time := ds_time st1; ds_prep := ds_prep st1; ds_cook := ds_cook st1 |}
  | EvIngredient i =>
      {| ds_a := s'; ds_iloc := if in_step then ds_iloc st ++ [i] else ds_iloc st; ds_cloc := ds_cloc st;
         ds_used := ds_used st; ds_time := ds_time st; ds_prep := ds_prep st; ds_cook := ds_cook st |}
  | EvCookware c =>
      {| ds_a := s'; ds_iloc := ds_iloc st; ds_cloc := if in_step then ds_cloc st ++ [c] else ds_cloc st;
         ds_used := ds_used st; ds_time := ds_time st; ds_prep := ds_prep st; ds_cook := ds_cook st |}
  | _ =>
      {| ds_a := s'; ds_iloc := ds_iloc st; ds_cloc := ds_cloc st;
         ds_used := ds_used st; ds_time := ds_time st; ds_prep := ds_prep st; ds_cook := ds_cook st |}
  end.

(* one event: the collector's transition (Model/Analysis.v) and the diagnostics it pushes *)
Definition dstep (st : dstate) (ev : pevent) : outcome (dstate * list adiag) :=
  if Analysis.a_halted (ds_a st) then Done (st, []) else
  obind (Analysis.step ci_key yaml_ok find_iq unit_class input x cfg (ds_a st) (abstract_event ev)) (fun s' =>
  obind (ediags st ev) (fun ds => Done (dupd st ev s', ds))).

Fixpoint drun (st : dstate) (evs : list pevent) : outcome (dstate * list adiag) :=
  match evs with
  | [] => Done (st, [])
  | e :: r => obind (dstep st e) (fun a => obind (drun (fst a) r) (fun b => Done (fst b, snd a ++ snd b)))
  end.

(* the `>>` deprecation notice (220-230) *)
Definition dfinish (st : dstate) : list adiag :=
  match ds_used st with
  | [] => []
  | u => [mk KDeprecated (map (fun sp => (224, sp)) u)]
  end.

(* the two parameters of [Diag.collect] *)
Definition astep (st : dstate) (ev : pevent) : outcome (dstate * list sdiag) :=
  obind (dstep st ev) (fun r => Done (fst r, map to_sdiag (snd r))).
Definition afinish (st : dstate) : list sdiag := map to_sdiag (dfinish st).

End DiagCollector.
