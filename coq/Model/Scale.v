(* Model of /repo/src/scale.rs 111-336: ScalableRecipe::{scale, scale_to_servings,
   default_scale} and the Scale trait implementations, over an abstract recipe: the fields
   scaling only moves (names, aliases, notes, references, relations, modifiers, sections,
   metadata) are opaque "frame" values of arbitrary types.  Quantities, values, the
   converter and fit come from Model/Convert.v. *)
From CL Require Export Model.Convert.
Open Scope Q_scope.

(* ScalableValue, quantity.rs 26-32 *)
Inductive svalue := SFixed (v : value) | SLinear (v : value).
(* Quantity<ScalableValue> *)
Record squantity := { sq_value : svalue; sq_unit : option str }.

(* ScaleOutcome, scale.rs 66-77 (the payload of Error is dropped) *)
Inductive scale_outcome := OScaled | OFixed | ONoQuantity | OError.

Section Recipe.
  (* opaque frames: everything of an ingredient / cookware / recipe that is not a quantity *)
  Variables IF CF MF : Type.

  (* model.rs 174-189, 278-291, 536-549, 27-43 *)
  Record s_ingredient := { si_frame : IF; si_quantity : option squantity }.
  Record ingredient := { ig_frame : IF; ig_quantity : option quantity }.
  Record s_cookware := { sc_frame : CF; sc_quantity : option svalue }.
  Record cookware := { ck_frame : CF; ck_quantity : option value }.
  Record s_timer := { st_name : option str; st_quantity : option squantity }.
  Record timer := { tm_name : option str; tm_quantity : option quantity }.

  (* Scaled / ScaledData, scale.rs 40-63 (the target is its factor) *)
  Inductive scaled_data :=
  | DefaultScaling
  | Scaled (factor : Q) (ingredients cookware timers : list scale_outcome).

  Record s_recipe := {
    sr_frame : MF;                     (* metadata and sections *)
    sr_ingredients : list s_ingredient;
    sr_cookware : list s_cookware;
    sr_timers : list s_timer;
    sr_inline : list quantity;
    sr_servings : option (list N) }.   (* Servings *)

  Record recipe := {
    r_frame : MF;
    r_ingredients : list ingredient;
    r_cookware : list cookware;
    r_timers : list timer;
    r_inline : list quantity;
    r_data : scaled_data }.

  (* linear_scale, scale.rs 226-236; None = Err(TextValueError) *)
  Definition linear_scale (v : value) (factor : Q) : option value :=
    match v with
    | VNumber n => Some (VNumber (Regular (num_value n * factor)))
    | VRange s e => Some (VRange (Regular (num_value s * factor)) (Regular (num_value e * factor)))
    | VText _ => None
    end.

  (* Scale for ScalableValue, scale.rs 205-224 *)
  Definition value_scale (v : svalue) (factor : Q) : value * scale_outcome :=
    match v with
    | SFixed x => (x, OFixed)
    | SLinear x => match linear_scale x factor with
                   | Some y => (y, OScaled)
                   | None => (x, OError)
                   end
    end.
  Definition value_default (v : svalue) : value :=
    match v with SFixed x => x | SLinear x => x end.

  (* Scale for ScalableQuantity, scale.rs 238-255 *)
  Definition quantity_scale (q : squantity) (factor : Q) : quantity * scale_outcome :=
    let r := value_scale (sq_value q) factor in
    ({| q_value := fst r; q_unit := sq_unit q |}, snd r).
  Definition quantity_default (q : squantity) : quantity :=
    {| q_value := value_default (sq_value q); q_unit := sq_unit q |}.

  (* Scale for Ingredient, scale.rs 257-286 *)
  Definition ingredient_scale (i : s_ingredient) (factor : Q) : ingredient * scale_outcome :=
    match si_quantity i with
    | Some q => let r := quantity_scale q factor in
                ({| ig_frame := si_frame i; ig_quantity := Some (fst r) |}, snd r)
    | None => ({| ig_frame := si_frame i; ig_quantity := None |}, ONoQuantity)
    end.
  Definition ingredient_default (i : s_ingredient) : ingredient :=
    {| ig_frame := si_frame i;
       ig_quantity := match si_quantity i with Some q => Some (quantity_default q) | None => None end |}.

  (* Scale for Cookware, scale.rs 288-315 *)
  Definition cookware_scale (k : s_cookware) (factor : Q) : cookware * scale_outcome :=
    match sc_quantity k with
    | Some v => let r := value_scale v factor in
                ({| ck_frame := sc_frame k; ck_quantity := Some (fst r) |}, snd r)
    | None => ({| ck_frame := sc_frame k; ck_quantity := None |}, ONoQuantity)
    end.
  Definition cookware_default (k : s_cookware) : cookware :=
    {| ck_frame := sc_frame k;
       ck_quantity := match sc_quantity k with Some v => Some (value_default v) | None => None end |}.

  (* Scale for Timer, scale.rs 317-336 *)
  Definition timer_scale (t : s_timer) (factor : Q) : timer * scale_outcome :=
    match st_quantity t with
    | Some q => let r := quantity_scale q factor in
                ({| tm_name := st_name t; tm_quantity := Some (fst r) |}, snd r)
    | None => ({| tm_name := st_name t; tm_quantity := None |}, ONoQuantity)
    end.
  Definition timer_default (t : s_timer) : timer :=
    {| tm_name := st_name t;
       tm_quantity := match st_quantity t with Some q => Some (quantity_default q) | None => None end |}.

  Section WithConverter.
    Variable approx : Q -> frac_cfg -> outcome (option number).
    Variable c : converter.

    (* `let _ = q.fit(converter)`: the quantity after the call, the result is dropped *)
    Definition fit_quietly (q : option quantity) : outcome (option quantity) :=
      match q with
      | None => Done None
      | Some x => obind (fit approx c x) (fun r => Done (Some (fst r)))
      end.

    Fixpoint mapM {A B} (f : A -> outcome B) (l : list A) : outcome (list B) :=
      match l with
      | [] => Done []
      | a :: r => obind (f a) (fun b => obind (mapM f r) (fun r' => Done (b :: r')))
      end.

    Definition ingredient_scale_fit (factor : Q) (i : s_ingredient) : outcome (ingredient * scale_outcome) :=
      let r := ingredient_scale i factor in
      obind (fit_quietly (ig_quantity (fst r))) (fun q =>
      Done ({| ig_frame := ig_frame (fst r); ig_quantity := q |}, snd r)).

    Definition timer_scale_fit (factor : Q) (t : s_timer) : outcome (timer * scale_outcome) :=
      let r := timer_scale t factor in
      obind (fit_quietly (tm_quantity (fst r))) (fun q =>
      Done ({| tm_name := tm_name (fst r); tm_quantity := q |}, snd r)).

    (* ScalableRecipe::scale, scale.rs 111-157 *)
    Definition scale (factor : Q) (r : s_recipe) : outcome recipe :=
      obind (mapM (ingredient_scale_fit factor) (sr_ingredients r)) (fun igs =>
      let cws := map (fun k => cookware_scale k factor) (sr_cookware r) in
      obind (mapM (timer_scale_fit factor) (sr_timers r)) (fun tms =>
      Done {| r_frame := sr_frame r;
              r_ingredients := map fst igs;
              r_cookware := map fst cws;
              r_timers := map fst tms;
              r_inline := sr_inline r;
              r_data := Scaled factor (map snd igs) (map snd cws) (map snd tms) |})).

    (* not a panic of the Rust code: `target as f64 / base as f64` with base = 0 is inf or NaN,
       a factor outside Q (and outside the property, which is about finite positive factors) *)
    Definition site_factor_not_finite : N := 20%N.

    (* the base of scale_to_servings, scale.rs 160-165 *)
    Definition servings_base (r : s_recipe) : N :=
      match sr_servings r with
      | Some (x :: _) => x
      | Some [] => 1%N
      | None => 1%N
      end.

    (* ScalableRecipe::scale_to_servings, scale.rs 160-168 *)
    Definition scale_to_servings (target : N) (r : s_recipe) : outcome recipe :=
      let base := servings_base r in
      if (base =? 0)%N then Panic site_factor_not_finite
      else scale (NQ target / NQ base) r.
  End WithConverter.

  (* ScalableRecipe::default_scale, scale.rs 173-195 *)
  Definition default_scale (r : s_recipe) : recipe :=
    {| r_frame := sr_frame r;
       r_ingredients := map ingredient_default (sr_ingredients r);
       r_cookware := map cookware_default (sr_cookware r);
       r_timers := map timer_default (sr_timers r);
       r_inline := sr_inline r;
       r_data := DefaultScaling |}.
End Recipe.

(* the frame types are inferred everywhere *)
Arguments si_frame {IF} _.           Arguments si_quantity {IF} _.
Arguments ig_frame {IF} _.           Arguments ig_quantity {IF} _.
Arguments sc_frame {CF} _.           Arguments sc_quantity {CF} _.
Arguments ck_frame {CF} _.           Arguments ck_quantity {CF} _.
Arguments Build_s_ingredient {IF} _ _.   Arguments Build_ingredient {IF} _ _.
Arguments Build_s_cookware {CF} _ _.     Arguments Build_cookware {CF} _ _.
Arguments sr_frame {IF CF MF} _.     Arguments sr_ingredients {IF CF MF} _.
Arguments sr_cookware {IF CF MF} _.  Arguments sr_timers {IF CF MF} _.
Arguments sr_inline {IF CF MF} _.    Arguments sr_servings {IF CF MF} _.
Arguments r_frame {IF CF MF} _.      Arguments r_ingredients {IF CF MF} _.
Arguments r_cookware {IF CF MF} _.   Arguments r_timers {IF CF MF} _.
Arguments r_inline {IF CF MF} _.     Arguments r_data {IF CF MF} _.
Arguments Build_s_recipe {IF CF MF} _ _ _ _ _ _.
Arguments Build_recipe {IF CF MF} _ _ _ _ _ _.
Arguments ingredient_scale {IF} _ _.     Arguments ingredient_default {IF} _.
Arguments cookware_scale {CF} _ _.       Arguments cookware_default {CF} _.
Arguments ingredient_scale_fit {IF} _ _ _ _.
Arguments scale {IF CF MF} _ _ _ _.
Arguments servings_base {IF CF MF} _.
Arguments scale_to_servings {IF CF MF} _ _ _ _.
Arguments default_scale {IF CF MF} _.
