(* Model of /repo/src/convert/builder.rs (ConverterBuilder::add_units_file 82-163,
   finish 166-219, add_unit 221-226, BestConversionsStore::new 229-248,
   BestConversions::new 250-285, apply_extend_groups 287-344,
   update_expanded_units 346-363, build_fractions_config 365-421,
   join_alias_vec 423-437, join_prefixes 439-460, expand_si 462-502,
   UnitIndex::{remove_unit, remove_unit_rec, add_unit} 504-543), of the lookup
   UnitIndex::get_unit_id (convert/mod.rs 246-256), of convert_f64
   (convert/mod.rs 720-725) and of FractionsConfigWrapper::get /
   FractionsConfigHelper::{merge, define} (units_file.rs 122-175).
   The units file is an inductive mirror of units_file.rs.

   Conventions: f64 = exact rationals Q; usize unit ids = nat; a HashMap that the
   code only inserts into / looks up is an association list with HashMap
   semantics ([find], [insert], [remove]); a HashMap that the code ITERATES
   (Extend::units, Fractions::unit, Fractions::quantity) is given as the list of
   its entries in iteration order (oracle: shipped from the implementation).
   Every indexing, unwrap and assert of the Rust code is a [Panic site].

   [check_best_quantity] selects the behaviour of BestConversions::new:
   false : the code before the repair (no check; a best list with a unit of
           another physical quantity reaches the assert_eq! of convert_f64 or is
           silently accepted)
   true  : each best unit must belong to the quantity of its list, otherwise the
           build error BestUnitQuantity. *)
From Coq Require Export QArith.
From CL Require Export Base.Chars.
Local Open Scope N_scope.

Record cfg := { check_best_quantity : bool }.
Definition cfg_old : cfg := {| check_best_quantity := false |}.
Definition cfg_new : cfg := {| check_best_quantity := true |}.

(* ------------------------------------------------------------------ *)
(* units_file.rs                                                       *)

Inductive pq := Volume | Mass | Length | Temperature | Time.
Inductive system := Metric | Imperial.
Inductive prec := Before | After | Override.
Inductive sipre := Kilo | Hecto | Deca | Deci | Centi | Milli.

Definition all_pq : list pq := [Volume; Mass; Length; Temperature; Time].
Definition all_sipre : list sipre := [Kilo; Hecto; Deca; Deci; Centi; Milli].

Definition pq_eqb (a b : pq) : bool :=
  match a, b with
  | Volume, Volume | Mass, Mass | Length, Length | Temperature, Temperature | Time, Time => true
  | _, _ => false
  end.

Definition sipre_eqb (a b : sipre) : bool :=
  match a, b with
  | Kilo, Kilo | Hecto, Hecto | Deca, Deca | Deci, Deci | Centi, Centi | Milli, Milli => true
  | _, _ => false
  end.

(* SIPrefix::ratio, as the exact power of ten *)
Definition sipre_ratio (p : sipre) : Q :=
  match p with
  | Kilo => (1000 # 1)%Q | Hecto => (100 # 1)%Q | Deca => (10 # 1)%Q
  | Deci => (1 # 10)%Q | Centi => (1 # 100)%Q | Milli => (1 # 1000)%Q
  end.

Record unit_entry := {
  ue_names : list str; ue_symbols : list str; ue_aliases : list str;
  ue_ratio : Q; ue_difference : Q; ue_expand_si : bool }.

Inductive units_decl :=
| UUnified (l : list unit_entry)
| UBySystem (metric imperial unspecified : list unit_entry).

Inductive best_units :=
| BUnified (l : list str)
| BBySystem (metric imperial : list str).

Record qgroup := { qg_quantity : pq; qg_best : option best_units; qg_units : option units_decl }.

Record ext_entry := {
  xe_ratio : option Q; xe_difference : option Q;
  xe_names : option (list str); xe_symbols : option (list str); xe_aliases : option (list str) }.

(* Extend: [ex_units] lists the hash map in its iteration order *)
Record extend := { ex_prec : prec; ex_units : list (str * ext_entry) }.

Definition ptable := sipre -> list str.   (* EnumMap<SIPrefix, Vec<String>> *)

Record si_cfg := { si_prefixes : option ptable; si_symbol_prefixes : option ptable; si_prec : prec }.
Definition si_default : si_cfg := {| si_prefixes := None; si_symbol_prefixes := None; si_prec := Before |}.

Record frac_helper := {
  fh_enabled : option bool; fh_accuracy : option Q; fh_max_den : option N; fh_max_whole : option N }.
Inductive frac_wrapper := FToggle (b : bool) | FCustom (h : frac_helper).

(* Fractions: [fr_quantity] and [fr_unit] list the hash maps in iteration order *)
Record fractions := {
  fr_all : option frac_wrapper; fr_metric : option frac_wrapper; fr_imperial : option frac_wrapper;
  fr_quantity : list (pq * frac_wrapper); fr_unit : list (str * frac_wrapper) }.

Record units_file := {
  uf_default_system : option system; uf_si : option si_cfg; uf_fractions : option fractions;
  uf_extend : option extend; uf_quantity : list qgroup }.

(* ------------------------------------------------------------------ *)
(* convert/mod.rs: Unit, UnitIndex, Converter                          *)

Record cunit := {
  names : list str; symbols : list str; aliases : list str;
  ratio : Q; difference : Q; quantity : pq; usystem : option system }.

(* Unit::all_keys *)
Definition all_keys (u : cunit) : list str := names u ++ symbols u ++ aliases u.

Definition index := list (str * nat).

Fixpoint find (k : str) (ix : index) : option nat :=
  match ix with
  | [] => None
  | (k', v) :: r => if str_eqb k k' then Some v else find k r
  end.

Fixpoint remove (k : str) (ix : index) : index :=
  match ix with
  | [] => []
  | (k', v) :: r => if str_eqb k k' then remove k r else (k', v) :: remove k r
  end.

(* HashMap::insert: the new map and the value that was there *)
Definition insert (k : str) (v : nat) (ix : index) : index * option nat :=
  ((k, v) :: remove k ix, find k ix).

Inductive berr :=
| EDuplicateUnit (name : str)
| EDuplicateExtendUnit (key : str)
| EInvalidExtendExpanded (key : str)
| EUnknownUnit (key : str)
| EEmptyUnit
| EEmptyUnitKey
| EEmptyBest (q : pq)
| EEmptySIPrefixes
| EBestUnitQuantity (key : str) (q : pq).

Inductive bres (A : Type) := ROk (a : A) | RErr (e : berr).
Arguments ROk {A} a.
Arguments RErr {A} e.

Definition rbind {A B} (r : bres A) (f : A -> bres B) : bres B :=
  match r with ROk a => f a | RErr e => RErr e end.

(* functions that can panic: outcome (bres A) *)
Definition M (A : Type) := outcome (bres A).
Definition ret {A} (a : A) : M A := Done (ROk a).
Definition fail {A} (e : berr) : M A := Done (RErr e).
Definition bind {A B} (m : M A) (f : A -> M B) : M B :=
  match m with
  | Done (ROk a) => f a
  | Done (RErr e) => Done (RErr e)
  | Panic s => Panic s
  end.
Definition lift {A} (r : bres A) : M A := Done r.

Notation "'do' x <- m ; f" := (bind m (fun x => f)) (at level 200, x pattern, m at level 100, f at level 200).
Notation "'dor' x <- m ; f" := (rbind m (fun x => f)) (at level 200, x pattern, m at level 100, f at level 200).

(* UnitIndex::get_unit_id, mod.rs 249-255 *)
Definition get_unit_id (k : str) (ix : index) : bres nat :=
  match find k ix with Some i => ROk i | None => RErr (EUnknownUnit k) end.

(* builder.rs UnitBuilder *)
Record ubuilder := {
  ub_unit : cunit; ub_is_expanded : bool; ub_expand_si : bool;
  ub_expanded : option (sipre -> nat) }.

Inductive best_store :=
| SUnified (l : list (Q * nat))
| SBySystem (metric imperial : list (Q * nat)).

Record fcfg := { fc_enabled : bool; fc_accuracy : Q; fc_max_den : N; fc_max_whole : N }.

Record cfractions := {
  cf_all : option fcfg; cf_metric : option fcfg; cf_imperial : option fcfg;
  cf_quantity : list (pq * fcfg); cf_unit : list (nat * fcfg) }.

Record converter := {
  c_units : list cunit; c_index : index; c_qindex : pq -> list nat;
  c_best : pq -> best_store; c_fractions : cfractions; c_default : system }.

(* Converter::find_unit, mod.rs 141-145: the id instead of the Arc *)
Definition find_unit (c : converter) (k : str) : option nat := find k (c_index c).

(* ------------------------------------------------------------------ *)
(* panic sites (line numbers of the unchanged builder.rs / mod.rs)      *)

Definition site_finish_index : N := 168.      (* self.all_units[id] in finish *)
Definition site_expand_assert : N := 466.     (* assert!(unit.expand_si) *)
Definition site_extend_index : N := 298.      (* all_units[id] in apply_extend_groups *)
Definition site_remove_index : N := 515.      (* all_units[*expanded] in remove_unit_rec *)
Definition site_remove_depth : N := 516.      (* recursion of remove_unit_rec deeper than 2 (fuel) *)
Definition site_update_index : N := 355.      (* all_units[..] in update_expanded_units *)
Definition site_update_unwrap : N := 356.     (* expanded_units.as_ref().unwrap() *)
Definition site_best_index : N := 262.        (* all_units[*a] in BestConversions::new *)
Definition site_best_unwrap : N := 273.       (* units.next().unwrap() *)
Definition site_convert_assert : N := 721.    (* assert_eq! in convert_f64, mod.rs *)
Definition site_fractions_index : N := 391.   (* all_units[unit_id] in build_fractions_config *)

Definition get_ub (site : N) (units : list ubuilder) (i : nat) : M ubuilder :=
  match nth_error units i with Some u => ret u | None => Panic site end.

Fixpoint set_nth {A} (i : nat) (x : A) (l : list A) : option (list A) :=
  match l, i with
  | [], _ => None
  | _ :: r, O => Some (x :: r)
  | y :: r, S j => match set_nth j x r with Some r' => Some (y :: r') | None => None end
  end.

Definition set_ub (site : N) (units : list ubuilder) (i : nat) (u : ubuilder) : M (list ubuilder) :=
  match set_nth i u units with Some l => ret l | None => Panic site end.

(* ------------------------------------------------------------------ *)
(* UnitIndex::add_unit 521-543, remove_unit 505-509, remove_unit_rec 511-519 *)

(* key.trim().is_empty() *)
Definition blank_key (k : str) : bool := forallb uni_ws k.

Fixpoint index_add_keys (ks : list str) (id : nat) (ix : index) : bres index :=
  match ks with
  | [] => ROk ix
  | k :: r =>
      if blank_key k then RErr EEmptyUnitKey
      else let '(ix', old) := insert k id ix in
           match old with
           | Some _ => RErr (EDuplicateUnit k)
           | None => index_add_keys r id ix'
           end
  end.

Definition index_add_unit (u : cunit) (id : nat) (ix : index) : bres index :=
  dor ix' <- index_add_keys (all_keys u) id ix ;
  match all_keys u with [] => RErr EEmptyUnit | _ => ROk ix' end.

Definition index_remove_unit (u : cunit) (ix : index) : index :=
  fold_left (fun ix k => remove k ix) (all_keys u) ix.

Fixpoint index_remove_rec (fuel : nat) (units : list ubuilder) (u : ubuilder) (ix : index)
  : outcome index :=
  match fuel with
  | O => Panic site_remove_depth
  | S fuel' =>
      obind
        (match ub_expanded u with
         | None => Done ix
         | Some f =>
             fold_left (fun acc p =>
                          obind acc (fun ix =>
                            match nth_error units (f p) with
                            | Some e => index_remove_rec fuel' units e ix
                            | None => Panic site_remove_index
                            end))
                       all_sipre (Done ix)
         end)
        (fun ix => Done (index_remove_unit (ub_unit u) ix))
  end.

(* ------------------------------------------------------------------ *)
(* builder state                                                        *)

Record bstate := {
  b_units : list ubuilder; b_index : index; b_extend : list extend; b_si : si_cfg;
  b_fractions : list fractions; b_best : pq -> option best_units; b_default : system }.

Definition bstate0 : bstate :=
  {| b_units := []; b_index := []; b_extend := []; b_si := si_default; b_fractions := [];
     b_best := fun _ => None; b_default := Metric |}.

(* ConverterBuilder::add_unit 221-226, on the two fields it touches *)
Definition add_unit (units : list ubuilder) (ix : index) (u : ubuilder)
  : bres (list ubuilder * index * nat) :=
  let id := length units in
  dor ix' <- index_add_unit (ub_unit u) id ix ;
  ROk (units ++ [u], ix', id).

(* the closure add_units of add_units_file, 86-109 *)
Fixpoint add_entries (q : pq) (sys : option system) (es : list unit_entry)
         (units : list ubuilder) (ix : index) : bres (list ubuilder * index) :=
  match es with
  | [] => ROk (units, ix)
  | e :: r =>
      let u := {| names := ue_names e; symbols := ue_symbols e; aliases := ue_aliases e;
                  ratio := ue_ratio e; difference := ue_difference e; quantity := q;
                  usystem := sys |} in
      dor (units', ix', _) <- add_unit units ix
           {| ub_unit := u; ub_is_expanded := false; ub_expand_si := ue_expand_si e;
              ub_expanded := None |} ;
      add_entries q sys r units' ix'
  end.

Definition best_is_empty (b : best_units) : bool :=
  match b with
  | BUnified v => match v with [] => true | _ => false end
  | BBySystem m i =>
      match m, i with
      | [], _ => true
      | _, [] => true
      | _, _ => false
      end
  end.

Definition set_best (f : pq -> option best_units) (q : pq) (b : best_units) : pq -> option best_units :=
  fun q' => if pq_eqb q' q then Some b else f q'.

(* one iteration of `for group in units.quantity`, 85-131 *)
Definition add_group (st : bstate) (g : qgroup) : bres bstate :=
  let q := qg_quantity g in
  dor (units, ix) <-
    match qg_units g with
    | None => ROk (b_units st, b_index st)
    | Some (UUnified l) => add_entries q None l (b_units st) (b_index st)
    | Some (UBySystem m i u) =>
        dor (u1, i1) <- add_entries q (Some Metric) m (b_units st) (b_index st) ;
        dor (u2, i2) <- add_entries q (Some Imperial) i u1 i1 ;
        add_entries q None u u2 i2
    end ;
  dor best <-
    match qg_best g with
    | None => ROk (b_best st)
    | Some b => if best_is_empty b then RErr (EEmptyBest q) else ROk (set_best (b_best st) q b)
    end ;
  ROk {| b_units := units; b_index := ix; b_extend := b_extend st; b_si := b_si st;
         b_fractions := b_fractions st; b_best := best; b_default := b_default st |}.

Fixpoint add_groups (st : bstate) (gs : list qgroup) : bres bstate :=
  match gs with
  | [] => ROk st
  | g :: r => dor st' <- add_group st g ; add_groups st' r
  end.

(* join_prefixes 439-460 *)
Definition join_prefixes (a b : option ptable) (b_prec : prec) : option ptable :=
  match a, b with
  | None, None => None
  | None, Some v => Some v
  | Some v, None => Some v
  | Some a, Some b =>
      match b_prec with
      | Before => Some (fun p => b p ++ a p)
      | After => Some (fun p => a p ++ b p)
      | Override => Some b
      end
  end.

Definition join_si (cur : si_cfg) (si : si_cfg) : si_cfg :=
  {| si_prefixes := join_prefixes (si_prefixes cur) (si_prefixes si) (si_prec si);
     si_symbol_prefixes := join_prefixes (si_symbol_prefixes cur) (si_symbol_prefixes si) (si_prec si);
     si_prec := si_prec si |}.

(* ConverterBuilder::add_units_file 82-163 *)
Definition add_units_file (st : bstate) (f : units_file) : bres bstate :=
  dor st1 <- add_groups st (uf_quantity f) ;
  ROk {| b_units := b_units st1; b_index := b_index st1;
         b_extend := match uf_extend f with Some e => b_extend st1 ++ [e] | None => b_extend st1 end;
         b_si := match uf_si f with Some si => join_si (b_si st1) si | None => b_si st1 end;
         b_fractions := match uf_fractions f with Some fr => b_fractions st1 ++ [fr] | None => b_fractions st1 end;
         b_best := b_best st1;
         b_default := match uf_default_system f with Some s => s | None => b_default st1 end |}.

Fixpoint add_files (st : bstate) (fs : list units_file) : bres bstate :=
  match fs with
  | [] => ROk st
  | f :: r => dor st' <- add_units_file st f ; add_files st' r
  end.

(* ------------------------------------------------------------------ *)
(* expand_si 462-502                                                    *)

Definition prefixed (pres : list str) (ns : list str) : list str :=
  flat_map (fun p => map (fun n => p ++ n) ns) pres.

Definition expanded_unit (u : cunit) (pt st : ptable) (p : sipre) : ubuilder :=
  {| ub_unit := {| names := prefixed (pt p) (names u); symbols := prefixed (st p) (symbols u);
                   aliases := []; ratio := (ratio u * sipre_ratio p)%Q; difference := difference u;
                   quantity := quantity u; usystem := usystem u |};
     ub_is_expanded := true; ub_expand_si := false; ub_expanded := None |}.

Definition expand_si (u : ubuilder) (si : si_cfg) : M (sipre -> ubuilder) :=
  if negb (ub_expand_si u) then Panic site_expand_assert
  else match si_prefixes si, si_symbol_prefixes si with
       | Some pt, Some st => ret (expanded_unit (ub_unit u) pt st)
       | _, _ => fail EEmptySIPrefixes
       end.

Definition set_id (f : sipre -> nat) (p : sipre) (id : nat) : sipre -> nat :=
  fun p' => if sipre_eqb p' p then id else f p'.

(* the inner loop `for (prefix, unit) in new_units` of finish, 172-174 *)
Fixpoint add_expanded (ps : list sipre) (new : sipre -> ubuilder) (ids : sipre -> nat)
         (units : list ubuilder) (ix : index) : bres (list ubuilder * index * (sipre -> nat)) :=
  match ps with
  | [] => ROk (units, ix, ids)
  | p :: r =>
      dor (units', ix', id) <- add_unit units ix (new p) ;
      add_expanded r new (set_id ids p id) units' ix'
  end.

(* `for id in 0..self.all_units.len()` of finish, 167-177: [n] iterations left, at [id] *)
Fixpoint expand_loop (n : nat) (id : nat) (si : si_cfg) (units : list ubuilder) (ix : index)
  : M (list ubuilder * index) :=
  match n with
  | O => ret (units, ix)
  | S n' =>
      do u <- get_ub site_finish_index units id ;
      do (units', ix') <-
        (if ub_expand_si u then
           do new <- expand_si u si ;
           do (units1, ix1, ids) <- lift (add_expanded all_sipre new (fun _ => O) units ix) ;
           do units2 <- set_ub site_finish_index units1 id
                {| ub_unit := ub_unit u; ub_is_expanded := ub_is_expanded u;
                   ub_expand_si := ub_expand_si u; ub_expanded := Some ids |} ;
           ret (units2, ix1)
         else ret (units, ix)) ;
      expand_loop n' (S id) si units' ix'
  end.

(* ------------------------------------------------------------------ *)
(* apply_extend_groups 287-344, update_expanded_units 346-363           *)

(* join_alias_vec 423-437 *)
Definition join_alias_vec (target src : list str) (p : prec) : list str :=
  match p with
  | Before => src ++ target
  | After => target ++ src
  | Override => src
  end.

Definition is_some {A} (o : option A) : bool := match o with Some _ => true | None => false end.

(* first loop of a group, 295-308 *)
Fixpoint resolve_entries (es : list (str * ext_entry)) (units : list ubuilder) (ix : index)
         (acc : list (nat * ext_entry)) : M (list (nat * ext_entry)) :=
  match es with
  | [] => ret acc
  | (k, e) :: r =>
      do id <- lift (get_unit_id k ix) ;
      if existsb (fun x => Nat.eqb (fst x) id) acc then fail (EDuplicateExtendUnit k)
      else
        do u <- get_ub site_extend_index units id ;
        if ub_is_expanded u
           && (is_some (xe_ratio e) || is_some (xe_difference e) || is_some (xe_names e)
               || is_some (xe_symbols e))
        then fail (EInvalidExtendExpanded k)
        else resolve_entries r units ix (acc ++ [(id, e)])
  end.

Definition edit_unit (u : cunit) (e : ext_entry) (p : prec) : cunit :=
  {| names := match xe_names e with Some l => join_alias_vec (names u) l p | None => names u end;
     symbols := match xe_symbols e with Some l => join_alias_vec (symbols u) l p | None => symbols u end;
     aliases := match xe_aliases e with Some l => join_alias_vec (aliases u) l p | None => aliases u end;
     ratio := match xe_ratio e with Some r => r | None => ratio u end;
     difference := match xe_difference e with Some d => d | None => difference u end;
     quantity := quantity u; usystem := usystem u |}.

Definition with_unit (b : ubuilder) (u : cunit) : ubuilder :=
  {| ub_unit := u; ub_is_expanded := ub_is_expanded b; ub_expand_si := ub_expand_si b;
     ub_expanded := ub_expanded b |}.

(* loop of update_expanded_units, 354-361 *)
Fixpoint update_loop (ps : list sipre) (id : nat) (new : sipre -> ubuilder)
         (units : list ubuilder) (ix : index) : M (list ubuilder * index) :=
  match ps with
  | [] => ret (units, ix)
  | p :: r =>
      do base <- get_ub site_update_index units id ;
      match ub_expanded base with
      | None => Panic site_update_unwrap
      | Some f =>
          let eid := f p in
          do old <- get_ub site_update_index units eid ;
          let nu := with_unit (new p)
                      {| names := names (ub_unit (new p)); symbols := symbols (ub_unit (new p));
                         aliases := aliases (ub_unit old); ratio := ratio (ub_unit (new p));
                         difference := difference (ub_unit (new p));
                         quantity := quantity (ub_unit (new p)); usystem := usystem (ub_unit (new p)) |} in
          do units' <- set_ub site_update_index units eid nu ;
          do ix' <- lift (index_add_unit (ub_unit nu) eid ix) ;
          update_loop r id new units' ix'
      end
  end.

Definition update_expanded_units (id : nat) (units : list ubuilder) (ix : index) (si : si_cfg)
  : M (list ubuilder * index) :=
  do u <- get_ub site_update_index units id ;
  do new <- expand_si u si ;
  update_loop all_sipre id new units ix.

(* second loop of a group, 311-341 *)
Fixpoint apply_updates (ups : list (nat * ext_entry)) (p : prec) (si : si_cfg)
         (units : list ubuilder) (ix : index) : M (list ubuilder * index) :=
  match ups with
  | [] => ret (units, ix)
  | (id, e) :: r =>
      do u <- get_ub site_extend_index units id ;
      match index_remove_rec 2 units u ix with
      | Panic s => Panic s
      | Done ix1 =>
          let u' := with_unit u (edit_unit (ub_unit u) e p) in
          do units1 <- set_ub site_extend_index units id u' ;
          do (units2, ix2) <-
            (if ub_expand_si u' then update_expanded_units id units1 ix1 si
             else ret (units1, ix1)) ;
          do u2 <- get_ub site_extend_index units2 id ;
          do ix3 <- lift (index_add_unit (ub_unit u2) id ix2) ;
          apply_updates r p si units2 ix3
      end
  end.

Fixpoint apply_extend_groups (exts : list extend) (si : si_cfg) (units : list ubuilder) (ix : index)
  : M (list ubuilder * index) :=
  match exts with
  | [] => ret (units, ix)
  | g :: r =>
      do ups <- resolve_entries (ex_units g) units ix [] ;
      do (units', ix') <- apply_updates ups (ex_prec g) si units ix ;
      apply_extend_groups r si units' ix'
  end.

(* ------------------------------------------------------------------ *)
(* convert_f64 (mod.rs 720-725), BestConversions::new 250-285           *)

Definition convert_q (v : Q) (from to : cunit) : outcome Q :=
  if pq_eqb (quantity from) (quantity to)
  then Done (((v + difference from) * ratio from) / ratio to - difference to)%Q
  else Panic site_convert_assert.

(* slice::sort_by with `a.ratio.partial_cmp(&b.ratio)`: the stable sort *)
Fixpoint ins_by_ratio (x : nat * cunit) (l : list (nat * cunit)) : list (nat * cunit) :=
  match l with
  | [] => [x]
  | y :: r => if Qle_bool (ratio (snd x)) (ratio (snd y)) then x :: l else y :: ins_by_ratio x r
  end.

Definition sort_by_ratio (l : list (nat * cunit)) : list (nat * cunit) := fold_right ins_by_ratio [] l.

(* the `.map(|n| unit_index.get_unit_id(n))` of 255-258; with the repair the closure
   also compares the physical quantity of the unit with the one of the list *)
Fixpoint best_ids (c : cfg) (q : pq) (ns : list str) (ix : index) (units : list ubuilder)
  : M (list (nat * cunit)) :=
  match ns with
  | [] => ret []
  | n :: r =>
      do id <- lift (get_unit_id n ix) ;
      do u <- get_ub site_best_index units id ;
      if check_best_quantity c && negb (pq_eqb (quantity (ub_unit u)) q)
      then fail (EBestUnitQuantity n q)
      else do rest <- best_ids c q r ix units ; ret ((id, ub_unit u) :: rest)
  end.

Fixpoint best_thresholds (base : cunit) (l : list (nat * cunit)) : outcome (list (Q * nat)) :=
  match l with
  | [] => Done []
  | (id, u) :: r =>
      obind (convert_q 1 u base) (fun v =>
      obind (best_thresholds base r) (fun rest => Done ((v, id) :: rest)))
  end.

Definition best_new (c : cfg) (q : pq) (ns : list str) (ix : index) (units : list ubuilder)
  : M (list (Q * nat)) :=
  do ids <- best_ids c q ns ix units ;
  match sort_by_ratio ids with
  | [] => Panic site_best_unwrap
  | (bid, bu) :: rest =>
      match best_thresholds bu rest with
      | Done l => ret ((1%Q, bid) :: l)
      | Panic s => Panic s
      end
  end.

(* BestConversionsStore::new 229-248 *)
Definition store_new (c : cfg) (q : pq) (b : best_units) (ix : index) (units : list ubuilder)
  : M best_store :=
  match b with
  | BUnified ns => do l <- best_new c q ns ix units ; ret (SUnified l)
  | BBySystem m i =>
      do lm <- best_new c q m ix units ;
      do li <- best_new c q i ix units ;
      ret (SBySystem lm li)
  end.

(* one arm of the enum_map! of finish, 186-194 *)
Definition best_for (c : cfg) (st_best : pq -> option best_units) (ix : index)
           (units : list ubuilder) (q : pq) : M best_store :=
  match st_best q with
  | Some b => store_new c q b ix units
  | None => fail (EEmptyBest q)
  end.

(* ------------------------------------------------------------------ *)
(* fractions: units_file.rs 122-175, builder.rs 365-421                 *)

Definition o_or {A} (a b : option A) : option A := match a with Some _ => a | None => b end.

Definition fh_none : frac_helper :=
  {| fh_enabled := None; fh_accuracy := None; fh_max_den := None; fh_max_whole := None |}.

Definition fw_get (w : frac_wrapper) : frac_helper :=
  match w with
  | FToggle b => {| fh_enabled := Some b; fh_accuracy := None; fh_max_den := None; fh_max_whole := None |}
  | FCustom h => h
  end.

Definition fh_merge (a b : frac_helper) : frac_helper :=
  {| fh_enabled := o_or (fh_enabled a) (fh_enabled b);
     fh_accuracy := o_or (fh_accuracy a) (fh_accuracy b);
     fh_max_den := o_or (fh_max_den a) (fh_max_den b);
     fh_max_whole := o_or (fh_max_whole a) (fh_max_whole b) |}.

Definition o_get {A} (o : option A) (d : A) : A := match o with Some a => a | None => d end.

(* 0.05f32 *)
Definition default_accuracy : Q := (13421773 # 268435456)%Q.

Definition clamp_q (lo hi v : Q) : Q := if Qle_bool v lo then lo else if Qle_bool hi v then hi else v.
Definition clamp_n (lo hi v : N) : N := if v <? lo then lo else if hi <? v then hi else v.

Definition fh_define (h : frac_helper) : fcfg :=
  {| fc_enabled := o_get (fh_enabled h) false;
     fc_accuracy := clamp_q 0%Q 1%Q (o_get (fh_accuracy h) default_accuracy);
     fc_max_den := clamp_n 1 16 (o_get (fh_max_den h) 4);
     fc_max_whole := o_get (fh_max_whole h) 4294967295 |}.

Fixpoint qmap_get {V} (q : pq) (m : list (pq * V)) : option V :=
  match m with
  | [] => None
  | (q', v) :: r => if pq_eqb q q' then Some v else qmap_get q r
  end.

Fixpoint qmap_remove {V} (q : pq) (m : list (pq * V)) : list (pq * V) :=
  match m with
  | [] => []
  | (q', v) :: r => if pq_eqb q q' then qmap_remove q r else (q', v) :: qmap_remove q r
  end.

Definition qmap_insert {V} (q : pq) (v : V) (m : list (pq * V)) : list (pq * V) :=
  (q, v) :: qmap_remove q m.

Fixpoint nmap_remove {V} (k : nat) (m : list (nat * V)) : list (nat * V) :=
  match m with
  | [] => []
  | (k', v) :: r => if Nat.eqb k k' then nmap_remove k r else (k', v) :: nmap_remove k r
  end.

Definition nmap_insert {V} (k : nat) (v : V) (m : list (nat * V)) : list (nat * V) :=
  (k, v) :: nmap_remove k m.

Definition last_some (sel : fractions -> option frac_wrapper) (frs : list fractions) : option frac_helper :=
  fold_left (fun acc cfg => o_or (option_map fw_get (sel cfg)) acc) frs None.

Definition frac_quantities (frs : list fractions) : list (pq * frac_helper) :=
  fold_left (fun acc cfg =>
               fold_left (fun acc e => qmap_insert (fst e) (fw_get (snd e)) acc) (fr_quantity cfg) acc)
            frs [].

Definition flatten3 {A} (a b c : option A) : list A :=
  (match a with Some x => [x] | None => [] end) ++
  (match b with Some x => [x] | None => [] end) ++
  (match c with Some x => [x] | None => [] end).

(* Iterator::reduce(|acc, e| acc.merge(e)) *)
Definition reduce_merge (l : list frac_helper) : option frac_helper :=
  match l with
  | [] => None
  | x :: r => Some (fold_left fh_merge r x)
  end.

Fixpoint frac_units_of (es : list (str * frac_wrapper)) (all metric imperial : option frac_helper)
         (qs : list (pq * frac_helper)) (ix : index) (units : list ubuilder)
         (acc : list (nat * fcfg)) : M (list (nat * fcfg)) :=
  match es with
  | [] => ret acc
  | (k, w) :: r =>
      do id <- lift (get_unit_id k ix) ;
      do u <- get_ub site_fractions_index units id ;
      let inherit :=
        reduce_merge (flatten3 (qmap_get (quantity (ub_unit u)) qs)
                               (match usystem (ub_unit u) with
                                | Some Metric => metric
                                | Some Imperial => imperial
                                | None => None
                                end)
                               all) in
      let c := match inherit with Some i => fh_merge (fw_get w) i | None => fw_get w end in
      frac_units_of r all metric imperial qs ix units (nmap_insert id (fh_define c) acc)
  end.

Fixpoint frac_units (frs : list fractions) (all metric imperial : option frac_helper)
         (qs : list (pq * frac_helper)) (ix : index) (units : list ubuilder)
         (acc : list (nat * fcfg)) : M (list (nat * fcfg)) :=
  match frs with
  | [] => ret acc
  | f :: r =>
      do acc' <- frac_units_of (fr_unit f) all metric imperial qs ix units acc ;
      frac_units r all metric imperial qs ix units acc'
  end.

Definition build_fractions_config (frs : list fractions) (ix : index) (units : list ubuilder)
  : M cfractions :=
  let all := last_some fr_all frs in
  let metric := last_some fr_metric frs in
  let imperial := last_some fr_imperial frs in
  let qs := frac_quantities frs in
  do us <- frac_units frs all metric imperial qs ix units [] ;
  ret {| cf_all := option_map fh_define all; cf_metric := option_map fh_define metric;
         cf_imperial := option_map fh_define imperial;
         cf_quantity := map (fun e => (fst e, fh_define (snd e))) qs; cf_unit := us |}.

(* Fractions::config, mod.rs 199-218 (what the table is for) *)
Fixpoint nmap_get {V} (k : nat) (m : list (nat * V)) : option V :=
  match m with
  | [] => None
  | (k', v) :: r => if Nat.eqb k k' then Some v else nmap_get k r
  end.

Definition fractions_config (f : cfractions) (sys : option system) (q : pq) (id : nat) : fcfg :=
  o_get (o_or (nmap_get id (cf_unit f))
        (o_or (qmap_get q (cf_quantity f))
        (o_or (match sys with Some Metric => cf_metric f | Some Imperial => cf_imperial f | None => None end)
              (cf_all f))))
        (fh_define fh_none).

(* ------------------------------------------------------------------ *)
(* ConverterBuilder::finish 166-219                                     *)

Fixpoint ids_of_quantity (q : pq) (units : list ubuilder) (i : nat) : list nat :=
  match units with
  | [] => []
  | u :: r => if pq_eqb (quantity (ub_unit u)) q then i :: ids_of_quantity q r (S i)
              else ids_of_quantity q r (S i)
  end.

Definition finish (c : cfg) (st : bstate) : M converter :=
  do (units1, ix1) <- expand_loop (length (b_units st)) 0 (b_si st) (b_units st) (b_index st) ;
  do (units, ix) <- apply_extend_groups (b_extend st) (b_si st) units1 ix1 ;
  do bv <- best_for c (b_best st) ix units Volume ;
  do bm <- best_for c (b_best st) ix units Mass ;
  do bl <- best_for c (b_best st) ix units Length ;
  do bt <- best_for c (b_best st) ix units Temperature ;
  do bh <- best_for c (b_best st) ix units Time ;
  do fr <- build_fractions_config (b_fractions st) ix units ;
  ret {| c_units := map ub_unit units; c_index := ix;
         c_qindex := fun q => ids_of_quantity q units 0;
         c_best := fun q => match q with
                            | Volume => bv | Mass => bm | Length => bl
                            | Temperature => bt | Time => bh
                            end;
         c_fractions := fr; c_default := b_default st |}.

(* ConverterBuilder::new() + add_units_file for each file (stopping at the first
   error, as `?` does) + finish *)
Definition build (c : cfg) (files : list units_file) : M converter :=
  do st <- lift (add_files bstate0 files) ;
  finish c st.
