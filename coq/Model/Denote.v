(* C01, recipe level: the recipe a printed document (Model/Printer.v: list of blocks) is intended
   to denote, as a value of the recipe structure of Model/Analysis.v (src/model.rs).  Nothing here
   is a model of Rust code: [denote] is written over the document, not over events, and is what
   the analysis model is proved to return for the events of the printed text
   (Proofs/RoundTripAnalysis.v).

   The reading:
   - every component occurrence is an entry of the table of its kind, in document order; a step
     item holds the index of the entry;
   - name, alias, note are the cleaned texts; an ingredient name that is a relative path
     (`./x/y`, `../y`) keeps its last segment and is a recipe reference;
   - a quantity scales linearly exactly when it belongs to an ingredient, is a number or a range
     and has no `=` lock; otherwise it is fixed; cookware quantities have no unit;
   - a component with the `&` modifier refers to the last earlier definition of the same name
     (names compared through the case folding [ci]); it inherits the definition's
     recipe/hidden/optional modifiers (hidden/optional for cookware) and the definition records
     the back link, in order;
   - steps are numbered 1, 2, .. inside each section; text blocks are not numbered; the lines
     of a `>` block are joined by one blank;
   - a section line closes the current section; the section before the first section line has
     no name and exists only if it has content;
   - an ingredient with intermediate-reference data refers to a step of the current section (`&(2)`: its
     second step, `&(~1)`: the last step so far) or to a closed section (`&(=1)`: the first section of the
     recipe, `&(=~1)`: the previous one); the target is the position in the section's content / in the
     list of sections; such an entry takes part in no name lookup;
   - with INLINE_QUANTITIES ([inline]) a text piece of a step is cut at every quantity the converter finds
     in it ([find_iq], an oracle: text before the quantity, text after it): the text before, an inline
     quantity item (numbered in document order), and so on with the rest.
   Not covered by [denote] (excluded by [adoc_ok]): mode switches (`>> [mode]: ..`).
   The recipe structure of Model/Analysis.v keeps of a quantity its value, whether it is text, whether it is
   fixed, and its unit.  The value is stated here from the document ([value_of] of the printer's document
   value, Model/Printer.v [denote_value]: the decimal written, exactly; `w a/b` as w + a/b; both ends of a
   range; the cleaned text), so the recipe-level round trip covers the numbers, not only the event-level one
   (C01_events_roundtrip). *)
From CL Require Export Model.Printer.
From CL Require Model.Events Model.Analysis.

Definition is_text_value (v : value) : bool := match v with VText _ => true | _ => false end.

(* the number a written number stands for: a decimal literal `12.50` is that decimal, exactly ([NReg q]
   holds it: Model/Printer.v [denote_num], [dec_q]); `w a/b` is w + a/b (the printer only writes b <> 0:
   [num_wf]; N.succ_pos (N.pred b) is b as a positive then) *)
Definition num_value (n : num) : Q :=
  match n with
  | NReg q => q
  | NFrac w a b => Qplus (inject_Z (Z.of_N w)) (Qmake (Z.of_N a) (N.succ_pos (N.pred b)))
  end.

(* the value of a quantity as the recipe holds it: a number, a range with its two ends in the order
   written, or the text *)
Definition value_of (v : value) : Events.pvalue :=
  match v with
  | VNum n => Events.VNumber (num_value n)
  | VRange a b => Events.VRange (num_value a) (num_value b)
  | VText s => Events.VText s
  end.

Definition qinfo_of (igr keep_unit : bool) (q : value * bool * option str) : Analysis.qinfo :=
  let '(v, lock, u) := q in
  {| Analysis.qi_text := is_text_value v;
     Analysis.qi_fixed := negb (igr && negb (is_text_value v) && negb lock);
     Analysis.qi_unit := if keep_unit then u else None;
     Analysis.qi_value := value_of v |}.

Definition is_igr (c : cspec) : bool := match cs_kind c with CIgr => true | _ => false end.
Definition is_cw (c : cspec) : bool := match cs_kind c with CCw => true | _ => false end.
Definition is_tm (c : cspec) : bool := match cs_kind c with CTm => true | _ => false end.

Definition cs_mod_set (c : cspec) : Events.modifiers := Events.mods_of_bits (mods_bits (cs_mods c)).

(* the table entry of an ingredient or cookware occurrence, before references are resolved *)
Definition raw_comp (c : cspec) : Analysis.component :=
  let name0 := clean (toks_text (cs_name c)) in
  let isp := is_igr c && Analysis.is_path_name name0 in
  {| Analysis.c_name := if isp then Analysis.last_segment name0 [] else name0;
     Analysis.c_alias := option_map (fun a => clean (toks_text a)) (cs_alias c);
     Analysis.c_qty := option_map (qinfo_of (is_igr c) (is_igr c)) (denote_cqty (cs_body c));
     Analysis.c_note := option_map (fun n => clean (toks_text n)) (cs_note c);
     Analysis.c_rref := isp;
     Analysis.c_mods := cs_mod_set c;
     Analysis.c_rel := Analysis.RDef [] true |}.

Definition raw_timer (c : cspec) : Analysis.rtimer :=
  {| Analysis.tm_name := if str_blank (toks_text (cs_name c)) then None else Some (clean (toks_text (cs_name c)));
     Analysis.tm_qty := option_map (qinfo_of false true) (denote_cqty (cs_body c)) |}.

(* ---------------------------------------------------------------- references *)
Definition is_def (c : Analysis.component) : bool :=
  match Analysis.c_rel c with Analysis.RDef _ _ => true | Analysis.RRef _ _ => false end.

(* the index of the last element satisfying p *)
Fixpoint last_index {A} (p : A -> bool) (l : list A) (i : nat) (acc : option nat) : option nat :=
  match l with
  | [] => acc
  | a :: r => last_index p r (S i) (if p a then Some i else acc)
  end.

Section Refs.
  Variable ci : str -> str.                    (* case folding of names *)
  Variable inherit : Events.modifiers.         (* the modifiers a reference takes from its definition *)

  Definition find_def (tbl : list Analysis.component) (name : str) : option nat :=
    last_index (fun o => is_def o && str_eqb (ci name) (ci (Analysis.c_name o))) tbl 0%nat None.

  Definition add_backlink (def : Analysis.component) (k : nat) : Analysis.component :=
    match Analysis.c_rel def with
    | Analysis.RDef rf dis => Analysis.set_rel def (Analysis.RDef (rf ++ [k]) dis)
    | _ => def
    end.

  Definition as_reference (raw def : Analysis.component) (j : nat) : Analysis.component :=
    Analysis.set_mods_rel raw
      (Events.mods_or (Events.mods_or (Analysis.c_mods raw) (Events.mods_and (Analysis.c_mods def) inherit)) Events.M_ref_only)
      (Analysis.RRef j Analysis.TgComponent).

  (* the table after one more occurrence *)
  Definition add_comp (tbl : list Analysis.component) (raw : Analysis.component) : list Analysis.component :=
    if Events.m_ref (Analysis.c_mods raw) then
      match find_def tbl (Analysis.c_name raw) with
      | Some j =>
          match nth_error tbl j with
          | Some def => Analysis.upd_nth tbl j (add_backlink def (length tbl)) ++ [as_reference raw def j]
          | None => tbl ++ [raw]
          end
      | None => tbl ++ [raw]
      end
    else tbl ++ [raw].

  (* a reference is well formed: there is an earlier definition of that name; no `+` (new) with `&`;
     no note; no modifier of its own that the definition does not have *)
  Definition ref_ok (tbl : list Analysis.component) (raw : Analysis.component) : bool :=
    if Events.m_ref (Analysis.c_mods raw) then
      negb (Events.m_new (Analysis.c_mods raw)) &&
      match find_def tbl (Analysis.c_name raw) with
      | Some j =>
          match nth_error tbl j with
          | Some def =>
              negb (Events.is_some (Analysis.c_note raw)) &&
              Events.mods_is_empty
                (Events.mods_diff (Events.mods_diff (Analysis.c_mods raw) (Events.mods_and (Analysis.c_mods def) inherit))
                   Events.M_ref_only)
          | None => false
          end
      | None => false
      end
    else true.

  (* an entry: the flag says "carries intermediate-reference data" (then no name lookup takes place) *)
  Definition add_entry (tbl : list Analysis.component) (e : bool * Analysis.component) : list Analysis.component :=
    if fst e then tbl ++ [snd e] else add_comp tbl (snd e).
  Definition entry_ok (tbl : list Analysis.component) (e : bool * Analysis.component) : bool :=
    if fst e then true else ref_ok tbl (snd e).

  Fixpoint refs_ok (tbl : list Analysis.component) (es : list (bool * Analysis.component)) : bool :=
    match es with
    | [] => true
    | e :: rest => entry_ok tbl e && refs_ok (add_entry tbl e) rest
    end.

  Definition table (tbl : list Analysis.component) (es : list (bool * Analysis.component)) : list Analysis.component :=
    fold_left add_entry es tbl.
End Refs.

Definition inherit_igr : Events.modifiers :=
  {| Events.m_recipe := true; Events.m_ref := false; Events.m_hidden := true; Events.m_opt := true; Events.m_new := false |}.
Definition inherit_cw : Events.modifiers :=
  {| Events.m_recipe := false; Events.m_ref := false; Events.m_hidden := true; Events.m_opt := true; Events.m_new := false |}.

(* ---------------------------------------------------------------- intermediate references *)
(* what a step sees: for each entry of the current section whether it is a step, how many sections
   are closed, whether the current section has a name *)
Record ictx := { ic_kinds : list bool; ic_nsecs : nat; ic_named : bool }.
Definition ictx0 : ictx := {| ic_kinds := []; ic_nsecs := 0; ic_named := false |}.

Fixpoint positions (i : nat) (kinds : list bool) : list nat :=
  match kinds with
  | [] => []
  | b :: r => (if b then [i] else []) ++ positions (S i) r
  end.

(* [rel]: counted from the end (`~`); [sec]: a section (`=`); [v]: the number written.  None: no such target *)
Definition inter_rel (k : ictx) (rel sec : bool) (v : N) : option Analysis.relation :=
  match N.to_nat v with
  | O => None
  | S v1 =>
      if sec then
        if rel then (if (ic_nsecs k <? S v1)%nat then None
                     else Some (Analysis.RRef (ic_nsecs k - S v1) Analysis.TgSection))
        else (if (ic_nsecs k <=? v1)%nat then None else Some (Analysis.RRef v1 Analysis.TgSection))
      else
        let ps := positions 0 (ic_kinds k) in
        option_map (fun i => Analysis.RRef i Analysis.TgStep) (nth_error (if rel then rev ps else ps) v1)
  end.

Definition entry (k : ictx) (c : cspec) : bool * Analysis.component :=
  match mods_inter (cs_mods c) with
  | Some (rel, sec, v) =>
      (true, match inter_rel k rel sec v with
             | Some r => Analysis.set_rel (raw_comp c) r
             | None => raw_comp c
             end)
  | None => (false, raw_comp c)
  end.

(* ---------------------------------------------------------------- steps, sections *)
Definition item_comps (l : list item) : list cspec :=
  flat_map (fun i => match i with IComp c => [c] | IText _ => [] end) l.
Definition block_comps (b : block) : list cspec :=
  match b with BkStep items => item_comps items | _ => [] end.
Definition doc_comps (d : list block) : list cspec := flat_map block_comps d.

Definition next_ctx (k : ictx) (b : block) : ictx :=
  match b with
  | BkMeta _ _ => k
  | BkSection _ _ _ _ =>
      {| ic_kinds := [];
         ic_nsecs := if negb (ic_named k) && is_nil (ic_kinds k) then ic_nsecs k else S (ic_nsecs k);
         ic_named := true |}
  | BkStep _ => {| ic_kinds := ic_kinds k ++ [true]; ic_nsecs := ic_nsecs k; ic_named := ic_named k |}
  | BkText _ => {| ic_kinds := ic_kinds k ++ [false]; ic_nsecs := ic_nsecs k; ic_named := ic_named k |}
  end.

(* the table entries of one kind ([sel]) in document order, each made in the context of its step *)
Fixpoint doc_entries (sel : cspec -> bool) (d : list block) (k : ictx) : list (bool * Analysis.component) :=
  match d with
  | [] => []
  | b :: r => map (entry k) (filter sel (block_comps b)) ++ doc_entries sel r (next_ctx k b)
  end.

(* how many entries each table has so far; [n_q]: inline quantities *)
Record cnt := { n_i : nat; n_c : nat; n_t : nat; n_q : nat }.
Definition cnt0 : cnt := {| n_i := 0; n_c := 0; n_t := 0; n_q := 0 |}.

Definition comp_item (c : cspec) (k : cnt) : Analysis.item * cnt :=
  match cs_kind c with
  | CIgr => (Analysis.IIngredient (n_i k), {| n_i := S (n_i k); n_c := n_c k; n_t := n_t k; n_q := n_q k |})
  | CCw => (Analysis.ICookware (n_c k), {| n_i := n_i k; n_c := S (n_c k); n_t := n_t k; n_q := n_q k |})
  | CTm => (Analysis.ITimer (n_t k), {| n_i := n_i k; n_c := n_c k; n_t := S (n_t k); n_q := n_q k |})
  end.

Section Inline.
  Variable find_iq : str -> option (str * str).   (* find_inline_quantity: text before, text after *)
  Variable inline : bool.                         (* INLINE_QUANTITIES *)

  (* None: the oracle kept finding quantities without consuming text (the real function returns a strict
     suffix, so one unit of fuel per character suffices) *)
  Fixpoint iq_split (fuel : nat) (hay : str) (n : nat) : option (list Analysis.item * nat) :=
    match find_iq hay with
    | Some (before, after) =>
        match fuel with
        | O => None
        | S f =>
            match iq_split f after (S n) with
            | Some (its, n') =>
                Some ((if is_nil before then [] else [Analysis.IText before]) ++ Analysis.IInline n :: its, n')
            | None => None
            end
        end
    | None => Some (if is_nil hay then [] else [Analysis.IText hay], n)
    end.

  Definition text_items (tx : str) (n : nat) : list Analysis.item * nat :=
    if inline then match iq_split (S (length tx)) tx n with Some r => r | None => ([Analysis.IText tx], n) end
    else ([Analysis.IText tx], n).

  Fixpoint step_items (l : list item) (k : cnt) : list Analysis.item * cnt :=
    match l with
    | [] => ([], k)
    | IText t :: r =>
        let '(its1, q) := text_items (toks_text t) (n_q k) in
        let '(its, k') := step_items r {| n_i := n_i k; n_c := n_c k; n_t := n_t k; n_q := q |} in
        (its1 ++ its, k')
    | IComp c :: r =>
        let '(it, k1) := comp_item c k in
        let '(its, k') := step_items r k1 in (it :: its, k')
    end.
End Inline.

(* the lines of a `>` block joined by one blank *)
Fixpoint tlines_text (ls : list tline) : str :=
  match ls with
  | [] => []
  | [l] => toks_text (tl_toks l)
  | l :: r => toks_text (tl_toks l) ++ [32] ++ tlines_text r
  end.

Definition close_section (name : option str) (content : list Analysis.content) : list Analysis.section :=
  match name, content with
  | None, [] => []
  | _, _ => [{| Analysis.sec_name := name; Analysis.sec_content := content |}]
  end.

Section Sections.
  Variable find_iq : str -> option (str * str).
  Variable inline : bool.

  (* [name], [content], [num]: the section being filled and the number of its next step *)
  Fixpoint sections_of (d : list block) (name : option str) (content : list Analysis.content) (num : nat) (k : cnt)
    : list Analysis.section :=
    match d with
    | [] => close_section name content
    | BkMeta _ _ :: r => sections_of r name content num k
    | BkSection _ nm _ _ :: r =>
        close_section name content ++ sections_of r (Some (clean (toks_text nm))) [] 1 k
    | BkStep items :: r =>
        let '(its, k') := step_items find_iq inline items k in
        sections_of r name (content ++ [Analysis.CStep {| Analysis.st_items := its; Analysis.st_number := num |}]) (S num) k'
    | BkText ls :: r =>
        sections_of r name (content ++ [Analysis.CText (tlines_text ls)]) num k
    end.

  (* the number of inline quantities of the document *)
  Fixpoint inline_count (d : list block) (k : cnt) : nat :=
    match d with
    | [] => n_q k
    | BkStep items :: r => inline_count r (snd (step_items find_iq inline items k))
    | _ :: r => inline_count r k
    end.
End Sections.

Definition denote (ci : str -> str) (find_iq : str -> option (str * str)) (inline : bool) (d : list block) : Analysis.recipe :=
  let cs := doc_comps d in
  {| Analysis.r_sections := sections_of find_iq inline d None [] 1 cnt0;
     Analysis.r_ingredients := table ci inherit_igr [] (doc_entries is_igr d ictx0);
     Analysis.r_cookware := table ci inherit_cw [] (doc_entries is_cw d ictx0);
     Analysis.r_timers := map raw_timer (filter is_tm cs);
     Analysis.r_inline := inline_count find_iq inline d cnt0 |}.

(* the metadata entries, in order: cleaned key, trimmed value *)
Definition meta_entries (d : list block) : list (str * str) :=
  flat_map (fun b => match b with BkMeta k v => [(clean (toks_text k), trim (toks_text v))] | _ => [] end) d.

(* ---------------------------------------------------------------- the class covered *)
Definition bracketed (k : str) : bool :=
  match k, rev k with c :: _, e :: _ => (c =? 91) && (e =? 93) | _, _ => false end.

Definition nsteps (d : list block) : nat := length (filter (fun b => match b with BkStep _ => true | _ => false end) d).

Section Class.
  Variable ci : str -> str.
  Variable find_iq : str -> option (str * str).   (* find_inline_quantity: None = nothing found *)
  Variable unit_class : str -> N.                 (* converter.find_unit: 1 = a time unit *)
  Variable x : Analysis.aext.

  Definition timer_ok (c : cspec) : bool :=
    negb (Analysis.x_advanced x) ||
    match denote_cqty (cs_body c) with
    | Some (v, _, u) => negb (is_text_value v) && match u with Some un => unit_class un =? 1 | None => true end
    | None => true
    end.

  Definition inter_invalid : Events.modifiers :=    (* `@` recipe, `-` hidden, `+` new *)
    {| Events.m_recipe := true; Events.m_ref := false; Events.m_hidden := true; Events.m_opt := false; Events.m_new := true |}.

  (* intermediate-reference data: on an ingredient, with `&`, without `@ - +`, and the target exists *)
  Definition inter_ok (k : ictx) (c : cspec) : bool :=
    match mods_inter (cs_mods c) with
    | Some (rel, sec, v) =>
        is_igr c && Events.m_ref (cs_mod_set c) &&
        negb (Events.mods_intersects (cs_mod_set c) inter_invalid) &&
        Events.is_some (inter_rel k rel sec v)
    | None => true
    end.

  Definition aitem_ok (k : ictx) (i : item) : bool :=
    match i with
    | IText t => negb (is_nil (toks_text t)) &&      (* implied by block_ok; repeated here *)
                 (negb (Analysis.x_inline x) ||      (* the oracle consumes text: see iq_split *)
                  Events.is_some (iq_split find_iq (S (length (toks_text t))) (toks_text t) 0))
    | IComp c => inter_ok k c && match cs_kind c with CTm => timer_ok c | _ => true end
    end.

  Definition ablock_ok (k : ictx) (b : block) : bool :=
    match b with
    | BkMeta key _ => negb (Analysis.x_modes x && bracketed (clean (toks_text key)))
    | BkStep items => forallb (aitem_ok k) items
    | _ => true
    end.

  Fixpoint ablocks_ok (d : list block) (k : ictx) : bool :=
    match d with
    | [] => true
    | b :: r => ablock_ok k b && ablocks_ok r (next_ctx k b)
    end.

  (* decidable given the oracles: no mode switch, timers acceptable to ADVANCED_UNITS, every intermediate reference has its target, every `&` a well-formed reference,
     and the step counter stays within u32 *)
  Definition adoc_ok (d : list block) : bool :=
    ablocks_ok d ictx0 &&
    refs_ok ci inherit_igr [] (doc_entries is_igr d ictx0) &&
    refs_ok ci inherit_cw [] (doc_entries is_cw d ictx0) &&
    (N.of_nat (nsteps d) <? 4294967295).
End Class.
