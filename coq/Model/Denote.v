(* C01, recipe level: the recipe a printed document (Model/Printer.v: list of blocks) is intended
   to denote, as a value of the recipe structure of Model/Analysis.v (src/model.rs).  Nothing here
   is a model of Rust code: [denote] is written over the document, not over events, and is what
   the analysis model is proved to return for the events of the printed text
   (Proofs/RoundTripAnalysis.v).

   The reading:
   - every component occurrence is an entry of the table of its kind, in document order; a step
     item holds the index of the entry;
   - name, alias, note are the cleaned texts; an ingredient name that is a relative path
     (`./x/y`, `../y`) keeps its last segment and is a recipe reference;
   - a quantity scales linearly exactly when it belongs to an ingredient, is a number or a range
     and has no `=` lock; otherwise it is fixed; cookware quantities have no unit;
   - a component that is a reference refers to the last earlier definition of the same name
     (names compared through the case folding [ci]); it inherits the definition's
     recipe/hidden/optional modifiers (hidden/optional for cookware), carries the reference modifier,
     and the definition records the back link, in order.  Which occurrences are references depends on the
     modes in force ([tag_of]): one written with `+` never is; otherwise one written with `&` is, every one
     is in steps mode, and in duplicate-reference mode one is exactly when an earlier definition of its
     name exists;
   - steps are numbered 1, 2, .. inside each section; text blocks are not numbered; the lines
     of a `>` block are joined by one blank;
   - a section line closes the current section; the section before the first section line has
     no name and exists only if it has content;
   - an ingredient with intermediate-reference data refers to a step of the current section (`&(2)`: its
     second step, `&(~1)`: the last step so far) or to a closed section (`&(=1)`: the first section of the
     recipe, `&(=~1)`: the previous one); the target is the position in the section's content / in the
     list of sections; such an entry takes part in no name lookup;
   - with INLINE_QUANTITIES ([inline]) a text piece of a step is cut at every quantity the converter finds
     in it ([find_iq], an oracle: text before the quantity, text after it): the text before, an inline
     quantity item (numbered in document order), and so on with the rest;
   - with MODES ([modes]) a `>>` entry whose cleaned key is `[mode]` / `[define]` or `[duplicate]` is a mode
     switch ([config_of], [next_mode]) for the blocks after it:
       all | default            the reading above;
       components | ingredients a step block only lists components: they enter the tables (a definition is
                                marked "not defined in a step"), its text is omitted, it is no step of the
                                section and takes no step number; `>` blocks stay;
       steps                    every component without `+` is a reference;
       text                     a step block is a text block: its text pieces and its components as written
                                (the source of the component without its comments), no table entry;
       [duplicate]: new | default / reference | ref   see references above.
     A `[..]` key that is none of the three changes nothing (the code warns).  The three mode keys are not
     entries of the metadata map ([kept_entries]); every other `>>` entry is.
   The recipe structure of Model/Analysis.v keeps of a quantity its value, whether it is text, whether it is
   fixed, and its unit.  The value is stated here from the document ([value_of] of the printer's document
   value, Model/Printer.v [denote_value]: the decimal written, exactly; `w a/b` as w + a/b; both ends of a
   range; the cleaned text), so the recipe-level round trip covers the numbers, not only the event-level one
   (C01_events_roundtrip).
   Text mode is inside the class proved ([adoc_ok]): there the collector copies the source range of each
   component, and Proofs/RoundTripSpans.v shows that in a printed document this range is the printed component
   (a component event spans exactly the tokens its parser consumed), whose copy without comments is
   [written (print_comp c)]. *)
From CL Require Export Model.Printer.
From CL Require Model.Events Model.Analysis.

Definition is_text_value (v : value) : bool := match v with VText _ => true | _ => false end.

(* the number a written number stands for: a decimal literal `12.50` is that decimal, exactly ([NReg q]
   holds it: Model/Printer.v [denote_num], [dec_q]); `w a/b` is w + a/b (the printer only writes b <> 0:
   [num_wf]; N.succ_pos (N.pred b) is b as a positive then) *)
Definition num_value (n : num) : Q :=
  match n with
  | NReg q => q
  | NFrac w a b => Qplus (inject_Z (Z.of_N w)) (Qmake (Z.of_N a) (N.succ_pos (N.pred b)))
  end.

(* the value of a quantity as the recipe holds it: a number, a range with its two ends in the order
   written, or the text *)
Definition value_of (v : value) : Events.pvalue :=
  match v with
  | VNum n => Events.VNumber (num_value n)
  | VRange a b => Events.VRange (num_value a) (num_value b)
  | VText s => Events.VText s
  end.

Definition qinfo_of (igr keep_unit : bool) (q : value * bool * option str) : Analysis.qinfo :=
  let '(v, lock, u) := q in
  {| Analysis.qi_text := is_text_value v;
     Analysis.qi_fixed := negb (igr && negb (is_text_value v) && negb lock);
     Analysis.qi_unit := if keep_unit then u else None;
     Analysis.qi_value := value_of v |}.

Definition is_igr (c : cspec) : bool := match cs_kind c with CIgr => true | _ => false end.
Definition is_cw (c : cspec) : bool := match cs_kind c with CCw => true | _ => false end.
Definition is_tm (c : cspec) : bool := match cs_kind c with CTm => true | _ => false end.

Definition cs_mod_set (c : cspec) : Events.modifiers := Events.mods_of_bits (mods_bits (cs_mods c)).

(* ---------------------------------------------------------------- mode switches *)
(* the modes in force: how step blocks are read ([Analysis.define_mode] is used as the plain enumeration
   all / components / steps / text) and whether a repeated name is a reference *)
Record mode := { md_define : Analysis.define_mode; md_dupref : bool }.
Definition mode0 : mode := {| md_define := Analysis.DMAll; md_dupref := false |}.

Definition in_components (m : mode) : bool := match md_define m with Analysis.DMComponents => true | _ => false end.
Definition in_steps (m : mode) : bool := match md_define m with Analysis.DMSteps => true | _ => false end.
Definition in_text_mode (m : mode) : bool := match md_define m with Analysis.DMText => true | _ => false end.

Definition bracketed (k : str) : bool :=
  match k, rev k with c :: _, e :: _ => (c =? 91) && (e =? 93) | _, _ => false end.

(* the words of extensions.md, section Modes *)
Definition w_mode : str := [109;111;100;101].
Definition w_define : str := [100;101;102;105;110;101].
Definition w_duplicate : str := [100;117;112;108;105;99;97;116;101].
Definition w_all : str := [97;108;108].
Definition w_default : str := [100;101;102;97;117;108;116].
Definition w_components : str := [99;111;109;112;111;110;101;110;116;115].
Definition w_ingredients : str := [105;110;103;114;101;100;105;101;110;116;115].
Definition w_steps : str := [115;116;101;112;115].
Definition w_text : str := [116;101;120;116].
Definition w_new : str := [110;101;119].
Definition w_reference : str := [114;101;102;101;114;101;110;99;101].
Definition w_ref : str := [114;101;102].

Definition one_of (s : str) (l : list str) : bool := existsb (str_eqb s) l.

(* what a `>>` entry with a `[..]` key says: [k] the cleaned key, [v] the trimmed value.
   None: not a config entry; CfBad: a mode key with a value that is none of the documented ones (an error of
   the code); CfUnknown: another `[..]` key (a warning of the code, no effect) *)
Inductive config := CfDefine (d : Analysis.define_mode) | CfDup (r : bool) | CfBad | CfUnknown.

Definition config_of (k v : str) : option config :=
  if bracketed k then
    let ck := removelast (tl k) in      (* the key between the brackets, as it is: `[ mode ]` is not `[mode]` *)
    Some (if one_of ck [w_define; w_mode] then
            if one_of v [w_all; w_default] then CfDefine Analysis.DMAll
            else if one_of v [w_components; w_ingredients] then CfDefine Analysis.DMComponents
            else if str_eqb v w_steps then CfDefine Analysis.DMSteps
            else if str_eqb v w_text then CfDefine Analysis.DMText
            else CfBad
          else if str_eqb ck w_duplicate then
            if one_of v [w_new; w_default] then CfDup false
            else if one_of v [w_reference; w_ref] then CfDup true
            else CfBad
          else CfUnknown)
  else None.

Definition block_config (b : block) : option config :=
  match b with
  | BkMeta k v => config_of (clean (toks_text k)) (trim (toks_text v))
  | _ => None
  end.

(* the modes after a block; [modes]: the MODES extension is on *)
Definition next_mode (modes : bool) (m : mode) (b : block) : mode :=
  if modes then
    match block_config b with
    | Some (CfDefine d) => {| md_define := d; md_dupref := md_dupref m |}
    | Some (CfDup r) => {| md_define := md_define m; md_dupref := r |}
    | _ => m
    end
  else m.

(* ---------------------------------------------------------------- table entries *)
(* the table entry of an ingredient or cookware occurrence, before references are resolved; in components
   mode a definition is not "defined in a step" *)
Definition raw_comp (m : mode) (c : cspec) : Analysis.component :=
  let name0 := clean (toks_text (cs_name c)) in
  let isp := is_igr c && Analysis.is_path_name name0 in
  {| Analysis.c_name := if isp then Analysis.last_segment name0 [] else name0;
     Analysis.c_alias := option_map (fun a => clean (toks_text a)) (cs_alias c);
     Analysis.c_qty := option_map (qinfo_of (is_igr c) (is_igr c)) (denote_cqty (cs_body c));
     Analysis.c_note := option_map (fun n => clean (toks_text n)) (cs_note c);
     Analysis.c_rref := isp;
     Analysis.c_mods := cs_mod_set c;
     Analysis.c_rel := Analysis.RDef [] (negb (in_components m)) |}.

Definition raw_timer (c : cspec) : Analysis.rtimer :=
  {| Analysis.tm_name := if str_blank (toks_text (cs_name c)) then None else Some (clean (toks_text (cs_name c)));
     Analysis.tm_qty := option_map (qinfo_of false true) (denote_cqty (cs_body c)) |}.

(* ---------------------------------------------------------------- references *)
Definition is_def (c : Analysis.component) : bool :=
  match Analysis.c_rel c with Analysis.RDef _ _ => true | Analysis.RRef _ _ => false end.
Definition def_in_step (c : Analysis.component) : bool :=
  match Analysis.c_rel c with Analysis.RDef _ dis => dis | Analysis.RRef _ _ => true end.
Definition has_qty (c : Analysis.component) : bool := Events.is_some (Analysis.c_qty c).

(* the index of the last element satisfying p *)
Fixpoint last_index {A} (p : A -> bool) (l : list A) (i : nat) (acc : option nat) : option nat :=
  match l with
  | [] => acc
  | a :: r => last_index p r (S i) (if p a then Some i else acc)
  end.

(* an occurrence on its way into a table: [en_inter] says "carries intermediate-reference data" (then no name
   lookup takes place), [en_mode] the modes in force where it stands *)
Record entry := { en_inter : bool; en_mode : mode; en_comp : Analysis.component }.

(* how an occurrence is read: TDef a definition; TRef a reference (there must be a definition); TDup a reference
   if there is an earlier definition of the name, a definition otherwise *)
Inductive etag := TInter | TDef | TRef | TDup.
Definition tag_of (e : entry) : etag :=
  if en_inter e then TInter
  else let ms := Analysis.c_mods (en_comp e) in
       if Events.m_new ms then TDef
       else if Events.m_ref ms || in_steps (en_mode e) then TRef
       else if md_dupref (en_mode e) then TDup
       else TDef.

Section Refs.
  Variable ci : str -> str.                    (* case folding of names *)
  Variable inherit : Events.modifiers.         (* the modifiers a reference takes from its definition *)

  Definition find_def (tbl : list Analysis.component) (name : str) : option nat :=
    last_index (fun o => is_def o && str_eqb (ci name) (ci (Analysis.c_name o))) tbl 0%nat None.

  Definition add_backlink (def : Analysis.component) (k : nat) : Analysis.component :=
    match Analysis.c_rel def with
    | Analysis.RDef rf dis => Analysis.set_rel def (Analysis.RDef (rf ++ [k]) dis)
    | _ => def
    end.

  Definition as_reference (raw def : Analysis.component) (j : nat) : Analysis.component :=
    Analysis.set_mods_rel raw
      (Events.mods_or (Events.mods_or (Analysis.c_mods raw) (Events.mods_and (Analysis.c_mods def) inherit)) Events.M_ref_only)
      (Analysis.RRef j Analysis.TgComponent).

  (* the table after a reference to the last earlier definition of the name, if there is one *)
  Definition add_comp (tbl : list Analysis.component) (raw : Analysis.component) : list Analysis.component :=
    match find_def tbl (Analysis.c_name raw) with
    | Some j =>
        match nth_error tbl j with
        | Some def => Analysis.upd_nth tbl j (add_backlink def (length tbl)) ++ [as_reference raw def j]
        | None => tbl ++ [raw]
        end
    | None => tbl ++ [raw]
    end.

  (* the table after one more occurrence *)
  Definition add_entry (tbl : list Analysis.component) (e : entry) : list Analysis.component :=
    match tag_of e with
    | TInter | TDef => tbl ++ [en_comp e]
    | TRef | TDup => add_comp tbl (en_comp e)
    end.

  (* a reference is well formed against its definition: no note; no modifier of its own that the definition
     does not have; no quantity when the definition has one and stands in a components-mode list *)
  Definition link_ok (raw def : Analysis.component) : bool :=
    negb (Events.is_some (Analysis.c_note raw)) &&
    Events.mods_is_empty
      (Events.mods_diff (Events.mods_diff (Analysis.c_mods raw) (Events.mods_and (Analysis.c_mods def) inherit))
         Events.M_ref_only) &&
    negb (has_qty def && has_qty raw && negb (def_in_step def)).

  Definition found_ok (tbl : list Analysis.component) (raw : Analysis.component) (unless_none : bool) : bool :=
    match find_def tbl (Analysis.c_name raw) with
    | Some j => match nth_error tbl j with Some def => link_ok raw def | None => false end
    | None => unless_none
    end.

  (* an occurrence is well formed: never `+` together with `&`; a reference has its definition *)
  Definition entry_ok (tbl : list Analysis.component) (e : entry) : bool :=
    match tag_of e with
    | TInter => true
    | TDef => negb (Events.m_new (Analysis.c_mods (en_comp e)) && Events.m_ref (Analysis.c_mods (en_comp e)))
    | TRef => found_ok tbl (en_comp e) false
    | TDup => found_ok tbl (en_comp e) true
    end.

  Fixpoint refs_ok (tbl : list Analysis.component) (es : list entry) : bool :=
    match es with
    | [] => true
    | e :: rest => entry_ok tbl e && refs_ok (add_entry tbl e) rest
    end.

  Definition table (tbl : list Analysis.component) (es : list entry) : list Analysis.component :=
    fold_left add_entry es tbl.
End Refs.

Definition inherit_igr : Events.modifiers :=
  {| Events.m_recipe := true; Events.m_ref := false; Events.m_hidden := true; Events.m_opt := true; Events.m_new := false |}.
Definition inherit_cw : Events.modifiers :=
  {| Events.m_recipe := false; Events.m_ref := false; Events.m_hidden := true; Events.m_opt := true; Events.m_new := false |}.

(* ---------------------------------------------------------------- intermediate references *)
(* what a step sees: for each entry of the current section whether it is a step, how many sections
   are closed, whether the current section has a name *)
Record ictx := { ic_kinds : list bool; ic_nsecs : nat; ic_named : bool }.
Definition ictx0 : ictx := {| ic_kinds := []; ic_nsecs := 0; ic_named := false |}.

Fixpoint positions (i : nat) (kinds : list bool) : list nat :=
  match kinds with
  | [] => []
  | b :: r => (if b then [i] else []) ++ positions (S i) r
  end.

(* [rel]: counted from the end (`~`); [sec]: a section (`=`); [v]: the number written.  None: no such target *)
Definition inter_rel (k : ictx) (rel sec : bool) (v : N) : option Analysis.relation :=
  match N.to_nat v with
  | O => None
  | S v1 =>
      if sec then
        if rel then (if (ic_nsecs k <? S v1)%nat then None
                     else Some (Analysis.RRef (ic_nsecs k - S v1) Analysis.TgSection))
        else (if (ic_nsecs k <=? v1)%nat then None else Some (Analysis.RRef v1 Analysis.TgSection))
      else
        let ps := positions 0 (ic_kinds k) in
        option_map (fun i => Analysis.RRef i Analysis.TgStep) (nth_error (if rel then rev ps else ps) v1)
  end.

Definition mk_entry (m : mode) (k : ictx) (c : cspec) : entry :=
  match mods_inter (cs_mods c) with
  | Some (rel, sec, v) =>
      {| en_inter := true; en_mode := m;
         en_comp := match inter_rel k rel sec v with
                    | Some r => Analysis.set_rel (raw_comp m c) r
                    | None => raw_comp m c
                    end |}
  | None => {| en_inter := false; en_mode := m; en_comp := raw_comp m c |}
  end.

(* ---------------------------------------------------------------- steps, sections *)
Definition item_comps (l : list item) : list cspec :=
  flat_map (fun i => match i with IComp c => [c] | IText _ => [] end) l.
Definition block_comps (b : block) : list cspec :=
  match b with BkStep items => item_comps items | _ => [] end.

(* a component as written, without its comments; a step block read as text (text mode) *)
Definition is_comment_k (k : tkind) : bool := match k with KLineComment | KBlockComment => true | _ => false end.
Definition written (p : list ptok) : str := concat (map snd (filter (fun t => negb (is_comment_k (fst t))) p)).
Definition items_written (l : list item) : str :=
  concat (map (fun i => match i with IText t => toks_text t | IComp c => written (print_comp c) end) l).
Definition text_content (tx : str) : list Analysis.content := if is_nil tx then [] else [Analysis.CText tx].

Definition next_ctx (m : mode) (k : ictx) (b : block) : ictx :=
  match b with
  | BkMeta _ _ => k
  | BkSection _ _ _ _ =>
      {| ic_kinds := [];
         ic_nsecs := if negb (ic_named k) && is_nil (ic_kinds k) then ic_nsecs k else S (ic_nsecs k);
         ic_named := true |}
  | BkStep items =>
      match md_define m with
      | Analysis.DMComponents => k
      | Analysis.DMText =>
          {| ic_kinds := ic_kinds k ++ map (fun _ => false) (text_content (items_written items));
             ic_nsecs := ic_nsecs k; ic_named := ic_named k |}
      | _ => {| ic_kinds := ic_kinds k ++ [true]; ic_nsecs := ic_nsecs k; ic_named := ic_named k |}
      end
  | BkText _ => {| ic_kinds := ic_kinds k ++ [false]; ic_nsecs := ic_nsecs k; ic_named := ic_named k |}
  end.

(* how many entries each table has so far; [n_q]: inline quantities *)
Record cnt := { n_i : nat; n_c : nat; n_t : nat; n_q : nat }.
Definition cnt0 : cnt := {| n_i := 0; n_c := 0; n_t := 0; n_q := 0 |}.

Definition comp_item (c : cspec) (k : cnt) : Analysis.item * cnt :=
  match cs_kind c with
  | CIgr => (Analysis.IIngredient (n_i k), {| n_i := S (n_i k); n_c := n_c k; n_t := n_t k; n_q := n_q k |})
  | CCw => (Analysis.ICookware (n_c k), {| n_i := n_i k; n_c := S (n_c k); n_t := n_t k; n_q := n_q k |})
  | CTm => (Analysis.ITimer (n_t k), {| n_i := n_i k; n_c := n_c k; n_t := S (n_t k); n_q := n_q k |})
  end.

(* the counters after the components of a components-mode block *)
Definition comps_cnt (items : list item) (k : cnt) : cnt :=
  fold_left (fun k c => snd (comp_item c k)) (item_comps items) k.

Section Inline.
  Variable find_iq : str -> option (str * str).   (* find_inline_quantity: text before, text after *)
  Variable inline : bool.                         (* INLINE_QUANTITIES *)

  (* None: the oracle kept finding quantities without consuming text (the real function returns a strict
     suffix, so one unit of fuel per character suffices) *)
  Fixpoint iq_split (fuel : nat) (hay : str) (n : nat) : option (list Analysis.item * nat) :=
    match find_iq hay with
    | Some (before, after) =>
        match fuel with
        | O => None
        | S f =>
            match iq_split f after (S n) with
            | Some (its, n') =>
                Some ((if is_nil before then [] else [Analysis.IText before]) ++ Analysis.IInline n :: its, n')
            | None => None
            end
        end
    | None => Some (if is_nil hay then [] else [Analysis.IText hay], n)
    end.

  Definition text_items (tx : str) (n : nat) : list Analysis.item * nat :=
    if inline then match iq_split (S (length tx)) tx n with Some r => r | None => ([Analysis.IText tx], n) end
    else ([Analysis.IText tx], n).

  Fixpoint step_items (l : list item) (k : cnt) : list Analysis.item * cnt :=
    match l with
    | [] => ([], k)
    | IText t :: r =>
        let '(its1, q) := text_items (toks_text t) (n_q k) in
        let '(its, k') := step_items r {| n_i := n_i k; n_c := n_c k; n_t := n_t k; n_q := q |} in
        (its1 ++ its, k')
    | IComp c :: r =>
        let '(it, k1) := comp_item c k in
        let '(its, k') := step_items r k1 in (it :: its, k')
    end.
End Inline.

(* the lines of a `>` block joined by one blank *)
Fixpoint tlines_text (ls : list tline) : str :=
  match ls with
  | [] => []
  | [l] => toks_text (tl_toks l)
  | l :: r => toks_text (tl_toks l) ++ [32] ++ tlines_text r
  end.

Definition close_section (name : option str) (content : list Analysis.content) : list Analysis.section :=
  match name, content with
  | None, [] => []
  | _, _ => [{| Analysis.sec_name := name; Analysis.sec_content := content |}]
  end.

Section Sections.
  Variable find_iq : str -> option (str * str).
  Variable inline : bool.
  Variable modes : bool.                          (* MODES *)

  (* the table entries of one kind ([sel]) in document order, each made in the modes and the context of its
     step; a text-mode block has none *)
  Fixpoint doc_entries (sel : cspec -> bool) (d : list block) (m : mode) (k : ictx) : list entry :=
    match d with
    | [] => []
    | b :: r =>
        (if in_text_mode m then [] else map (mk_entry m k) (filter sel (block_comps b)))
        ++ doc_entries sel r (next_mode modes m b) (next_ctx m k b)
    end.

  (* the components that are read as components *)
  Fixpoint live_comps (d : list block) (m : mode) : list cspec :=
    match d with
    | [] => []
    | b :: r => (if in_text_mode m then [] else block_comps b) ++ live_comps r (next_mode modes m b)
    end.

  (* [name], [content], [num]: the section being filled and the number of its next step *)
  Fixpoint sections_of (d : list block) (m : mode) (name : option str) (content : list Analysis.content) (num : nat) (k : cnt)
    : list Analysis.section :=
    match d with
    | [] => close_section name content
    | b :: r =>
        let m' := next_mode modes m b in
        match b with
        | BkMeta _ _ => sections_of r m' name content num k
        | BkSection _ nm _ _ =>
            close_section name content ++ sections_of r m' (Some (clean (toks_text nm))) [] 1 k
        | BkStep items =>
            match md_define m with
            | Analysis.DMComponents => sections_of r m' name content num (comps_cnt items k)
            | Analysis.DMText => sections_of r m' name (content ++ text_content (items_written items)) num k
            | _ =>
                let '(its, k') := step_items find_iq inline items k in
                sections_of r m' name (content ++ [Analysis.CStep {| Analysis.st_items := its; Analysis.st_number := num |}]) (S num) k'
            end
        | BkText ls =>
            sections_of r m' name (content ++ [Analysis.CText (tlines_text ls)]) num k
        end
    end.

  (* the number of inline quantities of the document *)
  Fixpoint inline_count (d : list block) (m : mode) (k : cnt) : nat :=
    match d with
    | [] => n_q k
    | b :: r =>
        let m' := next_mode modes m b in
        match b with
        | BkStep items =>
            match md_define m with
            | Analysis.DMComponents => inline_count r m' (comps_cnt items k)
            | Analysis.DMText => inline_count r m' k
            | _ => inline_count r m' (snd (step_items find_iq inline items k))
            end
        | _ => inline_count r m' k
        end
    end.
End Sections.

Definition denote (ci : str -> str) (find_iq : str -> option (str * str)) (inline modes : bool) (d : list block) : Analysis.recipe :=
  {| Analysis.r_sections := sections_of find_iq inline modes d mode0 None [] 1 cnt0;
     Analysis.r_ingredients := table ci inherit_igr [] (doc_entries modes is_igr d mode0 ictx0);
     Analysis.r_cookware := table ci inherit_cw [] (doc_entries modes is_cw d mode0 ictx0);
     Analysis.r_timers := map raw_timer (filter is_tm (live_comps modes d mode0));
     Analysis.r_inline := inline_count find_iq inline modes d mode0 cnt0 |}.

(* text mode is in force for some block of the document (at the first block: [m]) *)
Fixpoint text_reached (modes : bool) (d : list block) (m : mode) : bool :=
  match d with
  | [] => false
  | b :: r => in_text_mode m || text_reached modes r (next_mode modes m b)
  end.

(* the metadata entries, in order: cleaned key, trimmed value *)
Definition meta_entries (d : list block) : list (str * str) :=
  flat_map (fun b => match b with BkMeta k v => [(clean (toks_text k), trim (toks_text v))] | _ => [] end) d.

(* a `>>` entry that is one of the three mode keys while MODES is on: it is not an entry of the metadata map *)
Definition mode_key (modes : bool) (k : str) : bool :=
  modes && bracketed k &&
  (let ck := removelast (tl k) in str_eqb ck w_define || str_eqb ck w_mode || str_eqb ck w_duplicate).

(* the entries of the metadata map, in order: every `>>` entry that is not a mode switch (cleaned key, trimmed value) *)
Definition kept_entries (modes : bool) (d : list block) : list (str * str) :=
  flat_map (fun b => match b with
                     | BkMeta k v => if mode_key modes (clean (toks_text k)) then [] else [(clean (toks_text k), trim (toks_text v))]
                     | _ => []
                     end) d.

(* ---------------------------------------------------------------- the class covered *)
Definition nsteps (d : list block) : nat := length (filter (fun b => match b with BkStep _ => true | _ => false end) d).

Section Class.
  Variable ci : str -> str.
  Variable find_iq : str -> option (str * str).   (* find_inline_quantity: None = nothing found *)
  Variable unit_class : str -> N.                 (* converter.find_unit: 1 = a time unit *)
  Variable x : Analysis.aext.

  Definition timer_ok (c : cspec) : bool :=
    negb (Analysis.x_advanced x) ||
    match denote_cqty (cs_body c) with
    | Some (v, _, u) => negb (is_text_value v) && match u with Some un => unit_class un =? 1 | None => true end
    | None => true
    end.

  Definition inter_invalid : Events.modifiers :=    (* `@` recipe, `-` hidden, `+` new *)
    {| Events.m_recipe := true; Events.m_ref := false; Events.m_hidden := true; Events.m_opt := false; Events.m_new := true |}.

  (* intermediate-reference data: on an ingredient, with `&`, without `@ - +`, and the target exists *)
  Definition inter_ok (k : ictx) (c : cspec) : bool :=
    match mods_inter (cs_mods c) with
    | Some (rel, sec, v) =>
        is_igr c && Events.m_ref (cs_mod_set c) &&
        negb (Events.mods_intersects (cs_mod_set c) inter_invalid) &&
        Events.is_some (inter_rel k rel sec v)
    | None => true
    end.

  Definition aitem_ok (m : mode) (k : ictx) (i : item) : bool :=
    match i with
    | IText t => negb (is_nil (toks_text t)) &&      (* implied by block_ok; repeated here *)
                 (negb (Analysis.x_inline x) || in_components m ||     (* the oracle consumes text: see iq_split *)
                  Events.is_some (iq_split find_iq (S (length (toks_text t))) (toks_text t) 0))
    | IComp c => inter_ok k c && match cs_kind c with CTm => timer_ok c | _ => true end
    end.

  (* a `>>` entry while MODES is on: not a mode key with an undocumented value *)
  Definition config_ok (b : block) : bool :=
    negb (Analysis.x_modes x) ||
    match block_config b with
    | Some CfBad => false
    | _ => true
    end.

  (* in text mode a step block is text: nothing in it is analysed *)
  Definition ablock_ok (m : mode) (k : ictx) (b : block) : bool :=
    match b with
    | BkMeta _ _ => config_ok b
    | BkStep items => in_text_mode m || forallb (aitem_ok m k) items
    | _ => true
    end.

  Fixpoint ablocks_ok (d : list block) (m : mode) (k : ictx) : bool :=
    match d with
    | [] => true
    | b :: r => ablock_ok m k b && ablocks_ok r (next_mode (Analysis.x_modes x) m b) (next_ctx m k b)
    end.

  (* decidable given the oracles: every mode switch has a documented value; outside text mode timers are
     acceptable to ADVANCED_UNITS, every intermediate reference has its target, every reference (by `&`, by steps
     mode, by duplicate-reference mode) is well formed; and the step counter stays within u32 *)
  Definition adoc_ok (d : list block) : bool :=
    ablocks_ok d mode0 ictx0 &&
    refs_ok ci inherit_igr [] (doc_entries (Analysis.x_modes x) is_igr d mode0 ictx0) &&
    refs_ok ci inherit_cw [] (doc_entries (Analysis.x_modes x) is_cw d mode0 ictx0) &&
    (N.of_nat (nsteps d) <? 4294967295).
End Class.
