(* Model of the standard metadata interpretation of /repo/src/metadata.rs
   (CooklangValueExt accessors, Metadata::{time,servings,tags,author,source,locale},
   check_std_entry) at the level of strings (lists of code points) and YAML values.

   * u32 arithmetic of the compact `HhMm` parser and of RecipeTime::total is
     written out as checked operations: [Panic site] with overflow checks
     (debug build), reduction mod 2^32 without (release build).
   * f64 is modelled by exact rationals; `as u32` is Rust's saturating cast.
   * [cfg] selects, defect by defect, the behaviour of the code before / after
     the repairs (fix_* = false is the code as it was found).
   * oracles: [pf] = str::parse::<f64> (a concrete grammar [parse_f64] is given
     below and is what the runner uses; theorems are stated for an arbitrary
     [pf] with explicit hypotheses), [alpha] = char::is_alphabetic, the text of
     a YAML number (serde_yaml Number::to_string), the converter's unit table. *)
From Coq Require Export QArith Qround ZArith.
From CL Require Export Base.Chars.
Open Scope N_scope.

(* ------------------------------------------------------------ configuration *)

Record cfg := {
  debug : bool;       (* overflow checks on (debug build) *)
  fix_hm : bool;      (* checked arithmetic in parse_common_time_format *)
  fix_cast : bool;    (* range check before `as u32` *)
  fix_total : bool;   (* RecipeTime::total saturates *)
  fix_url : bool;     (* `name <url>` validates the url *)
  fix_blank : bool    (* a blank time string is refused like the empty one *)
}.
Definition cfg_old (dbg : bool) : cfg :=
  {| debug := dbg; fix_hm := false; fix_cast := false; fix_total := false; fix_url := false; fix_blank := false |}.
Definition cfg_new (dbg : bool) : cfg :=
  {| debug := dbg; fix_hm := true; fix_cast := true; fix_total := true; fix_url := true; fix_blank := true |}.

Definition two32 : N := 4294967296.
Definition u32_max : N := 4294967295.

Definition site_hm_mul : N := 1.   (* metadata.rs `hours * 60` *)
Definition site_hm_add : N := 2.   (* metadata.rs `total_minutes += ..` *)
Definition site_total_sum : N := 3.   (* RecipeTime::total `.sum()` *)

(* a u32 `*` / `+` whose exact result is x *)
Definition u32_op (c : cfg) (site : N) (x : N) : outcome N :=
  if x <? two32 then Done x else if debug c then Panic site else Done (x mod two32).

(* ------------------------------------------------------------ YAML values *)

(* serde_yaml::Value.  A number carries what as_u64() answers and its
   to_string() (both oracles shipped by the harness). *)
Inductive yaml :=
| YNull
| YBool (b : bool)
| YNum (u : option N) (text : str)
| YStr (s : str)
| YSeq (l : list yaml)
| YMap (l : list (yaml * yaml))
| YTagged (tag : str) (v : yaml).

(* Value::untag_ref *)
Fixpoint untag (v : yaml) : yaml :=
  match v with YTagged _ w => untag w | _ => v end.

Definition as_str (v : yaml) : option str :=
  match untag v with YStr s => Some s | _ => None end.
Definition as_u64 (v : yaml) : option N :=
  match untag v with YNum u _ => u | _ => None end.
(* metadata.rs 396-398 *)
Definition as_u32 (v : yaml) : option N :=
  match as_u64 v with Some n => if n <? two32 then Some n else None | None => None end.
Definition as_sequence (v : yaml) : option (list yaml) :=
  match untag v with YSeq l => Some l | _ => None end.
Definition as_mapping (v : yaml) : option (list (yaml * yaml)) :=
  match untag v with YMap l => Some l | _ => None end.

(* metadata.rs 404-412: the Number test does NOT look through tags *)
Definition as_str_like (v : yaml) : option str :=
  match as_str v with
  | Some s => Some s
  | None => match v with YNum _ t => Some t | _ => None end
  end.

(* Mapping::get(&str) *)
Fixpoint map_get (m : list (yaml * yaml)) (k : str) : option yaml :=
  match m with
  | [] => None
  | (YStr k', v) :: r => if str_eqb k' k then Some v else map_get r k
  | _ :: r => map_get r k
  end.

(* ------------------------------------------------------------ characters, slices *)

Definition is_digit (c : N) : bool := (48 <=? c) && (c <=? 57).
Definition is_ascii_alpha (c : N) : bool :=
  ((65 <=? c) && (c <=? 90)) || ((97 <=? c) && (c <=? 122)).
Definition is_ascii_alnum (c : N) : bool := is_digit c || is_ascii_alpha c.
Definition lower (c : N) : N := if (65 <=? c) && (c <=? 90) then c + 32 else c.

Fixpoint drop_while (p : N -> bool) (s : str) : str :=
  match s with [] => [] | c :: r => if p c then drop_while p r else s end.
Fixpoint take_while (p : N -> bool) (s : str) : str :=
  match s with [] => [] | c :: r => if p c then c :: take_while p r else [] end.

Definition trim_start (s : str) : str := drop_while uni_ws s.
Definition trim_end (s : str) : str := rev (drop_while uni_ws (rev s)).
(* str::trim *)
Definition trim (s : str) : str := trim_end (trim_start s).
(* str::trim_ascii_end *)
Definition trim_ascii_end (s : str) : str := rev (drop_while ascii_ws (rev s)).

(* str::split(char): never empty, pieces may be empty *)
Fixpoint split_on (d : N) (cur : str) (s : str) : list str :=
  match s with
  | [] => [rev cur]
  | c :: r => if c =? d then rev cur :: split_on d [] r else split_on d (c :: cur) r
  end.

(* str::split_inclusive(pred): pieces end after a separator; no empty last piece *)
Fixpoint split_incl (p : N -> bool) (cur : str) (s : str) : list str :=
  match s with
  | [] => match cur with [] => [] | _ => [rev cur] end
  | c :: r => if p c then rev (c :: cur) :: split_incl p [] r else split_incl p (c :: cur) r
  end.

(* str::split_whitespace *)
Fixpoint split_ws (cur : str) (s : str) : list str :=
  match s with
  | [] => match cur with [] => [] | _ => [rev cur] end
  | c :: r => if uni_ws c
              then match cur with [] => split_ws [] r | _ => rev cur :: split_ws [] r end
              else split_ws (c :: cur) r
  end.

(* str::split_once(char) *)
Fixpoint split_once (d : N) (pre : str) (s : str) : option (str * str) :=
  match s with
  | [] => None
  | c :: r => if c =? d then Some (rev pre, r) else split_once d (c :: pre) r
  end.

Fixpoint starts_with (p s : str) : bool :=
  match p, s with
  | [], _ => true
  | a :: p', b :: s' => (a =? b) && starts_with p' s'
  | _, [] => false
  end.

(* str::split_once("://") *)
Fixpoint split_once_sep (pre : str) (s : str) : option (str * str) :=
  match s with
  | [] => None
  | c :: r => if starts_with [58; 47; 47] s then Some (rev pre, skipn 3 s)
              else split_once_sep (c :: pre) r
  end.

Definition last_is (s : str) (c : N) : bool :=
  match rev s with x :: _ => x =? c | [] => false end.

(* ------------------------------------------------------------ integer parsing *)

Fixpoint digits_val (acc : N) (s : str) : option N :=
  match s with
  | [] => Some acc
  | c :: r => if is_digit c then digits_val (acc * 10 + (c - 48)) r else None
  end.

(* str::parse::<u32>: optional '+', at least one digit, all ASCII digits, < 2^32 *)
Definition parse_u32 (s : str) : option N :=
  let body := match s with c :: r => if c =? 43 then r else s | [] => s end in
  match body with
  | [] => None
  | _ => match digits_val 0 body with
         | Some n => if n <? two32 then Some n else None
         | None => None
         end
  end.

(* ------------------------------------------------------------ f64 *)

Inductive fval := FNan | FInf (neg : bool) | FFin (q : Q).

(* f64::round: half away from zero *)
Definition qround (q : Q) : Z :=
  if Qle_bool 0 q then Qfloor (q + (1 # 2)) else (- Qfloor ((- q) + (1 # 2)))%Z.

(* `x.round() as u32`: saturating, NaN -> 0 *)
Definition cast_sat (v : fval) : N :=
  match v with
  | FNan => 0
  | FInf neg => if neg then 0 else u32_max
  | FFin q => let r := qround q in
              if (r <? 0)%Z then 0
              else if (Z.of_N u32_max <? r)%Z then u32_max else Z.to_N r
  end.

(* repaired: `x >= 0.0 && x.round() <= u32::MAX as f64` then cast *)
Definition cast_checked (v : fval) : option N :=
  match v with
  | FFin q => if Qle_bool 0 q && (qround q <=? Z.of_N u32_max)%Z
              then Some (Z.to_N (qround q)) else None
  | _ => None
  end.

Definition fadd (a b : fval) : fval :=
  match a, b with
  | FNan, _ | _, FNan => FNan
  | FInf x, FInf y => if Bool.eqb x y then FInf x else FNan
  | FInf x, _ | _, FInf x => FInf x
  | FFin p, FFin q => FFin (p + q)
  end.

(* v -> (v + d1) * r1 / r2 - d2 with r1, r2 > 0 *)
Definition faffine (d1 r1 r2 d2 : Q) (v : fval) : fval :=
  match v with
  | FFin q => FFin ((q + d1) * r1 / r2 - d2)
  | other => other
  end.

Fixpoint span_digits (s : str) : str * str :=
  match s with
  | [] => ([], [])
  | c :: r => if is_digit c then let '(a, b) := span_digits r in (c :: a, b) else ([], s)
  end.

Definition dec_val (ds : str) : N := fold_left (fun a c => a * 10 + (c - 48)) ds 0.

Definition pow10 (e : Z) : Q := Qpower (10 # 1) e.

(* the smallest magnitude that rounds to infinity: 2^1024 - 2^970 *)
Definition f64_overflow : Q := inject_Z (2 ^ 1024 - 2 ^ 970).

(* core::num::dec2flt::parse::parse_number on the unsigned body:
   digits [. digits] with at least one digit, optional [eE][+-]digits+ *)
Definition parse_number (s : str) : option fval :=
  let '(ip, r1) := span_digits s in
  let '(fp, r2) := match r1 with
                   | c :: r => if c =? 46 then span_digits r else ([], r1)
                   | [] => ([], [])
                   end in
  match ip ++ fp with
  | [] => None
  | _ =>
    let ex := match r2 with
      | [] => Some 0%Z
      | c :: r =>
        if lower c =? 101 then
          let '(neg, r') := match r with
                            | d :: r'' => if d =? 45 then (true, r'')
                                          else if d =? 43 then (false, r'') else (false, r)
                            | [] => (false, r)
                            end in
          let '(ed, r3) := span_digits r' in
          match ed, r3 with
          | _ :: _, [] => Some (if neg then (- Z.of_N (dec_val ed))%Z else Z.of_N (dec_val ed))
          | _, _ => None
          end
        else None
      end in
    match ex with
    | None => None
    | Some e =>
      let mant := dec_val (ip ++ fp) in
      let sc := (e - Z.of_nat (length fp))%Z in
      if mant =? 0 then Some (FFin 0)
      else if (400 <? sc)%Z then Some (FInf false)              (* > f64::MAX *)
      else if (sc + Z.of_nat (length (ip ++ fp)) <? -400)%Z then Some (FFin 0)   (* underflow *)
      else let q := (inject_Z (Z.of_N mant) * pow10 sc)%Q in
           Some (if Qle_bool f64_overflow q then FInf false else FFin q)
    end
  end.

Definition fneg (neg : bool) (v : fval) : fval :=
  if neg then match v with FNan => FNan | FInf b => FInf (negb b) | FFin q => FFin (- q) end
  else v.

Definition s_nan : str := [110; 97; 110].
Definition s_inf : str := [105; 110; 102].
Definition s_infinity : str := [105; 110; 102; 105; 110; 105; 116; 121].

(* <f64 as FromStr>::from_str (core::num::dec2flt::dec2flt) *)
Definition parse_f64 (s : str) : option fval :=
  match s with
  | [] => None
  | c :: r =>
    let '(neg, body) := if c =? 45 then (true, r) else if c =? 43 then (false, r) else (false, s) in
    match body with
    | [] => None
    | _ =>
      match parse_number body with
      | Some v => Some (fneg neg v)
      | None =>
        let l := map lower body in
        if str_eqb l s_nan then Some FNan
        else if str_eqb l s_inf || str_eqb l s_infinity then Some (FInf neg)
        else None
      end
    end
  end.

(* ------------------------------------------------------------ converter view *)

(* what parse_time needs of a Converter: per unit all keys (names, symbols,
   aliases), whether its physical quantity is Time, ratio and difference *)
Record tunit := { u_keys : list str; u_time : bool; u_ratio : Q; u_diff : Q }.
Definition conv := list tunit.

Fixpoint mem_str (k : str) (l : list str) : bool :=
  match l with [] => false | x :: r => str_eqb x k || mem_str k r end.

(* Converter::find_unit / get_unit(Key): index and unit *)
Fixpoint find_unit_from (i : N) (c : conv) (k : str) : option (N * tunit) :=
  match c with
  | [] => None
  | u :: r => if mem_str k (u_keys u) then Some (i, u) else find_unit_from (i + 1) r k
  end.
Definition find_unit (c : conv) (k : str) : option (N * tunit) := find_unit_from 0 c k.

Definition k_min : str := [109; 105; 110].
Definition k_minute : str := [109; 105; 110; 117; 116; 101].
Definition k_minutes : str := [109; 105; 110; 117; 116; 101; 115].
Definition k_m : str := [109].
Definition k_h : str := [104].

Definition or_else {A} (a : option A) (b : option A) : option A :=
  match a with Some _ => a | None => b end.

(* metadata.rs 787-811 dynamic_time_units; None = any error *)
Definition dynamic_time_units (c : conv) (value : fval) (unit : str) : option fval :=
  match or_else (find_unit c k_min) (or_else (find_unit c k_minute)
          (or_else (find_unit c k_minutes) (find_unit c k_m))) with
  | None => None
  | Some (mi, mu) =>
    if negb (u_time mu) then None else
    match find_unit c unit with
    | None => None
    | Some (ui, uu) =>
      if negb (u_time uu) then None                      (* MixedQuantities (mu is Time) *)
      else if ui =? mi then Some value                   (* ptr::eq *)
      else Some (faffine (u_diff uu) (u_ratio uu) (u_ratio mu) (u_diff mu) value)
    end
  end.

Definition hard_s : list str :=
  [[115]; [115; 101; 99]; [115; 101; 99; 115]; [115; 101; 99; 111; 110; 100];
   [115; 101; 99; 111; 110; 100; 115]].
Definition hard_m : list str := [k_m; k_min; k_minute; k_minutes].
Definition hard_h : list str := [k_h; [104; 111; 117; 114]; [104; 111; 117; 114; 115]].
Definition hard_d : list str := [[100]; [100; 97; 121]; [100; 97; 121; 115]].

(* metadata.rs 813-822 hard_coded_time_units *)
Definition hard_coded_time_units (value : fval) (unit : str) : option fval :=
  if mem_str unit hard_s then Some (faffine 0 1 60 0 value)
  else if mem_str unit hard_m then Some value
  else if mem_str unit hard_h then Some (faffine 0 60 1 0 value)
  else if mem_str unit hard_d then Some (faffine 0 1440 1 0 value)
  else None.

(* ------------------------------------------------------------ time *)

Section WithOracles.
Variable pf : str -> option fval.      (* str::parse::<f64> *)
Variable alpha : N -> bool.            (* char::is_alphabetic *)
Variable c : cfg.

Definition is_hm (x : N) : bool := (x =? 104) || (x =? 109).

(* the loop of parse_common_time_format (metadata.rs 735-751) over the pieces *)
Fixpoint common_loop (pieces : list str) (total : N) (hours_found : bool)
  : outcome (option N) :=
  match pieces with
  | [] => Done (Some total)
  | p :: rest =>
    if last_is p 104 && negb hours_found then
      match parse_u32 (removelast p) with
      | None => Done None
      | Some h =>
        if fix_hm c then
          if (h * 60 <? two32) && (total + h * 60 <? two32)
          then common_loop rest (total + h * 60) true else Done None
        else
          obind (u32_op c site_hm_mul (h * 60)) (fun hm =>
          obind (u32_op c site_hm_add (total + hm)) (fun t =>
          common_loop rest t true))
      end
    else if last_is p 109 then
      match parse_u32 (removelast p) with
      | None => Done None
      | Some m =>
        if fix_hm c then
          if total + m <? two32
          then match rest with [] => Done (Some (total + m)) | _ => Done None end
          else Done None
        else
          obind (u32_op c site_hm_add (total + m)) (fun t =>
          match rest with [] => Done (Some t) | _ => Done None end)
      end
    else Done None
  end.

(* metadata.rs 725-757 *)
Definition parse_common (s : str) : outcome (option N) :=
  match s with
  | [] => Done None
  | _ => common_loop (split_incl is_hm [] s) 0 false
  end.

Definition to_minutes (cv : conv) (value : fval) (unit : str) : option fval :=
  match cv with
  | [] => hard_coded_time_units value unit
  | _ => dynamic_time_units cv value unit
  end.

Definition num_char (x : N) : bool := is_digit x || (x =? 46).

(* the while loop of parse_time_with_units (metadata.rs 768-783); None = any error *)
Fixpoint units_loop (cv : conv) (fuel : nat) (parts : list str) (total : fval) : option fval :=
  match fuel with
  | O => None
  | S fuel' =>
    match parts with
    | [] => Some total
    | part :: rest =>
      let number := take_while num_char part in
      let unit := drop_while num_char part in
      let '(number, unit, rest') :=
        match unit with
        | _ :: _ => (Some number, unit, rest)
        | [] => match rest with
                | next :: rest'' => (Some part, next, rest'')
                | [] => (None, [], [])
                end
        end in
      match number with
      | None => None                                         (* MissingUnit *)
      | Some number =>
        match pf number with
        | None => None
        | Some v =>
          match to_minutes cv v unit with
          | None => None
          | Some mins => units_loop cv fuel' rest' (fadd total mins)
          end
        end
      end
    end
  end.

(* metadata.rs 759-785; the sum before rounding and the result *)
Definition units_total (cv : conv) (s : str) : option fval :=
  let parts := split_ws [] s in units_loop cv (S (length parts)) parts (FFin 0).

Definition finish_cast (v : fval) : option N :=
  if fix_cast c then cast_checked v else Some (cast_sat v).

Definition parse_with_units (cv : conv) (s : str) : option N :=
  match units_total cv s with
  | None => None
  | Some total => finish_cast total
  end.

(* metadata.rs 689-709 parse_time; None = Err *)
Definition parse_time (cv : conv) (s : str) : outcome (option N) :=
  match (if fix_blank c then trim s else s) with
  | [] => Done None
  | _ =>
    obind (parse_common s) (fun r =>
    match r with
    | Some m => Done (Some m)
    | None =>
      match parse_with_units cv s with
      | Some n => Done (Some n)
      | None =>
        match pf s with
        | Some v => Done (finish_cast v)     (* repaired: out of range falls to `r` = Err *)
        | None => Done None
        end
      end
    end)
  end.

(* results that distinguish MetadataError::BadType (value_as_time tests for it) *)
Inductive res (A : Type) := ROk (a : A) | RBadType | ROther.
Arguments ROk {A} a. Arguments RBadType {A}. Arguments ROther {A}.

(* metadata.rs 492-502 *)
Definition value_as_minutes (cv : conv) (v : yaml) : outcome (res N) :=
  match as_str v with
  | Some s => obind (parse_time cv s) (fun r =>
              Done (match r with Some n => ROk n | None => ROther end))
  | None => match as_u32 v with
            | Some n => Done (ROk n)
            | None => Done RBadType
            end
  end.

Inductive rtime := TTotal (n : N) | TComposed (p k : option N).

Definition k_prep : str := [112; 114; 101; 112].
Definition k_cook : str := [99; 111; 111; 107].

(* `map.get(k).map(value_as_minutes).transpose()?` *)
Definition opt_minutes (cv : conv) (o : option yaml) : outcome (res (option N)) :=
  match o with
  | None => Done (ROk None)
  | Some v => obind (value_as_minutes cv v) (fun r =>
              Done (match r with ROk n => ROk (Some n) | RBadType => RBadType | ROther => ROther end))
  end.

(* metadata.rs 504-529 *)
Definition value_as_time (cv : conv) (v : yaml) : outcome (res rtime) :=
  obind (value_as_minutes cv v) (fun r =>
  match r with
  | ROk t => Done (ROk (TTotal t))
  | ROther => Done ROther
  | RBadType =>
    match as_mapping v with
    | None => Done RBadType
    | Some m =>
      obind (opt_minutes cv (map_get m k_prep)) (fun p =>
      match p with
      | ROk p' =>
        obind (opt_minutes cv (map_get m k_cook)) (fun k =>
        match k with
        | ROk k' => Done (ROk (TComposed p' k'))
        | RBadType => Done RBadType
        | ROther => Done ROther
        end)
      | RBadType => Done RBadType
      | ROther => Done ROther
      end)
    end
  end).

Definition res_opt {A} (r : res A) : option A := match r with ROk a => Some a | _ => None end.
Definition omap {A B} (f : A -> B) (o : outcome A) : outcome B := obind o (fun a => Done (f a)).

(* CooklangValueExt::as_minutes / as_time *)
Definition as_minutes (cv : conv) (v : yaml) : outcome (option N) := omap res_opt (value_as_minutes cv v).
Definition as_time (cv : conv) (v : yaml) : outcome (option rtime) := omap res_opt (value_as_time cv v).

(* RecipeTime::total (metadata.rs 824-835): 0 + prep + cook in u32 *)
Definition total (t : rtime) : outcome N :=
  match t with
  | TTotal n => Done n
  | TComposed p k =>
    let a := match p with Some x => x | None => 0 end in
    let b := match k with Some x => x | None => 0 end in
    if fix_total c then Done (if a + b <? two32 then a + b else u32_max)
    else u32_op c site_total_sum (a + b)
  end.

(* ------------------------------------------------------------ servings *)

(* extract_value (metadata.rs 445-451) *)
Definition extract_value (s : str) : option N := parse_u32 (take_while is_ascii_alnum s).

Fixpoint all_some {A} (l : list (option A)) : option (list A) :=
  match l with
  | [] => Some []
  | Some a :: r => match all_some r with Some r' => Some (a :: r') | None => None end
  | None :: _ => None
  end.

Fixpoint mem_n (x : N) (l : list N) : bool :=
  match l with [] => false | y :: r => (x =? y) || mem_n x r end.
Fixpoint has_dup (l : list N) : bool :=
  match l with [] => false | x :: r => mem_n x r || has_dup r end.

Definition serving_entry (e : yaml) : option N :=
  match as_u32 e with
  | Some n => Some n
  | None => match as_str e with Some s => extract_value s | None => None end
  end.

(* metadata.rs 444-490; None = Err *)
Definition value_as_servings (v : yaml) : option (list N) :=
  let l := match as_u32 v with
           | Some n => Some [n]
           | None =>
             match as_str v with
             | Some s => all_some (map (fun e => extract_value (trim e)) (split_on 124 [] s))
             | None => match as_sequence v with
                       | Some seq => all_some (map serving_entry seq)
                       | None => None
                       end
             end
           end in
  match l with
  | Some l' => if has_dup l' then None else Some l'
  | None => None
  end.

(* ------------------------------------------------------------ tags *)

Fixpoint dedup_nonempty (seen : list str) (l : list str) : list str :=
  match l with
  | [] => []
  | t :: r => match t with
              | [] => dedup_nonempty seen r
              | _ => if mem_str t seen then dedup_nonempty seen r
                     else t :: dedup_nonempty (t :: seen) r
              end
  end.

(* metadata.rs 420-442 *)
Definition value_as_tags (v : yaml) : option (list str) :=
  let entries := match as_str v with
                 | Some s => Some (map trim (split_on 44 [] s))
                 | None => match as_sequence v with
                           | Some seq => all_some (map as_str_like seq)
                           | None => None
                           end
                 end in
  match entries with Some e => Some (dedup_nonempty [] e) | None => None end.

(* ------------------------------------------------------------ name and url *)

Fixpoint existsb_n (p : N -> bool) (s : str) : bool :=
  match s with [] => false | x :: r => p x || existsb_n p r end.
Fixpoint forallb_n (p : N -> bool) (s : str) : bool :=
  match s with [] => true | x :: r => p x && forallb_n p r end.

(* is_url (metadata.rs 651-667) *)
Definition is_url (s : str) : bool :=
  match split_once_sep [] s with
  | None => false
  | Some (scheme, rest) =>
    match rest with
    | [] => false
    | _ =>
      if negb (forallb_n alpha scheme) then false else
      let host := match split_once 47 [] rest with Some (h, _) => h | None => rest end in
      match host with
      | [] => false
      | _ => negb (existsb_n uni_ws host)
      end
    end
  end.

(* NameAndUrl::new's filter *)
Definition nu_filter (o : option str) : option str :=
  match o with
  | Some s => match trim s with [] => None | t => Some t end
  | None => None
  end.
Definition nu_new (name url : option str) : option str * option str := (nu_filter name, nu_filter url).

Definition is_angle (x : N) : bool := (x =? 60) || (x =? 62).

(* NameAndUrl::parse (metadata.rs 602-629) *)
Definition nu_parse (s : str) : option str * option str :=
  let t := trim_ascii_end s in
  let bracket :=
    if last_is t 62 then
      match split_once 60 [] (removelast t) with
      | Some (name, url) =>
        if (if fix_url c
            then negb (existsb_n is_angle url) && is_url (trim url)
            else negb (match trim url with [] => true | _ => false end) && negb (existsb_n is_angle url))
        then Some (nu_new (Some name) (Some url)) else None
      | None => None
      end
    else None in
  match bracket with
  | Some r => r
  | None => if is_url s then nu_new None (Some s) else nu_new (Some s) None
  end.

Definition k_name : str := [110; 97; 109; 101].
Definition k_url : str := [117; 114; 108].

(* CooklangValueExt::as_name_and_url (metadata.rs 374-387) *)
Definition as_name_and_url (v : yaml) : option (option str * option str) :=
  match as_str_like v with
  | Some s => Some (nu_parse s)
  | None =>
    match as_mapping v with
    | Some m =>
      let name := match map_get m k_name with Some x => as_str x | None => None end in
      let url := match map_get m k_url with Some x => as_str x | None => None end in
      match name, url with
      | None, None => None
      | _, _ => Some (nu_new name url)
      end
    | None => None
    end
  end.

(* ------------------------------------------------------------ locale *)

Definition locale_part_ok (s : str) : bool := (blen s =? 2) && forallb_n is_ascii_alpha s.

(* metadata.rs 531-548 *)
Definition value_as_locale (v : yaml) : option (str * option str) :=
  match as_str v with
  | None => None
  | Some s =>
    match split_once 95 [] s with
    | Some (lang, dial) =>
      if locale_part_ok lang && locale_part_ok dial then Some (lang, Some dial) else None
    | None => if locale_part_ok s then Some (s, None) else None
    end
  end.

(* ------------------------------------------------------------ std keys *)

Inductive stdkey :=
| KTitle | KDescription | KTags | KAuthor | KSource | KCourse | KTime | KPrepTime | KCookTime
| KServings | KDifficulty | KCuisine | KDiet | KImages | KLocale.

Definition std_table : list (str * stdkey) :=
  [ ([116;105;116;108;101], KTitle);
    ([100;101;115;99;114;105;112;116;105;111;110], KDescription);
    ([105;110;116;114;111;100;117;99;116;105;111;110], KDescription);
    ([116;97;103;115], KTags); ([116;97;103], KTags);
    ([97;117;116;104;111;114], KAuthor);
    ([115;111;117;114;99;101], KSource);
    ([115;101;114;118;105;110;103;115], KServings); ([115;101;114;118;101;115], KServings);
    ([121;105;101;108;100], KServings);
    ([99;111;117;114;115;101], KCourse); ([99;97;116;101;103;111;114;121], KCourse);
    ([108;111;99;97;108;101], KLocale);
    ([116;105;109;101], KTime); ([100;117;114;97;116;105;111;110], KTime);
    ([116;105;109;101;32;114;101;113;117;105;114;101;100], KTime);
    ([112;114;101;112;32;116;105;109;101], KPrepTime); ([112;114;101;112;95;116;105;109;101], KPrepTime);
    ([99;111;111;107;32;116;105;109;101], KCookTime); ([99;111;111;107;95;116;105;109;101], KCookTime);
    ([100;105;102;102;105;99;117;108;116;121], KDifficulty);
    ([99;117;105;115;105;110;101], KCuisine);
    ([100;105;101;116], KDiet);
    ([105;109;97;103;101], KImages); ([105;109;97;103;101;115], KImages);
    ([112;105;99;116;117;114;101], KImages); ([112;105;99;116;117;114;101;115], KImages) ].

(* StdKey::from_str (metadata.rs 66-91) *)
Fixpoint lookup_key (t : list (str * stdkey)) (s : str) : option stdkey :=
  match t with
  | [] => None
  | (k, v) :: r => if str_eqb k s then Some v else lookup_key r s
  end.
Definition stdkey_of (s : str) : option stdkey := lookup_key std_table s.

Definition is_some {A} (o : option A) : bool := match o with Some _ => true | None => false end.

(* check_std_entry (metadata.rs 550-590): (is Err, servings to store) *)
Definition check_std_entry (k : stdkey) (cv : conv) (v : yaml) : outcome (bool * option (list N)) :=
  match k with
  | KServings => let r := value_as_servings v in Done (negb (is_some r), r)
  | KTags => Done (negb (is_some (value_as_tags v)), None)
  | KTime => obind (value_as_time cv v) (fun r => Done (negb (is_some (res_opt r)), None))
  | KPrepTime | KCookTime =>
      obind (value_as_minutes cv v) (fun r => Done (negb (is_some (res_opt r)), None))
  | KTitle | KDescription => Done (negb (is_some (as_str v)), None)
  | KLocale => Done (negb (is_some (value_as_locale v)), None)
  | KAuthor | KSource => Done (negb (is_some (as_name_and_url v)), None)
  | _ => Done (false, None)
  end.

(* ------------------------------------------------------------ Metadata accessors *)

Definition meta := list (yaml * yaml).

Definition k_time : str := [116;105;109;101].
Definition k_prep_time : str := [112;114;101;112;32;116;105;109;101].
Definition k_cook_time : str := [99;111;111;107;32;116;105;109;101].
Definition k_servings : str := [115;101;114;118;105;110;103;115].
Definition k_tags : str := [116;97;103;115].
Definition k_author : str := [97;117;116;104;111;114].
Definition k_source : str := [115;111;117;114;99;101].
Definition k_locale : str := [108;111;99;97;108;101].

Definition opt_as_minutes (cv : conv) (o : option yaml) : outcome (option N) :=
  match o with Some v => as_minutes cv v | None => Done None end.

(* Metadata::time (metadata.rs 179-199) *)
Definition meta_time (cv : conv) (m : meta) : outcome (option rtime) :=
  match map_get m k_time with
  | Some v => as_time cv v
  | None =>
    obind (opt_as_minutes cv (map_get m k_prep_time)) (fun p =>
    obind (opt_as_minutes cv (map_get m k_cook_time)) (fun k =>
    Done (match p, k with None, None => None | _, _ => Some (TComposed p k) end)))
  end.

Definition meta_servings (m : meta) : option (list N) :=
  match map_get m k_servings with Some v => value_as_servings v | None => None end.
Definition meta_tags (m : meta) : option (list str) :=
  match map_get m k_tags with Some v => value_as_tags v | None => None end.
Definition meta_author (m : meta) := match map_get m k_author with Some v => as_name_and_url v | None => None end.
Definition meta_source (m : meta) := match map_get m k_source with Some v => as_name_and_url v | None => None end.
Definition meta_locale (m : meta) := match map_get m k_locale with Some v => value_as_locale v | None => None end.

End WithOracles.

(* is_alphabetic on ASCII; the runner extends it with the classes the harness
   reports for the non-ASCII code points of the generator alphabet *)
Definition alpha_with (extra : list N) (x : N) : bool :=
  if x <? 128 then is_ascii_alpha x else mem_n x extra.

(* [conv_ok]: what the theorems assume of a converter's time units; evaluated by
   the runner on the unit table dumped from each real converter on every run *)
Definition pos_q (q : Q) : bool := negb (Qle_bool q 0).

Definition no_ws_key (k : str) : bool :=
  match k with [] => false | x :: _ => negb (num_char x) && negb (existsb_n uni_ws k) end.

(* a key that would also read as the compact form: h, m, or h<digits..>m *)
Definition hm_shaped (k : str) : bool :=
  match k with
  | x :: r => (x =? 104) && (match r with [] => false | y :: _ => is_digit y || (y =? 43) end)
  | [] => false
  end.

Definition unit_ok (minute_ratio : Q) (u : tunit) : bool :=
  if u_time u then
    pos_q (u_ratio u) && Qeq_bool (u_diff u) 0
    && forallb (fun k => no_ws_key k && negb (hm_shaped k)
                         && (if str_eqb k k_h then Qeq_bool (u_ratio u) (60 * minute_ratio) else true)
                         && (if str_eqb k k_m then Qeq_bool (u_ratio u) minute_ratio else true))
               (u_keys u)
  else true.

Fixpoint keys_disjoint (seen : list str) (c : conv) : bool :=
  match c with
  | [] => true
  | u :: r => negb (existsb (fun k => mem_str k seen) (u_keys u)) && keys_disjoint (u_keys u ++ seen) r
  end.

(* the empty converter (hard-coded units), or: `min` names a Time unit, every
   Time unit has a positive ratio, no offset, keys without blanks that do not
   start like a number and do not collide with the compact form *)
Definition conv_ok (cv : conv) : bool :=
  match cv with
  | [] => true
  | _ => match find_unit cv k_min with
         | Some (_, mu) => u_time mu && forallb (unit_ok (u_ratio mu)) cv && keys_disjoint [] cv
         | None => false
         end
  end.
