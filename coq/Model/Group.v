(* Model of the grouping / listing code of cooklang-rs (property C10).

   src/quantity.rs      285-341 compatible_unit, 346-370 ScaledQuantity::try_add,
                        385-406 TryAdd for Value, 420-544 GroupedQuantity
                        {empty, add, merge, fit, iter}, 550-600 GroupedValue
   src/convert/mod.rs   465-503 ScaledQuantity::convert_impl (target = a unit),
                        631-703 Converter::{convert, convert_to_unit, convert_value,
                        convert_f64}, 720-725 convert_f64 (with its assert_eq!)
   src/model.rs         193-205 display_name, 246-273 group_quantities /
                        all_quantities, 334-353 group_amounts / all_amounts
   src/ingredient_list.rs  77-135 group_ingredients / group_cookware,
                        165-196 add_recipe / add_ingredient, 206-223 categorize,
                        258-285 CategorizedIngredientList::iter
   (src/aisle.rs ingredients_info is Model/Aisle.v [info], [info_get]).

   Hand translation, function by function; tied to the code by the L-group
   correspondence.  f64 is an exact rational; panics are values; HashMap and
   BTreeMap are association lists (the BTreeMap ones are kept sorted because
   [categorize] depends on the iteration order); the unit table is the
   composition unit_index ; all_units of the live converter, shipped with the
   run.  [fitq] (Quantity::fit, property C09) and Path::file_stem are oracles.

   [fixd] in [categorize] selects
     false : insert(common_name, quantity)  - overwrites (before the repair)
     true  : merge into an occupied entry with Converter::empty(). *)
From CL Require Export Base.Chars.
From CL Require Import Model.Aisle.
From Coq Require Export ZArith QArith.
Local Open Scope N_scope.

(* ---------------------------------------------------------------- units *)

(* convert/mod.rs:407-413; declaration order = EnumMap order *)
Inductive pq := Volume | Mass | Length | Temperature | Time.

Definition pq_eqb (a b : pq) : bool :=
  match a, b with
  | Volume, Volume | Mass, Mass | Length, Length | Temperature, Temperature | Time, Time => true
  | _, _ => false
  end.

Definition pq_all : list pq := [Volume; Mass; Length; Temperature; Time].

(* the part of convert::Unit the grouping code reads; [uid] is the index in
   Converter::all_units (two look-ups give the same Arc iff the ids agree) *)
Record uinfo := { uid : N; ratio : Q; difference : Q; upq : pq }.

(* key (name, symbol or alias) |-> unit *)
Definition table := list (str * uinfo).

(* Converter::find_unit 142-145 *)
Fixpoint find_unit (T : table) (k : str) : option uinfo :=
  match T with
  | [] => None
  | (k', u) :: r => if str_eqb k k' then Some u else find_unit r k
  end.

(* ------------------------------------------------------------- values *)

Inductive value := VNum (v : Q) | VRange (s e : Q) | VText (t : str).

Definition is_text (v : value) : bool := match v with VText _ => true | _ => false end.

Record qty := { qval : value; qunit : option str }.

(* TryAdd for Value, quantity.rs:385-406; None = TextValueError *)
Definition value_add (a b : value) : option value :=
  match a, b with
  | VNum x, VNum y => Some (VNum (x + y)%Q)
  | VNum n, VRange s e => Some (VRange (s + n)%Q (e + n)%Q)
  | VRange s e, VNum n => Some (VRange (s + n)%Q (e + n)%Q)
  | VRange s1 e1, VRange s2 e2 => Some (VRange (s1 + s2)%Q (e1 + e2)%Q)
  | _, _ => None
  end.

(* ----------------------------------------------------------- conversion *)

Definition site_convert_assert : N := 721.  (* assert_eq!(from.physical_quantity, to.physical_quantity) *)
Definition site_gv_expect : N := 579.       (* .expect("non text to non text value add error") *)
Definition site_ingredient_index : N := 268. (* all_ingredients[i] *)
Definition site_cookware_index : N := 349.   (* all_cookware[i] *)

(* Converter::convert_f64 698-703 (pointer-equality shortcut) + convert_f64 720-725 *)
Definition convert_f64 (v : Q) (from to : uinfo) : outcome Q :=
  if uid from =? uid to then Done v
  else if pq_eqb (upq from) (upq to)
       then Done ((v + difference from) * ratio from / ratio to - difference to)%Q
       else Panic site_convert_assert.

(* Converter::convert_value 687-696 over ConvertValue (numbers and ranges only) *)
Definition convert_value (v : value) (from to : uinfo) : outcome (option value) :=
  match v with
  | VNum n => obind (convert_f64 n from to) (fun x => Done (Some (VNum x)))
  | VRange s e =>
      obind (convert_f64 s from to) (fun s' =>
      obind (convert_f64 e from to) (fun e' => Done (Some (VRange s' e'))))
  | VText _ => Done None                         (* ConvertError::TextValue, mod.rs:827-837 *)
  end.

(* ScaledQuantity::convert_impl with ConvertTo::Unit(to): the converted VALUE,
   None = ConvertError.  The new unit text (to.symbol()) and the number
   representation chosen by try_fraction are not modelled: try_add reads only
   the value of the converted right-hand side, and try_fraction keeps
   Number::value() (whole + err + num/den) up to rounding. *)
Definition convert_qty (T : table) (q : qty) (to : uinfo) : outcome (option value) :=
  match qunit q with
  | None => Done None                                        (* NoUnit *)
  | Some k =>
      match find_unit T k with
      | None => Done None                                    (* UnknownUnit *)
      | Some from =>
          if is_text (qval q) then Done None
          else if pq_eqb (upq from) (upq to)                 (* convert_to_unit 653-666 *)
               then convert_value (qval q) from to
               else Done None                                (* MixedQuantities *)
      end
  end.

(* Quantity::compatible_unit 285-341 *)
Inductive cu_res := CUOk (u : option uinfo) | CUErr.

Definition compatible_unit (T : table) (a b : qty) : cu_res :=
  match qunit a, qunit b with
  | None, None => CUOk None
  | None, Some _ => CUErr
  | Some _, None => CUErr
  | Some ka, Some kb =>
      match find_unit T ka, find_unit T kb with
      | Some x, Some y => if pq_eqb (upq x) (upq y) then CUOk (Some x) else CUErr
      | _, _ => if str_eqb ka kb then CUOk None else CUErr
      end
  end.

(* ScaledQuantity::try_add 346-370; Done None = Err(QuantityAddError) *)
Definition try_add (T : table) (a b : qty) : outcome (option qty) :=
  match compatible_unit T a b with
  | CUErr => Done None
  | CUOk to =>
      obind (match to with
             | Some u => convert_qty T b u
             | None => Done (Some (qval b))
             end) (fun r =>
      match r with
      | None => Done None
      | Some vb =>
          match value_add (qval a) vb with
          | Some v => Done (Some {| qval := v; qunit := qunit a |})
          | None => Done None
          end
      end)
  end.

(* ------------------------------------------------------ GroupedQuantity *)

Record gq := {
  known : pq -> option qty;          (* EnumMap<PhysicalQuantity, Option<_>> *)
  unknown : list (str * qty);        (* HashMap<String, _>, insertion order *)
  no_unit : option qty;
  other : list qty
}.

Definition gq_empty : gq :=
  {| known := fun _ => None; unknown := []; no_unit := None; other := [] |}.

Fixpoint aget {V} (k : str) (m : list (str * V)) : option V :=
  match m with
  | [] => None
  | (k', v) :: r => if str_eqb k k' then Some v else aget k r
  end.

Definition push_other (g : gq) (q : qty) : gq :=
  {| known := known g; unknown := unknown g; no_unit := no_unit g; other := other g ++ [q] |}.
Definition set_no_unit (g : gq) (q : qty) : gq :=
  {| known := known g; unknown := unknown g; no_unit := Some q; other := other g |}.
Definition set_known (g : gq) (p : pq) (q : qty) : gq :=
  {| known := fun x => if pq_eqb x p then Some q else known g x;
     unknown := unknown g; no_unit := no_unit g; other := other g |}.
Definition set_unknown (g : gq) (k : str) (q : qty) : gq :=
  {| known := known g; unknown := map_insert k q (unknown g); no_unit := no_unit g; other := other g |}.

(* the add! macro 440-452: Ok -> *stored = sum ; Err -> other.push(q) *)
Definition add_to (T : table) (g : gq) (stored q : qty) (store : qty -> gq) : outcome gq :=
  obind (try_add T stored q) (fun r =>
  match r with
  | Some s => Done (store s)
  | None => Done (push_other g q)
  end).

(* GroupedQuantity::add 439-490 *)
Definition add (T : table) (g : gq) (q : qty) : outcome gq :=
  if is_text (qval q) then Done (push_other g q)
  else match qunit q with
  | None =>
      match no_unit g with
      | Some stored => add_to T g stored q (set_no_unit g)
      | None => Done (set_no_unit g q)
      end
  | Some k =>
      match find_unit T k with
      | Some u =>
          match known g (upq u) with
          | Some stored => add_to T g stored q (set_known g (upq u))
          | None => Done (set_known g (upq u) q)
          end
      | None =>
          match aget k (unknown g) with
          | Some stored => add_to T g stored q (set_unknown g k)
          | None => Done (set_unknown g k q)
          end
      end
  end.

Definition opt_list {A} (o : option A) : list A := match o with Some a => [a] | None => [] end.

(* GroupedQuantity::iter 511-518 *)
Definition iter (g : gq) : list qty :=
  flat_map (fun p => opt_list (known g p)) pq_all ++ map snd (unknown g) ++ other g ++ opt_list (no_unit g).

Fixpoint add_all (T : table) (g : gq) (qs : list qty) : outcome gq :=
  match qs with
  | [] => Done g
  | q :: r => obind (add T g q) (fun g' => add_all T g' r)
  end.

(* GroupedQuantity::merge 493-497 *)
Definition merge (T : table) (a b : gq) : outcome gq := add_all T a (iter b).

(* GroupedQuantity::fit 500-505: `q.fit(converter)?` on every known slot in
   EnumMap order; an error returns at once and the slots fitted so far stay
   fitted (the receiver is &mut).  [fitq q = None] is Err. *)
Fixpoint fit_slots (fitq : qty -> option qty) (g : gq) (ps : list pq) : gq * bool :=
  match ps with
  | [] => (g, true)
  | p :: r =>
      match known g p with
      | None => fit_slots fitq g r
      | Some q =>
          match fitq q with
          | Some q' => fit_slots fitq (set_known g p q') r
          | None => (g, false)
          end
      end
  end.

Definition fit (fitq : qty -> option qty) (g : gq) : gq * bool := fit_slots fitq g pq_all.

(* --------------------------------------------------------- GroupedValue *)

Definition gv := list value.

(* GroupedValue::add 563-580 *)
Definition gv_add (g : gv) (v : value) : outcome gv :=
  match g with
  | [] => Done [v]
  | h :: r =>
      if is_text v then Done (g ++ [v])
      else if is_text h then Done (v :: g)
      else match value_add h v with
           | Some s => Done (s :: r)
           | None => Panic site_gv_expect
           end
  end.

Fixpoint gv_add_all (g : gv) (vs : list value) : outcome gv :=
  match vs with
  | [] => Done g
  | v :: r => obind (gv_add g v) (fun g' => gv_add_all g' r)
  end.

(* GroupedValue::merge 583-587 *)
Definition gv_merge (a b : gv) : outcome gv := gv_add_all a b.

(* ------------------------------------------------------- recipe content *)

(* ComponentRelation + IngredientRelation::reference_target: a reference to a
   step or a section ([to_ingredient] = false) carries a step/section index *)
Inductive relation := RDef (referenced_from : list N) | RRef (to : N) (to_ingredient : bool).

Definition referenced_from (r : relation) : list N :=
  match r with RDef l => l | RRef _ _ => [] end.
Definition is_definition (r : relation) : bool :=
  match r with RDef _ => true | RRef _ _ => false end.

Record ingredient := {
  iname : str; ialias : option str;
  istem : option str;                 (* oracle: Path::new(name).file_stem().to_str() *)
  iqty : option qty;
  ihidden : bool; iref : bool; irecipe : bool;       (* Modifiers HIDDEN, REF, RECIPE *)
  irel : relation
}.

(* Ingredient::display_name 193-205 *)
Definition display_name (i : ingredient) : str :=
  match ialias i with
  | Some a => a
  | None => if irecipe i then match istem i with Some s => s | None => iname i end else iname i
  end.

(* Modifiers::should_be_listed parser/model.rs:173 *)
Definition should_be_listed (i : ingredient) : bool := negb (ihidden i || iref i).

(* Ingredient::all_quantities 259-273 *)
Fixpoint ref_qtys (all : list ingredient) (refs : list N) : outcome (list qty) :=
  match refs with
  | [] => Done []
  | i :: r =>
      match nth_error all (N.to_nat i) with
      | None => Panic site_ingredient_index
      | Some x => obind (ref_qtys all r) (fun l => Done (opt_list (iqty x) ++ l))
      end
  end.

Definition all_quantities (all : list ingredient) (x : ingredient) : outcome (list qty) :=
  obind (ref_qtys all (referenced_from (irel x))) (fun l => Done (opt_list (iqty x) ++ l)).

(* Ingredient::group_quantities 246-256; the result of fit is dropped *)
Definition group_quantities (T : table) (fitq : qty -> option qty) (all : list ingredient)
  (x : ingredient) : outcome gq :=
  obind (all_quantities all x) (fun qs =>
  obind (add_all T gq_empty qs) (fun g => Done (fst (fit fitq g)))).

(* ScaledRecipe::group_ingredients 77-114: (index, definition, grouped).  The
   scale outcome that is folded beside the quantity is not an amount and is
   left out. *)
Fixpoint group_from (T : table) (fitq : qty -> option qty) (all rest : list ingredient) (idx : N)
  : outcome (list (N * ingredient * gq)) :=
  match rest with
  | [] => Done []
  | x :: r =>
      if is_definition (irel x) then
        obind (group_quantities T fitq all x) (fun g =>
        obind (group_from T fitq all r (idx + 1)) (fun l => Done ((idx, x, g) :: l)))
      else group_from T fitq all r (idx + 1)
  end.

Definition group_ingredients (T : table) (fitq : qty -> option qty) (all : list ingredient) :=
  group_from T fitq all all 0.

(* cookware *)
Record cookware := { cqty : option value; crel : relation }.

(* Cookware::all_amounts 341-353 *)
Fixpoint ref_amounts (all : list cookware) (refs : list N) : outcome (list value) :=
  match refs with
  | [] => Done []
  | i :: r =>
      match nth_error all (N.to_nat i) with
      | None => Panic site_cookware_index
      | Some x => obind (ref_amounts all r) (fun l => Done (opt_list (cqty x) ++ l))
      end
  end.

(* Cookware::group_amounts 334-339 *)
Definition group_amounts (all : list cookware) (x : cookware) : outcome gv :=
  obind (ref_amounts all (referenced_from (crel x))) (fun l =>
  gv_add_all [] (opt_list (cqty x) ++ l)).

(* ScaledRecipe::group_cookware 120-134 *)
Fixpoint cookware_from (all rest : list cookware) (idx : N) : outcome (list (N * gv)) :=
  match rest with
  | [] => Done []
  | x :: r =>
      if is_definition (crel x) then
        obind (group_amounts all x) (fun g =>
        obind (cookware_from all r (idx + 1)) (fun l => Done ((idx, g) :: l)))
      else cookware_from all r (idx + 1)
  end.

Definition group_cookware (all : list cookware) := cookware_from all all 0.

(* ------------------------------------------------------- IngredientList *)

(* String order of BTreeMap<String, _>: bytewise on UTF-8 = lexicographic on
   scalar values *)
Fixpoint str_ltb (a b : str) : bool :=
  match a, b with
  | [], [] => false
  | [], _ :: _ => true
  | _ :: _, [] => false
  | x :: a', y :: b' => if x <? y then true else if y <? x then false else str_ltb a' b'
  end.

(* one BTreeMap operation on the slot of [k]: [f None] fills a vacant slot,
   [f (Some v)] replaces an occupied one *)
Fixpoint bt_alter {V} (k : str) (f : option V -> outcome V) (m : list (str * V))
  : outcome (list (str * V)) :=
  match m with
  | [] => obind (f None) (fun v => Done [(k, v)])
  | (k', v') :: r =>
      if str_eqb k k' then obind (f (Some v')) (fun v => Done ((k, v) :: r))
      else if str_ltb k k' then obind (f None) (fun v => Done ((k, v) :: m))
      else obind (bt_alter k f r) (fun r' => Done ((k', v') :: r'))
  end.

Definition ilist := list (str * gq).

(* IngredientList::add_ingredient 188-196: entry(name).or_default().merge(quantity) *)
Definition add_ingredient (T : table) (l : ilist) (name : str) (g : gq) : outcome ilist :=
  bt_alter name (fun o => merge T (match o with Some e => e | None => gq_empty end) g) l.

Fixpoint add_entries (T : table) (l : ilist) (es : list (N * ingredient * gq)) : outcome ilist :=
  match es with
  | [] => Done l
  | (_, x, g) :: r =>
      if should_be_listed x
      then obind (add_ingredient T l (display_name x) g) (fun l' => add_entries T l' r)
      else add_entries T l r
  end.

(* IngredientList::add_recipe 165-184 *)
Definition add_recipe (T : table) (fitq : qty -> option qty) (l : ilist) (r : list ingredient)
  : outcome ilist :=
  obind (group_ingredients T fitq r) (fun es => add_entries T l es).

Fixpoint add_recipes (T : table) (fitq : qty -> option qty) (l : ilist) (rs : list (list ingredient))
  : outcome ilist :=
  match rs with
  | [] => Done l
  | r :: rest => obind (add_recipe T fitq l r) (fun l' => add_recipes T fitq l' rest)
  end.

(* CategorizedIngredientList *)
Record clist := { ccats : list (str * ilist); cother : ilist }.

Definition put (fixd : bool) (quantity : gq) (o : option gq) : outcome gq :=
  match o with
  | None => Done quantity
  | Some e => if fixd then merge [] e quantity else Done quantity
  end.

(* IngredientList::categorize 206-223; the list is consumed in key order *)
Fixpoint categorize_from (fixd : bool) (inf : list (str * (str * str))) (l : ilist) (c : clist)
  : outcome clist :=
  match l with
  | [] => Done c
  | (name, quantity) :: r =>
      match info_get name inf with
      | Some (category, common) =>
          obind (bt_alter category
                   (fun o => bt_alter common (put fixd quantity)
                               (match o with Some il => il | None => [] end))
                   (ccats c)) (fun cats' =>
          categorize_from fixd inf r {| ccats := cats'; cother := cother c |})
      | None =>
          obind (bt_alter name (fun _ => Done quantity) (cother c)) (fun o' =>
          categorize_from fixd inf r {| ccats := ccats c; cother := o' |})
      end
  end.

Definition categorize (fixd : bool) (inf : list (str * (str * str))) (l : ilist) : outcome clist :=
  categorize_from fixd inf l {| ccats := []; cother := [] |}.

Definition other_name : str := [111; 116; 104; 101; 114].   (* "other" *)

(* CategorizedIngredientList::iter 258-285 *)
Definition c_iter (c : clist) : list (str * ilist) :=
  ccats c ++ match cother c with [] => [] | _ :: _ => [(other_name, cother c)] end.

(* hypothesis of the theorems, evaluated on the live table by the runner:
   ratios are positive, and entries with one unit id describe one unit *)
Definition unit_same (u v : uinfo) : bool :=
  Qeq_bool (ratio u) (ratio v) && Qeq_bool (difference u) (difference v) && pq_eqb (upq u) (upq v).

Definition sane (T : table) : bool :=
  forallb (fun ku => (0 <? Qnum (ratio (snd ku)))%Z) T
  && forallb (fun ku => forallb (fun kv =>
       if uid (snd ku) =? uid (snd kv) then unit_same (snd ku) (snd kv) else true) T) T.
