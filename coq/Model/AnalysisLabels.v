(* The labels of analysis-stage diagnostics (C04).

   Every diagnostic of stage Analysis is built in /repo/src/analysis/event_consumer.rs (as of
   17e6a01): the macros error!/warning! (lines 18-43) and SourceDiag::unlabeled in
   src/analysis/mod.rs:66 (labels added by its callers at 264, 404-405, 770).  src/metadata.rs
   builds no label (check_std_entry returns an error value that becomes the `source` of a
   diagnostic).  This file enumerates every expression that becomes a label and gives each a
   FORM; Model/Analysis.v (which only keeps the bit "an error was reported") is not extended.

   line  label expression                                                    form
   ----  ------------------------------------------------------------------  ---------------------
   224   label!(span), span in old_style_metadata_used, pushed at 394 as
         Span::new(key.span().start(), value.span().end())                   FJoinKV
   246-8 Span::pos(yaml_text.span().start() + loc.index())                   FYamlErr  (oracle serde_yaml)
   264   Span::pos(yaml_text.span().start() + yaml_find_key_position(..))    FYamlKey
   290   the same                                                            FYamlKey
   322   the same (prep time)                                                FYamlKey
   325   the same (cook time)                                                FYamlKey
   328   the same (time)                                                     FYamlKey
   346   value.span()          (metadata value text)                         FPart PMetaValue
   348   key.span()            (metadata key text)                           FPart PMetaKey
   376   key.span()                                                          FPart PMetaKey
   404   key.span()                                                          FPart PMetaKey
   405   value.span()                                                        FPart PMetaValue
   434   value.span()                                                        FPart PMetaValue
   436   key.span()                                                          FPart PMetaKey
   464   Span::new(e.0.span().start(), e.1.span().end()) of a stored
         metadata entry; used as labels at 491, 494, 496                     FJoinKV
   512   text.span()           (Text event)                                  FPart PText
   574-80 i.span() / c.span() / t.span()  (component in text mode)           FPart PComp
   618   ingredient.modifiers.span()                                         FPart PMods
   656-63 unit.span() or quantity.span() of a stored ingredient and of the
         new one; labels at 671, 674, 681, 684                               FPart PUnit / FPart PQuantity
   703   note.span() -> note_reference_error 1434                            FPart PNote
   705   definition_location.span() -> 1440 Span::pos(def_span.end())        FPosEnd PComp
   706   definition note span -> 1437                                        FPart PNote
   728   quantity.span() -> 1456                                             FPart PQuantity
   729   definition_location.span() -> 1458                                  FPart PComp
   742-3 quantity spans -> 1476, 1478                                        FPart PQuantity
   770   label!(location)      (the ingredient's span)                       FPart PComp
   797   inter_data.span()                                                   FPart PInter
   804   inter_data.span()                                                   FPart PInter
   814   inter_data.span()                                                   FPart PInter
   920   located_cookware.modifiers.span() -> 1095, 1107                     FPart PMods
   928   note.span() -> 1434                                                 FPart PNote
   930   definition_location.span() -> 1440                                  FPosEnd PComp
   931   definition note span -> 1437                                        FPart PNote
   944   cookware quantity.span() -> 1456                                    FPart PQuantity
   945   definition_location.span() -> 1458                                  FPart PComp
   958-9 cookware quantity spans -> 1476, 1478                               FPart PQuantity
   993   located_quantity.value.span()   (timer value)                       FPart PValue
   1003  unit_span = located_quantity.unit.span()                            FPart PUnit
   1013  unit_span                                                           FPart PUnit
   1056  value.span()          (the Located<Value> of a QuantityValue)       FPart PValue
   1095  modifiers_location (631: located_ingredient.modifiers.span())       FPart PMods
   1107  modifiers_location                                                  FPart PMods
   1215  label!(location)      (the component's span)                        FPart PComp
   1434  label!(span)          (note text; before 17e6a01: start-1 .. end+1) FPart PNote   [FNoteOld before the repair]
   1437, 1440, 1456, 1458, 1476, 1478: arguments listed at their call sites above.

   Forms: [FPart p] is the span of part p of an event of the stream (the current one, or an
   earlier one kept in self.locations); [FPosEnd p] is Span::pos of the end of such a span;
   [FJoinKV] joins the start of a metadata key with the end of its value (same event);
   [FYamlKey]/[FYamlErr] add a byte index into the front matter text to its offset.  No other
   arithmetic on offsets remains (the `- 1` / `+ 1` of note_reference_error was removed by 17e6a01;
   [FNoteOld] keeps it for the refutation). *)
From CL Require Import Base.StrLemmas Model.Lexer Model.Parser.
Open Scope N_scope.

(* ------------------------------------------------------------------ yaml_find_key_position *)
(* event_consumer.rs 1486-1507.  The only slice that can panic is k[start..]. *)
Definition site_yaml_key_slice : N := 1502.

(* str::split_inclusive('\n'): [cur] is the line being collected *)
Fixpoint split_inclusive_nl (s cur : str) : list str :=
  match s with
  | [] => match cur with [] => [] | _ => [cur] end
  | c :: r => if c =? 10 then (cur ++ [c]) :: split_inclusive_nl r [] else split_inclusive_nl r (cur ++ [c])
  end.

(* line.split_once(':') : the part before the first ':' *)
Fixpoint before_colon (s : str) : option str :=
  match s with
  | [] => None
  | c :: r => if c =? 58 then Some [] else option_map (cons c) (before_colon r)
  end.

(* k.find(|c: char| !c.is_ascii_whitespace()): byte index of the first such character *)
Fixpoint find_non_ascii_ws (s : str) : option N :=
  match s with
  | [] => None
  | c :: r => if ascii_ws c then option_map (N.add (utf8_len c)) (find_non_ascii_ws r) else Some 0
  end.

(* &k[start..]: None = the slice panics (start inside a character or past the end) *)
Fixpoint slice_from (s : str) (n : N) : option str :=
  if n =? 0 then Some s
  else match s with
       | [] => None
       | c :: r => if utf8_len c <=? n then slice_from r (n - utf8_len c) else None
       end.

(* str::trim_ascii_end *)
Fixpoint trim_ascii_end (s : str) : str :=
  match s with
  | [] => []
  | c :: r =>
      match trim_ascii_end r with
      | [] => if ascii_ws c then [] else [c]
      | r' => c :: r'
      end
  end.

(* the loop over the lines; [offset] is the byte offset of the line in the text *)
Fixpoint key_line_loop (lines : list str) (offset : N) (key : str) : outcome (option N) :=
  match lines with
  | [] => Done None
  | line :: rest =>
      let l_offset := offset in
      let offset' := offset + blen line in
      let line' := drop_while uni_ws line in                (* trim_start *)
      match before_colon line' with
      | None => key_line_loop rest offset' key
      | Some k =>
          match find_non_ascii_ws k with
          | None => key_line_loop rest offset' key
          | Some start =>
              match slice_from k start with
              | None => Panic site_yaml_key_slice
              | Some tail =>
                  if str_eqb (trim_ascii_end tail) key then Done (Some (l_offset + start))
                  else key_line_loop rest offset' key
              end
          end
      end
  end.

Definition yaml_find_key_position (text key : str) : outcome (option N) :=
  key_line_loop (split_inclusive_nl text []) 0 key.

(* ------------------------------------------------------------------ parts of events *)
Inductive part :=
| PComp        (* Located<Ingredient|Cookware|Timer>::span() *)
| PMods        (* modifiers.span() *)
| PInter       (* intermediate_data.span() *)
| PNote        (* note.span() *)
| PQuantity    (* quantity.span(): Located<Quantity> (ingredient, timer), Located<QuantityValue> (cookware) *)
| PUnit        (* quantity.unit.span() *)
| PValue       (* quantity.value.span(): the Located<Value> *)
| PMetaKey | PMetaValue   (* Text::span() of a metadata entry *)
| PText.       (* Text::span() of a Text event *)

Definition opt_span (o : option text) : list span :=
  match o with Some t => [text_span t] | None => [] end.

Definition part_spans (p : part) (ev : pevent) : list span :=
  match p, ev with
  | PComp, EvIngredient i => [i_span i]
  | PComp, EvCookware c => [c_span c]
  | PComp, EvTimer t => [t_span t]
  | PMods, EvIngredient i => [i_mods_span i]
  | PMods, EvCookware c => [c_mods_span c]
  | PInter, EvIngredient i => match i_inter i with Some d => [im_span d] | None => [] end
  | PNote, EvIngredient i => opt_span (i_note i)
  | PNote, EvCookware c => opt_span (c_note c)
  | PQuantity, EvIngredient i => match i_qty i with Some q => [q_span q] | None => [] end
  | PQuantity, EvCookware c => match c_qty c with Some (_, sp) => [sp] | None => [] end
  | PQuantity, EvTimer t => match t_qty t with Some q => [q_span q] | None => [] end
  | PUnit, EvIngredient i => match i_qty i with Some q => opt_span (q_unit q) | None => [] end
  | PUnit, EvTimer t => match t_qty t with Some q => opt_span (q_unit q) | None => [] end
  | PValue, EvIngredient i => match i_qty i with Some q => [qv_span (q_val q)] | None => [] end
  | PValue, EvCookware c => match c_qty c with Some (v, _) => [qv_span v] | None => [] end
  | PValue, EvTimer t => match t_qty t with Some q => [qv_span (q_val q)] | None => [] end
  | PMetaKey, EvMetadata k _ => [text_span k]
  | PMetaValue, EvMetadata _ v => [text_span v]
  | PText, EvText t => [text_span t]
  | _, _ => []
  end.

(* ------------------------------------------------------------------ label forms and the enumeration *)
Inductive form :=
| FPart (p : part)
| FPosEnd (p : part)
| FJoinKV
| FYamlKey
| FYamlErr
| FNoteOld.      (* note_reference_error before 17e6a01: Span::new(start.saturating_sub(1), end + 1) *)

(* source line of the label (or of the call that passes the span) and its form *)
Definition label_sites : list (N * form) :=
  [ (224, FJoinKV); (248, FYamlErr); (264, FYamlKey); (290, FYamlKey); (322, FYamlKey); (325, FYamlKey);
    (328, FYamlKey); (346, FPart PMetaValue); (348, FPart PMetaKey); (376, FPart PMetaKey);
    (404, FPart PMetaKey); (405, FPart PMetaValue); (434, FPart PMetaValue); (436, FPart PMetaKey);
    (491, FJoinKV); (494, FJoinKV); (496, FJoinKV); (512, FPart PText); (580, FPart PComp);
    (618, FPart PMods); (671, FPart PUnit); (671, FPart PQuantity); (674, FPart PUnit); (674, FPart PQuantity);
    (681, FPart PUnit); (681, FPart PQuantity); (684, FPart PUnit); (684, FPart PQuantity);
    (703, FPart PNote); (705, FPosEnd PComp); (706, FPart PNote); (728, FPart PQuantity); (729, FPart PComp);
    (742, FPart PQuantity); (743, FPart PQuantity); (770, FPart PComp);
    (797, FPart PInter); (804, FPart PInter); (814, FPart PInter);
    (928, FPart PNote); (930, FPosEnd PComp); (931, FPart PNote); (944, FPart PQuantity); (945, FPart PComp);
    (958, FPart PQuantity); (959, FPart PQuantity);
    (993, FPart PValue); (1003, FPart PUnit); (1013, FPart PUnit); (1056, FPart PValue);
    (1095, FPart PMods); (1107, FPart PMods); (1215, FPart PComp) ].

(* the label sites of the code before 17e6a01: the note label of 703/928 had the old form *)
Definition label_sites_before_17e6a01 : list (N * form) :=
  map (fun lf => if ((fst lf =? 703) || (fst lf =? 928)) then (fst lf, FNoteOld) else lf) label_sites.

Definition pos (a : N) : span := (a, a).

Section Produces.
  (* serde_yaml's Error::location().index(): an oracle, Some i = the error has a location *)
  Variable yaml_err_index : str -> option N.

  (* the spans a label of form [f] can take on the stream [evs] *)
  Definition produces (evs : list pevent) (f : form) (sp : span) : Prop :=
    match f with
    | FPart p => exists ev, In ev evs /\ In sp (part_spans p ev)
    | FPosEnd p => exists ev sp0, In ev evs /\ In sp0 (part_spans p ev) /\ sp = pos (snd sp0)
    | FJoinKV => exists k v, In (EvMetadata k v) evs /\ sp = (fst (text_span k), snd (text_span v))
    | FYamlKey =>
        exists t key p, In (EvYaml t) evs /\ yaml_find_key_position (text_str t) key = Done (Some p) /\
                        sp = pos (fst (text_span t) + p)
    | FYamlErr =>
        exists t i, In (EvYaml t) evs /\ yaml_err_index (text_str t) = Some i /\ sp = pos (fst (text_span t) + i)
    | FNoteOld =>
        exists ev sp0, In ev evs /\ In sp0 (part_spans PNote ev) /\ sp = (fst sp0 - 1, snd sp0 + 1)
    end.
End Produces.

(* ------------------------------------------------------------------ facts about events the forms need *)
(* a metadata entry's key starts at or before the end of its value (FJoinKV); the front matter
   text is one verbatim fragment (FYamlKey, FYamlErr: Text::text() is then the source slice) *)
Definition ev_fact (ev : pevent) : Prop :=
  match ev with
  | EvMetadata k v => fst (text_span k) <= snd (text_span v)
  | EvYaml t => exists y off, t = text_from_str y off
  | _ => True
  end.
