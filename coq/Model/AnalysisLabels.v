(* The labels of analysis-stage diagnostics (C04).

   Every diagnostic of stage Analysis is built in /repo/src/analysis/event_consumer.rs: the macros
   error!/warning! (lines 19-43) and SourceDiag::unlabeled in src/analysis/mod.rs:66 (labels added by
   its callers).  src/metadata.rs builds no label (check_std_entry returns an error value that becomes
   the `source` of a diagnostic).  This file lists every expression that becomes the span of a label and
   gives each a FORM; Model/Analysis.v (which only keeps the bit "an error was reported") is not extended.

   The chain from the source to the placement theorem (each step is a theorem of Properties/C04.v):

     source  --(gen/gen_labels.py, on every run)-->  Gen/LabelSites.sites : (fn, expression text)
       C04_label_inventory            the inventory is the list written in Properties/C04.v
       C04_label_inventory_classified  map fst label_table = LabelSites.sites: [label_table] below has one
                                      row per inventory entry, in the same order, and gives the SITES
                                      the entry's span can reach
       C04_label_table_sites          the rows reach exactly the sites of [label_sites]
       C04_analysis_labels_ok         every site of [label_sites] yields spans that are in bounds,
                                      ordered and on character boundaries

   A SITE is (id, form).  The id is the source line the expression had in event_consumer.rs as of
   17e6a01; it is kept as a stable identifier (Model/AnalysisDiag.v, C07, attaches it to every label of
   its decorated collector) and is no longer the current line: 200c896 moved everything below in_text
   down by 14 lines, 45a4888 everything below process_frontmatter's error arm up by one.  The current
   line (as of 45a4888) is the comment in front of each row of [label_table]; nothing depends on it.

   Forms: [FPart p] is the span of part p of an event of the stream (the current one, or an earlier one
   kept in self.locations); [FPosEnd p] is Span::pos of the end of such a span; [FJoinKV] joins the start
   of a metadata key with the end of its value (same event); [FYamlKey] adds a byte index into the front
   matter text (yaml_find_key_position) to the text's offset; [FYamlErr] is the label of a front matter
   that serde_yaml rejects: the text's offset plus the index of the error's location, or - since 45a4888,
   when the error has no location - the span of the whole front matter text.  No other arithmetic on
   offsets remains (the `- 1` / `+ 1` of note_reference_error was removed by 17e6a01; [FNoteOld] keeps it
   for the refutation).

   How a span travels to its label when the label expression is only a name (the inventory shows the
   nearest binder; the rest is read off the source):
     parse_events `span`                 iterates self.old_style_metadata_used, pushed by `metadata` (393)
     time_override_check `overrides`, `e`, `overriden.next()`
                                         elements of locs(..): the Span::new of 463 over stored entries
     ingredient `new` / `old`            unit.span() if the quantity has a unit, else quantity.span(), of the
                                         new ingredient / of a stored one; main_label and support_label are
                                         label!(new, ..) and label!(old, ..) in either order
     resolve_reference `location`, `modifiers_location`
                                         arguments at 645 (ingredient) and 934 (cookware)
     note_reference_error, conflicting_reference_quantity_error, text_val_in_ref_warn
                                         their Span parameters: arguments at 716-721, 741-745, 765-769
                                         (ingredient) and 941-946, 957-961, 981-985 (cookware) *)
From Coq Require String.
Import String.StringSyntax.
From CL Require Import Base.StrLemmas Model.Lexer Model.Parser.
Open Scope N_scope.

(* ------------------------------------------------------------------ yaml_find_key_position *)
(* event_consumer.rs 1500-1521 (1486-1507 as of 17e6a01).  The only slice that can panic is k[start..]
   (line 1516; the site id is the line as of 17e6a01). *)
Definition site_yaml_key_slice : N := 1502.

(* str::split_inclusive('\n'): [cur] is the line being collected *)
Fixpoint split_inclusive_nl (s cur : str) : list str :=
  match s with
  | [] => match cur with [] => [] | _ => [cur] end
  | c :: r => if c =? 10 then (cur ++ [c]) :: split_inclusive_nl r [] else split_inclusive_nl r (cur ++ [c])
  end.

(* line.split_once(':') : the part before the first ':' *)
Fixpoint before_colon (s : str) : option str :=
  match s with
  | [] => None
  | c :: r => if c =? 58 then Some [] else option_map (cons c) (before_colon r)
  end.

(* k.find(|c: char| !c.is_ascii_whitespace()): byte index of the first such character *)
Fixpoint find_non_ascii_ws (s : str) : option N :=
  match s with
  | [] => None
  | c :: r => if ascii_ws c then option_map (N.add (utf8_len c)) (find_non_ascii_ws r) else Some 0
  end.

(* &k[start..]: None = the slice panics (start inside a character or past the end) *)
Fixpoint slice_from (s : str) (n : N) : option str :=
  if n =? 0 then Some s
  else match s with
       | [] => None
       | c :: r => if utf8_len c <=? n then slice_from r (n - utf8_len c) else None
       end.

(* str::trim_ascii_end *)
Fixpoint trim_ascii_end (s : str) : str :=
  match s with
  | [] => []
  | c :: r =>
      match trim_ascii_end r with
      | [] => if ascii_ws c then [] else [c]
      | r' => c :: r'
      end
  end.

(* the loop over the lines; [offset] is the byte offset of the line in the text *)
Fixpoint key_line_loop (lines : list str) (offset : N) (key : str) : outcome (option N) :=
  match lines with
  | [] => Done None
  | line :: rest =>
      let l_offset := offset in
      let offset' := offset + blen line in
      let line' := drop_while uni_ws line in                (* trim_start *)
      match before_colon line' with
      | None => key_line_loop rest offset' key
      | Some k =>
          match find_non_ascii_ws k with
          | None => key_line_loop rest offset' key
          | Some start =>
              match slice_from k start with
              | None => Panic site_yaml_key_slice
              | Some tail =>
                  if str_eqb (trim_ascii_end tail) key then Done (Some (l_offset + start))
                  else key_line_loop rest offset' key
              end
          end
      end
  end.

Definition yaml_find_key_position (text key : str) : outcome (option N) :=
  key_line_loop (split_inclusive_nl text []) 0 key.

(* ------------------------------------------------------------------ parts of events *)
Inductive part :=
| PComp        (* Located<Ingredient|Cookware|Timer>::span() *)
| PMods        (* modifiers.span() *)
| PInter       (* intermediate_data.span() *)
| PNote        (* note.span() *)
| PQuantity    (* quantity.span(): Located<Quantity> (ingredient, timer), Located<QuantityValue> (cookware) *)
| PUnit        (* quantity.unit.span() *)
| PValue       (* quantity.value.span(): the Located<Value> *)
| PMetaKey | PMetaValue   (* Text::span() of a metadata entry *)
| PText.       (* Text::span() of a Text event *)

Definition opt_span (o : option text) : list span :=
  match o with Some t => [text_span t] | None => [] end.

Definition part_spans (p : part) (ev : pevent) : list span :=
  match p, ev with
  | PComp, EvIngredient i => [i_span i]
  | PComp, EvCookware c => [c_span c]
  | PComp, EvTimer t => [t_span t]
  | PMods, EvIngredient i => [i_mods_span i]
  | PMods, EvCookware c => [c_mods_span c]
  | PInter, EvIngredient i => match i_inter i with Some d => [im_span d] | None => [] end
  | PNote, EvIngredient i => opt_span (i_note i)
  | PNote, EvCookware c => opt_span (c_note c)
  | PQuantity, EvIngredient i => match i_qty i with Some q => [q_span q] | None => [] end
  | PQuantity, EvCookware c => match c_qty c with Some (_, sp) => [sp] | None => [] end
  | PQuantity, EvTimer t => match t_qty t with Some q => [q_span q] | None => [] end
  | PUnit, EvIngredient i => match i_qty i with Some q => opt_span (q_unit q) | None => [] end
  | PUnit, EvTimer t => match t_qty t with Some q => opt_span (q_unit q) | None => [] end
  | PValue, EvIngredient i => match i_qty i with Some q => [qv_span (q_val q)] | None => [] end
  | PValue, EvCookware c => match c_qty c with Some (v, _) => [qv_span v] | None => [] end
  | PValue, EvTimer t => match t_qty t with Some q => [qv_span (q_val q)] | None => [] end
  | PMetaKey, EvMetadata k _ => [text_span k]
  | PMetaValue, EvMetadata _ v => [text_span v]
  | PText, EvText t => [text_span t]
  | _, _ => []
  end.

(* ------------------------------------------------------------------ label forms and the enumeration *)
Inductive form :=
| FPart (p : part)
| FPosEnd (p : part)
| FJoinKV
| FYamlKey
| FYamlErr
| FNoteOld.      (* note_reference_error before 17e6a01: Span::new(start.saturating_sub(1), end + 1) *)

(* the sites: (id, form); the id is the source line of the label (or of the call that passes the span)
   as of 17e6a01 - an identifier, see the header *)
Definition label_sites : list (N * form) :=
  [ (224, FJoinKV); (248, FYamlErr); (264, FYamlKey); (290, FYamlKey); (322, FYamlKey); (325, FYamlKey);
    (328, FYamlKey); (346, FPart PMetaValue); (348, FPart PMetaKey); (376, FPart PMetaKey);
    (404, FPart PMetaKey); (405, FPart PMetaValue); (434, FPart PMetaValue); (436, FPart PMetaKey);
    (491, FJoinKV); (494, FJoinKV); (496, FJoinKV); (512, FPart PText); (580, FPart PComp);
    (618, FPart PMods); (671, FPart PUnit); (671, FPart PQuantity); (674, FPart PUnit); (674, FPart PQuantity);
    (681, FPart PUnit); (681, FPart PQuantity); (684, FPart PUnit); (684, FPart PQuantity);
    (703, FPart PNote); (705, FPosEnd PComp); (706, FPart PNote); (728, FPart PQuantity); (729, FPart PComp);
    (742, FPart PQuantity); (743, FPart PQuantity); (770, FPart PComp);
    (797, FPart PInter); (804, FPart PInter); (814, FPart PInter);
    (928, FPart PNote); (930, FPosEnd PComp); (931, FPart PNote); (944, FPart PQuantity); (945, FPart PComp);
    (958, FPart PQuantity); (959, FPart PQuantity);
    (993, FPart PValue); (1003, FPart PUnit); (1013, FPart PUnit); (1056, FPart PValue);
    (1095, FPart PMods); (1107, FPart PMods); (1215, FPart PComp) ].

(* the classification of the inventory: one row per entry of Gen/LabelSites.sites (same order, same
   strings: C04_label_inventory_classified), with the sites the entry's span reaches.  The comment in
   front of a row is the line of the expression in event_consumer.rs as of 45a4888. *)
Local Open Scope string_scope.
Definition label_table : list (String.string * String.string * list (N * form)) := [
  (*  224 *) ("parse_events",
     "span <- for span in self.old_style_metadata_used",
     [(224, FJoinKV)]);
  (*  246 *) ("process_frontmatter",
     "Span::pos(yaml_text.span().start() + loc.index())",
     [(248, FYamlErr)]);
  (*  248 *) ("process_frontmatter",
     "err_span <- let err_span = err.location().map(|loc|Span::pos(yaml_text.span().start() + loc.index())).unwrap_or_else(||yaml_text.span())",
     [(248, FYamlErr)]);
  (*  263 *) ("process_frontmatter",
     "Span::pos(yaml_text.span().start() + pos)",
     [(264, FYamlKey)]);
  (*  289 *) ("process_frontmatter",
     "Span::pos(yaml_text.span().start() + pos)",
     [(290, FYamlKey)]);
  (*  321 *) ("process_frontmatter",
     "Span::pos(yaml_text.span().start() + p)",
     [(322, FYamlKey)]);
  (*  324 *) ("process_frontmatter",
     "Span::pos(yaml_text.span().start() + p)",
     [(325, FYamlKey)]);
  (*  327 *) ("process_frontmatter",
     "Span::pos(yaml_text.span().start() + p)",
     [(328, FYamlKey)]);
  (*  345 *) ("metadata",
     "value.span()",
     [(346, FPart PMetaValue)]);
  (*  347 *) ("metadata",
     "key.span()",
     [(348, FPart PMetaKey)]);
  (*  375 *) ("metadata",
     "key.span()",
     [(376, FPart PMetaKey)]);
  (*  393 *) ("metadata",
     "Span::new(key.span().start(), value.span().end())",
     [(224, FJoinKV)]);
  (*  403 *) ("metadata",
     "key.span()",
     [(404, FPart PMetaKey)]);
  (*  404 *) ("metadata",
     "value.span()",
     [(405, FPart PMetaValue)]);
  (*  433 *) ("metadata",
     "value.span()",
     [(434, FPart PMetaValue)]);
  (*  435 *) ("metadata",
     "key.span()",
     [(436, FPart PMetaKey)]);
  (*  463 *) ("time_override_check",
     "Span::new(e.0.span().start(), e.1.span().end())",
     [(491, FJoinKV); (494, FJoinKV); (496, FJoinKV)]);
  (*  490 *) ("time_override_check",
     "overriden.next().unwrap()",
     [(491, FJoinKV)]);
  (*  493 *) ("time_override_check",
     "e <- for e in overriden",
     [(494, FJoinKV)]);
  (*  495 *) ("time_override_check",
     "overrides <- let overrides = locs(&[new])[0]",
     [(496, FJoinKV)]);
  (*  511 *) ("in_step",
     "text.span()",
     [(512, FPart PText)]);
  (*  579 *) ("in_text",
     "span <- let (c, span) = match ev{Event::Ingredient(i) => (<str>, i.span()), Event::Cookware(c) => (<str>, c.span()), Event::Timer(t) => (<str>, t.span()), _ => unreachable!(), }",
     [(580, FPart PComp)]);
  (*  632 *) ("ingredient",
     "ingredient.modifiers.span()",
     [(618, FPart PMods)]);
  (*  645 *) ("ingredient",
     "resolve_reference(location: location <- let (ingredient, location) = ingredient.take_pair())",
     [(1215, FPart PComp)]);
  (*  645 *) ("ingredient",
     "resolve_reference(modifiers_location: located_ingredient.modifiers.span())",
     [(1095, FPart PMods); (1107, FPart PMods)]);
  (*  685 *) ("ingredient",
     "new <- let new = new_q_loc.unit.as_ref().map(|l|l.span()).unwrap_or(new_q_loc.span())",
     [(671, FPart PUnit); (671, FPart PQuantity)]);
  (*  685 *) ("ingredient",
     "old <- let old = old_q_loc.unit.as_ref().map(|l|l.span()).unwrap_or(old_q_loc.span())",
     [(671, FPart PUnit); (671, FPart PQuantity)]);
  (*  688 *) ("ingredient",
     "new <- let new = new_q_loc.unit.as_ref().map(|l|l.span()).unwrap_or(new_q_loc.span())",
     [(674, FPart PUnit); (674, FPart PQuantity)]);
  (*  688 *) ("ingredient",
     "old <- let old = old_q_loc.unit.as_ref().map(|l|l.span()).unwrap_or(old_q_loc.span())",
     [(674, FPart PUnit); (674, FPart PQuantity)]);
  (*  695 *) ("ingredient",
     "new <- let new = new_q_loc.unit.as_ref().map(|l|l.span()).unwrap_or(new_q_loc.span())",
     [(681, FPart PUnit); (681, FPart PQuantity)]);
  (*  695 *) ("ingredient",
     "old <- let old = old_q_loc.unit.as_ref().map(|l|l.span()).unwrap_or(old_q_loc.span())",
     [(681, FPart PUnit); (681, FPart PQuantity)]);
  (*  698 *) ("ingredient",
     "new <- let new = new_q_loc.unit.as_ref().map(|l|l.span()).unwrap_or(new_q_loc.span())",
     [(684, FPart PUnit); (684, FPart PQuantity)]);
  (*  698 *) ("ingredient",
     "old <- let old = old_q_loc.unit.as_ref().map(|l|l.span()).unwrap_or(old_q_loc.span())",
     [(684, FPart PUnit); (684, FPart PQuantity)]);
  (*  705 *) ("ingredient",
     "warning!(.., main_label <- let (main_label, support_label) = match &e{crate::quantity::IncompatibleUnits::MissingUnit{lhs, ..} => {let m=<str>;let f=<str>;if *lhs{(label!(new, m), label!(old, f))} else {(label!(new, f), label!(old, m))}}crate::quantity::IncompatibleUnits::DifferentPhysicalQuantities{a:a_q, b:b_q, } => {(label!(new, b_q.to_string()), label!(old, a_q.to_string()))}crate::quantity::IncompatibleUnits::UnknownDifferentUnits{..} => {(label!(new), label!(old))}})",
     [(671, FPart PUnit); (671, FPart PQuantity); (674, FPart PUnit); (674, FPart PQuantity); (681, FPart PUnit); (681, FPart PQuantity); (684, FPart PUnit); (684, FPart PQuantity)]);
  (*  707 *) ("ingredient",
     ".label(support_label <- let (main_label, support_label) = match &e{crate::quantity::IncompatibleUnits::MissingUnit{lhs, ..} => {let m=<str>;let f=<str>;if *lhs{(label!(new, m), label!(old, f))} else {(label!(new, f), label!(old, m))}}crate::quantity::IncompatibleUnits::DifferentPhysicalQuantities{a:a_q, b:b_q, } => {(label!(new, b_q.to_string()), label!(old, a_q.to_string()))}crate::quantity::IncompatibleUnits::UnknownDifferentUnits{..} => {(label!(new), label!(old))}})",
     [(671, FPart PUnit); (671, FPart PQuantity); (674, FPart PUnit); (674, FPart PQuantity); (681, FPart PUnit); (681, FPart PQuantity); (684, FPart PUnit); (684, FPart PQuantity)]);
  (*  717 *) ("ingredient",
     "note_reference_error(span: note.span())",
     [(703, FPart PNote)]);
  (*  719 *) ("ingredient",
     "note_reference_error(def_span: definition_location.span())",
     [(705, FPosEnd PComp)]);
  (*  720 *) ("ingredient",
     "note_reference_error(def_note_span: definition_location.note.as_ref().map(|n|n.span()))",
     [(706, FPart PNote)]);
  (*  742 *) ("ingredient",
     "conflicting_reference_quantity_error(ref_quantity_span: ingredient.quantity.unwrap().span())",
     [(728, FPart PQuantity)]);
  (*  743 *) ("ingredient",
     "conflicting_reference_quantity_error(def_span: definition_location.span())",
     [(729, FPart PComp)]);
  (*  766 *) ("ingredient",
     "text_val_in_ref_warn(text_quantity_span: text_quantity_span <- let (text_quantity_span, number_quantity_span) = if ref_is_text{(ref_q_loc, def_q_loc)} else {(def_q_loc, ref_q_loc)})",
     [(742, FPart PQuantity); (743, FPart PQuantity)]);
  (*  767 *) ("ingredient",
     "text_val_in_ref_warn(number_quantity_span: number_quantity_span <- let (text_quantity_span, number_quantity_span) = if ref_is_text{(ref_q_loc, def_q_loc)} else {(def_q_loc, ref_q_loc)})",
     [(742, FPart PQuantity); (743, FPart PQuantity)]);
  (*  784 *) ("ingredient",
     "location <- let (ingredient, location) = ingredient.take_pair()",
     [(770, FPart PComp)]);
  (*  811 *) ("resolve_intermediate_ref",
     "inter_data.span()",
     [(797, FPart PInter)]);
  (*  818 *) ("resolve_intermediate_ref",
     "inter_data.span()",
     [(804, FPart PInter)]);
  (*  828 *) ("resolve_intermediate_ref",
     "inter_data.span()",
     [(814, FPart PInter)]);
  (*  934 *) ("cookware",
     "resolve_reference(location: location <- let (cookware, location) = cookware.take_pair())",
     [(1215, FPart PComp)]);
  (*  934 *) ("cookware",
     "resolve_reference(modifiers_location: located_cookware.modifiers.span())",
     [(1095, FPart PMods); (1107, FPart PMods)]);
  (*  942 *) ("cookware",
     "note_reference_error(span: note.span())",
     [(928, FPart PNote)]);
  (*  944 *) ("cookware",
     "note_reference_error(def_span: definition_location.span())",
     [(930, FPosEnd PComp)]);
  (*  945 *) ("cookware",
     "note_reference_error(def_note_span: definition_location.note.as_ref().map(|n|n.span()))",
     [(931, FPart PNote)]);
  (*  958 *) ("cookware",
     "conflicting_reference_quantity_error(ref_quantity_span: located_cookware.quantity.as_ref().unwrap().span())",
     [(944, FPart PQuantity)]);
  (*  959 *) ("cookware",
     "conflicting_reference_quantity_error(def_span: definition_location.span())",
     [(945, FPart PComp)]);
  (*  982 *) ("cookware",
     "text_val_in_ref_warn(text_quantity_span: text_quantity_span <- let (text_quantity_span, number_quantity_span) = if ref_is_text{(ref_q_loc, def_q_loc)} else {(def_q_loc, ref_q_loc)})",
     [(958, FPart PQuantity); (959, FPart PQuantity)]);
  (*  983 *) ("cookware",
     "text_val_in_ref_warn(number_quantity_span: number_quantity_span <- let (text_quantity_span, number_quantity_span) = if ref_is_text{(ref_q_loc, def_q_loc)} else {(def_q_loc, ref_q_loc)})",
     [(958, FPart PQuantity); (959, FPart PQuantity)]);
  (* 1007 *) ("timer",
     "located_quantity.value.span()",
     [(993, FPart PValue)]);
  (* 1018 *) ("timer",
     "unit_span <- let unit_span = located_quantity.unit.as_ref().unwrap().span()",
     [(1003, FPart PUnit)]);
  (* 1027 *) ("timer",
     "unit_span <- let unit_span = located_quantity.unit.as_ref().unwrap().span()",
     [(1013, FPart PUnit)]);
  (* 1070 *) ("value",
     "value.span()",
     [(1056, FPart PValue)]);
  (* 1109 *) ("resolve_reference",
     "modifiers_location <- fn parameter",
     [(1095, FPart PMods)]);
  (* 1121 *) ("resolve_reference",
     "modifiers_location <- fn parameter",
     [(1107, FPart PMods)]);
  (* 1229 *) ("resolve_reference",
     "location <- fn parameter",
     [(1215, FPart PComp)]);
  (* 1448 *) ("note_reference_error",
     "span <- fn parameter",
     [(703, FPart PNote); (928, FPart PNote)]);
  (* 1451 *) ("note_reference_error",
     "sp <- if let Some(sp) = def_note_span",
     [(706, FPart PNote); (931, FPart PNote)]);
  (* 1454 *) ("note_reference_error",
     "Span::pos(def_span.end())",
     [(705, FPosEnd PComp); (930, FPosEnd PComp)]);
  (* 1470 *) ("conflicting_reference_quantity_error",
     "ref_quantity_span <- fn parameter",
     [(728, FPart PQuantity); (944, FPart PQuantity)]);
  (* 1473 *) ("conflicting_reference_quantity_error",
     "def_span <- fn parameter",
     [(729, FPart PComp); (945, FPart PComp)]);
  (* 1490 *) ("text_val_in_ref_warn",
     "text_quantity_span <- fn parameter",
     [(742, FPart PQuantity); (743, FPart PQuantity); (958, FPart PQuantity); (959, FPart PQuantity)]);
  (* 1492 *) ("text_val_in_ref_warn",
     "number_quantity_span <- fn parameter",
     [(742, FPart PQuantity); (743, FPart PQuantity); (958, FPart PQuantity); (959, FPart PQuantity)])
].
Local Close Scope string_scope.

(* the label sites of the code before 17e6a01: the note label of 703/928 had the old form *)
Definition label_sites_before_17e6a01 : list (N * form) :=
  map (fun lf => if ((fst lf =? 703) || (fst lf =? 928)) then (fst lf, FNoteOld) else lf) label_sites.

Definition pos (a : N) : span := (a, a).

Section Produces.
  (* serde_yaml's Error::location().map(|l| l.index()) for the error it gives on a text: an oracle,
     Some i = the error has a location *)
  Variable yaml_err_index : str -> option N.

  (* the spans a label of form [f] can take on the stream [evs] *)
  Definition produces (evs : list pevent) (f : form) (sp : span) : Prop :=
    match f with
    | FPart p => exists ev, In ev evs /\ In sp (part_spans p ev)
    | FPosEnd p => exists ev sp0, In ev evs /\ In sp0 (part_spans p ev) /\ sp = pos (snd sp0)
    | FJoinKV => exists k v, In (EvMetadata k v) evs /\ sp = (fst (text_span k), snd (text_span v))
    | FYamlKey =>
        exists t key p, In (EvYaml t) evs /\ yaml_find_key_position (text_str t) key = Done (Some p) /\
                        sp = pos (fst (text_span t) + p)
    | FYamlErr =>
        (* event_consumer.rs 244-248: err.location().map(|loc| Span::pos(yaml_text.span().start() + loc.index()))
           .unwrap_or_else(|| yaml_text.span()); before 45a4888 there was no label without a location *)
        exists t, In (EvYaml t) evs /\
                  match yaml_err_index (text_str t) with
                  | Some i => sp = pos (fst (text_span t) + i)
                  | None => sp = text_span t
                  end
    | FNoteOld =>
        exists ev sp0, In ev evs /\ In sp0 (part_spans PNote ev) /\ sp = (fst sp0 - 1, snd sp0 + 1)
    end.
End Produces.

(* ------------------------------------------------------------------ facts about events the forms need *)
(* a metadata entry's key starts at or before the end of its value (FJoinKV); the front matter
   text is one verbatim fragment (FYamlKey, FYamlErr: Text::text() is then the source slice) *)
Definition ev_fact (ev : pevent) : Prop :=
  match ev with
  | EvMetadata k v => fst (text_span k) <= snd (text_span v)
  | EvYaml t => exists y off, t = text_from_str y off
  | _ => True
  end.
