(* C07: which constructor of the models stands for each place of the code that makes a diagnostic.

   [table] maps every entry - by its key [DiagSites.site_key]: stage, file, fn, how, severity, pushes, ordinal in
   the fn; NOT the message, so that rewording is harmless (the wording beside each row is a comment) - of the
   regenerated inventory Gen/DiagSites.v (gen/gen_diags.py: every error!(..),
   warning!(..), SourceDiag::.. and .into_source_diag(..) of the non-test code of src/parser, src/analysis,
   src/lexer, src/metadata.rs, src/lib.rs and src/error.rs, and every push of a diagnostic made elsewhere) to
     PCode c       the parse-stage diagnostic code c (D_.. of Model/Parser.v, built there by [error c ..] /
                   [warn c ..]); its severity is [pcode_is_error c], read off Model/Parser.v and proved to be
                   the severity of every diagnostic with that code the parser model emits, for every input
                   (Proofs/DiagSeverity.v: events_code_severity)
     AKind k       the kind k of Model/AnalysisDiag.v; its severity is [kind_is_error k]
     Ctor          a constructor of SourceDiag or the body of the error!/warning! macros: no diagnostic of its
                   own; [ctor_ok]: it gives the severity its name says
     Forward       a push of a diagnostic made at another entry (`Err(err) => bp.error(err)`)
     Unmodelled w  a diagnostic of the code that NO constructor of the models stands for, with the reason.
   The generator names the constructor of every site with the help of this table ([site_ctor] of Gen/DiagSites.v);
   Proofs/DiagMapProofs.v proves, about the regenerated sites: every site has the severity (and stage) its
   constructor has in the model, and is pushed by a method that asserts that severity; every kind of
   AnalysisDiag.all_kinds and every code of [all_pcodes] is the constructor of a site; the pinned rows
   (C07_diag_inventory: per stage and file the set of (severity, constructor)) are those of the sites.  The theorems
   about diagnostics quantify over these constructors, hence over every diagnostic of the code except the
   [Unmodelled] ones. *)
From Coq Require Import List String NArith.
From CL Require Import Model.Parser Model.AnalysisDiag.
From CL Require Import Gen.DiagSites.
Import ListNotations.
Local Open Scope string_scope.

Inductive target :=
| PCode (code : N)
| AKind (k : akind)
| Ctor
| Forward
| Unmodelled (why : string).

(* ---- the parse-stage codes of Model/Parser.v and how each is built there: [error] (true) or [warn] ---- *)
Definition pcode_table : list (N * bool) :=
  [(D_SINGLE_WORD, false); (D_DUP_MOD, true); (D_INTER_EMPTY, true); (D_INTER_ORDER, true); (D_INTER_SIGN, true);
   (D_INTER_INVALID, true); (D_INTER_INT, true); (D_MULTI_ALIAS, true); (D_EMPTY_ALIAS, true); (D_EMPTY_NAME, true);
   (D_COOKWARE_UNIT, true); (D_COOKWARE_RECIPE, true); (D_TIMER_NO_UNIT, true); (D_TIMER_NO_QTY, true);
   (D_TIMER_NEITHER, true); (D_MODS_NOT_ALLOWED, true); (D_INTER_NOT_ALLOWED, true); (D_ALIAS_NOT_ALLOWED, true);
   (D_NOTE_WARN, false); (D_EMPTY_UNIT, false); (D_EMPTY_VALUE, true); (D_DIV_ZERO, true); (D_INT_PARSE, true);
   (D_META_INVALID, false); (D_EMPTY_META_KEY, true); (D_EMPTY_META_VALUE, false); (D_SECTION_INVALID, false)].
Definition all_pcodes : list N := map fst pcode_table.

Fixpoint pcode_lookup (l : list (N * bool)) (c : N) : option bool :=
  match l with
  | [] => None
  | (k, b) :: r => if N.eqb k c then Some b else pcode_lookup r c
  end.
(* None: not a code of the parser model *)
Definition pcode_sev (c : N) : option bool := pcode_lookup pcode_table c.
Definition pcode_is_error (c : N) : bool := match pcode_sev c with Some b => b | None => false end.

(* ---- what is checked of an entry ---- *)
Definition sev_of_bool (b : bool) : sev := if b then IsError else IsWarning.
Definition sev_eqb (a b : sev) : bool :=
  match a, b with IsError, IsError | IsWarning, IsWarning | IsDynamic, IsDynamic => true | _, _ => false end.
Definition stage_eqb (a b : stage) : bool :=
  match a, b with AtParse, AtParse | AtAnalysis, AtAnalysis | AtAny, AtAny => true | _, _ => false end.
(* BlockParser::error / SourceReport::error assert an Error, ::warn a Warning (block_parser.rs:270-277,
   error.rs:208-216): an error! handed to warn is a mismatch *)
Definition push_ok (s : sev) (p : push) : bool :=
  match s, p with IsError, ByWarn _ => false | IsWarning, ByError _ => false | _, _ => true end.
(* a constructor gives the severity its name says: the macros error!/warning!, SourceDiag::error/::warning, the
   struct literals of fn error / fn warning / fn unlabeled of src/error.rs *)
Definition ctor_ok (s : key) : bool :=
  (if String.eqb (key_fn s) "error!" then sev_eqb (key_sev s) IsError else true)
  && (if String.eqb (key_fn s) "warning!" then sev_eqb (key_sev s) IsWarning else true)
  && (if String.eqb (key_how s) "SourceDiag::error" then sev_eqb (key_sev s) IsError else true)
  && (if String.eqb (key_how s) "SourceDiag::warning" then sev_eqb (key_sev s) IsWarning else true)
  && (if String.eqb (key_how s) "SourceDiag{}" then
        (if String.eqb (key_fn s) "error" then sev_eqb (key_sev s) IsError
         else if String.eqb (key_fn s) "warning" then sev_eqb (key_sev s) IsWarning
         else sev_eqb (key_sev s) IsDynamic)
      else true)
  && (String.eqb (key_how s) "SourceDiag::error" || String.eqb (key_how s) "SourceDiag::warning"
      || String.eqb (key_how s) "SourceDiag::unlabeled" || String.eqb (key_how s) "SourceDiag{}").

Definition entry_ok (e : key * target) : bool :=
  forallb (push_ok (key_sev (fst e))) (key_pushes (fst e)) &&
  match snd e with
  | PCode c => stage_eqb (key_stage (fst e)) AtParse &&
               match pcode_sev c with Some b => sev_eqb (key_sev (fst e)) (sev_of_bool b) | None => false end
  | AKind k => stage_eqb (key_stage (fst e)) AtAnalysis && sev_eqb (key_sev (fst e)) (sev_of_bool (kind_is_error k))
  | Ctor => ctor_ok (fst e)
  | Forward => String.eqb (key_how (fst e)) "forward"
  | Unmodelled _ => negb (String.eqb (key_how (fst e)) "forward")
  end.

Definition akind_eqb (a b : akind) : bool :=
  match a, b with
  | KYamlError, KYamlError | KStdEntryYaml, KStdEntryYaml | KTimeOverridenYaml, KTimeOverridenYaml
  | KInvalidConfigValue, KInvalidConfigValue | KUnknownConfigKey, KUnknownConfigKey | KStdEntryMeta, KStdEntryMeta
  | KTimeOverridden, KTimeOverridden | KIgnoredText, KIgnoredText | KIgnoredComponent, KIgnoredComponent
  | KInterModifiers, KInterModifiers | KIncompatibleUnits, KIncompatibleUnits | KNoteOnReference, KNoteOnReference
  | KConflictQuantity, KConflictQuantity | KTextValueInRef, KTextValueInRef | KInterZero, KInterZero
  | KInterBounds, KInterBounds | KTimerValueText, KTimerValueText | KTimerUnitNotTime, KTimerUnitNotTime
  | KTimerUnitUnknown, KTimerUnitUnknown | KScalingLock, KScalingLock | KConflictModifiers, KConflictModifiers
  | KRedundantModifier, KRedundantModifier | KRefNotFound, KRefNotFound | KDeprecated, KDeprecated => true
  | _, _ => false
  end.

Definition is_kind (k : akind) (e : key * target) : bool :=
  match snd e with AKind k' => akind_eqb k k' | _ => false end.
Definition is_pcode (c : N) (e : key * target) : bool :=
  match snd e with PCode c' => N.eqb c c' | _ => false end.
Definition is_unmodelled (e : key * target) : bool :=
  match snd e with Unmodelled _ => true | _ => false end.

(* ---- why some diagnostics of the code have no constructor ---- *)
(* the three callbacks of ParseOptions (metadata_validator: event_consumer.rs process_frontmatter and metadata;
   recipe_ref_check: ingredient) return a CheckResult that CheckResult::into_source_diag (analysis/mod.rs) turns
   into a diagnostic of the severity the callback chose; it is pushed with ctx.push.  The models are those of
   the default options, which have no callback: Model/AnalysisDiag.v has no kind for them and the theorems of
   C07 say nothing about a parser with custom validators *)
Definition callback_why : string :=
  "made from the CheckResult of a user callback of ParseOptions (metadata_validator / recipe_ref_check); the models are those of the default options, which have none".
(* float() of quantity.rs turns the text of a lexer float token into an f64 and makes an error when
   str::parse::<f64> fails; Model/Parser.v's float() is total (the decimal literal as an exact rational) and has
   no diagnostic code for this error (there is no D_ code 24) *)
Definition float_why : string :=
  "float() of Model/Parser.v is total: no code for a failing f64 parse of a float token".

(* ---- the constructor a site of the regenerated inventory is given: Gen/DiagSites.v names it in [site_ctor] (the
   generator looks the site up in [table] below: by key and message, else by message, else by key, else by
   position; "unknown" when nothing fits) ---- *)
Definition ctor_names : list (string * target) := [
  ("Ctor", Ctor);
  ("Forward", Forward);
  ("AKind KDeprecated", AKind KDeprecated);
  ("AKind KYamlError", AKind KYamlError);
  ("Unmodelled callback_why", Unmodelled callback_why);
  ("AKind KStdEntryYaml", AKind KStdEntryYaml);
  ("AKind KTimeOverridenYaml", AKind KTimeOverridenYaml);
  ("AKind KInvalidConfigValue", AKind KInvalidConfigValue);
  ("AKind KUnknownConfigKey", AKind KUnknownConfigKey);
  ("AKind KStdEntryMeta", AKind KStdEntryMeta);
  ("AKind KTimeOverridden", AKind KTimeOverridden);
  ("AKind KIgnoredText", AKind KIgnoredText);
  ("AKind KIgnoredComponent", AKind KIgnoredComponent);
  ("AKind KInterModifiers", AKind KInterModifiers);
  ("AKind KIncompatibleUnits", AKind KIncompatibleUnits);
  ("AKind KInterZero", AKind KInterZero);
  ("AKind KInterBounds", AKind KInterBounds);
  ("AKind KTimerValueText", AKind KTimerValueText);
  ("AKind KTimerUnitNotTime", AKind KTimerUnitNotTime);
  ("AKind KTimerUnitUnknown", AKind KTimerUnitUnknown);
  ("AKind KScalingLock", AKind KScalingLock);
  ("AKind KConflictModifiers", AKind KConflictModifiers);
  ("AKind KRedundantModifier", AKind KRedundantModifier);
  ("AKind KRefNotFound", AKind KRefNotFound);
  ("AKind KNoteOnReference", AKind KNoteOnReference);
  ("AKind KConflictQuantity", AKind KConflictQuantity);
  ("AKind KTextValueInRef", AKind KTextValueInRef);
  ("PCode D_META_INVALID", PCode D_META_INVALID);
  ("PCode D_EMPTY_META_KEY", PCode D_EMPTY_META_KEY);
  ("PCode D_EMPTY_META_VALUE", PCode D_EMPTY_META_VALUE);
  ("PCode D_EMPTY_UNIT", PCode D_EMPTY_UNIT);
  ("PCode D_EMPTY_VALUE", PCode D_EMPTY_VALUE);
  ("PCode D_DIV_ZERO", PCode D_DIV_ZERO);
  ("PCode D_INT_PARSE", PCode D_INT_PARSE);
  ("Unmodelled float_why", Unmodelled float_why);
  ("PCode D_SECTION_INVALID", PCode D_SECTION_INVALID);
  ("PCode D_SINGLE_WORD", PCode D_SINGLE_WORD);
  ("PCode D_DUP_MOD", PCode D_DUP_MOD);
  ("PCode D_INTER_EMPTY", PCode D_INTER_EMPTY);
  ("PCode D_INTER_ORDER", PCode D_INTER_ORDER);
  ("PCode D_INTER_SIGN", PCode D_INTER_SIGN);
  ("PCode D_INTER_INVALID", PCode D_INTER_INVALID);
  ("PCode D_INTER_INT", PCode D_INTER_INT);
  ("PCode D_MULTI_ALIAS", PCode D_MULTI_ALIAS);
  ("PCode D_EMPTY_ALIAS", PCode D_EMPTY_ALIAS);
  ("PCode D_COOKWARE_UNIT", PCode D_COOKWARE_UNIT);
  ("PCode D_COOKWARE_RECIPE", PCode D_COOKWARE_RECIPE);
  ("PCode D_TIMER_NO_UNIT", PCode D_TIMER_NO_UNIT);
  ("PCode D_TIMER_NO_QTY", PCode D_TIMER_NO_QTY);
  ("PCode D_TIMER_NEITHER", PCode D_TIMER_NEITHER);
  ("PCode D_MODS_NOT_ALLOWED", PCode D_MODS_NOT_ALLOWED);
  ("PCode D_INTER_NOT_ALLOWED", PCode D_INTER_NOT_ALLOWED);
  ("PCode D_ALIAS_NOT_ALLOWED", PCode D_ALIAS_NOT_ALLOWED);
  ("PCode D_NOTE_WARN", PCode D_NOTE_WARN);
  ("PCode D_EMPTY_NAME", PCode D_EMPTY_NAME)
].
Fixpoint lookup_name (l : list (string * target)) (n : string) : option target :=
  match l with
  | [] => None
  | (m, t) :: r => if String.eqb m n then Some t else lookup_name r n
  end.
Definition site_target (s : site) : option target := lookup_name ctor_names (site_ctor s).
(* None ("unknown" or a name that is no constructor): not ok *)
Definition site_ok (s : site) : bool :=
  match site_target s with Some t => entry_ok (site_key s, t) | None => false end.
Definition site_is_kind (k : akind) (s : site) : bool :=
  match site_target s with Some (AKind k') => akind_eqb k k' | _ => false end.
Definition site_is_pcode (c : N) (s : site) : bool :=
  match site_target s with Some (PCode c') => N.eqb c c' | _ => false end.
Definition site_is_forward (s : site) : bool := String.eqb (site_how s) "forward".

(* the pinned rows are exactly the (stage, file, severity, constructor) of the sites that are not forward pushes *)
Definition row_of (s : site) : stage * string * sev * string := (site_stage s, site_file s, site_sev s, site_ctor s).
Definition row_eqb (a b : stage * string * sev * string) : bool :=
  let '(s1, f1, v1, c1) := a in let '(s2, f2, v2, c2) := b in
  stage_eqb s1 s2 && String.eqb f1 f2 && sev_eqb v1 v2 && String.eqb c1 c2.
Definition summary_ok (ss : list site) (rows : list (stage * string * sev * string)) : bool :=
  forallb (fun r => existsb (fun s => negb (site_is_forward s) && row_eqb (row_of s) r) ss) rows
  && forallb (fun s => site_is_forward s || existsb (row_eqb (row_of s)) rows) ss.

(* ---- the dictionary: site (fine key, wording as a comment) -> constructor.  It is the generator's way to name the
   constructor of a site, not a pinned list: its keys are those of the tree it was last written for ---- *)
Definition table : list (key * target) := [
  (Key AtAnalysis "event_consumer" "error!" "SourceDiag::error" IsError [] 0,
    Ctor);   (* "<$msg>" *)
  (Key AtAnalysis "event_consumer" "error!" "SourceDiag::unlabeled" IsError [] 1,
    Ctor);   (* "<$msg>" *)
  (Key AtAnalysis "event_consumer" "warning!" "SourceDiag::warning" IsWarning [] 0,
    Ctor);   (* "<$msg>" *)
  (Key AtAnalysis "event_consumer" "warning!" "SourceDiag::unlabeled" IsWarning [] 1,
    Ctor);   (* "<$msg>" *)
  (Key AtAnalysis "event_consumer" "parse_events" "forward" IsError [ByError "self.ctx"] 0,
    Forward);   (* "<e>" *)
  (Key AtAnalysis "event_consumer" "parse_events" "forward" IsDynamic [ByPush "self.ctx"] 1,
    Forward);   (* "<e>" *)
  (Key AtAnalysis "event_consumer" "parse_events" "forward" IsWarning [ByWarn "self.ctx"] 2,
    Forward);   (* "<w>" *)
  (Key AtAnalysis "event_consumer" "parse_events" "warning!" IsWarning [ByWarn "self.ctx"] 3,
    AKind KDeprecated);   (* "The '>>' syntax for metadata is deprecated, use a YAML frontmatter" *)
  (Key AtAnalysis "event_consumer" "process_frontmatter" "error!" IsError [ByError "self.ctx"] 0,
    AKind KYamlError);   (* "<err.to_string()>" *)
  (Key AtAnalysis "event_consumer" "process_frontmatter" ".into_source_diag" IsDynamic [ByPush "self.ctx"] 1,
    Unmodelled callback_why);   (* "Invalid metadata entry" *)
  (Key AtAnalysis "event_consumer" "process_frontmatter" "warning!" IsWarning [ByWarn "self.ctx"] 2,
    AKind KStdEntryYaml);   (* "Unsupported value for key: '{}'" *)
  (Key AtAnalysis "event_consumer" "process_frontmatter" "warning!" IsWarning [ByWarn "self.ctx"] 3,
    AKind KTimeOverridenYaml);   (* "Time overriden" *)
  (Key AtAnalysis "event_consumer" "metadata" "error!" IsError [ByError "self.ctx"] 0,
    AKind KInvalidConfigValue);   (* "Invalid value for config key '{key_t}': {value_t}" *)
  (Key AtAnalysis "event_consumer" "metadata" "warning!" IsWarning [ByWarn "self.ctx"] 1,
    AKind KUnknownConfigKey);   (* "Unknown config metadata key: {key_t}" *)
  (Key AtAnalysis "event_consumer" "metadata" ".into_source_diag" IsDynamic [ByPush "self.ctx"] 2,
    Unmodelled callback_why);   (* "Invalid metadata entry" *)
  (Key AtAnalysis "event_consumer" "metadata" "warning!" IsWarning [ByWarn "self.ctx"] 3,
    AKind KStdEntryMeta);   (* "Unsupported value for key: '{}'" *)
  (Key AtAnalysis "event_consumer" "time_override_check" "warning!" IsWarning [ByWarn "self.ctx"] 0,
    AKind KTimeOverridden);   (* "Time overridden" *)
  (Key AtAnalysis "event_consumer" "in_step" "warning!" IsWarning [ByWarn "self.ctx"] 0,
    AKind KIgnoredText);   (* "Ignoring text in define components mode" *)
  (Key AtAnalysis "event_consumer" "in_text" "warning!" IsWarning [ByWarn "self.ctx"] 0,
    AKind KIgnoredComponent);   (* "Ignoring {c} in text mode" *)
  (Key AtAnalysis "event_consumer" "ingredient" "error!" IsError [ByError "self.ctx"] 0,
    AKind KInterModifiers);   (* "Conflicting modifiers with intermediate preparation reference" *)
  (Key AtAnalysis "event_consumer" "ingredient" "forward" IsError [ByError "self.ctx"] 1,
    Forward);   (* "<error>" *)
  (Key AtAnalysis "event_consumer" "ingredient" "warning!" IsWarning [ByWarn "self.ctx"] 2,
    AKind KIncompatibleUnits);   (* "Incompatible units prevent calculating total amount" *)
  (Key AtAnalysis "event_consumer" "ingredient" ".into_source_diag" IsDynamic [ByPush "self.ctx"] 3,
    Unmodelled callback_why);   (* "Referenced recipe not found: {}" *)
  (Key AtAnalysis "event_consumer" "resolve_intermediate_ref" "error!" IsError [] 0,
    AKind KInterZero);   (* "{INVALID}: number is 0" *)
  (Key AtAnalysis "event_consumer" "resolve_intermediate_ref" "error!" IsError [] 1,
    AKind KInterZero);   (* "{INVALID}: relative reference to self" *)
  (Key AtAnalysis "event_consumer" "resolve_intermediate_ref" "error!" IsError [] 2,
    AKind KInterBounds);   (* "{INVALID}: value out of bounds" *)
  (Key AtAnalysis "event_consumer" "timer" "error!" IsError [ByError "self.ctx"] 0,
    AKind KTimerValueText);   (* "Timer value is text: {}" *)
  (Key AtAnalysis "event_consumer" "timer" "error!" IsError [ByError "self.ctx"] 1,
    AKind KTimerUnitNotTime);   (* "Timer unit is not time: {unit}" *)
  (Key AtAnalysis "event_consumer" "timer" "error!" IsError [ByError "self.ctx"] 2,
    AKind KTimerUnitUnknown);   (* "Unknown timer unit: {unit_text}" *)
  (Key AtAnalysis "event_consumer" "value" "warning!" IsWarning [ByWarn "self.ctx"] 0,
    AKind KScalingLock);   (* "Unnecessary scaling lock modifier" *)
  (Key AtAnalysis "event_consumer" "resolve_reference" "error!" IsError [ByError "self.ctx"] 0,
    AKind KConflictModifiers);   (* "Unsupported modifier combination with reference: {conflict}" *)
  (Key AtAnalysis "event_consumer" "resolve_reference" "warning!" IsWarning [ByWarn "self.ctx"] 1,
    AKind KRedundantModifier);   (* "Redundant {redundant} modifier" *)
  (Key AtAnalysis "event_consumer" "resolve_reference" "error!" IsError [ByError "self.ctx"] 2,
    AKind KRefNotFound);   (* "Reference not found: {}" *)
  (Key AtAnalysis "event_consumer" "note_reference_error" "error!" IsError [ByError "self.ctx"] 0,
    AKind KNoteOnReference);   (* "Note not allowed in reference" *)
  (Key AtAnalysis "event_consumer" "conflicting_reference_quantity_error" "error!" IsError [ByError "self.ctx"] 0,
    AKind KConflictQuantity);   (* "Conflicting component reference quantities" *)
  (Key AtAnalysis "event_consumer" "text_val_in_ref_warn" "warning!" IsWarning [ByWarn "self.ctx"] 0,
    AKind KTextValueInRef);   (* "Text value may prevent calculating total amount" *)
  (Key AtAnalysis "mod" "into_source_diag" "SourceDiag::unlabeled" IsDynamic [] 0,
    Unmodelled callback_why);   (* "<message()>" *)
  (Key AtAny "error" "error" "SourceDiag{}" IsError [] 0,
    Ctor);   (* "<message.into()>" *)
  (Key AtAny "error" "warning" "SourceDiag{}" IsWarning [] 0,
    Ctor);   (* "<message.into()>" *)
  (Key AtAny "error" "unlabeled" "SourceDiag{}" IsDynamic [] 0,
    Ctor);   (* "<message.into()>" *)
  (Key AtParse "metadata" "metadata_entry" "warning!" IsWarning [ByWarn "block"] 0,
    PCode D_META_INVALID);   (* "A metadata block is invalid and it will be a step" *)
  (Key AtParse "metadata" "metadata_entry" "error!" IsError [ByError "block"] 1,
    PCode D_EMPTY_META_KEY);   (* "Empty metadata key" *)
  (Key AtParse "metadata" "metadata_entry" "warning!" IsWarning [ByWarn "block"] 2,
    PCode D_EMPTY_META_VALUE);   (* "Empty metadata value for key: {}" *)
  (Key AtParse "mod" "error!" "SourceDiag::error" IsError [] 0,
    Ctor);   (* "<$msg>" *)
  (Key AtParse "mod" "warning!" "SourceDiag::warning" IsWarning [] 0,
    Ctor);   (* "<$msg>" *)
  (Key AtParse "quantity" "parse_regular_quantity" "warning!" IsWarning [ByWarn "bp"] 0,
    PCode D_EMPTY_UNIT);   (* "Empty quantity unit" *)
  (Key AtParse "quantity" "parse_advanced_quantity" "forward" IsError [ByError "bp"] 0,
    Forward);   (* "<err>" *)
  (Key AtParse "quantity" "parse_value" "forward" IsError [ByError "bp"] 0,
    Forward);   (* "<err>" *)
  (Key AtParse "quantity" "text_value" "error!" IsError [ByError "bp"] 0,
    PCode D_EMPTY_VALUE);   (* "Empty quantity value" *)
  (Key AtParse "quantity" "frac" "error!" IsError [] 0,
    PCode D_DIV_ZERO);   (* "Division by zero" *)
  (Key AtParse "quantity" "int" "error!" IsError [] 0,
    PCode D_INT_PARSE);   (* "Error parsing integer number" *)
  (Key AtParse "quantity" "float" "error!" IsError [] 0,
    Unmodelled float_why);   (* "Error parsing decimal number" *)
  (Key AtParse "section" "section" "warning!" IsWarning [ByWarn "block"] 0,
    PCode D_SECTION_INVALID);   (* "A section block is invalid and it will be a step" *)
  (Key AtParse "step" "comp_body" "warning!" IsWarning [ByWarn "bp"] 0,
    PCode D_SINGLE_WORD);   (* "Invalid single word name, the component will be ignored" *)
  (Key AtParse "step" "parse_modifiers" "error!" IsError [ByError "bp"] 0,
    PCode D_DUP_MOD);   (* "Duplicate modifier: {}" *)
  (Key AtParse "step" "parse_intermediate_ref_data" "error!" IsError [ByError "bp"] 0,
    PCode D_INTER_EMPTY);   (* "{INVALID}: empty" *)
  (Key AtParse "step" "parse_intermediate_ref_data" "error!" IsError [ByError "bp"] 1,
    PCode D_INTER_ORDER);   (* "{INVALID}: wrong relative section order" *)
  (Key AtParse "step" "parse_intermediate_ref_data" "error!" IsError [ByError "bp"] 2,
    PCode D_INTER_SIGN);   (* "{INVALID}: value sign" *)
  (Key AtParse "step" "parse_intermediate_ref_data" "error!" IsError [ByError "bp"] 3,
    PCode D_INTER_INVALID);   (* "Invalid intermediate preparation reference" *)
  (Key AtParse "step" "parse_intermediate_ref_data" "error!" IsError [ByError "bp"] 4,
    PCode D_INTER_INT);   (* "Error parsing integer number" *)
  (Key AtParse "step" "parse_alias" "error!" IsError [ByError "bp"] 0,
    PCode D_MULTI_ALIAS);   (* "Invalid {container}: multiple aliases" *)
  (Key AtParse "step" "parse_alias" "error!" IsError [ByError "bp"] 1,
    PCode D_EMPTY_ALIAS);   (* "Invalid {container}: empty alias" *)
  (Key AtParse "step" "cookware" "error!" IsError [ByError "bp"] 0,
    PCode D_COOKWARE_UNIT);   (* "Invalid cookware quantity: unit" *)
  (Key AtParse "step" "cookware" "error!" IsError [ByError "bp"] 1,
    PCode D_COOKWARE_RECIPE);   (* "Invalid cookware modifiers: recipe modifier not allowed" *)
  (Key AtParse "step" "timer" "error!" IsError [ByError "bp"] 0,
    PCode D_TIMER_NO_UNIT);   (* "Invalid timer quantity: missing unit" *)
  (Key AtParse "step" "timer" "error!" IsError [ByError "bp"] 1,
    PCode D_TIMER_NO_QTY);   (* "Invalid timer: missing quantity" *)
  (Key AtParse "step" "timer" "error!" IsError [ByError "bp"] 2,
    PCode D_TIMER_NEITHER);   (* "Invalid timer: neither quantity nor name" *)
  (Key AtParse "step" "check_modifiers" "error!" IsError [ByError "bp"] 0,
    PCode D_MODS_NOT_ALLOWED);   (* "Invalid {container}: modifiers not allowed" *)
  (Key AtParse "step" "check_intermediate_data" "error!" IsError [ByError "bp"] 0,
    PCode D_INTER_NOT_ALLOWED);   (* "Invalid {container}: intermediate preparation reference not allowed" *)
  (Key AtParse "step" "check_alias" "error!" IsError [ByError "bp"] 0,
    PCode D_ALIAS_NOT_ALLOWED);   (* "Invalid {container}: alias not allowed" *)
  (Key AtParse "step" "check_note" "warning!" IsWarning [ByWarn "bp"] 0,
    PCode D_NOTE_WARN);   (* "A {container} cannot have a note, it will be text" *)
  (Key AtParse "step" "check_empty_name" "error!" IsError [ByError "bp"] 0,
    PCode D_EMPTY_NAME)   (* "Invalid {container} name: is empty" *)
].
