(* The source edits of property C17 ("line endings, comments and blank space do not
   change the recipe") as functions on strings, and the relations on token lists that the
   parser-level theorems speak about.  Nothing here models Rust code: these are the
   *inputs* of the metamorphic statement; the Python twin that the run-time monitor uses is
   checks/c17.py (crlf, trail_comment, trail_space, mid_comment, extra_lines).

   An edit takes its insertion point as a character position [n] (an entry of the tape):
   [insert_at n x s] puts [x] between the first [n] characters of [s] and the rest. *)
From CL Require Export Base.Chars Model.Lexer Model.PText Model.CommentMask Model.Parser.

(* ---------------------------------------------------------------- line endings *)

(* every line ending (LF not preceded by CR) becomes CRLF; an existing CRLF stays *)
Fixpoint crlf_from (prev_cr : bool) (s : str) : str :=
  match s with
  | [] => []
  | c :: r =>
      if (c =? 10) && negb prev_cr then 13 :: 10 :: crlf_from false r
      else c :: crlf_from (c =? 13) r
  end.
Definition crlf (s : str) : str := crlf_from false s.

(* every CR is directly followed by LF *)
Fixpoint no_lone_cr (s : str) : bool :=
  match s with
  | [] => true
  | c :: r => (negb (c =? 13) || next_is 10 r) && no_lone_cr r
  end.

Definition no_backslash (s : str) : bool := forallb (fun c => negb (c =? 92)) s.

(* ---------------------------------------------------------------- insertions *)

Definition insert_at (n : nat) (x s : str) : str := firstn n s ++ x ++ skipn n s.

Definition line_comment_text (c : str) : str := 45 :: 45 :: c.                (* --c *)
Definition block_comment_text (c : str) : str := 91 :: 45 :: c ++ [45; 93].   (* [-c-] *)

(* append " --c" to a line: n is the position of the line's newline (or the end) *)
Definition trail_comment (n : nat) (c s : str) : str := insert_at n (32 :: line_comment_text c) s.
(* append blanks/tabs [w] to a line *)
Definition trail_space (n : nat) (w s : str) : str := insert_at n w s.
(* [-c-] directly after a word (before the existing blank) *)
Definition mid_comment (n : nat) (c s : str) : str := insert_at n (block_comment_text c) s.
(* the variant with a blank on both sides (step text only) *)
Definition mid_comment_spaced (n : nat) (c s : str) : str :=
  insert_at n (32 :: block_comment_text c ++ [32]) s.
(* a blank or comment-only line [l] (without its newline) in front of position n *)
Definition extra_line (n : nat) (l s : str) : str := insert_at n (l ++ [10]) s.

(* several insertions: the tape lists the points from right to left, so that earlier
   insertions do not move later points *)
Definition edit_all (edit : nat -> str -> str) (tape : list nat) (s : str) : str :=
  fold_left (fun acc n => edit n acc) tape s.

(* the comment body contains no "-]" (it would close the comment early) and no newline
   for a line comment *)
Fixpoint no_close (c : str) : bool :=
  match c with
  | [] => true
  | x :: r => negb ((x =? 45) && next_is 93 r) && no_close r
  end.
Definition no_newline (c : str) : bool := forallb (fun x => negb (x =? 10)) c.

(* ---------------------------------------------------------------- token level *)

Definition shift_tok (n : N) (t : tok) : tok :=
  {| kind := kind t; tstr := tstr t; tstart := tstart t + n |}.
Definition shift (n : N) (ts : list tok) : list tok := map (shift_tok n) ts.

(* what BlockParser::text makes of one token *)
Definition render_tok (t : tok) : str :=
  match kind t with
  | KNewline => [32]
  | KLineComment | KBlockComment => []
  | KEscaped => tl (tstr t)
  | _ => tstr t
  end.
Definition render (ts : list tok) : str := concat (map render_tok ts).

(* token lists that differ only by comment tokens, by the spelling of newline tokens and
   by positions *)
Inductive tsim : list tok -> list tok -> Prop :=
| tsim_nil : tsim [] []
| tsim_same a b r1 r2 : kind a = kind b -> tstr a = tstr b -> tsim r1 r2 -> tsim (a :: r1) (b :: r2)
| tsim_newline a b r1 r2 : kind a = KNewline -> kind b = KNewline -> tsim r1 r2 -> tsim (a :: r1) (b :: r2)
| tsim_comment_l a r1 r2 : is_comment (kind a) = true -> tsim r1 r2 -> tsim (a :: r1) r2
| tsim_comment_r b r1 r2 : is_comment (kind b) = true -> tsim r1 r2 -> tsim r1 (b :: r2).

(* a newline token is spelled LF or CRLF *)
Definition newline_ok (t : tok) : Prop :=
  kind t = KNewline -> tstr t = [10] \/ tstr t = [13; 10].

(* a blank or comment-only line: blanks and comments, then one newline token *)
Definition blank_line (l : list tok) : Prop :=
  exists w nl, l = w ++ [nl] /\ kind nl = KNewline
               /\ forallb (fun t => is_ws_comment (kind t)) w = true.

(* [reach ts r]: iterating next_block from [ts] arrives at the remaining tokens [r]
   (r is where a block ended: a place "between blocks") *)
Inductive reach : list tok -> list tok -> Prop :=
| reach_here ts : reach ts ts
| reach_step ts blk r0 r : next_block (S (length ts)) ts = Some (blk, r0) -> reach r0 r -> reach ts r.

(* ---------------------------------------------------------------- CRLF on tokens *)
(* how a token of [lex s] and the corresponding token of [lex (crlf s)] are related: same kind;
   a newline token is spelled CRLF (or stays LF when the CR went into the line comment in
   front of it), a line comment may gain a final CR, a block comment has its inner line
   endings converted, every other token is unchanged *)
Definition crlf_tok_rel (t t' : tok) : Prop :=
  kind t' = kind t /\
  match kind t with
  | KNewline => tstr t' = [13; 10] \/ tstr t' = [10]
  | KLineComment => tstr t' = tstr t \/ tstr t' = tstr t ++ [13]
  | KBlockComment => tstr t' = crlf (tstr t)
  | _ => tstr t' = tstr t
  end.
