(* Model of how the two stages and their diagnostics are combined:
     /repo/src/error.rs       SourceDiag (severity, stage, labels: 22-58, 83-128),
                              SourceReport (buf + optional severity tag: 190-269),
                              PassResult::{new,has_output,report,is_valid} (343-369)
     /repo/src/analysis/event_consumer.rs
                              RecipeCollector::parse_events, the part of the loop that deals
                              with diagnostics (116-124, 200-233): a parser Error event stops the
                              analysis, collects every remaining parser diagnostic, keeps only
                              Parse-stage diagnostics and returns no output; a parser Warning is
                              pushed; everything else goes to the collector, whose diagnostics
                              (all built by the error!/warning! macros of lines 19-43, stage
                              Analysis) are pushed; at the end the `>>` notice may be added.
     /repo/src/lib.rs         CooklangParser::parse_with_options (222-231): PullParser events fed
                              to parse_events.
   The analysis pass itself is a parameter here ([astep], [afinish]: what it reports for one
   event / at the end) - its structure is Model/Analysis.v.  Parser diagnostics are those of
   Model/Parser.v: an [EvDiag d] is Event::Error when [d_err d] and Event::Warning otherwise
   (BlockParser::error/warn, block_parser.rs:270-277, assert that the event kind and the
   severity agree), and its stage is Parse (macros of parser/mod.rs:430-441).
   Message wording, hints and sources are not modelled. *)
From CL Require Export Base.Chars Model.Parser.
Open Scope N_scope.

Inductive severity := SevError | SevWarning.
Inductive stage := StParse | StAnalysis.

Record sdiag := { sd_sev : severity; sd_stage : stage; sd_labels : list span }.

Definition sd_is_error (d : sdiag) : bool := match sd_sev d with SevError => true | SevWarning => false end.
Definition sd_is_parse (d : sdiag) : bool := match sd_stage d with StParse => true | StAnalysis => false end.

(* a diagnostic of the parser model as a SourceDiag *)
Definition of_pdiag (d : diag) : sdiag :=
  {| sd_sev := if d_err d then SevError else SevWarning; sd_stage := StParse; sd_labels := d_labels d |}.

(* ---- SourceReport ---- *)
Record report := { r_buf : list sdiag; r_tag : option severity }.

Definition site_report_push : N := 204.   (* debug_assert!(severity.is_none() || err.severity == s) *)

Definition report_empty : report := {| r_buf := []; r_tag := None |}.

Definition sev_eqb (a b : severity) : bool :=
  match a, b with SevError, SevError | SevWarning, SevWarning => true | _, _ => false end.

(* SourceReport::push (203-206); [dbg] = debug assertions on *)
Definition push (dbg : bool) (r : report) (d : sdiag) : outcome report :=
  match r_tag r with
  | Some s => if dbg && negb (sev_eqb (sd_sev d) s) then Panic site_report_push
              else Done {| r_buf := r_buf r ++ [d]; r_tag := r_tag r |}
  | None => Done {| r_buf := r_buf r ++ [d]; r_tag := None |}
  end.

Fixpoint push_all (dbg : bool) (r : report) (ds : list sdiag) : outcome report :=
  match ds with
  | [] => Done r
  | d :: rest => obind (push dbg r d) (fun r' => push_all dbg r' rest)
  end.

(* SourceReport::retain (218-220) *)
Definition retain (f : sdiag -> bool) (r : report) : report :=
  {| r_buf := filter f (r_buf r); r_tag := r_tag r |}.

(* SourceReport::has_errors (254-260) *)
Definition has_errors (r : report) : bool :=
  match r_tag r with
  | Some SevWarning => false
  | Some SevError => match r_buf r with [] => false | _ => true end
  | None => existsb sd_is_error (r_buf r)
  end.

(* ---- PassResult ---- *)
Record pass_result (T : Type) := { pr_output : option T; pr_report : report }.
Arguments pr_output {T}.
Arguments pr_report {T}.

Definition has_output {T} (p : pass_result T) : bool :=
  match pr_output p with Some _ => true | None => false end.
Definition is_valid {T} (p : pass_result T) : bool := has_output p && negb (has_errors (pr_report p)).
Definition diags {T} (p : pass_result T) : list sdiag := r_buf (pr_report p).

(* ---- the diagnostics of an event stream ---- *)
Fixpoint pdiags (evs : list pevent) : list diag :=
  match evs with
  | [] => []
  | EvDiag d :: r => d :: pdiags r
  | _ :: r => pdiags r
  end.

Definition is_perror (e : pevent) : bool := match e with EvDiag d => d_err d | _ => false end.

Section Collect.
  Variable St : Type.
  (* what the collector does with a non-diagnostic event: new state and the diagnostics it pushed *)
  Variable astep : St -> pevent -> outcome (St * list sdiag).
  (* the diagnostics pushed after the last event (the deprecation notice of 220-230) *)
  Variable afinish : St -> list sdiag.
  Variable dbg : bool.

  (* RecipeCollector::parse_events (116-233), the diagnostic side *)
  Fixpoint collect (s : St) (ctx : report) (evs : list pevent) : outcome (pass_result St) :=
    match evs with
    | [] => obind (push_all dbg ctx (afinish s)) (fun ctx' =>
            Done {| pr_output := Some s; pr_report := ctx' |})
    | EvDiag d :: r =>
        if d_err d then
          obind (push dbg ctx (of_pdiag d)) (fun ctx1 =>
          obind (push_all dbg ctx1 (map of_pdiag (pdiags r))) (fun ctx2 =>
          Done {| pr_output := None; pr_report := retain sd_is_parse ctx2 |}))
        else obind (push dbg ctx (of_pdiag d)) (fun ctx1 => collect s ctx1 r)
    | e :: r =>
        obind (astep s e) (fun sd =>
        obind (push_all dbg ctx (snd sd)) (fun ctx1 => collect (fst sd) ctx1 r))
    end.

  (* analysis::parse_events: a fresh collector and an empty report *)
  Definition parse_events (init : St) (evs : list pevent) : outcome (pass_result St) :=
    collect init report_empty evs.

  (* the analysis diagnostics reported along a run without parser error, in order *)
  Fixpoint atrace (s : St) (evs : list pevent) : outcome (list sdiag) :=
    match evs with
    | [] => Done (afinish s)
    | EvDiag _ :: r => atrace s r
    | e :: r => obind (astep s e) (fun sd => obind (atrace (fst sd) r) (fun t => Done (snd sd ++ t)))
    end.
End Collect.

(* CooklangParser::parse: the events of the pull-parser model fed to the collector *)
Definition parse (U : N -> ucls) (cfg : pcfg) (St : Type) (astep : St -> pevent -> outcome (St * list sdiag))
    (afinish : St -> list sdiag) (init : St) (s : str) : outcome (pass_result St) :=
  obind (events U cfg s) (fun evs => parse_events St astep afinish (p_debug cfg) init evs).
